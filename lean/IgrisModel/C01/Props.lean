/-
  C01 — PROPERTY THEOREMS: intrusive lists stay well-formed and ordered under
  any operation history.

  The abstract state is a family of pairwise disjoint cyclic sequences
  (`Rings`); `RingsOK h A` says the heap realises it: forward links follow each
  sequence and close it, every successor points back.  `AStep` is the reference
  semantics of every operation (all aliasing cases: moving a node next to
  itself, to its current neighbour, inside one ring, between rings; single
  element rings; popping an empty list).  A list with head `hd` and contents
  `xs` is the ring `hd :: xs`.
-/
import IgrisModel.C01.Refine
import IgrisModel.C01.Slist
import IgrisModel.C01.More
import IgrisModel.C01.Ext3
import IgrisModel.C01.Ext4
import IgrisModel.C01.Ext5
import IgrisModel.C01.Ext6
namespace Igris.C01

/-- a history of the reference semantics -/
inductive ARun : Rings → List Op → Rings → Prop
  | nil (A) : ARun A [] A
  | cons {A B C op ops} : AStep A op B → ARun B ops C → ARun A (op :: ops) C

/-- one operation: the heap operation realises the reference operation -/
theorem step_refines {h : Heap} {A A' : Rings} {op : Op} (ok : RingsOK h A) (st : AStep A op A') :
    RingsOK (exec h op) A' := step_refines_c ok st

/-- HISTORY THEOREM.  For every finite sequence of operations that the
reference semantics admits, over any number of nodes and lists, the heap after
the sequence realises the reference family. -/
theorem run_refines {h : Heap} {A A' : Rings} {ops : List Op} (ok : RingsOK h A) (r : ARun A ops A') :
    RingsOK (run h ops) A' := by
  induction r generalizing h with
  | nil => exact ok
  | cons st _ ih => exact ih (step_refines ok st)

/-- the empty family is realised by every heap (no node is initialised yet) -/
theorem empty_ok (h : Heap) : RingsOK h [] := ⟨by simp, List.Pairwise.nil⟩

/-! ### what a well-formed family means for the observable queries -/

/-- forward traversal yields exactly the reference sequence, backward traversal its
reverse; size, size_reversed, emptiness and membership agree -/
theorem queries_agree {h : Heap} {A : Rings} {hd : Nat} {xs : List Nat} (ok : RingsOK h A)
    (hm : (hd :: xs) ∈ A) (fuel : Nat) (hf : xs.length + 1 < fuel) :
    dlistToList h fuel hd = xs ∧ dlistToListRev h fuel hd = xs.reverse ∧
    dlistSize h fuel hd = xs.length ∧ dlistSizeReversed h fuel hd = xs.length ∧
    (dlistEmpty h hd = true ↔ xs = []) ∧ (∀ x, dlistIn h fuel x hd = true ↔ x ∈ xs) := by
  obtain ⟨a, ys, e, r⟩ := ok.ring _ hm
  injection e with e1 e2; subst e1; subst e2
  have h1 := dlistToList_ring h hd xs r fuel hf
  have h2 := dlistToListRev_ring h hd xs r fuel hf
  refine ⟨h1, h2, by simp [dlistSize, h1], by simp [dlistSizeReversed, h2], ?_, ?_⟩
  · unfold dlistEmpty
    cases xs with
    | nil => have := r.fwd; simp only [Seg] at this; simp [this]
    | cons x xs =>
      have := r.fwd; simp only [Seg] at this
      have hne : x ≠ hd := by
        have := r.nodup; simp only [List.nodup_cons, List.mem_cons, not_or] at this
        exact fun e => this.1.1 e.symm
      simp [this.1, hne]
  · intro x; simp [dlistIn, h1]

/-- the same holds whichever member the ring is read from and wherever it sits in
the family (`Same`) -/
theorem queries_agree_same {h : Heap} {A A' : Rings} {hd : Nat} {xs : List Nat} (ok : RingsOK h A)
    (s : Same A A') (hm : (hd :: xs) ∈ A') (fuel : Nat) (hf : xs.length + 1 < fuel) :
    dlistToList h fuel hd = xs ∧ dlistToListRev h fuel hd = xs.reverse :=
  let q := queries_agree (ok.same s) hm fuel hf
  ⟨q.1, q.2.1⟩

/-- every linked node's neighbours point back at it and stay inside its ring -/
theorem neighbours_point_back {h : Heap} {A : Rings} {r : List Nat} (ok : RingsOK h A) (hr : r ∈ A) :
    ∀ y ∈ r, h.prev (h.next y) = y ∧ h.next (h.prev y) = y ∧ h.next y ∈ r ∧ h.prev y ∈ r := by
  obtain ⟨a, xs, e, ring⟩ := ok.ring r hr
  subst e
  intro y hy
  exact ⟨ring.back y hy, (ring.prev_next y hy).1, ring.next_mem y hy, (ring.prev_next y hy).2⟩

/-- a node that is in no ring (removed with `dlist_del`, destroyed, or never
linked) is reachable from no list: no ring member points at it -/
theorem free_unreachable {h : Heap} {A : Rings} {a : Nat} (ok : RingsOK h A) (hf : Free A a) :
    ∀ r ∈ A, ∀ y ∈ r, h.next y ≠ a ∧ h.prev y ≠ a := by
  intro r hr y hy
  obtain ⟨_, _, hn, hp⟩ := neighbours_point_back ok hr y hy
  exact ⟨fun e => hf r hr (e ▸ hn), fun e => hf r hr (e ▸ hp)⟩

/-- `dlist_del` really removes: afterwards the entry is in no ring of the family -/
theorem del_makes_free {h : Heap} {a x : Nat} {xs : List Nat} {B : Rings}
    (ok : RingsOK h ((a :: x :: xs) :: B)) :
    RingsOK (dlistDel h a) ((x :: xs) :: B) ∧ Free ((x :: xs) :: B) a := ok.del

/-- an unlinked C++ node / a del_init'ed C node is self-linked, and removing it
again is harmless: the heap does not change at all -/
theorem unlinked_is_self_linked_and_idempotent {h : Heap} {a : Nat} {B : Rings}
    (ok : RingsOK h ([a] :: B)) :
    h.next a = a ∧ h.prev a = a ∧ nodeUnlink h a = h ∧ dlistDelInit h a = h := by
  obtain ⟨⟨a', xs', e, r⟩, _, _⟩ := ok.head
  injection e with e1 e2; subst e1; subst e2
  have hn : h.next a = a := r.fwd
  have hp : h.prev a = a := by have := r.back a (by simp); rw [hn] at this; exact this
  obtain ⟨e1, e2⟩ := dlistDelInit_single h a r
  have hd : dlistDelInit h a = h := Heap.ext' e1 e2
  exact ⟨hn, hp, by rw [nodeUnlink_eq_delInit r, hd], hd⟩

/-- `dlist_is_correct` answers true on every list of fewer than 1000 nodes -/
theorem check_steps (h : Heap) (fnd : Nat) (l : List Nat) (it : Nat) (steps count : Nat)
    (hs : Seg h.next it l fnd) (hnot : fnd ∉ l) (hc : l.length < count) :
    dlistCheckAux h fnd count it steps = ((steps + l.length : Nat) : Int) := by
  induction l generalizing it steps count with
  | nil =>
    simp only [Seg] at hs
    match count, hc with
    | c + 1, _ => simp [dlistCheckAux, hs]
  | cons x xs ih =>
    simp only [Seg] at hs
    match count, hc with
    | c + 1, hc =>
      have hx : fnd ≠ x := fun e => hnot (by simp [e])
      simp only [dlistCheckAux, hs.1, hx, if_false]
      rw [ih x (steps + 1) c hs.2 (fun hm => hnot (by simp [hm])) (by simp at hc ⊢; omega)]
      simp only [List.length_cons]; congr 1; omega

theorem is_correct_on_rings {h : Heap} {A : Rings} {hd : Nat} {xs : List Nat} (ok : RingsOK h A)
    (hm : (hd :: xs) ∈ A) (hlen : xs.length < 1000) : dlistIsCorrect h hd = true := by
  obtain ⟨a, ys, e, r⟩ := ok.ring _ hm
  injection e with e1 e2; subst e1; subst e2
  have hnot : hd ∉ xs := (List.nodup_cons.mp r.nodup).1
  have c1 : dlistCheck h hd 1000 = (xs.length : Int) := by
    have := check_steps h hd xs hd 0 1000 r.fwd hnot hlen
    simpa [dlistCheck] using this
  have rf := r.flip
  have hnot' : hd ∉ xs.reverse := by simpa using hnot
  have c2 : dlistCheckReversed h hd 1000 = (xs.length : Int) := by
    have key : ∀ count it steps, dlistCheckRevAux h hd count it steps = dlistCheckAux h.flip hd count it steps := by
      intro count; induction count with
      | zero => intros; rfl
      | succ c ih => intro it steps; simp only [dlistCheckRevAux, dlistCheckAux, ih]; rfl
    have := check_steps h.flip hd xs.reverse hd 0 1000 rf.fwd hnot' (by simpa using hlen)
    simpa [dlistCheckReversed, key] using this
  simp [dlistIsCorrect, c1, c2]

/-! ### historical witnesses of the three repaired defects (models of the old code) -/

/-- `dlist_move` as it was: `__dlist_del` without re-initialising the entry -/
def dlistMoveOrig (h : Heap) (l head : Nat) : Heap :=
  dlistAddNext (dlistDelRaw h (h.prev l) (h.next l)) l head

/-- ring 0 → 2 → 1 → 0 built by `dlist_add_next(1,0); dlist_add_next(2,0)` -/
def ring3 : Heap := dlistAddNext (dlistAddNext ((List.range 3).foldl dlistInit ⟨id, id⟩) 1 0) 2 0

/-- old `dlist_move(0, 0)`: node 2's `prev` still points at 0 although 0 left
the ring (1.next = 2): neighbours no longer point back -/
theorem dlist_move_self_witness :
    (dlistMoveOrig ring3 0 0).next 1 = 2 ∧ (dlistMoveOrig ring3 0 0).prev 2 = 0 ∧
    (dlistMoveOrig ring3 0 0).next 0 = 0 := by decide

/-- the repaired `dlist_move(0, 0)` leaves the ring 1 ↔ 2 and node 0 alone -/
theorem dlist_move_self_fixed :
    (dlistMove ring3 0 0).next 1 = 2 ∧ (dlistMove ring3 0 0).prev 2 = 1 ∧
    (dlistMove ring3 0 0).next 2 = 1 ∧ (dlistMove ring3 0 0).next 0 = 0 ∧ (dlistMove ring3 0 0).prev 0 = 0 := by
  decide

/-- `unlink_and_move_all_nodes_from_other` as it was, applied to an empty source:
the destination head ends up pointing at the source head, which is self-linked -/
def listSpliceOrig (h : Heap) (l oth : Nat) : Heap :=
  let h := nodeUnlink h l
  let h := h.setNext l (h.next oth)
  let h := h.setPrev l (h.prev oth)
  let h := h.setPrev (h.next l) l
  let h := h.setNext (h.prev l) l
  let h := h.setNext oth oth
  h.setPrev oth oth

theorem splice_from_empty_witness :
    (listSpliceOrig ⟨id, id⟩ 0 1).next 0 = 1 ∧ (listSpliceOrig ⟨id, id⟩ 0 1).next 1 = 1 ∧
    (listSplice ⟨id, id⟩ 0 1).next 0 = 0 := by decide

end Igris.C01

namespace Igris.C01
-- non-vacuity: the reference semantics admits a history with the aliasing cases
-- (re-insertion after removal, move onto itself, move onto the current neighbour)
example : ARun [] [.cinit 0, .cinit 1, .cinit 2, .caddNext 1 0, .caddPrev 2 0, .cmove 1 1, .cmove 2 0, .cdel 2,
    .caddNext 2 0] [[0, 2], [1]] := by
  refine .cons (.cinitFree (by simp [Free])) ?_
  refine .cons (.cinitFree (by simp [Free])) ?_
  refine .cons (.cinitFree (by simp [Free])) ?_
  -- [[2],[1],[0]]
  refine .cons (.caddNext (lnk := 1) (head := 0) (ys := []) (B := [[2]])
    (.perm (by decide))) ?_
  -- [[0,1],[2]]
  refine .cons (.caddPrev (lnk := 2) (head := 0) (ys := [1]) (B := []) (.perm (by decide))) ?_
  -- [[0,1,2]]
  refine .cons (.cmoveSelf (a := 1) (x := 2) (xs := [0]) (B := [])
    (.rot (l1 := [0]) (b := 1) (l2 := [2]) (B := []))) ?_
  -- [[1],[2,0]]
  refine .cons (.cmoveSame (l := 2) (pre := []) (head := 0) (post := []) (B := [[1]]) (.perm (by decide))) ?_
  -- [[0,2],[1]]
  refine .cons (.cdel (a := 2) (x := 0) (xs := []) (B := [[1]])
    (.rot (l1 := [0]) (b := 2) (l2 := []) (B := [[1]]))) ?_
  -- [[0],[1]]
  refine .cons (.caddNextFree (lnk := 2) (head := 0) (ys := []) (B := [[1]]) (.refl _) (by simp [Free])) ?_
  exact .nil _
end Igris.C01

namespace Igris.C01
/-! ### slist (igris/datastruct/slist.h) -/

/-- traversal of a well-formed slist yields the reference sequence -/
theorem slist_traversal (h : SHeap) (head : Nat) (xs : List Nat) (r : SRing h head xs) (fuel : Nat)
    (hf : xs.length + 1 < fuel) : slistToList h fuel head = xs := slistToList_ring h head xs r fuel hf

/-- `slist_add` / `add_first` puts a node that is not in the list in front; nothing else is written -/
theorem slist_add_refines (h : SHeap) (link head : Nat) (xs : List Nat) (r : SRing h head xs)
    (hl : link ∉ head :: xs) :
    SRing (slistAdd h link head) head (link :: xs) ∧
    (∀ y, y ∉ [link, head] → (slistAdd h link head).next y = h.next y) := slistAdd_ring h link head xs r hl

/-- `slist_pop_first` unlinks and returns the first element, NULL on an empty list (state unchanged) -/
theorem slist_pop_refines (h : SHeap) (head : Nat) :
    (∀ x xs, SRing h head (x :: xs) →
      (slistPopFirst h head).2 = some x ∧ SRing (slistPopFirst h head).1 head xs) ∧
    (SRing h head [] → slistPopFirst h head = (h, none)) :=
  ⟨fun x xs r => slistPopFirst_ring h head x xs r, slistPopFirst_empty h head⟩
end Igris.C01

namespace Igris.C01
/-! ### slist::move_front, dlist_move_sorted, hlist (lemmas in More.lean) -/

/-- `igris::slist::move_front(n)`: whether or not the node is already in this list (and
wherever it is), afterwards it is the first element exactly once and the other
elements keep their order -/
theorem slist_move_front_refines (h : SHeap) (head n : Nat) (fuel : Nat) :
    (∀ xs, SRing h head xs → n ∉ head :: xs → xs.length < fuel →
      SRing (slistMoveFront h fuel n head) head (n :: xs)) ∧
    (∀ pre post, SRing h head (pre ++ n :: post) → pre.length < fuel →
      SRing (slistMoveFront h fuel n head) head (n :: (pre ++ post))) :=
  ⟨fun xs r hn hf => slistMoveFront_absent h head n xs r hn fuel hf,
   fun pre post r hf => slistMoveFront_present h head n pre post r fuel hf⟩

/-- `dlist_move_sorted(added, head, member, comparator)` for ANY comparator: the lone
entry is linked in front of the first entry for which the comparator answers true
(at the tail when there is none); all other entries and all other rings are untouched -/
theorem move_sorted_refines {h : Heap} {cmp : Nat → Nat → Bool} {added head : Nat} {xs : List Nat} {B : Rings}
    (ok : RingsOK h ([added] :: (head :: xs) :: B)) (fuel : Nat) (hf : xs.length + 1 < fuel) :
    RingsOK (dlistMoveSorted h cmp fuel added head)
      ((head :: (xs.takeWhile (fun y => !cmp added y) ++ added :: xs.dropWhile (fun y => !cmp added y))) :: B) :=
  moveSorted_ok ok fuel hf

/-- with the comparator `key added < key pos` a list sorted by `key` stays sorted
(ties: after the entries with an equal key) -/
theorem move_sorted_keeps_sorted (key : Nat → Int) (added : Nat) (xs : List Nat)
    (hs : xs.Pairwise (fun a b => key a ≤ key b)) :
    (xs.takeWhile (fun y => !decide (key added < key y)) ++
      added :: xs.dropWhile (fun y => !decide (key added < key y))).Pairwise (fun a b => key a ≤ key b) :=
  moveSorted_sorted key added xs hs

/-- `hlist_for_each` visits the contents in order -/
theorem hlist_traversal {h : HHeap} {l : Nat} {xs : List Nat} (r : HList h l xs) (fuel : Nat)
    (hf : xs.length < fuel) : hlistToList h fuel l = xs := hlistToList_list r fuel hf

/-- `hlist_add_next` at the head location pushes in front, at `&p->next` inserts right
after `p`; `hlist_del` of a member removes exactly it; every `pprev` keeps
pointing at the location that points at its node (that is `HList`) -/
theorem hlist_ops_refine {h : HHeap} {l n : Nat} :
    (∀ xs, HList h l xs → n ∉ xs → HList (hlistAddNext h n (.headFirst l)) l (n :: xs)) ∧
    (∀ p pre post, HList h l (pre ++ p :: post) → n ∉ pre ++ p :: post →
      HList (hlistAddNext h n (.nodeNext p)) l (pre ++ p :: n :: post)) ∧
    (∀ pre post, HList h l (pre ++ n :: post) → HList (hlistDel h n) l (pre ++ post)) ∧
    (h.pprev n = none → hlistDel h n = h) :=
  ⟨fun _ r hn => hlist_add_front r hn, fun _ _ _ r hn => hlist_add_after r hn,
   fun _ _ r => hlist_del_member r, hlist_del_unlinked h n⟩

/-- a removal from one hlist leaves every other (disjoint) hlist as it was -/
theorem hlist_other_lists_untouched {h : HHeap} {l l2 n : Nat} {pre post ys : List Nat}
    (r : HList h l (pre ++ n :: post)) (r2 : HList h l2 ys) (hl : l ≠ l2)
    (hd : ∀ y ∈ ys, y ∉ pre ++ n :: post) : HList (hlistDel h n) l2 ys := hlist_frame_del r r2 hl hd

-- non-vacuity: an empty hlist exists, and two pushes + an insertion + a removal go through
example : HList (hlistHeadInit ⟨fun _ => none, fun _ => none, fun _ => none⟩ 0) 0 [] :=
  ⟨by simp, by simp [HChain, hlistHeadInit]⟩
example (h : HHeap) (r : HList h 0 []) :
    HList (hlistDel (hlistAddNext (hlistAddNext (hlistAddNext h 1 (.headFirst 0)) 2 (.headFirst 0)) 3 (.nodeNext 2)) 2)
      0 [3, 1] := by
  have r1 := hlist_add_front (n := 1) r (by simp)
  have r2 := hlist_add_front (n := 2) r1 (by simp)
  have r3 := hlist_add_after (n := 3) (p := 2) (pre := []) (post := [1]) r2 (by simp)
  exact hlist_del_member (n := 2) (pre := []) (post := [3, 1]) r3
end Igris.C01

namespace Igris.C01
/-! ## EXTENSION: bounded walks on corrupted rings, container_of, entry iteration, `_safe` loops,
the typed C++ wrapper, the frame property over histories, C++/slist queries (lemmas in Ext*.lean) -/

/-- `dlist_check(fnd, count)` / `dlist_check_reversed` on ANY heap (also a corrupted one): the
number of steps after which the forward / backward walk first comes back to `fnd`, when that
happens within `count` steps; -1 when it does not -/
theorem check_result (h : Heap) (fnd count : Nat) :
    WalkResult h.next fnd count (dlistCheck h fnd count) ∧
    WalkResult h.prev fnd count (dlistCheckReversed h fnd count) :=
  ⟨dlistCheck_result h fnd count, dlistCheckReversed_result h fnd count⟩

/-- `dlist_is_correct(head)` on ANY heap is true iff the forward walk and the backward walk
both first return to `head` after the same number of steps, fewer than 1000 -/
theorem is_correct_iff (h : Heap) (hd : Nat) :
    dlistIsCorrect h hd = true ↔ ∃ n, n < 1000 ∧ FirstHit h.next hd hd n ∧ FirstHit h.prev hd hd n :=
  isCorrect_iff h hd

/-- a well-formed ring with 1000 or more elements is rejected (converse of `is_correct_on_rings`) -/
theorem is_correct_false_on_long_rings {h : Heap} {A : Rings} {hd : Nat} {xs : List Nat} (ok : RingsOK h A)
    (hm : (hd :: xs) ∈ A) (hlen : 1000 ≤ xs.length) : dlistIsCorrect h hd = false := by
  obtain ⟨a, ys, e, r⟩ := ok.ring _ hm
  injection e with e1 e2; subst e1; subst e2
  exact isCorrect_false_of_long r hlen

/-- the four-node heap whose backward links are a copy of the forward links -/
def corrupt4 : Heap := ⟨fun x => (x + 1) % 4, fun x => (x + 1) % 4⟩

/-- `dlist_is_correct` only compares the two walk lengths: it accepts this ring although no
neighbour points back (`prev (next 0) = 2`) -/
theorem is_correct_accepts_corrupt_witness :
    dlistIsCorrect corrupt4 0 = true ∧ corrupt4.prev (corrupt4.next 0) = 2 := by decide

/-- container_of ∘ member = id and member ∘ container_of = id, for every 64-bit object
address and every offset (the subtraction wraps) -/
theorem container_of_member (e p off : Addr) :
    mcastOut (mcastIn e off) off = e ∧ mcastIn (mcastOut p off) off = p :=
  ⟨mcastOut_mcastIn e off, mcastIn_mcastOut p off⟩

/-- one object on two lists: its two link members are different nodes, and container_of
through either member gives back the one object -/
theorem two_members_one_object (e o1 o2 : Addr) (hne : o1 ≠ o2) :
    mcastIn e o1 ≠ mcastIn e o2 ∧ mcastOut (mcastIn e o1) o1 = mcastOut (mcastIn e o2) o2 :=
  ⟨mcastIn_inj_off e o1 o2 hne, by rw [mcastOut_mcastIn, mcastOut_mcastIn]⟩

/-- `dlist_for_each_entry` / `_reverse` through a member at ANY offset visits the objects of the
list's elements, each exactly once, in order / in reverse order -/
theorem for_each_entry_visits_objects {h : Heap} {A : Rings} {hd : Nat} {xs : List Nat} (ok : RingsOK h A)
    (hm : (hd :: xs) ∈ A) (hb : ∀ y ∈ hd :: xs, y < 2 ^ 64) (off : Addr) (fuel : Nat) (hf : xs.length + 1 < fuel) :
    dlistForEachEntry h fuel (BitVec.ofNat 64 hd) off = xs.map (entryOf off) ∧
    dlistForEachEntryReverse h fuel (BitVec.ofNat 64 hd) off = xs.reverse.map (entryOf off) := by
  obtain ⟨a, ys, e, r⟩ := ok.ring _ hm
  injection e with e1 e2; subst e1; subst e2
  exact ⟨forEachEntry_ring r hb off fuel hf, forEachEntryReverse_ring r hb off fuel hf⟩

/-- `dlist_first_entry` / `last_entry` / `next_entry` / `prev_entry` are the objects of the
`next` / `prev` nodes -/
theorem entry_neighbours (h : Heap) (off : Addr) {p : Nat} (hp : p < 2 ^ 64) :
    dlistFirstEntry h (BitVec.ofNat 64 p) off = entryOf off (h.next p) ∧
    dlistLastEntry h (BitVec.ofNat 64 p) off = entryOf off (h.prev p) ∧
    dlistNextEntry h (entryOf off p) off = entryOf off (h.next p) ∧
    dlistPrevEntry h (entryOf off p) off = entryOf off (h.prev p) := by
  refine ⟨?_, ?_, nextEntry_entryOf h off hp, prevEntry_entryOf h off hp⟩
  · simp [dlistFirstEntry, Heap.nextA, entryOf, ofNat_toNat_small hp]
  · simp [dlistLastEntry, Heap.prevA, entryOf, ofNat_toNat_small hp]

/-- `dlist_for_each_safe` whose body deletes (`dlist_del_init`) the current element whenever
`del` says so — for ANY predicate: every element is still visited exactly once, in order; the
kept elements stay in order, every deleted one is alone, all other rings are untouched -/
theorem for_each_safe_tolerates_deletion {h : Heap} {hd : Nat} {xs : List Nat} {B : Rings} (del : Nat → Bool)
    (ok : RingsOK h ((hd :: xs) :: B)) (fuel : Nat) (hf : xs.length < fuel) :
    (dlistForEachSafe (fun h pos => if del pos then dlistDelInit h pos else h) h fuel hd).2 = xs ∧
    RingsOK (dlistForEachSafe (fun h pos => if del pos then dlistDelInit h pos else h) h fuel hd).1
      ((hd :: xs.filter (fun x => !del x)) :: ((xs.filter del).map fun x => [x]) ++ B) := by
  obtain ⟨⟨a', xs', e, r⟩, _, _⟩ := ok.head
  injection e with e1 e2; subst e1; subst e2
  have hn : h.next hd = xs.headD hd := seg_next_headD r.fwd
  have := forEachSafe_del del _ (fun _ _ _ _ => rfl) hd xs [] B h fuel (by simpa using ok) hf
  unfold dlistForEachSafe
  rw [hn]; simpa using this

/-- the C++ erase-while-iterating pattern `cur = it++; if (pred(*cur)) pop(*cur);` -/
theorem erase_while_iterating {h : Heap} {l : Nat} {xs : List Nat} {B : Rings} (del : Nat → Bool)
    (ok : RingsOK h ((l :: xs) :: B)) (fuel : Nat) (hf : xs.length < fuel) :
    (listEraseIf del h fuel l).2 = xs ∧
    RingsOK (listEraseIf del h fuel l).1
      ((l :: xs.filter (fun x => !del x)) :: ((xs.filter del).map fun x => [x]) ++ B) := by
  obtain ⟨⟨a', xs', e, r⟩, _, _⟩ := ok.head
  injection e with e1 e2; subst e1; subst e2
  have hn : h.next l = xs.headD l := seg_next_headD r.fwd
  have hb : DelBody del (fun h pos => if del pos then nodeUnlink h pos else h) := by
    intro h a ys ra; simp only []; rw [nodeUnlink_eq_delInit ra]
  have := forEachSafe_del del _ hb l xs [] B h fuel (by simpa using ok) hf
  unfold listEraseIf dlistForEachSafe
  rw [hn]; simpa using this

/-- the plain `dlist_for_each` does NOT tolerate it: after `dlist_del_init` of the current
element `pos->next` is `pos` itself, the loop stays on the deleted node for ever -/
theorem for_each_unsafe_delete_witness :
    (forEachUnsafe (fun h p => dlistDelInit h p) 0 6 ring3 (ring3.next 0)).2 = [2, 2, 2, 2, 2, 2] := by decide

/-- typed wrapper: `pop(obj)`, `move_next/prev(obj, node)`, `move_next/prev(obj, iterator)` act on the
node `&(obj.*member)`; `*it` followed by `.*member` gives back the iterator's node -/
theorem typed_wrapper_acts_on_member (h : Heap) (off : Addr) {p it : Nat} (hp : p < 2 ^ 64) (hit : it < 2 ^ 64) (node : Nat) :
    listPop h (entryOf off p) off = nodeUnlink h p ∧
    listMoveNext h (entryOf off p) off node = nodeMoveNextThan h p node ∧
    listMovePrev h (entryOf off p) off node = nodeMovePrevThan h p node ∧
    listMoveNextIt h (entryOf off p) off (BitVec.ofNat 64 it) = nodeMoveNextThan h p it ∧
    listMovePrevIt h (entryOf off p) off (BitVec.ofNat 64 it) = nodeMovePrevThan h p it := by
  simp [listPop, listMoveNext, listMovePrev, listMoveNextIt, listMovePrevIt, iterDeref, entryOf, mcastIn_mcastOut,
    ofNat_toNat_small hp, ofNat_toNat_small hit]

/-- iterators on a well-formed list: `++` then `--` (and `--` then `++`) come back to the same
iterator, from every position including `end()` -/
theorem iter_inc_dec {h : Heap} {A : Rings} {r : List Nat} (ok : RingsOK h A) (hr : r ∈ A) :
    ∀ it ∈ r, iterDec h (iterInc h it) = it ∧ iterInc h (iterDec h it) = it ∧
      riterDec h (riterInc h it) = it ∧ riterInc h (riterDec h it) = it := by
  intro it hit
  obtain ⟨h1, h2, _, _⟩ := neighbours_point_back ok hr it hit
  exact ⟨h1, h2, h2, h1⟩

/-- `round_left()` moves the first element to the back -/
theorem round_left_refines {h : Heap} {l x : Nat} {xs : List Nat} {B : Rings}
    (ok : RingsOK h ((l :: x :: xs) :: B)) : RingsOK (listRoundLeft h l) ((l :: (xs ++ [x])) :: B) := by
  obtain ⟨⟨a', xs', e, r⟩, _, _⟩ := ok.head
  injection e with e1 e2; subst e1; subst e2
  have hn : h.next l = x := by have := r.fwd; simp only [Seg] at this; exact this.1
  unfold listRoundLeft
  rw [hn, (cpp_move_eq ok ⟨_, List.mem_cons_self, by simp⟩ ⟨_, List.mem_cons_self, by simp⟩).2]
  have okr : RingsOK h ((x :: (xs ++ l :: [])) :: B) := by
    have : RingsOK h (([l] ++ x :: xs) :: B) := by simpa using ok
    exact this.rotN
  simpa using moveTail_same okr

/-- C++ `size()` = `circular_size() - 1` and `is_correct()` = (`circular_size() ==
reverse_circular_size()`) on a well-formed list -/
theorem cpp_size_is_correct {h : Heap} {A : Rings} {l : Nat} {xs : List Nat} (ok : RingsOK h A)
    (hm : (l :: xs) ∈ A) (fuel : Nat) (hf : xs.length < fuel) :
    circularSize h fuel l - 1 = xs.length ∧ circularSize h fuel l = reverseCircularSize h fuel l := by
  obtain ⟨a, ys, e, r⟩ := ok.ring _ hm
  injection e with e1 e2; subst e1; subst e2
  rw [circularSize_ring r fuel hf, reverseCircularSize_ring r fuel hf]
  exact ⟨by omega, rfl⟩

/-! ### frame: operations on some lists never change the others -/

/-- one step: a ring none of whose members is an argument of the operation is, afterwards,
still a ring of the family with the same cyclic sequence (the sequence after the operation is
the sequence before with exactly the specified edit — nothing else moves) -/
theorem untouched_ring_step {A A' : Rings} {op : Op} (st : AStep A op A') {r : List Nat} (hr : r ∈ A)
    (ha : ∀ a ∈ op.args, a ∉ r) : ∃ r' ∈ A', SameRing r r' := st.untouched r hr ha

/-- FRAME THEOREM over histories.  Take any ring of the initial family (a list with all its
elements — e.g. the list threaded through the OTHER link member of the objects) and any
history of the reference semantics none of whose operations names a node of that ring: after
the whole history every node of the ring has exactly the `next` and `prev` it had before. -/
theorem frame_run {h : Heap} {A A' : Rings} {ops : List Op} (ok : RingsOK h A) (run' : ARun A ops A')
    {r : List Nat} (hr : r ∈ A) (ha : ∀ op ∈ ops, ∀ a ∈ op.args, a ∉ r) :
    ∀ y ∈ r, (run h ops).next y = h.next y ∧ (run h ops).prev y = h.prev y := by
  -- the ring survives the abstract history
  have surv : ∃ r' ∈ A', SameRing r r' := by
    clear ok
    induction run' generalizing r with
    | nil => exact ⟨r, hr, SameRing.refl r⟩
    | cons st _ ih =>
      obtain ⟨r1, h1, s1⟩ := st.untouched r hr (ha _ (by simp))
      obtain ⟨r2, h2, s2⟩ := ih h1 (fun op hop a haa hm => ha op (by simp [hop]) a haa ((s1.1 a).mpr hm))
      exact ⟨r2, h2, s1.trans s2⟩
  obtain ⟨r', hr', sr⟩ := surv
  have ok' := run_refines ok run'
  have e1 : RingL h r := ok.ring r hr
  have e2 : RingL (run h ops) r := (sr.2 _).mpr (ok'.ring r' hr')
  obtain ⟨a, xs, e, ring1⟩ := e1
  obtain ⟨a', xs', e', ring2⟩ := e2
  subst e
  injection e' with ea exs; subst ea; subst exs
  exact ring_determines_fields ring1 ring2

/-- one object on two lists: the history works on the lists threaded through the member at
offset `o1`; the list through the member at offset `o2` (ring `r`, made of `o2`-member nodes
and its head) keeps every link field -/
theorem two_lists_frame {h : Heap} {A A' : Rings} {ops : List Op} (ok : RingsOK h A) (run' : ARun A ops A')
    {r : List Nat} (hr : r ∈ A) (ha : ∀ op ∈ ops, ∀ a ∈ op.args, a ∉ r) (e o2 : Addr)
    (hm : (mcastIn e o2).toNat ∈ r) :
    (run h ops).next (mcastIn e o2).toNat = h.next (mcastIn e o2).toNat ∧
    (run h ops).prev (mcastIn e o2).toNat = h.prev (mcastIn e o2).toNat :=
  frame_run ok run' hr ha _ hm

/-! ### what the reference semantics does NOT admit (Linux-style contract) -/

/-- `run_refines` under its real name: the histories are those the reference semantics admits;
C `dlist_add_next/prev`, `dlist_insert_instead(iter, ·)` and `dlist_move_sorted(added, ·)` of an
entry that is currently LINKED are not admitted (contract of the Linux list API; the C++
`move_next_than/move_prev_than` and C `dlist_move/_tail` unlink first and ARE admitted for linked
nodes, see `cmoveSame/cmoveOther`).  `add_linked_witness` shows what the code does there. -/
theorem run_refines_partial {h : Heap} {A A' : Rings} {ops : List Op} (ok : RingsOK h A) (r : ARun A ops A') :
    RingsOK (run h ops) A' := run_refines ok r

/-- `dlist_add_next(1, 0)` on the ring 0 → 2 → 1 with node 1 still linked: afterwards
1 → 2 → 1 is a cycle that no longer contains the head; a traversal from 0 never returns -/
theorem add_linked_witness :
    (dlistAddNext ring3 1 0).next 0 = 1 ∧ (dlistAddNext ring3 1 0).next 1 = 2 ∧ (dlistAddNext ring3 1 0).next 2 = 1 ∧
    (dlistToList (dlistAddNext ring3 1 0) 50 0).length = 50 := by decide

/-- an unlinked / del_init'ed / destroyed node (a ring of its own) is reachable from no other
list: no member of another ring points at it -/
theorem unlinked_unreachable {h : Heap} {a : Nat} {B : Rings} (ok : RingsOK h ([a] :: B)) :
    ∀ r ∈ B, ∀ y ∈ r, h.next y ≠ a ∧ h.prev y ≠ a := by
  intro r hr y hy
  obtain ⟨_, d, _⟩ := ok.head
  obtain ⟨_, _, hn, hp⟩ := neighbours_point_back ok (List.mem_cons_of_mem _ hr) y hy
  exact ⟨fun e => d r hr a (by simp) (e ▸ hn), fun e => d r hr a (by simp) (e ▸ hp)⟩

/-! ### slist / hlist: initialisation, queries, other lists untouched -/

/-- `slist_init` / `igris::slist()` make an empty list; `hlist_head_init` too -/
theorem list_init_empty (sh : SHeap) (hh : HHeap) (a : Nat) :
    SRing (slistInit sh a) a [] ∧ HList (hlistHeadInit hh a) a [] :=
  ⟨slistInit_ring sh a, ⟨by simp, by simp [HChain, hlistHeadInit, HHeap.read, HHeap.write]⟩⟩

/-- `slist_size`, `slist_in`, `slist_empty` agree with the reference sequence -/
theorem slist_queries_agree (h : SHeap) (head : Nat) (xs : List Nat) (r : SRing h head xs) (fuel : Nat)
    (hf : xs.length + 1 < fuel) :
    slistSize h fuel head = xs.length ∧ (∀ x, slistIn h fuel head x = true ↔ x ∈ xs) ∧
    (slistEmpty h head = true ↔ xs = []) := by
  have h1 := slistToList_ring h head xs r fuel hf
  refine ⟨by simp [slistSize, h1], fun x => by simp [slistIn, h1], ?_⟩
  unfold slistEmpty
  cases xs with
  | nil => have := r.fwd; simp only [Seg] at this; simp [this]
  | cons x xs =>
    have := r.fwd; simp only [Seg] at this
    have hne : x ≠ head := by
      have := r.nodup; simp only [List.nodup_cons, List.mem_cons, not_or] at this
      exact fun e => this.1.1 e.symm
    simp [this.1, hne]

/-- slist frame: `slist_add`, `slist_pop_first`, `move_front` on the list `head` leave every
other list (disjoint from the written nodes) exactly as it was -/
theorem slist_other_lists_untouched (h : SHeap) (head head2 n : Nat) (xs ys : List Nat) (r : SRing h head xs)
    (r2 : SRing h head2 ys) (hd : ∀ y ∈ head2 :: ys, y ∉ n :: head :: xs) (fuel : Nat) (hf : xs.length < fuel) :
    SRing (slistAdd h n head) head2 ys ∧ SRing (slistPopFirst h head).1 head2 ys ∧
    SRing (slistMoveFront h fuel n head) head2 ys := by
  refine ⟨r2.congr ?_, r2.congr ?_, r2.congr ?_⟩
  · intro y hy
    have := hd y hy; simp only [List.mem_cons, not_or] at this
    exact slistAdd_frame h n head y this.1 this.2.1
  · intro y hy
    have := hd y hy; simp only [List.mem_cons, not_or] at this
    exact slistPopFirst_frame h head y this.2.1
  · intro y hy
    exact slistMoveFront_frame h head n xs r fuel hf y (hd y hy)

/-- lists 0 = [2] and 1 = [] -/
def twoSlists : SHeap := slistAdd (slistInit (slistInit ⟨id⟩ 0) 1) 2 0

/-- `igris::slist::move_front(n)` of a node that is linked in ANOTHER slist (a singly linked
node cannot know its owner; the repaired code unlinks from THIS list only): list 1 gets the
node, but list 0 is corrupted — its traversal runs 2 → 1 → 2 → … and never returns to head 0.
Contract: `move_front` wants a node of this list or of no list (finding
C01-slist-move-front-foreign). -/
theorem slist_move_front_foreign_witness :
    slistToList (slistMoveFront twoSlists 10 2 1) 10 1 = [2] ∧
    slistToList (slistMoveFront twoSlists 10 2 1) 8 0 = [2, 1, 2, 1, 2, 1, 2, 1] := by decide

/-- hlist frame for insertion (for removal see `hlist_other_lists_untouched`) -/
theorem hlist_add_other_lists_untouched {h : HHeap} {l2 n : Nat} {ys : List Nat} (L : Loc) (r2 : HList h l2 ys)
    (hL : L ≠ .nodeNext n) (hn : n ∉ ys) (h1 : L ≠ .headFirst l2) (h2 : ∀ y ∈ ys, L ≠ .nodeNext y)
    (h3 : ∀ y ∈ ys, h.read L ≠ some y) : HList (hlistAddNext h n L) l2 ys :=
  hlist_frame_add L r2 hL hn h1 h2 h3

-- non-vacuity
example : RingsOK ring3 [[0, 2, 1]] := by
  refine ⟨?_, by simp⟩
  intro r hr; simp at hr; subst hr
  exact ⟨0, [2, 1], rfl, ⟨by decide, by simp only [Seg]; decide, by decide⟩⟩
example : ARun [[0, 2, 1], [5]] [.cmove 2 0, .cdelInit 1] [[1], [0, 2], [5]] := by
  refine .cons (.cmoveSame (l := 2) (pre := [1]) (head := 0) (post := []) (B := [[5]])
    (.rot (l1 := [0]) (b := 2) (l2 := [1]) (B := [[5]]))) ?_
  refine .cons (.cdelInit (a := 1) (x := 0) (xs := [2]) (B := [[5]])
    (.rot (l1 := [0, 2]) (b := 1) (l2 := []) (B := [[5]]))) ?_
  exact .nil _
example : FirstHit ring3.next 0 0 2 ∧ FirstHit ring3.prev 0 0 2 := by
  refine ⟨⟨by decide, ?_⟩, ⟨by decide, ?_⟩⟩ <;> intro j hj <;> (have : j = 0 ∨ j = 1 := by omega) <;>
    rcases this with rfl | rfl <;> decide
example : SRing twoSlists 0 [2] ∧ SRing twoSlists 1 [] :=
  ⟨⟨by decide, by simp only [Seg]; decide⟩, ⟨by decide, by simp only [Seg]; decide⟩⟩
end Igris.C01

namespace Igris.C01
/-! ## EXTENSION 2: history theorems for slist and hlist, enabledness of the three reference
semantics, `dlist_move_sorted` inside the operation language, the entry-level `_safe` loop, the
`int` size counters (lemmas in SHist.lean, HHist.lean, Enabled.lean, Ext4.lean) -/

/-! ### slist histories -/

/-- the empty family is realised by every slist heap -/
theorem slist_empty_ok (h : SHeap) : SFamOK h [] := ⟨by simp, List.Pairwise.nil⟩

/-- one slist operation realises the reference operation on the family of lists -/
theorem slist_step_refines {h : SHeap} {F F' : SFam} {op : SOp} (ok : SFamOK h F) (st : SStep F op F') :
    SFamOK (sexec h op) F' := sstep_refines ok st

/-- SLIST HISTORY THEOREM.  For every finite sequence of `slist_init`, `slist_add` / `add_first`
(after a head or after any element), `slist_pop_first` (also on an empty list), `move_front` (of an
element anywhere in the list, of a node in no list, of an empty list) and re-initialisation of a
head (= clear) that the reference semantics admits, over any number of lists and nodes, the heap
after the sequence realises the reference family: every list is a singly linked ring through its
contents in order, different lists share no node. -/
theorem slist_run_refines {h : SHeap} {F F' : SFam} {ops : List SOp} (ok : SFamOK h F) (r : SRun F ops F') :
    SFamOK (srun h ops) F' := srun_refines ok r

/-- on EVERY reachable state (any history from the empty family, on any initial heap) the queries
agree with the reference: `slist_for_each` / the `igris::slist` iterators visit the contents in
order, `slist_size`, `slist_in`, `slist_empty` / `empty()` agree, `slist_pop_first` returns the first
element (NULL on an empty list) -/
theorem slist_reachable_queries (h0 : SHeap) {ops : List SOp} {F : SFam} (r : SRun [] ops F)
    {hd : Nat} {xs : List Nat} (hm : (hd, xs) ∈ F) (fuel : Nat) (hf : xs.length + 1 < fuel) :
    slistToList (srun h0 ops) fuel hd = xs ∧ slistSize (srun h0 ops) fuel hd = xs.length ∧
    (∀ x, slistIn (srun h0 ops) fuel hd x = true ↔ x ∈ xs) ∧ (slistEmpty (srun h0 ops) hd = true ↔ xs = []) ∧
    (slistPopFirst (srun h0 ops) hd).2 = xs.head? := by
  have ok := slist_run_refines (slist_empty_ok h0) r
  have ring : SRing (srun h0 ops) hd xs := ok.ring _ hm
  have q := slist_queries_agree _ hd xs ring fuel hf
  refine ⟨slist_traversal _ hd xs ring fuel hf, q.1, q.2.1, q.2.2, ?_⟩
  cases xs with
  | nil => rw [slistPopFirst_empty _ hd ring]; rfl
  | cons x xs => rw [(slistPopFirst_ring _ hd x xs ring).1]; rfl

/-- ENABLEDNESS (slist): the calls the reference semantics admits are exactly those satisfying the
decidable predicate `SAdmitted` (written on the family alone: init — node in no list or a head;
add — the new node in no list or an empty list, the position a head or an element; pop_first — a
head; move_front — an element of this list / a node of no list / an empty list, bound above the length) -/
theorem slist_admitted_iff {F : SFam} (w : SFamWF F) (op : SOp) : SAdmitted F op ↔ ∃ F', SStep F op F' :=
  ⟨step_of_sadmitted, fun ⟨_, st⟩ => sadmitted_of_step w st⟩

/-- every reachable slist family is well-formed, so `slist_admitted_iff` applies on every reachable state -/
theorem slist_reachable_wf (h0 : SHeap) {ops : List SOp} {F : SFam} (r : SRun [] ops F) : SFamWF F :=
  (slist_run_refines (slist_empty_ok h0) r).wf

-- non-vacuity: two lists, insertion at the head and after an element, move_front of an own element and
-- of a node in no list, pop, re-initialisation of a non-empty head
example : SRun [] [.init 0, .init 1, .add 2 0, .add 3 0, .add 4 3, .moveFront 10 2 0, .popFirst 0, .add 2 1,
    .moveFront 10 5 1, .init 0, .popFirst 0] [(0, []), (1, [5, 2])] := by
  refine .cons (.initFree (by simp [SFree])) ?_
  refine .cons (.initFree (by decide)) ?_
  refine .cons (.addFirst (hd := 0) (xs := []) (B := [(1, [])]) (.swap _ _ _) (by decide)) ?_
  refine .cons (.addFirst (hd := 0) (xs := [2]) (B := [(1, [])]) (.refl _) (by decide)) ?_
  refine .cons (.addAfter (hd := 0) (p := 3) (pre := []) (post := [2]) (B := [(1, [])]) (.refl _) (by decide)) ?_
  refine .cons (.moveFrontOwn (hd := 0) (pre := [3, 4]) (post := []) (B := [(1, [])]) (.refl _) (by decide)) ?_
  refine .cons (.pop (hd := 0) (x := 2) (xs := [3, 4]) (B := [(1, [])]) (.refl _)) ?_
  refine .cons (.addFirst (hd := 1) (xs := []) (B := [(0, [3, 4])]) (.swap _ _ _) (by decide)) ?_
  refine .cons (.moveFrontAbsent (hd := 1) (xs := [2]) (B := [(0, [3, 4])]) (.refl _) (by decide) (by decide)) ?_
  refine .cons (.initHead (a := 0) (xs := [3, 4]) (B := [(1, [5, 2])]) (.swap _ _ _)) ?_
  refine .cons (.popEmpty (hd := 0) (B := [(1, [5, 2])]) (.refl _)) ?_
  exact .nil _
example : SAdmitted [(0, [3, 4]), (1, [])] (.add 7 3) ∧ ¬ SAdmitted [(0, [3, 4]), (1, [])] (.add 4 1) ∧
    ¬ SAdmitted [(0, [3, 4]), (1, [])] (.moveFront 10 4 1) ∧ SAdmitted [(0, [3, 4]), (1, [])] (.moveFront 10 4 0) := by
  decide

/-! ### hlist histories -/

theorem hlist_empty_ok (h : HHeap) : HFamOK h ⟨[], []⟩ :=
  ⟨by simp, List.Pairwise.nil, List.Pairwise.nil, by simp⟩

theorem hlist_step_refines {h : HHeap} {F F' : HFam} {op : HOp} (ok : HFamOK h F) (st : HStep F op F') :
    HFamOK (hexec h op) F' := hstep_refines ok st

/-- HLIST HISTORY THEOREM.  For every finite sequence of `hlist_head_init` (new head or
re-initialisation), `hlist_node_init`, `hlist_add_next` at ANY location (`&head->first` or `&p->next`
of any element), `hlist_del` of an element or of an idle node, that the reference semantics admits,
over any number of heads and nodes: every list is a chain from `head->first` to NULL through its
contents in order in which every `pprev` is the location that points at its node; lists share no
node; every idle node has `pprev == NULL`. -/
theorem hlist_run_refines {h : HHeap} {F F' : HFam} {ops : List HOp} (ok : HFamOK h F) (r : HRun F ops F') :
    HFamOK (hrun h ops) F' := hrun_refines ok r

/-- on EVERY reachable state: `hlist_for_each` visits the contents in order; `hlist_for_each_entry`
through a member at ANY offset visits their objects (node addresses non-NULL machine addresses, no
object at address 0); every element's `pprev` points at the location that holds it -/
theorem hlist_reachable_queries (h0 : HHeap) {ops : List HOp} {F : HFam} (r : HRun ⟨[], []⟩ ops F)
    {l : Nat} {xs : List Nat} (hm : (l, xs) ∈ F.lists) (fuel : Nat) (hf : xs.length < fuel) :
    hlistToList (hrun h0 ops) fuel l = xs ∧
    (∀ off : Addr, (∀ y ∈ xs, HAddrOK off y) → hlistForEachEntry (hrun h0 ops) fuel l off = xs.map (entryOf off)) ∧
    (∀ pre x post, xs = pre ++ x :: post →
      (hrun h0 ops).pprev x = some (lastLoc (.headFirst l) pre) ∧
      (hrun h0 ops).read (lastLoc (.headFirst l) pre) = some x) := by
  have ok := hlist_run_refines (hlist_empty_ok h0) r
  have hl : HList (hrun h0 ops) l xs := ok.list _ hm
  refine ⟨hlist_traversal hl fuel hf, ?_, ?_⟩
  · intro off ha
    exact hwalkEntry_chain _ off xs (.headFirst l) fuel hl.chain ha hf
  · intro pre x post e
    subst e
    obtain ⟨c1, c2, _⟩ := (HChain_append_cons _ pre (.headFirst l) x post none).mp hl.chain
    exact ⟨c2, HChain_read_last _ pre _ _ c1⟩

/-- ENABLEDNESS (hlist): the admitted calls are exactly those satisfying the decidable `HAdmitted`
(head_init: always; node_init: the node is not linked; add_next: the node is not linked and the
location belongs to a head of the family / to a linked node; del: the node is linked or idle —
NOT a node that was deleted before and not re-initialised: its `pprev` is stale) -/
theorem hlist_admitted_iff (F : HFam) (op : HOp) : HAdmitted F op ↔ ∃ F', HStep F op F' := hadmitted_iff F op

/-- what `hlist_del` of an already deleted node does (why it is not admitted): the stale `pprev`
still points at `head->first`, the second `hlist_del(1)` stores the stale `next` there — node 1 is
back in the list although it was removed -/
theorem hlist_double_del_witness :
    let h0 : HHeap := ⟨fun _ => none, fun _ => none, fun _ => none⟩
    let h1 := hlistDel (hlistAddNext (hlistAddNext (hlistHeadInit h0 9) 2 (.headFirst 9)) 1 (.headFirst 9)) 1
    hlistToList h1 5 9 = [2] ∧ hlistToList (hlistDel (hlistDel h1 2) 1) 5 9 = [2] := by decide

-- non-vacuity: two heads, push front, insert after the last element, delete first / last, delete an
-- idle node, re-add a deleted node without node_init, re-initialise a non-empty head
example : HRun ⟨[], []⟩ [.headInit 8, .headInit 9, .nodeInit 1, .addNext 1 (.headFirst 8), .addNext 2 (.nodeNext 1),
    .addNext 3 (.headFirst 9), .del 2, .addNext 2 (.headFirst 8), .del 2, .nodeInit 2, .del 2, .headInit 9]
    ⟨[(9, []), (8, [1])], [2]⟩ := by
  refine .cons (.headInitNew (by simp)) ?_
  refine .cons (.headInitNew (by decide)) ?_
  refine .cons (.nodeInit (by decide)) ?_
  refine .cons (.addFirst (l := 8) (xs := []) (B := [(9, [])]) (.swap _ _ _) (by decide)) ?_
  refine .cons (.addAfter (l := 8) (p := 1) (pre := []) (post := []) (B := [(9, [])]) (.refl _) (by decide)) ?_
  refine .cons (.addFirst (l := 9) (xs := []) (B := [(8, [1, 2])]) (.swap _ _ _) (by decide)) ?_
  refine .cons (.del (n := 2) (l := 8) (pre := [1]) (post := []) (B := [(9, [3])]) (.swap _ _ _)) ?_
  refine .cons (.addFirst (l := 8) (xs := [1]) (B := [(9, [3])]) (.refl _) (by decide)) ?_
  refine .cons (.del (n := 2) (l := 8) (pre := []) (post := [1]) (B := [(9, [3])]) (.refl _)) ?_
  refine .cons (.nodeInit (by decide)) ?_
  refine .cons (.delIdle (by decide)) ?_
  refine .cons (.headInit (l := 9) (xs := [3]) (B := [(8, [1])]) (.swap _ _ _)) ?_
  exact .nil _

/-! ### enabledness of the dlist reference semantics -/

/-- ENABLEDNESS (C and C++ dlist).  On a well-formed family the calls `AStep` admits are exactly
those satisfying the decidable predicate `Admitted`, which is written on the family alone:
add / insert_instead / move_sorted want an entry that is in no ring or alone (Linux contract —
the ONLY restriction on "any sequence"; see `add_linked_witness`), everything else (del, del_init,
unlink, pop, every move incl. onto itself / a neighbour / another ring, init) wants nodes that are
in rings, splice wants two different rings. -/
theorem admitted_iff {A : Rings} (w : RingsWF A) (op : Op) : Admitted A op ↔ ∃ A', AStep A op A' :=
  ⟨step_of_admitted, fun ⟨_, st⟩ => admitted_of_step w st⟩

/-- every family a heap realises is well-formed: `admitted_iff` applies on every reachable state -/
theorem reachable_wf {h : Heap} {A : Rings} (ok : RingsOK h A) : RingsWF A := ok.wf

/-- PROGRESS: in a state that realises the family `A`, every `Admitted` call (what the harness
generator checks op by op on its own reference state) has a successor family, and the heap after
the real operation realises it — so the next call can be judged in the same way -/
theorem admitted_step_ok {h : Heap} {A : Rings} {op : Op} (ok : RingsOK h A) (ad : Admitted A op) :
    ∃ A', AStep A op A' ∧ RingsOK (exec h op) A' ∧ RingsWF A' := by
  obtain ⟨A', st⟩ := step_of_admitted ad
  exact ⟨A', st, step_refines ok st, (step_refines ok st).wf⟩

-- `dlist_move_sorted` (any comparator) and re-initialisation of a non-empty head inside a history
example : ARun [[0, 3, 7], [5], [4]] [.cmoveSorted (fun a b => decide (a < b)) 10 5 0, .cmoveSorted (fun _ _ => false) 10 9 0,
    .cinit 0, .cmoveSorted (fun a b => decide (a < b)) 10 4 0] [[0, 4]] := by
  refine .cons (.cmoveSorted (added := 5) (head := 0) (xs := [3, 7]) (B := [[4]]) (.perm (by decide)) (by decide)) ?_
  refine .cons (.cmoveSortedFree (added := 9) (head := 0) (xs := [3, 5, 7]) (B := [[4]]) (.refl _) (by decide) (by decide)) ?_
  refine .cons (.cinitRing (a := 0) (xs := [3, 5, 7, 9]) (B := [[4]]) (.refl _)) ?_
  refine .cons (.cmoveSorted (added := 4) (head := 0) (xs := []) (B := []) (.perm (by decide)) (by decide)) ?_
  exact .nil _
example : Admitted [[0, 3, 7], [5]] (.cmove 3 3) ∧ Admitted [[0, 3, 7], [5]] (.caddNext 5 7) ∧
    ¬ Admitted [[0, 3, 7], [5]] (.caddNext 3 0) ∧ ¬ Admitted [[0, 3, 7], [5]] (.cdel 9) ∧
    Admitted [[0, 3, 7], [5]] (.caddPrev 9 5) := by decide

/-! ### `dlist_for_each_entry_safe` at entry level -/

/-- `dlist_for_each_entry_safe(pos, n, head, member)` with ANY body is `dlist_for_each_safe` on the
member nodes with the same body (container_of applied to `pos` and `n`, `&pos->member != head` as the
exit test), as long as the visited nodes are machine addresses -/
theorem for_each_entry_safe_is_node_loop (bodyE : Heap → Addr → Heap) (off : Addr) (hd : Nat) (hhd : hd < 2 ^ 64)
    (h : Heap) (fuel : Nat)
    (hv : ∀ p ∈ (dlistForEachSafe (fun h p => bodyE h (entryOf off p)) h fuel hd).2, p < 2 ^ 64) :
    dlistForEachEntrySafe bodyE h fuel (BitVec.ofNat 64 hd) off =
      ((dlistForEachSafe (fun h p => bodyE h (entryOf off p)) h fuel hd).1,
       (dlistForEachSafe (fun h p => bodyE h (entryOf off p)) h fuel hd).2.map (entryOf off)) :=
  dlistForEachEntrySafe_sim bodyE _ off hd hhd (fun _ _ _ => rfl) h fuel hv

/-- … hence the entry-level loop tolerates deletion of the current entry (`dlist_del_init(&pos->member)`
for ANY predicate on the objects): every object is visited exactly once, in order; the kept ones
keep their order, each deleted one is alone, other rings untouched -/
theorem for_each_entry_safe_tolerates_deletion {h : Heap} {hd : Nat} {xs : List Nat} {B : Rings} (del : Addr → Bool)
    (off : Addr) (ok : RingsOK h ((hd :: xs) :: B)) (hb : ∀ y ∈ hd :: xs, y < 2 ^ 64) (fuel : Nat) (hf : xs.length < fuel) :
    let r := dlistForEachEntrySafe (fun h e => if del e then dlistDelInit h (mcastIn e off).toNat else h) h fuel
      (BitVec.ofNat 64 hd) off
    r.2 = xs.map (entryOf off) ∧
    RingsOK r.1 ((hd :: xs.filter (fun x => !del (entryOf off x))) ::
      ((xs.filter (fun x => del (entryOf off x))).map fun x => [x]) ++ B) := by
  have node := for_each_safe_tolerates_deletion (fun x => del (entryOf off x)) ok fuel hf
  have sim := dlistForEachEntrySafe_sim (fun h e => if del e then dlistDelInit h (mcastIn e off).toNat else h)
    (fun h p => if del (entryOf off p) then dlistDelInit h p else h) off hd (hb hd (by simp))
    (fun h p hp => by simp only [mcastIn_entryOf, ofNat_toNat_small hp]) h fuel
    (by rw [node.1]; intro p hp; exact hb p (by simp [hp]))
  simp only [sim, node.1]
  exact ⟨trivial, node.2⟩

/-! ### the `int` counters of `dlist_size`, `dlist_size_reversed`, `slist_size` -/

/-- PRECONDITION of the `int`-valued size functions: on a list of at most INT_MAX = 2^31 - 1
elements the returned `int` is the length (C++ `size()` counts in `size_t`: no precondition) -/
theorem size_int_precondition {h : Heap} {A : Rings} {hd : Nat} {xs : List Nat} (ok : RingsOK h A)
    (hm : (hd :: xs) ∈ A) (fuel : Nat) (hf : xs.length + 1 < fuel) (hlen : xs.length ≤ 2147483647) :
    dlistSizeC h fuel hd = xs.length ∧ dlistSizeReversedC h fuel hd = xs.length := by
  obtain ⟨q1, q2, _⟩ := queries_agree ok hm fuel hf
  unfold dlistSizeC dlistSizeReversedC
  rw [q1, q2]
  exact ⟨countInt_small xs hlen, by rw [countInt_small xs.reverse (by simpa using hlen)]; simp⟩

theorem slist_size_int_precondition (h : SHeap) (head : Nat) (xs : List Nat) (r : SRing h head xs) (fuel : Nat)
    (hf : xs.length + 1 < fuel) (hlen : xs.length ≤ 2147483647) : slistSizeC h fuel head = xs.length := by
  unfold slistSizeC; rw [slistToList_ring h head xs r fuel hf]; exact countInt_small xs hlen

/-- beyond it the counter overflows (undefined in C; with wrap-around the result is negative) -/
theorem size_int_overflow_witness (visited : List Nat) (hl : visited.length = 2147483648) :
    (countInt visited).toInt = -2147483648 := countInt_overflow visited hl

/-! ### container_of with a side-effecting argument -/

/-- THE NULL-SAFE POP IDIOM `mcast_out_or_null(slist_pop_first(&head), T, member)`.  Contract the
operation language assumes: the macro evaluates its argument exactly once (it is a function of an
already evaluated pointer).  Then one idiom = one pop: exactly the first element leaves the list
and the result is ITS object; on an empty list the result is NULL and nothing changes.  (The
harness counts the evaluations of the argument on the real macros: ops `spop_entry`, `cpop_entry`,
`hpop_entry`, `smacros`.) -/
theorem pop_idiom_single_evaluation (h : SHeap) (head : Nat) (off : Addr) :
    (∀ x xs, SRing h head (x :: xs) → HAddrOK off x →
      (slistPopFirstEntry h head off).2 = entryOf off x ∧ (slistPopFirstEntry h head off).2 ≠ 0 ∧
      SRing (slistPopFirstEntry h head off).1 head xs) ∧
    (SRing h head [] → slistPopFirstEntry h head off = (h, 0)) := by
  refine ⟨fun x xs r hx => ?_, fun r => ?_⟩
  · obtain ⟨e1, e2⟩ := slistPopFirst_ring h head x xs r
    obtain ⟨m1, m2⟩ := mcastOutOrNull_node off hx
    simp only [slistPopFirstEntry, e1]
    exact ⟨m1, m1 ▸ m2, e2⟩
  · simp [slistPopFirstEntry, slistPopFirst_empty h head r, ptrOf, mcastOutOrNull]

/-- the same idiom on a dlist (`n = head->next; if (n == head) return NULL; dlist_del_init(n)`) and
on an hlist (`n = head->first; if (!n) return NULL; hlist_del(n)`): one node leaves per call -/
theorem pop_idiom_dlist_hlist :
    (∀ {h : Heap} {hd x : Nat} {xs : List Nat} {B : Rings}, RingsOK h ((hd :: x :: xs) :: B) →
      (dlistPopFirst h hd).2 = some x ∧ RingsOK (dlistPopFirst h hd).1 ([x] :: (hd :: xs) :: B)) ∧
    (∀ {h : HHeap} {l x : Nat} {xs : List Nat}, HList h l (x :: xs) →
      (hlistPopFirst h l).2 = some x ∧ HList (hlistPopFirst h l).1 l xs) := by
  refine ⟨fun {h hd x xs B} ok => ?_, fun {h l x xs} r => ?_⟩
  · obtain ⟨⟨a', xs', e, ring⟩, _, _⟩ := ok.head
    injection e with e1 e2; subst e1; subst e2
    have hn : h.next hd = x := by have := ring.fwd; simp only [Seg] at this; exact this.1
    have hne : x ≠ hd := by
      have := ring.nodup; simp only [List.nodup_cons, List.mem_cons, not_or] at this
      exact fun e => this.1.1 e.symm
    simp only [dlistPopFirst, hn, hne, if_false]
    refine ⟨trivial, ?_⟩
    have okr : RingsOK h ((x :: (xs ++ [hd])) :: B) := ok.rot
    cases xs with
    | nil => simpa using okr.delInit
    | cons y ys =>
      have h1 := RingsOK.delInit (a := x) (x := y) (xs := ys ++ [hd]) (by simpa using okr)
      have h2 := RingsOK.rotN (l1 := y :: ys) (b := hd) (l2 := []) (by simpa using swap12 h1)
      simpa using swap12 h2
  · have hf : h.first l = some x := by have := r.chain; simp only [HChain] at this; exact this.1
    simp only [hlistPopFirst, hf]
    exact ⟨trivial, hlist_del_member (pre := []) (post := xs) (by simpa using r)⟩

end Igris.C01

/-! ## Extension round 3

Every macro of igris/util/member.h / memberxx.h at pointer level (64-bit words, NULL = 0, any offset), the
counting loops as the C code writes them, `circular_size` on an ill-formed ring, the wrap-around comparator. -/
namespace Igris.C01

/-- NULL-SAFETY: `mcast_out_or_null` / `mcast_in_or_null` map NULL to NULL, and are the plain macros on
every other pointer -/
theorem or_null_macros (p off : Addr) :
    mcastOutOrNull 0 off = 0 ∧ mcastInOrNull 0 off = 0 ∧
    (p ≠ 0 → mcastOutOrNull p off = mcastOut p off ∧ mcastInOrNull p off = mcastIn p off) := by
  refine ⟨by simp [mcastOutOrNull], by simp [mcastInOrNull], fun hp => ⟨?_, ?_⟩⟩
  · unfold mcastOutOrNull mcastOut; rw [if_neg hp]
  · unfold mcastInOrNull mcastIn; rw [if_neg hp]
example : (4096#64 : Addr) ≠ 0 := by decide

/-- `container_of ∘ member = id` for the NULL-safe pair, EXACTLY where it holds: the round trip through
`mcast_in_or_null` then `mcast_out_or_null` gives the object back iff the object is NULL or its member does
not sit at address 0 (the wrap-around `e + off = 0`); the other round trip iff the member pointer is NULL
or is not the member of the object at address 0 -/
theorem or_null_round_trip_iff (e p off : Addr) :
    (mcastOutOrNull (mcastInOrNull e off) off = e ↔ (e = 0 ∨ e + off ≠ 0)) ∧
    (mcastInOrNull (mcastOutOrNull p off) off = p ↔ (p = 0 ∨ p - off ≠ 0)) := by
  have z1 : mcastOutOrNull 0 off = 0 := by simp [mcastOutOrNull]
  have z2 : mcastInOrNull 0 off = 0 := by simp [mcastInOrNull]
  constructor
  · by_cases he : e = 0
    · subst he; rw [z2, z1]; exact ⟨fun _ => Or.inl rfl, fun _ => rfl⟩
    · by_cases hw : e + off = 0
      · have h1 : mcastInOrNull e off = 0 := by unfold mcastInOrNull; rw [if_neg he]; exact hw
        rw [h1, z1]
        constructor
        · intro h; exact absurd h.symm he
        · intro h; rcases h with h | h
          · exact absurd h he
          · exact absurd hw h
      · have h1 : mcastInOrNull e off = e + off := by unfold mcastInOrNull; rw [if_neg he]
        have h2 : mcastOutOrNull (e + off) off = e := by
          unfold mcastOutOrNull; rw [if_neg hw]; exact BitVec.add_sub_cancel e off
        rw [h1, h2]; exact ⟨fun _ => Or.inr hw, fun _ => rfl⟩
  · by_cases hp : p = 0
    · subst hp; rw [z1, z2]; exact ⟨fun _ => Or.inl rfl, fun _ => rfl⟩
    · by_cases hw : p - off = 0
      · have h1 : mcastOutOrNull p off = 0 := by unfold mcastOutOrNull; rw [if_neg hp]; exact hw
        rw [h1, z2]
        constructor
        · intro h; exact absurd h.symm hp
        · intro h; rcases h with h | h
          · exact absurd h hp
          · exact absurd hw h
      · have h1 : mcastOutOrNull p off = p - off := by unfold mcastOutOrNull; rw [if_neg hp]
        have h2 : mcastInOrNull (p - off) off = p := by
          unfold mcastInOrNull; rw [if_neg hw]; exact BitVec.sub_add_cancel p off
        rw [h1, h2]; exact ⟨fun _ => Or.inr hw, fun _ => rfl⟩
/-- both excluded regions are inhabited (a 64-bit wrap / an object at address 0) and both round trips hold
for ordinary pointers -/
theorem or_null_round_trip_witness :
    mcastOutOrNull (mcastInOrNull (0 - 8#64) 8#64) 8#64 ≠ (0 - 8#64 : Addr) ∧
    mcastInOrNull (mcastOutOrNull 8#64 8#64) 8#64 ≠ (8#64 : Addr) ∧
    mcastOutOrNull (mcastInOrNull 4096#64 8#64) 8#64 = (4096#64 : Addr) := by decide

/-- `member_offsetof(type, member)` = `(size_t) &((type *)0)->member` and the C++ `member_offset(&T::m)` ARE
the byte offset; `member_container(ptr, &T::m)` is `mcast_out`; hence both C++ round trips -/
theorem member_offset_and_container (e p off : Addr) :
    memberOffsetof off = off ∧ memberContainer p off = mcastOut p off ∧
    memberContainer (mcastIn e off) off = e ∧ mcastIn (memberContainer p off) off = p := by
  have h0 : memberOffsetof off = off := by simp [memberOffsetof, mcastIn]
  refine ⟨h0, by simp [memberContainer, h0, mcastOut], ?_, ?_⟩
  · simp [memberContainer, h0, mcastIn, BitVec.add_sub_cancel]
  · simp [memberContainer, h0, mcastIn, BitVec.sub_add_cancel]

/-- the plain `mcast_out` is NOT NULL-safe: for a member that is not first, NULL becomes a non-NULL pointer
(`hlist_first_entry` of an empty list, `hlist_next_entry` of the last element: the reason why
`hlist_for_each_entry` had to use `mcast_out_or_null`) -/
theorem mcast_out_null_is_not_null (h : HHeap) (l : Nat) (off : Addr) (hoff : off ≠ 0) (he : h.first l = none) :
    mcastOut 0 off ≠ 0 ∧ hlistFirstEntry h l off = 0 - off ∧ hlistFirstEntry h l off ≠ 0 := by
  have h1 : mcastOut 0 off ≠ 0 := by
    intro h; apply hoff
    have := congrArg (fun x => x + off) h
    simpa [mcastOut, BitVec.sub_add_cancel] using this.symm
  refine ⟨h1, by simp [hlistFirstEntry, he, ptrOf, mcastOut], ?_⟩
  simpa [hlistFirstEntry, he, ptrOf] using h1
example : (8#64 : Addr) ≠ 0 := by decide

/-- the entry macros of slist / hlist are `container_of` of the stored link (any offset): on a member of a list
the next entry is the object of the next node -/
theorem slist_hlist_entry_macros (sh : SHeap) (hh : HHeap) (off : Addr) {p : Nat} (hp : p < 2 ^ 64) :
    mcastIn (slistNextEntry sh (mcastOut (BitVec.ofNat 64 p) off) off) off = BitVec.ofNat 64 (sh.next p) ∧
    mcastIn (slistFirstEntry sh (BitVec.ofNat 64 p) off) off = BitVec.ofNat 64 (sh.next p) ∧
    mcastIn (hlistNextEntry hh (mcastOut (BitVec.ofNat 64 p) off) off) off = ptrOf (hh.next p) := by
  have e : (BitVec.ofNat 64 p).toNat = p := by simp [BitVec.toNat_ofNat]; omega
  refine ⟨?_, ?_, ?_⟩
  · simp [slistNextEntry, mcastIn, mcastOut, SHeap.nextA, BitVec.sub_add_cancel, e]
  · simp [slistFirstEntry, mcastIn, mcastOut, SHeap.nextA, BitVec.sub_add_cancel, e]
  · simp [hlistNextEntry, mcastIn, mcastOut, BitVec.sub_add_cancel, e]

/-- `dlist_size`, `dlist_size_reversed`, `slist_size`, `dlist_in` written as the C LOOPS (counter / early
return as loop state — what the driver runs) are the counters / membership of the visited sequence, on ANY
heap and for any fuel; so `size_int_precondition` (exact up to INT_MAX elements) is about the loops -/
theorem size_loops_are_the_counters (h : Heap) (sh : SHeap) (fuel fnd head : Nat) :
    dlistSizeL h fuel head = dlistSizeC h fuel head ∧ dlistSizeReversedL h fuel head = dlistSizeReversedC h fuel head ∧
    slistSizeL sh fuel head = slistSizeC sh fuel head ∧ dlistInL h fuel fnd head = dlistIn h fuel fnd head := by
  refine ⟨?_, ?_, ?_, ?_⟩
  · simp [dlistSizeL, dlistSizeC, countInt, dlistToList, dlistSizeLoop_eq]
  · simp [dlistSizeReversedL, dlistSizeReversedC, countInt, dlistToListRev, dlistSizeRevLoop_eq]
  · simp [slistSizeL, slistSizeC, countInt, slistToList, slistSizeLoop_eq]
  · simp [dlistInL, dlistIn, dlistToList, dlistInLoop_eq]

/-- the `int` result of the LOOP `dlist_size` on a realised family: the length, for lists of at most
INT_MAX elements (totality: the loop version has a value for every heap and fuel; this is its value) -/
theorem size_loop_exact {h : Heap} {A : Rings} {hd : Nat} {xs : List Nat} (ok : RingsOK h A)
    (hm : (hd :: xs) ∈ A) (fuel : Nat) (hf : xs.length + 1 < fuel) (hlen : xs.length ≤ 2147483647) :
    dlistSizeL h fuel hd = xs.length ∧ dlistSizeReversedL h fuel hd = xs.length := by
  have := size_int_precondition ok hm fuel hf hlen
  have l := size_loops_are_the_counters h ⟨fun x => x⟩ fuel 0 hd
  exact ⟨l.1.trans this.1, l.2.1.trans this.2⟩

/-- WHAT THE C++ `circular_size()` / `is_correct()` DO ON AN ILL-FORMED RING: on the lasso `0 → 1 → 1 → …`
the `do … while (n != this)` loop started at 0 has not returned after ANY number of steps (the bounded model
loop exhausts every fuel) — the code never returns; on well-formed rings it does (`cpp_size_is_correct`) -/
theorem circular_size_lasso_witness : ∀ fuel, circularSize lassoHeap fuel 0 = fuel := by
  intro fuel
  cases fuel with
  | zero => simp [circularSize, circSizeAux]
  | succ n =>
    have e : circularSize lassoHeap (n + 1) 0 = circSizeAux lassoHeap 0 n 1 1 := by
      simp [circularSize, circSizeAux, lassoHeap]
    rw [e, circSizeAux_lasso]; omega

/-- the wrap-around comparator of the timers, `(int8_t)(a - b) < 0`: true iff the 8-bit difference is in
the upper half; it is NOT transitive (0 before 100 before 200, but not 0 before 200) — `move_sorted_refines`
holds for ANY comparator, so the insertion position is still "in front of the first entry for which it
answers true" -/
theorem wrap_comparator (a b : BitVec 8) :
    (wrapLess8 a b = true ↔ 128 ≤ (a - b).toNat) ∧
    (wrapLess8 0 100 = true ∧ wrapLess8 100 200 = true ∧ wrapLess8 0 200 = false) := by
  refine ⟨?_, by decide⟩
  have : ∀ d : BitVec 8, (decide (d.toInt < 0) = true ↔ 128 ≤ d.toNat) := by decide
  exact this (a - b)

/-! ### Extension round 3b: the repaired `dlist_is_correct` / `is_correct()`, the closed-form ring -/

/-- THE REPAIRED `dlist_is_correct(head)` (one walk testing `it->next->prev == it`, at most 1000 iterations)
on ANY heap — hand-corrupted or not — is true EXACTLY when `head` is on a well-formed ring (nodes pairwise
different, `next` closes the cycle, every successor points back) of fewer than 1000 elements besides it.
The right-hand side is the specification predicate of the whole development (`IsRing`), not the walk. -/
theorem is_correct_strict_iff (h : Heap) (hd : Nat) :
    dlistIsCorrectStrict h hd = true ↔ ∃ xs, xs.length < 1000 ∧ IsRing h hd xs :=
  isCorrectWalk_iff h hd 1000

/-- the C++ `is_correct()` after the repair (the same walk without a bound; `fuel` = the model's loop bound):
for EVERY fuel it returns, and answers true exactly on the well-formed rings of fewer than `fuel` elements -/
theorem cpp_is_correct_strict_iff (h : Heap) (fuel l : Nat) :
    cppIsCorrectStrict h fuel l = true ↔ ∃ xs, xs.length < fuel ∧ IsRing h l xs :=
  isCorrectWalk_iff h l fuel

/-- on a realised family the repaired function answers "fewer than 1000 elements" — both directions, so the
answers `is_correct_on_rings` / `is_correct_false_on_long_rings` gave for the old code are unchanged -/
theorem is_correct_strict_on_rings {h : Heap} {A : Rings} {hd : Nat} {xs : List Nat} (ok : RingsOK h A)
    (hm : (hd :: xs) ∈ A) : dlistIsCorrectStrict h hd = decide (xs.length < 1000) := by
  obtain ⟨a, ys, e, r⟩ := ok.ring _ hm
  injection e with e1 e2; subst e1; subst e2
  by_cases hl : xs.length < 1000
  · simp only [hl, decide_true]
    exact (is_correct_strict_iff h hd).mpr ⟨xs, hl, r⟩
  · simp only [hl, decide_false]
    cases hc : dlistIsCorrectStrict h hd with
    | false => rfl
    | true =>
      obtain ⟨zs, hz, rz⟩ := (is_correct_strict_iff h hd).mp hc
      have := IsRing.length_unique r rz
      omega

/-- what the old code accepted and what made `circular_size()` hang is rejected now: the four-node heap whose
backward links are a copy of the forward links, and the lasso `0 → 1 → 1 → …` for EVERY loop bound (the
repaired C++ walk returns false at its second step instead of running forever) -/
theorem is_correct_strict_rejects_witness :
    dlistIsCorrect corrupt4 0 = true ∧ dlistIsCorrectStrict corrupt4 0 = false ∧
    ∀ fuel, cppIsCorrectStrict lassoHeap fuel 0 = false := by
  refine ⟨by decide, by decide, ?_⟩
  intro fuel
  cases fuel with
  | zero => rfl
  | succ n =>
    cases n with
    | zero => simp [cppIsCorrectStrict, isCorrectWalk, lassoHeap]
    | succ m => simp [cppIsCorrectStrict, isCorrectWalk, lassoHeap]

/-- the closed-form ring `ringHeap n` the driver uses for `reset R n` (up to 10^6 nodes) IS the well-formed
ring head 0, elements 1, …, n-1 — proved, no longer only tied by the dumped small sizes -/
theorem ring_heap_is_ring (n : Nat) (hn : 0 < n) : IsRing (ringHeap n) 0 (List.range' 1 (n - 1)) :=
  ringHeap_isRing n hn

example : dlistIsCorrectStrict (ringHeap 5) 0 = true := by decide
example : ∃ xs, xs.length < 1000 ∧ IsRing (ringHeap 5) 0 xs := ⟨_, by decide, ring_heap_is_ring 5 (by decide)⟩

/-- TWO LIST HEADS IN ONE RING SPLICED INTO EACH OTHER (`l.unlink_and_move_all_nodes_from_other(oth)` with `l` and
`oth` members of the same ring, `l ≠ oth` — the case that was outside `AStep`): the call IS the two admitted calls
`l.unlink()` followed by the splice into the now empty `l` (because `unlink()` is idempotent, on every heap), so it is
covered by `run_refines`: `l` takes over every other node of the ring in the order that starts after `oth`, `oth`
ends up empty. -/
theorem splice_same_ring {h : Heap} {A : Rings} {l oth y : Nat} {pre post ys : List Nat} {B : Rings}
    (ok : RingsOK h A) (sm : Same A ((l :: (pre ++ oth :: post)) :: B)) (hne : post ++ pre = y :: ys) :
    listSplice h l oth = run h [.xunlink l, .xsplice l oth] ∧
    ARun A [.xunlink l, .xsplice l oth] ([oth] :: (l :: y :: ys) :: B) ∧
    RingsOK (listSplice h l oth) ([oth] :: (l :: y :: ys) :: B) := by
  have e1 : listSplice h l oth = run h [.xunlink l, .xsplice l oth] := by
    simp only [run, List.foldl, exec, listSplice, nodeUnlink_idem]
  obtain ⟨x, xs, e⟩ : ∃ x xs, pre ++ oth :: post = x :: xs := by cases pre <;> simp
  have st1 : AStep A (.xunlink l) ([l] :: (x :: xs) :: B) := .xunlink (by rw [← e]; exact sm)
  have sm2 : Same ([l] :: (x :: xs) :: B) ([l] :: (oth :: y :: ys) :: B) := by
    rw [← e, ← hne]
    exact .trans (.perm (List.Perm.swap _ _ _)) (.trans .rot (.perm (List.Perm.swap _ _ _)))
  have st2 : AStep ([l] :: (x :: xs) :: B) (.xsplice l oth) ([oth] :: (l :: y :: ys) :: B) := .xspliceIntoEmpty sm2
  have ar : ARun A [.xunlink l, .xsplice l oth] ([oth] :: (l :: y :: ys) :: B) := .cons st1 (.cons st2 (.nil _))
  exact ⟨e1, ar, e1 ▸ run_refines ok ar⟩

/-- the same when `l` and `oth` are the only two nodes of the ring: both lists are empty afterwards -/
theorem splice_same_ring_two {h : Heap} {A : Rings} {l oth : Nat} {B : Rings}
    (ok : RingsOK h A) (sm : Same A ([l, oth] :: B)) :
    listSplice h l oth = run h [.xunlink l, .xsplice l oth] ∧
    RingsOK (listSplice h l oth) ([l] :: [oth] :: B) := by
  have e1 : listSplice h l oth = run h [.xunlink l, .xsplice l oth] := by
    simp only [run, List.foldl, exec, listSplice, nodeUnlink_idem]
  have ar : ARun A [.xunlink l, .xsplice l oth] ([l] :: [oth] :: B) :=
    .cons (.xunlink sm) (.cons (.xspliceBothEmpty (.refl _)) (.nil _))
  exact ⟨e1, e1 ▸ run_refines ok ar⟩

-- non-vacuity: heads 0 and 3 in the ring 0 1 2 3 4: list 0 takes 4 1 2, list 3 is empty
example : ARun [[0, 1, 2, 3, 4]] [.xunlink 0, .xsplice 0 3] [[3], [0, 4, 1, 2]] := by
  have := (splice_same_ring (h := ringHeap 5) (A := [[0, 1, 2, 3, 4]]) (l := 0) (oth := 3) (pre := [1, 2]) (post := [4])
    (y := 4) (ys := [1, 2]) (B := []) ⟨by
      intro r hr; simp at hr; subst hr
      exact ⟨0, [1, 2, 3, 4], rfl, ring_heap_is_ring 5 (by decide)⟩, by simp⟩ (.refl _) rfl).2.1
  exact this

/-- EVERY well-formed family of non-empty rings (each ring without repetition, rings pairwise disjoint) is realised
by some heap — `RingsOK` is inhabited for every such family, not only for the examples (the heap is built with
`dlist_init` and `dlist_add_prev`, i.e. by admitted calls) -/
theorem wf_family_is_realised (A : Rings) (wf : RingsWF A) (ne : ∀ r ∈ A, r ≠ []) : ∃ h, RingsOK h A :=
  wf_realised A wf ne

/-- PRESERVATION OF WELL-FORMEDNESS BY THE REFERENCE SEMANTICS, STATED ON THE FAMILIES ALONE (no heap in the
statement): a step of `AStep` — any of its rules, every aliasing case — takes a family of pairwise disjoint,
repetition-free, non-empty rings to such a family -/
theorem astep_preserves_wf {A A' : Rings} {op : Op} (wf : RingsWF A) (ne : ∀ r ∈ A, r ≠ []) (st : AStep A op A') :
    RingsWF A' ∧ ∀ r ∈ A', r ≠ [] := by
  obtain ⟨h, ok⟩ := wf_realised A wf ne
  have ok' := step_refines ok st
  refine ⟨ok'.wf, fun r hr e => ?_⟩
  obtain ⟨a, xs, e', _⟩ := ok'.ring r hr
  rw [e] at e'; cases e'

/-- … and so does every admitted history -/
theorem arun_preserves_wf {A A' : Rings} {ops : List Op} (wf : RingsWF A) (ne : ∀ r ∈ A, r ≠ []) (r : ARun A ops A') :
    RingsWF A' ∧ ∀ r ∈ A', r ≠ [] := by
  induction r with
  | nil => exact ⟨wf, ne⟩
  | cons st _ ih => obtain ⟨w, n⟩ := astep_preserves_wf wf ne st; exact ih w n

example : RingsWF [[3], [0, 4, 1, 2]] :=
  (arun_preserves_wf (A := [[0, 1, 2, 3, 4]]) ⟨by simp, by simp⟩ (by simp)
    (.cons (.xunlink (.refl _)) (.cons (.xspliceIntoEmpty (l := 0) (oth := 3) (y := 4) (ys := [1, 2]) (B := [])
      (.trans (.perm (List.Perm.swap _ _ _)) (.trans (.rot (l1 := [1, 2]) (b := 3) (l2 := [4])) (.perm (List.Perm.swap _ _ _))))) (.nil _)))).1

end Igris.C01
