/-
  C01 — PROPERTY THEOREMS: intrusive lists stay well-formed and ordered under
  any operation history.

  The abstract state is a family of pairwise disjoint cyclic sequences
  (`Rings`); `RingsOK h A` says the heap realises it: forward links follow each
  sequence and close it, every successor points back.  `AStep` is the reference
  semantics of every operation (all aliasing cases: moving a node next to
  itself, to its current neighbour, inside one ring, between rings; single
  element rings; popping an empty list).  A list with head `hd` and contents
  `xs` is the ring `hd :: xs`.
-/
import IgrisModel.C01.Refine
import IgrisModel.C01.Slist
import IgrisModel.C01.More
namespace Igris.C01

/-- a history of the reference semantics -/
inductive ARun : Rings → List Op → Rings → Prop
  | nil (A) : ARun A [] A
  | cons {A B C op ops} : AStep A op B → ARun B ops C → ARun A (op :: ops) C

/-- one operation: the heap operation realises the reference operation -/
theorem step_refines {h : Heap} {A A' : Rings} {op : Op} (ok : RingsOK h A) (st : AStep A op A') :
    RingsOK (exec h op) A' := step_refines_c ok st

/-- HISTORY THEOREM.  For every finite sequence of operations that the
reference semantics admits, over any number of nodes and lists, the heap after
the sequence realises the reference family. -/
theorem run_refines {h : Heap} {A A' : Rings} {ops : List Op} (ok : RingsOK h A) (r : ARun A ops A') :
    RingsOK (run h ops) A' := by
  induction r generalizing h with
  | nil => exact ok
  | cons st _ ih => exact ih (step_refines ok st)

/-- the empty family is realised by every heap (no node is initialised yet) -/
theorem empty_ok (h : Heap) : RingsOK h [] := ⟨by simp, List.Pairwise.nil⟩

/-! ### what a well-formed family means for the observable queries -/

/-- forward traversal yields exactly the reference sequence, backward traversal its
reverse; size, size_reversed, emptiness and membership agree -/
theorem queries_agree {h : Heap} {A : Rings} {hd : Nat} {xs : List Nat} (ok : RingsOK h A)
    (hm : (hd :: xs) ∈ A) (fuel : Nat) (hf : xs.length + 1 < fuel) :
    dlistToList h fuel hd = xs ∧ dlistToListRev h fuel hd = xs.reverse ∧
    dlistSize h fuel hd = xs.length ∧ dlistSizeReversed h fuel hd = xs.length ∧
    (dlistEmpty h hd = true ↔ xs = []) ∧ (∀ x, dlistIn h fuel x hd = true ↔ x ∈ xs) := by
  obtain ⟨a, ys, e, r⟩ := ok.ring _ hm
  injection e with e1 e2; subst e1; subst e2
  have h1 := dlistToList_ring h hd xs r fuel hf
  have h2 := dlistToListRev_ring h hd xs r fuel hf
  refine ⟨h1, h2, by simp [dlistSize, h1], by simp [dlistSizeReversed, h2], ?_, ?_⟩
  · unfold dlistEmpty
    cases xs with
    | nil => have := r.fwd; simp only [Seg] at this; simp [this]
    | cons x xs =>
      have := r.fwd; simp only [Seg] at this
      have hne : x ≠ hd := by
        have := r.nodup; simp only [List.nodup_cons, List.mem_cons, not_or] at this
        exact fun e => this.1.1 e.symm
      simp [this.1, hne]
  · intro x; simp [dlistIn, h1]

/-- the same holds whichever member the ring is read from and wherever it sits in
the family (`Same`) -/
theorem queries_agree_same {h : Heap} {A A' : Rings} {hd : Nat} {xs : List Nat} (ok : RingsOK h A)
    (s : Same A A') (hm : (hd :: xs) ∈ A') (fuel : Nat) (hf : xs.length + 1 < fuel) :
    dlistToList h fuel hd = xs ∧ dlistToListRev h fuel hd = xs.reverse :=
  let q := queries_agree (ok.same s) hm fuel hf
  ⟨q.1, q.2.1⟩

/-- every linked node's neighbours point back at it and stay inside its ring -/
theorem neighbours_point_back {h : Heap} {A : Rings} {r : List Nat} (ok : RingsOK h A) (hr : r ∈ A) :
    ∀ y ∈ r, h.prev (h.next y) = y ∧ h.next (h.prev y) = y ∧ h.next y ∈ r ∧ h.prev y ∈ r := by
  obtain ⟨a, xs, e, ring⟩ := ok.ring r hr
  subst e
  intro y hy
  exact ⟨ring.back y hy, (ring.prev_next y hy).1, ring.next_mem y hy, (ring.prev_next y hy).2⟩

/-- a node that is in no ring (removed with `dlist_del`, destroyed, or never
linked) is reachable from no list: no ring member points at it -/
theorem free_unreachable {h : Heap} {A : Rings} {a : Nat} (ok : RingsOK h A) (hf : Free A a) :
    ∀ r ∈ A, ∀ y ∈ r, h.next y ≠ a ∧ h.prev y ≠ a := by
  intro r hr y hy
  obtain ⟨_, _, hn, hp⟩ := neighbours_point_back ok hr y hy
  exact ⟨fun e => hf r hr (e ▸ hn), fun e => hf r hr (e ▸ hp)⟩

/-- `dlist_del` really removes: afterwards the entry is in no ring of the family -/
theorem del_makes_free {h : Heap} {a x : Nat} {xs : List Nat} {B : Rings}
    (ok : RingsOK h ((a :: x :: xs) :: B)) :
    RingsOK (dlistDel h a) ((x :: xs) :: B) ∧ Free ((x :: xs) :: B) a := ok.del

/-- an unlinked C++ node / a del_init'ed C node is self-linked, and removing it
again is harmless: the heap does not change at all -/
theorem unlinked_is_self_linked_and_idempotent {h : Heap} {a : Nat} {B : Rings}
    (ok : RingsOK h ([a] :: B)) :
    h.next a = a ∧ h.prev a = a ∧ nodeUnlink h a = h ∧ dlistDelInit h a = h := by
  obtain ⟨⟨a', xs', e, r⟩, _, _⟩ := ok.head
  injection e with e1 e2; subst e1; subst e2
  have hn : h.next a = a := r.fwd
  have hp : h.prev a = a := by have := r.back a (by simp); rw [hn] at this; exact this
  obtain ⟨e1, e2⟩ := dlistDelInit_single h a r
  have hd : dlistDelInit h a = h := Heap.ext' e1 e2
  exact ⟨hn, hp, by rw [nodeUnlink_eq_delInit r, hd], hd⟩

/-- `dlist_is_correct` answers true on every list of fewer than 1000 nodes -/
theorem check_steps (h : Heap) (fnd : Nat) (l : List Nat) (it : Nat) (steps count : Nat)
    (hs : Seg h.next it l fnd) (hnot : fnd ∉ l) (hc : l.length < count) :
    dlistCheckAux h fnd count it steps = ((steps + l.length : Nat) : Int) := by
  induction l generalizing it steps count with
  | nil =>
    simp only [Seg] at hs
    match count, hc with
    | c + 1, _ => simp [dlistCheckAux, hs]
  | cons x xs ih =>
    simp only [Seg] at hs
    match count, hc with
    | c + 1, hc =>
      have hx : fnd ≠ x := fun e => hnot (by simp [e])
      simp only [dlistCheckAux, hs.1, hx, if_false]
      rw [ih x (steps + 1) c hs.2 (fun hm => hnot (by simp [hm])) (by simp at hc ⊢; omega)]
      simp only [List.length_cons]; congr 1; omega

theorem is_correct_on_rings {h : Heap} {A : Rings} {hd : Nat} {xs : List Nat} (ok : RingsOK h A)
    (hm : (hd :: xs) ∈ A) (hlen : xs.length < 1000) : dlistIsCorrect h hd = true := by
  obtain ⟨a, ys, e, r⟩ := ok.ring _ hm
  injection e with e1 e2; subst e1; subst e2
  have hnot : hd ∉ xs := (List.nodup_cons.mp r.nodup).1
  have c1 : dlistCheck h hd 1000 = (xs.length : Int) := by
    have := check_steps h hd xs hd 0 1000 r.fwd hnot hlen
    simpa [dlistCheck] using this
  have rf := r.flip
  have hnot' : hd ∉ xs.reverse := by simpa using hnot
  have c2 : dlistCheckReversed h hd 1000 = (xs.length : Int) := by
    have key : ∀ count it steps, dlistCheckRevAux h hd count it steps = dlistCheckAux h.flip hd count it steps := by
      intro count; induction count with
      | zero => intros; rfl
      | succ c ih => intro it steps; simp only [dlistCheckRevAux, dlistCheckAux, ih]; rfl
    have := check_steps h.flip hd xs.reverse hd 0 1000 rf.fwd hnot' (by simpa using hlen)
    simpa [dlistCheckReversed, key] using this
  simp [dlistIsCorrect, c1, c2]

/-! ### historical witnesses of the three repaired defects (models of the old code) -/

/-- `dlist_move` as it was: `__dlist_del` without re-initialising the entry -/
def dlistMoveOrig (h : Heap) (l head : Nat) : Heap :=
  dlistAddNext (dlistDelRaw h (h.prev l) (h.next l)) l head

/-- ring 0 → 2 → 1 → 0 built by `dlist_add_next(1,0); dlist_add_next(2,0)` -/
def ring3 : Heap := dlistAddNext (dlistAddNext ((List.range 3).foldl dlistInit ⟨id, id⟩) 1 0) 2 0

/-- old `dlist_move(0, 0)`: node 2's `prev` still points at 0 although 0 left
the ring (1.next = 2): neighbours no longer point back -/
theorem dlist_move_self_witness :
    (dlistMoveOrig ring3 0 0).next 1 = 2 ∧ (dlistMoveOrig ring3 0 0).prev 2 = 0 ∧
    (dlistMoveOrig ring3 0 0).next 0 = 0 := by decide

/-- the repaired `dlist_move(0, 0)` leaves the ring 1 ↔ 2 and node 0 alone -/
theorem dlist_move_self_fixed :
    (dlistMove ring3 0 0).next 1 = 2 ∧ (dlistMove ring3 0 0).prev 2 = 1 ∧
    (dlistMove ring3 0 0).next 2 = 1 ∧ (dlistMove ring3 0 0).next 0 = 0 ∧ (dlistMove ring3 0 0).prev 0 = 0 := by
  decide

/-- `unlink_and_move_all_nodes_from_other` as it was, applied to an empty source:
the destination head ends up pointing at the source head, which is self-linked -/
def listSpliceOrig (h : Heap) (l oth : Nat) : Heap :=
  let h := nodeUnlink h l
  let h := h.setNext l (h.next oth)
  let h := h.setPrev l (h.prev oth)
  let h := h.setPrev (h.next l) l
  let h := h.setNext (h.prev l) l
  let h := h.setNext oth oth
  h.setPrev oth oth

theorem splice_from_empty_witness :
    (listSpliceOrig ⟨id, id⟩ 0 1).next 0 = 1 ∧ (listSpliceOrig ⟨id, id⟩ 0 1).next 1 = 1 ∧
    (listSplice ⟨id, id⟩ 0 1).next 0 = 0 := by decide

end Igris.C01

namespace Igris.C01
-- non-vacuity: the reference semantics admits a history with the aliasing cases
-- (re-insertion after removal, move onto itself, move onto the current neighbour)
example : ARun [] [.cinit 0, .cinit 1, .cinit 2, .caddNext 1 0, .caddPrev 2 0, .cmove 1 1, .cmove 2 0, .cdel 2,
    .caddNext 2 0] [[0, 2], [1]] := by
  refine .cons (.cinitFree (by simp [Free])) ?_
  refine .cons (.cinitFree (by simp [Free])) ?_
  refine .cons (.cinitFree (by simp [Free])) ?_
  -- [[2],[1],[0]]
  refine .cons (.caddNext (lnk := 1) (head := 0) (ys := []) (B := [[2]])
    (.perm (by decide))) ?_
  -- [[0,1],[2]]
  refine .cons (.caddPrev (lnk := 2) (head := 0) (ys := [1]) (B := []) (.perm (by decide))) ?_
  -- [[0,1,2]]
  refine .cons (.cmoveSelf (a := 1) (x := 2) (xs := [0]) (B := [])
    (.rot (l1 := [0]) (b := 1) (l2 := [2]) (B := []))) ?_
  -- [[1],[2,0]]
  refine .cons (.cmoveSame (l := 2) (pre := []) (head := 0) (post := []) (B := [[1]]) (.perm (by decide))) ?_
  -- [[0,2],[1]]
  refine .cons (.cdel (a := 2) (x := 0) (xs := []) (B := [[1]])
    (.rot (l1 := [0]) (b := 2) (l2 := []) (B := [[1]]))) ?_
  -- [[0],[1]]
  refine .cons (.caddNextFree (lnk := 2) (head := 0) (ys := []) (B := [[1]]) (.refl _) (by simp [Free])) ?_
  exact .nil _
end Igris.C01

namespace Igris.C01
/-! ### slist (igris/datastruct/slist.h) -/

/-- traversal of a well-formed slist yields the reference sequence -/
theorem slist_traversal (h : SHeap) (head : Nat) (xs : List Nat) (r : SRing h head xs) (fuel : Nat)
    (hf : xs.length + 1 < fuel) : slistToList h fuel head = xs := slistToList_ring h head xs r fuel hf

/-- `slist_add` / `add_first` puts a node that is not in the list in front; nothing else is written -/
theorem slist_add_refines (h : SHeap) (link head : Nat) (xs : List Nat) (r : SRing h head xs)
    (hl : link ∉ head :: xs) :
    SRing (slistAdd h link head) head (link :: xs) ∧
    (∀ y, y ∉ [link, head] → (slistAdd h link head).next y = h.next y) := slistAdd_ring h link head xs r hl

/-- `slist_pop_first` unlinks and returns the first element, NULL on an empty list (state unchanged) -/
theorem slist_pop_refines (h : SHeap) (head : Nat) :
    (∀ x xs, SRing h head (x :: xs) →
      (slistPopFirst h head).2 = some x ∧ SRing (slistPopFirst h head).1 head xs) ∧
    (SRing h head [] → slistPopFirst h head = (h, none)) :=
  ⟨fun x xs r => slistPopFirst_ring h head x xs r, slistPopFirst_empty h head⟩
end Igris.C01

namespace Igris.C01
/-! ### slist::move_front, dlist_move_sorted, hlist (lemmas in More.lean) -/

/-- `igris::slist::move_front(n)`: whether or not the node is already in this list (and
wherever it is), afterwards it is the first element exactly once and the other
elements keep their order -/
theorem slist_move_front_refines (h : SHeap) (head n : Nat) (fuel : Nat) :
    (∀ xs, SRing h head xs → n ∉ head :: xs → xs.length < fuel →
      SRing (slistMoveFront h fuel n head) head (n :: xs)) ∧
    (∀ pre post, SRing h head (pre ++ n :: post) → pre.length < fuel →
      SRing (slistMoveFront h fuel n head) head (n :: (pre ++ post))) :=
  ⟨fun xs r hn hf => slistMoveFront_absent h head n xs r hn fuel hf,
   fun pre post r hf => slistMoveFront_present h head n pre post r fuel hf⟩

/-- `dlist_move_sorted(added, head, member, comparator)` for ANY comparator: the lone
entry is linked in front of the first entry for which the comparator answers true
(at the tail when there is none); all other entries and all other rings are untouched -/
theorem move_sorted_refines {h : Heap} {cmp : Nat → Nat → Bool} {added head : Nat} {xs : List Nat} {B : Rings}
    (ok : RingsOK h ([added] :: (head :: xs) :: B)) (fuel : Nat) (hf : xs.length + 1 < fuel) :
    RingsOK (dlistMoveSorted h cmp fuel added head)
      ((head :: (xs.takeWhile (fun y => !cmp added y) ++ added :: xs.dropWhile (fun y => !cmp added y))) :: B) :=
  moveSorted_ok ok fuel hf

/-- with the comparator `key added < key pos` a list sorted by `key` stays sorted
(ties: after the entries with an equal key) -/
theorem move_sorted_keeps_sorted (key : Nat → Int) (added : Nat) (xs : List Nat)
    (hs : xs.Pairwise (fun a b => key a ≤ key b)) :
    (xs.takeWhile (fun y => !decide (key added < key y)) ++
      added :: xs.dropWhile (fun y => !decide (key added < key y))).Pairwise (fun a b => key a ≤ key b) :=
  moveSorted_sorted key added xs hs

/-- `hlist_for_each` visits the contents in order -/
theorem hlist_traversal {h : HHeap} {l : Nat} {xs : List Nat} (r : HList h l xs) (fuel : Nat)
    (hf : xs.length < fuel) : hlistToList h fuel l = xs := hlistToList_list r fuel hf

/-- `hlist_add_next` at the head location pushes in front, at `&p->next` inserts right
after `p`; `hlist_del` of a member removes exactly it; every `pprev` keeps
pointing at the location that points at its node (that is `HList`) -/
theorem hlist_ops_refine {h : HHeap} {l n : Nat} :
    (∀ xs, HList h l xs → n ∉ xs → HList (hlistAddNext h n (.headFirst l)) l (n :: xs)) ∧
    (∀ p pre post, HList h l (pre ++ p :: post) → n ∉ pre ++ p :: post →
      HList (hlistAddNext h n (.nodeNext p)) l (pre ++ p :: n :: post)) ∧
    (∀ pre post, HList h l (pre ++ n :: post) → HList (hlistDel h n) l (pre ++ post)) ∧
    (h.pprev n = none → hlistDel h n = h) :=
  ⟨fun _ r hn => hlist_add_front r hn, fun _ _ _ r hn => hlist_add_after r hn,
   fun _ _ r => hlist_del_member r, hlist_del_unlinked h n⟩

/-- a removal from one hlist leaves every other (disjoint) hlist as it was -/
theorem hlist_other_lists_untouched {h : HHeap} {l l2 n : Nat} {pre post ys : List Nat}
    (r : HList h l (pre ++ n :: post)) (r2 : HList h l2 ys) (hl : l ≠ l2)
    (hd : ∀ y ∈ ys, y ∉ pre ++ n :: post) : HList (hlistDel h n) l2 ys := hlist_frame_del r r2 hl hd

-- non-vacuity: an empty hlist exists, and two pushes + an insertion + a removal go through
example : HList (hlistHeadInit ⟨fun _ => none, fun _ => none, fun _ => none⟩ 0) 0 [] :=
  ⟨by simp, by simp [HChain, hlistHeadInit]⟩
example (h : HHeap) (r : HList h 0 []) :
    HList (hlistDel (hlistAddNext (hlistAddNext (hlistAddNext h 1 (.headFirst 0)) 2 (.headFirst 0)) 3 (.nodeNext 2)) 2)
      0 [3, 1] := by
  have r1 := hlist_add_front (n := 1) r (by simp)
  have r2 := hlist_add_front (n := 2) r1 (by simp)
  have r3 := hlist_add_after (n := 3) (p := 2) (pre := []) (post := [1]) r2 (by simp)
  exact hlist_del_member (n := 2) (pre := []) (post := [3, 1]) r3
end Igris.C01
