import IgrisModel.C01.Model
namespace Igris.C01
theorem placeholder_c01 : True := trivial
end Igris.C01
