import IgrisModel.C01.Model
open Igris.Proto Igris.C01

structure DState where
  kind : String := "c"
  n : Nat := 0                 -- ids 0..n-1 are dumped
  h : Heap := ⟨fun x => x, fun x => x⟩
  alive : List Nat := []       -- C++: constructed objects
  s : SHeap := ⟨fun x => x⟩
  hh : HHeap := ⟨fun _ => none, fun _ => none, fun _ => none⟩
  nheads : Nat := 0

def FUEL : Nat := 100000

def showPtr (v : Nat) : String :=
  if v = POISON1 then "P1" else if v = POISON2 then "P2" else toString v

def showLoc : Option Loc → String
  | none => "0"
  | some (.headFirst l) => "H" ++ toString l
  | some (.nodeNext n) => "N" ++ toString n
def showOpt : Option Nat → String
  | none => "0"
  | some v => toString v

def dump (st : DState) : String :=
  match st.kind with
  | "c" => " ".intercalate ((List.range st.n).map fun i => s!"{i}:{showPtr (st.h.next i)}/{showPtr (st.h.prev i)}")
  | "x" => " ".intercalate ((List.range st.n).map fun i =>
      if st.alive.contains i then s!"{i}:{showPtr (st.h.next i)}/{showPtr (st.h.prev i)}" else s!"{i}:dead")
  | "s" => " ".intercalate ((List.range st.n).map fun i => s!"{i}:{st.s.next i}")
  | "h" => " ".intercalate ((List.range st.n).map fun i =>
      if i < st.n - st.nheads then s!"{i}:{showOpt (st.hh.next i)}/{showLoc (st.hh.pprev i)}"
      else s!"{i}:{showOpt (st.hh.first i)}")
  | _ => "?"

def ids (l : List Nat) : String := if l.isEmpty then "-" else ",".intercalate (l.map toString)

def res (st : DState) (v : String) : DState × String := (st, v ++ " | " ++ dump st)

def nat? (s : String) : Option Nat := s.toNat?

def parseLoc? (s : String) : Option Loc :=
  if s.startsWith "H" then (s.drop 1).toNat?.map Loc.headFirst
  else if s.startsWith "N" then (s.drop 1).toNat?.map Loc.nodeNext
  else none

def stepLine (st : DState) (line : String) : DState × String :=
  let bad : DState × String := (st, "bad-op")
  match words line with
  | ["reset", "c", n] => match nat? n with
    | some n =>
      let h := (List.range n).foldl dlistInit ⟨fun x => x, fun x => x⟩
      res { kind := "c", n := n, h := h } "ok"
    | none => bad
  | ["reset", "x", n, k] => match nat? n, nat? k with
    | some n, some k =>
      -- list heads n..n+k-1 are constructed, item nodes are not
      let heads := (List.range k).map (· + n)
      let h := heads.foldl nodeCtor ⟨fun x => x, fun x => x⟩
      res { kind := "x", n := n + k, h := h, alive := heads, nheads := k } "ok"
    | _, _ => bad
  | ["reset", "s", n] => match nat? n with
    | some n => res { kind := "s", n := n, s := ⟨fun x => x⟩ } "ok"
    | none => bad
  | ["reset", "h", n, k] => match nat? n, nat? k with
    | some n, some k => res { kind := "h", n := n + k, nheads := k } "ok"
    | _, _ => bad
  | [op, a] => match nat? a with
    | none => bad
    | some a =>
      match op with
      | "cinit" => res { st with h := dlistInit st.h a } "ok"
      | "cdel" => res { st with h := dlistDel st.h a } "ok"
      | "cdel_init" => res { st with h := dlistDelInit st.h a } "ok"
      | "csize" => res st (toString (dlistSize st.h FUEL a))
      | "csize_rev" => res st (toString (dlistSizeReversed st.h FUEL a))
      | "cempty" => res st (if dlistEmpty st.h a then "1" else "0")
      | "ccorrect" => res st (if dlistIsCorrect st.h a then "1" else "0")
      | "clist" => res st (ids (dlistToList st.h FUEL a))
      | "clist_rev" => res st (ids (dlistToListRev st.h FUEL a))
      | "xnew" => res { st with h := nodeCtor st.h a, alive := a :: st.alive } "ok"
      | "xdel" => res { st with h := nodeDtor st.h a, alive := st.alive.erase a } "ok"
      | "xlnew" => res { st with h := nodeCtor st.h a, alive := a :: st.alive } "ok"
      | "xldel" => res { st with h := listClear st.h a FUEL, alive := st.alive.erase a } "ok"
      | "xclear" => res { st with h := listClear st.h a FUEL } "ok"
      | "xunlink" => res { st with h := nodeUnlink st.h a } "ok"
      | "xpop_front" => res { st with h := listPopFront st.h a } "ok"
      | "xpop_back" => res { st with h := listPopBack st.h a } "ok"
      | "xsize" => res st (toString (circularSize st.h FUEL a - 1))
      | "xempty" => res st (if st.h.next a ≠ a then "0" else "1")
      | "xlinked" => res st (if st.h.next a ≠ a then "1" else "0")
      | "xcorrect" => res st (if circularSize st.h FUEL a == reverseCircularSize st.h FUEL a then "1" else "0")
      | "xiter" => res st (ids (dlistToList st.h FUEL a))
      | "xriter" => res st (ids (dlistToListRev st.h FUEL a))
      | "sinit" => res { st with s := slistInit st.s a } "ok"
      | "spop" =>
        let (s', r) := slistPopFirst st.s a
        res { st with s := s' } (match r with | some v => toString v | none => "null")
      | "ssize" => res st (toString (slistToList st.s FUEL a).length)
      | "slist" => res st (ids (slistToList st.s FUEL a))
      | "hhead_init" => res { st with hh := hlistHeadInit st.hh a } "ok"
      | "hnode_init" => res { st with hh := hlistNodeInit st.hh a } "ok"
      | "hdel" => res { st with hh := hlistDel st.hh a } "ok"
      | "hlist" => res st (ids (hlistToList st.hh FUEL a))
      | _ => bad
  | [op, a, b] =>
    if op = "hadd" then
      match nat? a, parseLoc? b with
      | some a, some loc => res { st with hh := hlistAddNext st.hh a loc } "ok"
      | _, _ => bad
    else
    match nat? a, nat? b with
    | some a, some b =>
      match op with
      | "cadd_next" => res { st with h := dlistAddNext st.h a b } "ok"
      | "cadd_prev" => res { st with h := dlistAddPrev st.h a b } "ok"
      | "cmove" => res { st with h := dlistMove st.h a b } "ok"
      | "cmove_tail" => res { st with h := dlistMoveTail st.h a b } "ok"
      | "cinsert_instead" => res { st with h := dlistInsertInstead st.h a b } "ok"
      | "cmove_sorted" => res { st with h := dlistMoveSorted st.h (fun x y => decide (x < y)) FUEL a b } "ok"
      | "cin" => res st (if dlistIn st.h FUEL a b then "1" else "0")
      | "ccheck" => res st (toString (dlistCheck st.h a b))
      | "ccheck_rev" => res st (toString (dlistCheckReversed st.h a b))
      | "xmove_next" => res { st with h := nodeMoveNextThan st.h a b } "ok"
      | "xmove_prev" => res { st with h := nodeMovePrevThan st.h a b } "ok"
      | "xmove_front" => res { st with h := nodeMoveNextThan st.h b a } "ok"   -- list a, node b
      | "xmove_back" => res { st with h := nodeMovePrevThan st.h b a } "ok"
      | "xsplice" => res { st with h := listSplice st.h a b } "ok"
      | "sadd" => res { st with s := slistAdd st.s a b } "ok"
      | "smove_front" => res { st with s := slistMoveFront st.s FUEL a b } "ok"
      | "sin" => res st (if (slistToList st.s FUEL a).contains b then "1" else "0")
      | _ => bad
    | _, _ => bad
  | _ => bad

def main : IO Unit := run ({} : DState) stepLine
