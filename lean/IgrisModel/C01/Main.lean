import IgrisModel.C01.Model
open Igris.Proto Igris.C01

structure DState where
  kind : String := "c"
  n : Nat := 0                 -- ids 0..n-1 are dumped
  h : Heap := ⟨fun x => x, fun x => x⟩
  alive : List Nat := []       -- C++: constructed objects
  s : SHeap := ⟨fun x => x⟩
  hh : HHeap := ⟨fun _ => none, fun _ => none, fun _ => none⟩
  nheads : Nat := 0
  /-- observable (round 3 correction): nodes that were removed with the plain `dlist_del` and not
  re-initialised / re-inserted since — the property says of them only that no list reaches them, so
  their own link fields (the poison values) are NOT part of the compared dump -/
  removed : List Nat := []
  /-- slist nodes that are in no list (popped, orphaned by re-initialising their head): their stale
  `next` is not compared -/
  sfree : List Nat := []

def FUEL : Nat := 100000

def showPtr (v : Nat) : String :=
  if v = POISON1 then "P1" else if v = POISON2 then "P2" else toString v

def showLoc : Option Loc → String
  | none => "0"
  | some (.headFirst l) => "H" ++ toString l
  | some (.nodeNext n) => "N" ++ toString n
def showOpt : Option Nat → String
  | none => "0"
  | some v => toString v

/-! two-member objects: object `i` lives at `TBASE + TSTRIDE*i`, its `la` node at `+OFFA`, its `lb`
node at `+OFFB`; bare list heads at `HBASE + 16*j` -/
def TBASE : Nat := 65536
def TSTRIDE : Nat := 72
def OFFA : Nat := 24
def OFFB : Nat := 56
def HBASE : Nat := 524288
def tOff (m : Nat) : Nat := if m = 0 then OFFA else OFFB
def tObj (i : Nat) : Nat := TBASE + TSTRIDE * i
def tNode (i m : Nat) : Nat := tObj i + tOff m
def tHead (j : Nat) : Nat := HBASE + 16 * j
def tTok (st : DState) (v : Nat) : String :=
  if v = POISON1 then "P1" else if v = POISON2 then "P2"
  else if v ≥ HBASE then
    (if (v - HBASE) % 16 = 0 then toString (st.n - st.nheads + (v - HBASE) / 16) else "?")
  else if v ≥ TBASE then
    let i := (v - TBASE) / TSTRIDE
    let r := (v - TBASE) % TSTRIDE
    if r = OFFA then s!"{i}a" else if r = OFFB then s!"{i}b" else "?"
  else "?"

def dump (st : DState) : String :=
  match st.kind with
  | "c" => if st.n > 16 then "" else
      " ".intercalate ((List.range st.n).map fun i =>
        if st.removed.contains i then s!"{i}:-/-" else s!"{i}:{showPtr (st.h.next i)}/{showPtr (st.h.prev i)}")
  | "t" => " ".intercalate (((List.range (st.n - st.nheads)).map fun i =>
        let f := fun (m : Nat) => if st.removed.contains (tNode i m) then "-/-"
                  else s!"{tTok st (st.h.next (tNode i m))}/{tTok st (st.h.prev (tNode i m))}"
        s!"{i}:a={f 0},b={f 1}")
      ++ ((List.range st.nheads).map fun j =>
        s!"{st.n - st.nheads + j}:{tTok st (st.h.next (tHead j))}/{tTok st (st.h.prev (tHead j))}"))
  | "x" => " ".intercalate ((List.range st.n).map fun i =>
      if st.alive.contains i then s!"{i}:{showPtr (st.h.next i)}/{showPtr (st.h.prev i)}" else s!"{i}:dead")
  | "s" => " ".intercalate ((List.range st.n).map fun i =>
      if st.sfree.contains i then s!"{i}:-" else s!"{i}:{st.s.next i}")
  | "h" =>
      -- a node that is in no chain (deleted, orphaned, never added): neither `next` nor `pprev` is compared
      let linked := ((List.range st.nheads).map fun j => hlistToList st.hh (st.n + 1) (st.n - st.nheads + j)).flatten
      " ".intercalate ((List.range st.n).map fun i =>
      if i < st.n - st.nheads then
        (if linked.contains i then s!"{i}:{showOpt (st.hh.next i)}/{showLoc (st.hh.pprev i)}" else s!"{i}:-/-")
      else s!"{i}:{showOpt (st.hh.first i)}")
  | _ => "?"

def ids (l : List Nat) : String := if l.isEmpty then "-" else ",".intercalate (l.map toString)

def res (st : DState) (v : String) : DState × String := (st, v ++ " | " ++ dump st)

def nat? (s : String) : Option Nat := s.toNat?

def parseLoc? (s : String) : Option Loc :=
  if s.startsWith "H" then (s.drop 1).toNat?.map Loc.headFirst
  else if s.startsWith "N" then (s.drop 1).toNat?.map Loc.nodeNext
  else none

/-! hlist entry iteration runs on machine addresses: node `id` lives at `HADDR id` (its `lnk` member, at
offset 8 of the object) -/
def HADDR (id : Nat) : Nat := 4096 + 32 * id
def hAddrView (h : HHeap) : HHeap :=
  ⟨fun l => (h.first l).map HADDR, fun a => (h.next ((a - 4096) / 32)).map HADDR, fun _ => none⟩
/-- the object key behind an entry address (objects at `HADDR id - 8`), "null" for NULL -/
def keyOfEntry (e : Addr) : String := if e = 0 then "null" else toString (((mcastIn e 8#64).toNat - 4096) / 32)
def XOFF : Addr := 8#64
def xObj (id : Nat) : Addr := mcastOut (BitVec.ofNat 64 id) XOFF
def xId (e : Addr) : Nat := (mcastIn e XOFF).toNat
def step3 (st : DState) (op a b : String) : DState × String :=
    let bad : DState × String := (st, "bad-op")
    if op = "hadd" then
      match nat? a, parseLoc? b with
      | some a, some loc => res { st with hh := hlistAddNext st.hh a loc } "ok"
      | _, _ => bad
    else
    match nat? a, nat? b with
    | some a, some b =>
      match op with
      | "cadd_next" => res { st with h := dlistAddNext st.h a b, removed := st.removed.erase a } "ok"
      | "cadd_prev" => res { st with h := dlistAddPrev st.h a b, removed := st.removed.erase a } "ok"
      | "cmove" => res { st with h := dlistMove st.h a b } "ok"
      | "cmove_tail" => res { st with h := dlistMoveTail st.h a b } "ok"
      | "cinsert_instead" => res { st with h := dlistInsertInstead st.h a b, removed := st.removed.erase a } "ok"
      | "cmove_sorted" => res { st with h := dlistMoveSorted st.h (fun x y => decide (x < y)) FUEL a b, removed := st.removed.erase a } "ok"
      | "cin" => res st (if dlistInL st.h (max FUEL (st.n + 2)) a b then "1" else "0")
      | "ccheck" => res st (toString (dlistCheck st.h a b))
      | "ccheck_rev" => res st (toString (dlistCheckReversed st.h a b))
      | "xmove_next" => res { st with h := nodeMoveNextThan st.h a b } "ok"
      | "xmove_prev" => res { st with h := nodeMovePrevThan st.h a b } "ok"
      | "xmove_front" => res { st with h := nodeMoveNextThan st.h b a } "ok"   -- list a, node b
      | "xmove_back" => res { st with h := nodeMovePrevThan st.h b a } "ok"
      | "xsplice" => res { st with h := listSplice st.h a b } "ok"
      | "sadd" => res { st with s := slistAdd st.s a b, sfree := st.sfree.erase a } "ok"
      | "spop_entry" =>   -- list a, idiom b (0: mcast_out_or_null(slist_pop_first(..)), 1: slist_pop_first_entry)
        let r := slistPopFirst st.s a
        res { st with s := r.1, sfree := r.2.toList ++ st.sfree } (keyOfEntry (mcastOutOrNull (ptrOf (r.2.map HADDR)) XOFF))
      | "sxadd" => res { st with s := slistAdd st.s a b, sfree := st.sfree.erase a } "ok"
      | "smove_front" => res { st with s := slistMoveFront st.s FUEL a b, sfree := st.sfree.erase a } "ok"
      | "sin" => res st (if slistIn st.s FUEL a b then "1" else "0")
      | "cpoke_next" => res { st with h := st.h.setNext a b } "ok"
      | "cpoke_prev" => res { st with h := st.h.setPrev a b } "ok"
      | "xpop" => res { st with h := listPop st.h (xObj b) XOFF } "ok"            -- list a, item b
      | "xmove_front_t" => res { st with h := listMoveNext st.h (xObj b) XOFF a } "ok"
      | "xmove_back_t" => res { st with h := listMovePrev st.h (xObj b) XOFF a } "ok"
      | _ => bad
    | _, _ => bad

/-! ### round 3: kind-independent ops (widths, macro exercise, pre-main history) -/
def hexNat (v : Nat) : String := String.ofList (Nat.toDigits 16 v)
def widthsStr : String :=
  let i := INT_BITS / 8
  let z := SIZE_T_BITS / 8
  s!"int={i},{i},{i},{i} size_t={z},{z} ptr={PTR_BYTES} structs={DLIST_HEAD_BYTES},{SLIST_HEAD_BYTES},{HLIST_NODE_BYTES},{HLIST_HEAD_BYTES},{DLIST_HEAD_BYTES},{DLIST_HEAD_BYTES}" ++
  s!" c={i} {i} {DLIST_HEAD_BYTES} {SLIST_HEAD_BYTES} {HLIST_NODE_BYTES} {HLIST_HEAD_BYTES} bound={IS_CORRECT_BOUND}" ++
  s!" off={XOFF.toNat},{(memberOffsetof XOFF).toNat},{(memberOffsetof 80#64).toNat} msize={DLIST_HEAD_BYTES},{SLIST_HEAD_BYTES},{HLIST_NODE_BYTES},{24 + DLIST_HEAD_BYTES + INT_BYTES + 12 + DLIST_HEAD_BYTES + SLIST_HEAD_BYTES + HLIST_NODE_BYTES}"

/-- the fixture of the macro exercise: object k at `MB + 96 k`, members la/lb/sl/hl at 24/56/72/80 -/
def MB : Nat := 65536
def mObj (k : Nat) : Nat := MB + 96 * k
def MHA : Nat := 131072
def MHB : Nat := 131088
def MHS : Nat := 131104
def MHH : Nat := 131120
def mFixD : Heap :=
  (List.range 4).foldl (fun h k => dlistAddNext (dlistAddPrev h (mObj k + 24) MHA) (mObj k + 56) MHB)
    (dlistInit (dlistInit ⟨fun x => x, fun x => x⟩ MHA) MHB)
def mFixS : SHeap := (List.range 4).foldl (fun s k => slistAdd s (mObj k + 72) MHS) (slistInit ⟨fun x => x⟩ MHS)
def mFixH : HHeap :=
  ((List.range 4).foldl (fun (p : HHeap × Loc) k => (hlistAddNext p.1 (mObj k + 80) p.2, Loc.nodeNext (mObj k + 80)))
    (hlistHeadInit ⟨fun _ => none, fun _ => none, fun _ => none⟩ MHH, Loc.headFirst MHH)).1
def mTok (off head : Nat) (e : Addr) : String :=
  if e = 0 then "null" else
  let v := e.toNat
  if v ≥ MB ∧ v < MB + 4 * 96 ∧ (v - MB) % 96 = 0 then toString ((v - MB) / 96)
  else if (mcastIn e (BitVec.ofNat 64 off)).toNat = head ∧ head ≠ 0 then "head" else "?"
def mmacStr (i : Nat) : String :=
  let obj : Addr := BitVec.ofNat 64 (mObj i)
  let A : Addr := 24#64
  let B : Addr := 56#64
  let S : Addr := 72#64
  let H : Addr := 80#64
  let one := fun (t : String) => t ++ ":1"
  let (s', popped) := slistPopFirst mFixS MHS
  " ".intercalate [
    one (mTok 24 MHA (mcastOut (mcastIn obj A) A)),
    one (mTok 56 MHB (mcastOutOrNull (mcastIn obj B) B)),
    one (mTok 56 MHB (mcastOutOrNull 0 B)),
    one (mTok 24 MHA (mcastOut (mcastIn obj A) A)),
    one (mTok 56 MHB (mcastOut (mcastInOrNull obj B) B)),
    one (if mcastInOrNull 0 B = 0 then "null" else "?"),
    one (mTok 24 MHA (mcastOut (mcastIn obj A) A)),
    one (mTok 24 MHA (dlistFirstEntry mFixD (BitVec.ofNat 64 MHA) A)),
    one (mTok 24 MHA (dlistLastEntry mFixD (BitVec.ofNat 64 MHA) A)),
    one (mTok 24 MHA (dlistNextEntry mFixD obj A)),
    one (mTok 56 MHB (dlistPrevEntry mFixD obj B)),
    one (mTok 72 MHS (mcastOut (mcastIn obj S) S)),
    one (mTok 72 MHS (slistFirstEntry mFixS (BitVec.ofNat 64 MHS) S)),
    one (mTok 72 MHS (slistNextEntry mFixS obj S)),
    one (mTok 80 0 (mcastOut (mcastIn obj H) H)),
    one (mTok 80 0 (hlistFirstEntry mFixH MHH H)),
    (if i < 3 then one (mTok 80 0 (hlistNextEntry mFixH obj H)) else "-"),
    s!"{INT_BYTES}:0", s!"{DLIST_HEAD_BYTES}:0", toString (memberOffsetof B).toNat,
    one (mTok 72 MHS (mcastOutOrNull (ptrOf popped) S)),
    mTok 72 MHS (slistFirstEntry s' (BitVec.ofNat 64 MHS) S)]
def idsL (l : List Nat) : String := if l.isEmpty then "-" else ",".intercalate (l.map toString)
def premainStr : String :=
  let h0 : Heap := ⟨fun x => x, fun x => x⟩
  let hd := 100
  let h := [hd, 0, 1, 2].foldl dlistInit h0          -- DLIST_HEAD_INIT: the state dlist_init produces
  let h := dlistMove (dlistAddPrev (dlistAddNext (dlistAddPrev h 0 hd) 1 hd) 2 hd) 2 hd
  let c := idsL (dlistToList h 10 hd) ++ "/" ++ toString (dlistSizeL h 10 hd)
  let s := slistAdd (slistAdd ([hd, 0, 1].foldl slistInit ⟨fun x => x⟩) 0 hd) 1 hd
  let sl := idsL (slistToList s 10 hd) ++ "/" ++ toString (slistSizeL s 10 hd)
  let x := [hd, 0, 1, 2].foldl nodeCtor h0
  let x := listPopFront (nodeMovePrevThan (nodeMoveNextThan (nodeMovePrevThan x 0 hd) 1 hd) 2 hd) hd
  let xs := idsL (dlistToList x 10 hd) ++ "/" ++ toString (circularSize x 10 hd - 1)
  s!"c={c} s={sl} x={xs} now c={c} s={sl} x={xs}"
/-- comparators of the sorted-insertion ops (keys = ids): 0 `<`, 1 a weak order with ties (`id % 3`),
2 the wrap-around comparator `(int8_t)(ka - kb) < 0` on `k = 37 id mod 256` -/
def cmpMode (mode : Nat) (x y : Nat) : Bool :=
  if mode = 1 then decide (x % 3 < y % 3)
  else if mode = 2 then wrapLess8 (BitVec.ofNat 8 (x * 37)) (BitVec.ofNat 8 (y * 37))
  else decide (x < y)
-- the iterator reached from begin() by k increments
def iterAt (h : Heap) (l : Nat) : Nat → Nat
    | 0 => iterBegin h l
    | k + 1 => iterInc h (iterAt h l k)
def step4 (st : DState) (op l a b : String) : DState × String :=
    let bad : DState × String := (st, "bad-op")
    match nat? l, nat? a, nat? b with
    | some l, some a, some b =>
      match op with
      | "xerase_if" =>
        let r := listEraseIf (fun x => decide (x % a = b)) st.h FUEL l
        res { st with h := r.1 } (ids r.2)
      | "cmove_sorted_k" =>   -- entry l, head a, comparator b
        res { st with h := dlistMoveSorted st.h (cmpMode b) (max FUEL (st.n + 2)) l a, removed := st.removed.erase l } "ok"
      | "xmove_next_obj" => res { st with h := listMoveNext st.h (xObj a) XOFF (mcastIn (xObj b) XOFF).toNat } "ok"
      | "xmove_prev_obj" => res { st with h := listMovePrev st.h (xObj a) XOFF (mcastIn (xObj b) XOFF).toNat } "ok"
      | "xmove_next_it" => res { st with h := listMoveNextIt st.h (xObj a) XOFF (BitVec.ofNat 64 (iterAt st.h l b)) } "ok"
      | "xmove_prev_it" => res { st with h := listMovePrevIt st.h (xObj a) XOFF (BitVec.ofNat 64 (iterAt st.h l b)) } "ok"
      | _ => bad
    | _, _, _ => bad
def mem? (m : String) : Option Nat := if m = "a" then some 0 else if m = "b" then some 1 else none
def tHeadOf (st : DState) (id : Nat) : Nat := tHead (id - (st.n - st.nheads))
def tKey (e : Addr) : Nat := (e.toNat - TBASE) / TSTRIDE
def tKeyOrEnd (st : DState) (off : Nat) (e : Addr) : String :=
    let node := (mcastIn e (BitVec.ofNat 64 off)).toNat
    if node ≥ HBASE then "end" ++ toString (st.n - st.nheads + (node - HBASE) / 16) else toString (tKey e)
def stepT3 (st : DState) (op m a : String) : DState × String :=
    let bad : DState × String := (st, "bad-op")
    if op = "tinit" then
      match nat? a with
      | some a => (match m with
        | "h" => res { st with h := dlistInit st.h (tHeadOf st a) } "ok"
        | "a" => res { st with h := dlistInit st.h (tNode a 0), removed := st.removed.erase (tNode a 0) } "ok"
        | "b" => res { st with h := dlistInit st.h (tNode a 1), removed := st.removed.erase (tNode a 1) } "ok"
        | _ => bad)
      | none => bad
    else
    match mem? m, nat? a with
    | some m, some a =>
      let off : Addr := BitVec.ofNat 64 (tOff m)
      let hd : Addr := BitVec.ofNat 64 (tHeadOf st a)
      let ob : Addr := BitVec.ofNat 64 (tObj a)
      match op with
      | "tdel" => res { st with h := dlistDelInit st.h (tNode a m) } "ok"
      | "tdelp" => res { st with h := dlistDel st.h (tNode a m), removed := tNode a m :: st.removed } "ok"
      | "tentries" => res st (ids ((dlistForEachEntry st.h FUEL hd off).map tKey))
      | "tentries_rev" => res st (ids ((dlistForEachEntryReverse st.h FUEL hd off).map tKey))
      | "tfirst" => res st (tKeyOrEnd st (tOff m) (dlistFirstEntry st.h hd off))
      | "tlast" => res st (tKeyOrEnd st (tOff m) (dlistLastEntry st.h hd off))
      | "tnext" => res st (tKeyOrEnd st (tOff m) (dlistNextEntry st.h ob off))
      | "tprev" => res st (tKeyOrEnd st (tOff m) (dlistPrevEntry st.h ob off))
      | "tsize" => res st (toString (dlistSize st.h FUEL (tHeadOf st a)))
      | _ => bad
    | _, _ => bad
def stepT4 (st : DState) (op m a b : String) : DState × String :=
    let bad : DState × String := (st, "bad-op")
    match mem? m, nat? a, nat? b with
    | some m, some a, some b =>
      match op with
      | "tadd" => res { st with h := dlistAddNext st.h (tNode a m) (tHeadOf st b), removed := st.removed.erase (tNode a m) } "ok"
      | "tadd_tail" => res { st with h := dlistAddPrev st.h (tNode a m) (tHeadOf st b), removed := st.removed.erase (tNode a m) } "ok"
      | "tmove" => res { st with h := dlistMove st.h (tNode a m) (tHeadOf st b) } "ok"
      | "tmove_tail" => res { st with h := dlistMoveTail st.h (tNode a m) (tHeadOf st b) } "ok"
      | "tmove_to" => res { st with h := dlistMove st.h (tNode a m) (tNode b m) } "ok"
      | "tmove_tail_to" => res { st with h := dlistMoveTail st.h (tNode a m) (tNode b m) } "ok"
      | "tsorted" => res { st with h := dlistMoveSorted st.h (fun x y => decide (x < y)) FUEL (tNode a m) (tHeadOf st b), removed := st.removed.erase (tNode a m) } "ok"
      | _ => bad
    | _, _, _ => bad
-- tsafe <m> <head> <p> <q> <mode> <tgt> | tsafe raw <m> <head> <p> <q>
def stepTsafe (st : DState) (ws : List String) : DState × String :=
    let bad : DState × String := (st, "bad-op")
    match ws with
    | ["raw", m, hd, p, q] => match mem? m, nat? hd, nat? p, nat? q with
      | some m, some hd, some p, some q =>
        let off : Addr := BitVec.ofNat 64 (tOff m)
        let body := fun (h : Heap) (pos : Nat) =>
          if tKey (mcastOut (BitVec.ofNat 64 pos) off) % p = q then dlistDelInit h pos else h
        let r := dlistForEachSafe body st.h FUEL (tHeadOf st hd)
        res { st with h := r.1 } (ids (r.2.map fun pos => tKey (mcastOut (BitVec.ofNat 64 pos) off)))
      | _, _, _, _ => bad
    | [m, hd, p, q, mode, tgt] => match mem? m, nat? hd, nat? p, nat? q, nat? mode, nat? tgt with
      | some m, some hd, some p, some q, some mode, some tgt =>
        let off : Addr := BitVec.ofNat 64 (tOff m)
        let body := fun (h : Heap) (e : Addr) =>
          if tKey e % p = q then
            (if mode = 0 then dlistDelInit h (mcastIn e off).toNat
             else if mode = 1 then dlistDel h (mcastIn e off).toNat
             else dlistMoveTail h (mcastIn e off).toNat (tHeadOf st tgt))
          else h
        let r := dlistForEachEntrySafe body st.h FUEL (BitVec.ofNat 64 (tHeadOf st hd)) off
        let gone := if mode = 1 then (r.2.filter fun e => tKey e % p = q).map fun e => (mcastIn e off).toNat else []
        res { st with h := r.1, removed := gone ++ st.removed } (ids (r.2.map tKey))
      | _, _, _, _, _, _ => bad
    | _ => bad


def stepLine (st : DState) (line : String) : DState × String :=
  let bad : DState × String := (st, "bad-op")
  match words line with
  | ["reset", "c", n] => match nat? n with
    | some n =>
      let h := (List.range n).foldl dlistInit ⟨fun x => x, fun x => x⟩
      res { kind := "c", n := n, h := h } "ok"
    | none => bad
  | ["reset", "x", n, k] => match nat? n, nat? k with
    | some n, some k =>
      -- list heads n..n+k-1 are constructed, item nodes are not
      let heads := (List.range k).map (· + n)
      let h := heads.foldl nodeCtor ⟨fun x => x, fun x => x⟩
      res { kind := "x", n := n + k, h := h, alive := heads, nheads := k } "ok"
    | _, _ => bad
  | ["reset", "r", n] => match nat? n with
    | some n =>
      let h := (List.range n).foldl dlistInit ⟨fun x => x, fun x => x⟩
      let h := (List.range (n - 1)).foldl (fun h i => dlistAddPrev h (i + 1) 0) h
      res { kind := "c", n := n, h := h } "ok"
    | none => bad
  | ["reset", "R", n] => match nat? n with
    | some n => res { kind := "c", n := n, h := ringHeap n } "ok"
    | none => bad
  | ["widths"] => res st widthsStr
  | ["premain"] => res st premainStr
  -- round 3b: igris::dlist::is_correct() on a hand-corrupted 4-node ring (head 0, elements 1 2 3):
  -- mode 0 untouched, 1 lasso (3->next = 2), 2 prev := copy of next, 3 one wrong back link (2->prev = 0), 4 only the head's back link wrong (0->prev = 1)
  -- round 3b: two list heads in ONE ring spliced into each other (theorem `splice_same_ring`): list L (head 0) holds
  -- 1 2 3, the head of list O (node 4) is moved in front of node m (m = 0: in front of L's head), then
  -- L.unlink_and_move_all_nodes_from_other(O)
  | ["xsplice_same", m] => match nat? m with
    | some m =>
      let h0 : Heap := ⟨fun x => x, fun x => x⟩
      let h1 := nodeMovePrevThan (nodeMovePrevThan (nodeMovePrevThan h0 1 0) 2 0) 3 0
      let h2 := nodeMovePrevThan h1 4 m
      let h3 := listSplice h2 0 4
      let c := if cppIsCorrectStrict h3 FUEL 0 && cppIsCorrectStrict h3 FUEL 4 then "1" else "0"
      let e := if h3.next 4 = 4 then "1" else "0"
      res st s!"{ids (dlistToList h3 FUEL 0)} {ids (dlistToListRev h3 FUEL 0)} {e} {circularSize h3 FUEL 0 - 1} {c}"
    | none => bad
  | ["xcorrect_poke", m] => match nat? m with
    | some m =>
      let nx : Nat → Nat := fun x => if x < 4 then (if m == 1 && x == 3 then 2 else (x + 1) % 4) else x
      let pv : Nat → Nat := fun x => if x < 4 then (if m == 2 then (x + 1) % 4 else if m == 3 && x == 2 then 0 else if m == 4 && x == 0 then 1 else (x + 3) % 4) else x
      res st (if cppIsCorrectStrict ⟨nx, pv⟩ FUEL 0 then "1" else "0")
    | none => bad
  | ["mmac", _, i] => match nat? i with
    | some i => res st (mmacStr i)
    | none => bad
  | ["reset", "t", n, k] => match nat? n, nat? k with
    | some n, some k => res { kind := "t", n := n + k, nheads := k } "ok"
    | _, _ => bad
  | ["reset", "s", n] => match nat? n with
    | some n => res { kind := "s", n := n, s := ⟨fun x => x⟩ } "ok"
    | none => bad
  | ["reset", "h", n, k] => match nat? n, nat? k with
    | some n, some k => res { kind := "h", n := n + k, nheads := k } "ok"
    | _, _ => bad
  | ["toffsets"] => res st s!"{OFFA} {OFFB} {TSTRIDE}"
  | "tsafe" :: rest => stepTsafe st rest
  | [op, m, a] => if st.kind = "t" then stepT3 st op m a else step3 st op m a
  | [op, m, a, b] => if st.kind = "t" then stepT4 st op m a b else step4 st op m a b
  | [op, a] => match nat? a with
    | none => bad
    | some a =>
      match op with
      | "cinit" => res { st with h := dlistInit st.h a, removed := st.removed.erase a } "ok"
      | "cdel" => res { st with h := dlistDel st.h a, removed := a :: st.removed } "ok"
      | "cdel_init" => res { st with h := dlistDelInit st.h a } "ok"
      | "csize" => res st (toString (dlistSizeL st.h (max FUEL (st.n + 2)) a))
      | "csize_rev" => res st (toString (dlistSizeReversedL st.h (max FUEL (st.n + 2)) a))
      | "cempty" => res st (if dlistEmpty st.h a then "1" else "0")
      | "ccorrect" => res st (if dlistIsCorrectStrict st.h a then "1" else "0")
      | "ccorrect_strict" => res st (if dlistIsCorrectStrict st.h a then "1" else "0")
      | "clist" => res st (ids (dlistToList st.h FUEL a))
      | "clist_rev" => res st (ids (dlistToListRev st.h FUEL a))
      | "xnew" => res { st with h := nodeCtor st.h a, alive := a :: st.alive } "ok"
      | "xrenew" => res { st with h := nodeCtor st.h a } "ok"
      | "xdel" => res { st with h := nodeDtor st.h a, alive := st.alive.erase a } "ok"
      | "xlnew" => res { st with h := nodeCtor st.h a, alive := a :: st.alive } "ok"
      | "xldel" => res { st with h := listClear st.h a FUEL, alive := st.alive.erase a } "ok"
      | "xclear" => res { st with h := listClear st.h a FUEL } "ok"
      | "xunlink" => res { st with h := nodeUnlink st.h a } "ok"
      | "xpop_front" => res { st with h := listPopFront st.h a } "ok"
      | "xpop_back" => res { st with h := listPopBack st.h a } "ok"
      | "xsize" => res st (toString (circularSize st.h FUEL a - 1))
      | "xempty" => res st (if st.h.next a ≠ a then "0" else "1")
      | "xlinked" => res st (if st.h.next a ≠ a then "1" else "0")
      | "xcorrect" => res st (if cppIsCorrectStrict st.h FUEL a then "1" else "0")
      | "xiter" => res st (ids (dlistToList st.h FUEL a))
      | "xriter" => res st (ids (dlistToListRev st.h FUEL a))
      | "xround_left" => res { st with h := listRoundLeft st.h a } "ok"
      | "xwalk" => res st (ids (dlistToList st.h FUEL a) ++ "/" ++ ids (dlistToListRev st.h FUEL a))
      | "xfront" => res st (toString (xId (listFront st.h (BitVec.ofNat 64 a) XOFF)))
      | "xback" => res st (toString (xId (listBack st.h (BitVec.ofNat 64 a) XOFF)))
      | "sinit" =>
        -- the elements of a re-initialised head are in no list afterwards
        res { st with s := slistInit st.s a, sfree := ((if st.sfree.contains a then [] else slistToList st.s (st.n + 1) a) ++ st.sfree).erase a } "ok"
      | "smacros" =>
        -- every container_of-style macro applied to the (once evaluated) node / object pointer of item a
        let node : Addr := BitVec.ofNat 64 (HADDR a)
        let obj : Addr := mcastOut node XOFF
        let k1 := keyOfEntry (mcastOut node XOFF)
        let k2 := keyOfEntry (mcastOutOrNull node XOFF)
        let k3 := toString (((mcastIn obj XOFF).toNat - 4096) / 32)
        res st (" ".intercalate [k1, k2, k1, k1, k1, k3, k3, k1])
      | "cpop_entry" =>
        let r := dlistPopFirst st.h a
        res { st with h := r.1 } (keyOfEntry (mcastOutOrNull (ptrOf (r.2.map HADDR)) XOFF))
      | "hpop_entry" =>
        let r := hlistPopFirst st.hh a
        res { st with hh := r.1 } (keyOfEntry (mcastOutOrNull (ptrOf (r.2.map HADDR)) XOFF))
      | "spop" =>
        let (s', r) := slistPopFirst st.s a
        res { st with s := s', sfree := r.toList ++ st.sfree } (match r with | some v => toString v | none => "null")
      | "ssize" => res st (toString (slistSizeL st.s FUEL a))
      | "sempty" => res st (if slistEmpty st.s a then "1" else "0")
      | "slist" => res st (ids (slistToList st.s FUEL a))
      | "hhead_init" => res { st with hh := hlistHeadInit st.hh a } "ok"
      | "hnode_init" => res { st with hh := hlistNodeInit st.hh a } "ok"
      | "hdel" => res { st with hh := hlistDel st.hh a } "ok"
      | "hlist" => res st (ids (hlistToList st.hh FUEL a))
      | "hentries" => res st (ids ((hlistForEachEntry (hAddrView st.hh) FUEL a XOFF).map fun e =>
          ((mcastIn e XOFF).toNat - 4096) / 32))
      | "sxiter" => res st (ids (slistToList st.s FUEL a))
      | _ => bad
  | _ => bad

def main : IO Unit := run ({} : DState) stepLine
