/-
  C01 extension — lemmas for: bounded walks (`dlist_check*`, `dlist_is_correct`) on arbitrary (also
  corrupted) heaps, container_of arithmetic, entry iteration, loops that delete the current element,
  the frame property (operations on one family of lists never write another), C++ size()/is_correct().
-/
import IgrisModel.C01.Refine
import IgrisModel.C01.Slist
namespace Igris.C01

/-! ## bounded walks on ANY heap -/

/-- `n`-fold application -/
def iterN (f : Nat → Nat) : Nat → Nat → Nat
  | 0, a => a
  | n + 1, a => iterN f n (f a)

/-- starting at `it`, the walk along `f` reaches `fnd` for the first time after `k + 1` steps -/
def FirstHit (f : Nat → Nat) (fnd it k : Nat) : Prop :=
  iterN f (k + 1) it = fnd ∧ ∀ j, j < k → iterN f (j + 1) it ≠ fnd

theorem FirstHit.unique {f : Nat → Nat} {fnd it k k' : Nat} (a : FirstHit f fnd it k) (b : FirstHit f fnd it k') :
    k = k' := by
  rcases Nat.lt_trichotomy k k' with h | h | h
  · exact absurd a.1 (b.2 k h)
  · exact h
  · exact absurd b.1 (a.2 k' h)

theorem checkAux_spec (h : Heap) (fnd : Nat) : ∀ (count it steps : Nat),
    (∃ k, k < count ∧ FirstHit h.next fnd it k ∧ dlistCheckAux h fnd count it steps = ((steps + k : Nat) : Int)) ∨
    ((∀ k, k < count → iterN h.next (k + 1) it ≠ fnd) ∧ dlistCheckAux h fnd count it steps = -1) := by
  intro count
  induction count with
  | zero => intro it steps; right; exact ⟨fun k hk => absurd hk (Nat.not_lt_zero k), rfl⟩
  | succ c ih =>
    intro it steps
    by_cases e : fnd = h.next it
    · left
      refine ⟨0, Nat.succ_pos c, ⟨e.symm, fun j hj => absurd hj (Nat.not_lt_zero j)⟩, ?_⟩
      simp [dlistCheckAux, e]
    · rcases ih (h.next it) (steps + 1) with ⟨k, hk, hit, hv⟩ | ⟨hno, hv⟩
      · left
        refine ⟨k + 1, Nat.succ_lt_succ hk, ⟨hit.1, ?_⟩, ?_⟩
        · intro j hj
          cases j with
          | zero => exact fun e' => e e'.symm
          | succ j => exact hit.2 j (Nat.lt_of_succ_lt_succ hj)
        · simp only [dlistCheckAux, e, if_false]; rw [hv]; congr 1; omega
      · right
        refine ⟨?_, ?_⟩
        · intro k hk
          cases k with
          | zero => exact fun e' => e e'.symm
          | succ k => exact hno k (Nat.lt_of_succ_lt_succ hk)
        · simp only [dlistCheckAux, e, if_false]; exact hv

theorem checkRevAux_flip (h : Heap) (fnd : Nat) : ∀ count it steps,
    dlistCheckRevAux h fnd count it steps = dlistCheckAux h.flip fnd count it steps := by
  intro count; induction count with
  | zero => intros; rfl
  | succ c ih => intro it steps; simp only [dlistCheckRevAux, dlistCheckAux, ih]; rfl

/-- what `dlist_check`-style walks along `f` compute -/
def WalkResult (f : Nat → Nat) (fnd count : Nat) (v : Int) : Prop :=
  (∃ k, k < count ∧ FirstHit f fnd fnd k ∧ v = (k : Int)) ∨ ((∀ k, k < count → iterN f (k + 1) fnd ≠ fnd) ∧ v = -1)

theorem dlistCheck_result (h : Heap) (fnd count : Nat) : WalkResult h.next fnd count (dlistCheck h fnd count) := by
  rcases checkAux_spec h fnd count fnd 0 with ⟨k, hk, hit, hv⟩ | ⟨hno, hv⟩
  · left; exact ⟨k, hk, hit, by rw [dlistCheck, hv]; simp⟩
  · right; exact ⟨hno, hv⟩

theorem dlistCheckReversed_result (h : Heap) (fnd count : Nat) :
    WalkResult h.prev fnd count (dlistCheckReversed h fnd count) := by
  have := dlistCheck_result h.flip fnd count
  unfold dlistCheckReversed; rw [checkRevAux_flip]; exact this

theorem WalkResult.nonneg_iff {f : Nat → Nat} {fnd count : Nat} {v : Int} (w : WalkResult f fnd count v) :
    ¬ v < 0 ↔ ∃ k, k < count ∧ FirstHit f fnd fnd k ∧ v = (k : Int) := by
  rcases w with ⟨k, hk, hit, hv⟩ | ⟨hno, hv⟩
  · constructor
    · intro _; exact ⟨k, hk, hit, hv⟩
    · intro _; rw [hv]; omega
  · constructor
    · intro hn; rw [hv] at hn; omega
    · rintro ⟨k, hk, hit, _⟩; exact absurd hit.1 (hno k hk)

/-- `dlist_is_correct(head)` on ANY heap: true exactly when the forward walk and the backward
walk both come back to `head` within 1000 steps and do so after the same number of steps -/
theorem isCorrect_iff (h : Heap) (hd : Nat) :
    dlistIsCorrect h hd = true ↔ ∃ n, n < 1000 ∧ FirstHit h.next hd hd n ∧ FirstHit h.prev hd hd n := by
  have wf := dlistCheck_result h hd 1000
  have wb := dlistCheckReversed_result h hd 1000
  unfold dlistIsCorrect
  constructor
  · intro hc
    by_cases c1 : dlistCheck h hd 1000 < 0
    · simp [c1] at hc
    · by_cases c2 : dlistCheckReversed h hd 1000 < 0
      · simp [c1, c2] at hc
      · simp only [c1, c2, if_false] at hc
        obtain ⟨k, hk, hit, hv⟩ := wf.nonneg_iff.mp c1
        obtain ⟨k', _, hit', hv'⟩ := wb.nonneg_iff.mp c2
        have : (k : Int) = (k' : Int) := by rw [← hv, ← hv']; simpa using hc
        have hkk : k = k' := by omega
        subst hkk
        exact ⟨k, hk, hit, hit'⟩
  · rintro ⟨n, hn, hf, hb⟩
    obtain ⟨k, _, hit, hv⟩ := wf.nonneg_iff.mp (by
      intro hneg
      rcases wf with ⟨k, hk, hit, hv⟩ | ⟨hno, _⟩
      · rw [hv] at hneg; omega
      · exact hno n hn hf.1)
    obtain ⟨k', _, hit', hv'⟩ := wb.nonneg_iff.mp (by
      intro hneg
      rcases wb with ⟨k, hk, hit, hv⟩ | ⟨hno, _⟩
      · rw [hv] at hneg; omega
      · exact hno n hn hb.1)
    have e1 := hit.unique hf
    have e2 := hit'.unique hb
    subst e1; subst e2
    have n1 : ¬ dlistCheck h hd 1000 < 0 := by rw [hv]; omega
    have n2 : ¬ dlistCheckReversed h hd 1000 < 0 := by rw [hv']; omega
    simp [n1, n2, hv, hv']

theorem iterN_seg (nx : Nat → Nat) : ∀ (l : List Nat) (a b : Nat), Seg nx a l b →
    ∀ k (hk : k < l.length), iterN nx (k + 1) a = l[k]
  | [], _, _, _, k, hk => absurd hk (Nat.not_lt_zero k)
  | x :: xs, a, b, hs, k, hk => by
    simp only [Seg] at hs
    cases k with
    | zero => simp [iterN, hs.1]
    | succ k =>
      have := iterN_seg nx xs x b hs.2 k (by simpa using hk)
      simp only [iterN] at this ⊢
      rw [hs.1]; simpa using this

/-- a ring with 1000 or more elements besides the head is rejected (the limit is the code's) -/
theorem isCorrect_false_of_long {h : Heap} {hd : Nat} {xs : List Nat} (r : IsRing h hd xs)
    (hlen : 1000 ≤ xs.length) : dlistIsCorrect h hd = false := by
  cases hc : dlistIsCorrect h hd with
  | false => rfl
  | true =>
    obtain ⟨n, hn, hf, _⟩ := (isCorrect_iff h hd).mp hc
    have hk : n < xs.length := by omega
    have e := iterN_seg h.next xs hd hd r.fwd n hk
    have hmem : xs[n] ∈ xs := List.getElem_mem hk
    have hnot : hd ∉ xs := (List.nodup_cons.mp r.nodup).1
    rw [hf.1] at e
    exact absurd (e ▸ hmem) hnot

/-! ## container_of arithmetic -/

theorem mcastOut_mcastIn (e off : Addr) : mcastOut (mcastIn e off) off = e := by
  unfold mcastOut mcastIn; exact BitVec.add_sub_cancel e off

theorem mcastIn_mcastOut (p off : Addr) : mcastIn (mcastOut p off) off = p := by
  unfold mcastOut mcastIn; exact BitVec.sub_add_cancel p off

theorem mcastIn_inj_off (e o1 o2 : Addr) (hne : o1 ≠ o2) : mcastIn e o1 ≠ mcastIn e o2 := by
  unfold mcastIn
  intro h
  exact hne ((BitVec.add_right_inj e).mp h)

theorem ofNat_toNat_small {p : Nat} (hp : p < 2 ^ 64) : (BitVec.ofNat 64 p).toNat = p := by
  simp [BitVec.toNat_ofNat, Nat.mod_eq_of_lt hp]

theorem ofNat_inj_small {p q : Nat} (hp : p < 2 ^ 64) (hq : q < 2 ^ 64) :
    BitVec.ofNat 64 p = BitVec.ofNat 64 q ↔ p = q := by
  constructor
  · intro h
    have := congrArg BitVec.toNat h
    rwa [ofNat_toNat_small hp, ofNat_toNat_small hq] at this
  · intro h; rw [h]

/-- the entry of node `p` for member offset `off` -/
def entryOf (off : Addr) (p : Nat) : Addr := mcastOut (BitVec.ofNat 64 p) off

theorem nextEntry_entryOf (h : Heap) (off : Addr) {p : Nat} (hp : p < 2 ^ 64) :
    dlistNextEntry h (entryOf off p) off = entryOf off (h.next p) := by
  unfold dlistNextEntry entryOf Heap.nextA
  rw [mcastIn_mcastOut, ofNat_toNat_small hp]

theorem prevEntry_entryOf (h : Heap) (off : Addr) {p : Nat} (hp : p < 2 ^ 64) :
    dlistPrevEntry h (entryOf off p) off = entryOf off (h.prev p) := by
  unfold dlistPrevEntry entryOf Heap.prevA
  rw [mcastIn_mcastOut, ofNat_toNat_small hp]

theorem walkEntry_seg (h : Heap) (hd : Nat) (off : Addr) (hhd : hd < 2 ^ 64) :
    ∀ (l : List Nat) (p fuel : Nat), Seg h.next p l hd → hd ∉ p :: l → (∀ y ∈ p :: l, y < 2 ^ 64) →
      l.length + 1 < fuel →
      walkEntry h (BitVec.ofNat 64 hd) off fuel (entryOf off p) = (p :: l).map (entryOf off) := by
  intro l
  induction l with
  | nil =>
    intro p fuel hs hnot hb hf
    simp only [Seg] at hs
    have hp : p ≠ hd := fun e => hnot (by simp [e])
    have hpb := hb p (by simp)
    match fuel, hf with
    | f + 2, _ =>
      have c1 : mcastIn (entryOf off p) off ≠ BitVec.ofNat 64 hd := by
        unfold entryOf; rw [mcastIn_mcastOut]; exact fun e => hp ((ofNat_inj_small hpb hhd).mp e)
      have c2 : mcastIn (entryOf off hd) off = BitVec.ofNat 64 hd := by unfold entryOf; rw [mcastIn_mcastOut]
      simp [walkEntry, c1, nextEntry_entryOf h off hpb, hs, c2]
  | cons x xs ih =>
    intro p fuel hs hnot hb hf
    simp only [Seg] at hs
    have hp : p ≠ hd := fun e => hnot (by simp [e])
    have hpb := hb p (by simp)
    match fuel, hf with
    | f + 1, hf =>
      have c1 : mcastIn (entryOf off p) off ≠ BitVec.ofNat 64 hd := by
        unfold entryOf; rw [mcastIn_mcastOut]; exact fun e => hp ((ofNat_inj_small hpb hhd).mp e)
      simp only [walkEntry, c1, if_false, nextEntry_entryOf h off hpb, hs.1]
      rw [ih x f hs.2 (fun hm => hnot (by simp at hm ⊢; right; exact hm))
        (fun y hy => hb y (by simp at hy ⊢; right; exact hy)) (by simp at hf ⊢; omega)]
      simp

theorem walkEntryRev_flip (h : Heap) (head off : Addr) : ∀ fuel pos,
    walkEntryRev h head off fuel pos = walkEntry h.flip head off fuel pos := by
  intro fuel; induction fuel with
  | zero => intros; rfl
  | succ f ih => intro pos; simp only [walkEntryRev, walkEntry, ih]; rfl

/-- `dlist_for_each_entry` over a ring whose nodes are machine addresses visits the objects of
the list's elements, each exactly once, in list order -/
theorem forEachEntry_ring {h : Heap} {hd : Nat} {xs : List Nat} (r : IsRing h hd xs)
    (hb : ∀ y ∈ hd :: xs, y < 2 ^ 64) (off : Addr) (fuel : Nat) (hf : xs.length + 1 < fuel) :
    dlistForEachEntry h fuel (BitVec.ofNat 64 hd) off = xs.map (entryOf off) := by
  have hhd := hb hd (by simp)
  unfold dlistForEachEntry dlistFirstEntry Heap.nextA
  rw [ofNat_toNat_small hhd]
  cases xs with
  | nil =>
    have := r.fwd; simp only [Seg] at this
    match fuel, hf with
    | f + 1, _ =>
      have c2 : mcastIn (mcastOut (BitVec.ofNat 64 hd) off) off = BitVec.ofNat 64 hd := mcastIn_mcastOut _ _
      simp [walkEntry, this, c2]
  | cons x xs =>
    have hfw := r.fwd; simp only [Seg] at hfw
    rw [hfw.1]
    have hnd := r.nodup
    exact walkEntry_seg h hd off hhd xs x fuel hfw.2
      (fun hm => (List.nodup_cons.mp hnd).1 hm)
      (fun y hy => hb y (List.mem_cons_of_mem _ hy)) (by simp at hf ⊢; omega)

theorem forEachEntryReverse_ring {h : Heap} {hd : Nat} {xs : List Nat} (r : IsRing h hd xs)
    (hb : ∀ y ∈ hd :: xs, y < 2 ^ 64) (off : Addr) (fuel : Nat) (hf : xs.length + 1 < fuel) :
    dlistForEachEntryReverse h fuel (BitVec.ofNat 64 hd) off = xs.reverse.map (entryOf off) := by
  have := forEachEntry_ring r.flip (by intro y hy; exact hb y (by simpa using hy)) off fuel (by simpa using hf)
  unfold dlistForEachEntryReverse
  rw [walkEntryRev_flip]
  exact this

end Igris.C01
