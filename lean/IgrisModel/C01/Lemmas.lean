import IgrisModel.C01.Model
namespace Igris.C01

/-! ## segments and rings -/

/-- following `nx` from `a` visits exactly the nodes `l`, then arrives at `b` -/
def Seg (nx : Nat → Nat) : Nat → List Nat → Nat → Prop
  | a, [], b => nx a = b
  | a, x :: xs, b => nx a = x ∧ Seg nx x xs b

theorem Seg_append (nx : Nat → Nat) (a : Nat) (l1 : List Nat) (x : Nat) (l2 : List Nat) (b : Nat) :
    Seg nx a (l1 ++ x :: l2) b ↔ Seg nx a l1 x ∧ Seg nx x l2 b := by
  induction l1 generalizing a with
  | nil => simp [Seg]
  | cons y ys ih => simp [Seg, ih, and_assoc]

theorem Seg_snoc (nx : Nat → Nat) (a : Nat) (l : List Nat) (x b : Nat) :
    Seg nx a (l ++ [x]) b ↔ Seg nx a l x ∧ nx x = b := by
  rw [Seg_append]; simp [Seg]

/-- a segment only depends on `nx` at its start and interior nodes -/
theorem Seg_congr (nx nx' : Nat → Nat) (a : Nat) (l : List Nat) (b : Nat)
    (h : ∀ y ∈ a :: l, nx' y = nx y) : Seg nx' a l b ↔ Seg nx a l b := by
  induction l generalizing a with
  | nil => simp [Seg, h a (by simp)]
  | cons x xs ih =>
    simp only [Seg, h a (by simp)]
    rw [ih x (fun y hy => h y (by simp at hy ⊢; right; exact hy))]

/-- every node after the start of a segment is the `nx` of its predecessor in the segment -/
theorem Seg_mem_next (nx : Nat → Nat) (a : Nat) (l : List Nat) (b : Nat) (h : Seg nx a l b) :
    ∀ y ∈ a :: l, nx y ∈ l ++ [b] := by
  induction l generalizing a with
  | nil => intro y hy; simp at hy; subst hy; simp [Seg] at h; simp [h]
  | cons x xs ih =>
    intro y hy
    simp only [Seg] at h
    rcases List.mem_cons.mp hy with rfl | hy
    · simp [h.1]
    · have := ih x h.2 y hy
      simp at this ⊢; right; exact this

/-- The cyclic sequence `a :: xs` is a ring of the heap: forward links follow the
sequence and close it, every member's successor points back at it. -/
structure IsRing (h : Heap) (a : Nat) (xs : List Nat) : Prop where
  nodup : (a :: xs).Nodup
  fwd : Seg h.next a xs a
  back : ∀ y ∈ a :: xs, h.prev (h.next y) = y

theorem IsRing.next_mem {h : Heap} {a : Nat} {xs : List Nat} (r : IsRing h a xs) :
    ∀ y ∈ a :: xs, h.next y ∈ a :: xs := by
  intro y hy
  have := Seg_mem_next _ _ _ _ r.fwd y hy
  simp at this ⊢
  rcases this with h1 | h1
  · right; exact h1
  · left; exact h1

theorem IsRing.single (h : Heap) (a : Nat) (hn : h.next a = a) (hp : h.prev a = a) : IsRing h a [] :=
  ⟨by simp, hn, by intro y hy; simp at hy; subst hy; rw [hn, hp]⟩

/-- rotate left by one: the ring may be read starting from its second element -/
theorem IsRing.rotate {h : Heap} {a x : Nat} {xs : List Nat} (r : IsRing h a (x :: xs)) :
    IsRing h x (xs ++ [a]) := by
  refine ⟨?_, ?_, ?_⟩
  · have := r.nodup
    simp only [List.nodup_cons, List.mem_cons, not_or] at this
    simp only [List.nodup_cons, List.mem_append, List.mem_singleton, not_or]
    refine ⟨⟨this.2.1, fun e => this.1.1 e.symm⟩, ?_⟩
    rw [List.nodup_append]
    refine ⟨this.2.2, by simp, ?_⟩
    intro y hy z hz; simp at hz; subst hz; intro e; subst e; exact this.1.2 hy
  · have := r.fwd
    simp only [Seg] at this
    rw [Seg_snoc]; exact ⟨this.2, this.1⟩
  · intro y hy
    apply r.back
    simp at hy ⊢
    rcases hy with h1 | h1 | h1
    · right; left; exact h1
    · right; right; exact h1
    · left; exact h1

/-! ## traversal of a ring -/

theorem walkNext_seg (h : Heap) (head : Nat) (l : List Nat) (p : Nat) (fuel : Nat)
    (hs : Seg h.next p l head) (hnot : head ∉ p :: l) (hf : l.length + 1 < fuel) :
    walkNext h head fuel p = p :: l := by
  induction l generalizing p fuel with
  | nil =>
    simp only [Seg] at hs
    match fuel, hf with
    | f + 2, _ =>
      have hp : p ≠ head := fun e => hnot (by simp [e])
      simp [walkNext, hp, hs]
  | cons x xs ih =>
    simp only [Seg] at hs
    match fuel, hf with
    | f + 1, hf =>
      have hp : p ≠ head := fun e => hnot (by simp [e])
      simp only [walkNext, hp, if_false, hs.1]
      rw [ih x f hs.2 (fun hm => hnot (by simp at hm ⊢; right; exact hm)) (by simp at hf ⊢; omega)]

/-- forward traversal of a list head yields exactly the ring's other members, in order -/
theorem dlistToList_ring (h : Heap) (hd : Nat) (xs : List Nat) (r : IsRing h hd xs) (fuel : Nat)
    (hf : xs.length + 1 < fuel) : dlistToList h fuel hd = xs := by
  unfold dlistToList
  cases xs with
  | nil =>
    have := r.fwd; simp only [Seg] at this
    match fuel, hf with
    | f + 1, _ => simp [walkNext, this]
  | cons x xs =>
    have hfw := r.fwd; simp only [Seg] at hfw
    rw [hfw.1]
    have hnd := r.nodup
    apply walkNext_seg h hd xs x fuel hfw.2
    · intro hm; simp only [List.nodup_cons] at hnd; exact hnd.1 hm
    · simp at hf ⊢; omega

end Igris.C01

namespace Igris.C01

/-! ## backward links -/

theorem Seg_reverse (nx pv : Nat → Nat) (a : Nat) (l : List Nat) (b : Nat)
    (hs : Seg nx a l b) (hb : ∀ y ∈ a :: l, pv (nx y) = y) : Seg pv b l.reverse a := by
  induction l generalizing a with
  | nil => simp only [Seg] at hs; simp only [List.reverse_nil, Seg]; rw [← hs]; exact hb a (by simp)
  | cons x xs ih =>
    simp only [Seg] at hs
    rw [List.reverse_cons, Seg_snoc]
    refine ⟨ih x hs.2 (fun y hy => hb y (by simp at hy ⊢; right; exact hy)), ?_⟩
    rw [← hs.1]; exact hb a (by simp)

/-- every member of a ring is the successor of a member -/
theorem Seg_surj (nx : Nat → Nat) (a : Nat) (l : List Nat) (b : Nat) (hs : Seg nx a l b) :
    ∀ y ∈ l ++ [b], ∃ z ∈ a :: l, nx z = y := by
  induction l generalizing a with
  | nil => intro y hy; simp at hy; subst hy; exact ⟨a, by simp, hs⟩
  | cons x xs ih =>
    simp only [Seg] at hs
    intro y hy
    simp only [List.cons_append, List.mem_cons] at hy
    rcases hy with rfl | hy
    · exact ⟨a, by simp, hs.1⟩
    · obtain ⟨z, hz, e⟩ := ih x hs.2 y hy
      exact ⟨z, by simp at hz ⊢; right; exact hz, e⟩

theorem IsRing.prev_next {h : Heap} {a : Nat} {xs : List Nat} (r : IsRing h a xs) :
    ∀ y ∈ a :: xs, h.next (h.prev y) = y ∧ h.prev y ∈ a :: xs := by
  intro y hy
  have hy' : y ∈ xs ++ [a] := by simp at hy ⊢; rcases hy with h1 | h1; right; exact h1; left; exact h1
  obtain ⟨z, hz, e⟩ := Seg_surj _ _ _ _ r.fwd y hy'
  have := r.back z hz
  rw [e] at this
  rw [this]; exact ⟨e, hz⟩

def Heap.flip (h : Heap) : Heap := ⟨h.prev, h.next⟩

/-- a ring read backwards is a ring of the flipped heap -/
theorem IsRing.flip {h : Heap} {a : Nat} {xs : List Nat} (r : IsRing h a xs) :
    IsRing h.flip a xs.reverse := by
  refine ⟨?_, ?_, ?_⟩
  · have := r.nodup
    simp only [List.nodup_cons, List.mem_reverse] at this ⊢
    refine ⟨this.1, ?_⟩
    have h2 := this.2
    unfold List.Nodup at h2 ⊢
    rw [List.pairwise_reverse]
    exact h2.imp (fun hne => fun e => hne e.symm)
  · exact Seg_reverse h.next h.prev a xs a r.fwd r.back
  · intro y hy
    have hy' : y ∈ a :: xs := by simp at hy ⊢; exact hy
    exact (r.prev_next y hy').1

theorem walkPrev_eq_flip (h : Heap) (head fuel p : Nat) :
    walkPrev h head fuel p = walkNext h.flip head fuel p := by
  induction fuel generalizing p with
  | zero => rfl
  | succ f ih => simp only [walkPrev, walkNext, ih]; rfl

/-- backward traversal yields the reverse of the forward sequence -/
theorem dlistToListRev_ring (h : Heap) (hd : Nat) (xs : List Nat) (r : IsRing h hd xs) (fuel : Nat)
    (hf : xs.length + 1 < fuel) : dlistToListRev h fuel hd = xs.reverse := by
  have := dlistToList_ring h.flip hd xs.reverse r.flip fuel (by simpa using hf)
  unfold dlistToListRev
  unfold dlistToList at this
  rw [walkPrev_eq_flip]; exact this

/-! ## redirecting the end of a segment -/

def upd (f : Nat → Nat) (a v : Nat) : Nat → Nat := fun x => if x = a then v else f x

theorem Seg_set_last (nx : Nat → Nat) (a : Nat) (l : List Nat) (b c : Nat)
    (hs : Seg nx a l b) (hn : (a :: l).Nodup) :
    Seg (upd nx ((a :: l).getLast (by simp)) c) a l c := by
  induction l generalizing a with
  | nil => simp [Seg, upd]
  | cons x xs ih =>
    simp only [Seg] at hs
    have hn' : (x :: xs).Nodup := (List.nodup_cons.mp hn).2
    have hlast : (a :: x :: xs).getLast (by simp) = (x :: xs).getLast (by simp) := by simp
    have hne : a ≠ (x :: xs).getLast (by simp) := by
      intro e
      have : (x :: xs).getLast (by simp) ∈ x :: xs := List.getLast_mem _
      rw [← e] at this
      exact (List.nodup_cons.mp hn).1 this
    simp only [Seg, hlast]
    refine ⟨by simp [upd, hne, hs.1], ih x hs.2 hn'⟩

end Igris.C01

namespace Igris.C01

theorem Seg_last (nx : Nat → Nat) (a : Nat) (l : List Nat) (b : Nat) (hs : Seg nx a l b) :
    nx ((a :: l).getLast (by simp)) = b := by
  induction l generalizing a with
  | nil => simpa [Seg] using hs
  | cons x xs ih =>
    simp only [Seg] at hs
    have : (a :: x :: xs).getLast (by simp) = (x :: xs).getLast (by simp) := by simp
    rw [this]; exact ih x hs.2

/-- transfer a ring to a heap that agrees with the old one on the ring's members -/
theorem IsRing.congr {h h' : Heap} {a : Nat} {xs : List Nat} (r : IsRing h a xs)
    (hn : ∀ y ∈ a :: xs, h'.next y = h.next y) (hp : ∀ y ∈ a :: xs, h'.prev y = h.prev y) :
    IsRing h' a xs := by
  refine ⟨r.nodup, (Seg_congr _ _ _ _ _ hn).mpr r.fwd, ?_⟩
  intro y hy
  rw [hn y hy, hp _ (r.next_mem y hy)]
  exact r.back y hy

/-- pointwise description of `dlist_del_init(a)` on a heap where `a` has
successor `x` and predecessor `z` -/
theorem dlistDelInit_next (h : Heap) (a y : Nat) :
    (dlistDelInit h a).next y = if y = a then a else if y = h.prev a then h.next a else h.next y := by
  simp [dlistDelInit, dlistInit, dlistDelRaw, Heap.setNext, Heap.setPrev]

theorem dlistDelInit_prev (h : Heap) (a y : Nat) :
    (dlistDelInit h a).prev y = if y = a then a else if y = h.next a then h.prev a else h.prev y := by
  simp [dlistDelInit, dlistInit, dlistDelRaw, Heap.setNext, Heap.setPrev]

/-- UNLINK.  Removing `a` from the ring `a :: x :: xs` leaves the ring `x :: xs`
(same cyclic order) and `a` alone in its own ring; nothing outside the ring is
written. -/
theorem dlistDelInit_ring (h : Heap) (a x : Nat) (xs : List Nat) (r : IsRing h a (x :: xs)) :
    IsRing (dlistDelInit h a) x xs ∧ IsRing (dlistDelInit h a) a [] ∧
    (∀ y, y ∉ a :: x :: xs → (dlistDelInit h a).next y = h.next y ∧ (dlistDelInit h a).prev y = h.prev y) := by
  have hnd := r.nodup
  have hfw := r.fwd
  simp only [Seg] at hfw
  obtain ⟨hna, hseg⟩ := hfw
  have hax : a ∉ x :: xs := (List.nodup_cons.mp hnd).1
  have hnd' : (x :: xs).Nodup := (List.nodup_cons.mp hnd).2
  -- z = last node, predecessor of a
  have hzmem : (x :: xs).getLast (by simp) ∈ x :: xs := List.getLast_mem _
  have hzn : h.next ((x :: xs).getLast (by simp)) = a := Seg_last _ _ _ _ hseg
  have hpa : h.prev a = (x :: xs).getLast (by simp) := by
    have := r.back _ (List.mem_cons_of_mem a hzmem)
    rw [hzn] at this; exact this
  have hpx : h.prev x = a := by have := r.back a (by simp); rw [hna] at this; exact this
  have hza : (x :: xs).getLast (by simp) ≠ a := fun e => hax (e ▸ hzmem)
  refine ⟨⟨hnd', ?_, ?_⟩, ?_, ?_⟩
  · -- forward links of the remaining ring
    have h1 := Seg_set_last h.next x xs a x hseg hnd'
    refine (Seg_congr _ _ x xs x ?_).mpr h1
    intro y hy
    have hya : y ≠ a := fun e => hax (e ▸ hy)
    simp only [dlistDelInit_next, hya, if_false, hpa, hna, upd]
  · -- every successor points back
    intro y hy
    have hya : y ≠ a := fun e => hax (e ▸ hy)
    have hyr : y ∈ a :: x :: xs := List.mem_cons_of_mem a hy
    rw [dlistDelInit_next, if_neg hya, hpa, hna]
    by_cases hyz : y = (x :: xs).getLast (by simp)
    · rw [if_pos hyz, dlistDelInit_prev, hna, hpa]
      have hxa : x ≠ a := fun e => hax (by simp [e])
      simp [hxa, hyz]
    · rw [if_neg hyz, dlistDelInit_prev, hna, hpa]
      have hb := r.back y hyr
      -- next y is neither a (then y would be z) nor x (then y would be a)
      have h1 : h.next y ≠ a := by
        intro e; rw [e, hpa] at hb; exact hyz hb.symm
      have h2 : h.next y ≠ x := by
        intro e; rw [e, hpx] at hb; exact hya hb.symm
      simp [h1, h2, hb]
  · apply IsRing.single <;> simp [dlistDelInit_next, dlistDelInit_prev]
  · intro y hy
    have hya : y ≠ a := fun e => hy (by simp [e])
    have hyz : y ≠ h.prev a := by rw [hpa]; intro e; exact hy (e ▸ List.mem_cons_of_mem a hzmem)
    have hyx : y ≠ h.next a := by rw [hna]; intro e; exact hy (by simp [e])
    simp [dlistDelInit_next, dlistDelInit_prev, hya, hyz, hyx]

/-- unlinking a node that is alone in its ring changes nothing -/
theorem dlistDelInit_single (h : Heap) (a : Nat) (r : IsRing h a []) :
    (dlistDelInit h a).next = h.next ∧ (dlistDelInit h a).prev = h.prev := by
  have hn : h.next a = a := r.fwd
  have hp : h.prev a = a := by have := r.back a (by simp); rw [hn] at this; exact this
  constructor <;> funext y
  · rw [dlistDelInit_next, hp, hn]; split <;> simp_all
  · rw [dlistDelInit_prev, hp, hn]; split <;> simp_all

end Igris.C01

namespace Igris.C01

theorem dlistAddNext_next (h : Heap) (lnk head y : Nat) :
    (dlistAddNext h lnk head).next y =
      if y = head then lnk else if y = lnk then h.next head else h.next y := by
  simp [dlistAddNext, dlistAdd, Heap.setNext, Heap.setPrev]

theorem dlistAddNext_prev (h : Heap) (lnk head y : Nat) :
    (dlistAddNext h lnk head).prev y =
      if y = h.next head then lnk else if y = lnk then head else h.prev y := by
  simp [dlistAddNext, dlistAdd, Heap.setNext, Heap.setPrev]

theorem Seg_shift_start (nx nx' : Nat → Nat) (a c : Nat) (l : List Nat) (b : Nat)
    (hs : Seg nx a l b) (hc : nx' c = nx a) (hl : ∀ y ∈ l, nx' y = nx y) : Seg nx' c l b := by
  cases l with
  | nil => simp only [Seg] at hs ⊢; rw [hc, hs]
  | cons x xs =>
    simp only [Seg] at hs ⊢
    refine ⟨by rw [hc, hs.1], (Seg_congr _ _ x xs b ?_).mpr hs.2⟩
    intro y hy; exact hl y hy

/-- INSERT AFTER.  Adding a node that is in no ring right after `head` turns the
ring `head :: ys` into `head :: lnk :: ys`; only `lnk` and ring members are written. -/
theorem dlistAddNext_ring (h : Heap) (lnk head : Nat) (ys : List Nat) (r : IsRing h head ys)
    (hl : lnk ∉ head :: ys) :
    IsRing (dlistAddNext h lnk head) head (lnk :: ys) ∧
    (∀ y, y ∉ lnk :: head :: ys → (dlistAddNext h lnk head).next y = h.next y ∧
        (dlistAddNext h lnk head).prev y = h.prev y) := by
  have hnd := r.nodup
  have hlh : lnk ≠ head := fun e => hl (by simp [e])
  have hnm : h.next head ∈ head :: ys := r.next_mem head (by simp)
  have hnl : h.next head ≠ lnk := fun e => hl (e ▸ hnm)
  refine ⟨⟨?_, ?_, ?_⟩, ?_⟩
  · simp only [List.nodup_cons, List.mem_cons, not_or] at hnd hl ⊢
    exact ⟨⟨fun e => hl.1 e.symm, hnd.1⟩, hl.2, hnd.2⟩
  · simp only [Seg]
    refine ⟨by simp [dlistAddNext_next], ?_⟩
    apply Seg_shift_start h.next _ head lnk ys head r.fwd
    · simp [dlistAddNext_next, hlh]
    · intro y hy
      have h1 : y ≠ head := fun e => (List.nodup_cons.mp hnd).1 (e ▸ hy)
      have h2 : y ≠ lnk := fun e => hl (by simp [← e, hy])
      simp [dlistAddNext_next, h1, h2]
  · intro y hy
    simp only [List.mem_cons] at hy
    rcases hy with rfl | rfl | hy
    · simp [dlistAddNext_next, dlistAddNext_prev, hnl.symm]
    · simp [dlistAddNext_next, dlistAddNext_prev, hlh]
    · have h1 : y ≠ head := fun e => (List.nodup_cons.mp hnd).1 (e ▸ hy)
      have h2 : y ≠ lnk := fun e => hl (by simp [← e, hy])
      have hyr : y ∈ head :: ys := List.mem_cons_of_mem _ hy
      have hb := r.back y hyr
      have h3 : h.next y ≠ h.next head := by
        intro e
        have := r.back head (by simp)
        rw [← e, hb] at this; exact h1 this
      have h4 : h.next y ≠ lnk := fun e => hl (e ▸ r.next_mem y hyr)
      simp [dlistAddNext_next, dlistAddNext_prev, h1, h2, h3, h4, hb]
  · intro y hy
    simp only [List.mem_cons, not_or] at hy
    have h5 : y ≠ h.next head := by
      intro e; rw [e] at hy
      simp only [List.mem_cons] at hnm
      rcases hnm with e' | e'
      · exact hy.2.1 e'
      · exact hy.2.2 e'
    simp [dlistAddNext_next, dlistAddNext_prev, hy.1, hy.2.1, h5]

theorem flip_flip (h : Heap) : h.flip.flip = h := rfl

theorem IsRing.unflip {h : Heap} {a : Nat} {xs : List Nat} (r : IsRing h.flip a xs) :
    IsRing h a xs.reverse := by
  have := r.flip; rwa [flip_flip] at this

theorem dlistAddPrev_flip (h : Heap) (lnk head : Nat) (h1 : lnk ≠ head) (h2 : lnk ≠ h.prev head) :
    (dlistAddPrev h lnk head).flip.next = (dlistAddNext h.flip lnk head).next ∧
    (dlistAddPrev h lnk head).flip.prev = (dlistAddNext h.flip lnk head).prev := by
  constructor <;> funext y
  · simp only [Heap.flip, dlistAddPrev, dlistAddNext, dlistAdd, Heap.setNext, Heap.setPrev]
    try (by_cases e1 : y = head <;> by_cases e2 : y = lnk <;> simp_all)
  · simp only [Heap.flip, dlistAddPrev, dlistAddNext, dlistAdd, Heap.setNext, Heap.setPrev]
    try (by_cases e1 : y = h.prev head <;> by_cases e2 : y = lnk <;> simp_all)

/-- INSERT BEFORE.  `dlist_add_prev(lnk, head)` turns the ring `head :: ys` into
`head :: ys ++ [lnk]`. -/
theorem dlistAddPrev_ring (h : Heap) (lnk head : Nat) (ys : List Nat) (r : IsRing h head ys)
    (hl : lnk ∉ head :: ys) :
    IsRing (dlistAddPrev h lnk head) head (ys ++ [lnk]) ∧
    (∀ y, y ∉ lnk :: head :: ys → (dlistAddPrev h lnk head).next y = h.next y ∧
        (dlistAddPrev h lnk head).prev y = h.prev y) := by
  have hl' : lnk ∉ head :: ys.reverse := by simpa using hl
  obtain ⟨r1, f1⟩ := dlistAddNext_ring h.flip lnk head ys.reverse r.flip hl'
  have hlh : lnk ≠ head := fun e => hl (by simp [e])
  have hpm : h.prev head ∈ head :: ys := (r.prev_next head (by simp)).2
  have hlp : lnk ≠ h.prev head := fun e => hl (e ▸ hpm)
  obtain ⟨e1, e2⟩ := dlistAddPrev_flip h lnk head hlh hlp
  have hflip : (dlistAddPrev h lnk head).flip = dlistAddNext h.flip lnk head := by
    cases hh : (dlistAddPrev h lnk head).flip with
    | mk n p =>
      cases hh2 : dlistAddNext h.flip lnk head with
      | mk n2 p2 => rw [hh] at e1 e2; rw [hh2] at e1 e2; simp at e1 e2; rw [e1, e2]
  constructor
  · have r2 : IsRing (dlistAddPrev h lnk head).flip head (lnk :: ys.reverse) := by rw [hflip]; exact r1
    have := r2.unflip
    simpa using this
  · intro y hy
    have hy' : y ∉ lnk :: head :: ys.reverse := by simpa using hy
    have := f1 y hy'
    rw [← hflip] at this
    exact ⟨this.2, this.1⟩

end Igris.C01

namespace Igris.C01

/-! ## families of disjoint rings (the abstract state) -/

abbrev Rings := List (List Nat)

def Disj (r s : List Nat) : Prop := ∀ y ∈ r, y ∉ s

theorem Disj.symm {r s : List Nat} (h : Disj r s) : Disj s r := fun y hy hr => h y hr hy

/-- every member list is a ring of the heap and the rings are pairwise disjoint -/
structure RingsOK (h : Heap) (A : Rings) : Prop where
  ring : ∀ r ∈ A, ∃ a xs, r = a :: xs ∧ IsRing h a xs
  disj : A.Pairwise Disj

theorem RingsOK.perm {h : Heap} {A A' : Rings} (ok : RingsOK h A) (p : A.Perm A') : RingsOK h A' :=
  ⟨fun r hr => ok.ring r (p.mem_iff.mpr hr),
   (p.pairwise_iff (fun hrs => Disj.symm hrs)).mp ok.disj⟩

theorem RingsOK.head {h : Heap} {r : List Nat} {B : Rings} (ok : RingsOK h (r :: B)) :
    (∃ a xs, r = a :: xs ∧ IsRing h a xs) ∧ (∀ s ∈ B, Disj r s) ∧ RingsOK h B :=
  ⟨ok.ring r (by simp), (List.pairwise_cons.mp ok.disj).1,
   ⟨fun s hs => ok.ring s (by simp [hs]), (List.pairwise_cons.mp ok.disj).2⟩⟩

theorem RingsOK.cons {h : Heap} {a : Nat} {xs : List Nat} {B : Rings} (r : IsRing h a xs)
    (d : ∀ s ∈ B, Disj (a :: xs) s) (ok : RingsOK h B) : RingsOK h ((a :: xs) :: B) :=
  ⟨by intro s hs; rcases List.mem_cons.mp hs with rfl | hs
      · exact ⟨a, xs, rfl, r⟩
      · exact ok.ring s hs,
   List.pairwise_cons.mpr ⟨d, ok.disj⟩⟩

/-- rings that are disjoint from everything an operation writes stay rings -/
theorem RingsOK.frame {h h' : Heap} {B : Rings} (ok : RingsOK h B) (W : List Nat)
    (hd : ∀ s ∈ B, Disj W s)
    (hf : ∀ y, y ∉ W → h'.next y = h.next y ∧ h'.prev y = h.prev y) : RingsOK h' B := by
  refine ⟨?_, ok.disj⟩
  intro s hs
  obtain ⟨a, xs, e, r⟩ := ok.ring s hs
  refine ⟨a, xs, e, r.congr ?_ ?_⟩ <;> intro y hy
  · exact (hf y (fun hw => hd s hs y hw (e ▸ hy))).1
  · exact (hf y (fun hw => hd s hs y hw (e ▸ hy))).2

/-- the first ring may be read from its second element -/
theorem RingsOK.rot {h : Heap} {a x : Nat} {xs : List Nat} {B : Rings}
    (ok : RingsOK h ((a :: x :: xs) :: B)) : RingsOK h ((x :: (xs ++ [a])) :: B) := by
  obtain ⟨⟨a', xs', e, r⟩, d, okB⟩ := ok.head
  injection e with e1 e2; subst e1; subst e2
  refine RingsOK.cons r.rotate ?_ okB
  intro s hs y hy
  apply d s hs y
  simp at hy ⊢
  rcases hy with h1 | h1 | h1
  · right; left; exact h1
  · right; right; exact h1
  · left; exact h1

/-- UNLINK on the family: `a` leaves the ring `a :: x :: xs` -/
theorem RingsOK.delInit {h : Heap} {a x : Nat} {xs : List Nat} {B : Rings}
    (ok : RingsOK h ((a :: x :: xs) :: B)) :
    RingsOK (dlistDelInit h a) ([a] :: (x :: xs) :: B) := by
  obtain ⟨⟨a', xs', e, r⟩, d, okB⟩ := ok.head
  injection e with e1 e2; subst e1; subst e2
  obtain ⟨r1, r2, f⟩ := dlistDelInit_ring h a x xs r
  have okB' : RingsOK (dlistDelInit h a) B := okB.frame (a :: x :: xs) d f
  have hax : a ∉ x :: xs := (List.nodup_cons.mp r.nodup).1
  refine RingsOK.cons r2 ?_ (RingsOK.cons r1 ?_ okB')
  · intro s hs y hy
    simp only [List.mem_singleton] at hy; subst hy
    rcases List.mem_cons.mp hs with rfl | hs
    · exact hax
    · exact d s hs y (by simp)
  · intro s hs y hy
    exact d s hs y (List.mem_cons_of_mem a hy)

/-- UNLINK of a node that is alone: nothing changes -/
theorem RingsOK.delInit_single {h : Heap} {a : Nat} {B : Rings} (ok : RingsOK h ([a] :: B)) :
    RingsOK (dlistDelInit h a) ([a] :: B) := by
  obtain ⟨⟨a', xs', e, r⟩, _, _⟩ := ok.head
  injection e with e1 e2; subst e1; subst e2
  obtain ⟨e1, e2⟩ := dlistDelInit_single h a r
  have : dlistDelInit h a = h := by
    cases hh : dlistDelInit h a with
    | mk n p => cases h with
      | mk n0 p0 => rw [hh] at e1 e2; simp at e1 e2; rw [e1, e2]
  rw [this]; exact ok

/-- INSERT AFTER on the family: the lone node `lnk` joins the ring of `head` -/
theorem RingsOK.addNext {h : Heap} {lnk head : Nat} {ys : List Nat} {B : Rings}
    (ok : RingsOK h ([lnk] :: (head :: ys) :: B)) :
    RingsOK (dlistAddNext h lnk head) ((head :: lnk :: ys) :: B) := by
  obtain ⟨_, d1, ok1⟩ := ok.head
  obtain ⟨⟨a', xs', e, r⟩, d2, okB⟩ := ok1.head
  injection e with e1 e2; subst e1; subst e2
  have hl : lnk ∉ head :: ys := d1 _ (by simp) lnk (by simp)
  obtain ⟨r1, f⟩ := dlistAddNext_ring h lnk head ys r hl
  have okB' : RingsOK (dlistAddNext h lnk head) B := by
    apply okB.frame (lnk :: head :: ys) _ f
    intro s hs y hy
    rcases List.mem_cons.mp hy with rfl | hy
    · exact d1 s (by simp [hs]) _ (by simp)
    · exact d2 s hs y hy
  refine RingsOK.cons r1 ?_ okB'
  intro s hs y hy
  simp only [List.mem_cons] at hy
  rcases hy with rfl | rfl | hy
  · exact d2 s hs _ (by simp)
  · exact d1 s (by simp [hs]) _ (by simp)
  · exact d2 s hs y (by simp [hy])

/-- INSERT BEFORE on the family -/
theorem RingsOK.addPrev {h : Heap} {lnk head : Nat} {ys : List Nat} {B : Rings}
    (ok : RingsOK h ([lnk] :: (head :: ys) :: B)) :
    RingsOK (dlistAddPrev h lnk head) ((head :: (ys ++ [lnk])) :: B) := by
  obtain ⟨_, d1, ok1⟩ := ok.head
  obtain ⟨⟨a', xs', e, r⟩, d2, okB⟩ := ok1.head
  injection e with e1 e2; subst e1; subst e2
  have hl : lnk ∉ head :: ys := d1 _ (by simp) lnk (by simp)
  obtain ⟨r1, f⟩ := dlistAddPrev_ring h lnk head ys r hl
  have okB' : RingsOK (dlistAddPrev h lnk head) B := by
    apply okB.frame (lnk :: head :: ys) _ f
    intro s hs y hy
    rcases List.mem_cons.mp hy with rfl | hy
    · exact d1 s (by simp [hs]) _ (by simp)
    · exact d2 s hs y hy
  refine RingsOK.cons r1 ?_ okB'
  intro s hs y hy
  simp only [List.mem_cons, List.mem_append, List.not_mem_nil, or_false] at hy
  rcases hy with rfl | hy | rfl
  · exact d2 s hs _ (by simp)
  · exact d2 s hs y (by simp [hy])
  · exact d1 s (by simp [hs]) _ (by simp)

end Igris.C01

namespace Igris.C01

/-! ## more primitives: free nodes, poisoning delete, general rotation -/

theorem IsRing.rotN {h : Heap} : ∀ (l1 : List Nat) {a : Nat} {xs : List Nat} {b : Nat} {l2 : List Nat},
    IsRing h a xs → a :: xs = l1 ++ b :: l2 → IsRing h b (l2 ++ l1)
  | [], a, xs, b, l2, r, e => by
    simp only [List.nil_append, List.cons.injEq] at e
    obtain ⟨rfl, rfl⟩ := e; simpa using r
  | [c], a, xs, b, l2, r, e => by
    simp only [List.cons_append, List.nil_append, List.cons.injEq] at e
    obtain ⟨rfl, rfl⟩ := e
    exact r.rotate
  | c :: d :: l1, a, xs, b, l2, r, e => by
    simp only [List.cons_append, List.cons.injEq] at e
    obtain ⟨rfl, rfl⟩ := e
    have r' := r.rotate
    have := IsRing.rotN (d :: l1) (b := b) (l2 := l2 ++ [a]) r' (by simp)
    simpa using this
  termination_by l1 => l1.length

theorem RingsOK.rotN {h : Heap} {l1 l2 : List Nat} {b : Nat} {B : Rings}
    (ok : RingsOK h ((l1 ++ b :: l2) :: B)) : RingsOK h ((b :: (l2 ++ l1)) :: B) := by
  obtain ⟨⟨a, xs, e, r⟩, d, okB⟩ := ok.head
  refine RingsOK.cons (IsRing.rotN l1 r e.symm) ?_ okB
  intro s hs y hy
  apply d s hs y
  simp at hy ⊢
  rcases hy with h1 | h1 | h1
  · right; left; exact h1
  · right; right; exact h1
  · left; exact h1

/-- a node is free when it belongs to no ring of the family -/
def Free (A : Rings) (a : Nat) : Prop := ∀ s ∈ A, a ∉ s

theorem RingsOK.addNextFree {h : Heap} {lnk head : Nat} {ys : List Nat} {B : Rings}
    (ok : RingsOK h ((head :: ys) :: B)) (hf : Free ((head :: ys) :: B) lnk) :
    RingsOK (dlistAddNext h lnk head) ((head :: lnk :: ys) :: B) := by
  obtain ⟨⟨a', xs', e, r⟩, d2, okB⟩ := ok.head
  injection e with e1 e2; subst e1; subst e2
  have hl : lnk ∉ head :: ys := hf _ (by simp)
  obtain ⟨r1, f⟩ := dlistAddNext_ring h lnk head ys r hl
  have okB' : RingsOK (dlistAddNext h lnk head) B := by
    apply okB.frame (lnk :: head :: ys) _ f
    intro s hs y hy
    rcases List.mem_cons.mp hy with rfl | hy
    · exact hf s (by simp [hs])
    · exact d2 s hs y hy
  refine RingsOK.cons r1 ?_ okB'
  intro s hs y hy
  simp only [List.mem_cons] at hy
  rcases hy with rfl | rfl | hy
  · exact d2 s hs _ (by simp)
  · exact hf s (by simp [hs])
  · exact d2 s hs y (by simp [hy])

theorem RingsOK.addPrevFree {h : Heap} {lnk head : Nat} {ys : List Nat} {B : Rings}
    (ok : RingsOK h ((head :: ys) :: B)) (hf : Free ((head :: ys) :: B) lnk) :
    RingsOK (dlistAddPrev h lnk head) ((head :: (ys ++ [lnk])) :: B) := by
  obtain ⟨⟨a', xs', e, r⟩, d2, okB⟩ := ok.head
  injection e with e1 e2; subst e1; subst e2
  have hl : lnk ∉ head :: ys := hf _ (by simp)
  obtain ⟨r1, f⟩ := dlistAddPrev_ring h lnk head ys r hl
  have okB' : RingsOK (dlistAddPrev h lnk head) B := by
    apply okB.frame (lnk :: head :: ys) _ f
    intro s hs y hy
    rcases List.mem_cons.mp hy with rfl | hy
    · exact hf s (by simp [hs])
    · exact d2 s hs y hy
  refine RingsOK.cons r1 ?_ okB'
  intro s hs y hy
  simp only [List.mem_cons, List.mem_append, List.not_mem_nil, or_false] at hy
  rcases hy with rfl | hy | rfl
  · exact d2 s hs _ (by simp)
  · exact d2 s hs y (by simp [hy])
  · exact hf s (by simp [hs])

/-- `dlist_init` / `dlist_node()` on a free node creates a ring of one -/
theorem RingsOK.initFree {h : Heap} {a : Nat} {A : Rings} (ok : RingsOK h A) (hf : Free A a) :
    RingsOK (dlistInit h a) ([a] :: A) := by
  have f : ∀ y, y ∉ [a] → (dlistInit h a).next y = h.next y ∧ (dlistInit h a).prev y = h.prev y := by
    intro y hy
    have : y ≠ a := by simpa using hy
    simp [dlistInit, Heap.setNext, Heap.setPrev, this]
  have okA : RingsOK (dlistInit h a) A := ok.frame [a] (by intro s hs y hy; simp at hy; subst hy; exact hf s hs) f
  refine RingsOK.cons (IsRing.single _ a ?_ ?_) ?_ okA
  · simp [dlistInit, Heap.setNext, Heap.setPrev]
  · simp [dlistInit, Heap.setNext, Heap.setPrev]
  · intro s hs y hy; simp at hy; subst hy; exact hf s hs

theorem nodeCtor_eq_init (h : Heap) (a : Nat) :
    (nodeCtor h a).next = (dlistInit h a).next ∧ (nodeCtor h a).prev = (dlistInit h a).prev := by
  constructor <;> funext y <;> simp [nodeCtor, dlistInit, Heap.setNext, Heap.setPrev]

theorem Heap.ext' {h h' : Heap} (e1 : h.next = h'.next) (e2 : h.prev = h'.prev) : h = h' := by
  cases h; cases h'; simp at e1 e2; rw [e1, e2]

/-- `dlist_del` (poisoning): like unlink, but the entry ends up in no ring -/
theorem RingsOK.del {h : Heap} {a x : Nat} {xs : List Nat} {B : Rings}
    (ok : RingsOK h ((a :: x :: xs) :: B)) :
    RingsOK (dlistDel h a) ((x :: xs) :: B) ∧ Free ((x :: xs) :: B) a := by
  have ok' := ok.delInit
  obtain ⟨_, d1, ok1⟩ := ok'.head
  have hfree : Free ((x :: xs) :: B) a := by
    intro s hs ha; exact d1 s hs a (by simp) ha
  refine ⟨?_, hfree⟩
  -- dlistDel agrees with dlistDelInit everywhere except at `a`
  have agree : ∀ y, y ∉ [a] → (dlistDel h a).next y = (dlistDelInit h a).next y ∧
      (dlistDel h a).prev y = (dlistDelInit h a).prev y := by
    intro y hy
    have : y ≠ a := by simpa using hy
    simp [dlistDel, dlistDelInit, dlistInit, dlistDelRaw, Heap.setNext, Heap.setPrev, this]
  exact ok1.frame [a] (by intro s hs y hy; simp at hy; subst hy; exact hfree s hs) agree

theorem RingsOK.del_single {h : Heap} {a : Nat} {B : Rings} (ok : RingsOK h ([a] :: B)) :
    RingsOK (dlistDel h a) B ∧ Free B a := by
  obtain ⟨⟨a', xs', e, r⟩, d, okB⟩ := ok.head
  injection e with e1 e2; subst e1; subst e2
  have hfree : Free B a := fun s hs ha => d s hs a (by simp) ha
  refine ⟨?_, hfree⟩
  have hn : h.next a = a := r.fwd
  have hp : h.prev a = a := by have := r.back a (by simp); rw [hn] at this; exact this
  apply okB.frame [a] (by intro s hs y hy; simp at hy; subst hy; exact hfree s hs)
  intro y hy
  have : y ≠ a := by simpa using hy
  simp [dlistDel, dlistDelRaw, Heap.setNext, Heap.setPrev, this, hn, hp]

end Igris.C01
