import IgrisModel.C01.Spec
namespace Igris.C01

theorem RingsOK.same {h : Heap} {A A' : Rings} (ok : RingsOK h A) (s : Same A A') : RingsOK h A' := by
  induction s with
  | refl => exact ok
  | perm p => exact ok.perm p
  | rot => exact ok.rotN
  | trans _ _ ih1 ih2 => exact ih2 (ih1 ok)

/-- the lone ring `[l]` may be swapped behind the next ring -/
theorem swap12 {h : Heap} {r s : List Nat} {B : Rings} (ok : RingsOK h (r :: s :: B)) :
    RingsOK h (s :: r :: B) := ok.perm (List.Perm.swap s r B)

/-- move = unlink + insert-after, at the level of families -/
theorem move_same {h : Heap} {l head : Nat} {pre post : List Nat} {B : Rings}
    (ok : RingsOK h ((l :: (pre ++ head :: post)) :: B)) :
    RingsOK (dlistMove h l head) ((head :: l :: (post ++ pre)) :: B) := by
  unfold dlistMove
  -- the remaining ring pre ++ head :: post is non-empty; name its first element
  cases pre with
  | nil =>
    have h1 := ok.delInit (a := l) (x := head) (xs := post)
    simpa using h1.addNext
  | cons p pre' =>
    have h1 := ok.delInit (a := l) (x := p) (xs := pre' ++ head :: post)
    have h2 : RingsOK (dlistDelInit h l) ((head :: (post ++ p :: pre')) :: [l] :: B) := by
      have := swap12 h1
      exact RingsOK.rotN (l1 := p :: pre') (b := head) (l2 := post) this
    exact (swap12 h2).addNext

theorem moveTail_same {h : Heap} {l head : Nat} {pre post : List Nat} {B : Rings}
    (ok : RingsOK h ((l :: (pre ++ head :: post)) :: B)) :
    RingsOK (dlistMoveTail h l head) ((head :: (post ++ pre ++ [l])) :: B) := by
  unfold dlistMoveTail
  cases pre with
  | nil =>
    have h1 := ok.delInit (a := l) (x := head) (xs := post)
    simpa using h1.addPrev
  | cons p pre' =>
    have h1 := ok.delInit (a := l) (x := p) (xs := pre' ++ head :: post)
    have h2 : RingsOK (dlistDelInit h l) ((head :: (post ++ p :: pre')) :: [l] :: B) := by
      have := swap12 h1
      exact RingsOK.rotN (l1 := p :: pre') (b := head) (l2 := post) this
    simpa using (swap12 h2).addPrev

theorem addNext_self_single {h : Heap} {a : Nat} (r : IsRing h a []) :
    dlistAddNext h a a = h ∧ dlistAddPrev h a a = h := by
  have hn : h.next a = a := r.fwd
  have hp : h.prev a = a := by have := r.back a (by simp); rw [hn] at this; exact this
  constructor <;> apply Heap.ext' <;> funext y <;>
    simp only [dlistAddNext, dlistAddPrev, dlistAdd, Heap.setNext, Heap.setPrev, hn, hp] <;>
    (by_cases e : y = a <;> simp_all)

theorem nodeUnlink_eq_delInit {h : Heap} {a : Nat} {xs : List Nat} (r : IsRing h a xs) :
    nodeUnlink h a = dlistDelInit h a := by
  cases xs with
  | nil =>
    have hn : h.next a = a := r.fwd
    obtain ⟨e1, e2⟩ := dlistDelInit_single h a r
    simp only [nodeUnlink, hn, ne_eq, not_true_eq_false, if_false]
    exact (Heap.ext' e1 e2).symm
  | cons x xs =>
    have hfw := r.fwd
    simp only [Seg] at hfw
    have hax : a ≠ x := by
      have := r.nodup; simp only [List.nodup_cons, List.mem_cons, not_or] at this; exact this.1.1
    have hne : h.next a ≠ a := by rw [hfw.1]; exact fun e => hax e.symm
    have hxa : ¬ x = a := fun e => hax e.symm
    apply Heap.ext' <;> funext y <;>
      simp [nodeUnlink, dlistDelInit, dlistInit, dlistDelRaw, Heap.setNext, Heap.setPrev, hfw.1, hax, hxa]

theorem self_after_unlink {h : Heap} {a x : Nat} {xs : List Nat} {B : Rings}
    (ok : RingsOK h ((a :: x :: xs) :: B)) :
    RingsOK (dlistAddNext (dlistDelInit h a) a a) ([a] :: (x :: xs) :: B) ∧
    RingsOK (dlistAddPrev (dlistDelInit h a) a a) ([a] :: (x :: xs) :: B) := by
  have h1 := ok.delInit
  obtain ⟨⟨a', xs', e, r⟩, _, _⟩ := h1.head
  injection e with e1 e2; subst e1; subst e2
  obtain ⟨e1, e2⟩ := addNext_self_single r
  rw [e1, e2]; exact ⟨h1, h1⟩

theorem self_single {h : Heap} {a : Nat} {B : Rings} (ok : RingsOK h ([a] :: B)) :
    RingsOK (dlistAddNext (dlistDelInit h a) a a) ([a] :: B) ∧
    RingsOK (dlistAddPrev (dlistDelInit h a) a a) ([a] :: B) := by
  have h1 := ok.delInit_single
  obtain ⟨⟨a', xs', e, r⟩, _, _⟩ := h1.head
  injection e with e1 e2; subst e1; subst e2
  obtain ⟨e1, e2⟩ := addNext_self_single r
  rw [e1, e2]; exact ⟨h1, h1⟩

theorem unlink_ok {h : Heap} {a x : Nat} {xs : List Nat} {B : Rings}
    (ok : RingsOK h ((a :: x :: xs) :: B)) : RingsOK (nodeUnlink h a) ([a] :: (x :: xs) :: B) := by
  obtain ⟨⟨a', xs', e, r⟩, _, _⟩ := ok.head
  injection e with e1 e2; subst e1; subst e2
  rw [nodeUnlink_eq_delInit r]; exact ok.delInit

theorem unlink_single_ok {h : Heap} {a : Nat} {B : Rings}
    (ok : RingsOK h ([a] :: B)) : RingsOK (nodeUnlink h a) ([a] :: B) := by
  obtain ⟨⟨a', xs', e, r⟩, _, _⟩ := ok.head
  injection e with e1 e2; subst e1; subst e2
  rw [nodeUnlink_eq_delInit r]; exact ok.delInit_single

theorem insertInstead_ok {h : Heap} {iter instead : Nat} {ys : List Nat} {B : Rings}
    (ok : RingsOK h ([iter] :: (instead :: ys) :: B)) :
    RingsOK (dlistInsertInstead h iter instead) ([instead] :: (iter :: ys) :: B) := by
  unfold dlistInsertInstead
  have h1 := ok.addPrev
  cases ys with
  | nil => simpa using h1.delInit
  | cons y ys' =>
    have h2 := RingsOK.delInit (a := instead) (x := y) (xs := ys' ++ [iter]) (by simpa using h1)
    have h3 := swap12 h2
    have h4 := RingsOK.rotN (l1 := y :: ys') (b := iter) (l2 := []) (by simpa using h3)
    simpa using swap12 h4

/-! ### C++ moves = C moves on well-formed families -/

theorem pred_of_single {h : Heap} {a node : Nat} {B : Rings} (ok : RingsOK h ([a] :: B))
    (hn : ∃ s ∈ [a] :: B, node ∈ s) (e : h.next node = a) : node = a := by
  obtain ⟨s, hs, hns⟩ := hn
  obtain ⟨_, d, _⟩ := ok.head
  rcases List.mem_cons.mp hs with rfl | hsB
  · simpa using hns
  · obtain ⟨b, ys, eb, r⟩ := ok.ring s hs
    have : h.next node ∈ b :: ys := r.next_mem node (eb ▸ hns)
    rw [e, ← eb] at this
    exact absurd this (d s hsB a (by simp))

theorem succ_of_single {h : Heap} {a node : Nat} {B : Rings} (ok : RingsOK h ([a] :: B))
    (hn : ∃ s ∈ [a] :: B, node ∈ s) (e : h.prev node = a) : node = a := by
  obtain ⟨s, hs, hns⟩ := hn
  obtain ⟨_, d, _⟩ := ok.head
  rcases List.mem_cons.mp hs with rfl | hsB
  · simpa using hns
  · obtain ⟨b, ys, eb, r⟩ := ok.ring s hs
    have : h.prev node ∈ b :: ys := (r.prev_next node (eb ▸ hns)).2
    rw [e, ← eb] at this
    exact absurd this (d s hsB a (by simp))

/-- the four assignments of `move_next_than` after `unlink()` -/
def cppInsAfter (h : Heap) (a node : Nat) : Heap :=
  (((h.setNext node a).setPrev (h.next node) a).setNext a (h.next node)).setPrev a node
def cppInsBefore (h : Heap) (a node : Nat) : Heap :=
  (((h.setPrev node a).setNext (h.prev node) a).setPrev a (h.prev node)).setNext a node

theorem nodeMoveNextThan_def (h : Heap) (a node : Nat) :
    nodeMoveNextThan h a node = cppInsAfter (nodeUnlink h a) a node := rfl
theorem nodeMovePrevThan_def (h : Heap) (a node : Nat) :
    nodeMovePrevThan h a node = cppInsBefore (nodeUnlink h a) a node := rfl

theorem cppInsAfter_eq (h : Heap) (a node : Nat) (c1 : h.next node = a → node = a)
    (c2 : node = a → h.next a = a) : cppInsAfter h a node = dlistAddNext h a node := by
  apply Heap.ext' <;> funext y <;>
    simp only [cppInsAfter, dlistAddNext, dlistAdd, Heap.setNext, Heap.setPrev]
  · by_cases e1 : y = a <;> by_cases e2 : y = node <;> simp_all
  · by_cases e1 : y = a <;> by_cases e2 : y = h.next node <;> simp_all

theorem cppInsBefore_eq (h : Heap) (a node : Nat) (c1 : h.prev node = a → node = a)
    (c2 : node = a → h.prev a = a) : cppInsBefore h a node = dlistAddPrev h a node := by
  apply Heap.ext' <;> funext y <;>
    simp only [cppInsBefore, dlistAddPrev, dlistAdd, Heap.setNext, Heap.setPrev]
  · by_cases e1 : y = a <;> by_cases e2 : y = h.prev node <;> simp_all
  · by_cases e1 : y = a <;> by_cases e2 : y = node <;> simp_all

/-- on a well-formed family, where both nodes are in rings, the C++ moves
compute the same heap as the C moves -/
theorem cpp_move_eq {h : Heap} {A : Rings} {a node : Nat} (ok : RingsOK h A)
    (ha : ∃ r ∈ A, a ∈ r) (hn : ∃ s ∈ A, node ∈ s) :
    nodeMoveNextThan h a node = dlistMove h a node ∧ nodeMovePrevThan h a node = dlistMoveTail h a node := by
  obtain ⟨r, hr, har⟩ := ha
  obtain ⟨l1, l2, rfl⟩ := List.append_of_mem har
  -- bring a's ring to the front, read from a
  have ok1 : RingsOK h ((l1 ++ a :: l2) :: A.erase (l1 ++ a :: l2)) := ok.perm (List.perm_cons_erase hr)
  have ok2 := ok1.rotN
  obtain ⟨⟨a', xs', e, ra⟩, _, _⟩ := ok2.head
  injection e with e1 e2; subst e1; subst e2
  have hu : nodeUnlink h a = dlistDelInit h a := nodeUnlink_eq_delInit ra
  -- the family after the unlink, with `a` alone, and `node` still in some ring
  have key : ∃ B, RingsOK (dlistDelInit h a) ([a] :: B) ∧ ∃ s ∈ [a] :: B, node ∈ s := by
    obtain ⟨s, hs, hns⟩ := hn
    have hs' : s ∈ (l1 ++ a :: l2) :: A.erase (l1 ++ a :: l2) := (List.perm_cons_erase hr).mem_iff.mp hs
    cases hrest : l2 ++ l1 with
    | nil =>
      rw [hrest] at ok2
      refine ⟨_, ok2.delInit_single, ?_⟩
      rcases List.mem_cons.mp hs' with rfl | hs''
      · have hh : l2 = [] ∧ l1 = [] := by simpa using hrest
        obtain ⟨rfl, rfl⟩ := hh
        exact ⟨[a], by simp, by simpa using hns⟩
      · exact ⟨s, by simp [hs''], hns⟩
    | cons x xs =>
      rw [hrest] at ok2
      refine ⟨_, ok2.delInit, ?_⟩
      rcases List.mem_cons.mp hs' with rfl | hs''
      · by_cases hna : node = a
        · exact ⟨[a], by simp, by simp [hna]⟩
        · refine ⟨x :: xs, by simp, ?_⟩
          rw [← hrest]
          simp only [List.mem_append, List.mem_cons] at hns ⊢
          rcases hns with h1 | h1 | h1
          · right; exact h1
          · exact absurd h1 hna
          · left; exact h1
      · exact ⟨s, by simp [hs''], hns⟩
  obtain ⟨B, okB, hnB⟩ := key
  obtain ⟨⟨a', xs', e, rs⟩, _, _⟩ := okB.head
  injection e with e1 e2; subst e1; subst e2
  have hsn : (dlistDelInit h a).next a = a := rs.fwd
  have hsp : (dlistDelInit h a).prev a = a := by have := rs.back a (by simp); rw [hsn] at this; exact this
  constructor
  · rw [nodeMoveNextThan_def, hu]
    exact cppInsAfter_eq _ a node (pred_of_single okB hnB) (fun e => by rw [e] at *; exact hsn)
  · rw [nodeMovePrevThan_def, hu]
    exact cppInsBefore_eq _ a node (succ_of_single okB hnB) (fun e => by rw [e] at *; exact hsp)

theorem move_members {A A' : Rings} {a node : Nat} (st : AStep A (.cmove a node) A') :
    ∃ A0, Same A A0 ∧ (∃ r ∈ A0, a ∈ r) ∧ (∃ s ∈ A0, node ∈ s) := by
  cases st with
  | cmoveSelf s => exact ⟨_, s, ⟨_, List.mem_cons_self, by simp⟩, ⟨_, List.mem_cons_self, by simp⟩⟩
  | cmoveSelfSingle s => exact ⟨_, s, ⟨_, List.mem_cons_self, by simp⟩, ⟨_, List.mem_cons_self, by simp⟩⟩
  | cmoveSame s => exact ⟨_, s, ⟨_, List.mem_cons_self, by simp⟩, ⟨_, List.mem_cons_self, by simp⟩⟩
  | cmoveOther s => exact ⟨_, s, ⟨_, List.mem_cons_self, by simp⟩, ⟨_, List.mem_cons_of_mem _ List.mem_cons_self, by simp⟩⟩
  | cmoveOtherSingle s => exact ⟨_, s, ⟨_, List.mem_cons_self, by simp⟩, ⟨_, List.mem_cons_of_mem _ List.mem_cons_self, by simp⟩⟩

theorem moveTail_members {A A' : Rings} {a node : Nat} (st : AStep A (.cmoveTail a node) A') :
    ∃ A0, Same A A0 ∧ (∃ r ∈ A0, a ∈ r) ∧ (∃ s ∈ A0, node ∈ s) := by
  cases st with
  | cmoveTailSelf s => exact ⟨_, s, ⟨_, List.mem_cons_self, by simp⟩, ⟨_, List.mem_cons_self, by simp⟩⟩
  | cmoveTailSelfSingle s => exact ⟨_, s, ⟨_, List.mem_cons_self, by simp⟩, ⟨_, List.mem_cons_self, by simp⟩⟩
  | cmoveTailSame s => exact ⟨_, s, ⟨_, List.mem_cons_self, by simp⟩, ⟨_, List.mem_cons_self, by simp⟩⟩
  | cmoveTailOther s => exact ⟨_, s, ⟨_, List.mem_cons_self, by simp⟩, ⟨_, List.mem_cons_of_mem _ List.mem_cons_self, by simp⟩⟩
  | cmoveTailOtherSingle s => exact ⟨_, s, ⟨_, List.mem_cons_self, by simp⟩, ⟨_, List.mem_cons_of_mem _ List.mem_cons_self, by simp⟩⟩

theorem popFront_ok {h : Heap} {l x : Nat} {xs : List Nat} {B : Rings}
    (ok : RingsOK h ((l :: x :: xs) :: B)) : RingsOK (listPopFront h l) ([x] :: (l :: xs) :: B) := by
  obtain ⟨⟨a', xs', e, r⟩, _, _⟩ := ok.head
  injection e with e1 e2; subst e1; subst e2
  have hn : h.next l = x := by have := r.fwd; simp only [Seg] at this; exact this.1
  unfold listPopFront; rw [hn]
  cases xs with
  | nil =>
    have h1 := unlink_ok (x := l) (xs := []) (by simpa using ok.rot)
    exact h1
  | cons y ys =>
    have h1 := unlink_ok (x := y) (xs := ys ++ [l]) (by simpa using ok.rot)
    have h2 := RingsOK.rotN (l1 := y :: ys) (b := l) (l2 := []) (by simpa using swap12 h1)
    simpa using swap12 h2

theorem popFront_empty_ok {h : Heap} {l : Nat} {B : Rings}
    (ok : RingsOK h ([l] :: B)) : RingsOK (listPopFront h l) ([l] :: B) := by
  obtain ⟨⟨a', xs', e, r⟩, _, _⟩ := ok.head
  injection e with e1 e2; subst e1; subst e2
  have hn : h.next l = l := r.fwd
  unfold listPopFront; rw [hn]; exact unlink_single_ok ok

theorem popBack_ok {h : Heap} {l z : Nat} {xs : List Nat} {B : Rings}
    (ok : RingsOK h ((l :: (xs ++ [z])) :: B)) : RingsOK (listPopBack h l) ([z] :: (l :: xs) :: B) := by
  obtain ⟨⟨a', xs', e, r⟩, _, _⟩ := ok.head
  injection e with e1 e2; subst e1; subst e2
  have hzn : h.next z = l := by
    have := Seg_last _ _ _ _ r.fwd
    have e : (l :: (xs ++ [z])).getLast (List.cons_ne_nil _ _) = z := by simp [List.getLast_cons]
    rwa [e] at this
  have hp : h.prev l = z := by
    have := r.back z (by simp); rw [hzn] at this; exact this
  unfold listPopBack; rw [hp]
  have h1 := RingsOK.rotN (l1 := l :: xs) (b := z) (l2 := []) (by simpa using ok)
  simpa using unlink_ok (by simpa using h1)

theorem popBack_empty_ok {h : Heap} {l : Nat} {B : Rings}
    (ok : RingsOK h ([l] :: B)) : RingsOK (listPopBack h l) ([l] :: B) := by
  obtain ⟨⟨a', xs', e, r⟩, _, _⟩ := ok.head
  injection e with e1 e2; subst e1; subst e2
  have hn : h.next l = l := r.fwd
  have hp : h.prev l = l := by have := r.back l (by simp); rw [hn] at this; exact this
  unfold listPopBack; rw [hp]; exact unlink_single_ok ok

/-! ### splice and clear -/

theorem nodeUnlink_of_self (g : Heap) (l : Nat) (hn : g.next l = l) : nodeUnlink g l = g := by
  unfold nodeUnlink; simp [hn]

/-- on a family where `l` is alone and the source has at least one element, the
six assignments of `unlink_and_move_all_nodes_from_other` compute the same heap
as `dlist_insert_instead(l, oth)` -/
theorem splice_eq_insertInstead {h : Heap} {l oth y : Nat} {ys : List Nat} {B : Rings}
    (ok : RingsOK h ([l] :: (oth :: y :: ys) :: B)) :
    listSplice h l oth = dlistInsertInstead h l oth := by
  obtain ⟨⟨a', xs', e, rl⟩, d1, ok1⟩ := ok.head
  injection e with e1 e2; subst e1; subst e2
  obtain ⟨⟨a', xs', e, ro⟩, _, _⟩ := ok1.head
  injection e with e1 e2; subst e1; subst e2
  have hl : l ∉ oth :: y :: ys := d1 _ (by simp) l (by simp)
  have hln : h.next l = l := rl.fwd
  have hfw := ro.fwd; simp only [Seg] at hfw
  have hno : h.next oth = y := hfw.1
  have hzmem : h.prev oth ∈ oth :: y :: ys := (ro.prev_next oth (by simp)).2
  have hzn : h.next (h.prev oth) = oth := (ro.prev_next oth (by simp)).1
  have hnd := ro.nodup
  have hoy : oth ≠ y := by simp only [List.nodup_cons, List.mem_cons, not_or] at hnd; exact hnd.1.1
  have hzo : h.prev oth ≠ oth := by
    intro e; rw [e, hno] at hzn; exact hoy hzn.symm
  have hlo : l ≠ oth := fun e => hl (by simp [e])
  have hly : l ≠ y := fun e => hl (by simp [e])
  have hlz : l ≠ h.prev oth := fun e => hl (e ▸ hzmem)
  have hu : nodeUnlink h l = h := by simp [nodeUnlink, hln]
  have hoe : h.next oth ≠ oth := by rw [hno]; exact fun e => hoy e.symm
  have hzo' : oth ≠ h.prev oth := Ne.symm hzo
  have hlo' : oth ≠ l := Ne.symm hlo
  have hyl : y ≠ l := Ne.symm hly
  have hzl : h.prev oth ≠ l := Ne.symm hlz
  have hyo : y ≠ oth := Ne.symm hoy
  apply Heap.ext' <;> funext v <;>
    simp only [listSplice, hu, hoe, if_false, dlistInsertInstead, dlistAddPrev, dlistAdd, dlistDelInit, dlistInit,
      dlistDelRaw, Heap.setNext, Heap.setPrev, hno]
  · by_cases e1 : v = l <;> by_cases e2 : v = oth <;> by_cases e3 : v = h.prev oth <;> simp_all
  · by_cases e1 : v = l <;> by_cases e2 : v = oth <;> by_cases e3 : v = y <;> simp_all

theorem splice_ok {h : Heap} {l oth y : Nat} {ys : List Nat} {B : Rings}
    (ok : RingsOK h ([l] :: (oth :: y :: ys) :: B)) :
    RingsOK (listSplice h l oth) ([oth] :: (l :: y :: ys) :: B) := by
  rw [splice_eq_insertInstead ok]; exact insertInstead_ok ok

theorem splice_from_empty_ok {h : Heap} {l oth : Nat} {B : Rings}
    (ok : RingsOK h ([l] :: [oth] :: B)) : listSplice h l oth = h := by
  obtain ⟨⟨a', xs', e, rl⟩, _, ok1⟩ := ok.head
  injection e with e1 e2; subst e1; subst e2
  obtain ⟨⟨a', xs', e, ro⟩, _, _⟩ := ok1.head
  injection e with e1 e2; subst e1; subst e2
  have hln : h.next l = l := rl.fwd
  have hno : h.next oth = oth := ro.fwd
  simp [listSplice, nodeUnlink, hln, hno]

theorem clear_ok {l : Nat} : ∀ (xs : List Nat) (fuel : Nat) (B : Rings) (h : Heap),
    RingsOK h ((l :: xs) :: B) → xs.length < fuel →
    RingsOK (listClear h l fuel) ([l] :: (xs.map fun x => [x]) ++ B)
  | [], fuel, B, h, ok, hf => by
    obtain ⟨⟨a', xs', e, r⟩, _, _⟩ := ok.head
    injection e with e1 e2; subst e1; subst e2
    have hn : h.next l = l := r.fwd
    match fuel, hf with
    | f + 1, _ => simpa [listClear, hn] using ok
  | x :: xs, fuel, B, h, ok, hf => by
    obtain ⟨⟨a', xs', e, r⟩, _, _⟩ := ok.head
    injection e with e1 e2; subst e1; subst e2
    have hfw := r.fwd; simp only [Seg] at hfw
    have hne : h.next l ≠ l := by
      rw [hfw.1]
      have := r.nodup; simp only [List.nodup_cons, List.mem_cons, not_or] at this
      exact fun e => this.1.1 e.symm
    match fuel, hf with
    | f + 1, hf =>
      simp only [listClear, hne, ne_eq, not_false_eq_true, if_true]
      have h1 := popFront_ok ok
      have h2 := clear_ok xs f ([x] :: B) (listPopFront h l) (swap12 h1) (by simp at hf ⊢; omega)
      -- [l] :: singles xs ++ ([x] :: B)  ~perm~  [l] :: [x] :: singles xs ++ B
      refine h2.perm ?_
      simp only [List.map_cons, List.cons_append]
      exact List.Perm.cons _ List.perm_middle

/-! ### dlist_move_sorted -/

/-- the position found by the `dlist_for_each_entry … break` loop: the first
entry for which the comparator answers true, the head when there is none -/
theorem sortedPos_spec (h : Heap) (cmp : Nat → Nat → Bool) (added head : Nat) :
    ∀ (rest : List Nat) (p fuel : Nat), Seg h.next p rest head → head ∉ p :: rest → rest.length + 1 < fuel →
      sortedPos h cmp added head fuel p = ((p :: rest).find? (cmp added)).getD head := by
  intro rest
  induction rest with
  | nil =>
    intro p fuel hs hh hf
    simp only [Seg] at hs
    have hph : p ≠ head := fun e => hh (by simp [e])
    match fuel, hf with
    | f + 2, _ =>
      by_cases hc : cmp added p = true
      · simp [sortedPos, hph, hc]
      · simp [sortedPos, hph, hc, hs]
  | cons x xs ih =>
    intro p fuel hs hh hf
    simp only [Seg] at hs
    have hph : p ≠ head := fun e => hh (by simp [e])
    match fuel, hf with
    | f + 1, hf =>
      by_cases hc : cmp added p = true
      · simp [sortedPos, hph, hc]
      · have := ih x f hs.2 (fun hm => hh (by simp at hm ⊢; right; exact hm)) (by simp at hf ⊢; omega)
        simp only [sortedPos, hph, hc, if_false, hs.1, this]
        simp [List.find?, hc]

theorem find_split (q : Nat → Bool) (xs : List Nat) :
    (xs.find? q = none ∧ xs.takeWhile (fun y => !q y) = xs ∧ xs.dropWhile (fun y => !q y) = []) ∨
    (∃ x post, xs.find? q = some x ∧ q x = true ∧ xs.dropWhile (fun y => !q y) = x :: post ∧
       xs = xs.takeWhile (fun y => !q y) ++ x :: post) := by
  induction xs with
  | nil => left; simp
  | cons a as ih =>
    by_cases ha : q a = true
    · right; exact ⟨a, as, by simp [List.find?, ha], ha, by simp [List.dropWhile, ha], by simp [List.takeWhile, ha]⟩
    · rcases ih with ⟨h1, h2, h3⟩ | ⟨x, post, h1, h2, h3, h4⟩
      · left; simp [List.find?, ha, h1, List.takeWhile, List.dropWhile, h2, h3]
      · right
        refine ⟨x, post, by simp [List.find?, ha, h1], h2, by simp [List.dropWhile, ha, h3], ?_⟩
        simp only [List.takeWhile, ha, Bool.not_false, List.cons_append]
        rw [← h4]

/-- `dlist_move_sorted(added, head, member, comparator)` with a lone `added`:
the entry is inserted in front of the first entry for which the comparator holds
(at the end when there is none); every other entry keeps its place. -/
theorem moveSorted_ok {h : Heap} {cmp : Nat → Nat → Bool} {added head : Nat} {xs : List Nat} {B : Rings}
    (ok : RingsOK h ([added] :: (head :: xs) :: B)) (fuel : Nat) (hf : xs.length + 1 < fuel) :
    RingsOK (dlistMoveSorted h cmp fuel added head)
      ((head :: (xs.takeWhile (fun y => !cmp added y) ++ added :: xs.dropWhile (fun y => !cmp added y))) :: B) := by
  obtain ⟨_, _, ok1⟩ := ok.head
  obtain ⟨⟨a', xs', e, r⟩, _, _⟩ := ok1.head
  injection e with e1 e2; subst e1; subst e2
  have hh : head ∉ xs := (List.nodup_cons.mp r.nodup).1
  unfold dlistMoveSorted
  cases xs with
  | nil =>
    have hn : h.next head = head := r.fwd
    have : sortedPos h cmp added head fuel (h.next head) = head := by
      match fuel, hf with
      | f + 1, _ => simp [sortedPos, hn]
    rw [this]
    simpa using ok.addPrev
  | cons x0 xs0 =>
    have hfw := r.fwd; simp only [Seg] at hfw
    rw [hfw.1, sortedPos_spec h cmp added head xs0 x0 fuel hfw.2 hh (by simp at hf; omega)]
    rcases find_split (cmp added) (x0 :: xs0) with ⟨h1, h2, h3⟩ | ⟨x, post, h1, _, h3, h4⟩
    · rw [h1, h2, h3]
      simpa using ok.addPrev
    · rw [h1, h3]
      generalize (x0 :: xs0).takeWhile (fun y => !cmp added y) = pre at h4 ⊢
      rw [h4] at ok
      -- read the ring from x, insert before x, read it from head again
      have ok2 : RingsOK h ((x :: (post ++ head :: pre)) :: [added] :: B) := by
        have := swap12 ok
        have := RingsOK.rotN (l1 := head :: pre) (b := x) (l2 := post) (by simpa using this)
        simpa using this
      have ok3 := (swap12 ok2).addPrev
      have := RingsOK.rotN (l1 := x :: post) (b := head) (l2 := pre ++ [added]) (by simpa using ok3)
      simpa using this

theorem insertInstead_free_ok {h : Heap} {iter instead : Nat} {ys : List Nat} {B : Rings}
    (ok : RingsOK h ((instead :: ys) :: B)) (hf : Free ((instead :: ys) :: B) iter) :
    RingsOK (dlistInsertInstead h iter instead) ([instead] :: (iter :: ys) :: B) := by
  unfold dlistInsertInstead
  have h1 := ok.addPrevFree hf
  cases ys with
  | nil => simpa using h1.delInit
  | cons y ys' =>
    have h2 := RingsOK.delInit (a := instead) (x := y) (xs := ys' ++ [iter]) (by simpa using h1)
    have h3 := swap12 h2
    have h4 := RingsOK.rotN (l1 := y :: ys') (b := iter) (l2 := []) (by simpa using h3)
    simpa using swap12 h4

theorem Free.of_mem_iff {A A' : Rings} {a : Nat} (hf : Free A a) (e : ∀ y, (∃ s ∈ A', y ∈ s) → ∃ s ∈ A, y ∈ s) :
    Free A' a := fun s hs hm => by
  obtain ⟨s', hs', hm'⟩ := e a ⟨s, hs, hm⟩
  exact hf s' hs' hm'

/-- `dlist_move_sorted` of an entry that is in no ring (its fields are never read) -/
theorem moveSorted_free_ok {h : Heap} {cmp : Nat → Nat → Bool} {added head : Nat} {xs : List Nat} {B : Rings}
    (ok : RingsOK h ((head :: xs) :: B)) (hfr : Free ((head :: xs) :: B) added) (fuel : Nat) (hf : xs.length + 1 < fuel) :
    RingsOK (dlistMoveSorted h cmp fuel added head)
      ((head :: (xs.takeWhile (fun y => !cmp added y) ++ added :: xs.dropWhile (fun y => !cmp added y))) :: B) := by
  obtain ⟨⟨a', xs', e, r⟩, _, _⟩ := ok.head
  injection e with e1 e2; subst e1; subst e2
  have hh : head ∉ xs := (List.nodup_cons.mp r.nodup).1
  unfold dlistMoveSorted
  cases xs with
  | nil =>
    have hn : h.next head = head := r.fwd
    have : sortedPos h cmp added head fuel (h.next head) = head := by
      match fuel, hf with
      | f + 1, _ => simp [sortedPos, hn]
    rw [this]
    simpa using ok.addPrevFree hfr
  | cons x0 xs0 =>
    have hfw := r.fwd; simp only [Seg] at hfw
    rw [hfw.1, sortedPos_spec h cmp added head xs0 x0 fuel hfw.2 hh (by simp at hf; omega)]
    rcases find_split (cmp added) (x0 :: xs0) with ⟨h1, h2, h3⟩ | ⟨x, post, h1, _, h3, h4⟩
    · rw [h1, h2, h3]
      simpa using ok.addPrevFree hfr
    · rw [h1, h3]
      generalize (x0 :: xs0).takeWhile (fun y => !cmp added y) = pre at h4 ⊢
      rw [h4] at ok hfr
      have ok2 : RingsOK h ((x :: (post ++ head :: pre)) :: B) := by
        have := RingsOK.rotN (l1 := head :: pre) (b := x) (l2 := post) (by simpa using ok)
        simpa using this
      have hfr2 : Free ((x :: (post ++ head :: pre)) :: B) added := by
        intro s hs hm
        rcases List.mem_cons.mp hs with rfl | hs
        · refine hfr (head :: (pre ++ x :: post)) (by simp) ?_
          simp only [List.mem_cons, List.mem_append] at hm ⊢
          rcases hm with h1 | h1 | h1 | h1
          · exact Or.inr (Or.inr (Or.inl h1))
          · exact Or.inr (Or.inr (Or.inr h1))
          · exact Or.inl h1
          · exact Or.inr (Or.inl h1)
        · exact hfr s (by simp [hs]) hm
      have ok3 := ok2.addPrevFree hfr2
      have := RingsOK.rotN (l1 := x :: post) (b := head) (l2 := pre ++ [added]) (by simpa using ok3)
      simpa using this

/-- STEP REFINEMENT: every operation of the reference semantics is matched by
the heap operation: well-formed family before ⇒ well-formed family after. -/
theorem step_refines_c {h : Heap} {A A' : Rings} {op : Op} (ok : RingsOK h A) (st : AStep A op A') :
    RingsOK (exec h op) A' := by
  induction st with
  | cinitFree hf => exact ok.initFree hf
  | @xctorFree a hf =>
    have h1 := ok.initFree hf
    obtain ⟨e1, e2⟩ := nodeCtor_eq_init h a
    have e : nodeCtor h a = dlistInit h a := Heap.ext' e1 e2
    simp only [exec, e]; exact h1
  | caddNext s => exact (ok.same s).addNext
  | caddNextFree s hf => exact (ok.same s).addNextFree hf
  | caddPrev s => exact (ok.same s).addPrev
  | caddPrevFree s hf => exact (ok.same s).addPrevFree hf
  | cdel s => exact (ok.same s).del.1
  | cdelSingle s => exact (ok.same s).del_single.1
  | cdelInit s => exact (ok.same s).delInit
  | cdelInitSingle s => exact (ok.same s).delInit_single
  | xunlink s => exact unlink_ok (ok.same s)
  | xunlinkSingle s => exact unlink_single_ok (ok.same s)
  | cmoveSelf s => exact (self_after_unlink (ok.same s)).1
  | cmoveSelfSingle s => exact (self_single (ok.same s)).1
  | cmoveSame s => exact move_same (ok.same s)
  | cmoveOther s =>
    have h1 := (ok.same s).delInit
    exact swap12 ((h1.perm (List.Perm.cons _ (List.Perm.swap _ _ _))).addNext)
  | cmoveOtherSingle s => exact ((ok.same s).delInit_single).addNext
  | cmoveTailSelf s => exact (self_after_unlink (ok.same s)).2
  | cmoveTailSelfSingle s => exact (self_single (ok.same s)).2
  | cmoveTailSame s => exact moveTail_same (ok.same s)
  | cmoveTailOther s =>
    have h1 := (ok.same s).delInit
    exact swap12 ((h1.perm (List.Perm.cons _ (List.Perm.swap _ _ _))).addPrev)
  | cmoveTailOtherSingle s => exact ((ok.same s).delInit_single).addPrev
  | cinsertInstead s => exact insertInstead_ok (ok.same s)
  | xmoveNext st ih =>
    obtain ⟨A0, s0, ha, hn⟩ := move_members st
    have e := (cpp_move_eq (ok.same s0) ha hn).1
    simp only [exec] at ih ⊢; rw [e]; exact ih
  | xmovePrev st ih =>
    obtain ⟨A0, s0, ha, hn⟩ := moveTail_members st
    have e := (cpp_move_eq (ok.same s0) ha hn).2
    simp only [exec] at ih ⊢; rw [e]; exact ih
  | xpopFront s => exact popFront_ok (ok.same s)
  | xpopFrontEmpty s => exact popFront_empty_ok (ok.same s)
  | xpopBack s => exact popBack_ok (ok.same s)
  | xpopBackEmpty s => exact popBack_empty_ok (ok.same s)
  | @xsplice l x xs oth y ys B s =>
    have h0 := ok.same s
    have h1 := unlink_ok h0
    have hs : listSplice h l oth = listSplice (nodeUnlink h l) l oth := by
      obtain ⟨⟨a', xs', e, r1⟩, _, _⟩ := h1.head
      injection e with e1 e2; subst e1; subst e2
      have hn : (nodeUnlink h l).next l = l := r1.fwd
      have : nodeUnlink (nodeUnlink h l) l = nodeUnlink h l := nodeUnlink_of_self _ l hn
      simp only [listSplice, this]
    simp only [exec]; rw [hs]
    exact splice_ok (h1.perm (List.Perm.cons _ (List.Perm.swap _ _ _)))
  | xspliceIntoEmpty s => exact splice_ok (ok.same s)
  | @xspliceFromEmpty l x xs oth B s =>
    have h0 := ok.same s
    have h1 := unlink_ok h0
    have h2 := h1.perm (List.Perm.cons _ (List.Perm.swap _ _ _))
    have e := splice_from_empty_ok h2
    have hs : listSplice h l oth = listSplice (nodeUnlink h l) l oth := by
      obtain ⟨⟨a', xs', e, r1⟩, _, _⟩ := h1.head
      injection e with e1 e2; subst e1; subst e2
      have hn : (nodeUnlink h l).next l = l := r1.fwd
      have : nodeUnlink (nodeUnlink h l) l = nodeUnlink h l := nodeUnlink_of_self _ l hn
      simp only [listSplice, this]
    simp only [exec]; rw [hs, e]; exact h1
  | xspliceBothEmpty s =>
    have h0 := ok.same s
    simp only [exec]; rw [splice_from_empty_ok h0]; exact h0
  | xclear s hlen => exact clear_ok _ _ _ _ (ok.same s) hlen
  | @xspliceSelf l x xs B s =>
    have h1 := unlink_ok (ok.same s)
    obtain ⟨⟨a', xs', e, r1⟩, _, _⟩ := h1.head
    injection e with e1 e2; subst e1; subst e2
    have hn : (nodeUnlink h l).next l = l := r1.fwd
    have : listSplice h l l = nodeUnlink h l := by simp only [listSplice, hn, if_true]
    simp only [exec, this]; exact h1
  | @xspliceSelfEmpty l B s =>
    have h1 := unlink_single_ok (ok.same s)
    obtain ⟨⟨a', xs', e, r1⟩, _, _⟩ := h1.head
    injection e with e1 e2; subst e1; subst e2
    have hn : (nodeUnlink h l).next l = l := r1.fwd
    have : listSplice h l l = nodeUnlink h l := by simp only [listSplice, hn, if_true]
    simp only [exec, this]; exact h1
  | cmoveSorted s hf => exact moveSorted_ok (ok.same s) _ hf
  | cmoveSortedFree s hfr hf => exact moveSorted_free_ok (ok.same s) hfr _ hf
  | cinsertInsteadFree s hfr => exact insertInstead_free_ok (ok.same s) hfr
  | @cinitRing a xs B s =>
    obtain ⟨_, d, okB⟩ := (ok.same s).head
    exact okB.initFree (fun r hr hm => d r hr a (by simp) hm)
  | @xctorLone a B s =>
    obtain ⟨_, d, okB⟩ := (ok.same s).head
    have h1 := okB.initFree (a := a) (fun r hr hm => d r hr a (by simp) hm)
    obtain ⟨e1, e2⟩ := nodeCtor_eq_init h a
    have e : nodeCtor h a = dlistInit h a := Heap.ext' e1 e2
    simp only [exec, e]; exact h1

end Igris.C01
