/-
  C01 — slist HISTORIES: operation language, reference semantics on families of
  lists (head, contents), the family invariant, step refinement, enabledness.

  A `slist_head` is used both as list head and as element.  The abstract state is
  a family of lists `(head, contents)` whose node sets are pairwise disjoint; a
  node that is in no list (never initialised, popped, orphaned by re-initialising
  its head) has no constraint on its `next` field.
-/
import IgrisModel.C01.Ext3
namespace Igris.C01

/-- slist API operations (C `slist_*` and C++ `igris::slist`) -/
inductive SOp
  | init (a : Nat)                    -- slist_init / igris::slist::slist()
  | add (link pos : Nat)              -- slist_add(link, pos) / add_first (pos = the head)
  | popFirst (head : Nat)             -- slist_pop_first
  | moveFront (fuel n head : Nat)     -- igris::slist::move_front (fuel = bound of the search loop)

def sexec (h : SHeap) : SOp → SHeap
  | .init a => slistInit h a
  | .add l p => slistAdd h l p
  | .popFirst hd => (slistPopFirst h hd).1
  | .moveFront fuel n hd => slistMoveFront h fuel n hd

def srun (h : SHeap) (ops : List SOp) : SHeap := ops.foldl sexec h

/-- a family of slists: (head, contents) -/
abbrev SFam := List (Nat × List Nat)
/-- the nodes of one list: its head and its elements -/
def snodes (p : Nat × List Nat) : List Nat := p.1 :: p.2
/-- the node is neither a head nor an element of any list -/
def SFree (F : SFam) (a : Nat) : Prop := ∀ p ∈ F, a ∉ snodes p

/-- FAMILY INVARIANT: every list is a singly linked ring from its head through its
contents back to the head; the node sets of different lists are disjoint -/
structure SFamOK (h : SHeap) (F : SFam) : Prop where
  ring : ∀ p ∈ F, SRing h p.1 p.2
  disj : F.Pairwise (fun p q => Disj (snodes p) (snodes q))

theorem SFamOK.perm {h : SHeap} {F F' : SFam} (ok : SFamOK h F) (p : F.Perm F') : SFamOK h F' :=
  ⟨fun q hq => ok.ring q (p.mem_iff.mpr hq),
   (p.pairwise_iff (fun hrs => Disj.symm hrs)).mp ok.disj⟩

theorem SFamOK.head {h : SHeap} {p : Nat × List Nat} {B : SFam} (ok : SFamOK h (p :: B)) :
    SRing h p.1 p.2 ∧ (∀ q ∈ B, Disj (snodes p) (snodes q)) ∧ SFamOK h B :=
  ⟨ok.ring p (by simp), (List.pairwise_cons.mp ok.disj).1,
   ⟨fun s hs => ok.ring s (by simp [hs]), (List.pairwise_cons.mp ok.disj).2⟩⟩

theorem SFamOK.cons {h : SHeap} {a : Nat} {xs : List Nat} {B : SFam} (r : SRing h a xs)
    (d : ∀ q ∈ B, Disj (a :: xs) (snodes q)) (ok : SFamOK h B) : SFamOK h ((a, xs) :: B) :=
  ⟨by intro s hs; rcases List.mem_cons.mp hs with rfl | hs
      · exact r
      · exact ok.ring s hs,
   List.pairwise_cons.mpr ⟨d, ok.disj⟩⟩

/-- lists that are disjoint from everything an operation writes stay as they are -/
theorem SFamOK.frame {h h' : SHeap} {B : SFam} (ok : SFamOK h B) (W : List Nat)
    (hd : ∀ q ∈ B, Disj W (snodes q)) (hf : ∀ y, y ∉ W → h'.next y = h.next y) : SFamOK h' B :=
  ⟨fun q hq => (ok.ring q hq).congr (fun y hy => hf y (fun hw => hd q hq y hw hy)), ok.disj⟩

theorem SFree.perm {F F' : SFam} {a : Nat} (f : SFree F a) (p : F.Perm F') : SFree F' a :=
  fun q hq => f q (p.mem_iff.mpr hq)

/-- a singly linked ring may be read from any of its members -/
theorem SRing.rot {h : SHeap} {a b : Nat} {l1 l2 : List Nat} (r : SRing h a (l1 ++ b :: l2)) :
    SRing h b (l2 ++ a :: l1) := by
  refine ⟨?_, ?_⟩
  · have p : (a :: (l1 ++ b :: l2)).Perm (b :: (l2 ++ a :: l1)) := by
      have := List.perm_append_comm (l₁ := a :: l1) (l₂ := b :: l2)
      simpa using this
    exact p.nodup_iff.mp r.nodup
  · have := (Seg_append h.next a l1 b l2 a).mp r.fwd
    exact (Seg_append h.next b l2 a l1 b).mpr ⟨this.2, this.1⟩

/-- `slist_add(link, p)` right after a MEMBER `p` of the list -/
theorem slistAdd_after (h : SHeap) (link hd p : Nat) (pre post : List Nat)
    (r : SRing h hd (pre ++ p :: post)) (hl : link ∉ hd :: (pre ++ p :: post)) :
    SRing (slistAdd h link p) hd (pre ++ p :: link :: post) := by
  have r1 := r.rot
  have hl' : link ∉ p :: (post ++ hd :: pre) := by
    simp only [List.mem_cons, List.mem_append, not_or] at hl ⊢
    exact ⟨hl.2.2.1, hl.2.2.2, hl.1, hl.2.1⟩
  have r2 := (slistAdd_ring h link p _ r1 hl').1
  have : SRing (slistAdd h link p) p ((link :: post) ++ hd :: pre) := by simpa using r2
  simpa using this.rot

/-! ### reference semantics -/

/-- REFERENCE SEMANTICS of the slist operations on families of lists.  `F.Perm (… :: B)`
says: the family consists of the displayed list(s) and the others, `B`. -/
inductive SStep : SFam → SOp → SFam → Prop
  -- `slist_init` of a node that is in no list: a new empty list
  | initFree {F a} : SFree F a → SStep F (.init a) ((a, []) :: F)
  -- `slist_init` of a list head: the list is emptied, its old elements are in no list afterwards
  | initHead {F a xs B} : F.Perm ((a, xs) :: B) → SStep F (.init a) ((a, []) :: B)
  -- `slist_add(link, head)` / `add_first`: a node that is in no list (or is an empty list of
  -- its own) becomes the first element; `slist_add(link, p)` after a member `p` inserts after it
  | addFirst {F link hd xs B} : F.Perm ((hd, xs) :: B) → SFree F link →
      SStep F (.add link hd) ((hd, link :: xs) :: B)
  | addAfter {F link hd p pre post B} : F.Perm ((hd, pre ++ p :: post) :: B) → SFree F link →
      SStep F (.add link p) ((hd, pre ++ p :: link :: post) :: B)
  | addFirstLone {F link hd xs B} : F.Perm ((link, []) :: (hd, xs) :: B) →
      SStep F (.add link hd) ((hd, link :: xs) :: B)
  | addAfterLone {F link hd p pre post B} : F.Perm ((link, []) :: (hd, pre ++ p :: post) :: B) →
      SStep F (.add link p) ((hd, pre ++ p :: link :: post) :: B)
  -- `slist_pop_first`: the first element leaves (and is in no list); nothing on an empty list
  | pop {F hd x xs B} : F.Perm ((hd, x :: xs) :: B) → SStep F (.popFirst hd) ((hd, xs) :: B)
  | popEmpty {F hd B} : F.Perm ((hd, []) :: B) → SStep F (.popFirst hd) ((hd, []) :: B)
  -- `move_front(n)`: an element of THIS list (anywhere), a node in no list, or an empty list
  | moveFrontOwn {F fuel n hd pre post B} : F.Perm ((hd, pre ++ n :: post) :: B) →
      (pre ++ n :: post).length < fuel → SStep F (.moveFront fuel n hd) ((hd, n :: (pre ++ post)) :: B)
  | moveFrontAbsent {F fuel n hd xs B} : F.Perm ((hd, xs) :: B) → SFree F n → xs.length < fuel →
      SStep F (.moveFront fuel n hd) ((hd, n :: xs) :: B)
  | moveFrontLone {F fuel n hd xs B} : F.Perm ((n, []) :: (hd, xs) :: B) → xs.length < fuel →
      SStep F (.moveFront fuel n hd) ((hd, n :: xs) :: B)

inductive SRun : SFam → List SOp → SFam → Prop
  | nil (F) : SRun F [] F
  | cons {F G H op ops} : SStep F op G → SRun G ops H → SRun F (op :: ops) H

/-! ### the three insertion / removal cores -/

theorem SFamOK.dropLone {h : SHeap} {n : Nat} {G : SFam} (ok : SFamOK h ((n, []) :: G)) :
    SFamOK h G ∧ SFree G n := by
  obtain ⟨_, d, okG⟩ := ok.head
  exact ⟨okG, fun q hq hm => d q hq n (by simp [snodes]) hm⟩

theorem SFamOK.addFirst {h : SHeap} {link hd : Nat} {xs : List Nat} {B : SFam}
    (ok : SFamOK h ((hd, xs) :: B)) (hf : SFree ((hd, xs) :: B) link) :
    SFamOK (slistAdd h link hd) ((hd, link :: xs) :: B) := by
  obtain ⟨r, d, okB⟩ := ok.head
  have hl : link ∉ hd :: xs := hf (hd, xs) (by simp)
  refine SFamOK.cons (slistAdd_ring h link hd xs r hl).1 ?_ (okB.frame [link, hd] ?_ ?_)
  · intro q hq y hy
    simp only [List.mem_cons] at hy
    rcases hy with rfl | rfl | hy
    · exact d q hq _ (by simp [snodes])
    · exact hf q (by simp [hq])
    · exact d q hq y (by simp [snodes, hy])
  · intro q hq y hy
    simp only [List.mem_cons, List.not_mem_nil, or_false] at hy
    rcases hy with rfl | rfl
    · exact hf q (by simp [hq])
    · exact d q hq _ (by simp [snodes])
  · intro y hy
    simp only [List.mem_cons, List.not_mem_nil, or_false, not_or] at hy
    exact slistAdd_frame h link hd y hy.1 hy.2

theorem SFamOK.addAfter {h : SHeap} {link hd p : Nat} {pre post : List Nat} {B : SFam}
    (ok : SFamOK h ((hd, pre ++ p :: post) :: B)) (hf : SFree ((hd, pre ++ p :: post) :: B) link) :
    SFamOK (slistAdd h link p) ((hd, pre ++ p :: link :: post) :: B) := by
  obtain ⟨r, d, okB⟩ := ok.head
  have hl : link ∉ hd :: (pre ++ p :: post) := hf (hd, pre ++ p :: post) (by simp)
  refine SFamOK.cons (slistAdd_after h link hd p pre post r hl) ?_ (okB.frame [link, p] ?_ ?_)
  · intro q hq y hy
    by_cases e : y = link
    · subst e; exact hf q (by simp [hq])
    · apply d q hq y
      simp only [snodes, List.mem_cons, List.mem_append] at hy ⊢
      rcases hy with h1 | h1 | h1 | h1 | h1
      · exact Or.inl h1
      · exact Or.inr (Or.inl h1)
      · exact Or.inr (Or.inr (Or.inl h1))
      · exact absurd h1 e
      · exact Or.inr (Or.inr (Or.inr h1))
  · intro q hq y hy
    simp only [List.mem_cons, List.not_mem_nil, or_false] at hy
    rcases hy with rfl | rfl
    · exact hf q (by simp [hq])
    · exact d q hq _ (by simp [snodes])
  · intro y hy
    simp only [List.mem_cons, List.not_mem_nil, or_false, not_or] at hy
    exact slistAdd_frame h link p y hy.1 hy.2

theorem SFamOK.moveFrontAbsent {h : SHeap} {n hd : Nat} {xs : List Nat} {B : SFam} {fuel : Nat}
    (ok : SFamOK h ((hd, xs) :: B)) (hf : SFree ((hd, xs) :: B) n) (hfu : xs.length < fuel) :
    SFamOK (slistMoveFront h fuel n hd) ((hd, n :: xs) :: B) := by
  obtain ⟨r, d, okB⟩ := ok.head
  have hl : n ∉ hd :: xs := hf (hd, xs) (by simp)
  refine SFamOK.cons (slistMoveFront_absent h hd n xs r hl fuel hfu) ?_ (okB.frame (n :: hd :: xs) ?_ ?_)
  · intro q hq y hy
    simp only [List.mem_cons] at hy
    rcases hy with rfl | rfl | hy
    · exact d q hq _ (by simp [snodes])
    · exact hf q (by simp [hq])
    · exact d q hq y (by simp [snodes, hy])
  · intro q hq y hy
    simp only [List.mem_cons] at hy
    rcases hy with rfl | rfl | hy
    · exact hf q (by simp [hq])
    · exact d q hq _ (by simp [snodes])
    · exact d q hq y (by simp [snodes, hy])
  · intro y hy
    exact slistMoveFront_frame h hd n xs r fuel hfu y hy

/-- STEP REFINEMENT for slists -/
theorem sstep_refines {h : SHeap} {F F' : SFam} {op : SOp} (ok : SFamOK h F) (st : SStep F op F') :
    SFamOK (sexec h op) F' := by
  cases st with
  | @initFree a hf =>
    refine SFamOK.cons (slistInit_ring h a) ?_ (ok.frame [a] ?_ ?_)
    · intro q hq y hy; simp only [List.mem_cons, List.not_mem_nil, or_false] at hy; subst hy; exact hf q hq
    · intro q hq y hy; simp only [List.mem_cons, List.not_mem_nil, or_false] at hy; subst hy; exact hf q hq
    · intro y hy; simp only [List.mem_cons, List.not_mem_nil, or_false] at hy
      simp [sexec, slistInit, SHeap.set, hy]
  | @initHead a xs B p =>
    obtain ⟨_, d, okB⟩ := (ok.perm p).head
    have hd : ∀ q ∈ B, Disj [a] (snodes q) := by
      intro q hq y hy; simp only [List.mem_cons, List.not_mem_nil, or_false] at hy; subst hy
      exact d q hq _ (by simp [snodes])
    refine SFamOK.cons (slistInit_ring h a) hd (okB.frame [a] hd ?_)
    intro y hy; simp only [List.mem_cons, List.not_mem_nil, or_false] at hy
    simp [sexec, slistInit, SHeap.set, hy]
  | addFirst p hf => exact (ok.perm p).addFirst (hf.perm p)
  | addAfter p hf => exact (ok.perm p).addAfter (hf.perm p)
  | addFirstLone p => obtain ⟨o, f⟩ := (ok.perm p).dropLone; exact o.addFirst f
  | addAfterLone p => obtain ⟨o, f⟩ := (ok.perm p).dropLone; exact o.addAfter f
  | @pop hd x xs B p =>
    obtain ⟨r, d, okB⟩ := (ok.perm p).head
    refine SFamOK.cons (slistPopFirst_ring h hd x xs r).2 ?_ (okB.frame [hd] ?_ ?_)
    · intro q hq y hy
      apply d q hq y
      simp only [snodes, List.mem_cons] at hy ⊢
      rcases hy with h1 | h1
      · exact Or.inl h1
      · exact Or.inr (Or.inr h1)
    · intro q hq y hy; simp only [List.mem_cons, List.not_mem_nil, or_false] at hy; subst hy
      exact d q hq _ (by simp [snodes])
    · intro y hy; simp only [List.mem_cons, List.not_mem_nil, or_false] at hy
      exact slistPopFirst_frame h hd y hy
  | @popEmpty hd B p =>
    have ok' := ok.perm p
    have e : slistPopFirst h hd = (h, none) := slistPopFirst_empty h hd ok'.head.1
    simp only [sexec, e]; exact ok'
  | @moveFrontOwn fuel n hd pre post B p hfu =>
    obtain ⟨r, d, okB⟩ := (ok.perm p).head
    refine SFamOK.cons (slistMoveFront_present h hd n pre post r fuel (by simp at hfu; omega)) ?_
      (okB.frame (n :: hd :: (pre ++ n :: post)) ?_ ?_)
    · intro q hq y hy
      apply d q hq y
      simp only [snodes, List.mem_cons, List.mem_append] at hy ⊢
      rcases hy with h1 | h1 | h1 | h1
      · exact Or.inl h1
      · exact Or.inr (Or.inr (Or.inl h1))
      · exact Or.inr (Or.inl h1)
      · exact Or.inr (Or.inr (Or.inr h1))
    · intro q hq y hy
      apply d q hq y
      simp only [snodes, List.mem_cons, List.mem_append] at hy ⊢
      rcases hy with h1 | h1 | h1 | h1 | h1
      · exact Or.inr (Or.inr (Or.inl h1))
      · exact Or.inl h1
      · exact Or.inr (Or.inl h1)
      · exact Or.inr (Or.inr (Or.inl h1))
      · exact Or.inr (Or.inr (Or.inr h1))
    · intro y hy
      exact slistMoveFront_frame h hd n _ r fuel hfu y hy
  | moveFrontAbsent p hf hfu => exact (ok.perm p).moveFrontAbsent (hf.perm p) hfu
  | moveFrontLone p hfu => obtain ⟨o, f⟩ := (ok.perm p).dropLone; exact o.moveFrontAbsent f hfu

theorem srun_refines {h : SHeap} {F F' : SFam} {ops : List SOp} (ok : SFamOK h F) (r : SRun F ops F') :
    SFamOK (srun h ops) F' := by
  induction r generalizing h with
  | nil => exact ok
  | cons st _ ih => exact ih (sstep_refines ok st)

/-! ### enabledness: which calls the reference semantics admits -/

/-- well-formed family (a property of the lists alone): no node occurs twice -/
structure SFamWF (F : SFam) : Prop where
  nodup : ∀ p ∈ F, (snodes p).Nodup
  disj : F.Pairwise (fun p q => Disj (snodes p) (snodes q))

theorem SFamOK.wf {h : SHeap} {F : SFam} (ok : SFamOK h F) : SFamWF F :=
  ⟨fun p hp => (ok.ring p hp).nodup, ok.disj⟩

theorem SFamWF.perm {F F' : SFam} (w : SFamWF F) (p : F.Perm F') : SFamWF F' :=
  ⟨fun q hq => w.nodup q (p.mem_iff.mpr hq), (p.pairwise_iff (fun hrs => Disj.symm hrs)).mp w.disj⟩

/-- ADMITTED CALLS, stated on the family alone (independently of `SStep`):
* `slist_init(a)`: `a` is in no list, or is a list head (then the list is emptied);
* `slist_add(link, pos)`: `link` is in no list or is an empty list of its own; `pos` is a head
  or an element of some list;
* `slist_pop_first(hd)`: `hd` is a list head;
* `move_front(n)` on list `hd`: `n` is an element of that list, or in no list, or an empty
  list of its own; the search bound exceeds the length of the list. -/
def SAdmitted (F : SFam) : SOp → Prop
  | .init a => SFree F a ∨ ∃ p ∈ F, p.1 = a
  | .add link pos => (SFree F link ∨ (link, []) ∈ F) ∧ link ≠ pos ∧ ∃ p ∈ F, pos ∈ snodes p
  | .popFirst hd => ∃ p ∈ F, p.1 = hd
  | .moveFront fuel n hd => n ≠ hd ∧ ∃ p ∈ F, p.1 = hd ∧ p.2.length < fuel ∧ (n ∈ p.2 ∨ SFree F n ∨ (n, []) ∈ F)

instance (F : SFam) (a : Nat) : Decidable (SFree F a) := by unfold SFree; infer_instance
instance (F : SFam) (op : SOp) : Decidable (SAdmitted F op) := by
  cases op <;> unfold SAdmitted <;> infer_instance

theorem perm_of_mem {α} [BEq α] [LawfulBEq α] {l : List α} {a : α} (h : a ∈ l) : l.Perm (a :: l.erase a) :=
  List.perm_cons_erase h

theorem perm_of_mem2 {α} [BEq α] [LawfulBEq α] {l : List α} {a b : α} (ha : a ∈ l) (hb : b ∈ l) (hne : b ≠ a) :
    l.Perm (a :: b :: (l.erase a).erase b) :=
  (List.perm_cons_erase ha).trans (List.Perm.cons a (List.perm_cons_erase ((List.mem_erase_of_ne hne).mpr hb)))

theorem sadmitted_of_step {F F' : SFam} {op : SOp} (w : SFamWF F) (st : SStep F op F') : SAdmitted F op := by
  cases st with
  | initFree hf => exact Or.inl hf
  | @initHead a xs B p => exact Or.inr ⟨(a, xs), p.mem_iff.mpr (by simp), rfl⟩
  | @addFirst link hd xs B p hf =>
    have hm : (hd, xs) ∈ F := p.mem_iff.mpr (by simp)
    exact ⟨Or.inl hf, fun e => hf _ hm (by simp [snodes, e]), _, hm, by simp [snodes]⟩
  | @addAfter link hd q pre post B p hf =>
    have hm : (hd, pre ++ q :: post) ∈ F := p.mem_iff.mpr (by simp)
    exact ⟨Or.inl hf, fun e => hf _ hm (by simp [snodes, e]), _, hm, by simp [snodes]⟩
  | @addFirstLone link hd xs B p =>
    have d := (List.pairwise_cons.mp (w.perm p).disj).1 (hd, xs) (by simp) link (by simp [snodes])
    exact ⟨Or.inr (p.mem_iff.mpr (by simp)), fun e => d (by simp [snodes, e]), (hd, xs),
      p.mem_iff.mpr (by simp), by simp [snodes]⟩
  | @addAfterLone link hd q pre post B p =>
    have d := (List.pairwise_cons.mp (w.perm p).disj).1 (hd, pre ++ q :: post) (by simp) link (by simp [snodes])
    exact ⟨Or.inr (p.mem_iff.mpr (by simp)), fun e => d (by simp [snodes, e]), (hd, pre ++ q :: post),
      p.mem_iff.mpr (by simp), by simp [snodes]⟩
  | @pop hd x xs B p => exact ⟨(hd, x :: xs), p.mem_iff.mpr (by simp), rfl⟩
  | @popEmpty hd B p => exact ⟨(hd, []), p.mem_iff.mpr (by simp), rfl⟩
  | @moveFrontOwn fuel n hd pre post B p hfu =>
    have hm : (hd, pre ++ n :: post) ∈ F := p.mem_iff.mpr (by simp)
    have nd := w.nodup _ hm
    refine ⟨?_, _, hm, rfl, hfu, Or.inl (by simp)⟩
    intro e; subst e; simp [snodes] at nd
  | @moveFrontAbsent fuel n hd xs B p hf hfu =>
    have hm : (hd, xs) ∈ F := p.mem_iff.mpr (by simp)
    exact ⟨fun e => hf _ hm (by simp [snodes, e]), _, hm, rfl, hfu, Or.inr (Or.inl hf)⟩
  | @moveFrontLone fuel n hd xs B p hfu =>
    have d := (List.pairwise_cons.mp (w.perm p).disj).1 (hd, xs) (by simp) n (by simp [snodes])
    exact ⟨fun e => d (by simp [snodes, e]), (hd, xs), p.mem_iff.mpr (by simp), rfl, hfu,
      Or.inr (Or.inr (p.mem_iff.mpr (by simp)))⟩

theorem step_of_sadmitted {F : SFam} {op : SOp} (ad : SAdmitted F op) : ∃ F', SStep F op F' := by
  cases op with
  | init a =>
    rcases ad with hf | ⟨⟨hd, xs⟩, hp, rfl⟩
    · exact ⟨_, .initFree hf⟩
    · exact ⟨_, .initHead (perm_of_mem hp)⟩
  | add link pos =>
    obtain ⟨hl, hne, ⟨hd, xs⟩, hp, hpos⟩ := ad
    simp only [snodes, List.mem_cons] at hpos
    rcases hl with hf | hlone
    · rcases hpos with rfl | hpos
      · exact ⟨_, .addFirst (perm_of_mem hp) hf⟩
      · obtain ⟨pre, post, rfl⟩ := List.append_of_mem hpos
        exact ⟨_, .addAfter (perm_of_mem hp) hf⟩
    · have hne2 : ((hd, xs) : Nat × List Nat) ≠ (link, []) := by
        intro e; injection e with e1 e2; subst e1; subst e2
        simp at hpos; exact hne hpos.symm
      rcases hpos with rfl | hpos
      · exact ⟨_, .addFirstLone (perm_of_mem2 hlone hp hne2)⟩
      · obtain ⟨pre, post, rfl⟩ := List.append_of_mem hpos
        exact ⟨_, .addAfterLone (perm_of_mem2 hlone hp hne2)⟩
  | popFirst hd =>
    obtain ⟨⟨hd', xs⟩, hp, rfl⟩ := ad
    cases xs with
    | nil => exact ⟨_, .popEmpty (perm_of_mem hp)⟩
    | cons x xs => exact ⟨_, .pop (perm_of_mem hp)⟩
  | moveFront fuel n hd =>
    obtain ⟨hne, ⟨hd', xs⟩, hp, rfl, hfu, hn⟩ := ad
    rcases hn with hn | hf | hlone
    · obtain ⟨pre, post, rfl⟩ := List.append_of_mem hn
      exact ⟨_, .moveFrontOwn (perm_of_mem hp) hfu⟩
    · exact ⟨_, .moveFrontAbsent (perm_of_mem hp) hf hfu⟩
    · have hne2 : ((hd', xs) : Nat × List Nat) ≠ (n, []) := by
        intro e; injection e with e1 e2; exact hne e1.symm
      exact ⟨_, .moveFrontLone (perm_of_mem2 hlone hp hne2) hfu⟩

end Igris.C01
