/-
  C01 — ENABLEDNESS of the dlist reference semantics: which calls `AStep` admits, as a
  decidable predicate on the family of rings that is written without `AStep`, and the
  proof that the two coincide on well-formed families.
-/
import IgrisModel.C01.SHist
namespace Igris.C01

/-- the node is a member of some ring of the family (linked, or alone = self-linked) -/
def InRing (A : Rings) (a : Nat) : Prop := ∃ r ∈ A, a ∈ r
/-- the node is a ring of its own (self-linked: initialised / unlinked / an empty list head) -/
def Lone (A : Rings) (a : Nat) : Prop := [a] ∈ A

/-- well-formed family (a property of the lists alone): no node occurs twice -/
structure RingsWF (A : Rings) : Prop where
  nodup : ∀ r ∈ A, r.Nodup
  disj : A.Pairwise Disj

theorem RingsOK.wf {h : Heap} {A : Rings} (ok : RingsOK h A) : RingsWF A :=
  ⟨fun r hr => by obtain ⟨a, xs, e, ring⟩ := ok.ring r hr; subst e; exact ring.nodup, ok.disj⟩

/-- ADMITTED CALLS of the C `dlist_*` functions and the C++ `dlist_node` / `dlist_base`
methods, stated on the family alone (independently of `AStep`):
* `dlist_init(a)`: always (a node of a ring ABANDONS that ring: the other members are in no
  ring afterwards); `dlist_node()` at `a`: `a` is in no ring or alone;
* `dlist_add_next/prev(lnk, head)`, `dlist_insert_instead(lnk, head)`,
  `dlist_move_sorted(lnk, head, …)`: `lnk` is in NO ring or ALONE (the Linux contract: the
  entry must not be linked), `head` is in a ring, `lnk ≠ head`; for `move_sorted` the loop
  bound exceeds the length of the ring;
* `dlist_del`, `dlist_del_init`, `unlink`/`~dlist_node`, `pop_front`, `pop_back`: the node is in a ring;
* `dlist_move`, `dlist_move_tail`, `move_next_than`, `move_prev_than`: BOTH nodes are in rings —
  any two, also the same node, neighbours, the same or different rings;
* `unlink_and_move_all_nodes_from_other(l, oth)`: the two heads are in different rings, or `l = oth`;
* `clear` / `~dlist_base`: the head is in a ring of at most 10^6 nodes (bound of the model's loop). -/
def Admitted (A : Rings) : Op → Prop
  | .cinit _ => True
  | .xctor a => Free A a ∨ Lone A a
  | .caddNext lnk head => (Free A lnk ∨ Lone A lnk) ∧ lnk ≠ head ∧ InRing A head
  | .caddPrev lnk head => (Free A lnk ∨ Lone A lnk) ∧ lnk ≠ head ∧ InRing A head
  | .cinsertInstead lnk head => (Free A lnk ∨ Lone A lnk) ∧ lnk ≠ head ∧ InRing A head
  | .cmoveSorted _ fuel lnk head => (Free A lnk ∨ Lone A lnk) ∧ lnk ≠ head ∧ ∃ r ∈ A, head ∈ r ∧ r.length < fuel
  | .cdel a => InRing A a
  | .cdelInit a => InRing A a
  | .xunlink a => InRing A a
  | .xpopFront a => InRing A a
  | .xpopBack a => InRing A a
  | .cmove l head => InRing A l ∧ InRing A head
  | .cmoveTail l head => InRing A l ∧ InRing A head
  | .xmoveNext l head => InRing A l ∧ InRing A head
  | .xmovePrev l head => InRing A l ∧ InRing A head
  | .xsplice l oth => (l = oth ∧ InRing A l) ∨ ∃ r ∈ A, l ∈ r ∧ oth ∉ r ∧ InRing A oth
  | .xclear l => ∃ r ∈ A, l ∈ r ∧ r.length ≤ 1000000

instance (A : Rings) (a : Nat) : Decidable (InRing A a) := by unfold InRing; infer_instance
instance (A : Rings) (a : Nat) : Decidable (Lone A a) := by unfold Lone; infer_instance
instance (A : Rings) (a : Nat) : Decidable (Free A a) := by unfold Free; infer_instance
instance (A : Rings) (op : Op) : Decidable (Admitted A op) := by
  cases op <;> unfold Admitted <;> infer_instance

theorem free_iff_not_inRing (A : Rings) (a : Nat) : Free A a ↔ ¬ InRing A a :=
  ⟨fun f ⟨r, hr, hm⟩ => f r hr hm, fun n r hr hm => n ⟨r, hr, hm⟩⟩

/-! ### `Same` relates the rings of two presentations one to one, up to rotation -/

theorem Same.rings {A A' : Rings} (s : Same A A') :
    (∀ r ∈ A, ∃ r' ∈ A', r.Perm r') ∧ (∀ r' ∈ A', ∃ r ∈ A, r.Perm r') := by
  induction s with
  | refl A => exact ⟨fun r hr => ⟨r, hr, .refl _⟩, fun r hr => ⟨r, hr, .refl _⟩⟩
  | perm p => exact ⟨fun r hr => ⟨r, p.mem_iff.mp hr, .refl _⟩, fun r hr => ⟨r, p.mem_iff.mpr hr, .refl _⟩⟩
  | @rot l1 l2 b B =>
    have p : (l1 ++ b :: l2).Perm (b :: (l2 ++ l1)) := by
      have := List.perm_append_comm (l₁ := l1) (l₂ := b :: l2)
      simpa using this
    constructor
    · intro r hr
      rcases List.mem_cons.mp hr with rfl | hr
      · exact ⟨_, by simp, p⟩
      · exact ⟨r, by simp [hr], .refl _⟩
    · intro r hr
      rcases List.mem_cons.mp hr with rfl | hr
      · exact ⟨_, by simp, p⟩
      · exact ⟨r, by simp [hr], .refl _⟩
  | trans _ _ ih1 ih2 =>
    constructor
    · intro r hr
      obtain ⟨r1, h1, p1⟩ := ih1.1 r hr
      obtain ⟨r2, h2, p2⟩ := ih2.1 r1 h1
      exact ⟨r2, h2, p1.trans p2⟩
    · intro r hr
      obtain ⟨r1, h1, p1⟩ := ih2.2 r hr
      obtain ⟨r2, h2, p2⟩ := ih1.2 r1 h1
      exact ⟨r2, h2, p2.trans p1⟩

theorem Same.inRing {A A' : Rings} (s : Same A A') {a : Nat} (h : InRing A' a) : InRing A a := by
  obtain ⟨r', hr', hm⟩ := h
  obtain ⟨r, hr, p⟩ := s.rings.2 r' hr'
  exact ⟨r, hr, p.mem_iff.mpr hm⟩

theorem Same.lone {A A' : Rings} (s : Same A A') {a : Nat} (h : [a] ∈ A') : Lone A a := by
  obtain ⟨r, hr, p⟩ := s.rings.2 [a] h
  have : r = [a] := List.perm_singleton.mp p
  subst this; exact hr

theorem Same.free {A A' : Rings} (s : Same A A') {a : Nat} (h : Free A' a) : Free A a := by
  intro r hr hm
  obtain ⟨r', hr', p⟩ := s.rings.1 r hr
  exact h r' hr' (p.mem_iff.mp hm)

theorem RingsWF.same {A A' : Rings} (w : RingsWF A) (s : Same A A') : RingsWF A' := by
  induction s with
  | refl A => exact w
  | perm p => exact ⟨fun r hr => w.nodup r (p.mem_iff.mpr hr), (p.pairwise_iff (fun hrs => Disj.symm hrs)).mp w.disj⟩
  | @rot l1 l2 b B =>
    have p : (l1 ++ b :: l2).Perm (b :: (l2 ++ l1)) := by
      have := List.perm_append_comm (l₁ := l1) (l₂ := b :: l2)
      simpa using this
    refine ⟨?_, ?_⟩
    · intro r hr
      rcases List.mem_cons.mp hr with rfl | hr
      · exact p.nodup_iff.mp (w.nodup _ (by simp))
      · exact w.nodup r (by simp [hr])
    · have := List.pairwise_cons.mp w.disj
      exact List.pairwise_cons.mpr ⟨fun t ht y hy => this.1 t ht y (p.mem_iff.mpr hy), this.2⟩
  | trans _ _ ih1 ih2 => exact ih2 (ih1 w)

/-! ### from membership to the shape a rule asks for -/

/-- a ring of the family, read from any of its members, in front of the others -/
theorem same_of_mem {A : Rings} {r : List Nat} {a : Nat} (hr : r ∈ A) (ha : a ∈ r) :
    ∃ xs, Same A ((a :: xs) :: A.erase r) ∧ (a :: xs).Perm r := by
  obtain ⟨l1, l2, rfl⟩ := List.append_of_mem ha
  refine ⟨l2 ++ l1, .trans (.perm (List.perm_cons_erase hr)) .rot, ?_⟩
  have := List.perm_append_comm (l₁ := a :: l2) (l₂ := l1)
  simpa using this

/-- two different rings of the family, each read from any of its members, in front of the others -/
theorem same_of_mem2 {A : Rings} {r r' : List Nat} {a b : Nat} (hr : r ∈ A) (hr' : r' ∈ A) (hne : r' ≠ r)
    (ha : a ∈ r) (hb : b ∈ r') :
    ∃ xs ys, Same A ((a :: xs) :: (b :: ys) :: (A.erase r).erase r') ∧ (a :: xs).Perm r ∧ (b :: ys).Perm r' := by
  obtain ⟨l1, l2, rfl⟩ := List.append_of_mem ha
  obtain ⟨m1, m2, rfl⟩ := List.append_of_mem hb
  refine ⟨l2 ++ l1, m2 ++ m1, ?_, ?_, ?_⟩
  · have s1 : Same A ((l1 ++ a :: l2) :: (m1 ++ b :: m2) :: (A.erase (l1 ++ a :: l2)).erase (m1 ++ b :: m2)) :=
      .perm (perm_of_mem2 hr hr' hne)
    have s2 : Same ((l1 ++ a :: l2) :: (m1 ++ b :: m2) :: (A.erase (l1 ++ a :: l2)).erase (m1 ++ b :: m2))
        ((m1 ++ b :: m2) :: (a :: (l2 ++ l1)) :: (A.erase (l1 ++ a :: l2)).erase (m1 ++ b :: m2)) :=
      .trans .rot (.perm (List.Perm.swap _ _ _))
    have s3 : Same ((m1 ++ b :: m2) :: (a :: (l2 ++ l1)) :: (A.erase (l1 ++ a :: l2)).erase (m1 ++ b :: m2))
        ((a :: (l2 ++ l1)) :: (b :: (m2 ++ m1)) :: (A.erase (l1 ++ a :: l2)).erase (m1 ++ b :: m2)) :=
      .trans .rot (.perm (List.Perm.swap _ _ _))
    exact .trans s1 (.trans s2 s3)
  · have := List.perm_append_comm (l₁ := a :: l2) (l₂ := l1)
    simpa using this
  · have := List.perm_append_comm (l₁ := b :: m2) (l₂ := m1)
    simpa using this

/-- the shapes of the rules for an entry `lnk` that is not linked and a position `head` -/
theorem add_shape {A : Rings} {lnk head : Nat} {r : List Nat} (hl : Free A lnk ∨ Lone A lnk) (hne : lnk ≠ head)
    (hr : r ∈ A) (hh : head ∈ r) :
    (∃ ys B, Same A ((head :: ys) :: B) ∧ Free ((head :: ys) :: B) lnk ∧ (head :: ys).Perm r) ∨
    (∃ ys B, Same A ([lnk] :: (head :: ys) :: B) ∧ (head :: ys).Perm r) := by
  rcases hl with hf | hlone
  · obtain ⟨ys, s, p⟩ := same_of_mem hr hh
    refine Or.inl ⟨ys, _, s, ?_, p⟩
    intro t ht hm
    rcases List.mem_cons.mp ht with rfl | ht
    · exact hf r hr (p.mem_iff.mp hm)
    · exact hf t (List.mem_of_mem_erase ht) hm
  · have hne2 : r ≠ [lnk] := by
      intro e; subst e; simp at hh; exact hne hh.symm
    obtain ⟨xs, ys, s, p1, p2⟩ := same_of_mem2 (a := lnk) (b := head) hlone hr hne2 (by simp) hh
    have : xs = [] := by
      have := p1.length_eq; simpa using this
    subst this
    exact Or.inr ⟨ys, _, s, p2⟩

/-- the shapes of the rules for two nodes that are both in rings -/
theorem two_shape {A : Rings} {l head : Nat} (hl : InRing A l) (hh : InRing A head) :
    (l = head ∧ ∃ xs B, Same A ((l :: xs) :: B)) ∨
    (∃ pre post B, Same A ((l :: (pre ++ head :: post)) :: B)) ∨
    (∃ xs ys B, Same A ((l :: xs) :: (head :: ys) :: B)) := by
  obtain ⟨r, hr, hlr⟩ := hl
  by_cases e : l = head
  · obtain ⟨xs, s, _⟩ := same_of_mem hr hlr
    exact Or.inl ⟨e, xs, _, s⟩
  · by_cases hin : head ∈ r
    · obtain ⟨xs, s, p⟩ := same_of_mem hr hlr
      have : head ∈ xs := by
        have := p.mem_iff.mpr hin
        rcases List.mem_cons.mp this with h1 | h1
        · exact absurd h1.symm e
        · exact h1
      obtain ⟨pre, post, rfl⟩ := List.append_of_mem this
      exact Or.inr (Or.inl ⟨pre, post, _, s⟩)
    · obtain ⟨r', hr', hhr⟩ := hh
      have hne : r' ≠ r := fun e' => hin (e' ▸ hhr)
      obtain ⟨xs, ys, s, _, _⟩ := same_of_mem2 hr hr' hne hlr hhr
      exact Or.inr (Or.inr ⟨xs, ys, _, s⟩)

/-! ### every rule's precondition implies `Admitted` -/

theorem adm_add_lone {A : Rings} {lnk head : Nat} {ys : List Nat} {B : Rings} (w : RingsWF A)
    (s : Same A ([lnk] :: (head :: ys) :: B)) :
    (Free A lnk ∨ Lone A lnk) ∧ lnk ≠ head ∧ ∃ r ∈ A, head ∈ r ∧ r.length = ys.length + 1 := by
  have w' := w.same s
  have d := (List.pairwise_cons.mp w'.disj).1 (head :: ys) (by simp) lnk (by simp)
  obtain ⟨r, hr, p⟩ := s.rings.2 (head :: ys) (by simp)
  exact ⟨Or.inr (s.lone (by simp)), fun e => d (by simp [e]), r, hr, p.mem_iff.mpr (by simp), by simpa using p.length_eq⟩

theorem adm_add_free {A : Rings} {lnk head : Nat} {ys : List Nat} {B : Rings}
    (s : Same A ((head :: ys) :: B)) (hf : Free ((head :: ys) :: B) lnk) :
    (Free A lnk ∨ Lone A lnk) ∧ lnk ≠ head ∧ ∃ r ∈ A, head ∈ r ∧ r.length = ys.length + 1 := by
  obtain ⟨r, hr, p⟩ := s.rings.2 (head :: ys) (by simp)
  exact ⟨Or.inl (s.free hf), fun e => hf (head :: ys) (by simp) (by simp [e]), r, hr, p.mem_iff.mpr (by simp),
    by simpa using p.length_eq⟩

theorem weaken_add {A : Rings} {lnk head : Nat} {n : Nat}
    (h : (Free A lnk ∨ Lone A lnk) ∧ lnk ≠ head ∧ ∃ r ∈ A, head ∈ r ∧ r.length = n) :
    (Free A lnk ∨ Lone A lnk) ∧ lnk ≠ head ∧ InRing A head :=
  ⟨h.1, h.2.1, by obtain ⟨r, hr, hm, _⟩ := h.2.2; exact ⟨r, hr, hm⟩⟩

theorem adm_in1 {A : Rings} {a : Nat} {xs : List Nat} {B : Rings} (s : Same A ((a :: xs) :: B)) : InRing A a :=
  s.inRing ⟨a :: xs, by simp, by simp⟩

theorem adm_in2 {A : Rings} {a b : Nat} {xs ys : List Nat} {B : Rings} (s : Same A ((a :: xs) :: (b :: ys) :: B)) :
    InRing A a ∧ InRing A b :=
  ⟨s.inRing ⟨a :: xs, by simp, by simp⟩, s.inRing ⟨b :: ys, by simp, by simp⟩⟩

theorem adm_in2same {A : Rings} {a b : Nat} {pre post : List Nat} {B : Rings}
    (s : Same A ((a :: (pre ++ b :: post)) :: B)) : InRing A a ∧ InRing A b :=
  ⟨s.inRing ⟨a :: (pre ++ b :: post), by simp, by simp⟩, s.inRing ⟨a :: (pre ++ b :: post), by simp, by simp⟩⟩

theorem adm_splice {A : Rings} {l oth : Nat} {xs ys : List Nat} {B : Rings} (w : RingsWF A)
    (s : Same A ((l :: xs) :: (oth :: ys) :: B)) : ∃ r ∈ A, l ∈ r ∧ oth ∉ r ∧ InRing A oth := by
  have w' := w.same s
  have d := (List.pairwise_cons.mp w'.disj).1 (oth :: ys) (by simp)
  obtain ⟨r, hr, p⟩ := s.rings.2 (l :: xs) (by simp)
  exact ⟨r, hr, p.mem_iff.mpr (by simp), fun hm => d oth (p.mem_iff.mp hm) (by simp), (adm_in2 s).2⟩

theorem admitted_of_step {A A' : Rings} {op : Op} (w : RingsWF A) (st : AStep A op A') : Admitted A op := by
  induction st with
  | cinitFree _ => trivial
  | cinitRing _ => trivial
  | xctorFree hf => exact Or.inl hf
  | xctorLone s => exact Or.inr (s.lone (by simp))
  | caddNext s => exact weaken_add (adm_add_lone w s)
  | caddNextFree s hf => exact weaken_add (adm_add_free s hf)
  | caddPrev s => exact weaken_add (adm_add_lone w s)
  | caddPrevFree s hf => exact weaken_add (adm_add_free s hf)
  | cinsertInstead s => exact weaken_add (adm_add_lone w s)
  | cinsertInsteadFree s hf => exact weaken_add (adm_add_free s hf)
  | cmoveSorted s hfu =>
    obtain ⟨h1, h2, r, hr, hm, hlen⟩ := adm_add_lone w s
    exact ⟨h1, h2, r, hr, hm, by omega⟩
  | cmoveSortedFree s hf hfu =>
    obtain ⟨h1, h2, r, hr, hm, hlen⟩ := adm_add_free s hf
    exact ⟨h1, h2, r, hr, hm, by omega⟩
  | cdel s => exact adm_in1 s
  | cdelSingle s => exact adm_in1 s
  | cdelInit s => exact adm_in1 s
  | cdelInitSingle s => exact adm_in1 s
  | xunlink s => exact adm_in1 s
  | xunlinkSingle s => exact adm_in1 s
  | cmoveSelf s => exact ⟨adm_in1 s, adm_in1 s⟩
  | cmoveSelfSingle s => exact ⟨adm_in1 s, adm_in1 s⟩
  | cmoveSame s => exact adm_in2same s
  | cmoveOther s => exact adm_in2 s
  | cmoveOtherSingle s => exact adm_in2 s
  | cmoveTailSelf s => exact ⟨adm_in1 s, adm_in1 s⟩
  | cmoveTailSelfSingle s => exact ⟨adm_in1 s, adm_in1 s⟩
  | cmoveTailSame s => exact adm_in2same s
  | cmoveTailOther s => exact adm_in2 s
  | cmoveTailOtherSingle s => exact adm_in2 s
  | xmoveNext _ ih => exact ih
  | xmovePrev _ ih => exact ih
  | xpopFront s => exact adm_in1 s
  | xpopFrontEmpty s => exact adm_in1 s
  | xpopBack s => exact adm_in1 s
  | xpopBackEmpty s => exact adm_in1 s
  | xsplice s => exact Or.inr (adm_splice w s)
  | xspliceIntoEmpty s => exact Or.inr (adm_splice w s)
  | xspliceFromEmpty s => exact Or.inr (adm_splice w s)
  | xspliceBothEmpty s => exact Or.inr (adm_splice w s)
  | xspliceSelf s => exact Or.inl ⟨rfl, adm_in1 s⟩
  | xspliceSelfEmpty s => exact Or.inl ⟨rfl, adm_in1 s⟩
  | @xclear l xs B s hlen =>
    obtain ⟨r, hr, p⟩ := s.rings.2 (l :: xs) (by simp)
    exact ⟨r, hr, p.mem_iff.mpr (by simp), by have := p.length_eq; simp at this; omega⟩

/-! ### `Admitted` implies that some rule applies -/

theorem step_of_admitted {A : Rings} {op : Op} (ad : Admitted A op) : ∃ A', AStep A op A' := by
  cases op with
  | cinit a =>
    by_cases h : InRing A a
    · obtain ⟨r, hr, hm⟩ := h
      obtain ⟨xs, s, _⟩ := same_of_mem hr hm
      exact ⟨_, .cinitRing s⟩
    · exact ⟨_, .cinitFree ((free_iff_not_inRing A a).mpr h)⟩
  | xctor a =>
    rcases ad with hf | hl
    · exact ⟨_, .xctorFree hf⟩
    · exact ⟨_, .xctorLone (.perm (List.perm_cons_erase hl))⟩
  | caddNext lnk head =>
    obtain ⟨hl, hne, r, hr, hh⟩ := ad
    rcases add_shape hl hne hr hh with ⟨ys, B, s, hf, _⟩ | ⟨ys, B, s, _⟩
    · exact ⟨_, .caddNextFree s hf⟩
    · exact ⟨_, .caddNext s⟩
  | caddPrev lnk head =>
    obtain ⟨hl, hne, r, hr, hh⟩ := ad
    rcases add_shape hl hne hr hh with ⟨ys, B, s, hf, _⟩ | ⟨ys, B, s, _⟩
    · exact ⟨_, .caddPrevFree s hf⟩
    · exact ⟨_, .caddPrev s⟩
  | cinsertInstead lnk head =>
    obtain ⟨hl, hne, r, hr, hh⟩ := ad
    rcases add_shape hl hne hr hh with ⟨ys, B, s, hf, _⟩ | ⟨ys, B, s, _⟩
    · exact ⟨_, .cinsertInsteadFree s hf⟩
    · exact ⟨_, .cinsertInstead s⟩
  | cmoveSorted cmp fuel lnk head =>
    obtain ⟨hl, hne, r, hr, hh, hlen⟩ := ad
    rcases add_shape hl hne hr hh with ⟨ys, B, s, hf, p⟩ | ⟨ys, B, s, p⟩
    · exact ⟨_, .cmoveSortedFree s hf (by have := p.length_eq; simp at this; omega)⟩
    · exact ⟨_, .cmoveSorted s (by have := p.length_eq; simp at this; omega)⟩
  | cdel a =>
    obtain ⟨r, hr, hm⟩ := ad
    obtain ⟨xs, s, _⟩ := same_of_mem hr hm
    cases xs with
    | nil => exact ⟨_, .cdelSingle s⟩
    | cons x xs => exact ⟨_, .cdel s⟩
  | cdelInit a =>
    obtain ⟨r, hr, hm⟩ := ad
    obtain ⟨xs, s, _⟩ := same_of_mem hr hm
    cases xs with
    | nil => exact ⟨_, .cdelInitSingle s⟩
    | cons x xs => exact ⟨_, .cdelInit s⟩
  | xunlink a =>
    obtain ⟨r, hr, hm⟩ := ad
    obtain ⟨xs, s, _⟩ := same_of_mem hr hm
    cases xs with
    | nil => exact ⟨_, .xunlinkSingle s⟩
    | cons x xs => exact ⟨_, .xunlink s⟩
  | xpopFront a =>
    obtain ⟨r, hr, hm⟩ := ad
    obtain ⟨xs, s, _⟩ := same_of_mem hr hm
    cases xs with
    | nil => exact ⟨_, .xpopFrontEmpty s⟩
    | cons x xs => exact ⟨_, .xpopFront s⟩
  | xpopBack a =>
    obtain ⟨r, hr, hm⟩ := ad
    obtain ⟨xs, s, _⟩ := same_of_mem hr hm
    rcases List.eq_nil_or_concat xs with rfl | ⟨ini, z, rfl⟩
    · exact ⟨_, .xpopBackEmpty s⟩
    · rw [List.concat_eq_append] at s; exact ⟨_, .xpopBack s⟩
  | cmove l head =>
    rcases two_shape ad.1 ad.2 with ⟨rfl, xs, B, s⟩ | ⟨pre, post, B, s⟩ | ⟨xs, ys, B, s⟩
    · cases xs with
      | nil => exact ⟨_, .cmoveSelfSingle s⟩
      | cons x xs => exact ⟨_, .cmoveSelf s⟩
    · exact ⟨_, .cmoveSame s⟩
    · cases xs with
      | nil => exact ⟨_, .cmoveOtherSingle s⟩
      | cons x xs => exact ⟨_, .cmoveOther s⟩
  | cmoveTail l head =>
    rcases two_shape ad.1 ad.2 with ⟨rfl, xs, B, s⟩ | ⟨pre, post, B, s⟩ | ⟨xs, ys, B, s⟩
    · cases xs with
      | nil => exact ⟨_, .cmoveTailSelfSingle s⟩
      | cons x xs => exact ⟨_, .cmoveTailSelf s⟩
    · exact ⟨_, .cmoveTailSame s⟩
    · cases xs with
      | nil => exact ⟨_, .cmoveTailOtherSingle s⟩
      | cons x xs => exact ⟨_, .cmoveTailOther s⟩
  | xmoveNext l head =>
    rcases two_shape ad.1 ad.2 with ⟨rfl, xs, B, s⟩ | ⟨pre, post, B, s⟩ | ⟨xs, ys, B, s⟩
    · cases xs with
      | nil => exact ⟨_, .xmoveNext (.cmoveSelfSingle s)⟩
      | cons x xs => exact ⟨_, .xmoveNext (.cmoveSelf s)⟩
    · exact ⟨_, .xmoveNext (.cmoveSame s)⟩
    · cases xs with
      | nil => exact ⟨_, .xmoveNext (.cmoveOtherSingle s)⟩
      | cons x xs => exact ⟨_, .xmoveNext (.cmoveOther s)⟩
  | xmovePrev l head =>
    rcases two_shape ad.1 ad.2 with ⟨rfl, xs, B, s⟩ | ⟨pre, post, B, s⟩ | ⟨xs, ys, B, s⟩
    · cases xs with
      | nil => exact ⟨_, .xmovePrev (.cmoveTailSelfSingle s)⟩
      | cons x xs => exact ⟨_, .xmovePrev (.cmoveTailSelf s)⟩
    · exact ⟨_, .xmovePrev (.cmoveTailSame s)⟩
    · cases xs with
      | nil => exact ⟨_, .xmovePrev (.cmoveTailOtherSingle s)⟩
      | cons x xs => exact ⟨_, .xmovePrev (.cmoveTailOther s)⟩
  | xsplice l oth =>
    rcases ad with ⟨rfl, r, hr, hm⟩ | ad
    · obtain ⟨xs, s, _⟩ := same_of_mem hr hm
      cases xs with
      | nil => exact ⟨_, .xspliceSelfEmpty s⟩
      | cons x xs => exact ⟨_, .xspliceSelf s⟩
    obtain ⟨r, hr, hl, hno, r', hr', ho⟩ := ad
    have hne : r' ≠ r := fun e => hno (e ▸ ho)
    obtain ⟨xs, ys, s, _, _⟩ := same_of_mem2 hr hr' hne hl ho
    cases xs with
    | nil =>
      cases ys with
      | nil => exact ⟨_, .xspliceBothEmpty s⟩
      | cons y ys => exact ⟨_, .xspliceIntoEmpty s⟩
    | cons x xs =>
      cases ys with
      | nil => exact ⟨_, .xspliceFromEmpty s⟩
      | cons y ys => exact ⟨_, .xsplice s⟩
  | xclear l =>
    obtain ⟨r, hr, hm, hlen⟩ := ad
    obtain ⟨xs, s, p⟩ := same_of_mem hr hm
    exact ⟨_, .xclear s (by have := p.length_eq; simp at this; omega)⟩

end Igris.C01
