/-
  C01 — extension round 3: lemmas about the member.h / memberxx.h macros at pointer level, the counting
  loops written as the C code writes them, the closed-form ring, the C++ `circular_size` on a lasso.
-/
import IgrisModel.C01.Ext4
namespace Igris.C01

theorem dlistSizeLoop_eq (h : Heap) (head : Nat) : ∀ (fuel pos : Nat) (sz : BitVec 32),
    dlistSizeLoop h head fuel pos sz = (walkNext h head fuel pos).foldl (fun i _ => i + 1) sz := by
  intro fuel
  induction fuel with
  | zero => intro pos sz; simp [dlistSizeLoop, walkNext]
  | succ n ih =>
    intro pos sz
    unfold dlistSizeLoop walkNext
    by_cases hp : pos = head
    · simp [hp]
    · simp [hp, ih]

theorem dlistSizeRevLoop_eq (h : Heap) (head : Nat) : ∀ (fuel pos : Nat) (sz : BitVec 32),
    dlistSizeRevLoop h head fuel pos sz = (walkPrev h head fuel pos).foldl (fun i _ => i + 1) sz := by
  intro fuel
  induction fuel with
  | zero => intro pos sz; simp [dlistSizeRevLoop, walkPrev]
  | succ n ih =>
    intro pos sz
    unfold dlistSizeRevLoop walkPrev
    by_cases hp : pos = head
    · simp [hp]
    · simp [hp, ih]

theorem slistSizeLoop_eq (h : SHeap) (head : Nat) : ∀ (fuel pos : Nat) (sz : BitVec 32),
    slistSizeLoop h head fuel pos sz = (swalk h head fuel pos).foldl (fun i _ => i + 1) sz := by
  intro fuel
  induction fuel with
  | zero => intro pos sz; simp [slistSizeLoop, swalk]
  | succ n ih =>
    intro pos sz
    unfold slistSizeLoop swalk
    by_cases hp : pos = head
    · simp [hp]
    · simp [hp, ih]

theorem dlistInLoop_eq (h : Heap) (fnd head : Nat) : ∀ (fuel pos : Nat),
    dlistInLoop h fnd head fuel pos = (walkNext h head fuel pos).contains fnd := by
  intro fuel
  induction fuel with
  | zero => intro pos; simp [dlistInLoop, walkNext]
  | succ n ih =>
    intro pos
    unfold dlistInLoop walkNext
    by_cases hp : pos = head
    · simp [hp]
    · by_cases hf : pos = fnd
      · simp [hp, hf]
      · have hf' : ¬ fnd = pos := fun e => hf e.symm
        simp [hp, hf, ih, List.contains_cons, hf']

/-- the lasso `0 → 1 → 1 → …`: the forward walk from 0 never comes back -/
def lassoHeap : Heap := ⟨fun x => if x = 0 then 1 else x, fun x => x⟩

theorem circSizeAux_lasso : ∀ (fuel sz : Nat), circSizeAux lassoHeap 0 fuel 1 sz = sz + fuel := by
  intro fuel
  induction fuel with
  | zero => intro sz; simp [circSizeAux]
  | succ n ih =>
    intro sz
    have e : circSizeAux lassoHeap 0 (n + 1) 1 sz = circSizeAux lassoHeap 0 n 1 (sz + 1) := by
      simp [circSizeAux, lassoHeap]
    rw [e, ih]; omega

end Igris.C01
