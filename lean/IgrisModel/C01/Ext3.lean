/-
  C01 extension, part 3 — C++ size()/is_correct(), slist queries / init / frames, witnesses.
-/
import IgrisModel.C01.Ext2
namespace Igris.C01

/-! ## `circular_size` / `reverse_circular_size` (C++ `size()`, `is_correct()`) -/

theorem circSizeAux_seg (h : Heap) (a : Nat) : ∀ (l : List Nat) (n fuel sz : Nat),
    Seg h.next n l a → a ∉ l → l.length < fuel → circSizeAux h a fuel n sz = sz + l.length + 1 := by
  intro l
  induction l with
  | nil =>
    intro n fuel sz hs _ hf
    simp only [Seg] at hs
    match fuel, hf with
    | f + 1, _ => simp [circSizeAux, hs]
  | cons x xs ih =>
    intro n fuel sz hs hnot hf
    simp only [Seg] at hs
    match fuel, hf with
    | f + 1, hf =>
      have hx : x ≠ a := fun e => hnot (by simp [e])
      simp only [circSizeAux, hs.1, hx, if_false]
      rw [ih x f (sz + 1) hs.2 (fun hm => hnot (by simp [hm])) (by simpa using hf)]
      simp only [List.length_cons]; omega

theorem revCircSizeAux_flip (h : Heap) (a : Nat) : ∀ fuel n sz,
    revCircSizeAux h a fuel n sz = circSizeAux h.flip a fuel n sz := by
  intro fuel; induction fuel with
  | zero => intros; rfl
  | succ f ih => intro n sz; simp only [revCircSizeAux, circSizeAux, ih]; rfl

theorem circularSize_ring {h : Heap} {a : Nat} {xs : List Nat} (r : IsRing h a xs) (fuel : Nat)
    (hf : xs.length < fuel) : circularSize h fuel a = xs.length + 1 := by
  have := circSizeAux_seg h a xs a fuel 0 r.fwd (List.nodup_cons.mp r.nodup).1 hf
  simpa [circularSize] using this

theorem reverseCircularSize_ring {h : Heap} {a : Nat} {xs : List Nat} (r : IsRing h a xs) (fuel : Nat)
    (hf : xs.length < fuel) : reverseCircularSize h fuel a = xs.length + 1 := by
  have := circularSize_ring r.flip fuel (by simpa using hf)
  unfold reverseCircularSize; rw [revCircSizeAux_flip]
  simpa [circularSize] using this

/-! ## slist -/

theorem SRing.congr {h h' : SHeap} {head : Nat} {xs : List Nat} (r : SRing h head xs)
    (e : ∀ y ∈ head :: xs, h'.next y = h.next y) : SRing h' head xs :=
  ⟨r.nodup, (Seg_congr _ _ _ _ _ e).mpr r.fwd⟩

theorem slistInit_ring (h : SHeap) (a : Nat) : SRing (slistInit h a) a [] :=
  ⟨by simp, by simp [Seg, slistInit, SHeap.set]⟩

theorem slistPopFirst_frame (h : SHeap) (head y : Nat) (hy : y ≠ head) :
    (slistPopFirst h head).1.next y = h.next y := by
  simp only [slistPopFirst]
  by_cases e : h.next head = head <;> simp [e, SHeap.set, hy]

theorem slistAdd_frame (h : SHeap) (link head y : Nat) (h1 : y ≠ link) (h2 : y ≠ head) :
    (slistAdd h link head).next y = h.next y := by
  simp [slistAdd_next, h1, h2]

/-- `move_front` writes only `n`, the head and (when `n` is in this list) `n`'s predecessor in this list -/
theorem slistMoveFront_frame (h : SHeap) (head n : Nat) (xs : List Nat) (r : SRing h head xs) (fuel : Nat)
    (hf : xs.length < fuel) (y : Nat) (hy : y ∉ n :: head :: xs) :
    (slistMoveFront h fuel n head).next y = h.next y := by
  simp only [List.mem_cons, not_or] at hy
  unfold slistMoveFront
  by_cases hn : n ∈ xs
  · obtain ⟨pre, post, rfl⟩ := List.append_of_mem hn
    have hh : head ∉ pre ++ n :: post := (List.nodup_cons.mp r.nodup).1
    rw [slistUnlinkFrom_present h head n pre head fuel post r.fwd r.nodup hh
      (by simp at hf; omega)]
    rw [slistAdd_frame _ _ _ _ hy.1 hy.2.1]
    have hm : (head :: pre).getLast (by simp) ∈ head :: pre := List.getLast_mem _
    have : y ≠ (head :: pre).getLast (by simp) := by
      intro e; rw [← e] at hm
      rcases List.mem_cons.mp hm with e1 | e1
      · exact hy.2.1 e1
      · exact hy.2.2 (by simp [e1])
    simp [SHeap.set, this]
  · rw [slistUnlinkFrom_absent h head n xs head fuel r.fwd hn hf]
    exact slistAdd_frame _ _ _ _ hy.1 hy.2.1

end Igris.C01
