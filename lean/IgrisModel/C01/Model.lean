/-
  C01 — model of the intrusive lists:
    igris/datastruct/dlist.h   (C dlist: dlist_head, Linux style)
    igris/container/dlist.{h,cpp} (C++ dlist_node / dlist_base / dlist<T,member>)
    igris/datastruct/slist.h, igris/container/slist.h
    igris/datastruct/hlist.h

  A heap is a pair of functions over node addresses (`Nat`).  Every C function
  is the literal sequence of its field assignments, in source order, with the
  arguments read when C reads them.
-/
import IgrisModel.Common.Proto
namespace Igris.C01

/-- the `next` / `prev` fields of every `dlist_head` / `dlist_node` -/
structure Heap where
  next : Nat → Nat
  prev : Nat → Nat

def POISON1 : Nat := 0xDEADC0DE
def POISON2 : Nat := 0xDEADC9DE

def Heap.setNext (h : Heap) (a v : Nat) : Heap := { h with next := fun x => if x = a then v else h.next x }
def Heap.setPrev (h : Heap) (a v : Nat) : Heap := { h with prev := fun x => if x = a then v else h.prev x }

/-! ### C dlist (igris/datastruct/dlist.h) -/

/-- `dlist_init`: head->next = head->prev = head -/
def dlistInit (h : Heap) (a : Nat) : Heap := (h.setPrev a a).setNext a a

/-- `__dlist_add(lnk, next, prev)` -/
def dlistAdd (h : Heap) (lnk next prev : Nat) : Heap :=
  (((h.setPrev lnk prev).setNext lnk next).setPrev next lnk).setNext prev lnk

/-- `dlist_add_next(lnk, head)` = `__dlist_add(lnk, head->next, head)` -/
def dlistAddNext (h : Heap) (lnk head : Nat) : Heap := dlistAdd h lnk (h.next head) head

/-- `dlist_add_prev(lnk, head)` = `__dlist_add(lnk, head, head->prev)` -/
def dlistAddPrev (h : Heap) (lnk head : Nat) : Heap := dlistAdd h lnk head (h.prev head)

/-- `__dlist_del(prev, next)` -/
def dlistDelRaw (h : Heap) (prev next : Nat) : Heap := (h.setPrev next prev).setNext prev next

/-- `dlist_del(entry)` -/
def dlistDel (h : Heap) (e : Nat) : Heap :=
  ((dlistDelRaw h (h.prev e) (h.next e)).setNext e POISON1).setPrev e POISON2

/-- `dlist_del_init(entry)` -/
def dlistDelInit (h : Heap) (e : Nat) : Heap := dlistInit (dlistDelRaw h (h.prev e) (h.next e)) e

/-- `dlist_move(list, head)` (after `fix: dlist_move re-initialises the entry`) -/
def dlistMove (h : Heap) (l head : Nat) : Heap :=
  let h1 := dlistDelInit h l
  dlistAddNext h1 l head

/-- `dlist_move_tail(list, head)` -/
def dlistMoveTail (h : Heap) (l head : Nat) : Heap :=
  let h1 := dlistDelInit h l
  dlistAddPrev h1 l head

/-- `dlist_insert_instead(iter, instead)` -/
def dlistInsertInstead (h : Heap) (iter instead : Nat) : Heap :=
  dlistDelInit (dlistAddPrev h iter instead) instead

def dlistEmpty (h : Heap) (head : Nat) : Bool := h.next head == head
def dlistIsLinked (h : Heap) (head : Nat) : Bool := h.next head != head

/-- forward traversal `dlist_for_each`: the nodes visited, with fuel -/
def walkNext (h : Heap) (head : Nat) : Nat → Nat → List Nat
  | 0, _ => []
  | fuel + 1, pos => if pos = head then [] else pos :: walkNext h head fuel (h.next pos)

def walkPrev (h : Heap) (head : Nat) : Nat → Nat → List Nat
  | 0, _ => []
  | fuel + 1, pos => if pos = head then [] else pos :: walkPrev h head fuel (h.prev pos)

/-- `dlist_for_each(it, head)` visits `walkNext … (head->next)` -/
def dlistToList (h : Heap) (fuel head : Nat) : List Nat := walkNext h head fuel (h.next head)
def dlistToListRev (h : Heap) (fuel head : Nat) : List Nat := walkPrev h head fuel (h.prev head)

def dlistSize (h : Heap) (fuel head : Nat) : Nat := (dlistToList h fuel head).length
def dlistSizeReversed (h : Heap) (fuel head : Nat) : Nat := (dlistToListRev h fuel head).length
def dlistIn (h : Heap) (fuel fnd head : Nat) : Bool := (dlistToList h fuel head).contains fnd

/-- `dlist_check(fnd, count)`: steps until `next` returns to `fnd`, or -1 -/
def dlistCheckAux (h : Heap) (fnd : Nat) : Nat → Nat → Nat → Int
  | 0, _, _ => -1
  | count + 1, it, steps =>
    let nx := h.next it
    if fnd = nx then (steps : Int) else dlistCheckAux h fnd count nx (steps + 1)
def dlistCheck (h : Heap) (fnd count : Nat) : Int := dlistCheckAux h fnd count fnd 0

def dlistCheckRevAux (h : Heap) (fnd : Nat) : Nat → Nat → Nat → Int
  | 0, _, _ => -1
  | count + 1, it, steps =>
    let pv := h.prev it
    if fnd = pv then (steps : Int) else dlistCheckRevAux h fnd count pv (steps + 1)
def dlistCheckReversed (h : Heap) (fnd count : Nat) : Int := dlistCheckRevAux h fnd count fnd 0

def dlistIsCorrect (h : Heap) (head : Nat) : Bool :=
  let c := dlistCheck h head 1000
  if c < 0 then false else
  let r := dlistCheckReversed h head 1000
  if r < 0 then false else c == r

/-- `dlist_move_sorted(added, head, member, comparator)`: walk from head->next
until `comparator(added, pos)`; `dlist_add_prev(added, pos)` (pos = head when
the loop ran off the end).  The comparator is a parameter. -/
def sortedPos (h : Heap) (cmp : Nat → Nat → Bool) (added head : Nat) : Nat → Nat → Nat
  | 0, pos => pos
  | fuel + 1, pos => if pos = head then head else if cmp added pos then pos
                     else sortedPos h cmp added head fuel (h.next pos)
def dlistMoveSorted (h : Heap) (cmp : Nat → Nat → Bool) (fuel added head : Nat) : Heap :=
  dlistAddPrev h added (sortedPos h cmp added head fuel (h.next head))

/-! ### C++ dlist_node / dlist_base (igris/container/dlist.h, dlist.cpp) -/

/-- `dlist_node::unlink()` -/
def nodeUnlink (h : Heap) (a : Nat) : Heap :=
  if h.next a ≠ a then
    -- next->prev = prev; prev->next = next; next = prev = this;
    let h1 := h.setPrev (h.next a) (h.prev a)
    let h2 := h1.setNext (h1.prev a) (h1.next a)
    (h2.setPrev a a).setNext a a          -- `next = prev = this` assigns prev first
  else h

/-- `dlist_node::move_prev_than(node)` -/
def nodeMovePrevThan (h : Heap) (a node : Nat) : Heap :=
  let h := nodeUnlink h a
  let oldPrev := h.prev node
  let h := h.setPrev node a
  let h := h.setNext oldPrev a
  let h := h.setPrev a oldPrev
  h.setNext a node

/-- `dlist_node::move_next_than(node)` -/
def nodeMoveNextThan (h : Heap) (a node : Nat) : Heap :=
  let h := nodeUnlink h a
  let oldNext := h.next node
  let h := h.setNext node a
  let h := h.setPrev oldNext a
  let h := h.setNext a oldNext
  h.setPrev a node

/-- `dlist_node()` constructor: next(this), prev(this) -/
def nodeCtor (h : Heap) (a : Nat) : Heap := (h.setNext a a).setPrev a a

/-- `~dlist_node()` = unlink -/
def nodeDtor (h : Heap) (a : Nat) : Heap := nodeUnlink h a

/-- `dlist_base::pop_front/pop_back` -/
def listPopFront (h : Heap) (l : Nat) : Heap := nodeUnlink h (h.next l)
def listPopBack (h : Heap) (l : Nat) : Heap := nodeUnlink h (h.prev l)

/-- `~dlist_base()` / `clear()`: `while (!empty()) pop_front();` with fuel -/
def listClear (h : Heap) (l : Nat) : Nat → Heap
  | 0 => h
  | fuel + 1 => if h.next l ≠ l then listClear (listPopFront h l) l fuel else h

/-- `unlink_and_move_all_nodes_from_other(oth)` (after `fix: … empty source list`) -/
def listSplice (h : Heap) (l oth : Nat) : Heap :=
  let h := nodeUnlink h l
  if h.next oth = oth then h else
  let h := h.setNext l (h.next oth)
  let h := h.setPrev l (h.prev oth)
  let h := h.setPrev (h.next l) l
  let h := h.setNext (h.prev l) l
  let h := h.setNext oth oth
  h.setPrev oth oth

/-- `circular_size()`: do { ++sz; n = n->next } while (n != this) -/
def circSizeAux (h : Heap) (a : Nat) : Nat → Nat → Nat → Nat
  | 0, _, sz => sz
  | fuel + 1, n, sz => let n' := h.next n; if n' = a then sz + 1 else circSizeAux h a fuel n' (sz + 1)
def circularSize (h : Heap) (fuel a : Nat) : Nat := circSizeAux h a fuel a 0
def revCircSizeAux (h : Heap) (a : Nat) : Nat → Nat → Nat → Nat
  | 0, _, sz => sz
  | fuel + 1, n, sz => let n' := h.prev n; if n' = a then sz + 1 else revCircSizeAux h a fuel n' (sz + 1)
def reverseCircularSize (h : Heap) (fuel a : Nat) : Nat := revCircSizeAux h a fuel a 0

/-! ### slist (igris/datastruct/slist.h, igris/container/slist.h) -/

structure SHeap where
  next : Nat → Nat

def SHeap.set (h : SHeap) (a v : Nat) : SHeap := { next := fun x => if x = a then v else h.next x }

def slistInit (h : SHeap) (head : Nat) : SHeap := h.set head head
/-- `slist_add(link, head)` / `igris::slist::add_first` -/
def slistAdd (h : SHeap) (link head : Nat) : SHeap := (h.set link (h.next head)).set head link
/-- `slist_pop_first(head)`: returns the node (none = NULL) -/
def slistPopFirst (h : SHeap) (head : Nat) : SHeap × Option Nat :=
  let ret := h.next head
  if ret = head then (h, none) else (h.set head (h.next ret), some ret)
def swalk (h : SHeap) (head : Nat) : Nat → Nat → List Nat
  | 0, _ => []
  | fuel + 1, pos => if pos = head then [] else pos :: swalk h head fuel (h.next pos)
def slistToList (h : SHeap) (fuel head : Nat) : List Nat := swalk h head fuel (h.next head)
/-- `slist_empty(head)` / `igris::slist::empty()` -/
def slistEmpty (h : SHeap) (head : Nat) : Bool := h.next head == head
/-- `slist_size(head)`: counts the nodes `slist_for_each` visits -/
def slistSize (h : SHeap) (fuel head : Nat) : Nat := (slistToList h fuel head).length
/-- `slist_in(head, finded)`: is `finded` among the nodes `slist_for_each` visits -/
def slistIn (h : SHeap) (fuel head fnd : Nat) : Bool := (slistToList h fuel head).contains fnd
/-- `igris::slist::move_front(obj)` after `fix: slist::move_front unlinks the
node from this list first`: find the predecessor in this list, unlink, add first -/
def slistUnlinkFrom (h : SHeap) (head n : Nat) : Nat → Nat → SHeap
  | 0, _ => h
  | fuel + 1, p => if h.next p = head then h
                   else if h.next p = n then h.set p (h.next n)
                   else slistUnlinkFrom h head n fuel (h.next p)
def slistMoveFront (h : SHeap) (fuel n head : Nat) : SHeap :=
  slistAdd (slistUnlinkFrom h head n fuel head) n head

/-! ### the `int` counters of `dlist_size`, `dlist_size_reversed`, `slist_size`

`int i = 0; …_for_each(it, head) { i++; } return i;` — the counter is a 32-bit two's-complement
`int`; `i++` beyond INT_MAX is undefined in C (here it wraps, as with `-fwrapv`).  The C++
`circular_size` counts in `size_t` (64 bits: more nodes than fit into the address space). -/

def countInt (visited : List Nat) : BitVec 32 := visited.foldl (fun i _ => i + 1) 0
/-- the value `dlist_size(head)` returns -/
def dlistSizeC (h : Heap) (fuel head : Nat) : Int := (countInt (dlistToList h fuel head)).toInt
def dlistSizeReversedC (h : Heap) (fuel head : Nat) : Int := (countInt (dlistToListRev h fuel head)).toInt
/-- the value `slist_size(head)` returns -/
def slistSizeC (h : SHeap) (fuel head : Nat) : Int := (countInt (slistToList h fuel head)).toInt

/-! ### hlist (igris/datastruct/hlist.h) -/

/-- where a `struct hlist_node **pprev` can point -/
inductive Loc
  | headFirst (l : Nat)   -- &head->first
  | nodeNext (n : Nat)    -- &node->next
deriving DecidableEq, Repr

structure HHeap where
  first : Nat → Option Nat          -- hlist_head.first  (none = NULL)
  next : Nat → Option Nat           -- hlist_node.next
  pprev : Nat → Option Loc          -- hlist_node.pprev (none = NULL)

def HHeap.read (h : HHeap) : Loc → Option Nat
  | .headFirst l => h.first l
  | .nodeNext n => h.next n
def HHeap.write (h : HHeap) (loc : Loc) (v : Option Nat) : HHeap :=
  match loc with
  | .headFirst l => { h with first := fun x => if x = l then v else h.first x }
  | .nodeNext n => { h with next := fun x => if x = n then v else h.next x }
def HHeap.setPprev (h : HHeap) (n : Nat) (v : Option Loc) : HHeap :=
  { h with pprev := fun x => if x = n then v else h.pprev x }

def hlistHeadInit (h : HHeap) (l : Nat) : HHeap := h.write (.headFirst l) none
def hlistNodeInit (h : HHeap) (n : Nat) : HHeap := h.setPprev n none

/-- `hlist_add_next(list, hnext)` -/
def hlistAddNext (h : HHeap) (n : Nat) (hnext : Loc) : HHeap :=
  let h := h.setPprev n (some hnext)
  let h := h.write (.nodeNext n) (h.read hnext)
  let h := match h.next n with
    | some nx => h.setPprev nx (some (.nodeNext n))
    | none => h
  h.write hnext (some n)

/-- `hlist_del(list)` -/
def hlistDel (h : HHeap) (n : Nat) : HHeap :=
  match h.pprev n with
  | none => h
  | some pp =>
    let h := match h.next n with
      | some nx => h.setPprev nx (some pp)
      | none => h
    h.write pp (h.next n)

def hwalk (h : HHeap) : Nat → Option Nat → List Nat
  | 0, _ => []
  | _, none => []
  | fuel + 1, some p => p :: hwalk h fuel (h.next p)
def hlistToList (h : HHeap) (fuel l : Nat) : List Nat := hwalk h fuel (h.first l)

/-! ### container_of arithmetic (igris/util/member.h, memberxx.h)

`mcast_out(member_ptr, type, member)` = `(type *)((char *)(member_ptr) - member_offsetof(type, member))`,
`member_container(ptr, member)` = `(Type *)((char *)ptr - member_offset(member))`,
`mcast_in(struct_ptr, member)` / `&(obj.*member)` = object address + offset.
Addresses are 64-bit machine words (the subtraction wraps). -/

abbrev Addr := BitVec 64

/-- `mcast_out` / `member_container` / `dlist_entry` / `slist_entry` / `hlist_entry` -/
def mcastOut (p off : Addr) : Addr := p - off
/-- `mcast_in` / `&(obj.*member)` / `&pos->member` -/
def mcastIn (e off : Addr) : Addr := e + off

/-- the link field read through a machine address -/
def Heap.nextA (h : Heap) (p : Addr) : Addr := BitVec.ofNat 64 (h.next p.toNat)
def Heap.prevA (h : Heap) (p : Addr) : Addr := BitVec.ofNat 64 (h.prev p.toNat)

/-- `dlist_first_entry(ptr, type, member)` = `dlist_entry((ptr)->next, type, member)` -/
def dlistFirstEntry (h : Heap) (head off : Addr) : Addr := mcastOut (h.nextA head) off
/-- `dlist_last_entry(ptr, type, member)` = `dlist_entry((ptr)->prev, type, member)` -/
def dlistLastEntry (h : Heap) (head off : Addr) : Addr := mcastOut (h.prevA head) off
/-- `dlist_next_entry(pos, member)` = `dlist_entry((pos)->member.next, typeof(*pos), member)` -/
def dlistNextEntry (h : Heap) (pos off : Addr) : Addr := mcastOut (h.nextA (mcastIn pos off)) off
/-- `dlist_prev_entry(pos, member)` -/
def dlistPrevEntry (h : Heap) (pos off : Addr) : Addr := mcastOut (h.prevA (mcastIn pos off)) off

/-- `dlist_for_each_entry(pos, head, member)`:
`for (pos = first_entry(head); &pos->member != (head); pos = next_entry(pos))` — the objects visited -/
def walkEntry (h : Heap) (head off : Addr) : Nat → Addr → List Addr
  | 0, _ => []
  | fuel + 1, pos => if mcastIn pos off = head then [] else pos :: walkEntry h head off fuel (dlistNextEntry h pos off)
def dlistForEachEntry (h : Heap) (fuel : Nat) (head off : Addr) : List Addr :=
  walkEntry h head off fuel (dlistFirstEntry h head off)

/-- `dlist_for_each_entry_reverse(pos, head, member)` -/
def walkEntryRev (h : Heap) (head off : Addr) : Nat → Addr → List Addr
  | 0, _ => []
  | fuel + 1, pos => if mcastIn pos off = head then [] else pos :: walkEntryRev h head off fuel (dlistPrevEntry h pos off)
def dlistForEachEntryReverse (h : Heap) (fuel : Nat) (head off : Addr) : List Addr :=
  walkEntryRev h head off fuel (dlistLastEntry h head off)

/-! ### `hlist_for_each_entry(pos, head, member)` (after `fix: hlist_for_each_entry … mcast_out_or_null`)

`for (pos = mcast_out_or_null(head->first); pos != 0; pos = mcast_out_or_null(pos->member.next))`.
Pointers are machine words, NULL = 0; a node id IS its address here. -/

/-- a stored `hlist_node *` as a machine word -/
def ptrOf : Option Nat → Addr
  | none => 0
  | some q => BitVec.ofNat 64 q
/-- `mcast_out_or_null(member_ptr, type, member)`: NULL stays NULL -/
def mcastOutOrNull (p off : Addr) : Addr := if p = 0 then 0 else p - off
def hwalkEntry (h : HHeap) (off : Addr) : Nat → Addr → List Addr
  | 0, _ => []
  | fuel + 1, pos => if pos = 0 then [] else
      pos :: hwalkEntry h off fuel (mcastOutOrNull (ptrOf (h.next (mcastIn pos off).toNat)) off)
def hlistForEachEntry (h : HHeap) (fuel l : Nat) (off : Addr) : List Addr :=
  hwalkEntry h off fuel (mcastOutOrNull (ptrOf (h.first l)) off)

/-! ### container_of with a side-effecting argument (the NULL-safe pop idiom)

`mcast_out_or_null(slist_pop_first(&head), T, member)`: `mcast_out_or_null` is a GNU statement
expression that copies its argument into a temporary, `mcast_out` / `mcast_in` mention theirs once —
the argument expression is evaluated EXACTLY ONCE.  That is the contract the operation language
assumes: the macros are functions of an already evaluated pointer (`mcastOut`, `mcastIn`,
`mcastOutOrNull`), so one pop idiom = one pop. -/

/-- `mcast_out_or_null(slist_pop_first(&head), T, member)` -/
def slistPopFirstEntry (h : SHeap) (head : Nat) (off : Addr) : SHeap × Addr :=
  let r := slistPopFirst h head
  (r.1, mcastOutOrNull (ptrOf r.2) off)
/-- pop helper of the dlist idiom: `n = head->next; if (n == head) return NULL; dlist_del_init(n); return n;` -/
def dlistPopFirst (h : Heap) (head : Nat) : Heap × Option Nat :=
  let n := h.next head
  if n = head then (h, none) else (dlistDelInit h n, some n)
/-- pop helper of the hlist idiom: `n = head->first; if (!n) return NULL; hlist_del(n); return n;` -/
def hlistPopFirst (h : HHeap) (l : Nat) : HHeap × Option Nat :=
  match h.first l with
  | none => (h, none)
  | some n => (hlistDel h n, some n)

/-! ### loops whose body may change the list -/

/-- `dlist_for_each_safe(pos, n, head)`:
`for (pos = (head)->next, n = pos->next; pos != (head); pos = n, n = pos->next) body`
(also the C++ pattern `for (it = begin(); it != end();) { cur = it++; body(cur) }`):
returns the final heap and the nodes the body ran on -/
def forEachSafe (body : Heap → Nat → Heap) (head : Nat) : Nat → Heap → Nat → Nat → Heap × List Nat
  | 0, h, _, _ => (h, [])
  | fuel + 1, h, pos, n =>
    if pos = head then (h, []) else
    let h' := body h pos
    let r := forEachSafe body head fuel h' n (h'.next n)
    (r.1, pos :: r.2)
def dlistForEachSafe (body : Heap → Nat → Heap) (h : Heap) (fuel head : Nat) : Heap × List Nat :=
  forEachSafe body head fuel h (h.next head) (h.next (h.next head))

/-- `dlist_for_each_entry_safe(pos, n, head, member)`:
`for (pos = first_entry(head), n = next_entry(pos); &pos->member != (head); pos = n, n = next_entry(n)) body` -/
def forEachEntrySafe (body : Heap → Addr → Heap) (head off : Addr) : Nat → Heap → Addr → Addr → Heap × List Addr
  | 0, h, _, _ => (h, [])
  | fuel + 1, h, pos, n =>
    if mcastIn pos off = head then (h, []) else
    let h' := body h pos
    let r := forEachEntrySafe body head off fuel h' n (dlistNextEntry h' n off)
    (r.1, pos :: r.2)
def dlistForEachEntrySafe (body : Heap → Addr → Heap) (h : Heap) (fuel : Nat) (head off : Addr) : Heap × List Addr :=
  let pos := dlistFirstEntry h head off
  forEachEntrySafe body head off fuel h pos (dlistNextEntry h pos off)

/-- the plain `dlist_for_each(pos, head) body`: `pos = pos->next` is read AFTER the body ran -/
def forEachUnsafe (body : Heap → Nat → Heap) (head : Nat) : Nat → Heap → Nat → Heap × List Nat
  | 0, h, _ => (h, [])
  | fuel + 1, h, pos =>
    if pos = head then (h, []) else
    let h' := body h pos
    let r := forEachUnsafe body head fuel h' (h'.next pos)
    (r.1, pos :: r.2)

/-! ### typed C++ wrapper `igris::dlist<type, member>` (igris/container/dlist.h:213-444)

An iterator is the address of a `dlist_node` (`current`). -/

def iterBegin (h : Heap) (l : Nat) : Nat := h.next l      -- begin(): iterator(list.next_node())
def iterEnd (_h : Heap) (l : Nat) : Nat := l              -- end(): iterator(&list)
def iterInc (h : Heap) (it : Nat) : Nat := h.next it      -- operator++: current = current->next_node()
def iterDec (h : Heap) (it : Nat) : Nat := h.prev it      -- operator--: current = current->prev_node()
def riterBegin (h : Heap) (l : Nat) : Nat := h.prev l     -- rbegin(): reverse_iterator(list.prev)
def riterInc (h : Heap) (it : Nat) : Nat := h.prev it     -- reverse_iterator::operator++
def riterDec (h : Heap) (it : Nat) : Nat := h.next it     -- reverse_iterator::operator--
/-- `operator*` / `operator->`: `member_container(current, member)` -/
def iterDeref (it off : Addr) : Addr := mcastOut it off
/-- `front()` / `first()` / `first_entry()`, `back()` / `last_entry()` -/
def listFront (h : Heap) (l off : Addr) : Addr := mcastOut (h.nextA l) off
def listBack (h : Heap) (l off : Addr) : Addr := mcastOut (h.prevA l) off
/-- `dlist::pop(obj)`: `(&(obj.*member))->unlink()` -/
def listPop (h : Heap) (obj off : Addr) : Heap := nodeUnlink h (mcastIn obj off).toNat
/-- `dlist::move_next(obj, head_node)` / `move_prev`, `move_front(obj)` / `move_back(obj)` -/
def listMoveNext (h : Heap) (obj off : Addr) (headNode : Nat) : Heap := nodeMoveNextThan h (mcastIn obj off).toNat headNode
def listMovePrev (h : Heap) (obj off : Addr) (headNode : Nat) : Heap := nodeMovePrevThan h (mcastIn obj off).toNat headNode
/-- `move_next(obj, iterator head)` = `move_next(obj, *head)` = `move_next(obj, &((*head).*member))` -/
def listMoveNextIt (h : Heap) (obj off : Addr) (it : Addr) : Heap :=
  listMoveNext h obj off (mcastIn (iterDeref it off) off).toNat
def listMovePrevIt (h : Heap) (obj off : Addr) (it : Addr) : Heap :=
  listMovePrev h obj off (mcastIn (iterDeref it off) off).toNat
/-- `dlist::round_left()`: `node = list.next; dlist_base::move_back(*node)` (after
`fix: dlist::round_left compiles`) -/
def listRoundLeft (h : Heap) (l : Nat) : Heap := nodeMovePrevThan h (h.next l) l
/-- the erase-while-iterating pattern
`for (it = begin(); it != end();) { cur = it++; if (pred(*cur)) pop(*cur); }` -/
def listEraseIf (del : Nat → Bool) (h : Heap) (fuel l : Nat) : Heap × List Nat :=
  dlistForEachSafe (fun h pos => if del pos then nodeUnlink h pos else h) h fuel l

/-! ## Extension round 3

### every macro of igris/util/member.h and igris/util/memberxx.h at pointer level

Addresses are 64-bit machine words, NULL = 0, a member is its byte offset. -/

/-- `member_offsetof(type, member)` = `(size_t) &((type *)0x0)->member`, `member_offset(&T::m)` =
`(uintptr_t) &(((Type *)0)->*member)`: the member of the object at address 0 -/
def memberOffsetof (off : Addr) : Addr := mcastIn 0 off
/-- `mcast_in_or_null(struct_ptr, member)`: `p ? &p->member : NULL` -/
def mcastInOrNull (e off : Addr) : Addr := if e = 0 then 0 else e + off
/-- `member_container(ptr, member)`: `(Type *)((char *)ptr - member_offset(member))` -/
def memberContainer (p off : Addr) : Addr := p - memberOffsetof off
/-- `member_sizeof(type, member)` / `sizeof(member_typeof(type, member))` for the members the lists use:
a `dlist_head` / `dlist_node` / `hlist_node` is two pointers, a `slist_head` / `hlist_head` one pointer,
an `int` key four bytes (LP64) -/
def PTR_BYTES : Nat := 8
def INT_BYTES : Nat := 4
def DLIST_HEAD_BYTES : Nat := 2 * PTR_BYTES
def SLIST_HEAD_BYTES : Nat := PTR_BYTES
def HLIST_NODE_BYTES : Nat := 2 * PTR_BYTES
def HLIST_HEAD_BYTES : Nat := PTR_BYTES
/-- bits of the `int` counter of `dlist_size` / `slist_size` (`countInt : BitVec 32`), of the `size_t`
counter of `circular_size` and of a pointer (`Addr`) -/
def INT_BITS : Nat := 32
def SIZE_T_BITS : Nat := 64
/-- the step bound `dlist_is_correct` passes to `dlist_check` -/
def IS_CORRECT_BOUND : Nat := 1000

/-- the link field of an slist node read through a machine address -/
def SHeap.nextA (h : SHeap) (p : Addr) : Addr := BitVec.ofNat 64 (h.next p.toNat)
/-- `slist_first_entry(ptr, type, member)` = `slist_entry((ptr)->next, type, member)` -/
def slistFirstEntry (h : SHeap) (head off : Addr) : Addr := mcastOut (h.nextA head) off
/-- `slist_next_entry(pos, member)` = `slist_entry((pos)->member.next, typeof(*pos), member)` -/
def slistNextEntry (h : SHeap) (pos off : Addr) : Addr := mcastOut (h.nextA (mcastIn pos off)) off
/-- `hlist_first_entry(head, type, member)` = `hlist_entry((head)->first, type, member)` (plain `mcast_out`:
NOT NULL-safe — on an empty list the result is `0 - off`) -/
def hlistFirstEntry (h : HHeap) (l : Nat) (off : Addr) : Addr := mcastOut (ptrOf (h.first l)) off
/-- `hlist_next_entry(pos, member)` = `hlist_entry((pos)->member.next, typeof(*pos), member)` -/
def hlistNextEntry (h : HHeap) (pos off : Addr) : Addr := mcastOut (ptrOf (h.next (mcastIn pos off).toNat)) off

/-! ### the counting loops as the C code writes them (tail recursive: `for (it = head->next; it != head;
it = it->next) ++sz;` with the `int` counter as the loop state) -/

def dlistSizeLoop (h : Heap) (head : Nat) : Nat → Nat → BitVec 32 → BitVec 32
  | 0, _, sz => sz
  | fuel + 1, pos, sz => if pos = head then sz else dlistSizeLoop h head fuel (h.next pos) (sz + 1)
def dlistSizeRevLoop (h : Heap) (head : Nat) : Nat → Nat → BitVec 32 → BitVec 32
  | 0, _, sz => sz
  | fuel + 1, pos, sz => if pos = head then sz else dlistSizeRevLoop h head fuel (h.prev pos) (sz + 1)
/-- `dlist_size(head)` as its loop -/
def dlistSizeL (h : Heap) (fuel head : Nat) : Int := (dlistSizeLoop h head fuel (h.next head) 0).toInt
/-- `dlist_size_reversed(head)` as its loop -/
def dlistSizeReversedL (h : Heap) (fuel head : Nat) : Int := (dlistSizeRevLoop h head fuel (h.prev head) 0).toInt
/-- `dlist_in(fnd, head)`: `dlist_for_each(it, head) if (it == fnd) return 1; return 0;` -/
def dlistInLoop (h : Heap) (fnd head : Nat) : Nat → Nat → Bool
  | 0, _ => false
  | fuel + 1, pos => if pos = head then false else if pos = fnd then true else dlistInLoop h fnd head fuel (h.next pos)
def dlistInL (h : Heap) (fuel fnd head : Nat) : Bool := dlistInLoop h fnd head fuel (h.next head)
/-- `slist_size(head)` as its loop -/
def slistSizeLoop (h : SHeap) (head : Nat) : Nat → Nat → BitVec 32 → BitVec 32
  | 0, _, sz => sz
  | fuel + 1, pos, sz => if pos = head then sz else slistSizeLoop h head fuel (h.next pos) (sz + 1)
def slistSizeL (h : SHeap) (fuel head : Nat) : Int := (slistSizeLoop h head fuel (h.next head) 0).toInt
/-- `circular_size()` with its `size_t` counter: `do { ++sz; n = n->next; } while (n != this)` -/
def circSizeLoop (h : Heap) (a : Nat) : Nat → Nat → BitVec 64 → BitVec 64
  | 0, _, sz => sz
  | fuel + 1, n, sz => let n' := h.next n; if n' = a then sz + 1 else circSizeLoop h a fuel n' (sz + 1)

/-- the ring `0 → 1 → … → n-1 → 0` in closed form (what `reset r n` builds with `dlist_add_prev(i, 0)`:
theorem `ringHeap_is_ring`); used for long rings, where a heap of nested updates is too slow to run -/
def ringHeap (n : Nat) : Heap :=
  ⟨fun x => if x < n then (if x + 1 < n then x + 1 else 0) else x,
   fun x => if x < n then (if x = 0 then n - 1 else x - 1) else x⟩

/-- the wrap-around comparator the timers use on 8-bit tick counters: `(int8_t)(a - b) < 0` -/
def wrapLess8 (a b : BitVec 8) : Bool := (a - b).toInt < 0

/-! ### round 3b: `dlist_is_correct` / `igris::dlist::is_correct()` after the repair (one walk that tests
`it->next->prev == it`).  `dlistIsCorrect` above is the function as it was (two step counts compared): its
theorems stay as the record of what the old code did. -/

/-- the loop of the repaired `dlist_is_correct`: `count` iterations left, `it` the current node -/
def isCorrectWalk (h : Heap) (head : Nat) : Nat → Nat → Bool
  | 0, _ => false
  | count + 1, it =>
    let nx := h.next it
    if h.prev nx != it then false
    else if nx == head then true
    else isCorrectWalk h head count nx

/-- `dlist_is_correct(head)`: `int count = 1000; it = head; while (count--) …; return false` -/
def dlistIsCorrectStrict (h : Heap) (head : Nat) : Bool := isCorrectWalk h head IS_CORRECT_BOUND head

/-- `igris::dlist::is_correct()`: the same walk as a `do … while (it != &list)` loop without a bound; `fuel`
is the model's loop bound (any number above the number of nodes of the heap) -/
def cppIsCorrectStrict (h : Heap) (fuel l : Nat) : Bool := isCorrectWalk h l fuel l

end Igris.C01
