/-
  C07 — PROPERTY THEOREMS (statements use only Model.lean and Spec.lean;
  helper lemmas live in Lemmas.lean).

  Property: "Integer <-> text conversion is exact and invertible for every
  value and base.  Every integer of every supported width (8..64 bit, signed
  and unsigned) renders in every base 2..36 to the canonical digit string
  (optional '-', no leading zeros, NUL terminated, returned pointer at the
  terminator), identical to a reference rendering, writing no more than the
  digits need.  Parsing that text in the same base returns the original value,
  accepts letters of either case, stops at the first character that cannot
  continue the number and reports that position.  The libc-style
  itoa/utoa/ltoa/ultoa shims and the debug-print decimal/hex/binary renderers
  emit the same canonical text."

  Reading guide.  A buffer is the list of bytes from `buf` to the end of the
  object; a routine returns `some (memory', offset)` or `none` when it would
  touch a byte outside the list.  "`f v m b = some (text ++ 0 :: m.drop (L+1), L)`
  for every `m` with at least `L + 1` bytes" therefore says at once: the text
  is the canonical one, it is NUL terminated, the returned pointer is the
  terminator, exactly `L + 1` bytes are written (everything behind them is
  unchanged, and a buffer of exactly `L + 1` bytes suffices).
-/
import IgrisModel.C07.Lemmas3b
namespace Igris.C07
open Igris.Proto

/-! ## A. the reference: `digits` is positional notation, and it is canonical -/

/-- the digits denote the number -/
theorem digits_value (b n : Nat) (hb : 2 ≤ b) : ofDigits b (digits b n) = n := ofDigits_digits hb n

/-- every digit is below the base -/
theorem digits_lt_base (b n : Nat) (hb : 2 ≤ b) : ∀ d ∈ digits b n, d < b := digits_lt hb n

/-- no leading zero: zero is the single digit 0, every other number starts with a non-zero digit -/
theorem digits_no_leading_zero (b n : Nat) (hb : 2 ≤ b) :
    (n = 0 → digits b n = [0]) ∧ (n ≠ 0 → (digits b n).head? ≠ some 0) := by
  refine ⟨fun h => by subst h; simp [digits, lsd_small (show 0 < b by omega)], fun hn => ?_⟩
  have h := lsd_getLast_ne_zero hb n hn
  rw [digits, List.head?_reverse, List.getLast?_eq_some_getLast (lsd_ne_nil b n)]
  intro hc
  exact h (Option.some.inj hc)

/-- canonical = unique: ANY digit string without a leading zero that denotes `n` is `digits b n` -/
theorem digits_unique (b : Nat) (hb : 2 ≤ b) (ds : List Nat) (hne : ds ≠ []) (hlt : ∀ d ∈ ds, d < b)
    (hlead : ds = [0] ∨ ds.head? ≠ some 0) : digits b (ofDigits b ds) = ds := by
  have hr : ds.reverse ≠ [] := by simpa using hne
  have h1 : ofDigits b ds = ofLsd b ds.reverse := by
    have := ofDigits_reverse b ds.reverse; rwa [List.reverse_reverse] at this
  have hcond : ds.reverse = [0] ∨ ds.reverse.getLast hr ≠ 0 := by
    rcases hlead with h | h
    · left; simp [h]
    · right
      intro hc
      apply h
      rw [List.getLast_reverse] at hc
      rw [List.head?_eq_some_head hne, hc]
  rw [digits, h1, lsd_ofLsd hb ds.reverse hr (fun d hd => hlt d (by simpa using hd)) hcond, List.reverse_reverse]

/-- a 64-bit magnitude has at most 64 digits in any base ≥ 2: the text of any supported
    value, with sign and terminator, fits 66 bytes -/
theorem digits_length_le_64 (b n : Nat) (hb : 2 ≤ b) (hn : n < 2 ^ 64) : (digits b n).length ≤ 64 := by
  have := lsd_length_le hb 64 n hn
  simpa [digits] using this

theorem canonInt_bytes_le_66 (up : Bool) (b : Nat) (hb : 2 ≤ b) (v : Int) (hv : v.natAbs < 2 ^ 64) :
    (canonInt up b v).length + 1 ≤ 66 := by
  have := digits_length_le_64 b v.natAbs hb hv
  by_cases h : v < 0
  · rw [canonInt_length_neg _ _ _ h]; omega
  · rw [canonInt_length_nonneg _ _ _ h]; omega

/-! ## B. rendering (`toa_canonical`): every width, signedness, value and base 2..36 -/

/-- igris_i64toa: lower-case canonical text of the signed value, NUL terminated, returned
    offset at the terminator, exactly `length + 1` bytes written -/
theorem i64toa_canonical (num : BitVec 64) (base : BitVec 8) (hb : 2 ≤ base.toNat ∧ base.toNat ≤ 36)
    (m : List Byte) (hm : (canonInt false base.toNat num.toInt).length + 1 ≤ m.length) :
    i64toa num m base
      = some (canonInt false base.toNat num.toInt ++ 0#8 :: m.drop ((canonInt false base.toNat num.toInt).length + 1),
              (canonInt false base.toNat num.toInt).length) :=
  i64toa_spec num base hb.1 hb.2 m hm

theorem i32toa_canonical (num : BitVec 32) (base : BitVec 8) (hb : 2 ≤ base.toNat ∧ base.toNat ≤ 36)
    (m : List Byte) (hm : (canonInt false base.toNat num.toInt).length + 1 ≤ m.length) :
    i32toa num m base
      = some (canonInt false base.toNat num.toInt ++ 0#8 :: m.drop ((canonInt false base.toNat num.toInt).length + 1),
              (canonInt false base.toNat num.toInt).length) := by
  have e : (num.signExtend 64).toInt = num.toInt := BitVec.toInt_signExtend_of_le (by omega)
  have := i64toa_spec (num.signExtend 64) base hb.1 hb.2 m (by rw [e]; exact hm)
  rw [e] at this; exact this

theorem i16toa_canonical (num : BitVec 16) (base : BitVec 8) (hb : 2 ≤ base.toNat ∧ base.toNat ≤ 36)
    (m : List Byte) (hm : (canonInt false base.toNat num.toInt).length + 1 ≤ m.length) :
    i16toa num m base
      = some (canonInt false base.toNat num.toInt ++ 0#8 :: m.drop ((canonInt false base.toNat num.toInt).length + 1),
              (canonInt false base.toNat num.toInt).length) := by
  have e : (num.signExtend 64).toInt = num.toInt := BitVec.toInt_signExtend_of_le (by omega)
  have := i64toa_spec (num.signExtend 64) base hb.1 hb.2 m (by rw [e]; exact hm)
  rw [e] at this; exact this

theorem i8toa_canonical (num : BitVec 8) (base : BitVec 8) (hb : 2 ≤ base.toNat ∧ base.toNat ≤ 36)
    (m : List Byte) (hm : (canonInt false base.toNat num.toInt).length + 1 ≤ m.length) :
    i8toa num m base
      = some (canonInt false base.toNat num.toInt ++ 0#8 :: m.drop ((canonInt false base.toNat num.toInt).length + 1),
              (canonInt false base.toNat num.toInt).length) := by
  have e : (num.signExtend 64).toInt = num.toInt := BitVec.toInt_signExtend_of_le (by omega)
  have := i64toa_spec (num.signExtend 64) base hb.1 hb.2 m (by rw [e]; exact hm)
  rw [e] at this; exact this

/-- igris_u64toa: UPPER-case canonical text of the unsigned value -/
theorem u64toa_canonical (num : BitVec 64) (base : BitVec 8) (hb : 2 ≤ base.toNat ∧ base.toNat ≤ 36)
    (m : List Byte) (hm : (canonNat true base.toNat num.toNat).length + 1 ≤ m.length) :
    u64toa num m base
      = some (canonNat true base.toNat num.toNat ++ 0#8 :: m.drop ((canonNat true base.toNat num.toNat).length + 1),
              (canonNat true base.toNat num.toNat).length) :=
  u64toa_spec num base hb.1 hb.2 m hm

theorem u32toa_canonical (num : BitVec 32) (base : BitVec 8) (hb : 2 ≤ base.toNat ∧ base.toNat ≤ 36)
    (m : List Byte) (hm : (canonNat true base.toNat num.toNat).length + 1 ≤ m.length) :
    u32toa num m base
      = some (canonNat true base.toNat num.toNat ++ 0#8 :: m.drop ((canonNat true base.toNat num.toNat).length + 1),
              (canonNat true base.toNat num.toNat).length) := by
  have e : (num.zeroExtend 64).toNat = num.toNat := by
    simp [BitVec.zeroExtend_eq_setWidth]; have := num.isLt; omega
  have := u64toa_spec (num.zeroExtend 64) base hb.1 hb.2 m (by rw [e]; exact hm)
  rw [e] at this; exact this

theorem u16toa_canonical (num : BitVec 16) (base : BitVec 8) (hb : 2 ≤ base.toNat ∧ base.toNat ≤ 36)
    (m : List Byte) (hm : (canonNat true base.toNat num.toNat).length + 1 ≤ m.length) :
    u16toa num m base
      = some (canonNat true base.toNat num.toNat ++ 0#8 :: m.drop ((canonNat true base.toNat num.toNat).length + 1),
              (canonNat true base.toNat num.toNat).length) := by
  have e : (num.zeroExtend 64).toNat = num.toNat := by
    simp [BitVec.zeroExtend_eq_setWidth]; have := num.isLt; omega
  have := u64toa_spec (num.zeroExtend 64) base hb.1 hb.2 m (by rw [e]; exact hm)
  rw [e] at this; exact this

theorem u8toa_canonical (num : BitVec 8) (base : BitVec 8) (hb : 2 ≤ base.toNat ∧ base.toNat ≤ 36)
    (m : List Byte) (hm : (canonNat true base.toNat num.toNat).length + 1 ≤ m.length) :
    u8toa num m base
      = some (canonNat true base.toNat num.toNat ++ 0#8 :: m.drop ((canonNat true base.toNat num.toNat).length + 1),
              (canonNat true base.toNat num.toNat).length) := by
  have e : (num.zeroExtend 64).toNat = num.toNat := by
    simp [BitVec.zeroExtend_eq_setWidth]; have := num.isLt; omega
  have := u64toa_spec (num.zeroExtend 64) base hb.1 hb.2 m (by rw [e]; exact hm)
  rw [e] at this; exact this

/-- ... and all of them are needed: `length + 1` is exactly the number of bytes the routine
    touches — with a buffer one byte shorter (or less) it runs outside the object -/
theorem toa_needs_every_byte (num : BitVec 64) (base : BitVec 8) (hb : 2 ≤ base.toNat ∧ base.toNat ≤ 36)
    (m : List Byte) :
    (m.length ≤ (canonInt false base.toNat num.toInt).length → i64toa num m base = none) ∧
    (m.length ≤ (canonNat true base.toNat num.toNat).length → u64toa num m base = none) :=
  ⟨i64toa_short num base hb.1 hb.2 m, u64toa_short num base hb.1 hb.2 m⟩

/-- never more than 66 bytes (sign + 64 binary digits + NUL), whatever the value and base -/
theorem i64toa_bytes_le_66 (num : BitVec 64) (base : BitVec 8) (hb : 2 ≤ base.toNat) :
    (canonInt false base.toNat num.toInt).length + 1 ≤ 66 :=
  canonInt_bytes_le_66 false base.toNat hb num.toInt (natAbs_lt64 num)

/-- a base outside 2..36: the empty string, returned pointer = buf (what the code does) -/
theorem toa_base_out_of_range (num : BitVec 64) (base : BitVec 8) (h : base.toNat < 2 ∨ base.toNat > 36)
    (x : Byte) (rest : List Byte) :
    i64toa num (x :: rest) base = some (0#8 :: rest, 0) ∧ u64toa num (x :: rest) base = some (0#8 :: rest, 0) :=
  ⟨i64toa_badbase num base h x rest, u64toa_badbase num base h x rest⟩

-- the hypotheses are satisfiable, and the theorems compute what one expects
example : canonInt false 10 (-42) = [0x2D#8, 0x34#8, 0x32#8] := by
  simp [canonInt, canonNat, digits, lsd]; decide
example : i64toa (BitVec.ofInt 64 (-42)) (List.replicate 4 0xA5#8) 10#8 = some ([0x2D#8, 0x34#8, 0x32#8, 0#8], 3) := by decide
example : u64toa 255#64 (List.replicate 3 0xA5#8) 16#8 = some ([0x46#8, 0x46#8, 0#8], 2) := by decide
-- a buffer one byte short faults (the NUL is really written)
example : i64toa (BitVec.ofInt 64 (-42)) (List.replicate 3 0xA5#8) 10#8 = none := by decide

/-! ## C. parsing (`ato_inverse`) -/

/-- Letters of either case: both characters of a digit have its value. -/
theorem digit_either_case (d : Nat) (hd : d < 36) :
    digitValue (digitChar true d) = d ∧ digitValue (digitChar false d) = d :=
  ⟨digitValue_digitChar d hd true, digitValue_digitChar d hd false⟩

/-- The characters accepted in base `b ≤ 36` are EXACTLY the digits of that base
    (in either case): nothing else continues a number. -/
theorem accepted_iff_digit_of_base (c : Byte) (b : Nat) (hb : b ≤ 36) :
    digitValue c < b ↔ ∃ d, d < b ∧ (c = digitChar true d ∨ c = digitChar false d) := by
  constructor
  · intro h
    rcases digitValue_classify c with h255 | ⟨_, hc⟩
    · omega
    · exact ⟨digitValue c, h, hc⟩
  · rintro ⟨d, hd, rfl | rfl⟩
    · rw [digitValue_digitChar d (by omega) true]; exact hd
    · rw [digitValue_digitChar d (by omega) false]; exact hd

/-- igris_atou64 on ANY digit string: a run `chars` of characters that are digits of the
    base, followed by a character `t` that is not (any terminator, the NUL included), then
    anything.  The value is the positional value of the digits modulo 2^64, `*end` is the
    offset of `t`: parsing stops at the first character that cannot continue the number and
    reports that position. -/
theorem atou64_digit_string (base : BitVec 8) (chars : List Byte) (t : Byte) (rest : List Byte)
    (h : ∀ c ∈ chars, digitValue c < base.toNat) (ht : ¬ digitValue t < base.toNat) :
    atou64 (chars ++ t :: rest) 0 base
      = some (BitVec.ofNat 64 (ofDigits base.toNat (chars.map digitValue)), chars.length) := by
  simp [atou64, atouLoop_parse _ _ chars t rest 0 h ht, ofNat_mod 64]

theorem atou32_digit_string (base : BitVec 8) (chars : List Byte) (t : Byte) (rest : List Byte)
    (h : ∀ c ∈ chars, digitValue c < base.toNat) (ht : ¬ digitValue t < base.toNat) :
    atou32 (chars ++ t :: rest) 0 base
      = some (BitVec.ofNat 32 (ofDigits base.toNat (chars.map digitValue)), chars.length) := by
  simp [atou32, atouLoop_parse _ _ chars t rest 0 h ht, ofNat_mod 32]

/-- the 8- and 16-bit parsers return the 32-bit result narrowed: the positional value modulo 2^8 / 2^16 -/
theorem atou16_atou8_digit_string (base : BitVec 8) (chars : List Byte) (t : Byte) (rest : List Byte)
    (h : ∀ c ∈ chars, digitValue c < base.toNat) (ht : ¬ digitValue t < base.toNat) :
    atou16 (chars ++ t :: rest) 0 base
      = some (BitVec.ofNat 16 (ofDigits base.toNat (chars.map digitValue)), chars.length) ∧
    atou8 (chars ++ t :: rest) 0 base
      = some (BitVec.ofNat 8 (ofDigits base.toNat (chars.map digitValue)), chars.length) := by
  simp [atou16, atou8, atou32_digit_string base chars t rest h ht, BitVec.truncate_eq_setWidth,
    BitVec.setWidth_ofNat_of_le]

/-- without a leading `'-'` the signed parsers are the unsigned ones (value reinterpreted) -/
theorem atoi_without_sign (base : BitVec 8) (m : List Byte) (c : Byte) (h0 : m[0]? = some c) (hc : c ≠ 0x2D#8) :
    atoi64 m base = atou64 m 0 base ∧ atoi32 m base = atou32 m 0 base := by
  have : (c == 0x2D#8) = false := by simpa using hc
  constructor
  · simp only [atoi64, h0, this, Bool.false_eq_true, if_false]
    cases atou64 m 0 base <;> simp
  · simp only [atoi32, h0, this, Bool.false_eq_true, if_false]
    cases atou32 m 0 base <;> simp

/-- the NUL terminates a number in every base (`uint8_t base` ≤ 255 = digit_value('\0')) -/
theorem nul_stops (base : BitVec 8) : ¬ digitValue 0#8 < base.toNat := by
  rw [digitValue_nul]; have := base.isLt; omega

/-- signed parsers: a leading `'-'` negates (in the unsigned type: wraps, never traps);
    `*end` counts the sign -/
theorem atoi64_digit_string (base : BitVec 8) (chars : List Byte) (t : Byte) (rest : List Byte)
    (h : ∀ c ∈ chars, digitValue c < base.toNat) (ht : ¬ digitValue t < base.toNat) :
    atoi64 (0x2D#8 :: chars ++ t :: rest) base
      = some (-(BitVec.ofNat 64 (ofDigits base.toNat (chars.map digitValue))), chars.length + 1) := by
  have : (0x2D#8 == 0x2D#8) = true := by decide
  simp only [atoi64, List.cons_append, List.getElem?_cons_zero, this, if_true, atou64, List.drop_succ_cons,
    List.drop_zero]
  rw [atouLoop_parse _ _ chars t rest 1 h ht]
  simp [ofNat_mod 64, Nat.add_comm]

theorem atoi32_digit_string (base : BitVec 8) (chars : List Byte) (t : Byte) (rest : List Byte)
    (h : ∀ c ∈ chars, digitValue c < base.toNat) (ht : ¬ digitValue t < base.toNat) :
    atoi32 (0x2D#8 :: chars ++ t :: rest) base
      = some (-(BitVec.ofNat 32 (ofDigits base.toNat (chars.map digitValue))), chars.length + 1) := by
  have : (0x2D#8 == 0x2D#8) = true := by decide
  simp only [atoi32, List.cons_append, List.getElem?_cons_zero, this, if_true, atou32, List.drop_succ_cons,
    List.drop_zero]
  rw [atouLoop_parse _ _ chars t rest 1 h ht]
  simp [ofNat_mod 32, Nat.add_comm]

/-! Round trips: parsing what `*toa` wrote, in the same base, returns the value, and `*end`
    is the offset `*toa` returned (the terminator).  Stated on the memory the renderer
    leaves behind, for every width. -/

theorem ato_inverse_i64 (v : BitVec 64) (base : BitVec 8) (hb : 2 ≤ base.toNat ∧ base.toNat ≤ 36)
    (m : List Byte) (hm : (canonInt false base.toNat v.toInt).length + 1 ≤ m.length) :
    ∃ m' e, i64toa v m base = some (m', e) ∧ atoi64 m' base = some (v, e) :=
  ⟨_, _, i64toa_canonical v base hb m hm, by rw [atoi64_canon base hb.1 hb.2, BitVec.ofInt_toInt]⟩

theorem ato_inverse_i32 (v : BitVec 32) (base : BitVec 8) (hb : 2 ≤ base.toNat ∧ base.toNat ≤ 36)
    (m : List Byte) (hm : (canonInt false base.toNat v.toInt).length + 1 ≤ m.length) :
    ∃ m' e, i32toa v m base = some (m', e) ∧ atoi32 m' base = some (v, e) :=
  ⟨_, _, i32toa_canonical v base hb m hm, by rw [atoi32_canon base hb.1 hb.2, BitVec.ofInt_toInt]⟩

theorem ato_inverse_i16 (v : BitVec 16) (base : BitVec 8) (hb : 2 ≤ base.toNat ∧ base.toNat ≤ 36)
    (m : List Byte) (hm : (canonInt false base.toNat v.toInt).length + 1 ≤ m.length) :
    ∃ m' e, i16toa v m base = some (m', e) ∧ atoi16 m' base = some (v, e) :=
  ⟨_, _, i16toa_canonical v base hb m hm, by
    simp [atoi16, atoi32_canon base hb.1 hb.2, BitVec.truncate_eq_setWidth, setWidth_ofInt16, BitVec.ofInt_toInt]⟩

theorem ato_inverse_i8 (v : BitVec 8) (base : BitVec 8) (hb : 2 ≤ base.toNat ∧ base.toNat ≤ 36)
    (m : List Byte) (hm : (canonInt false base.toNat v.toInt).length + 1 ≤ m.length) :
    ∃ m' e, i8toa v m base = some (m', e) ∧ atoi8 m' base = some (v, e) :=
  ⟨_, _, i8toa_canonical v base hb m hm, by
    simp [atoi8, atoi32_canon base hb.1 hb.2, BitVec.truncate_eq_setWidth, setWidth_ofInt8, BitVec.ofInt_toInt]⟩

theorem ato_inverse_u64 (v : BitVec 64) (base : BitVec 8) (hb : 2 ≤ base.toNat ∧ base.toNat ≤ 36)
    (m : List Byte) (hm : (canonNat true base.toNat v.toNat).length + 1 ≤ m.length) :
    ∃ m' e, u64toa v m base = some (m', e) ∧ atou64 m' 0 base = some (v, e) :=
  ⟨_, _, u64toa_canonical v base hb m hm, by rw [atou64_canon base hb.1 hb.2]; simp⟩

theorem ato_inverse_u32 (v : BitVec 32) (base : BitVec 8) (hb : 2 ≤ base.toNat ∧ base.toNat ≤ 36)
    (m : List Byte) (hm : (canonNat true base.toNat v.toNat).length + 1 ≤ m.length) :
    ∃ m' e, u32toa v m base = some (m', e) ∧ atou32 m' 0 base = some (v, e) :=
  ⟨_, _, u32toa_canonical v base hb m hm, by rw [atou32_canon base hb.1 hb.2]; simp⟩

theorem ato_inverse_u16 (v : BitVec 16) (base : BitVec 8) (hb : 2 ≤ base.toNat ∧ base.toNat ≤ 36)
    (m : List Byte) (hm : (canonNat true base.toNat v.toNat).length + 1 ≤ m.length) :
    ∃ m' e, u16toa v m base = some (m', e) ∧ atou16 m' 0 base = some (v, e) :=
  ⟨_, _, u16toa_canonical v base hb m hm, by
    simp [atou16, atou32_canon base hb.1 hb.2, BitVec.truncate_eq_setWidth, BitVec.setWidth_ofNat_of_le]⟩

theorem ato_inverse_u8 (v : BitVec 8) (base : BitVec 8) (hb : 2 ≤ base.toNat ∧ base.toNat ≤ 36)
    (m : List Byte) (hm : (canonNat true base.toNat v.toNat).length + 1 ≤ m.length) :
    ∃ m' e, u8toa v m base = some (m', e) ∧ atou8 m' 0 base = some (v, e) :=
  ⟨_, _, u8toa_canonical v base hb m hm, by
    simp [atou8, atou32_canon base hb.1 hb.2, BitVec.truncate_eq_setWidth, BitVec.setWidth_ofNat_of_le]⟩

/-- ... and with the case of every letter flipped the text parses to the same value:
    the signed parser reads the UPPER-case text, the unsigned parser the lower-case one -/
theorem ato_inverse_other_case (v : BitVec 64) (base : BitVec 8) (hb : 2 ≤ base.toNat ∧ base.toNat ≤ 36)
    (tail : List Byte) :
    atoi64 (canonInt true base.toNat v.toInt ++ 0#8 :: tail) base = some (v, (canonInt true base.toNat v.toInt).length)
    ∧ atou64 (canonNat false base.toNat v.toNat ++ 0#8 :: tail) 0 base = some (v, (canonNat false base.toNat v.toNat).length) := by
  refine ⟨by rw [atoi64_canon base hb.1 hb.2, BitVec.ofInt_toInt], by rw [atou64_canon base hb.1 hb.2]; simp⟩

-- non-vacuity / sanity: "12ab" in base 10 is 12 with end at 'a'; "7fZ" in base 16 is 0x7f, end 2
example : atou32 [0x31#8, 0x32#8, 0x61#8, 0x62#8, 0#8] 0 10#8 = some (12#32, 2) := by decide
example : atou32 [0x37#8, 0x66#8, 0x5A#8, 0#8] 0 16#8 = some (0x7f#32, 2) := by decide
example : atoi32 [0x2D#8, 0x7A#8, 0#8] 36#8 = some (BitVec.ofInt 32 (-35), 2) := by decide

/-! ## D. the libc-style shims (compat/libc/stdlib/itoa.c) emit the same canonical text

  `base` is an `unsigned short` here; the shims return `buf` (offset 0), write lower-case
  letters, and — after the repair — handle INT_MIN / LONG_MIN like every other value. -/

theorem itoa_canonical (num : BitVec 32) (base : BitVec 16) (hb : 2 ≤ base.toNat ∧ base.toNat ≤ 36)
    (m : List Byte) (hm : (canonInt false base.toNat num.toInt).length + 1 ≤ m.length) :
    itoa num m base
      = some (canonInt false base.toNat num.toInt ++ 0#8 :: m.drop ((canonInt false base.toNat num.toInt).length + 1), 0) :=
  itoa_spec num base hb.1 hb.2 m hm

theorem ltoa_canonical (num : BitVec 64) (base : BitVec 16) (hb : 2 ≤ base.toNat ∧ base.toNat ≤ 36)
    (m : List Byte) (hm : (canonInt false base.toNat num.toInt).length + 1 ≤ m.length) :
    ltoa num m base
      = some (canonInt false base.toNat num.toInt ++ 0#8 :: m.drop ((canonInt false base.toNat num.toInt).length + 1), 0) :=
  ltoa_spec num base hb.1 hb.2 m hm

theorem utoa_canonical (num : BitVec 32) (base : BitVec 16) (hb : 2 ≤ base.toNat ∧ base.toNat ≤ 36)
    (m : List Byte) (hm : (canonNat false base.toNat num.toNat).length + 1 ≤ m.length) :
    utoa num m base
      = some (canonNat false base.toNat num.toNat ++ 0#8 :: m.drop ((canonNat false base.toNat num.toNat).length + 1), 0) :=
  utoa_spec num base hb.1 hb.2 m hm

theorem ultoa_canonical (num : BitVec 64) (base : BitVec 16) (hb : 2 ≤ base.toNat ∧ base.toNat ≤ 36)
    (m : List Byte) (hm : (canonNat false base.toNat num.toNat).length + 1 ≤ m.length) :
    ultoa num m base
      = some (canonNat false base.toNat num.toNat ++ 0#8 :: m.drop ((canonNat false base.toNat num.toNat).length + 1), 0) :=
  ultoa_spec num base hb.1 hb.2 m hm

/-- itoa and igris_i32toa (ltoa and igris_i64toa) leave the same bytes in the buffer -/
theorem itoa_same_text_as_i32toa (num : BitVec 32) (base : BitVec 8) (hb : 2 ≤ base.toNat ∧ base.toNat ≤ 36)
    (m : List Byte) (hm : (canonInt false base.toNat num.toInt).length + 1 ≤ m.length) :
    (itoa num m (base.zeroExtend 16)).map Prod.fst = (i32toa num m base).map Prod.fst := by
  have e : (base.zeroExtend 16).toNat = base.toNat := by
    simp [BitVec.zeroExtend_eq_setWidth]; have := base.isLt; omega
  rw [i32toa_canonical num base hb m hm, itoa_spec num _ (by rw [e]; exact hb.1) (by rw [e]; exact hb.2) m (by rw [e]; exact hm), e]
  rfl

theorem ltoa_same_text_as_i64toa (num : BitVec 64) (base : BitVec 8) (hb : 2 ≤ base.toNat ∧ base.toNat ≤ 36)
    (m : List Byte) (hm : (canonInt false base.toNat num.toInt).length + 1 ≤ m.length) :
    (ltoa num m (base.zeroExtend 16)).map Prod.fst = (i64toa num m base).map Prod.fst := by
  have e : (base.zeroExtend 16).toNat = base.toNat := by
    simp [BitVec.zeroExtend_eq_setWidth]; have := base.isLt; omega
  rw [i64toa_canonical num base hb m hm, ltoa_spec num _ (by rw [e]; exact hb.1) (by rw [e]; exact hb.2) m (by rw [e]; exact hm), e]
  rfl

-- INT_MIN, the value the unrepaired shim mangled (`int ud = -num`)
example : itoa (BitVec.ofInt 32 (-2147483648)) (List.replicate 12 0xA5#8) 10#16
    = some ([0x2D#8, 0x32#8, 0x31#8, 0x34#8, 0x37#8, 0x34#8, 0x38#8, 0x33#8, 0x36#8, 0x34#8, 0x38#8, 0#8], 0) := by decide

/-- atol / atoi (with the LONG_MIN repair of fix-C11) invert ltoa / itoa in base 10:
    the decimal text of every `long`, LONG_MIN included, parses back to it -/
theorem atol_ltoa_inverse (v : BitVec 64) (m : List Byte)
    (hm : (canonInt false 10 v.toInt).length + 1 ≤ m.length) :
    ∃ m', ltoa v m 10#16 = some (m', 0) ∧ atol m' = some v := by
  have h10 : (10#16 : BitVec 16).toNat = 10 := rfl
  have h := ltoa_canonical v 10#16 (by rw [h10]; omega) m (by rw [h10]; exact hm)
  rw [h10] at h
  refine ⟨_, h, ?_⟩
  have h1 := @BitVec.toInt_lt 64 v
  have h2 := BitVec.le_toInt v
  rw [atol_spec v.toInt (by simpa using h2) (by simpa using h1), BitVec.ofInt_toInt]

theorem atoi_itoa_inverse (v : BitVec 32) (m : List Byte)
    (hm : (canonInt false 10 v.toInt).length + 1 ≤ m.length) :
    ∃ m', itoa v m 10#16 = some (m', 0) ∧ atoi m' = some v := by
  have h10 : (10#16 : BitVec 16).toNat = 10 := rfl
  have h := itoa_canonical v 10#16 (by rw [h10]; omega) m (by rw [h10]; exact hm)
  rw [h10] at h
  refine ⟨_, h, ?_⟩
  have h1 := @BitVec.toInt_lt 32 v
  have h2 := BitVec.le_toInt v
  simp at h1 h2
  rw [atoi, atol_spec v.toInt (by omega) (by omega)]
  simp only [Option.map_some, BitVec.truncate_eq_setWidth, setWidth_ofInt64_32, BitVec.ofInt_toInt]

/-! ## E. the debug-print renderers emit the same canonical text

  The result of a printer is the sequence of characters it hands to `debug_putchar`. -/

/-- debug_printdec_uint64 (and the unsigned_* / uint8..32 wrappers, which zero-extend):
    the canonical decimal text; the 24-byte local buffer is never overrun -/
theorem printdec_unsigned_canonical (x : BitVec 64) : printdecU64 x = some (canonNat false 10 x.toNat) :=
  printdecU64_spec x

/-- debug_printdec_signed_long_long (and the signed_* wrappers, which sign-extend): the canonical
    decimal text of the signed value, LLONG_MIN included -/
theorem printdec_signed_canonical (x : BitVec 64) : printdecSLL x = some (canonInt false 10 x.toInt) :=
  printdecSLL_spec x

/-- debug_printdec_* and igris_i64toa / igris_u64toa(base 10) agree character for character -/
theorem printdec_same_text_as_toa (x : BitVec 64) (m : List Byte) (hm : 66 ≤ m.length) :
    (∃ s, printdecSLL x = some s ∧ (i64toa x m 10#8).map (fun r => r.1.take r.2) = some s) ∧
    (∃ s, printdecU64 x = some s ∧ (u64toa x m 10#8).map (fun r => r.1.take r.2) = some s) := by
  have h10 : (10#8 : BitVec 8).toNat = 10 := rfl
  have b1 := i64toa_bytes_le_66 x 10#8 (by rw [h10]; omega)
  have b2 : (canonNat true 10 x.toNat).length + 1 ≤ 66 := by
    have := digits_length_le_64 10 x.toNat (by omega) x.isLt
    rw [canonNat_length]; omega
  rw [h10] at b1
  refine ⟨⟨_, printdecSLL_spec x, ?_⟩, ⟨_, printdecU64_spec x, ?_⟩⟩
  · rw [i64toa_canonical x 10#8 (by rw [h10]; omega) m (by rw [h10]; omega), h10]; simp
  · rw [u64toa_canonical x 10#8 (by rw [h10]; omega) m (by rw [h10]; omega), h10]
    have := canonNat_dec x.toNat
    simp [this]

/-- the hexadecimal printers (`debug_printhex_uint8/16/32/64`, and through `debug_printhex_n`
    the `unsigned_short … signed_long_long` family): the upper-case base-16 digits at the
    full width of the type (`2 * bytes` characters, most significant first) -/
theorem printhex_fixed_width (a16 : BitVec 16) (a32 : BitVec 32) (a64 : BitVec 64) (a8 : Byte) :
    printhexU8 a8 = (fixedDigits 16 2 a8.toNat).map (digitChar true) ∧
    printhexU16 a16 = (fixedDigits 16 4 a16.toNat).map (digitChar true) ∧
    printhexU32 a32 = (fixedDigits 16 8 a32.toNat).map (digitChar true) ∧
    printhexU64 a64 = (fixedDigits 16 16 a64.toNat).map (digitChar true) :=
  ⟨printhexU8_spec a8, printhexBytes_spec 2 a16, printhexBytes_spec 4 a32, printhexBytes_spec 8 a64⟩

/-- the binary printers: the base-2 digits at the full width of the type -/
theorem printbin_fixed_width (a16 : BitVec 16) (a32 : BitVec 32) (a64 : BitVec 64) (a8 : Byte) :
    printbinU8 a8 = (fixedDigits 2 8 a8.toNat).map (digitChar true) ∧
    printbinU16 a16 = (fixedDigits 2 16 a16.toNat).map (digitChar true) ∧
    printbinU32 a32 = (fixedDigits 2 32 a32.toNat).map (digitChar true) ∧
    printbinU64 a64 = (fixedDigits 2 64 a64.toNat).map (digitChar true) :=
  ⟨printbinU8_spec a8, printbinBytes_spec 2 a16, printbinBytes_spec 4 a32, printbinBytes_spec 8 a64⟩

/-- the nibble printers, for the values they are meant for -/
theorem print_nibble (b : Byte) (h : b.toNat < 16) :
    printhexU4 b = (fixedDigits 16 1 b.toNat).map (digitChar true) ∧
    printbinU4 b = (fixedDigits 2 4 b.toNat).map (digitChar true) :=
  ⟨printhexU4_spec b h, printbinU4_spec b h⟩

/-- "fixed width" is the canonical text, zero-padded on the left: the same digits that
    igris_u64toa writes, preceded by as many `0` as the width requires -/
theorem fixed_width_is_padded_canonical (b w n : Nat) (hb : 2 ≤ b) (hn : n < b ^ (w + 1)) :
    (fixedDigits b (w + 1) n).map (digitChar true)
      = List.replicate (w + 1 - (canonNat true b n).length) (digitChar true 0) ++ canonNat true b n := by
  rw [fixedDigits_eq_pad hb w n hn, canonNat_length]
  simp [canonNat]

/-! ## F. vt100_left: `ESC [ <decimal> D`, NUL terminated, returns the length -/

theorem vt100_left_text (arg : BitVec 32) (m : List Byte)
    (hm : (canonInt false 10 arg.toInt).length + 4 ≤ m.length) :
    vt100Left m arg
      = some (0x1B#8 :: 0x5B#8 :: canonInt false 10 arg.toInt ++ 0x44#8 :: 0#8
                :: m.drop ((canonInt false 10 arg.toInt).length + 4),
              (canonInt false 10 arg.toInt).length + 3) :=
  vt100Left_spec arg m hm

/-! ## G. what was false on the unchanged tree (witnesses on models of the ORIGINAL code)

  Every full statement above holds for the code after the `fix:` commits of branch fix-C07.
  The theorems below document, on transcriptions of the original routines (Lemmas.lean,
  "historical"), the inputs on which the statements of section C failed; each was first
  reported by the correspondence oracle (corpus/C07/01-defects-found.ops). -/

/-- `*end = buf - 1`: "123x" in base 10 reported the '3' (offset 2), not the 'x' (offset 3);
    the empty number reported offset -1, one byte before the string -/
theorem atouOrig_end_witness :
    atou32OrigLoop 10 [0x31#8, 0x32#8, 0x33#8, 0x78#8, 0#8] 0 0 = some (123, 2) ∧
    atou32OrigLoop 10 [0#8] 0 0 = some (0, -1) := by decide

/-- any hex digit was accepted in any base: "12ab" in base 10 gave 1663 -/
theorem atouOrig_hex_in_base10_witness :
    atou32OrigLoop 10 [0x31#8, 0x32#8, 0x61#8, 0x62#8, 0#8] 0 0 = some (1663, 3) := by decide

/-- `hex2half('f') = 47`: the text igris_i64toa(255, 16) = "ff" parsed back as 799 -/
theorem atouOrig_lowercase_witness :
    atou32OrigLoop 16 [0x66#8, 0x66#8, 0#8] 0 0 = some (799, 1) ∧ hex2halfOrig 0x61#8 = 42#8 := by decide

/-- letters above 'f' were not digits: base-36 "Z" parsed as 0 -/
theorem atouOrig_base36_witness : atou32OrigLoop 36 [0x5A#8, 0#8] 0 0 = some (0, -1) := by decide

/-- the repaired parser on the same inputs -/
theorem atou_repaired_on_witnesses :
    atou32 [0x31#8, 0x32#8, 0x33#8, 0x78#8, 0#8] 0 10#8 = some (123#32, 3) ∧
    atou32 [0#8] 0 10#8 = some (0#32, 0) ∧
    atou32 [0x31#8, 0x32#8, 0x61#8, 0x62#8, 0#8] 0 10#8 = some (12#32, 2) ∧
    atou32 [0x66#8, 0x66#8, 0#8] 0 16#8 = some (255#32, 2) ∧
    atou32 [0x5A#8, 0#8] 0 36#8 = some (35#32, 1) := by decide

/-
  FULL STATEMENT for atol on the tree of branch fix-C07 alone (atol.c unrepaired there):
      ∀ v : long, atolOrig (text of v ++ NUL) = some v
  is FALSE for v = LONG_MIN: the positive accumulator overflows (undefined behaviour).
  atol.c belongs to C11, which repairs it on branch fix-C11; `atol_ltoa_inverse` above is
  the full statement for that repaired code.  Recorded finding: C07-atol-longmin (probes
  `@F:C07-atol-longmin`); every other value is in the compared stream.
-/
theorem atolOrig_ltoa_inverse_partial (v : BitVec 64) (hv : v ≠ BitVec.ofInt 64 (-9223372036854775808))
    (tail : List Byte) : atolOrig (canonInt false 10 v.toInt ++ 0#8 :: tail) = some v := by
  have h1 := @BitVec.toInt_lt 64 v
  have h2 := BitVec.le_toInt v
  have hne : v.toInt ≠ -9223372036854775808 := fun h => hv (by rw [← h, BitVec.ofInt_toInt])
  simp at h1 h2
  rw [atolOrig_spec v.toInt (by omega) (by omega), BitVec.ofInt_toInt]

-- the excluded value is the only one excluded; the hypothesis is satisfiable
example : (0#64 : BitVec 64) ≠ BitVec.ofInt 64 (-9223372036854775808) := by decide

theorem atolOrig_longmin_witness :
    atolOrig [0x2D#8, 0x39#8, 0x32#8, 0x32#8, 0x33#8, 0x33#8, 0x37#8, 0x32#8, 0x30#8, 0x33#8, 0x36#8, 0x38#8,
              0x35#8, 0x34#8, 0x37#8, 0x37#8, 0x35#8, 0x38#8, 0x30#8, 0x38#8, 0#8] = none ∧
    atol [0x2D#8, 0x39#8, 0x32#8, 0x32#8, 0x33#8, 0x33#8, 0x37#8, 0x32#8, 0x30#8, 0x33#8, 0x36#8, 0x38#8,
          0x35#8, 0x34#8, 0x37#8, 0x37#8, 0x35#8, 0x38#8, 0x30#8, 0x38#8, 0#8] = some (BitVec.ofInt 64 (-9223372036854775808)) := by
  decide


/-! # Extension round 3 -/

/-! ## H. how long the text is, exactly; the buffer every routine needs -/

/-- the number of digits, characterised exactly: at most `k+1` digits iff `n < b^(k+1)` -/
theorem digits_length_le_iff (b k n : Nat) (hb : 2 ≤ b) : (digits b n).length ≤ k + 1 ↔ n < b ^ (k + 1) :=
  digits_length_le_iff' hb k n

/-- exactly `k+1` digits iff `b^k ≤ n < b^(k+1)` (one digit iff `n < b`): every power of the
    base is a length boundary of the text, and there are no others -/
theorem digits_length_eq_iff (b k n : Nat) (hb : 2 ≤ b) :
    (digits b n).length = k + 1 ↔ (k = 0 ∨ b ^ k ≤ n) ∧ n < b ^ (k + 1) :=
  digits_length_eq_iff' hb k n

/-- for a `(w+1)`-bit type the longest text in any base is that of the minimum (signed:
    `-2^w`) and of the maximum (unsigned: `2^(w+1) - 1`) — for ALL values of the type -/
theorem toa_longest_text (w : Nat) (num : BitVec (w + 1)) (b : Nat) (hb : 2 ≤ b) :
    (canonInt false b num.toInt).length ≤ (canonInt false b (-(2 ^ w : Int))).length ∧
    (canonNat true b num.toNat).length ≤ (canonNat true b (2 ^ (w + 1) - 1)).length := by
  have h1 := @BitVec.toInt_lt (w + 1) num
  have h2 := @BitVec.le_toInt (w + 1) num
  simp only [Nat.add_sub_cancel] at h1 h2
  exact ⟨longest_signed false hb w num.toInt h2 h1, longest_unsigned true hb (w + 1) num.toNat num.isLt⟩

/-- bytes written (text + NUL) by width, any base ≥ 2: at most `bits + 2` for the signed and
    `bits + 1` for the unsigned routines — 10/9, 18/17, 34/33, 66/65 bytes for 8..64 bit -/
theorem toa_bytes_by_width (w : Nat) (num : BitVec (w + 1)) (b : Nat) (hb : 2 ≤ b) :
    (canonInt false b num.toInt).length + 1 ≤ (w + 1) + 2 ∧
    (canonNat true b num.toNat).length + 1 ≤ (w + 1) + 1 := by
  have h1 := @BitVec.toInt_lt (w + 1) num
  have h2 := @BitVec.le_toInt (w + 1) num
  simp only [Nat.add_sub_cancel] at h1 h2
  have hcast : ((2 ^ w : Nat) : Int) = (2 : Int) ^ w := by norm_cast
  have hp : 0 < 2 ^ w := Nat.two_pow_pos w
  have hna : num.toInt.natAbs < 2 ^ (w + 1) := by rw [Nat.pow_succ]; omega
  have l1 := lsd_length_le hb (w + 1) num.toInt.natAbs hna
  have l2 := lsd_length_le hb (w + 1) num.toNat num.isLt
  rw [canonInt_length, canonNat_length]
  simp only [digits, List.length_reverse]
  constructor
  · split <;> omega
  · omega

/-- ... and the bound is attained in base 2 by the minimum / the maximum: sign + `bits`
    binary digits + NUL — it cannot be lowered -/
theorem toa_bytes_bound_attained (w : Nat) :
    (canonInt false 2 (-(2 ^ w : Int))).length + 1 = (w + 1) + 2 ∧
    (canonNat true 2 (2 ^ (w + 1) - 1)).length + 1 = (w + 1) + 1 := by
  have hcast : ((2 ^ w : Nat) : Int) = (2 : Int) ^ w := by norm_cast
  have hp : 0 < 2 ^ w := Nat.two_pow_pos w
  have hn : (-(2 ^ w : Int)).natAbs = 2 ^ w := by omega
  have hneg : (-(2 ^ w : Int)) < 0 := by omega
  have e1 : (digits 2 (2 ^ w)).length = w + 1 :=
    (digits_length_eq_iff' (by omega) w (2 ^ w)).2 ⟨Or.inr (Nat.le_refl _), by rw [Nat.pow_succ]; omega⟩
  have e2 : (digits 2 (2 ^ (w + 1) - 1)).length = w + 1 :=
    (digits_length_eq_iff' (by omega) w (2 ^ (w + 1) - 1)).2
      ⟨Or.inr (by rw [Nat.pow_succ]; omega), by have := Nat.two_pow_pos (w + 1); omega⟩
  rw [canonInt_length, canonNat_length, hn, e1, e2, if_pos hneg]
  omega

/-- the longest DECIMAL texts of the eight kinds: "-128" 4, "-32768" 6, "-2147483648" 11,
    "-9223372036854775808" 20 characters; "255" 3, "65535" 5, "4294967295" 10,
    "18446744073709551615" 20 -/
theorem toa_decimal_longest :
    (canonInt false 10 (-(2 ^ 7 : Int))).length = 4 ∧ (canonInt false 10 (-(2 ^ 15 : Int))).length = 6 ∧
    (canonInt false 10 (-(2 ^ 31 : Int))).length = 11 ∧ (canonInt false 10 (-(2 ^ 63 : Int))).length = 20 ∧
    (canonNat true 10 (2 ^ 8 - 1)).length = 3 ∧ (canonNat true 10 (2 ^ 16 - 1)).length = 5 ∧
    (canonNat true 10 (2 ^ 32 - 1)).length = 10 ∧ (canonNat true 10 (2 ^ 64 - 1)).length = 20 := by
  have e (k n : Nat) (h : (k = 0 ∨ 10 ^ k ≤ n) ∧ n < 10 ^ (k + 1)) : (digits 10 n).length = k + 1 :=
    (digits_length_eq_iff' (by omega) k n).2 h
  refine ⟨?_, ?_, ?_, ?_, ?_, ?_, ?_, ?_⟩
  · rw [canonInt_length]; rw [show (-(2 ^ 7 : Int)).natAbs = 128 by decide, e 2 128 (by decide)]; decide
  · rw [canonInt_length]; rw [show (-(2 ^ 15 : Int)).natAbs = 32768 by decide, e 4 32768 (by decide)]; decide
  · rw [canonInt_length]; rw [show (-(2 ^ 31 : Int)).natAbs = 2147483648 by decide, e 9 2147483648 (by decide)]; decide
  · rw [canonInt_length]; rw [show (-(2 ^ 63 : Int)).natAbs = 9223372036854775808 by decide, e 18 9223372036854775808 (by decide)]; decide
  · rw [canonNat_length, e 2 (2 ^ 8 - 1) (by decide)]
  · rw [canonNat_length, e 4 (2 ^ 16 - 1) (by decide)]
  · rw [canonNat_length, e 9 (2 ^ 32 - 1) (by decide)]
  · rw [canonNat_length, e 19 (2 ^ 64 - 1) (by decide)]

/-- vt100_left never needs more than 15 bytes: ESC [ -2147483648 D NUL -/
theorem vt100_left_bytes_le_15 (arg : BitVec 32) : (canonInt false 10 arg.toInt).length + 4 ≤ 15 := by
  have h := (toa_longest_text 31 arg 10 (by omega)).1
  have := toa_decimal_longest.2.2.1
  omega

/-! ## I. the parsers on EVERY input (grammar: the longest prefix of digits of the base) -/

/-- igris_atou64 / igris_atou32 on any memory `m` (from `buf` to the end of the object): the
    routine reads outside the object iff every byte of it is a digit of the base; otherwise the
    value is the positional value of the longest digit prefix modulo 2^width and `*end` is its
    length.  `isDigitOf`, `numberPrefix`, `prefixValue` are list operations over the two
    alphabets (Spec.lean). -/
theorem atou64_grammar (m : List Byte) (base : BitVec 8) :
    atou64 m 0 base
      = if m.all (isDigitOf base.toNat) then none
        else some (BitVec.ofNat 64 (prefixValue base.toNat m), (numberPrefix base.toNat m).length) := by
  simp only [atou64, List.drop_zero, atou_grammar]
  split <;> simp [ofNat_mod 64]

theorem atou32_grammar (m : List Byte) (base : BitVec 8) :
    atou32 m 0 base
      = if m.all (isDigitOf base.toNat) then none
        else some (BitVec.ofNat 32 (prefixValue base.toNat m), (numberPrefix base.toNat m).length) := by
  simp only [atou32, List.drop_zero, atou_grammar]
  split <;> simp [ofNat_mod 32]

/-- the signed parsers: exactly one leading `'-'` is a sign (the value is negated in the unsigned
    type, `*end` counts it); anything else — `'+'`, a blank, a second `'-'` — is not part of a number -/
theorem atoi64_grammar (c : Byte) (s : List Byte) (base : BitVec 8) :
    atoi64 (c :: s) base
      = if c = 0x2D#8 then
          (if s.all (isDigitOf base.toNat) then none
           else some (-(BitVec.ofNat 64 (prefixValue base.toNat s)), (numberPrefix base.toNat s).length + 1))
        else atou64 (c :: s) 0 base := by
  by_cases hc : c = 0x2D#8
  · subst hc
    have : (0x2D#8 == 0x2D#8) = true := by decide
    simp only [atoi64, List.getElem?_cons_zero, this, if_true, atou64, List.drop_succ_cons, List.drop_zero,
      atou_grammar_pos]
    split <;> simp [ofNat_mod 64, Nat.add_comm]
  · have : (c == 0x2D#8) = false := by simpa using hc
    simp only [atoi64, List.getElem?_cons_zero, this, Bool.false_eq_true, if_false, hc]
    cases atou64 (c :: s) 0 base <;> simp

theorem atoi32_grammar (c : Byte) (s : List Byte) (base : BitVec 8) :
    atoi32 (c :: s) base
      = if c = 0x2D#8 then
          (if s.all (isDigitOf base.toNat) then none
           else some (-(BitVec.ofNat 32 (prefixValue base.toNat s)), (numberPrefix base.toNat s).length + 1))
        else atou32 (c :: s) 0 base := by
  by_cases hc : c = 0x2D#8
  · subst hc
    have : (0x2D#8 == 0x2D#8) = true := by decide
    simp only [atoi32, List.getElem?_cons_zero, this, if_true, atou32, List.drop_succ_cons, List.drop_zero,
      atou_grammar_pos]
    split <;> simp [ofNat_mod 32, Nat.add_comm]
  · have : (c == 0x2D#8) = false := by simpa using hc
    simp only [atoi32, List.getElem?_cons_zero, this, Bool.false_eq_true, if_false, hc]
    cases atou32 (c :: s) 0 base <;> simp

/-- totality: on a NUL-terminated string (a NUL anywhere in the object) no parser ever reads
    outside the object, whatever the bytes and the base -/
theorem ato_total_on_c_strings (m : List Byte) (base : BitVec 8) (h : 0#8 ∈ m) :
    (atou64 m 0 base).isSome ∧ (atou32 m 0 base).isSome ∧ (atoi64 m base).isSome ∧ (atoi32 m base).isSome := by
  have hb : base.toNat ≤ 255 := by have := base.isLt; omega
  have hall : ∀ l : List Byte, 0#8 ∈ l → l.all (isDigitOf base.toNat) = false := by
    intro l hl
    rw [Bool.eq_false_iff]; intro hc
    have := List.all_eq_true.1 hc 0#8 hl
    rw [isDigitOf_nul _ hb] at this; exact absurd this (by decide)
  have h64 : (atou64 m 0 base).isSome := by rw [atou64_grammar, hall m h]; simp
  have h32 : (atou32 m 0 base).isSome := by rw [atou32_grammar, hall m h]; simp
  refine ⟨h64, h32, ?_, ?_⟩
  · cases m with
    | nil => simp at h
    | cons c s =>
      rw [atoi64_grammar]
      by_cases hc : c = 0x2D#8
      · have hs : 0#8 ∈ s := by
          rcases List.mem_cons.1 h with h0 | h0
          · subst hc; exact absurd h0 (by decide)
          · exact h0
        simp [hc, hall s hs]
      · simp only [hc, if_false]; exact h64
  · cases m with
    | nil => simp at h
    | cons c s =>
      rw [atoi32_grammar]
      by_cases hc : c = 0x2D#8
      · have hs : 0#8 ∈ s := by
          rcases List.mem_cons.1 h with h0 | h0
          · subst hc; exact absurd h0 (by decide)
          · exact h0
        simp [hc, hall s hs]
      · simp only [hc, if_false]; exact h32

/-- non-canonical inputs, every base: the empty number is 0 with `*end = buf`; a lone `'-'` is 0
    with `*end` behind it; `'+'`, a blank and a second `'-'` are not accepted (0, nothing or only
    the sign consumed) -/
theorem ato_noncanonical_inputs (base : BitVec 8) (rest : List Byte) :
    atou64 (0#8 :: rest) 0 base = some (0#64, 0) ∧
    atoi64 (0x2D#8 :: 0#8 :: rest) base = some (0#64, 1) ∧
    atoi64 (0x2B#8 :: rest) base = some (0#64, 0) ∧
    atou64 (0x2B#8 :: rest) 0 base = some (0#64, 0) ∧
    atoi64 (0x20#8 :: rest) base = some (0#64, 0) ∧
    atoi64 (0x2D#8 :: 0x2D#8 :: rest) base = some (0#64, 1) := by
  have hb : base.toNat ≤ 255 := by have := base.isLt; omega
  have nd : ∀ c : Byte, digitValue c = 255 → isDigitOf base.toNat c = false := by
    intro c hc; rw [isDigitOf_iff _ hb, hc]; simp; omega
  have h0 := nd 0#8 (by decide)
  have hplus := nd 0x2B#8 (by decide)
  have hsp := nd 0x20#8 (by decide)
  have hmin := nd 0x2D#8 (by decide)
  refine ⟨?_, ?_, ?_, ?_, ?_, ?_⟩
  · simp [atou64_grammar, h0, prefixValue, numberPrefix, ofDigits]
  · simp [atoi64_grammar, h0, prefixValue, numberPrefix, ofDigits]
  · rw [atoi64_grammar]; simp [atou64_grammar, hplus, prefixValue, numberPrefix, ofDigits]
  · simp [atou64_grammar, hplus, prefixValue, numberPrefix, ofDigits]
  · rw [atoi64_grammar]; simp [atou64_grammar, hsp, prefixValue, numberPrefix, ofDigits]
  · simp [atoi64_grammar, hmin, prefixValue, numberPrefix, ofDigits]

/-- leading zeros are digits: they are consumed and do not change the value -/
theorem ato_leading_zeros (b k : Nat) (hb : 1 ≤ b) (s : List Byte) :
    prefixValue b (List.replicate k 0x30#8 ++ s) = prefixValue b s ∧
    (numberPrefix b (List.replicate k 0x30#8 ++ s)).length = k + (numberPrefix b s).length := by
  have hz : isDigitOf b 0x30#8 = true := by
    have : charDigit 0x30#8 = some 0 := by decide
    simp [isDigitOf, this]; omega
  have hp : numberPrefix b (List.replicate k 0x30#8 ++ s) = List.replicate k 0x30#8 ++ numberPrefix b s := by
    induction k with
    | zero => simp
    | succ k ih =>
      simp only [List.replicate_succ, List.cons_append, numberPrefix, List.takeWhile_cons, hz, if_true] at ih ⊢
      rw [ih]
  constructor
  · have hf : ∀ j : Nat, (List.replicate j 0x30#8).filterMap charDigit = List.replicate j 0 := by
      intro j
      induction j with
      | zero => rfl
      | succ j ih =>
        have : charDigit 0x30#8 = some 0 := by decide
        simp only [List.replicate_succ, List.filterMap_cons, this, ih]
    rw [prefixValue, hp, List.filterMap_append, hf, ofDigits_leading_zeros, prefixValue]
  · rw [hp]; simp

/-- the 8/16-bit signed parsers on any digit string (audit F6): the 32-bit result narrowed -/
theorem atoi16_atoi8_digit_string (base : BitVec 8) (chars : List Byte) (t : Byte) (rest : List Byte)
    (h : ∀ c ∈ chars, digitValue c < base.toNat) (ht : ¬ digitValue t < base.toNat) :
    atoi16 (0x2D#8 :: chars ++ t :: rest) base
      = some (-(BitVec.ofNat 16 (ofDigits base.toNat (chars.map digitValue))), chars.length + 1) ∧
    atoi8 (0x2D#8 :: chars ++ t :: rest) base
      = some (-(BitVec.ofNat 8 (ofDigits base.toNat (chars.map digitValue))), chars.length + 1) := by
  constructor
  · rw [atoi16, atoi32_digit_string base chars t rest h ht]
    simp only [Option.map_some, BitVec.truncate_eq_setWidth]
    congr 2
    apply BitVec.eq_of_toNat_eq
    simp [BitVec.toNat_neg]
  · rw [atoi8, atoi32_digit_string base chars t rest h ht]
    simp only [Option.map_some, BitVec.truncate_eq_setWidth]
    congr 2
    apply BitVec.eq_of_toNat_eq
    simp [BitVec.toNat_neg]

example : ∃ (c : Byte), digitValue c < (10#8 : BitVec 8).toNat ∧ ¬ digitValue 0#8 < (10#8 : BitVec 8).toNat := ⟨0x35#8, by decide⟩


/-! ### letter case, per function (audit F2a).  The property's "same canonical text" is up to the
    case of the letters: igris_i*toa and the four libc shims write LOWER case, igris_u*toa, the
    debug hex printers and uintNN_to_hex write UPPER case; every parser reads both
    (`digit_either_case`, `ato_inverse_other_case`).  The statements below are about what each
    function leaves in the buffer (`take e` = the text in front of the terminator). -/

/-- igris_i64toa (and, through it, i32/i16/i8toa): no upper-case letter -/
theorem i64toa_letters_lower (num : BitVec 64) (base : BitVec 8) (hb : 2 ≤ base.toNat ∧ base.toNat ≤ 36)
    (m : List Byte) (hm : 66 ≤ m.length) :
    ∃ m' e, i64toa num m base = some (m', e) ∧ ∀ c ∈ m'.take e, ¬ (65 ≤ c.toNat ∧ c.toNat ≤ 90) := by
  have hl := i64toa_bytes_le_66 num base hb.1
  refine ⟨_, _, i64toa_canonical num base hb m (by omega), ?_⟩
  intro c hc
  simp only [List.take_left'] at hc
  rcases canonInt_mem hb.1 false _ c hc with rfl | ⟨d, hd, rfl⟩
  · decide
  · exact digitChar_lower_not_upper d (by omega)

/-- igris_u64toa (and u32/u16/u8toa): no lower-case letter -/
theorem u64toa_letters_upper (num : BitVec 64) (base : BitVec 8) (hb : 2 ≤ base.toNat ∧ base.toNat ≤ 36)
    (m : List Byte) (hm : 66 ≤ m.length) :
    ∃ m' e, u64toa num m base = some (m', e) ∧ ∀ c ∈ m'.take e, ¬ (97 ≤ c.toNat ∧ c.toNat ≤ 122) := by
  have hl := digits_length_le_64 base.toNat num.toNat hb.1 num.isLt
  refine ⟨_, _, u64toa_canonical num base hb m (by rw [canonNat_length]; omega), ?_⟩
  intro c hc
  simp only [List.take_left'] at hc
  obtain ⟨d, hd, rfl⟩ := canonNat_mem hb.1 true _ c hc
  exact digitChar_upper_not_lower d (by omega)

/-- the libc shims: all four write lower case — `utoa`/`ultoa` differ from igris_u32toa/u64toa
    in the case of the letters (bases above 10), and only in that -/
theorem lc_letters_lower (n32 : BitVec 32) (n64 : BitVec 64) (base : BitVec 16) (hb : 2 ≤ base.toNat ∧ base.toNat ≤ 36)
    (m : List Byte) (hm : 66 ≤ m.length) (c : Byte) :
    (∀ m', itoa n32 m base = some (m', 0) → c ∈ m'.takeWhile (· ≠ 0#8) → ¬ (65 ≤ c.toNat ∧ c.toNat ≤ 90)) ∧
    (∀ m', utoa n32 m base = some (m', 0) → c ∈ m'.takeWhile (· ≠ 0#8) → ¬ (65 ≤ c.toNat ∧ c.toNat ≤ 90)) ∧
    (∀ m', ltoa n64 m base = some (m', 0) → c ∈ m'.takeWhile (· ≠ 0#8) → ¬ (65 ≤ c.toNat ∧ c.toNat ≤ 90)) ∧
    (∀ m', ultoa n64 m base = some (m', 0) → c ∈ m'.takeWhile (· ≠ 0#8) → ¬ (65 ≤ c.toNat ∧ c.toNat ≤ 90)) := by
  have key : ∀ (txt tl : List Byte), (∀ x ∈ txt, x ≠ 0#8 ∧ ¬ (65 ≤ x.toNat ∧ x.toNat ≤ 90)) →
      c ∈ (txt ++ 0#8 :: tl).takeWhile (· ≠ 0#8) → ¬ (65 ≤ c.toNat ∧ c.toNat ≤ 90) := by
    intro txt tl h hc
    rw [takeWhile_nul txt tl (fun x hx => (h x hx).1)] at hc
    exact (h c hc).2
  have lowI : ∀ v : Int, ∀ x ∈ canonInt false base.toNat v, x ≠ 0#8 ∧ ¬ (65 ≤ x.toNat ∧ x.toNat ≤ 90) := by
    intro v x hx
    rcases canonInt_mem hb.1 false _ x hx with rfl | ⟨d, hd, rfl⟩
    · decide
    · exact ⟨digitChar_ne_nul d (by omega) false, digitChar_lower_not_upper d (by omega)⟩
  have lowN : ∀ n : Nat, ∀ x ∈ canonNat false base.toNat n, x ≠ 0#8 ∧ ¬ (65 ≤ x.toNat ∧ x.toNat ≤ 90) := by
    intro n x hx
    obtain ⟨d, hd, rfl⟩ := canonNat_mem hb.1 false _ x hx
    exact ⟨digitChar_ne_nul d (by omega) false, digitChar_lower_not_upper d (by omega)⟩
  have b32 : (canonInt false base.toNat n32.toInt).length + 1 ≤ 66 :=
    canonInt_bytes_le_66 false _ hb.1 _ (natAbs_lt32 n32)
  have b64 : (canonInt false base.toNat n64.toInt).length + 1 ≤ 66 :=
    canonInt_bytes_le_66 false _ hb.1 _ (natAbs_lt64 n64)
  have u32 : (canonNat false base.toNat n32.toNat).length + 1 ≤ 66 := by
    have := digits_length_le_64 base.toNat n32.toNat hb.1 (by have := n32.isLt; omega)
    rw [canonNat_length]; omega
  have u64 : (canonNat false base.toNat n64.toNat).length + 1 ≤ 66 := by
    have := digits_length_le_64 base.toNat n64.toNat hb.1 n64.isLt
    rw [canonNat_length]; omega
  refine ⟨?_, ?_, ?_, ?_⟩
  · intro m' h hc
    rw [itoa_canonical n32 base hb m (by omega)] at h
    cases h; exact key _ _ (lowI _) hc
  · intro m' h hc
    rw [utoa_canonical n32 base hb m (by omega)] at h
    cases h; exact key _ _ (lowN _) hc
  · intro m' h hc
    rw [ltoa_canonical n64 base hb m (by omega)] at h
    cases h; exact key _ _ (lowI _) hc
  · intro m' h hc
    rw [ultoa_canonical n64 base hb m (by omega)] at h
    cases h; exact key _ _ (lowN _) hc

-- the hypotheses are satisfiable and the conclusion is not vacuous: utoa(255, 16) = "ff", igris_u32toa gives "FF"
example : utoa 255#32 (List.replicate 66 0xA5#8) 16#16 = some (0x66#8 :: 0x66#8 :: 0#8 :: List.replicate 63 0xA5#8, 0) := by decide
example : (u32toa 255#32 (List.replicate 66 0xA5#8) 16#8).map (fun r => r.1.take r.2) = some [0x46#8, 0x46#8] := by decide

/-- libc atol on EVERY text of the shape  blanks* [+|-] decimal-digits* non-digit ... :
    the value of the digits with the sign applied when it fits a `long`, and undefined behaviour
    (signed overflow, `none`) exactly when it does not — `LONG_MIN` is accepted, `2^63` is not.
    Leading zeros, `+`, no digits at all (value 0) are all covered. -/
theorem atol_grammar (ws sg : List Byte) (ds : List Nat) (t : Byte) (rest : List Byte)
    (hws : ∀ c ∈ ws, c ∈ spaceChars) (hsg : sg = [] ∨ sg = [0x2B#8] ∨ sg = [0x2D#8]) (hds : ∀ d ∈ ds, d < 10)
    (ht : t ∉ decimalChars) (hfirst : sg = [] → ds = [] → t ∉ spaceChars ∧ t ≠ 0x2B#8 ∧ t ≠ 0x2D#8) :
    atol (ws ++ sg ++ ds.map (digitChar false) ++ t :: rest)
      = if sg = [0x2D#8] then
          (if ofDigits 10 ds ≤ 2 ^ 63 then some (BitVec.ofInt 64 (-(ofDigits 10 ds : Int))) else none)
        else (if ofDigits 10 ds < 2 ^ 63 then some (BitVec.ofInt 64 (ofDigits 10 ds : Int)) else none) := by
  have hws' : ∀ c ∈ ws, isspaceC c = true := by
    intro c hc; rw [isspaceC_iff]; simpa using hws c hc
  have ht' : isdigitC t = false := by rw [isdigitC_iff]; simpa using ht
  rcases hsg with rfl | rfl | rfl
  · -- no sign: the first character after the blanks is a digit or `t`
    cases ds with
    | nil =>
      obtain ⟨h1, h2, h3⟩ := hfirst rfl rfl
      have hsp : isspaceC t = false := by rw [isspaceC_iff]; simpa using h1
      have e2 : (t == 0x2D#8) = false := by simpa using h3
      have e3 : (t == 0x2B#8) = false := by simpa using h2
      simp only [List.append_nil, List.map_nil]
      unfold atol
      rw [skipSpace_append ws t rest hws' hsp]
      simp only [e2, e3, Bool.or_self, Bool.false_eq_true, if_false]
      have := atol_tail false [] t rest (by simp) ht'
      simp only [List.map_nil, List.nil_append, Bool.false_eq_true, if_false] at this
      rw [this]; simp
    | cons d ds =>
      have hf := dec_char_facts d (hds d (by simp))
      simp only [List.append_nil, List.map_cons, List.append_assoc, List.cons_append]
      unfold atol
      rw [skipSpace_append ws _ _ hws' hf.2.2.1]
      simp only [hf.2.2.2.1, hf.2.2.2.2, Bool.or_self, Bool.false_eq_true, if_false]
      have := atol_tail false (d :: ds) t rest hds ht'
      simp only [List.map_cons, List.cons_append, Bool.false_eq_true, if_false] at this
      rw [this]; simp
  · have hsp : isspaceC 0x2B#8 = false := by decide
    simp only [List.append_assoc, List.cons_append, List.nil_append]
    unfold atol
    rw [skipSpace_append ws _ _ hws' hsp]
    have e1 : (0x2B#8 == 0x2D#8) = false := by decide
    have e2 : (0x2B#8 == 0x2B#8) = true := by decide
    simp only [e1, e2, Bool.or_true, if_true, Bool.false_eq_true, if_false]
    have := atol_tail false ds t rest hds ht'
    simp only [Bool.false_eq_true, if_false] at this
    rw [this]; simp
  · have hsp : isspaceC 0x2D#8 = false := by decide
    simp only [List.append_assoc, List.cons_append, List.nil_append]
    unfold atol
    rw [skipSpace_append ws _ _ hws' hsp]
    have e1 : (0x2D#8 == 0x2D#8) = true := by decide
    simp only [e1, Bool.true_or, if_true]
    have := atol_tail true ds t rest hds ht'
    simp only [if_true] at this
    rw [this]

-- satisfiable; "  +0012x" is 12, "-9223372036854775808" is LONG_MIN, "9223372036854775808" overflows
example : atol [0x20#8, 0x20#8, 0x2B#8, 0x30#8, 0x30#8, 0x31#8, 0x32#8, 0x78#8, 0#8] = some 12#64 := by decide


/-! ## J. the remaining renderers of dprint_func_impl.c and the hexascii.h helpers -/

/-- debug_writehex / debug_writebin: the bytes `ptr[0 .. size)` in order, each as two upper-case
    hex digits / eight binary digits; the routine reads exactly that range (a `size` that reaches
    past the object is an out-of-bounds read, `size = 0` reads nothing) -/
theorem writehex_writebin_spec (mem : List Byte) (p : Nat) (size : BitVec 16) :
    writehex mem p size
      = (if size.toNat = 0 ∨ p + size.toNat ≤ mem.length then
          some (((mem.drop p).take size.toNat).flatMap fun b => (fixedDigits 16 2 b.toNat).map (digitChar true))
         else none) ∧
    writebin mem p size
      = (if size.toNat = 0 ∨ p + size.toNat ≤ mem.length then
          some (((mem.drop p).take size.toNat).flatMap fun b => (fixedDigits 2 8 b.toNat).map (digitChar true))
         else none) := by
  constructor
  · simp only [writehex, writeFwdLoop_spec]
    split
    · simp only [Option.map_some, emit_nil_reverse]
      congr 2; funext b; exact printhexU8_spec b
    · rfl
  · simp only [writebin, writeFwdLoop_spec]
    split
    · simp only [Option.map_some, emit_nil_reverse]
      congr 2; funext b; exact printbinU8_spec b
    · rfl

/-- debug_writehex_reversed / debug_writebin_reversed / debug_printhex_n: the same range, highest
    address first -/
theorem writehex_reversed_spec (mem : List Byte) (p : Nat) (size : BitVec 16) (n : Nat) :
    writehexReversed mem p size
      = (if size.toNat = 0 ∨ p + size.toNat ≤ mem.length then
          some (((mem.drop p).take size.toNat).reverse.flatMap fun b => (fixedDigits 16 2 b.toNat).map (digitChar true))
         else none) ∧
    writebinReversed mem p size
      = (if size.toNat = 0 ∨ p + size.toNat ≤ mem.length then
          some (((mem.drop p).take size.toNat).reverse.flatMap fun b => (fixedDigits 2 8 b.toNat).map (digitChar true))
         else none) ∧
    printhexN mem p n
      = (if n = 0 ∨ p + n ≤ mem.length then
          some (((mem.drop p).take n).reverse.flatMap fun b => (fixedDigits 16 2 b.toNat).map (digitChar true))
         else none) := by
  have e : ∀ k : Nat, p + k - k = p := by intro k; omega
  have c : ∀ k : Nat, (k = 0 ∨ k ≤ p + k ∧ p + k ≤ mem.length) ↔ (k = 0 ∨ p + k ≤ mem.length) := by
    intro k; constructor <;> intro h <;> omega
  refine ⟨?_, ?_, ?_⟩
  · simp only [writehexReversed, writeRevLoop_spec, e, c]
    split
    · simp only [Option.map_some, emit_nil_reverse]
      congr 2; funext b; exact printhexU8_spec b
    · rfl
  · simp only [writebinReversed, writeRevLoop_spec, e, c]
    split
    · simp only [Option.map_some, emit_nil_reverse]
      congr 2; funext b; exact printbinU8_spec b
    · rfl
  · simp only [printhexN, hexNLoop_eq, writeRevLoop_spec, e, c]
    split
    · simp only [Option.map_some, emit_nil_reverse]
      congr 2; funext b; exact printhexU8_spec b
    · rfl

example : writehex [0x01#8, 0xAB#8] 0 2#16 = some [0x30#8, 0x31#8, 0x41#8, 0x42#8] := by decide
example : writehexReversed [0x01#8, 0xAB#8] 0 2#16 = some [0x41#8, 0x42#8, 0x30#8, 0x31#8] := by decide
example : writehex [0x01#8] 0 2#16 = none := by decide

/-- the typed hexadecimal entry points (`debug_printhex_unsigned_short … signed_long_long`, which go
    through the pointer loop of debug_printhex_n on the object representation) and
    debug_printhex_ptr: the upper-case base-16 digits at the full width of the type -/
theorem printhex_typed_entry_points (a8 : BitVec 8) (a16 : BitVec 16) (a32 : BitVec 32) (a64 : BitVec 64) :
    printhexChar a8 = some ((fixedDigits 16 2 a8.toNat).map (digitChar true)) ∧
    printhexShort a16 = some ((fixedDigits 16 4 a16.toNat).map (digitChar true)) ∧
    printhexInt a32 = some ((fixedDigits 16 8 a32.toNat).map (digitChar true)) ∧
    printhexLong a64 = some ((fixedDigits 16 16 a64.toNat).map (digitChar true)) ∧
    printhexPtr a64 = some ((fixedDigits 16 16 a64.toNat).map (digitChar true)) := by
  have key : ∀ {w : Nat} (k : Nat) (a : BitVec w),
      (writeRevLoop printhexU8 (bytesLE a k).toArray k k []).map List.reverse = some (printhexBytes (bytesLE a k)) := by
    intro w k a
    rw [writeRevLoop_spec]
    have : k = 0 ∨ k ≤ k ∧ k ≤ (bytesLE a k).length := by rw [bytesLE_length]; omega
    rw [if_pos this]
    simp only [Option.map_some, emit_nil_reverse, Nat.sub_self, List.drop_zero, printhexBytes]
    rw [List.take_of_length_le (by rw [bytesLE_length]; omega)]
  refine ⟨by rw [printhexChar, printhexU8_spec], ?_, ?_, ?_, ?_⟩
  · rw [printhexShort, printhexN, hexNLoop_eq]; simp only [Nat.zero_add]
    rw [key 2 a16, printhexBytes_spec 2 a16]
  · rw [printhexInt, printhexN, hexNLoop_eq]; simp only [Nat.zero_add]
    rw [key 4 a32, printhexBytes_spec 4 a32]
  · rw [printhexLong, printhexN, hexNLoop_eq]; simp only [Nat.zero_add]
    rw [key 8 a64, printhexBytes_spec 8 a64]
  · rw [printhexPtr, writehexReversed]
    have : (8#16 : BitVec 16).toNat = 8 := rfl
    simp only [this, Nat.zero_add]
    rw [key 8 a64, printhexBytes_spec 8 a64]

/-- the fixed-width hex/binary text IS the canonical text, zero-padded on the left to the width
    of the type (audit F2b: `fixed_width_is_padded_canonical` instantiated for the shipped widths) -/
theorem printhex_is_padded_canonical (a8 : Byte) (a16 : BitVec 16) (a32 : BitVec 32) (a64 : BitVec 64) :
    printhexU8 a8 = List.replicate (2 - (canonNat true 16 a8.toNat).length) 0x30#8 ++ canonNat true 16 a8.toNat ∧
    printhexU16 a16 = List.replicate (4 - (canonNat true 16 a16.toNat).length) 0x30#8 ++ canonNat true 16 a16.toNat ∧
    printhexU32 a32 = List.replicate (8 - (canonNat true 16 a32.toNat).length) 0x30#8 ++ canonNat true 16 a32.toNat ∧
    printhexU64 a64 = List.replicate (16 - (canonNat true 16 a64.toNat).length) 0x30#8 ++ canonNat true 16 a64.toNat ∧
    printbinU64 a64 = List.replicate (64 - (canonNat true 2 a64.toNat).length) 0x30#8 ++ canonNat true 2 a64.toNat := by
  have z : digitChar true 0 = 0x30#8 := by decide
  obtain ⟨h8, h16, h32, h64⟩ := printhex_fixed_width a16 a32 a64 a8
  have b64 := (printbin_fixed_width a16 a32 a64 a8).2.2.2
  refine ⟨?_, ?_, ?_, ?_, ?_⟩
  · rw [h8, fixed_width_is_padded_canonical 16 1 _ (by omega) (by have := a8.isLt; omega), z]
  · rw [h16, fixed_width_is_padded_canonical 16 3 _ (by omega) (by have := a16.isLt; omega), z]
  · rw [h32, fixed_width_is_padded_canonical 16 7 _ (by omega) (by have := a32.isLt; omega), z]
  · rw [h64, fixed_width_is_padded_canonical 16 15 _ (by omega) (by have := a64.isLt; omega), z]
  · rw [b64, fixed_width_is_padded_canonical 2 63 _ (by omega) (by have := a64.isLt; omega), z]

/-- the literal clause "same canonical text" does NOT hold for the hex printers: 5 prints as "05" -/
theorem printhex_not_canonical_witness : printhexU8 5#8 ≠ canonNat true 16 5 := by
  intro h
  have hl := congrArg List.length h
  rw [canonNat_length, digits, lsd_small (by omega)] at hl
  revert hl; decide

/-- every decimal entry point at its own C type (audit F3): the canonical decimal text of the
    value of that type — zero extension for the unsigned, sign extension for the signed ones,
    the most negative value of every width included -/
theorem printdec_typed_entry_points (x8 : BitVec 8) (x16 : BitVec 16) (x32 : BitVec 32) (x64 : BitVec 64) :
    printdecU8 x8 = some (canonNat false 10 x8.toNat) ∧ printdecU16 x16 = some (canonNat false 10 x16.toNat) ∧
    printdecU32 x32 = some (canonNat false 10 x32.toNat) ∧
    printdecUChar x8 = some (canonNat false 10 x8.toNat) ∧ printdecUShort x16 = some (canonNat false 10 x16.toNat) ∧
    printdecUInt x32 = some (canonNat false 10 x32.toNat) ∧ printdecULong x64 = some (canonNat false 10 x64.toNat) ∧
    printdecULL x64 = some (canonNat false 10 x64.toNat) ∧
    printdecSChar x8 = some (canonInt false 10 x8.toInt) ∧ printdecSShort x16 = some (canonInt false 10 x16.toInt) ∧
    printdecSInt x32 = some (canonInt false 10 x32.toInt) ∧ printdecSLong x64 = some (canonInt false 10 x64.toInt) := by
  have z8 : (x8.zeroExtend 64).toNat = x8.toNat := by
    simp [BitVec.zeroExtend_eq_setWidth]; have := x8.isLt; omega
  have z16 : (x16.zeroExtend 64).toNat = x16.toNat := by
    simp [BitVec.zeroExtend_eq_setWidth]; have := x16.isLt; omega
  have z32 : (x32.zeroExtend 64).toNat = x32.toNat := by
    simp [BitVec.zeroExtend_eq_setWidth]; have := x32.isLt; omega
  have s8 : (x8.signExtend 64).toInt = x8.toInt := BitVec.toInt_signExtend_of_le (by omega)
  have s16 : (x16.signExtend 64).toInt = x16.toInt := BitVec.toInt_signExtend_of_le (by omega)
  have s32 : (x32.signExtend 64).toInt = x32.toInt := BitVec.toInt_signExtend_of_le (by omega)
  simp only [printdecU8, printdecU16, printdecU32, printdecUChar, printdecUShort, printdecUInt, printdecULong,
    printdecULL, printdecSChar, printdecSShort, printdecSInt, printdecSLong, printdecU64_spec, printdecSLL_spec,
    z8, z16, z32, s8, s16, s32, and_self]

/-- a base outside 2..36 (an `unsigned short` here: 0, 1, 37, 266, 65535 …) makes every libc
    shim store the empty string and return `buf` (audit F5) -/
theorem lc_base_out_of_range (n32 : BitVec 32) (n64 : BitVec 64) (base : BitVec 16)
    (h : base.toNat < 2 ∨ base.toNat > 36) (x : Byte) (rest : List Byte) :
    itoa n32 (x :: rest) base = some (0#8 :: rest, 0) ∧ utoa n32 (x :: rest) base = some (0#8 :: rest, 0) ∧
    ltoa n64 (x :: rest) base = some (0#8 :: rest, 0) ∧ ultoa n64 (x :: rest) base = some (0#8 :: rest, 0) := by
  simp [itoa, utoa, ltoa, ultoa, wr, h]

/-- hexascii.h: `uint8/16/32/64_to_hex` write the upper-case base-16 digits at the full width of
    the type (2, 4, 8, 16 characters, no terminator) -/
theorem uint_to_hex_fixed_width (a8 : Byte) (a16 : BitVec 16) (a32 : BitVec 32) (a64 : BitVec 64) :
    uint8ToHex a8 = (fixedDigits 16 2 a8.toNat).map (digitChar true) ∧
    uintToHex a16 2 = (fixedDigits 16 4 a16.toNat).map (digitChar true) ∧
    uintToHex a32 4 = (fixedDigits 16 8 a32.toNat).map (digitChar true) ∧
    uintToHex a64 8 = (fixedDigits 16 16 a64.toNat).map (digitChar true) :=
  ⟨by rw [uint8ToHex_eq, printhexU8_spec], by rw [uintToHex_eq, printhexBytes_spec 2 a16],
   by rw [uintToHex_eq, printhexBytes_spec 4 a32], by rw [uintToHex_eq, printhexBytes_spec 8 a64]⟩

/-- ... and `hex_to_uint8/16/32/64` invert them for EVERY value of the type; the text may be
    followed by anything (no terminator is read) -/
theorem hex_to_uint_inverse (a8 : Byte) (a16 : BitVec 16) (a32 : BitVec 32) (a64 : BitVec 64) (rest : List Byte) :
    hexToUint 8 1 (uint8ToHex a8 ++ rest) = some a8 ∧ hexToUint 16 2 (uintToHex a16 2 ++ rest) = some a16 ∧
    hexToUint 32 4 (uintToHex a32 4 ++ rest) = some a32 ∧ hexToUint 64 8 (uintToHex a64 8 ++ rest) = some a64 := by
  refine ⟨?_, hexToUint_uintToHex 2 (by decide) a16 rest, hexToUint_uintToHex 4 (by decide) a32 rest,
    hexToUint_uintToHex 8 (by decide) a64 rest⟩
  have := hexToUint_uintToHex 1 (by decide) a8 rest
  simpa [uintToHex, bytesLE] using this

/-- `hex_to_uintNN` reads the digits in either case: the fixed-width text written with lower-case
    (or upper-case) letters parses to the value; `hex2half` maps both characters of a hex digit
    to its value (audit F4; the unrepaired `hex2half('a')` was 42) -/
theorem hex_to_uint_either_case (up : Bool) (a8 : BitVec 8) (a16 : BitVec 16) (a32 : BitVec 32) (a64 : BitVec 64)
    (rest : List Byte) :
    hexToUint 8 1 ((fixedDigits 16 2 a8.toNat).map (digitChar up) ++ rest) = some a8 ∧
    hexToUint 16 2 ((fixedDigits 16 4 a16.toNat).map (digitChar up) ++ rest) = some a16 ∧
    hexToUint 32 4 ((fixedDigits 16 8 a32.toNat).map (digitChar up) ++ rest) = some a32 ∧
    hexToUint 64 8 ((fixedDigits 16 16 a64.toNat).map (digitChar up) ++ rest) = some a64 ∧
    (∀ d, d < 16 → (hex2half (digitChar up d)).toNat = d) := by
  have key : ∀ {w : Nat} (k : Nat) (a : BitVec w),
      (bytesLE a k).reverse.flatMap (fun b => [digitChar up (b.toNat / 16), digitChar up (b.toNat % 16)])
        = (fixedDigits 16 (2 * k) a.toNat).map (digitChar up) := by
    intro w k
    induction k with
    | zero => intro a; simp [bytesLE, fixedDigits]
    | succ k ih =>
      intro a
      have h1 : (a.truncate 8).toNat = a.toNat % 256 := by simp [BitVec.truncate_eq_setWidth]
      have h2 : (a >>> 8).toNat = a.toNat / 256 := by simp [BitVec.toNat_ushiftRight, Nat.shiftRight_eq_div_pow]
      have e : 2 * (k + 1) = 2 * k + 1 + 1 := by omega
      rw [e]
      simp only [bytesLE, List.reverse_cons, List.flatMap_append, List.flatMap_cons, List.flatMap_nil, List.append_nil,
        fixedDigits, List.map_append, List.map_cons, List.map_nil, ih (a >>> 8), h1, h2]
      have d1 : a.toNat / 16 / 16 = a.toNat / 256 := by rw [Nat.div_div_eq_div_mul]
      have d2 : a.toNat % 256 / 16 = a.toNat / 16 % 16 := by omega
      have d3 : a.toNat % 256 % 16 = a.toNat % 16 := by omega
      rw [d1, d2, d3]
      simp
  refine ⟨?_, ?_, ?_, ?_, fun d hd => hex2half_digit d hd up⟩
  · have := hexToUint_case up 1 (by decide) a8 rest
    rwa [key 1 a8] at this
  · have := hexToUint_case up 2 (by decide) a16 rest
    rwa [key 2 a16] at this
  · have := hexToUint_case up 4 (by decide) a32 rest
    rwa [key 4 a32] at this
  · have := hexToUint_case up 8 (by decide) a64 rest
    rwa [key 8 a64] at this


/-! ## K. debug_print_dump and igris/util/ctype.h -/

/-- debug_print_dump(mem, len) emits exactly `dumpSpec` (Spec.lean: rows of eight, address column
    `0x` + 16 upper-case hex digits + `:`, cells `HH `, three blanks past the data, the ASCII
    column — the byte itself iff it is printable 0x20..0x7E, else `.` — and CR LF), and it reads
    exactly `mem[0 .. len)`: with fewer bytes in the object it reads outside it.
    (The unrepaired routine tested `isprint(mem[0] + j)`: fix 7b9c1c0.) -/
theorem print_dump_spec (addr : BitVec 64) (mem : List Byte) (len : BitVec 16) :
    printDump addr mem len
      = if len.toNat ≤ mem.length then some (dumpSpec addr.toNat (mem.take len.toNat)) else none := by
  simp only [printDump, dump_total]
  by_cases h : len.toNat ≤ mem.length
  · rw [if_pos h, dumpLoop_spec addr mem len.toNat h]
    simp only [Option.map_some, emit_nil_reverse, dumpSpec, List.length_take, Nat.min_eq_left h]
  · rw [if_neg h]
    rw [dumpLoop_fault addr mem len.toNat (by omega) _ 0 [] (by omega) (by omega)]
    rfl

-- one full row and a partial one: 9 bytes "AB\n…"
example : (printDump 0x1000#64 [0x41#8, 0x42#8, 0x0A#8, 0xFF#8, 0x20#8, 0x7E#8, 0x7F#8, 0x30#8, 0x31#8] 9#16).map List.length
    = some 106 := by decide

/-- igris ctype.h against the digit alphabets: `igris_isxdigit` is "digit of base 16",
    `igris_isalnum` is "digit of base 36", `igris_isdigit` "digit of base 10";
    `igris_toupper` / `igris_tolower` never change the digit value (letters of either case);
    `igris_isprint` is 0x20..0x7E; a negative `char` (byte ≥ 0x80) is in no class -/
theorem ctype_matches_digit_alphabets (c : Byte) :
    (isxdigitI c.toInt = true ↔ digitValue c < 16) ∧
    (isalnumI c.toInt = true ↔ digitValue c < 36) ∧
    (isdigitI c.toInt = true ↔ digitValue c < 10) ∧
    digitValue (BitVec.ofInt 8 (toupperI c.toInt)) = digitValue c ∧
    digitValue (BitVec.ofInt 8 (tolowerI c.toInt)) = digitValue c ∧
    (isprintI c.toInt = true ↔ 32 ≤ c.toNat ∧ c.toNat ≤ 126) ∧
    (128 ≤ c.toNat → isalnumI c.toInt = false ∧ isspaceI c.toInt = false ∧ isprintI c.toInt = false) := by
  revert c; decide


/-! ## L. the `_partial` theorem of section G made exact -/

/-- the excluded region of `atolOrig_ltoa_inverse_partial` is exactly `{LONG_MIN}`, and inside it
    the behaviour is: signed overflow at the last digit, whatever follows the text — for the
    UNREPAIRED atol the round trip holds iff `v ≠ LONG_MIN` (the repaired one: `atol_ltoa_inverse`,
    `atol_grammar`) -/
theorem atolOrig_ltoa_inverse_iff (v : BitVec 64) (tail : List Byte) :
    atolOrig (canonInt false 10 v.toInt ++ 0#8 :: tail) = some v ↔ v ≠ BitVec.ofInt 64 (-9223372036854775808) := by
  constructor
  · intro h hv
    subst hv
    have ht : (BitVec.ofInt 64 (-9223372036854775808)).toInt = -9223372036854775808 := by decide
    have hc : canonInt false 10 (-9223372036854775808)
        = [0x2D#8, 0x39#8, 0x32#8, 0x32#8, 0x33#8, 0x33#8, 0x37#8, 0x32#8, 0x30#8, 0x33#8, 0x36#8, 0x38#8,
           0x35#8, 0x34#8, 0x37#8, 0x37#8, 0x35#8, 0x38#8, 0x30#8, 0x38#8] := by
      have hd : digits 10 9223372036854775808 = [9, 2, 2, 3, 3, 7, 2, 0, 3, 6, 8, 5, 4, 7, 7, 5, 8, 0, 8] := by
        have := digits_unique 10 (by omega) [9, 2, 2, 3, 3, 7, 2, 0, 3, 6, 8, 5, 4, 7, 7, 5, 8, 0, 8] (by simp)
          (by decide) (Or.inr (by decide))
        rw [← this]; rfl
      simp only [canonInt, canonNat]
      rw [show (-9223372036854775808 : Int).natAbs = 9223372036854775808 by decide, hd]
      decide
    rw [ht, hc] at h
    have hnone : atolOrig ([0x2D#8, 0x39#8, 0x32#8, 0x32#8, 0x33#8, 0x33#8, 0x37#8, 0x32#8, 0x30#8, 0x33#8, 0x36#8, 0x38#8,
           0x35#8, 0x34#8, 0x37#8, 0x37#8, 0x35#8, 0x38#8, 0x30#8, 0x38#8] ++ 0#8 :: tail) = none := by rfl
    rw [hnone] at h
    exact absurd h (by simp)
  · intro hv; exact atolOrig_ltoa_inverse_partial v hv tail


/-- the `debug_asmlink_args*` self-test printers: every argument as its fixed-width upper-case
    hex text followed by `':'`; `dprptr` / `dprptrln`: the 16 hex digits of the pointer (+ CR LF) -/
theorem asmlink_and_dprptr_text (v8 : List (BitVec 8)) (v16 : List (BitVec 16)) (v32 : List (BitVec 32)) (p : BitVec 64) :
    asmlinkArgs8 v8 = v8.flatMap (fun a => (fixedDigits 16 2 a.toNat).map (digitChar true) ++ [0x3A#8]) ∧
    asmlinkArgs16 v16 = v16.flatMap (fun a => (fixedDigits 16 4 a.toNat).map (digitChar true) ++ [0x3A#8]) ∧
    asmlinkArgs32 v32 = v32.flatMap (fun a => (fixedDigits 16 8 a.toNat).map (digitChar true) ++ [0x3A#8]) ∧
    dprptr p = some ((fixedDigits 16 16 p.toNat).map (digitChar true)) ∧
    dprptrln p = some ((fixedDigits 16 16 p.toNat).map (digitChar true) ++ [0x0D#8, 0x0A#8]) := by
  refine ⟨?_, ?_, ?_, printhexPtr_spec p, by rw [dprptrln, printhexPtr_spec]; rfl⟩
  · simp only [asmlinkArgs8]; congr 1; funext a; rw [printhexU8_spec]
  · simp only [asmlinkArgs16]; congr 1; funext a; rw [printhexU16, printhexBytes_spec 2 a]
  · simp only [asmlinkArgs32]; congr 1; funext a; rw [printhexU32, printhexBytes_spec 4 a]

/-- the igris parsers invert the libc shims in EVERY base 2..36 and for EVERY value of the type
    (libc's own atol/atoi read base 10 only): parse(render(v, b), b) = v with `*end` at the terminator -/
theorem ato_inverse_libc (v32 : BitVec 32) (v64 : BitVec 64) (base : BitVec 8) (hb : 2 ≤ base.toNat ∧ base.toNat ≤ 36)
    (m : List Byte) (hm : 66 ≤ m.length) :
    (∃ m', itoa v32 m (base.zeroExtend 16) = some (m', 0) ∧
        atoi32 m' base = some (v32, (canonInt false base.toNat v32.toInt).length)) ∧
    (∃ m', utoa v32 m (base.zeroExtend 16) = some (m', 0) ∧
        atou32 m' 0 base = some (v32, (canonNat false base.toNat v32.toNat).length)) ∧
    (∃ m', ltoa v64 m (base.zeroExtend 16) = some (m', 0) ∧
        atoi64 m' base = some (v64, (canonInt false base.toNat v64.toInt).length)) ∧
    (∃ m', ultoa v64 m (base.zeroExtend 16) = some (m', 0) ∧
        atou64 m' 0 base = some (v64, (canonNat false base.toNat v64.toNat).length)) := by
  have e : (base.zeroExtend 16).toNat = base.toNat := by
    simp [BitVec.zeroExtend_eq_setWidth]; have := base.isLt; omega
  have hb' : 2 ≤ (base.zeroExtend 16).toNat ∧ (base.zeroExtend 16).toNat ≤ 36 := by rw [e]; exact hb
  have b32 : (canonInt false base.toNat v32.toInt).length + 1 ≤ 66 :=
    canonInt_bytes_le_66 false _ hb.1 _ (natAbs_lt32 v32)
  have b64 : (canonInt false base.toNat v64.toInt).length + 1 ≤ 66 :=
    canonInt_bytes_le_66 false _ hb.1 _ (natAbs_lt64 v64)
  have u32 : (canonNat false base.toNat v32.toNat).length + 1 ≤ 66 := by
    have := digits_length_le_64 base.toNat v32.toNat hb.1 (by have := v32.isLt; omega)
    rw [canonNat_length]; omega
  have u64 : (canonNat false base.toNat v64.toNat).length + 1 ≤ 66 := by
    have := digits_length_le_64 base.toNat v64.toNat hb.1 v64.isLt
    rw [canonNat_length]; omega
  refine ⟨?_, ?_, ?_, ?_⟩
  · have h := itoa_canonical v32 (base.zeroExtend 16) hb' m (by rw [e]; omega)
    rw [e] at h
    exact ⟨_, h, by rw [atoi32_canon base hb.1 hb.2, BitVec.ofInt_toInt]⟩
  · have h := utoa_canonical v32 (base.zeroExtend 16) hb' m (by rw [e]; omega)
    rw [e] at h
    exact ⟨_, h, by rw [atou32_canon base hb.1 hb.2]; simp⟩
  · have h := ltoa_canonical v64 (base.zeroExtend 16) hb' m (by rw [e]; omega)
    rw [e] at h
    exact ⟨_, h, by rw [atoi64_canon base hb.1 hb.2, BitVec.ofInt_toInt]⟩
  · have h := ultoa_canonical v64 (base.zeroExtend 16) hb' m (by rw [e]; omega)
    rw [e] at h
    exact ⟨_, h, by rw [atou64_canon base hb.1 hb.2]; simp⟩

/-! ## M. extension round 3b: the arguments outside the contracts, and the width wrappers

  The "Still open" items of round 3 that can be stated about the model: what `debug_printhex_uint4` /
  `debug_printbin_uint4` do with an argument above 15, what `debug_printhex_n` does with a negative `n`
  (the parameter is an `int`), and the letter case of the six width wrappers. -/

/-- debug_printhex_uint4 on EVERY `uint8_t` argument: always exactly one character, the code of the argument
    plus `'0'` (below 10) or `'A' - 10` (from 10 on) in `uint8_t`; for every argument below 36 that is the
    upper-case digit of the argument (16..35 continue into the base-36 alphabet); it is the hex digit of the
    low nibble IF AND ONLY IF the argument is below 16 — the routine does not mask, `print_nibble`'s hypothesis
    is exact.  debug_printbin_uint4 tests four bits: for every argument the four binary digits of the argument
    mod 16 (the high nibble is ignored). -/
theorem print_nibble_total (b : Byte) :
    (∃ c, printhexU4 b = [c] ∧ c.toNat = (b.toNat + (if b.toNat < 10 then 48 else 55)) % 256) ∧
    (b.toNat < 36 → printhexU4 b = [digitChar true b.toNat]) ∧
    (printhexU4 b = (fixedDigits 16 1 (b.toNat % 16)).map (digitChar true) ↔ b.toNat < 16) ∧
    printbinU4 b = (fixedDigits 2 4 (b.toNat % 16)).map (digitChar true) :=
  ⟨(printhexU4_total b).1, (printhexU4_total b).2.1, (printhexU4_total b).2.2, printbinU4_total b⟩

example : printhexU4 0x1F#8 = [0x56#8] ∧ printbinU4 0xF5#8 = [0x30#8, 0x31#8, 0x30#8, 0x31#8] := by decide

/-- debug_printhex_n with `int n` at its C width, on every memory, every `arg` and EVERY 32-bit `n`:
    defined exactly when `n ≥ 0` and the `n` bytes lie inside the object (nothing is read for `n = 0`), and then
    the two upper-case hex digits of each byte, highest address first.  Totality and the exact excluded
    region in one equation. -/
theorem printhexN_int_spec (mem : List Byte) (arg : Nat) (n : BitVec 32) :
    printhexNI mem arg n
      = if 0 ≤ n.toInt ∧ (n.toNat = 0 ∨ arg + n.toNat ≤ mem.length) then
          some (((mem.drop arg).take n.toNat).reverse.flatMap fun b => (fixedDigits 16 2 b.toNat).map (digitChar true))
        else none := by
  by_cases hn : 0 ≤ n.toInt
  · have e : n.toInt = (n.toNat : Int) := by
      have := @BitVec.toInt_eq_toNat_cond 32 n
      rw [this] at hn ⊢
      split at hn <;> simp_all <;> omega
    have hlt : n.toNat < 4294967297 := by have := n.isLt; omega
    have h3 := (writehex_reversed_spec mem arg 0#16 n.toNat).2.2
    unfold printhexNI
    rw [e]
    have e2 : ((arg : Int) + (n.toNat : Int)).toNat = arg + n.toNat := by omega
    have e3 : ¬ ((arg : Int) + (n.toNat : Int) < 0) := by omega
    rw [if_neg e3, e2, hexNLoopI_nonneg _ _ _ _ _ hlt]
    have h4 : printhexN mem arg n.toNat = (hexNLoop mem.toArray n.toNat (arg + n.toNat) []).map List.reverse := rfl
    rw [← h4, h3]
    have e5 : (0 : Int) ≤ (n.toNat : Int) := by omega
    simp only [e5, true_and]
  · have hneg : n.toInt < 0 := by omega
    unfold printhexNI
    split
    · simp [hn]
    · rw [hexNLoopI_neg _ _ _ _ _ hneg]
      simp [hn]

/-- ... in particular a negative `n` is undefined whatever the memory looks like: the pointer starts in front
    of `arg` and the loop can only end in a load outside the object or in `n--` on INT_MIN.  (No caller passes
    one: every call site passes a `sizeof`.) -/
theorem printhexN_negative_undefined (mem : List Byte) (arg : Nat) (n : BitVec 32) (h : n.toInt < 0) :
    printhexNI mem arg n = none := by
  rw [printhexN_int_spec]
  have : ¬ (0 ≤ n.toInt) := by omega
  simp [this]

example : (0xFFFFFFFF#32).toInt < 0 := by decide
example : printhexNI [0x12#8, 0xAB#8] 0 2#32 = some [0x41#8, 0x42#8, 0x31#8, 0x32#8] := by decide

/-- letter case of the six width wrappers (round 3 had it for the 64-bit routines only): igris_i32/i16/i8toa
    write no upper-case letter, igris_u32/u16/u8toa no lower-case letter, for every value and base 2..36 -/
theorem toa_wrappers_letter_case (n32 : BitVec 32) (n16 : BitVec 16) (n8 : BitVec 8) (base : BitVec 8)
    (hb : 2 ≤ base.toNat ∧ base.toNat ≤ 36) (m : List Byte) (hm : 66 ≤ m.length) :
    (∃ m' e, i32toa n32 m base = some (m', e) ∧ ∀ c ∈ m'.take e, ¬ (65 ≤ c.toNat ∧ c.toNat ≤ 90)) ∧
    (∃ m' e, i16toa n16 m base = some (m', e) ∧ ∀ c ∈ m'.take e, ¬ (65 ≤ c.toNat ∧ c.toNat ≤ 90)) ∧
    (∃ m' e, i8toa n8 m base = some (m', e) ∧ ∀ c ∈ m'.take e, ¬ (65 ≤ c.toNat ∧ c.toNat ≤ 90)) ∧
    (∃ m' e, u32toa n32 m base = some (m', e) ∧ ∀ c ∈ m'.take e, ¬ (97 ≤ c.toNat ∧ c.toNat ≤ 122)) ∧
    (∃ m' e, u16toa n16 m base = some (m', e) ∧ ∀ c ∈ m'.take e, ¬ (97 ≤ c.toNat ∧ c.toNat ≤ 122)) ∧
    (∃ m' e, u8toa n8 m base = some (m', e) ∧ ∀ c ∈ m'.take e, ¬ (97 ≤ c.toNat ∧ c.toNat ≤ 122)) :=
  ⟨i64toa_letters_lower _ base hb m hm, i64toa_letters_lower _ base hb m hm, i64toa_letters_lower _ base hb m hm,
   u64toa_letters_upper _ base hb m hm, u64toa_letters_upper _ base hb m hm, u64toa_letters_upper _ base hb m hm⟩

example : (i32toa 0xFFFFFF01#32 (List.replicate 66 0#8) 16#8).map (fun r => r.1.take r.2) = some [0x2D#8, 0x66#8, 0x66#8] ∧
    (u32toa 0xFF#32 (List.replicate 66 0#8) 16#8).map (fun r => r.1.take r.2) = some [0x46#8, 0x46#8] := by decide

end Igris.C07
