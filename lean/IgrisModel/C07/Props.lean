import IgrisModel.C07.Lemmas
namespace Igris.C07
theorem placeholder_tmp : True := trivial
end Igris.C07
