import IgrisModel.C07.Model
open Igris.Proto Igris.C07

/-! line-protocol driver for C07 (see harness/C07.cpp for the operations) -/

def fill (n : Nat) : List Byte := List.replicate n 0xA5#8

/-- how many leading bytes of a scratch buffer were touched -/
def touched (m : List Byte) : Nat :=
  let rec go : List Byte → Nat → Nat → Nat
    | [], _, last => last
    | b :: bs, i, last => go bs (i + 1) (if b == 0xA5#8 then last else i + 1)
  go m 0 0

def toaK (k : String) (v : BitVec 64) (m : List Byte) (base : BitVec 8) : Option (List Byte × Nat) :=
  match k with
  | "i8" => i8toa (v.truncate 8) m base
  | "i16" => i16toa (v.truncate 16) m base
  | "i32" => i32toa (v.truncate 32) m base
  | "i64" => i64toa v m base
  | "u8" => u8toa (v.truncate 8) m base
  | "u16" => u16toa (v.truncate 16) m base
  | "u32" => u32toa (v.truncate 32) m base
  | "u64" => u64toa v m base
  | _ => none

def kbits (k : String) : Nat :=
  match k with
  | "i8" | "u8" => 8
  | "i16" | "u16" => 16
  | "i32" | "u32" => 32
  | _ => 64

/-- value as its `w`-bit pattern (a Nat) and the end offset -/
def atoK (k : String) (m : List Byte) (base : BitVec 8) : Option (Nat × Nat) :=
  match k with
  | "i8" => (atoi8 m base).map fun (v, e) => (v.toNat, e)
  | "i16" => (atoi16 m base).map fun (v, e) => (v.toNat, e)
  | "i32" => (atoi32 m base).map fun (v, e) => (v.toNat, e)
  | "i64" => (atoi64 m base).map fun (v, e) => (v.toNat, e)
  | "u8" => (atou8 m 0 base).map fun (v, e) => (v.toNat, e)
  | "u16" => (atou16 m 0 base).map fun (v, e) => (v.toNat, e)
  | "u32" => (atou32 m 0 base).map fun (v, e) => (v.toNat, e)
  | "u64" => (atou64 m 0 base).map fun (v, e) => (v.toNat, e)
  | _ => none

def flipCase (b : Byte) : Byte :=
  if 97 ≤ b.toNat ∧ b.toNat ≤ 122 then b - 32#8
  else if 65 ≤ b.toNat ∧ b.toNat ≤ 90 then b + 32#8 else b

def isKind (k : String) : Bool := ["i8", "i16", "i32", "i64", "u8", "u16", "u32", "u64"].contains k

/-- one value: the bytes written (canonical length + 1), the returned offset,
    and, for a valid base, the parse-back of the text -/
structure RT where
  raw : List Byte
  ret : Nat
  back : Option (Nat × Nat)

def roundTrip (k : String) (v : BitVec 64) (base : Nat) (exact : Bool) : Option RT := do
  let b8 := BitVec.ofNat 8 base
  let (m, ret) ← toaK k v (fill (kbits k + 8)) b8
  let n := touched m
  -- the harness buffer has exactly (canonical length + 1) bytes: the model must not need more
  let (m, ret) ← if exact then toaK k v (fill n) b8 else pure (m.take n, ret)
  if base < 2 ∨ base > 36 then pure ⟨m, ret, none⟩
  else
    match m.getLast? with
    | some 0 => do
        let r ← atoK k m b8
        pure ⟨m, ret, some r⟩
    | _ => pure ⟨m, ret, none⟩

def fnvByte (h : UInt64) (b : UInt8) : UInt64 := (h ^^^ b.toUInt64) * 1099511628211
def fnvBytes (h : UInt64) (bs : List Byte) : UInt64 := bs.foldl (fun h b => fnvByte h b.toNat.toUInt8) h
def fnvLE64 (h : UInt64) (v : Nat) : UInt64 :=
  (List.range 8).foldl (fun h i => fnvByte h ((v >>> (8 * i)) % 256).toUInt8) h

def extendK (k : String) (v : Nat) : BitVec 64 :=
  let w := kbits k
  if k.startsWith "i" then
    match w with
    | 8 => (BitVec.ofNat 8 v).signExtend 64
    | 16 => (BitVec.ofNat 16 v).signExtend 64
    | 32 => (BitVec.ofNat 32 v).signExtend 64
    | _ => BitVec.ofNat 64 v
  else BitVec.ofNat 64 (v % 2 ^ w)

def rngLoop (k : String) (base : Nat) (stride : Nat) : Nat → Nat → UInt64 → List Byte → Option (UInt64 × List Byte)
  | 0, _, h, last => some (h, last)
  | n + 1, v, h, _ =>
    match roundTrip k (extendK k v) base false with
    | none => none
    | some r =>
      let h := fnvBytes h r.raw
      let h := fnvByte h r.ret.toUInt8
      let h := fnvLE64 h (match r.back with | some (x, _) => x | none => 0)
      let h := fnvByte h (match r.back with | some (_, e) => e.toUInt8 | none => 0xff)
      rngLoop k base stride n ((v + stride) % 2 ^ 64) h r.raw

def showOpt (r : Option String) : String := r.getD "fault"

def dprModel (fn : String) (v : BitVec 64) : Option (List Byte) :=
  match fn with
  | "dec_u8" | "dec_uc" => printdecU64 ((v.truncate 8).zeroExtend 64)
  | "dec_u16" | "dec_us" => printdecU64 ((v.truncate 16).zeroExtend 64)
  | "dec_u32" | "dec_ui" => printdecU64 ((v.truncate 32).zeroExtend 64)
  | "dec_u64" | "dec_ul" | "dec_ull" => printdecU64 v
  | "dec_sc" => printdecSLL ((v.truncate 8).signExtend 64)
  | "dec_ss" => printdecSLL ((v.truncate 16).signExtend 64)
  | "dec_si" => printdecSLL ((v.truncate 32).signExtend 64)
  | "dec_sl" | "dec_sll" => printdecSLL v
  | "hex_u4" => some (printhexU4 (v.truncate 8 &&& 0x0F#8))
  | "hex_u8" | "hex_c" | "hex_uc" | "hex_sc" => some (printhexU8 (v.truncate 8))
  | "hex_u16" | "hex_us" | "hex_ss" => some (printhexU16 (v.truncate 16))
  | "hex_u32" | "hex_ui" | "hex_si" => some (printhexU32 (v.truncate 32))
  | "hex_u64" | "hex_ul" | "hex_ull" | "hex_sl" | "hex_sll" => some (printhexU64 v)
  | "bin_u4" => some (printbinU4 (v.truncate 8 &&& 0x0F#8))
  | "bin_u8" => some (printbinU8 (v.truncate 8))
  | "bin_u16" => some (printbinU16 (v.truncate 16))
  | "bin_u32" => some (printbinU32 (v.truncate 32))
  | "bin_u64" => some (printbinU64 v)
  | _ => none

def lcModel (fn : String) (v : BitVec 64) (m : List Byte) (base : BitVec 16) : Option (List Byte × Nat) :=
  match fn with
  | "itoa" => itoa (v.truncate 32) m base
  | "utoa" => utoa (v.truncate 32) m base
  | "ltoa" => ltoa v m base
  | "ultoa" => ultoa v m base
  | _ => none

def stepLine (_ : Unit) (line : String) : Unit × String :=
  let r : Option String :=
    match words line with
    | ["reset"] => some "ok"
    | ["toa", k, b, v] => do
        if !isKind k then none
        let base ← b.toNat?
        let v ← parseHexNat? v
        let w := kbits k
        pure <| showOpt do
          let r ← roundTrip k (BitVec.ofNat 64 v) base true
          let s := bytesHex r.raw ++ " " ++ toString r.ret
          match r.back with
          | none => pure s
          | some (x, e) =>
            -- the same text with the case of every letter flipped
            let (xf, ef) ← atoK k (r.raw.map flipCase) (BitVec.ofNat 8 base)
            pure (s ++ " " ++ hexOfNat (w / 4) x ++ " " ++ toString e ++ " " ++ hexOfNat (w / 4) xf ++ " " ++ toString ef)
    | ["rng", k, b, lo, n, stride] => do
        if !isKind k then none
        let base ← b.toNat?
        let lo ← parseHexNat? lo
        let n ← n.toNat?
        let stride ← stride.toNat?
        pure <| showOpt do
          let (h, last) ← rngLoop k base stride n lo 14695981039346656037 []
          pure (hexOfNat 16 h.toNat ++ " " ++ bytesHex last)
    | ["sweep", _, _, _, n] => some ("swept " ++ n)
    | ["ato", k, b, s] => do
        if !isKind k then none
        let base ← b.toNat?
        let s ← parseBytes? s
        if s.getLast? != some 0#8 then none
        pure <| showOpt do
          let (x, e) ← atoK k s (BitVec.ofNat 8 base)
          pure (hexOfNat (kbits k / 4) x ++ " " ++ toString e)
    | ["lc", fn, b, v] => do
        let base ← b.toNat?
        let v ← parseHexNat? v
        let v := BitVec.ofNat 64 v
        pure <| showOpt do
          let (m, _) ← lcModel fn v (fill 72) (BitVec.ofNat 16 base)
          let (m, ret) ← lcModel fn v (fill (touched m)) (BitVec.ofNat 16 base)
          pure (bytesHex m ++ " " ++ toString ret)
    | ["atol", s] => do
        let s ← parseBytes? s
        if s.getLast? != some 0#8 then none
        pure <| showOpt do
          let l ← atol s
          let i ← atoi s
          pure (hexOfNat 16 l.toNat ++ " " ++ hexOfNat 8 i.toNat)
    | ["dpr", fn, v] => do
        let v ← parseHexNat? v
        pure <| showOpt do
          let s ← dprModel fn (BitVec.ofNat 64 v)
          pure (bytesHex s)
    | ["vt", v] => do
        let v ← parseHexNat? v
        let arg := BitVec.ofNat 32 v
        pure <| showOpt do
          let (m, _) ← vt100Left (fill 40) arg
          let (m, ret) ← vt100Left (fill (touched m)) arg
          pure (bytesHex m ++ " " ++ toString ret)
    | ["h2h", c] => do
        let c ← parseHexNat? c
        pure (hexOfNat 2 (hex2half (BitVec.ofNat 8 c)).toNat)
    | _ => none
  ((), r.getD "bad-op")

def main : IO Unit := run () stepLine
