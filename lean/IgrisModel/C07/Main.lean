import IgrisModel.C07.Model
open Igris.Proto Igris.C07

/-! line-protocol driver for C07 (see harness/C07.cpp for the operations) -/

def fill (n : Nat) : List Byte := List.replicate n 0xA5#8

/-- how many leading bytes of a scratch buffer were touched -/
def touched (m : List Byte) : Nat :=
  let rec go : List Byte → Nat → Nat → Nat
    | [], _, last => last
    | b :: bs, i, last => go bs (i + 1) (if b == 0xA5#8 then last else i + 1)
  go m 0 0

def toaK (k : String) (v : BitVec 64) (m : List Byte) (base : BitVec 8) : Option (List Byte × Nat) :=
  match k with
  | "i8" => i8toa (v.truncate 8) m base
  | "i16" => i16toa (v.truncate 16) m base
  | "i32" => i32toa (v.truncate 32) m base
  | "i64" => i64toa v m base
  | "u8" => u8toa (v.truncate 8) m base
  | "u16" => u16toa (v.truncate 16) m base
  | "u32" => u32toa (v.truncate 32) m base
  | "u64" => u64toa v m base
  | _ => none

def kbits (k : String) : Nat :=
  match k with
  | "i8" | "u8" => 8
  | "i16" | "u16" => 16
  | "i32" | "u32" => 32
  | _ => 64

/-- value as its `w`-bit pattern (a Nat) and the end offset -/
def atoK (k : String) (m : List Byte) (base : BitVec 8) : Option (Nat × Nat) :=
  match k with
  | "i8" => (atoi8 m base).map fun (v, e) => (v.toNat, e)
  | "i16" => (atoi16 m base).map fun (v, e) => (v.toNat, e)
  | "i32" => (atoi32 m base).map fun (v, e) => (v.toNat, e)
  | "i64" => (atoi64 m base).map fun (v, e) => (v.toNat, e)
  | "u8" => (atou8 m 0 base).map fun (v, e) => (v.toNat, e)
  | "u16" => (atou16 m 0 base).map fun (v, e) => (v.toNat, e)
  | "u32" => (atou32 m 0 base).map fun (v, e) => (v.toNat, e)
  | "u64" => (atou64 m 0 base).map fun (v, e) => (v.toNat, e)
  | _ => none

def flipCase (b : Byte) : Byte :=
  if 97 ≤ b.toNat ∧ b.toNat ≤ 122 then b - 32#8
  else if 65 ≤ b.toNat ∧ b.toNat ≤ 90 then b + 32#8 else b

def isKind (k : String) : Bool := ["i8", "i16", "i32", "i64", "u8", "u16", "u32", "u64"].contains k

/-- one value: the bytes written (canonical length + 1), the returned offset,
    and, for a valid base, the parse-back of the text -/
structure RT where
  raw : List Byte
  ret : Nat
  back : Option (Nat × Nat)

def roundTrip (k : String) (v : BitVec 64) (base : Nat) (exact : Bool) : Option RT := do
  let b8 := BitVec.ofNat 8 base
  let (m, ret) ← toaK k v (fill (kbits k + 8)) b8
  let n := touched m
  -- the harness buffer has exactly (canonical length + 1) bytes: the model must not need more
  let (m, ret) ← if exact then toaK k v (fill n) b8 else pure (m.take n, ret)
  if base < 2 ∨ base > 36 then pure ⟨m, ret, none⟩
  else
    match m.getLast? with
    | some 0 => do
        let r ← atoK k m b8
        pure ⟨m, ret, some r⟩
    | _ => pure ⟨m, ret, none⟩

def fnvByte (h : UInt64) (b : UInt8) : UInt64 := (h ^^^ b.toUInt64) * 1099511628211
def fnvBytes (h : UInt64) (bs : List Byte) : UInt64 := bs.foldl (fun h b => fnvByte h b.toNat.toUInt8) h
def fnvLE64 (h : UInt64) (v : Nat) : UInt64 :=
  (List.range 8).foldl (fun h i => fnvByte h ((v >>> (8 * i)) % 256).toUInt8) h

def extendK (k : String) (v : Nat) : BitVec 64 :=
  let w := kbits k
  if k.startsWith "i" then
    match w with
    | 8 => (BitVec.ofNat 8 v).signExtend 64
    | 16 => (BitVec.ofNat 16 v).signExtend 64
    | 32 => (BitVec.ofNat 32 v).signExtend 64
    | _ => BitVec.ofNat 64 v
  else BitVec.ofNat 64 (v % 2 ^ w)

def rngLoop (k : String) (base : Nat) (stride : Nat) : Nat → Nat → UInt64 → List Byte → Option (UInt64 × List Byte)
  | 0, _, h, last => some (h, last)
  | n + 1, v, h, _ =>
    match roundTrip k (extendK k v) base false with
    | none => none
    | some r =>
      let h := fnvBytes h r.raw
      let h := fnvByte h r.ret.toUInt8
      let h := fnvLE64 h (match r.back with | some (x, _) => x | none => 0)
      let h := fnvByte h (match r.back with | some (_, e) => e.toUInt8 | none => 0xff)
      rngLoop k base stride n ((v + stride) % 2 ^ 64) h r.raw

def showOpt (r : Option String) : String := r.getD "fault"

def dprModel (fn : String) (v : BitVec 64) : Option (List Byte) :=
  match fn with
  | "dec_u8" => printdecU8 (v.truncate 8)
  | "dec_u16" => printdecU16 (v.truncate 16)
  | "dec_u32" => printdecU32 (v.truncate 32)
  | "dec_u64" => printdecU64 v
  | "dec_uc" => printdecUChar (v.truncate 8)
  | "dec_us" => printdecUShort (v.truncate 16)
  | "dec_ui" => printdecUInt (v.truncate 32)
  | "dec_ul" => printdecULong v
  | "dec_ull" => printdecULL v
  | "dec_sc" => printdecSChar (v.truncate 8)
  | "dec_ss" => printdecSShort (v.truncate 16)
  | "dec_si" => printdecSInt (v.truncate 32)
  | "dec_sl" => printdecSLong v
  | "dec_sll" => printdecSLL v
  | "hex_u4" => some (printhexU4 (v.truncate 8 &&& 0x0F#8))
  | "hex_u4x" => some (printhexU4 (v.truncate 8))      -- round 3b: the whole uint8_t argument range
  | "bin_u4x" => some (printbinU4 (v.truncate 8))
  | "hex_u8" => some (printhexU8 (v.truncate 8))
  | "hex_c" | "hex_uc" | "hex_sc" => printhexChar (v.truncate 8)
  | "hex_u16" => some (printhexU16 (v.truncate 16))
  | "hex_us" | "hex_ss" => printhexShort (v.truncate 16)
  | "hex_u32" => some (printhexU32 (v.truncate 32))
  | "hex_ui" | "hex_si" => printhexInt (v.truncate 32)
  | "hex_u64" => some (printhexU64 v)
  | "hex_ul" | "hex_ull" | "hex_sl" | "hex_sll" => printhexLong v
  | "hex_ptr" => printhexPtr v
  | "bin_u4" => some (printbinU4 (v.truncate 8 &&& 0x0F#8))
  | "bin_u8" => some (printbinU8 (v.truncate 8))
  | "bin_u16" => some (printbinU16 (v.truncate 16))
  | "bin_u32" => some (printbinU32 (v.truncate 32))
  | "bin_u64" => some (printbinU64 v)
  | _ => none

/-- `<length> <FNV-1a of the bytes> <the first 48 bytes>` -/
def showStream (s : List Byte) : String :=
  toString s.length ++ " " ++ hexOfNat 16 (fnvBytes 14695981039346656037 s).toNat ++ " " ++ bytesHex (s.take 48)

def repeatBytes (bs : List Byte) (rep : Nat) : List Byte := (List.replicate rep bs).flatten

/-- `len` bytes of the pattern repeated -/
def patternBytes (pat : List Byte) (len : Nat) : List Byte :=
  if pat.isEmpty then [] else (repeatBytes pat (len / pat.length + 1)).take len

def whModel (fn : String) (mem : List Byte) (p size : Nat) : Option (List Byte) :=
  match fn with
  | "hex" => writehex mem p (BitVec.ofNat 16 size)
  | "hexr" => writehexReversed mem p (BitVec.ofNat 16 size)
  | "bin" => writebin mem p (BitVec.ofNat 16 size)
  | "binr" => writebinReversed mem p (BitVec.ofNat 16 size)
  | "hexn" => printhexNI mem p (BitVec.ofNat 32 size)   -- round 3b: `int n` at its C width
  | _ => none

def hxaModel (w : Nat) (v : Nat) : Option String := do
  let txt ← match w with
    | 8 => some (uint8ToHex (BitVec.ofNat 8 v))
    | 16 => some (uintToHex (BitVec.ofNat 16 v) 2)
    | 32 => some (uintToHex (BitVec.ofNat 32 v) 4)
    | 64 => some (uintToHex (BitVec.ofNat 64 v) 8)
    | _ => none
  let back (t : List Byte) : Option Nat :=
    match w with
    | 8 => (hexToUint 8 1 t).map (·.toNat)
    | 16 => (hexToUint 16 2 t).map (·.toNat)
    | 32 => (hexToUint 32 4 t).map (·.toNat)
    | _ => (hexToUint 64 8 t).map (·.toNat)
  let b1 ← back txt
  let b2 ← back (txt.map flipCase)
  pure (bytesHex txt ++ " " ++ hexOfNat (w / 4) b1 ++ " " ++ hexOfNat (w / 4) b2)

def b2n (b : Bool) : Nat := if b then 1 else 0

def ctyEntry (c : Int) : String :=
  let mask := b2n (isdigitI c) + 2 * b2n (isxdigitI c) + 4 * b2n (isblankI c) + 8 * b2n (isspaceI c)
    + 16 * b2n (isupperI c) + 32 * b2n (islowerI c) + 64 * b2n (isalphaI c) + 128 * b2n (isalnumI c)
    + 256 * b2n (isprintI c)
  hexOfNat 4 mask ++ hexOfNat 2 ((toupperI c - c + 128).toNat % 256) ++ hexOfNat 2 ((tolowerI c - c + 128).toNat % 256)

/-- the text (up to the NUL) a rendering routine leaves in a fresh buffer -/
def textOf (r : Option (List Byte × Nat)) : List Byte :=
  match r with
  | some (m, _) => m.takeWhile (· ≠ 0#8)
  | none => [0x21#8]

def alphaModel : List Byte :=
  let ds := List.range 36
  let f (g : Nat → Option (List Byte × Nat)) : List Byte := ds.flatMap fun d => textOf (g d)
  f (fun d => i64toa (BitVec.ofNat 64 d) (fill 8) 36#8)
  ++ f (fun d => u64toa (BitVec.ofNat 64 d) (fill 8) 36#8)
  ++ f (fun d => itoa (BitVec.ofNat 32 d) (fill 8) 36#16)
  ++ f (fun d => utoa (BitVec.ofNat 32 d) (fill 8) 36#16)
  ++ f (fun d => ltoa (BitVec.ofNat 64 d) (fill 8) 36#16)
  ++ f (fun d => ultoa (BitVec.ofNat 64 d) (fill 8) 36#16)
  ++ (List.range 16).flatMap (fun d => printhexU4 (BitVec.ofNat 8 d))
  ++ (List.range 16).map (fun d => half2hex (BitVec.ofNat 8 d))

/-- widths and signedness of the types the model assumes and the NAME of the entry point fixes
    (`<bytes><s|u>`: value type of the renderers, return type of the parsers, argument of the typed
    printers).  Round 3b: the types the property does not fix (base, size and length parameters) are
    tags of the harness, no longer part of the compared line. -/
def constsModel : String :=
  "int=4 long=8 short=2 ptr=8 char=s le "
  ++ "toa:1s,2s,4s,8s,1u,2u,4u,8u "
  ++ "ato:1s,2s,4s,8s,1u,2u,4u,8u "
  ++ "lc:4s,4u,8s,8u atol:8s atoi:4s "
  ++ "dpr:1u,2u,4u,8u,8u,1s,2s,4s,8s,8s,1u,1u,2u,4u,8u,1s,1u,2u,4u,8u,8u,1s,2s,4s,8s,8s,1u,1u,2u,4u,8u"

def maxOf (k : String) : Nat := 2 ^ (if k.startsWith "i" then kbits k - 1 else kbits k) - 1

def lenOfToa (k : String) (v : BitVec 64) (base : Nat) : Option Nat := do
  let (m, _) ← toaK k v (fill (kbits k + 8)) (BitVec.ofNat 8 base)
  let n := touched m
  let (_, ret) ← toaK k v (fill n) (BitVec.ofNat 8 base)
  pure ret

def seqLoop (k : String) (v : BitVec 64) : List Nat → List Byte → Option (List Byte)
  | [], m => some m
  | b :: bs, m => (toaK k v m (BitVec.ofNat 8 b)).bind fun (m, _) => seqLoop k v bs m

def preModel : String :=
  let a := textOf (i32toa (BitVec.ofInt 32 (-2147483648)) (fill 16) 10#8)
  let b := textOf (u64toa (BitVec.ofNat 64 (2 ^ 64 - 1)) (fill 72) 2#8)
  let c := match atou32 [0x34#8, 0x32#8, 0x39#8, 0x34#8, 0x39#8, 0x36#8, 0x37#8, 0x32#8, 0x39#8, 0x35#8, 0#8] 0 10#8 with
    | some (v, e) => hexOfNat 8 v.toNat ++ "/" ++ toString e
    | none => "fault"
  let d := (printdecSLL (BitVec.ofInt 64 (-9223372036854775808))).getD [0x21#8]
  let e := printhexU32 0xDEADBEEF#32
  let f := textOf (itoa (BitVec.ofInt 32 (-255)) (fill 16) 16#16)
  bytesHex a ++ " " ++ bytesHex b ++ " " ++ c ++ " " ++ bytesHex d ++ " " ++ bytesHex e ++ " " ++ bytesHex f

def lcModel (fn : String) (v : BitVec 64) (m : List Byte) (base : BitVec 16) : Option (List Byte × Nat) :=
  match fn with
  | "itoa" => itoa (v.truncate 32) m base
  | "utoa" => utoa (v.truncate 32) m base
  | "ltoa" => ltoa v m base
  | "ultoa" => ultoa v m base
  | _ => none

def stepLine (_ : Unit) (line : String) : Unit × String :=
  let r : Option String :=
    match (match words line with | "twin" :: rest => rest | ws => ws) with
    | ["reset"] => some "ok"
    | ["toa", k, b, v] => do
        if !isKind k then none
        let base ← b.toNat?
        let v ← parseHexNat? v
        let w := kbits k
        pure <| showOpt do
          let r ← roundTrip k (BitVec.ofNat 64 v) base true
          let s := bytesHex r.raw ++ " " ++ toString r.ret
          match r.back with
          | none => pure s
          | some (x, e) =>
            -- the same text with the case of every letter flipped
            let (xf, ef) ← atoK k (r.raw.map flipCase) (BitVec.ofNat 8 base)
            pure (s ++ " " ++ hexOfNat (w / 4) x ++ " " ++ toString e ++ " " ++ hexOfNat (w / 4) xf ++ " " ++ toString ef)
    | ["rng", k, b, lo, n, stride] => do
        if !isKind k then none
        let base ← b.toNat?
        let lo ← parseHexNat? lo
        let n ← n.toNat?
        let stride ← stride.toNat?
        pure <| showOpt do
          let (h, last) ← rngLoop k base stride n lo 14695981039346656037 []
          pure (hexOfNat 16 h.toNat ++ " " ++ bytesHex last)
    | ["sweep", _, _, _, n] => some ("swept " ++ n)
    | ["ato", k, b, s] => do
        if !isKind k then none
        let base ← b.toNat?
        let s ← parseBytes? s
        if s.getLast? != some 0#8 then none
        pure <| showOpt do
          let (x, e) ← atoK k s (BitVec.ofNat 8 base)
          pure (hexOfNat (kbits k / 4) x ++ " " ++ toString e)
    | ["lc", fn, b, v] => do
        let base ← b.toNat?
        let v ← parseHexNat? v
        let v := BitVec.ofNat 64 v
        pure <| showOpt do
          let (m, _) ← lcModel fn v (fill 72) (BitVec.ofNat 16 base)
          let (m, ret) ← lcModel fn v (fill (touched m)) (BitVec.ofNat 16 base)
          pure (bytesHex m ++ " " ++ toString ret)
    | ["atol", s] => do
        let s ← parseBytes? s
        if s.getLast? != some 0#8 then none
        pure <| showOpt do
          let l ← atol s
          let i ← atoi s
          pure (hexOfNat 16 l.toNat ++ " " ++ hexOfNat 8 i.toNat)
    | ["dpr", fn, v] => do
        let v ← parseHexNat? v
        pure <| showOpt do
          let s ← dprModel fn (BitVec.ofNat 64 v)
          pure (bytesHex s)
    | ["vt", v] => do
        let v ← parseHexNat? v
        let arg := BitVec.ofNat 32 v
        pure <| showOpt do
          let (m, _) ← vt100Left (fill 40) arg
          let (m, ret) ← vt100Left (fill (touched m)) arg
          pure (bytesHex m ++ " " ++ toString ret)
    | ["wh", fn, p, size, rep, hx] => do
        let p ← p.toNat?
        let size ← size.toNat?
        let rep ← rep.toNat?
        let bs ← parseBytes? hx
        pure <| showOpt do
          let s ← whModel fn (repeatBytes bs rep) p size
          pure (showStream s)
    | ["dump", len, rep, hx] => do
        let len ← len.toNat?
        let rep ← rep.toNat?
        let bs ← parseBytes? hx
        pure <| showOpt do
          let s ← printDump 0#64 (repeatBytes bs rep) (BitVec.ofNat 16 len)
          pure (showStream s)
    | ["hxa", w, v] => do
        let w ← w.toNat?
        let v ← parseHexNat? v
        pure <| showOpt (hxaModel w v)
    | ["tbl", "h2x"] => some (bytesHex ((List.range 256).map fun n => half2hex (BitVec.ofNat 8 n)))
    | ["tbl", "dv"] => some <| showOpt do
        let bs ← (List.range 256).mapM fun c => do
          let (v, e) ← atou8 [BitVec.ofNat 8 c, 0#8] 0 255#8
          pure (BitVec.ofNat 8 (v.toNat + 128 * e))
        pure (bytesHex bs)
    | ["tbl", "cty"] => some (String.join ((List.range 384).map fun (i : Nat) => ctyEntry (Int.ofNat i - 128)))
    | ["tbl", "alpha"] => some (bytesHex alphaModel)
    | ["consts"] => some constsModel
    | ["pre"] => some preModel
    | ["maxlen", k, b] => do
        if !isKind k then none
        let base ← b.toNat?
        pure <| showOpt do
          let lmax ← lenOfToa k (BitVec.ofNat 64 (maxOf k)) base
          if k.startsWith "i" then
            let lmin ← lenOfToa k (BitVec.ofInt 64 (-(maxOf k : Int) - 1)) base
            pure (toString lmax ++ " " ++ toString lmin)
          else pure (toString lmax ++ " -")
    | ["atorep", k, b, len, pat, tail] => do
        if !isKind k then none
        let base ← b.toNat?
        let len ← len.toNat?
        let pat ← parseBytes? pat
        let tail ← parseBytes? tail
        if tail.getLast? != some 0#8 then none
        pure <| showOpt do
          let (x, e) ← atoK k (patternBytes pat len ++ tail) (BitVec.ofNat 8 base)
          pure (hexOfNat (kbits k / 4) x ++ " " ++ toString e)
    | ["seq", k, v, bases] => do
        if !isKind k then none
        let v ← parseHexNat? v
        let bs ← (bases.splitOn ",").mapM (·.toNat?)
        pure <| showOpt do
          let m ← seqLoop k (BitVec.ofNat 64 v) bs (fill 72)
          pure (bytesHex (m.take (touched m)))
    | "asml" :: w :: vs => do
        let w ← w.toNat?
        let vs ← vs.mapM parseHexNat?
        if vs.length == 0 || vs.length > 4 then none
        match w with
        | 8 => some (bytesHex (asmlinkArgs8 (vs.map (BitVec.ofNat 8))))
        | 16 => some (bytesHex (asmlinkArgs16 (vs.map (BitVec.ofNat 16))))
        | 32 => some (bytesHex (asmlinkArgs32 (vs.map (BitVec.ofNat 32))))
        | _ => none
    | ["asmr", v] => do
        let v ← parseHexNat? v
        pure <| showOpt do
          let a ← dprptr (BitVec.ofNat 64 v)
          let b ← dprptrln (BitVec.ofNat 64 v)
          pure (hexOfNat 2 asmlinkRet8.toNat ++ " " ++ hexOfNat 4 asmlinkRet16.toNat ++ " " ++ hexOfNat 8 asmlinkRet32.toNat ++ " "
            ++ hexOfNat 16 asmlinkRet64.toNat ++ " " ++ bytesHex asmlinkTest ++ " " ++ bytesHex a ++ " " ++ bytesHex b ++ " "
            ++ bytesHex debugPrintNull)
    | ["h2h", c] => do
        let c ← parseHexNat? c
        pure (hexOfNat 2 (hex2half (BitVec.ofNat 8 c)).toNat)
    | _ => none
  ((), r.getD "bad-op")

def main : IO Unit := run () stepLine
