/-
  C07 — lemmas of extension round 3b: `debug_printhex_n` with `int n` at its C width,
  the nibble printers on their whole argument range.
-/
import IgrisModel.C07.Lemmas3
namespace Igris.C07
open Igris.Proto

/-- a negative `n` never reaches a test that reads 0: every path ends in a load in front of the
    object, or in `n--` on INT_MIN -/
theorem hexNLoopI_neg (mem : Array Byte) : ∀ (fuel : Nat) (n : Int) (p : Nat) (out : List Byte),
    n < 0 → hexNLoopI mem fuel n p out = none := by
  intro fuel
  induction fuel with
  | zero => intro n p out _; rfl
  | succ fuel ih =>
    intro n p out hn
    unfold hexNLoopI
    split
    · rfl
    · split
      · omega
      · split
        · rfl
        · split
          · rfl
          · exact ih (n - 1) (p - 1) _ (by omega)

/-- for `n ≥ 0` (and enough fuel) it is the loop of `printhexN` -/
theorem hexNLoopI_nonneg (mem : Array Byte) : ∀ (fuel k p : Nat) (out : List Byte),
    k < fuel → hexNLoopI mem fuel (k : Int) p out = hexNLoop mem k p out := by
  intro fuel
  induction fuel with
  | zero => intro k p out h; omega
  | succ fuel ih =>
    intro k p out hk
    unfold hexNLoopI
    have h1 : ¬ ((k : Int) = -2147483648) := by omega
    rw [if_neg h1]
    cases k with
    | zero => simp [hexNLoop]
    | succ k =>
      have h2 : ¬ (((k + 1 : Nat) : Int) = 0) := by omega
      rw [if_neg h2]
      unfold hexNLoop
      split
      · rfl
      · split
        · rfl
        · have e : ((k + 1 : Nat) : Int) - 1 = (k : Int) := by omega
          rw [e]
          exact ih k (p - 1) _ (by omega)

theorem printhexU4_total : ∀ b : Byte,
    (∃ c, printhexU4 b = [c] ∧ c.toNat = (b.toNat + (if b.toNat < 10 then 48 else 55)) % 256) ∧
    (b.toNat < 36 → printhexU4 b = [digitChar true b.toNat]) ∧
    (printhexU4 b = (fixedDigits 16 1 (b.toNat % 16)).map (digitChar true) ↔ b.toNat < 16) := by decide

theorem printbinU4_total : ∀ b : Byte,
    printbinU4 b = (fixedDigits 2 4 (b.toNat % 16)).map (digitChar true) := by decide

end Igris.C07
