/-
  C07 — lemmas of extension round 3 (lengths of digit strings, the parser
  grammar, the byte-stream printers, hexascii.h)
-/
import IgrisModel.C07.Lemmas
namespace Igris.C07
open Igris.Proto

/-! ## the length of a digit string, exactly -/

theorem lsd_length_le_iff {b : Nat} (hb : 2 ≤ b) : ∀ (k n : Nat), ((lsd b n).length ≤ k + 1 ↔ n < b ^ (k + 1)) := by
  intro k
  induction k with
  | zero =>
    intro n
    by_cases h : n < b
    · rw [lsd_small h]; simp [h]
    · rw [lsd_big hb (by omega)]
      have := lsd_length_pos b (n / b)
      simp only [List.length_cons, Nat.zero_add, Nat.pow_one]
      omega
  | succ k ih =>
    intro n
    by_cases h : n < b
    · rw [lsd_small h]
      have : b ^ 1 ≤ b ^ (k + 1 + 1) := Nat.pow_le_pow_right (by omega) (by omega)
      simp only [List.length_cons, List.length_nil]
      rw [Nat.pow_one] at this
      omega
    · rw [lsd_big hb (by omega)]
      have := ih (n / b)
      simp only [List.length_cons]
      rw [Nat.pow_succ b (k + 1), ← Nat.div_lt_iff_lt_mul (by omega)]
      omega

theorem digits_length_le_iff' {b : Nat} (hb : 2 ≤ b) (k n : Nat) : (digits b n).length ≤ k + 1 ↔ n < b ^ (k + 1) := by
  simpa [digits] using lsd_length_le_iff hb k n

theorem digits_length_pos (b n : Nat) : 0 < (digits b n).length := by
  simpa [digits] using lsd_length_pos b n

theorem digits_length_mono {b : Nat} (hb : 2 ≤ b) {n m : Nat} (h : n ≤ m) : (digits b n).length ≤ (digits b m).length := by
  have hp := digits_length_pos b m
  obtain ⟨k, hk⟩ : ∃ k, (digits b m).length = k + 1 := ⟨(digits b m).length - 1, by omega⟩
  rw [hk, digits_length_le_iff' hb]
  have := (digits_length_le_iff' hb k m).1 (by omega)
  omega

theorem digits_length_eq_iff' {b : Nat} (hb : 2 ≤ b) (k n : Nat) :
    (digits b n).length = k + 1 ↔ (k = 0 ∨ b ^ k ≤ n) ∧ n < b ^ (k + 1) := by
  have h1 := digits_length_le_iff' hb k n
  have hp := digits_length_pos b n
  cases k with
  | zero =>
    constructor
    · intro h; exact ⟨Or.inl rfl, h1.1 (by omega)⟩
    · rintro ⟨_, h⟩; have := h1.2 h; omega
  | succ j =>
    have h2 := digits_length_le_iff' hb j n
    constructor
    · intro h; refine ⟨Or.inr ?_, by omega⟩
      by_cases hc : n < b ^ (j + 1)
      · have := h2.2 hc; omega
      · omega
    · rintro ⟨h | h, h'⟩
      · omega
      · have := h1.2 h'
        by_cases hc : (digits b n).length ≤ j + 1
        · have := h2.1 hc; omega
        · omega

theorem canonInt_length (up : Bool) (b : Nat) (v : Int) :
    (canonInt up b v).length = (if v < 0 then 1 else 0) + (digits b v.natAbs).length := by
  by_cases h : v < 0
  · rw [canonInt_length_neg _ _ _ h]; simp [h]; omega
  · rw [canonInt_length_nonneg _ _ _ h]; simp [h]

theorem longest_unsigned (up : Bool) {b : Nat} (hb : 2 ≤ b) (w n : Nat) (hn : n < 2 ^ w) :
    (canonNat up b n).length ≤ (canonNat up b (2 ^ w - 1)).length := by
  rw [canonNat_length, canonNat_length]; exact digits_length_mono hb (by omega)

theorem longest_signed (up : Bool) {b : Nat} (hb : 2 ≤ b) (w : Nat) (v : Int) (hlo : -(2 ^ w : Int) ≤ v) (hhi : v < 2 ^ w) :
    (canonInt up b v).length ≤ (canonInt up b (-(2 ^ w : Int))).length := by
  have hp : (0 : Int) < 2 ^ w := Int.pow_pos (by omega)
  have hcast : ((2 ^ w : Nat) : Int) = (2 : Int) ^ w := by norm_cast
  have hn : (-(2 ^ w : Int)).natAbs = 2 ^ w := by omega
  rw [canonInt_length, canonInt_length, hn]
  have hm := digits_length_mono hb (show v.natAbs ≤ 2 ^ w by omega)
  have : (-(2 ^ w : Int)) < 0 := by omega
  simp only [this, if_true]
  split <;> omega


/-! ## the grammar of the parsers -/

theorem charDigit_eq : ∀ c : Byte, charDigit c = if digitValue c = 255 then none else some (digitValue c) := by
  decide +kernel

theorem isDigitOf_iff (b : Nat) (hb : b ≤ 255) (c : Byte) : isDigitOf b c = decide (digitValue c < b) := by
  unfold isDigitOf
  rw [charDigit_eq]
  by_cases h : digitValue c = 255
  · simp [h]; omega
  · simp [h]

theorem isDigitOf_fun (b : Nat) (hb : b ≤ 255) : isDigitOf b = fun c => decide (digitValue c < b) :=
  funext (isDigitOf_iff b hb)

theorem filterMap_charDigit (b : Nat) (hb : b ≤ 255) : ∀ l : List Byte, (∀ c ∈ l, digitValue c < b) →
    l.filterMap charDigit = l.map digitValue := by
  intro l
  induction l with
  | nil => intro _; rfl
  | cons c cs ih =>
    intro h
    have hc := h c (by simp)
    have : digitValue c ≠ 255 := by omega
    simp only [List.filterMap_cons, charDigit_eq, this, if_false, List.map_cons]
    rw [ih (fun x hx => h x (by simp [hx]))]

/-- the loop on ANY memory: it runs off the end iff every byte is a digit of the base, and
    otherwise returns the value of the longest digit prefix and its length -/
theorem atouLoop_any (M b : Nat) : ∀ (m : List Byte) (r pos : Nat),
    atouLoop M b m (r % M) pos
      = if m.all (fun c => decide (digitValue c < b)) then none
        else some (((m.takeWhile (fun c => decide (digitValue c < b))).map digitValue).foldl (fun a d => a * b + d) r % M,
                   pos + (m.takeWhile (fun c => decide (digitValue c < b))).length) := by
  intro m
  induction m with
  | nil => intro r pos; simp [atouLoop]
  | cons c cs ih =>
    intro r pos
    by_cases hc : digitValue c < b
    · simp only [atouLoop, hc, if_true, List.all_cons, decide_true, Bool.true_and, List.takeWhile_cons,
        List.map_cons, List.foldl_cons, List.length_cons]
      rw [mod_step, ih (r * b + digitValue c) (pos + 1)]
      split
      · rfl
      · congr 2; omega
    · simp [atouLoop, hc]

theorem takeWhile_all_mem {α : Type} (p : α → Bool) : ∀ l : List α, ∀ x ∈ l.takeWhile p, p x = true := by
  intro l
  induction l with
  | nil => intro x hx; simp at hx
  | cons a as ih =>
    intro x hx
    by_cases ha : p a = true
    · simp only [List.takeWhile_cons, ha, if_true, List.mem_cons] at hx
      rcases hx with rfl | hx
      · exact ha
      · exact ih x hx
    · simp [List.takeWhile_cons, ha] at hx

theorem atou_grammar (M : Nat) (base : BitVec 8) (m : List Byte) :
    atouLoop M base.toNat m 0 0
      = if m.all (isDigitOf base.toNat) then none
        else some (prefixValue base.toNat m % M, (numberPrefix base.toNat m).length) := by
  have hb : base.toNat ≤ 255 := by have := base.isLt; omega
  have h := atouLoop_any M base.toNat m 0 0
  rw [Nat.zero_mod] at h
  rw [h, prefixValue, numberPrefix, isDigitOf_fun _ hb]
  rw [filterMap_charDigit _ hb _ (fun c hc => by
    have := takeWhile_all_mem _ m c hc; simpa using this)]
  simp [ofDigits]

/-- with a start offset `pos` (the sign has been skipped) -/
theorem atou_grammar_pos (M : Nat) (base : BitVec 8) (m : List Byte) (pos : Nat) :
    atouLoop M base.toNat m 0 pos
      = if m.all (isDigitOf base.toNat) then none
        else some (prefixValue base.toNat m % M, pos + (numberPrefix base.toNat m).length) := by
  have hb : base.toNat ≤ 255 := by have := base.isLt; omega
  have h := atouLoop_any M base.toNat m 0 pos
  rw [Nat.zero_mod] at h
  rw [h, prefixValue, numberPrefix, isDigitOf_fun _ hb]
  rw [filterMap_charDigit _ hb _ (fun c hc => by
    have := takeWhile_all_mem _ m c hc; simpa using this)]
  simp [ofDigits]

theorem isDigitOf_nul (b : Nat) (hb : b ≤ 255) : isDigitOf b 0#8 = false := by
  rw [isDigitOf_iff b hb, digitValue_nul]; simp; omega

theorem ofDigits_leading_zeros (b : Nat) (ds : List Nat) : ∀ k, ofDigits b (List.replicate k 0 ++ ds) = ofDigits b ds := by
  intro k
  induction k with
  | zero => simp
  | succ k ih =>
    simp only [List.replicate_succ, List.cons_append, ofDigits, List.foldl_cons] at ih ⊢
    simpa using ih


/-! ## the byte-stream printers -/

theorem emit_emit (out a b : List Byte) : emit (emit out a) b = emit out (a ++ b) := by
  simp [emit]

theorem emit_nil_reverse (s : List Byte) : (emit [] s).reverse = s := by simp [emit]

theorem writeFwdLoop_spec (f : Byte → List Byte) (mem : List Byte) : ∀ (n p : Nat) (out : List Byte),
    writeFwdLoop f mem.toArray n p out
      = if n = 0 ∨ p + n ≤ mem.length then some (emit out (((mem.drop p).take n).flatMap f)) else none := by
  intro n
  induction n with
  | zero => intro p out; simp [writeFwdLoop, emit]
  | succ n ih =>
    intro p out
    simp only [writeFwdLoop, List.getElem?_toArray]
    by_cases hp : p < mem.length
    · rw [List.getElem?_eq_getElem hp]
      simp only []
      rw [ih (p + 1) (emit out (f mem[p])), emit_emit]
      have hd : mem.drop p = mem[p] :: mem.drop (p + 1) := List.drop_eq_getElem_cons hp
      rw [hd]
      simp only [List.take_succ_cons, List.flatMap_cons]
      by_cases h1 : n = 0 ∨ p + 1 + n ≤ mem.length
      · have h2 : n + 1 = 0 ∨ p + (n + 1) ≤ mem.length := by omega
        rw [if_pos h1, if_pos h2]
      · have h2 : ¬ (n + 1 = 0 ∨ p + (n + 1) ≤ mem.length) := by omega
        rw [if_neg h1, if_neg h2]
    · have : mem[p]? = none := by simp; omega
      rw [this]
      have h2 : ¬ (n + 1 = 0 ∨ p + (n + 1) ≤ mem.length) := by omega
      rw [if_neg h2]

theorem writeRevLoop_spec (f : Byte → List Byte) (mem : List Byte) : ∀ (n p : Nat) (out : List Byte),
    writeRevLoop f mem.toArray n p out
      = if n = 0 ∨ (n ≤ p ∧ p ≤ mem.length) then some (emit out (((mem.drop (p - n)).take n).reverse.flatMap f)) else none := by
  intro n
  induction n with
  | zero => intro p out; simp [writeRevLoop, emit]
  | succ n ih =>
    intro p out
    simp only [writeRevLoop, List.getElem?_toArray]
    by_cases hp0 : p = 0
    · subst hp0; simp
    · simp only [hp0, if_false]
      by_cases hp : p - 1 < mem.length
      · rw [List.getElem?_eq_getElem hp]
        simp only []
        rw [ih (p - 1) (emit out (f mem[p - 1])), emit_emit]
        by_cases h1 : n + 1 ≤ p
        · have hc1 : n = 0 ∨ (n ≤ p - 1 ∧ p - 1 ≤ mem.length) := by omega
          have hc2 : n + 1 = 0 ∨ (n + 1 ≤ p ∧ p ≤ mem.length) := by omega
          simp only [hc1, hc2, if_true]
          have e1 : p - 1 - n = p - (n + 1) := by omega
          rw [e1]
          have hlen : n < (mem.drop (p - (n + 1))).length := by simp; omega
          have hts : (mem.drop (p - (n + 1))).take (n + 1)
              = (mem.drop (p - (n + 1))).take n ++ [mem[p - 1]] := by
            rw [List.take_succ, List.getElem?_eq_getElem hlen]
            simp only [Option.toList_some, List.getElem_drop]
            congr 3; omega
          rw [hts]
          simp
        · have hc2 : ¬ (n + 1 = 0 ∨ (n + 1 ≤ p ∧ p ≤ mem.length)) := by omega
          have hc1 : ¬ (n = 0 ∨ (n ≤ p - 1 ∧ p - 1 ≤ mem.length)) ∨ n = 0 := by omega
          rcases hc1 with hc1 | hn
          · rw [if_neg hc1, if_neg hc2]
          · subst hn; omega
      · have : mem[p - 1]? = none := by simp; omega
        rw [this]
        have hc2 : ¬ (n + 1 = 0 ∨ (n + 1 ≤ p ∧ p ≤ mem.length)) := by omega
        rw [if_neg hc2]

theorem hexNLoop_eq (mem : Array Byte) : ∀ (n p : Nat) (out : List Byte),
    hexNLoop mem n p out = writeRevLoop printhexU8 mem n p out := by
  intro n
  induction n with
  | zero => intro p out; rfl
  | succ n ih =>
    intro p out
    simp only [hexNLoop, writeRevLoop]
    split
    · rfl
    · split
      · rfl
      · exact ih _ _

theorem bytesLE_length {w : Nat} : ∀ (k : Nat) (a : BitVec w), (bytesLE a k).length = k := by
  intro k
  induction k with
  | zero => intro a; rfl
  | succ k ih => intro a; simp [bytesLE, ih]

theorem ofBytesLE_bytesLE {w : Nat} : ∀ (k : Nat) (a : BitVec w), ofBytesLE (bytesLE a k) = a.toNat % 256 ^ k := by
  intro k
  induction k with
  | zero => intro a; simp [bytesLE, ofBytesLE, Nat.mod_one]
  | succ k ih =>
    intro a
    simp only [bytesLE, ofBytesLE, ih]
    have h1 : (a.truncate 8).toNat = a.toNat % 256 := by simp [BitVec.truncate_eq_setWidth]
    have h2 : (a >>> 8).toNat = a.toNat / 256 := by simp [BitVec.toNat_ushiftRight, Nat.shiftRight_eq_div_pow]
    rw [h1, h2, Nat.pow_succ, Nat.mul_comm (256 ^ k) 256, Nat.mod_mul]

/-! ## hexascii.h -/

theorem uint8ToHex_eq : ∀ b : Byte, uint8ToHex b = printhexU8 b := by decide

theorem hex2byte_uint8ToHex : ∀ b : Byte,
    hex2byte (half2hex (hiHalf b)) (half2hex (loHalf b)) = b := by decide

theorem hex2byte_lower : ∀ b : Byte,
    hex2byte (digitChar false (b.toNat / 16)) (digitChar false (b.toNat % 16)) = b
    ∧ hex2byte (digitChar true (b.toNat / 16)) (digitChar true (b.toNat % 16)) = b := by decide

theorem hex2half_digit : ∀ d, d < 16 → ∀ up, (hex2half (digitChar up d)).toNat = d := by decide

theorem hexPairs_flatMap : ∀ (bs rest : List Byte),
    hexPairs bs.length (bs.flatMap uint8ToHex ++ rest) = some bs := by
  intro bs
  induction bs with
  | nil => intro rest; simp [hexPairs]
  | cons b bs ih =>
    intro rest
    simp only [List.length_cons, List.flatMap_cons, uint8ToHex, List.cons_append, List.nil_append, hexPairs]
    rw [ih rest, hex2byte_uint8ToHex]
    rfl

theorem uintToHex_eq {w : Nat} (a : BitVec w) (k : Nat) : uintToHex a k = printhexBytes (bytesLE a k) := by
  simp only [uintToHex, printhexBytes]
  congr 1
  funext b
  exact uint8ToHex_eq b

theorem hexToUint_uintToHex {w : Nat} (k : Nat) (hw : 2 ^ w = 256 ^ k) (a : BitVec w) (rest : List Byte) :
    hexToUint w k (uintToHex a k ++ rest) = some a := by
  have hl : ((bytesLE a k).reverse).length = k := by simp [bytesLE_length]
  have := hexPairs_flatMap (bytesLE a k).reverse rest
  rw [hl] at this
  simp only [hexToUint, uintToHex, this, Option.map_some, List.reverse_reverse, ofBytesLE_bytesLE]
  congr 1
  apply BitVec.eq_of_toNat_eq
  rw [BitVec.toNat_ofNat, ← hw, Nat.mod_mod]
  exact Nat.mod_eq_of_lt a.isLt


theorem hexPairs_flatMap_case (up : Bool) : ∀ (bs rest : List Byte),
    hexPairs bs.length (bs.flatMap (fun b => [digitChar up (b.toNat / 16), digitChar up (b.toNat % 16)]) ++ rest) = some bs := by
  intro bs
  induction bs with
  | nil => intro rest; simp [hexPairs]
  | cons b bs ih =>
    intro rest
    simp only [List.length_cons, List.flatMap_cons, List.cons_append, List.nil_append, hexPairs]
    rw [ih rest]
    cases up
    · rw [(hex2byte_lower b).1]; rfl
    · rw [(hex2byte_lower b).2]; rfl

theorem hexToUint_case {w : Nat} (up : Bool) (k : Nat) (hw : 2 ^ w = 256 ^ k) (a : BitVec w) (rest : List Byte) :
    hexToUint w k ((bytesLE a k).reverse.flatMap (fun b => [digitChar up (b.toNat / 16), digitChar up (b.toNat % 16)]) ++ rest)
      = some a := by
  have hl : ((bytesLE a k).reverse).length = k := by simp [bytesLE_length]
  have := hexPairs_flatMap_case up (bytesLE a k).reverse rest
  rw [hl] at this
  simp only [hexToUint, this, Option.map_some, List.reverse_reverse, ofBytesLE_bytesLE]
  congr 1
  apply BitVec.eq_of_toNat_eq
  rw [BitVec.toNat_ofNat, ← hw, Nat.mod_mod]
  exact Nat.mod_eq_of_lt a.isLt

theorem fixedDigits16_2 : ∀ b : Byte, (fixedDigits 16 2 b.toNat).map (digitChar true)
    = [digitChar true (b.toNat / 16), digitChar true (b.toNat % 16)] := by decide

/-! ## letter case of the two alphabets -/

theorem digitChar_lower_not_upper : ∀ d, d < 36 → ¬ (65 ≤ (digitChar false d).toNat ∧ (digitChar false d).toNat ≤ 90) := by decide
theorem digitChar_upper_not_lower : ∀ d, d < 36 → ¬ (97 ≤ (digitChar true d).toNat ∧ (digitChar true d).toNat ≤ 122) := by decide

theorem digitChar_ne_nul : ∀ d, d < 36 → ∀ up, digitChar up d ≠ 0#8 := by decide

theorem canonNat_mem {b : Nat} (hb : 2 ≤ b) (up : Bool) (n : Nat) (c : Byte) (hc : c ∈ canonNat up b n) :
    ∃ d, d < b ∧ c = digitChar up d := by
  simp only [canonNat, List.mem_map] at hc
  obtain ⟨d, hd, rfl⟩ := hc
  exact ⟨d, digits_lt hb n d hd, rfl⟩

theorem canonInt_mem {b : Nat} (hb : 2 ≤ b) (up : Bool) (v : Int) (c : Byte) (hc : c ∈ canonInt up b v) :
    c = 0x2D#8 ∨ ∃ d, d < b ∧ c = digitChar up d := by
  simp only [canonInt, List.mem_append] at hc
  rcases hc with hc | hc
  · left; split at hc <;> simp_all
  · right; exact canonNat_mem hb up _ c hc

/-! ## atol: overflow of the (negative) accumulator -/

theorem inLong_neg_false (k : Nat) (h : 2 ^ 63 < k) : inLong (-(k : Int)) = false := by
  simp only [inLong, Bool.and_eq_false_iff, decide_eq_false_iff_not]
  have : (2 : Int) ^ 63 = ((2 ^ 63 : Nat) : Int) := by norm_cast
  left; omega

theorem atolDigits_overflow : ∀ (ds : List Nat) (acc : Nat) (t : Byte) (rest : List Byte),
    (∀ d ∈ ds, d < 10) → acc ≤ 2 ^ 63 → 2 ^ 63 < ds.foldl (fun a d => a * 10 + d) acc →
    atolDigits (ds.map (digitChar false) ++ t :: rest) (-(acc : Int)) = none := by
  intro ds
  induction ds with
  | nil => intro acc t rest _ h1 h2; simp only [List.foldl_nil] at h2; omega
  | cons d ds ih =>
    intro acc t rest hlt hacc hbig
    have hd := dec_char_facts d (hlt d (by simp))
    simp only [List.foldl_cons] at hbig
    have e : 10 * (-(acc : Int)) - (((digitChar false d).toNat : Int) - 48) = -((acc * 10 + d : Nat) : Int) := by
      rw [hd.2.1]; push_cast; omega
    have e0 : 10 * (-(acc : Int)) = -((acc * 10 : Nat) : Int) := by push_cast; omega
    simp only [List.map_cons, List.cons_append, atolDigits, hd.1, if_true]
    rw [e, e0]
    by_cases hle : acc * 10 + d ≤ 2 ^ 63
    · rw [inLong_neg _ (by omega), inLong_neg _ hle]
      simp only [Bool.and_self, if_true]
      exact ih (acc * 10 + d) t rest (fun x hx => hlt x (by simp [hx])) hle hbig
    · rw [inLong_neg_false (acc * 10 + d) (by omega)]
      simp

theorem isspaceC_iff : ∀ c : Byte, isspaceC c = decide (c ∈ spaceChars) := by decide
theorem isdigitC_iff : ∀ c : Byte, isdigitC c = decide (c ∈ decimalChars) := by decide

theorem skipSpace_append (ws : List Byte) (x : Byte) (tl : List Byte) (hws : ∀ c ∈ ws, isspaceC c = true)
    (hx : isspaceC x = false) : skipSpace (ws ++ x :: tl) = x :: tl := by
  induction ws with
  | nil => simp [skipSpace, hx]
  | cons w ws ih =>
    simp only [List.cons_append, skipSpace, hws w (by simp), if_true]
    exact ih (fun c hc => hws c (by simp [hc]))

/-- the digit loop and the final sign handling, for a digit run that starts the accumulation at 0 -/
theorem atol_tail (neg : Bool) (ds : List Nat) (t : Byte) (rest : List Byte) (hds : ∀ d ∈ ds, d < 10)
    (ht : isdigitC t = false) :
    ((atolDigits (ds.map (digitChar false) ++ t :: rest) 0).bind fun total =>
        if neg then some (BitVec.ofInt 64 total)
        else if inLong (-total) then some (BitVec.ofInt 64 (-total)) else none)
      = if neg then (if ofDigits 10 ds ≤ 2 ^ 63 then some (BitVec.ofInt 64 (-(ofDigits 10 ds : Int))) else none)
        else (if ofDigits 10 ds < 2 ^ 63 then some (BitVec.ofInt 64 (ofDigits 10 ds : Int)) else none) := by
  have hp : (2 : Int) ^ 63 = ((2 ^ 63 : Nat) : Int) := by norm_cast
  have h0 : (0 : Int) = -((0 : Nat) : Int) := by simp
  by_cases hle : ofDigits 10 ds ≤ 2 ^ 63
  · have := atolDigits_spec ds 0 t rest hds ht hle
    rw [← h0] at this
    rw [this]
    simp only [Option.bind_some, Int.neg_neg]
    cases neg
    · simp only [Bool.false_eq_true, if_false]
      by_cases hlt : ofDigits 10 ds < 2 ^ 63
      · have : inLong ((ofDigits 10 ds : Nat) : Int) = true := inLong_pos _ hlt
        simp only [ofDigits] at this hlt ⊢
        rw [this]; simp [hlt]
      · have : inLong ((ofDigits 10 ds : Nat) : Int) = false := by
          simp only [inLong, Bool.and_eq_false_iff, decide_eq_false_iff_not]; right; omega
        simp only [ofDigits] at this hlt ⊢
        rw [this]; simp [hlt]
    · simp only [ofDigits] at hle ⊢
      simp [hle]
  · have := atolDigits_overflow ds 0 t rest hds (by omega) (by simp only [ofDigits] at hle; omega)
    rw [← h0] at this
    rw [this]
    have hlt : ¬ ofDigits 10 ds < 2 ^ 63 := by omega
    cases neg <;> simp [hle, hlt]


/-! ## debug_print_dump -/

theorem isprintI_byte : ∀ b : Byte, isprintI b.toInt = decide (32 ≤ b.toNat ∧ b.toNat ≤ 126) := by decide

def asciiOf (bytes : List Byte) (j : Nat) : Byte :=
  match bytes[j]? with
  | some b => if 32 ≤ b.toNat ∧ b.toNat ≤ 126 then b else 0x2E#8
  | none => 0x20#8

theorem dumpAscii_spec (mem : List Byte) (len : Nat) : ∀ (cnt j : Nat) (out : List Byte),
    (len ≤ mem.length ∨ j + cnt ≤ mem.length) →
    dumpAscii mem.toArray len cnt j out = some (emit out ((List.range' j cnt).map (asciiOf (mem.take len)))) := by
  intro cnt
  induction cnt with
  | zero => intro j out _; simp [dumpAscii, emit]
  | succ cnt ih =>
    intro j out h
    simp only [dumpAscii, List.getElem?_toArray, List.range'_succ, List.map_cons]
    by_cases hj : j ≥ len
    · rw [if_pos hj, ih (j + 1) _ (by omega), emit_emit]
      have : asciiOf (mem.take len) j = 0x20#8 := by
        simp only [asciiOf, List.getElem?_take]
        rw [if_neg (by omega)]
      rw [this]; rfl
    · rw [if_neg hj]
      have hm : j < mem.length := by omega
      rw [List.getElem?_eq_getElem hm]
      simp only []
      rw [ih (j + 1) _ (by omega), emit_emit]
      have : asciiOf (mem.take len) j = if isprintI mem[j].toInt then mem[j] else 0x2E#8 := by
        simp only [asciiOf, List.getElem?_take]
        rw [if_pos (by omega), List.getElem?_eq_getElem hm, isprintI_byte]
        simp
      rw [this]; rfl

theorem printhexPtr_spec (a : BitVec 64) :
    printhexPtr a = some ((fixedDigits 16 16 a.toNat).map (digitChar true)) := by
  rw [printhexPtr, writehexReversed, writeRevLoop_spec]
  have h8 : (8#16 : BitVec 16).toNat = 8 := rfl
  simp only [h8, Nat.zero_add]
  have : 8 = 0 ∨ 8 ≤ 8 ∧ 8 ≤ (bytesLE a 8).length := by rw [bytesLE_length]; omega
  rw [if_pos this]
  simp only [Option.map_some, emit_nil_reverse, Nat.sub_self, List.drop_zero]
  rw [List.take_of_length_le (by rw [bytesLE_length]; omega)]
  have := printhexBytes_spec 8 a
  simp only [printhexBytes] at this
  rw [this]

theorem dumpCell_eq (addr : Nat) (bytes : List Byte) (i : Nat) :
    dumpCellSpec addr bytes i
      = (if i % 8 = 0 then [0x30#8, 0x78#8] ++ (fixedDigits 16 16 ((addr + i) % 2 ^ 64)).map (digitChar true) ++ [0x3A#8] else [])
        ++ (match bytes[i]? with
            | some b => (fixedDigits 16 2 b.toNat).map (digitChar true) ++ [0x20#8]
            | none => [0x20#8, 0x20#8, 0x20#8])
        ++ (if i % 8 = 7 then (List.range' (i - 7) 8).map (asciiOf bytes) ++ [0x0D#8, 0x0A#8] else []) := rfl

theorem dumpLoop_spec (addr : BitVec 64) (mem : List Byte) (len : Nat) (hlen : len ≤ mem.length) :
    ∀ (left i : Nat) (out : List Byte),
    dumpLoop addr mem.toArray len left i out
      = some (emit out ((List.range' i left).flatMap (dumpCellSpec addr.toNat (mem.take len)))) := by
  intro left
  induction left with
  | zero => intro i out; simp [dumpLoop, emit]
  | succ left ih =>
    intro i out
    have hptr : (addr + BitVec.ofNat 64 i).toNat = (addr.toNat + i) % 2 ^ 64 := by
      simp [BitVec.toNat_add]
    have p1 : ∀ o : List Byte,
        (if i % 8 = 0 then
            (printhexPtr (addr + BitVec.ofNat 64 i)).map fun s => emit (emit (emit o [0x30#8, 0x78#8]) s) [0x3A#8]
          else some o)
        = some (emit o (if i % 8 = 0 then [0x30#8, 0x78#8] ++ (fixedDigits 16 16 ((addr.toNat + i) % 2 ^ 64)).map (digitChar true) ++ [0x3A#8] else [])) := by
      intro o
      by_cases h0 : i % 8 = 0
      · rw [if_pos h0, if_pos h0, printhexPtr_spec, hptr]
        simp [emit_emit]
      · rw [if_neg h0, if_neg h0]; simp [emit]
    have p2 : ∀ o : List Byte,
        (if i < len then (mem[i]?).map fun b => emit (emit o (printhexU8 b)) [0x20#8]
          else some (emit o [0x20#8, 0x20#8, 0x20#8]))
        = some (emit o (match (mem.take len)[i]? with
            | some b => (fixedDigits 16 2 b.toNat).map (digitChar true) ++ [0x20#8]
            | none => [0x20#8, 0x20#8, 0x20#8])) := by
      intro o
      by_cases hi : i < len
      · have hm : i < mem.length := by omega
        rw [if_pos hi, List.getElem?_take, if_pos hi, List.getElem?_eq_getElem hm]
        simp only [Option.map_some, emit_emit, printhexU8_spec]
      · rw [if_neg hi, List.getElem?_take, if_neg hi]
    have p3 : ∀ o : List Byte,
        (if i % 8 = 7 then (dumpAscii mem.toArray len 8 (i - 7) o).map fun o => emit o [0x0D#8, 0x0A#8]
          else some o)
        = some (emit o (if i % 8 = 7 then (List.range' (i - 7) 8).map (asciiOf (mem.take len)) ++ [0x0D#8, 0x0A#8] else [])) := by
      intro o
      by_cases h7 : i % 8 = 7
      · rw [if_pos h7, if_pos h7, dumpAscii_spec mem len 8 (i - 7) o (Or.inl hlen)]
        simp [emit_emit]
      · rw [if_neg h7, if_neg h7]; simp [emit]
    have hr : List.range' i (left + 1) = i :: List.range' (i + 1) left := List.range'_succ ..
    rw [hr, List.flatMap_cons, dumpCell_eq]
    simp only [dumpLoop, List.getElem?_toArray]
    rw [p1]; simp only [Option.bind_some]
    rw [p2]; simp only [Option.bind_some]
    rw [p3]; simp only [Option.bind_some]
    rw [ih (i + 1)]
    simp only [emit_emit, List.append_assoc]

theorem dump_total (n : Nat) : n + (if n % 8 ≠ 0 then 8 - n % 8 else 0) = 8 * ((n + 7) / 8) := by
  split <;> omega

/-- a dump that is asked for more bytes than the object holds reads outside it -/
theorem dumpLoop_fault (addr : BitVec 64) (mem : List Byte) (len : Nat) (hlen : mem.length < len) :
    ∀ (left i : Nat) (out : List Byte), i ≤ mem.length → mem.length < i + left →
    dumpLoop addr mem.toArray len left i out = none := by
  intro left
  induction left with
  | zero => intro i out h1 h2; omega
  | succ left ih =>
    intro i out h1 h2
    simp only [dumpLoop, List.getElem?_toArray]
    rw [printhexPtr_spec]
    have hlt : i < len := by omega
    have first : ∀ f : List Byte → Option (List Byte), (∀ o, f o = none) →
        ((if i % 8 = 0 then
            Option.map (fun s => emit (emit (emit out [0x30#8, 0x78#8]) s) [0x3A#8])
              (some (List.map (digitChar true) (fixedDigits 16 16 (addr + BitVec.ofNat 64 i).toNat)))
          else some out).bind f) = none := by
      intro f hf
      split <;> simp [hf]
    apply first
    intro o
    rw [if_pos hlt]
    by_cases hi : i = mem.length
    · have hnone : mem[i]? = none := by simp; omega
      rw [hnone]; rfl
    · have hm : i < mem.length := by omega
      rw [List.getElem?_eq_getElem hm]
      simp only [Option.map_some, Option.bind_some]
      by_cases h7 : i % 8 = 7
      · rw [if_pos h7, dumpAscii_spec mem len 8 (i - 7) _ (Or.inr (by omega))]
        simp only [Option.map_some, Option.bind_some]
        exact ih (i + 1) _ (by omega) (by omega)
      · rw [if_neg h7]
        simp only [Option.bind_some]
        exact ih (i + 1) _ (by omega) (by omega)

end Igris.C07
