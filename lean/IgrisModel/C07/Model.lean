/-
  C07 — model of the integer <-> text routines

    igris/util/numconvert.c        igris_{i,u}{8,16,32,64}toa, igris_ato{i,u}{8,16,32,64}, digit_value
    igris/util/hexascii.h          hex2half
    compat/libc/stdlib/itoa.c      itoa, utoa, ltoa, ultoa
    compat/libc/stdlib/atol.c      atol, atoi
    igris/dprint/dprint_func_impl.c debug_printdec_*, debug_printhex_*, debug_printbin_* (integers)
    igris/defs/vt100.h             vt100_left

  as they are after the `fix:` commits of branch fix-C07 (and, for atol.c, the
  LONG_MIN repair of branch fix-C11, see notes/C07.md).

  Conventions.  A `char *buf` is a `List Byte` holding the bytes from `buf` to
  the end of the object it points into; every store goes through `wr`, every
  load through `[i]?`, and an access outside the list makes the routine return
  `none` ("fault").  Pointers into the buffer are offsets.  Integers are
  `BitVec n` wherever the C type can wrap or is converted (negation of the
  minimum, the accumulator of the parsers, narrowing in the width wrappers);
  the quotient/remainder loop works on the `Nat` value of the unsigned
  magnitude because `/` and `%` on an unsigned value never wrap.
  Loops are structural or run on explicit fuel; the theorems show the fuel is
  never exhausted.
-/
import IgrisModel.Common.Proto
namespace Igris.C07
open Igris.Proto

/-! ## memory -/

/-- `buf[i] = v`; `none` = store outside the object -/
def wr : List Byte → Nat → Byte → Option (List Byte)
  | [], _, _ => none
  | _ :: bs, 0, v => some (v :: bs)
  | b :: bs, i + 1, v => (wr bs i v).map (b :: ·)

/-- narrowing of an `int` to `char` / `uint8_t`: this is `BitVec.ofNat 8 x`
    (`byteOfNat_eq` in Lemmas.lean), written with the literal 256 so that the
    compiled driver does not recompute `2 ^ 8` through GMP for every character -/
def byteOfNat (x : Nat) : Byte := BitVec.ofFin ⟨x % 256, Nat.mod_lt _ (by decide)⟩

/-! ## igris_i64toa / igris_u64toa (numconvert.c) and their four copies in itoa.c

  All six functions have the same body; they differ in the integer types, in
  the letter used for digits above 9 (`'a'`, `'A'` in igris_u64toa) and in the
  returned pointer (`p`, the terminator, for igris_*; `buf` for the libc
  shims). -/

/-- `(remainder < 10) ? remainder + '0' : remainder + 'a' - 10`, stored into a `char` -/
def toaChar (letterA r : Nat) : Byte :=
  if r < 10 then byteOfNat (r + 48) else byteOfNat (r + letterA - 10)

/-- `do { remainder = ud % base; *(p++) = …; } while (ud /= base);`
    returns the memory and `p` -/
def divLoop (letterA base : Nat) : Nat → Nat → List Byte → Nat → Option (List Byte × Nat)
  | 0, _, _, _ => none
  | fuel + 1, ud, m, p =>
    (wr m p (toaChar letterA (ud % base))).bind fun m =>
      if ud / base ≠ 0 then divLoop letterA base fuel (ud / base) m (p + 1) else some (m, p + 1)

/-- `while (p1 < p2) { tmp = *p1; *p1 = *p2; *p2 = tmp; p1++; p2--; }` -/
def revLoop : Nat → List Byte → Nat → Nat → Option (List Byte)
  | 0, m, p1, p2 => if p1 < p2 then none else some m
  | fuel + 1, m, p1, p2 =>
    if p1 < p2 then
      match m[p1]?, m[p2]? with
      | some a, some b =>
        (wr m p1 b).bind fun m => (wr m p2 a).bind fun m => revLoop fuel m (p1 + 1) (p2 - 1)
      | _, _ => none
    else some m

/-- the common tail: divide, terminate, reverse.  `p1` is where the digits
    start (0, or 1 after a `'-'`); returns the memory and `p` (the terminator) -/
def toaTail (letterA base ud : Nat) (m : List Byte) (p1 : Nat) : Option (List Byte × Nat) :=
  (divLoop letterA base 64 ud m p1).bind fun (m, p) =>
    (wr m p 0#8).bind fun m =>                    -- *p = '\0';
      (revLoop p m p1 (p - 1)).bind fun m =>      -- p2 = p - 1; reverse
        some (m, p)

/-- `char *igris_i64toa(int64_t num, char *buf, uint8_t base)` -/
def i64toa (num : BitVec 64) (m : List Byte) (base : BitVec 8) : Option (List Byte × Nat) :=
  (wr m 0 0#8).bind fun m =>                      -- *buf = '\0';
    if base.toNat < 2 ∨ base.toNat > 36 then some (m, 0)   -- return buf;
    else if num.slt 0#64 then
      (wr m 0 0x2D#8).bind fun m =>               -- *(p++) = '-'; p1++;
        toaTail 97 base.toNat (0#64 - num).toNat m 1   -- ud = 0 - (uint64_t)num;
    else toaTail 97 base.toNat num.toNat m 0      -- ud = num;

/-- `char *igris_u64toa(uint64_t num, char *buf, uint8_t base)` -/
def u64toa (num : BitVec 64) (m : List Byte) (base : BitVec 8) : Option (List Byte × Nat) :=
  (wr m 0 0#8).bind fun m =>
    if base.toNat < 2 ∨ base.toNat > 36 then some (m, 0)
    else toaTail 65 base.toNat num.toNat m 0

/-! width wrappers: `return igris_i64toa((int64_t)num, buf, base);` -/
def i32toa (num : BitVec 32) (m : List Byte) (base : BitVec 8) := i64toa (num.signExtend 64) m base
def i16toa (num : BitVec 16) (m : List Byte) (base : BitVec 8) := i64toa (num.signExtend 64) m base
def i8toa (num : BitVec 8) (m : List Byte) (base : BitVec 8) := i64toa (num.signExtend 64) m base
def u32toa (num : BitVec 32) (m : List Byte) (base : BitVec 8) := u64toa (num.zeroExtend 64) m base
def u16toa (num : BitVec 16) (m : List Byte) (base : BitVec 8) := u64toa (num.zeroExtend 64) m base
def u8toa (num : BitVec 8) (m : List Byte) (base : BitVec 8) := u64toa (num.zeroExtend 64) m base

/-! libc shims (compat/libc/stdlib/itoa.c): `base` is `unsigned short`, the
    magnitude is `unsigned int` / `unsigned long`, lower-case letters, `return buf` -/

def retBuf (r : Option (List Byte × Nat)) : Option (List Byte × Nat) := r.map fun (m, _) => (m, 0)

/-- `char *itoa(int num, char *buf, unsigned short base)` -/
def itoa (num : BitVec 32) (m : List Byte) (base : BitVec 16) : Option (List Byte × Nat) :=
  (wr m 0 0#8).bind fun m =>
    if base.toNat < 2 ∨ base.toNat > 36 then some (m, 0)
    else if num.slt 0#32 then
      (wr m 0 0x2D#8).bind fun m =>
        retBuf (toaTail 97 base.toNat (0#32 - num).toNat m 1)   -- ud = 0u - (unsigned int) num;
    else retBuf (toaTail 97 base.toNat num.toNat m 0)

/-- `char *utoa(unsigned int num, char *buf, unsigned short base)` -/
def utoa (num : BitVec 32) (m : List Byte) (base : BitVec 16) : Option (List Byte × Nat) :=
  (wr m 0 0#8).bind fun m =>
    if base.toNat < 2 ∨ base.toNat > 36 then some (m, 0)
    else retBuf (toaTail 97 base.toNat num.toNat m 0)

/-- `char *ltoa(long num, char *buf, unsigned short base)` (LP64) -/
def ltoa (num : BitVec 64) (m : List Byte) (base : BitVec 16) : Option (List Byte × Nat) :=
  (wr m 0 0#8).bind fun m =>
    if base.toNat < 2 ∨ base.toNat > 36 then some (m, 0)
    else if num.slt 0#64 then
      (wr m 0 0x2D#8).bind fun m =>
        retBuf (toaTail 97 base.toNat (0#64 - num).toNat m 1)   -- ud = 0ul - (unsigned long) num;
    else retBuf (toaTail 97 base.toNat num.toNat m 0)

/-- `char *ultoa(unsigned long num, char *buf, unsigned short base)` -/
def ultoa (num : BitVec 64) (m : List Byte) (base : BitVec 16) : Option (List Byte × Nat) :=
  (wr m 0 0#8).bind fun m =>
    if base.toNat < 2 ∨ base.toNat > 36 then some (m, 0)
    else retBuf (toaTail 97 base.toNat num.toNat m 0)

/-! ## igris_atou32 / igris_atou64 and the wrappers -/

/-- `static inline uint8_t digit_value(char c)` as the `Nat` value of the
    returned `uint8_t`.  `char` is signed on this platform, so a byte ≥ 0x80 is
    a negative `c` and fails all three range tests — exactly as it does here,
    because every range lies below 0x80 (`digitValue_signed` in Lemmas.lean
    shows the equality with the sign-extended reading).  Inside a range
    `c - '0'` etc. is non-negative and below 36: no narrowing happens. -/
def digitValue (c : Byte) : Nat :=
  let n := c.toNat
  if 48 ≤ n ∧ n ≤ 57 then n - 48
  else if 97 ≤ n ∧ n ≤ 122 then n - 97 + 10
  else if 65 ≤ n ∧ n ≤ 90 then n - 65 + 10
  else 0xFF

/-- `for (; (d = digit_value(*buf)) < base; buf++) res = res * base + d;`
    with an unsigned accumulator of `2^w = M` values (`uint32_t` / `uint64_t`:
    the arithmetic is modulo `M`).  The list is the memory from `buf` on,
    `pos` the offset of `buf` in the caller's string; returns `res` and the
    final offset (`*end`).  Running off the list = read outside the object. -/
def atouLoop (M base : Nat) : List Byte → Nat → Nat → Option (Nat × Nat)
  | [], _, _ => none
  | c :: cs, res, pos =>
    if digitValue c < base then atouLoop M base cs ((res * base + digitValue c) % M) (pos + 1)
    else some (res, pos)

/-- `uint32_t igris_atou32(const char *buf, uint8_t base, char **end)` called with `buf = m + off` -/
def atou32 (m : List Byte) (off : Nat) (base : BitVec 8) : Option (BitVec 32 × Nat) :=
  (atouLoop (2 ^ 32) base.toNat (m.drop off) 0 off).map fun (v, e) => (BitVec.ofNat 32 v, e)

def atou64 (m : List Byte) (off : Nat) (base : BitVec 8) : Option (BitVec 64 × Nat) :=
  (atouLoop (2 ^ 64) base.toNat (m.drop off) 0 off).map fun (v, e) => (BitVec.ofNat 64 v, e)

/-- `return igris_atou32(buf, base, end);` narrowed to the return type -/
def atou16 (m : List Byte) (off : Nat) (base : BitVec 8) : Option (BitVec 16 × Nat) :=
  (atou32 m off base).map fun (v, e) => (v.truncate 16, e)
def atou8 (m : List Byte) (off : Nat) (base : BitVec 8) : Option (BitVec 8 × Nat) :=
  (atou32 m off base).map fun (v, e) => (v.truncate 8, e)

/-- `minus = *buf == '-'; if (minus) ++buf; u = igris_atou32(buf, base, end); return minus ? -u : u;`
    with `uint32_t u` -/
def atoi32 (m : List Byte) (base : BitVec 8) : Option (BitVec 32 × Nat) :=
  match m[0]? with
  | none => none
  | some c =>
    let minus := c == 0x2D#8
    (atou32 m (if minus then 1 else 0) base).map fun (u, e) => (if minus then -u else u, e)

def atoi64 (m : List Byte) (base : BitVec 8) : Option (BitVec 64 × Nat) :=
  match m[0]? with
  | none => none
  | some c =>
    let minus := c == 0x2D#8
    (atou64 m (if minus then 1 else 0) base).map fun (u, e) => (if minus then -u else u, e)

def atoi16 (m : List Byte) (base : BitVec 8) : Option (BitVec 16 × Nat) :=
  (atoi32 m base).map fun (v, e) => (v.truncate 16, e)
def atoi8 (m : List Byte) (base : BitVec 8) : Option (BitVec 8 × Nat) :=
  (atoi32 m base).map fun (v, e) => (v.truncate 8, e)

/-! ## hex2half (hexascii.h) -/

/-- `(uint8_t)(c <= '9' ? c - '0' : c >= 'a' ? c - 'a' + 10 : c - 'A' + 10)`, `char` signed -/
def hex2half (c : Byte) : Byte :=
  if c.toInt ≤ 57 then c - 48#8 else if c.toInt ≥ 97 then c - 97#8 + 10#8 else c - 65#8 + 10#8

/-! ## atol / atoi (compat/libc/stdlib/atol.c, with the LONG_MIN repair of fix-C11:
    the magnitude is accumulated negatively).  `long` arithmetic is signed:
    a result outside the type is undefined behaviour, modelled as `none`. -/

def isspaceC (c : Byte) : Bool := c == 32#8 || (9 ≤ c.toNat && c.toNat ≤ 13)
def isdigitC (c : Byte) : Bool := 48 ≤ c.toNat && c.toNat ≤ 57
def inLong (x : Int) : Bool := -(2 ^ 63) ≤ x && x < 2 ^ 63

/-- `while (isdigit(c)) { total = 10 * total - (c - '0'); c = *p++; }` — the head of
    the list is `c`, the tail is what `p` points to -/
def atolDigits : List Byte → Int → Option Int
  | [], _ => none
  | c :: cs, total =>
    if isdigitC c then
      if inLong (10 * total) && inLong (10 * total - ((c.toNat : Int) - 48)) then
        atolDigits cs (10 * total - ((c.toNat : Int) - 48))
      else none
    else some total

/-- `while (isspace(*p)) ++p;` -/
def skipSpace : List Byte → List Byte
  | [] => []
  | c :: cs => if isspaceC c then skipSpace cs else c :: cs

/-- `long atol(const char *nptr)` -/
def atol (m : List Byte) : Option (BitVec 64) :=
  match skipSpace m with
  | [] => none
  | sign :: rest =>
    -- c = *p++; sign = c; if (c == '-' || c == '+') c = *p++;
    let digits := if sign == 0x2D#8 || sign == 0x2B#8 then rest else sign :: rest
    (atolDigits digits 0).bind fun total =>
      if sign == 0x2D#8 then some (BitVec.ofInt 64 total)
      else if inLong (-total) then some (BitVec.ofInt 64 (-total)) else none

/-- `int atoi(const char *nptr) { return (int) atol(nptr); }` -/
def atoi (m : List Byte) : Option (BitVec 32) := (atol m).map (·.truncate 32)

/-! ## debug printers (dprint_func_impl.c): the result is the sequence of
    characters handed to `debug_putchar` -/

/-- `for (; x != 0; x /= 10) *--ptr = (x % 10) + '0';` on the local `char c[24]` -/
def decLoop : Nat → Nat → List Byte → Nat → Option (List Byte × Nat)
  | 0, _, _, _ => none
  | fuel + 1, x, c, ptr =>
    if x ≠ 0 then
      if ptr = 0 then none
      else (wr c (ptr - 1) (byteOfNat (x % 10 + 48))).bind fun c => decLoop fuel (x / 10) c (ptr - 1)
    else some (c, ptr)

/-- `debug_strlen` + `debug_write`: the characters from `ptr` up to the NUL -/
def cstrAt (c : List Byte) (ptr : Nat) : List Byte := (c.drop ptr).takeWhile (· ≠ 0#8)

/-- `void debug_printdec_uint64(uint64_t x)` -/
def printdecU64 (x : BitVec 64) : Option (List Byte) :=
  let out0 : List Byte := if x = 0#64 then [0x30#8] else []     -- if (x == 0) debug_putchar('0');
  (wr (List.replicate 24 0xA5#8) 23 0#8).bind fun c =>           -- *--ptr = '\0';
    (decLoop 24 x.toNat c 23).bind fun (c, ptr) =>
      some (out0 ++ cstrAt c ptr)                                 -- debug_print(ptr);

/-- `void debug_printdec_signed_long_long(signed long long x)`:
    `uint64_t u = x; if (x < 0) { u = 0 - u; debug_putchar('-'); } debug_printdec_uint64(u);` -/
def printdecSLL (x : BitVec 64) : Option (List Byte) :=
  if x.slt 0#64 then (printdecU64 (0#64 - x)).map fun s => 0x2D#8 :: s
  else printdecU64 x

/-- `debug_printhex_uint4`: `uint8_t c = b < 10 ? b + '0' : b + 'A' - 10;` -/
def printhexU4 (b : Byte) : List Byte :=
  [if b.toNat < 10 then b + 48#8 else b + 65#8 - 10#8]

/-- `debug_printhex_uint8`: high nibble, low nibble -/
def printhexU8 (b : Byte) : List Byte :=
  printhexU4 ((b &&& 0xF0#8) >>> 4) ++ printhexU4 (b &&& 0x0F#8)

def binChar (b mask : Byte) : Byte := if b &&& mask ≠ 0#8 then 0x31#8 else 0x30#8

def printbinU4 (b : Byte) : List Byte := [binChar b 0x08, binChar b 0x04, binChar b 0x02, binChar b 0x01]

def printbinU8 (b : Byte) : List Byte :=
  [binChar b 0x80, binChar b 0x40, binChar b 0x20, binChar b 0x10,
   binChar b 0x08, binChar b 0x04, binChar b 0x02, binChar b 0x01]

/-- the bytes of a `w`-bit object in memory order (little endian), `n` of them -/
def bytesLE {w : Nat} (a : BitVec w) : Nat → List Byte
  | 0 => []
  | n + 1 => a.truncate 8 :: bytesLE (a >>> 8) n

/-- `debug_printhex_uint16/32/64`, `debug_printhex_n`: the bytes from the highest address down -/
def printhexBytes (bs : List Byte) : List Byte := bs.reverse.flatMap printhexU8
def printbinBytes (bs : List Byte) : List Byte := bs.reverse.flatMap printbinU8

def printhexU16 (a : BitVec 16) := printhexBytes (bytesLE a 2)
def printhexU32 (a : BitVec 32) := printhexBytes (bytesLE a 4)
def printhexU64 (a : BitVec 64) := printhexBytes (bytesLE a 8)
def printbinU16 (a : BitVec 16) := printbinBytes (bytesLE a 2)
def printbinU32 (a : BitVec 32) := printbinBytes (bytesLE a 4)
def printbinU64 (a : BitVec 64) := printbinBytes (bytesLE a 8)

/-! ## vt100_left (igris/defs/vt100.h) -/

/-- `buf[0] = '\x1B'; buf[1] = '['; eptr = igris_i32toa(arg, buf + 2, 10); *eptr = 'D';
    *(eptr + 1) = 0; return (int)(eptr - buf) + 1;` -/
def vt100Left (m : List Byte) (arg : BitVec 32) : Option (List Byte × Nat) :=
  (wr m 0 0x1B#8).bind fun m =>
    (wr m 1 0x5B#8).bind fun m =>
      (i32toa arg (m.drop 2) 10#8).bind fun (tl, e) =>
        let m := m.take 2 ++ tl
        (wr m (2 + e) 0x44#8).bind fun m =>
          (wr m (2 + e + 1) 0#8).bind fun m => some (m, 2 + e + 1)

end Igris.C07
