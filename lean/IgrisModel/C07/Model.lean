/-
  C07 — model of the integer <-> text routines

    igris/util/numconvert.c        igris_{i,u}{8,16,32,64}toa, igris_ato{i,u}{8,16,32,64}, digit_value
    igris/util/hexascii.h          hex2half
    compat/libc/stdlib/itoa.c      itoa, utoa, ltoa, ultoa
    compat/libc/stdlib/atol.c      atol, atoi
    igris/dprint/dprint_func_impl.c debug_printdec_*, debug_printhex_*, debug_printbin_* (integers)
    igris/defs/vt100.h             vt100_left

  as they are after the `fix:` commits of branch fix-C07 (and, for atol.c, the
  LONG_MIN repair of branch fix-C11, see notes/C07.md).

  Conventions.  A `char *buf` is a `List Byte` holding the bytes from `buf` to
  the end of the object it points into; every store goes through `wr`, every
  load through `[i]?`, and an access outside the list makes the routine return
  `none` ("fault").  Pointers into the buffer are offsets.  Integers are
  `BitVec n` wherever the C type can wrap or is converted (negation of the
  minimum, the accumulator of the parsers, narrowing in the width wrappers);
  the quotient/remainder loop works on the `Nat` value of the unsigned
  magnitude because `/` and `%` on an unsigned value never wrap.
  Loops are structural or run on explicit fuel; the theorems show the fuel is
  never exhausted.
-/
import IgrisModel.Common.Proto
namespace Igris.C07
open Igris.Proto

/-! ## memory -/

/-- `buf[i] = v`; `none` = store outside the object -/
def wr : List Byte → Nat → Byte → Option (List Byte)
  | [], _, _ => none
  | _ :: bs, 0, v => some (v :: bs)
  | b :: bs, i + 1, v => (wr bs i v).map (b :: ·)

/-- narrowing of an `int` to `char` / `uint8_t`: this is `BitVec.ofNat 8 x`
    (`byteOfNat_eq` in Lemmas.lean), written with the literal 256 so that the
    compiled driver does not recompute `2 ^ 8` through GMP for every character -/
def byteOfNat (x : Nat) : Byte := BitVec.ofFin ⟨x % 256, Nat.mod_lt _ (by decide)⟩

/-! ## igris_i64toa / igris_u64toa (numconvert.c) and their four copies in itoa.c

  All six functions have the same body; they differ in the integer types, in
  the letter used for digits above 9 (`'a'`, `'A'` in igris_u64toa) and in the
  returned pointer (`p`, the terminator, for igris_*; `buf` for the libc
  shims). -/

/-- `(remainder < 10) ? remainder + '0' : remainder + 'a' - 10`, stored into a `char` -/
def toaChar (letterA r : Nat) : Byte :=
  if r < 10 then byteOfNat (r + 48) else byteOfNat (r + letterA - 10)

/-- `do { remainder = ud % base; *(p++) = …; } while (ud /= base);`
    returns the memory and `p` -/
def divLoop (letterA base : Nat) : Nat → Nat → List Byte → Nat → Option (List Byte × Nat)
  | 0, _, _, _ => none
  | fuel + 1, ud, m, p =>
    (wr m p (toaChar letterA (ud % base))).bind fun m =>
      if ud / base ≠ 0 then divLoop letterA base fuel (ud / base) m (p + 1) else some (m, p + 1)

/-- `while (p1 < p2) { tmp = *p1; *p1 = *p2; *p2 = tmp; p1++; p2--; }` -/
def revLoop : Nat → List Byte → Nat → Nat → Option (List Byte)
  | 0, m, p1, p2 => if p1 < p2 then none else some m
  | fuel + 1, m, p1, p2 =>
    if p1 < p2 then
      match m[p1]?, m[p2]? with
      | some a, some b =>
        (wr m p1 b).bind fun m => (wr m p2 a).bind fun m => revLoop fuel m (p1 + 1) (p2 - 1)
      | _, _ => none
    else some m

/-- the common tail: divide, terminate, reverse.  `p1` is where the digits
    start (0, or 1 after a `'-'`); returns the memory and `p` (the terminator) -/
def toaTail (letterA base ud : Nat) (m : List Byte) (p1 : Nat) : Option (List Byte × Nat) :=
  (divLoop letterA base 64 ud m p1).bind fun (m, p) =>
    (wr m p 0#8).bind fun m =>                    -- *p = '\0';
      (revLoop p m p1 (p - 1)).bind fun m =>      -- p2 = p - 1; reverse
        some (m, p)

/-- `char *igris_i64toa(int64_t num, char *buf, uint8_t base)` -/
def i64toa (num : BitVec 64) (m : List Byte) (base : BitVec 8) : Option (List Byte × Nat) :=
  (wr m 0 0#8).bind fun m =>                      -- *buf = '\0';
    if base.toNat < 2 ∨ base.toNat > 36 then some (m, 0)   -- return buf;
    else if num.slt 0#64 then
      (wr m 0 0x2D#8).bind fun m =>               -- *(p++) = '-'; p1++;
        toaTail 97 base.toNat (0#64 - num).toNat m 1   -- ud = 0 - (uint64_t)num;
    else toaTail 97 base.toNat num.toNat m 0      -- ud = num;

/-- `char *igris_u64toa(uint64_t num, char *buf, uint8_t base)` -/
def u64toa (num : BitVec 64) (m : List Byte) (base : BitVec 8) : Option (List Byte × Nat) :=
  (wr m 0 0#8).bind fun m =>
    if base.toNat < 2 ∨ base.toNat > 36 then some (m, 0)
    else toaTail 65 base.toNat num.toNat m 0

/-! width wrappers: `return igris_i64toa((int64_t)num, buf, base);` -/
def i32toa (num : BitVec 32) (m : List Byte) (base : BitVec 8) := i64toa (num.signExtend 64) m base
def i16toa (num : BitVec 16) (m : List Byte) (base : BitVec 8) := i64toa (num.signExtend 64) m base
def i8toa (num : BitVec 8) (m : List Byte) (base : BitVec 8) := i64toa (num.signExtend 64) m base
def u32toa (num : BitVec 32) (m : List Byte) (base : BitVec 8) := u64toa (num.zeroExtend 64) m base
def u16toa (num : BitVec 16) (m : List Byte) (base : BitVec 8) := u64toa (num.zeroExtend 64) m base
def u8toa (num : BitVec 8) (m : List Byte) (base : BitVec 8) := u64toa (num.zeroExtend 64) m base

/-! libc shims (compat/libc/stdlib/itoa.c): `base` is `unsigned short`, the
    magnitude is `unsigned int` / `unsigned long`, lower-case letters, `return buf` -/

def retBuf (r : Option (List Byte × Nat)) : Option (List Byte × Nat) := r.map fun (m, _) => (m, 0)

/-- `char *itoa(int num, char *buf, unsigned short base)` -/
def itoa (num : BitVec 32) (m : List Byte) (base : BitVec 16) : Option (List Byte × Nat) :=
  (wr m 0 0#8).bind fun m =>
    if base.toNat < 2 ∨ base.toNat > 36 then some (m, 0)
    else if num.slt 0#32 then
      (wr m 0 0x2D#8).bind fun m =>
        retBuf (toaTail 97 base.toNat (0#32 - num).toNat m 1)   -- ud = 0u - (unsigned int) num;
    else retBuf (toaTail 97 base.toNat num.toNat m 0)

/-- `char *utoa(unsigned int num, char *buf, unsigned short base)` -/
def utoa (num : BitVec 32) (m : List Byte) (base : BitVec 16) : Option (List Byte × Nat) :=
  (wr m 0 0#8).bind fun m =>
    if base.toNat < 2 ∨ base.toNat > 36 then some (m, 0)
    else retBuf (toaTail 97 base.toNat num.toNat m 0)

/-- `char *ltoa(long num, char *buf, unsigned short base)` (LP64) -/
def ltoa (num : BitVec 64) (m : List Byte) (base : BitVec 16) : Option (List Byte × Nat) :=
  (wr m 0 0#8).bind fun m =>
    if base.toNat < 2 ∨ base.toNat > 36 then some (m, 0)
    else if num.slt 0#64 then
      (wr m 0 0x2D#8).bind fun m =>
        retBuf (toaTail 97 base.toNat (0#64 - num).toNat m 1)   -- ud = 0ul - (unsigned long) num;
    else retBuf (toaTail 97 base.toNat num.toNat m 0)

/-- `char *ultoa(unsigned long num, char *buf, unsigned short base)` -/
def ultoa (num : BitVec 64) (m : List Byte) (base : BitVec 16) : Option (List Byte × Nat) :=
  (wr m 0 0#8).bind fun m =>
    if base.toNat < 2 ∨ base.toNat > 36 then some (m, 0)
    else retBuf (toaTail 97 base.toNat num.toNat m 0)

/-! ## igris_atou32 / igris_atou64 and the wrappers -/

/-- `static inline uint8_t digit_value(char c)` as the `Nat` value of the
    returned `uint8_t`.  `char` is signed on this platform, so a byte ≥ 0x80 is
    a negative `c` and fails all three range tests — exactly as it does here,
    because every range lies below 0x80 (`digitValue_signed` in Lemmas.lean
    shows the equality with the sign-extended reading).  Inside a range
    `c - '0'` etc. is non-negative and below 36: no narrowing happens. -/
def digitValue (c : Byte) : Nat :=
  let n := c.toNat
  if 48 ≤ n ∧ n ≤ 57 then n - 48
  else if 97 ≤ n ∧ n ≤ 122 then n - 97 + 10
  else if 65 ≤ n ∧ n ≤ 90 then n - 65 + 10
  else 0xFF

/-- `for (; (d = digit_value(*buf)) < base; buf++) res = res * base + d;`
    with an unsigned accumulator of `2^w = M` values (`uint32_t` / `uint64_t`:
    the arithmetic is modulo `M`).  The list is the memory from `buf` on,
    `pos` the offset of `buf` in the caller's string; returns `res` and the
    final offset (`*end`).  Running off the list = read outside the object. -/
def atouLoop (M base : Nat) : List Byte → Nat → Nat → Option (Nat × Nat)
  | [], _, _ => none
  | c :: cs, res, pos =>
    if digitValue c < base then atouLoop M base cs ((res * base + digitValue c) % M) (pos + 1)
    else some (res, pos)

/-- `uint32_t igris_atou32(const char *buf, uint8_t base, char **end)` called with `buf = m + off` -/
def atou32 (m : List Byte) (off : Nat) (base : BitVec 8) : Option (BitVec 32 × Nat) :=
  (atouLoop (2 ^ 32) base.toNat (m.drop off) 0 off).map fun (v, e) => (BitVec.ofNat 32 v, e)

def atou64 (m : List Byte) (off : Nat) (base : BitVec 8) : Option (BitVec 64 × Nat) :=
  (atouLoop (2 ^ 64) base.toNat (m.drop off) 0 off).map fun (v, e) => (BitVec.ofNat 64 v, e)

/-- `return igris_atou32(buf, base, end);` narrowed to the return type -/
def atou16 (m : List Byte) (off : Nat) (base : BitVec 8) : Option (BitVec 16 × Nat) :=
  (atou32 m off base).map fun (v, e) => (v.truncate 16, e)
def atou8 (m : List Byte) (off : Nat) (base : BitVec 8) : Option (BitVec 8 × Nat) :=
  (atou32 m off base).map fun (v, e) => (v.truncate 8, e)

/-- `minus = *buf == '-'; if (minus) ++buf; u = igris_atou32(buf, base, end); return minus ? -u : u;`
    with `uint32_t u` -/
def atoi32 (m : List Byte) (base : BitVec 8) : Option (BitVec 32 × Nat) :=
  match m[0]? with
  | none => none
  | some c =>
    let minus := c == 0x2D#8
    (atou32 m (if minus then 1 else 0) base).map fun (u, e) => (if minus then -u else u, e)

def atoi64 (m : List Byte) (base : BitVec 8) : Option (BitVec 64 × Nat) :=
  match m[0]? with
  | none => none
  | some c =>
    let minus := c == 0x2D#8
    (atou64 m (if minus then 1 else 0) base).map fun (u, e) => (if minus then -u else u, e)

def atoi16 (m : List Byte) (base : BitVec 8) : Option (BitVec 16 × Nat) :=
  (atoi32 m base).map fun (v, e) => (v.truncate 16, e)
def atoi8 (m : List Byte) (base : BitVec 8) : Option (BitVec 8 × Nat) :=
  (atoi32 m base).map fun (v, e) => (v.truncate 8, e)

/-! ## hex2half (hexascii.h) -/

/-- `(uint8_t)(c <= '9' ? c - '0' : c >= 'a' ? c - 'a' + 10 : c - 'A' + 10)`, `char` signed -/
def hex2half (c : Byte) : Byte :=
  if c.toInt ≤ 57 then c - 48#8 else if c.toInt ≥ 97 then c - 97#8 + 10#8 else c - 65#8 + 10#8

/-! ## atol / atoi (compat/libc/stdlib/atol.c, with the LONG_MIN repair of fix-C11:
    the magnitude is accumulated negatively).  `long` arithmetic is signed:
    a result outside the type is undefined behaviour, modelled as `none`. -/

def isspaceC (c : Byte) : Bool := c == 32#8 || (9 ≤ c.toNat && c.toNat ≤ 13)
def isdigitC (c : Byte) : Bool := 48 ≤ c.toNat && c.toNat ≤ 57
def inLong (x : Int) : Bool := -(2 ^ 63) ≤ x && x < 2 ^ 63

/-- `while (isdigit(c)) { total = 10 * total - (c - '0'); c = *p++; }` — the head of
    the list is `c`, the tail is what `p` points to -/
def atolDigits : List Byte → Int → Option Int
  | [], _ => none
  | c :: cs, total =>
    if isdigitC c then
      if inLong (10 * total) && inLong (10 * total - ((c.toNat : Int) - 48)) then
        atolDigits cs (10 * total - ((c.toNat : Int) - 48))
      else none
    else some total

/-- `while (isspace(*p)) ++p;` -/
def skipSpace : List Byte → List Byte
  | [] => []
  | c :: cs => if isspaceC c then skipSpace cs else c :: cs

/-- `long atol(const char *nptr)` -/
def atol (m : List Byte) : Option (BitVec 64) :=
  match skipSpace m with
  | [] => none
  | sign :: rest =>
    -- c = *p++; sign = c; if (c == '-' || c == '+') c = *p++;
    let digits := if sign == 0x2D#8 || sign == 0x2B#8 then rest else sign :: rest
    (atolDigits digits 0).bind fun total =>
      if sign == 0x2D#8 then some (BitVec.ofInt 64 total)
      else if inLong (-total) then some (BitVec.ofInt 64 (-total)) else none

/-- `int atoi(const char *nptr) { return (int) atol(nptr); }` -/
def atoi (m : List Byte) : Option (BitVec 32) := (atol m).map (·.truncate 32)

/-! ## debug printers (dprint_func_impl.c): the result is the sequence of
    characters handed to `debug_putchar` -/

/-- `for (; x != 0; x /= 10) *--ptr = (x % 10) + '0';` on the local `char c[24]` -/
def decLoop : Nat → Nat → List Byte → Nat → Option (List Byte × Nat)
  | 0, _, _, _ => none
  | fuel + 1, x, c, ptr =>
    if x ≠ 0 then
      if ptr = 0 then none
      else (wr c (ptr - 1) (byteOfNat (x % 10 + 48))).bind fun c => decLoop fuel (x / 10) c (ptr - 1)
    else some (c, ptr)

/-- `debug_strlen` + `debug_write`: the characters from `ptr` up to the NUL -/
def cstrAt (c : List Byte) (ptr : Nat) : List Byte := (c.drop ptr).takeWhile (· ≠ 0#8)

/-- `void debug_printdec_uint64(uint64_t x)` -/
def printdecU64 (x : BitVec 64) : Option (List Byte) :=
  let out0 : List Byte := if x = 0#64 then [0x30#8] else []     -- if (x == 0) debug_putchar('0');
  (wr (List.replicate 24 0xA5#8) 23 0#8).bind fun c =>           -- *--ptr = '\0';
    (decLoop 24 x.toNat c 23).bind fun (c, ptr) =>
      some (out0 ++ cstrAt c ptr)                                 -- debug_print(ptr);

/-- `void debug_printdec_signed_long_long(signed long long x)`:
    `uint64_t u = x; if (x < 0) { u = 0 - u; debug_putchar('-'); } debug_printdec_uint64(u);` -/
def printdecSLL (x : BitVec 64) : Option (List Byte) :=
  if x.slt 0#64 then (printdecU64 (0#64 - x)).map fun s => 0x2D#8 :: s
  else printdecU64 x

/-- `debug_printhex_uint4`: `uint8_t c = b < 10 ? b + '0' : b + 'A' - 10;` -/
def printhexU4 (b : Byte) : List Byte :=
  [if b.toNat < 10 then b + 48#8 else b + 65#8 - 10#8]

/-- `debug_printhex_uint8`: high nibble, low nibble -/
def printhexU8 (b : Byte) : List Byte :=
  printhexU4 ((b &&& 0xF0#8) >>> 4) ++ printhexU4 (b &&& 0x0F#8)

def binChar (b mask : Byte) : Byte := if b &&& mask ≠ 0#8 then 0x31#8 else 0x30#8

def printbinU4 (b : Byte) : List Byte := [binChar b 0x08, binChar b 0x04, binChar b 0x02, binChar b 0x01]

def printbinU8 (b : Byte) : List Byte :=
  [binChar b 0x80, binChar b 0x40, binChar b 0x20, binChar b 0x10,
   binChar b 0x08, binChar b 0x04, binChar b 0x02, binChar b 0x01]

/-- the bytes of a `w`-bit object in memory order (little endian), `n` of them -/
def bytesLE {w : Nat} (a : BitVec w) : Nat → List Byte
  | 0 => []
  | n + 1 => a.truncate 8 :: bytesLE (a >>> 8) n

/-- `debug_printhex_uint16/32/64`, `debug_printhex_n`: the bytes from the highest address down -/
def printhexBytes (bs : List Byte) : List Byte := bs.reverse.flatMap printhexU8
def printbinBytes (bs : List Byte) : List Byte := bs.reverse.flatMap printbinU8

def printhexU16 (a : BitVec 16) := printhexBytes (bytesLE a 2)
def printhexU32 (a : BitVec 32) := printhexBytes (bytesLE a 4)
def printhexU64 (a : BitVec 64) := printhexBytes (bytesLE a 8)
def printbinU16 (a : BitVec 16) := printbinBytes (bytesLE a 2)
def printbinU32 (a : BitVec 32) := printbinBytes (bytesLE a 4)
def printbinU64 (a : BitVec 64) := printbinBytes (bytesLE a 8)

/-! ## vt100_left (igris/defs/vt100.h) -/

/-- `buf[0] = '\x1B'; buf[1] = '['; eptr = igris_i32toa(arg, buf + 2, 10); *eptr = 'D';
    *(eptr + 1) = 0; return (int)(eptr - buf) + 1;` -/
def vt100Left (m : List Byte) (arg : BitVec 32) : Option (List Byte × Nat) :=
  (wr m 0 0x1B#8).bind fun m =>
    (wr m 1 0x5B#8).bind fun m =>
      (i32toa arg (m.drop 2) 10#8).bind fun (tl, e) =>
        let m := m.take 2 ++ tl
        (wr m (2 + e) 0x44#8).bind fun m =>
          (wr m (2 + e + 1) 0#8).bind fun m => some (m, 2 + e + 1)


/-! # Extension round 3: the remaining integer renderers of dprint_func_impl.c,
    the hexascii.h helpers and igris/util/ctype.h

  The output of a printer is now also modelled as the stream the characters are
  pushed onto: `out` holds the characters handed to `debug_putchar` so far, the
  most recent first (`emit` pushes a string).  The loops are tail calls and the
  memory they walk is an `Array` (constant-time `mem[i]?`; the entry points take
  the usual byte list and convert it), so the driver runs the 65535-byte cases. -/

/-- `debug_putchar` of every character of `s`, in order; `out` is newest-first -/
def emit (out s : List Byte) : List Byte := s.reverse ++ out

/-- `uint8_t *p = arg + n; while (n--) debug_printhex_uint8(*--p);` — `p` is the offset of
    the pointer in `mem`; a load outside `mem` is a fault -/
def hexNLoop (mem : Array Byte) : Nat → Nat → List Byte → Option (List Byte)
  | 0, _, out => some out
  | n + 1, p, out =>
    if p = 0 then none
    else match mem[p - 1]? with
      | none => none
      | some b => hexNLoop mem n (p - 1) (emit out (printhexU8 b))

/-- `void debug_printhex_n(uint8_t *arg, int n)` for `n ≥ 0` (every caller passes a `sizeof`) -/
def printhexN (mem : List Byte) (arg n : Nat) : Option (List Byte) :=
  (hexNLoop mem.toArray n (arg + n) []).map List.reverse

/-! the typed entry points: `debug_printhex_n((uint8_t *)&arg, sizeof(arg))` on the object
    representation of the argument (little endian), `debug_printhex_uint8(arg)` for the chars -/
def printhexChar (a : BitVec 8) : Option (List Byte) := some (printhexU8 a)
def printhexShort (a : BitVec 16) : Option (List Byte) := printhexN (bytesLE a 2) 0 2
def printhexInt (a : BitVec 32) : Option (List Byte) := printhexN (bytesLE a 4) 0 4
def printhexLong (a : BitVec 64) : Option (List Byte) := printhexN (bytesLE a 8) 0 8

/-- `while (size--) f(*_ptr++);` (debug_writehex / debug_writebin) -/
def writeFwdLoop (f : Byte → List Byte) (mem : Array Byte) : Nat → Nat → List Byte → Option (List Byte)
  | 0, _, out => some out
  | n + 1, p, out =>
    match mem[p]? with
    | none => none
    | some b => writeFwdLoop f mem n (p + 1) (emit out (f b))

/-- `_ptr = ptr + size; while (size--) f(*--_ptr);` (debug_writehex_reversed / debug_writebin_reversed) -/
def writeRevLoop (f : Byte → List Byte) (mem : Array Byte) : Nat → Nat → List Byte → Option (List Byte)
  | 0, _, out => some out
  | n + 1, p, out =>
    if p = 0 then none
    else match mem[p - 1]? with
      | none => none
      | some b => writeRevLoop f mem n (p - 1) (emit out (f b))

/-- `void debug_writehex(const void *ptr, uint16_t size)`; `ptr` = `mem + p` -/
def writehex (mem : List Byte) (p : Nat) (size : BitVec 16) : Option (List Byte) :=
  (writeFwdLoop printhexU8 mem.toArray size.toNat p []).map List.reverse
def writebin (mem : List Byte) (p : Nat) (size : BitVec 16) : Option (List Byte) :=
  (writeFwdLoop printbinU8 mem.toArray size.toNat p []).map List.reverse
def writehexReversed (mem : List Byte) (p : Nat) (size : BitVec 16) : Option (List Byte) :=
  (writeRevLoop printhexU8 mem.toArray size.toNat (p + size.toNat) []).map List.reverse
def writebinReversed (mem : List Byte) (p : Nat) (size : BitVec 16) : Option (List Byte) :=
  (writeRevLoop printbinU8 mem.toArray size.toNat (p + size.toNat) []).map List.reverse

/-- `void debug_printhex_ptr(const void *v) { debug_writehex_reversed(&v, sizeof(uintptr_t)); }`
    (LP64: 8 bytes, the object representation of the pointer) -/
def printhexPtr (v : BitVec 64) : Option (List Byte) := writehexReversed (bytesLE v 8) 0 8#16

/-! ### igris/util/ctype.h: `int` argument; a `char` argument arrives sign-extended -/
def isdigitI (c : Int) : Bool := 48 ≤ c && c ≤ 57
def isxdigitHelperI (c : Int) : Bool := (97 ≤ c && c ≤ 102) || (65 ≤ c && c ≤ 70)
def isxdigitI (c : Int) : Bool := isdigitI c || isxdigitHelperI c
def isblankI (c : Int) : Bool := c == 32 || c == 9
def isspaceI (c : Int) : Bool := c == 32 || c == 9 || c == 13 || c == 10 || c == 12 || c == 11
def isupperI (c : Int) : Bool := 65 ≤ c && c ≤ 90
def islowerI (c : Int) : Bool := 97 ≤ c && c ≤ 122
def isalphaI (c : Int) : Bool := (97 ≤ c && c ≤ 122) || (65 ≤ c && c ≤ 90)
def isalnumI (c : Int) : Bool := isalphaI c || isdigitI c
def isprintI (c : Int) : Bool := isalphaI c || isdigitI c || (32 ≤ c && c ≤ 126)
def toupperI (c : Int) : Int := if islowerI c then c + (65 - 97) else c
def tolowerI (c : Int) : Int := if isupperI c then c + (97 - 65) else c

/-- the ASCII column of one row of debug_print_dump:
    `for (j = i - 7; j <= i; j++) if (j >= len) ' ' else if (igris_isprint(mem[j])) mem[j] else '.'`
    (`cnt` = how many `j` are left) -/
def dumpAscii (mem : Array Byte) (len : Nat) : Nat → Nat → List Byte → Option (List Byte)
  | 0, _, out => some out
  | cnt + 1, j, out =>
    if j ≥ len then dumpAscii mem len cnt (j + 1) (emit out [0x20#8])
    else match mem[j]? with
      | none => none
      | some b => dumpAscii mem len cnt (j + 1) (emit out [if isprintI b.toInt then b else 0x2E#8])

/-- the body of `for (unsigned i = 0; i < len + pad; i++)`, `left` = iterations left -/
def dumpLoop (addr : BitVec 64) (mem : Array Byte) (len : Nat) : Nat → Nat → List Byte → Option (List Byte)
  | 0, _, out => some out
  | left + 1, i, out =>
    -- if (i % 8 == 0) { debug_write("0x", 2); debug_printhex_ptr(i + (char *)mem); debug_putchar(':'); }
    (if i % 8 = 0 then
        (printhexPtr (addr + BitVec.ofNat 64 i)).map fun s => emit (emit (emit out [0x30#8, 0x78#8]) s) [0x3A#8]
      else some out).bind fun out =>
    -- if (i < len) { debug_printhex_uint8(mem[i]); debug_putchar(' '); } else debug_print("   ");
    (if i < len then (mem[i]?).map fun b => emit (emit out (printhexU8 b)) [0x20#8]
      else some (emit out [0x20#8, 0x20#8, 0x20#8])).bind fun out =>
    -- if (i % 8 == 7) { ASCII column; debug_print_newline(); }
    (if i % 8 = 7 then (dumpAscii mem len 8 (i - 7) out).map fun out => emit out [0x0D#8, 0x0A#8]
      else some out).bind fun out =>
    dumpLoop addr mem len left (i + 1) out

/-- `void debug_print_dump(const void *mem, uint16_t len)`; `addr` is the numeric value of `mem`.
    `len + ((len % 8) ? (8 - len % 8) : 0)` is computed in `int`: at most 65542, no wrap. -/
def printDump (addr : BitVec 64) (mem : List Byte) (len : BitVec 16) : Option (List Byte) :=
  let n := len.toNat
  (dumpLoop addr mem.toArray n (n + (if n % 8 ≠ 0 then 8 - n % 8 else 0)) 0 []).map List.reverse

/-! ### the decimal entry points at their C types (dprint_func_impl.c:389-447):
    every signed one converts to `long long` (sign extension), every unsigned one to
    `long long` and on to `unsigned long long` (zero extension: the value is non-negative) -/
def printdecU8 (x : BitVec 8) := printdecU64 (x.zeroExtend 64)
def printdecU16 (x : BitVec 16) := printdecU64 (x.zeroExtend 64)
def printdecU32 (x : BitVec 32) := printdecU64 (x.zeroExtend 64)
def printdecULL (x : BitVec 64) := printdecU64 x
def printdecUChar (x : BitVec 8) := printdecULL (x.zeroExtend 64)
def printdecUShort (x : BitVec 16) := printdecULL (x.zeroExtend 64)
def printdecUInt (x : BitVec 32) := printdecULL (x.zeroExtend 64)
def printdecULong (x : BitVec 64) := printdecULL x
def printdecSChar (x : BitVec 8) := printdecSLL (x.signExtend 64)
def printdecSShort (x : BitVec 16) := printdecSLL (x.signExtend 64)
def printdecSInt (x : BitVec 32) := printdecSLL (x.signExtend 64)
def printdecSLong (x : BitVec 64) := printdecSLL x

/-! ### igris/util/hexascii.h -/

/-- `(char)(n < 10 ? '0' + n : 'A' - 10 + n)` (`int` arithmetic, narrowed to `char`) -/
def half2hex (n : Byte) : Byte := if n.toNat < 10 then byteOfNat (48 + n.toNat) else byteOfNat (65 - 10 + n.toNat)

/-- `(uint8_t)((hex2half(hi) << 4) + hex2half(lo))` -/
def hex2byte (hi lo : Byte) : Byte := byteOfNat (((hex2half hi).toNat <<< 4) + (hex2half lo).toNat)

def hiHalf (b : Byte) : Byte := (b >>> 4) &&& 0x0F#8
def loHalf (b : Byte) : Byte := b &&& 0x0F#8

/-- `*hex++ = half2hex(HIHALF(in)); *hex++ = half2hex(LOHALF(in));` -/
def uint8ToHex (b : Byte) : List Byte := [half2hex (hiHalf b), half2hex (loHalf b)]

/-- `uint16/32/64_to_hex`: the bytes of the object from the most significant one
    (`UINTnn_H..(in)` = the highest address on this little-endian platform) down; `k` bytes -/
def uintToHex {w : Nat} (a : BitVec w) (k : Nat) : List Byte := (bytesLE a k).reverse.flatMap uint8ToHex

/-- value of an object whose bytes in memory order are `bs` (little endian) -/
def ofBytesLE : List Byte → Nat
  | [] => 0
  | b :: bs => b.toNat + 256 * ofBytesLE bs

/-- pairs of characters → bytes, first pair first -/
def hexPairs : Nat → List Byte → Option (List Byte)
  | 0, _ => some []
  | k + 1, hi :: lo :: rest => (hexPairs k rest).map (hex2byte hi lo :: ·)
  | _ + 1, _ => none

/-- `hex_to_uint8/16/32/64(const char *hex)`: reads `2k` characters; the first pair is the
    most significant byte (stored at the highest address); `none` = read outside the object -/
def hexToUint (w k : Nat) (hex : List Byte) : Option (BitVec w) :=
  (hexPairs k hex).map fun bs => BitVec.ofNat w (ofBytesLE bs.reverse)


/-! ### the rest of dprint_func_impl.c that carries numbers: the `debug_asmlink_*` self-test
    routines (hex renderers with a `':'` after every argument), `dprptr` / `dprptrln`, and
    `debug_print(NULL)` -/
def asmlinkArgs8 (vs : List (BitVec 8)) : List Byte := vs.flatMap fun a => printhexU8 a ++ [0x3A#8]
def asmlinkArgs16 (vs : List (BitVec 16)) : List Byte := vs.flatMap fun a => printhexU16 a ++ [0x3A#8]
def asmlinkArgs32 (vs : List (BitVec 32)) : List Byte := vs.flatMap fun a => printhexU32 a ++ [0x3A#8]
def asmlinkRet8 : BitVec 8 := 0xFE#8
def asmlinkRet16 : BitVec 16 := 0xFEDC#16
def asmlinkRet32 : BitVec 32 := 0xFEDCBA98#32
def asmlinkRet64 : BitVec 64 := 0xFEDCBA9876543210#64
/-- `debug_asmlink_test`: A B C D E 1 2 3 4 5 -/
def asmlinkTest : List Byte := [0x41#8, 0x42#8, 0x43#8, 0x44#8, 0x45#8, 0x31#8, 0x32#8, 0x33#8, 0x34#8, 0x35#8]
def dprptr (v : BitVec 64) : Option (List Byte) := printhexPtr v
def dprptrln (v : BitVec 64) : Option (List Byte) := (printhexPtr v).map (· ++ [0x0D#8, 0x0A#8])
/-- `debug_print((const char *)0)` -/
def debugPrintNull : List Byte := [0x4E#8, 0x55#8, 0x4C#8, 0x4C#8]

/-! # Extension round 3b: `debug_printhex_n` at the C width of its `int n`

  `uint8_t *p = arg + n; while (n--) debug_printhex_uint8(*--p);`  `printhexN` above is the routine for the
  `n ≥ 0` every caller passes.  Here `n` is the 32-bit `int` the prototype declares: `arg + n` with a negative
  `n` is a pointer in front of `arg` (in front of the OBJECT it is undefined: `none`), the test `n--` reads `n`
  and decrements it — decrementing `INT_MIN` is signed overflow, undefined: `none` — and the loop ends only
  when the test reads 0.  Explicit fuel (2^32 + 1 tests at most: from `INT_MIN + 1` down no test can be
  reached, from `INT_MAX` down to 0 there are 2^31). -/

def hexNLoopI (mem : Array Byte) : Nat → Int → Nat → List Byte → Option (List Byte)
  | 0, _, _, _ => none
  | fuel + 1, n, p, out =>
    if n = -2147483648 then none                      -- `n--` on INT_MIN
    else if n = 0 then some out                       -- the test reads 0 (n becomes -1)
    else if p = 0 then none                           -- `--p` leaves the object
    else match mem[p - 1]? with
      | none => none
      | some b => hexNLoopI mem fuel (n - 1) (p - 1) (emit out (printhexU8 b))

/-- `void debug_printhex_n(uint8_t *arg, int n)`, `arg = mem + arg` -/
def printhexNI (mem : List Byte) (arg : Nat) (n : BitVec 32) : Option (List Byte) :=
  if (arg : Int) + n.toInt < 0 then none              -- arg + n in front of the object
  else (hexNLoopI mem.toArray 4294967297 n.toInt ((arg : Int) + n.toInt).toNat []).map List.reverse

end Igris.C07
