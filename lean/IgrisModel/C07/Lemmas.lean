import IgrisModel.C07.Model
namespace Igris.C07
end Igris.C07
