/-
  C07 — helper lemmas (core Lean only).
-/
import IgrisModel.C07.Model
import IgrisModel.C07.Spec
namespace Igris.C07
open Igris.Proto

/-! ### the specification is positional notation -/

theorem lsd_small {b n : Nat} (h : n < b) : lsd b n = [n] := by
  rw [lsd]; simp [h]

theorem lsd_big {b n : Nat} (hb : 2 ≤ b) (h : b ≤ n) : lsd b n = n % b :: lsd b (n / b) := by
  rw [lsd]; simp; omega

theorem lsd_ne_nil (b n : Nat) : lsd b n ≠ [] := by
  rw [lsd]; split <;> simp

theorem lsd_length_pos (b n : Nat) : 0 < (lsd b n).length := by
  cases h : lsd b n with
  | nil => exact absurd h (lsd_ne_nil b n)
  | cons => simp

/-- every digit is below the base -/
theorem lsd_lt {b : Nat} (hb : 2 ≤ b) (n : Nat) : ∀ d ∈ lsd b n, d < b := by
  induction n using Nat.strongRecOn with
  | _ n ih =>
    by_cases h : n < b
    · rw [lsd_small h]; simp [h]
    · rw [lsd_big hb (by omega)]
      intro d hd
      rcases List.mem_cons.mp hd with rfl | hd
      · exact Nat.mod_lt _ (by omega)
      · exact ih (n / b) (Nat.div_lt_self (by omega) (by omega)) d hd

/-- value of a least-significant-first digit list -/
def ofLsd (b : Nat) : List Nat → Nat
  | [] => 0
  | d :: ds => d + b * ofLsd b ds

theorem ofLsd_lsd {b : Nat} (hb : 2 ≤ b) (n : Nat) : ofLsd b (lsd b n) = n := by
  induction n using Nat.strongRecOn with
  | _ n ih =>
    by_cases h : n < b
    · rw [lsd_small h]; simp [ofLsd]
    · rw [lsd_big hb (by omega)]
      simp only [ofLsd]
      rw [ih (n / b) (Nat.div_lt_self (by omega) (by omega))]
      exact Nat.mod_add_div n b

theorem foldl_horner (b : Nat) (ds : List Nat) (acc : Nat) :
    ds.foldl (fun a d => a * b + d) acc = acc * b ^ ds.length + ds.foldl (fun a d => a * b + d) 0 := by
  induction ds generalizing acc with
  | nil => simp
  | cons d ds ih =>
    simp only [List.foldl_cons, List.length_cons]
    rw [ih (acc * b + d), ih (0 * b + d)]
    simp [Nat.pow_succ, Nat.add_mul, Nat.mul_assoc, Nat.add_assoc, Nat.mul_comm b]

theorem ofDigits_reverse (b : Nat) (ds : List Nat) : ofDigits b ds.reverse = ofLsd b ds := by
  induction ds with
  | nil => rfl
  | cons d ds ih =>
    simp only [ofDigits, List.reverse_cons, List.foldl_append, List.foldl_cons, List.foldl_nil, ofLsd] at *
    rw [ih, Nat.mul_comm]; omega

/-! ### memory -/

theorem wr_mid (a : List Byte) (x : Byte) (c : List Byte) (i : Nat) (v : Byte) (hi : i = a.length) :
    wr (a ++ x :: c) i v = some (a ++ v :: c) := by
  subst hi
  induction a with
  | nil => simp [wr]
  | cons h t ih => simp [wr, ih]

theorem get_mid (a : List Byte) (x : Byte) (c : List Byte) (i : Nat) (hi : i = a.length) :
    (a ++ x :: c)[i]? = some x := by
  subst hi; simp

/-! ### the divide loop writes the digits, least significant first -/

theorem divLoop_spec (letterA b : Nat) (hb : 2 ≤ b) :
    ∀ (fuel ud : Nat) (a seg c : List Byte), ud < 2 ^ fuel → 0 < fuel →
      seg.length = (lsd b ud).length →
      divLoop letterA b fuel ud (a ++ seg ++ c) a.length
        = some (a ++ (lsd b ud).map (toaChar letterA) ++ c, a.length + seg.length) := by
  intro fuel
  induction fuel with
  | zero => intro _ _ _ _ _ h0; omega
  | succ f ih =>
    intro ud a seg c hud _ hlen
    by_cases hsmall : ud < b
    · rw [lsd_small hsmall] at hlen ⊢
      match seg, hlen with
      | [s], _ =>
        have hd : ud / b = 0 := Nat.div_eq_of_lt hsmall
        have hm : ud % b = ud := Nat.mod_eq_of_lt hsmall
        simp only [divLoop, List.append_assoc, List.singleton_append]
        rw [wr_mid a s c a.length _ rfl]
        simp [hd, hm]
    · have hbig : b ≤ ud := by omega
      rw [lsd_big hb hbig] at hlen ⊢
      match seg, hlen with
      | s :: seg', hlen =>
        have hd : ud / b ≠ 0 := by
          have : 0 < ud / b := Nat.div_pos hbig (by omega)
          omega
        have hlt : ud / b < 2 ^ f := by
          have h1 : ud / b ≤ ud / 2 := Nat.div_le_div_left hb (by omega)
          have h2 : ud / 2 < 2 ^ f := by rw [Nat.pow_succ] at hud; omega
          omega
        have hf : 0 < f := by
          cases f with
          | zero => simp at hlt; omega
          | succ _ => omega
        simp only [divLoop, List.append_assoc, List.cons_append]
        rw [wr_mid a s (seg' ++ c) a.length _ rfl]
        simp only [Option.bind_some, hd, ne_eq, not_false_eq_true, if_true]
        have := ih (ud / b) (a ++ [toaChar letterA (ud % b)]) seg' c hlt hf (by simpa using hlen)
        simp only [List.append_assoc, List.cons_append, List.length_append,
          List.length_cons, List.length_nil, Nat.zero_add, List.map_cons, List.nil_append] at this ⊢
        rw [this]
        simp only [Option.some.injEq, Prod.mk.injEq, true_and]
        omega

/-! ### the reverse loop reverses the segment `[p1, p2]` in place -/

theorem revLoop_spec :
    ∀ (n : Nat) (seg a c : List Byte) (fuel : Nat), seg.length = n → n ≤ fuel →
      revLoop fuel (a ++ seg ++ c) a.length (a.length + seg.length - 1)
        = some (a ++ seg.reverse ++ c) := by
  intro n
  induction n using Nat.strongRecOn with
  | _ n ih =>
    intro seg a c fuel hn hfuel
    match seg, hn with
    | [], _ =>
      have hnl : ¬ a.length < a.length + ([] : List Byte).length - 1 := by simp
      cases fuel <;> (rw [revLoop, if_neg hnl]; simp)
    | [x], _ =>
      have hnl : ¬ a.length < a.length + [x].length - 1 := by simp
      cases fuel <;> (rw [revLoop, if_neg hnl]; simp)
    | x :: y0 :: rest, hn =>
      rcases List.eq_nil_or_concat (y0 :: rest) with h | ⟨mid, y, h⟩
      · simp at h
      · rw [h, List.concat_eq_append]
        have hmid : mid.length + 2 = n := by
          have := congrArg List.length h
          simp at this hn; omega
        cases fuel with
        | zero => omega
        | succ f =>
          have hlt : a.length < a.length + (x :: (mid ++ [y])).length - 1 := by simp <;> omega
          have hp2 : a.length + (x :: (mid ++ [y])).length - 1 = (a ++ x :: mid).length := by simp <;> omega
          have hm : a ++ x :: (mid ++ [y]) ++ c = (a ++ x :: mid) ++ y :: c := by simp
          rw [revLoop, if_pos hlt]
          have g1 : (a ++ x :: (mid ++ [y]) ++ c)[a.length]? = some x := by
            have : a ++ x :: (mid ++ [y]) ++ c = a ++ x :: (mid ++ [y] ++ c) := by simp
            rw [this]; exact get_mid _ _ _ _ rfl
          have g2 : (a ++ x :: (mid ++ [y]) ++ c)[a.length + (x :: (mid ++ [y])).length - 1]? = some y := by
            rw [hm]; exact get_mid _ _ _ _ hp2
          rw [g1, g2]
          simp only []
          have w1 : wr (a ++ x :: (mid ++ [y]) ++ c) a.length y = some (a ++ y :: (mid ++ [y] ++ c)) := by
            have : a ++ x :: (mid ++ [y]) ++ c = a ++ x :: (mid ++ [y] ++ c) := by simp
            rw [this]; exact wr_mid _ _ _ _ _ rfl
          rw [w1]
          simp only [Option.bind_some]
          have w2 : wr (a ++ y :: (mid ++ [y] ++ c)) (a.length + (x :: (mid ++ [y])).length - 1) x
              = some ((a ++ y :: mid) ++ x :: c) := by
            have : a ++ y :: (mid ++ [y] ++ c) = (a ++ y :: mid) ++ y :: c := by simp
            rw [this]; exact wr_mid _ _ _ _ _ (by simp <;> omega)
          rw [w2]
          simp only [Option.bind_some]
          have := ih mid.length (by omega) mid (a ++ [y]) (x :: c) f rfl (by omega)
          have e1 : (a ++ [y]).length = a.length + 1 := by simp
          have e2 : a.length + 1 + mid.length - 1 = a.length + (x :: (mid ++ [y])).length - 1 - 1 := by
            simp <;> omega
          rw [e1] at this
          rw [e2] at this
          have e3 : a ++ [y] ++ mid ++ x :: c = (a ++ y :: mid) ++ x :: c := by simp
          rw [e3] at this
          rw [this]
          simp

/-! ### the common tail of all six `*toa` functions -/

theorem toaTail_spec (letterA b ud : Nat) (hb : 2 ≤ b) (hud : ud < 2 ^ 64)
    (a seg : List Byte) (z : Byte) (c : List Byte) (hlen : seg.length = (digits b ud).length) :
    toaTail letterA b ud (a ++ seg ++ z :: c) a.length
      = some (a ++ (digits b ud).map (toaChar letterA) ++ 0#8 :: c, a.length + seg.length) := by
  have hlen' : seg.length = (lsd b ud).length := by simpa [digits] using hlen
  unfold toaTail
  rw [divLoop_spec letterA b hb 64 ud a seg (z :: c) hud (by omega) hlen']
  simp only [Option.bind_some]
  rw [wr_mid (a ++ (lsd b ud).map (toaChar letterA)) z c _ _ (by simp [hlen'])]
  simp only [Option.bind_some]
  have := revLoop_spec ((lsd b ud).map (toaChar letterA)).length ((lsd b ud).map (toaChar letterA)) a (0#8 :: c)
    (a.length + seg.length) rfl (by simp [hlen'])
  have e : a.length + ((lsd b ud).map (toaChar letterA)).length - 1 = a.length + seg.length - 1 := by
    simp [hlen']
  rw [e] at this
  rw [this]
  simp [digits, List.map_reverse]

theorem byteOfNat_eq (x : Nat) : byteOfNat x = BitVec.ofNat 8 x := by
  apply BitVec.eq_of_toNat_eq; simp [byteOfNat]

/-- the character arithmetic of the code produces the alphabet of the specification -/
theorem toaChar_lower : ∀ d, d < 36 → toaChar 97 d = digitChar false d := by decide
theorem toaChar_upper : ∀ d, d < 36 → toaChar 65 d = digitChar true d := by decide

theorem digits_lt {b : Nat} (hb : 2 ≤ b) (n : Nat) : ∀ d ∈ digits b n, d < b := by
  intro d hd; exact lsd_lt hb n d (by simpa [digits] using hd)

theorem map_toaChar_lower {b : Nat} (hb : 2 ≤ b) (hb36 : b ≤ 36) (n : Nat) :
    (digits b n).map (toaChar 97) = canonNat false b n := by
  unfold canonNat
  exact List.map_congr_left fun d hd => toaChar_lower d (by have := digits_lt hb n d hd; omega)

theorem map_toaChar_upper {b : Nat} (hb : 2 ≤ b) (hb36 : b ≤ 36) (n : Nat) :
    (digits b n).map (toaChar 65) = canonNat true b n := by
  unfold canonNat
  exact List.map_congr_left fun d hd => toaChar_upper d (by have := digits_lt hb n d hd; omega)

theorem canonNat_length (up : Bool) (b n : Nat) : (canonNat up b n).length = (digits b n).length := by
  simp [canonNat]

theorem canonNat_ne_nil (up : Bool) (b n : Nat) : canonNat up b n ≠ [] := by
  intro h
  have := congrArg List.length h
  simp [canonNat, digits] at this
  exact lsd_ne_nil b n this

/-- a buffer of at least `n + 1` bytes splits into `n` bytes, one byte, and the rest -/
theorem split_buf (m : List Byte) (n : Nat) (h : n + 1 ≤ m.length) :
    ∃ seg z, m = seg ++ z :: m.drop (n + 1) ∧ seg.length = n := by
  refine ⟨m.take n, m[n]'(by omega), ?_, by simp; omega⟩
  have : m.drop n = m[n]'(by omega) :: m.drop (n + 1) := by
    rw [List.drop_eq_getElem_cons]
  rw [← this, List.take_append_drop]

/-- unsigned rendering: `toaTail` from offset 0 after `*buf = '\0'` -/
theorem toa_unsigned_core (letterA b ud : Nat) (hb : 2 ≤ b) (hud : ud < 2 ^ 64)
    (seg : List Byte) (z : Byte) (c : List Byte) (hlen : seg.length = (digits b ud).length) :
    (wr (seg ++ z :: c) 0 0#8).bind (fun m => toaTail letterA b ud m 0)
      = some ((digits b ud).map (toaChar letterA) ++ 0#8 :: c, seg.length) := by
  match seg, hlen with
  | [], hlen => simp [digits] at hlen; exact absurd hlen.symm (by simpa using lsd_ne_nil b ud)
  | s :: seg', hlen =>
    simp only [List.cons_append, wr, Option.bind_some]
    have := toaTail_spec letterA b ud hb hud [] (0#8 :: seg') z c (by simpa using hlen)
    simpa using this

/-- signed rendering of a negative value: `'-'` at offset 0, digits from offset 1 -/
theorem toa_signed_core (letterA b ud : Nat) (hb : 2 ≤ b) (hud : ud < 2 ^ 64)
    (seg : List Byte) (z : Byte) (c : List Byte) (hlen : seg.length = (digits b ud).length + 1) :
    (wr (seg ++ z :: c) 0 0#8).bind (fun m => (wr m 0 0x2D#8).bind fun m => toaTail letterA b ud m 1)
      = some (0x2D#8 :: (digits b ud).map (toaChar letterA) ++ 0#8 :: c, seg.length) := by
  match seg, hlen with
  | s :: seg', hlen =>
    simp only [List.cons_append, wr, Option.bind_some]
    have := toaTail_spec letterA b ud hb hud [0x2D#8] seg' z c (by simpa using hlen)
    simp only [List.length_cons, List.length_nil, Nat.zero_add, List.cons_append, List.nil_append] at this
    rw [this]
    simp [Nat.add_comm]

theorem slt_zero_iff64 (x : BitVec 64) : x.slt 0#64 = true ↔ x.toInt < 0 := by
  rw [BitVec.slt_iff_toInt_lt]; simp
theorem slt_zero_iff32 (x : BitVec 32) : x.slt 0#32 = true ↔ x.toInt < 0 := by
  rw [BitVec.slt_iff_toInt_lt]; simp

theorem neg_mag64 (x : BitVec 64) (h : x.toInt < 0) : (0#64 - x).toNat = x.toInt.natAbs := by
  have hx := x.isLt
  rw [BitVec.toInt_eq_toNat_cond] at h ⊢
  rw [BitVec.toNat_sub]
  simp only [BitVec.toNat_ofNat, Nat.zero_mod, Nat.add_zero]
  split at h <;> split <;> omega
theorem nonneg_mag64 (x : BitVec 64) (h : ¬ x.toInt < 0) : x.toNat = x.toInt.natAbs := by
  have hx := x.isLt
  rw [BitVec.toInt_eq_toNat_cond] at h ⊢
  split at h <;> split <;> omega
theorem neg_mag32 (x : BitVec 32) (h : x.toInt < 0) : (0#32 - x).toNat = x.toInt.natAbs := by
  have hx := x.isLt
  rw [BitVec.toInt_eq_toNat_cond] at h ⊢
  rw [BitVec.toNat_sub]
  simp only [BitVec.toNat_ofNat, Nat.zero_mod, Nat.add_zero]
  split at h <;> split <;> omega
theorem nonneg_mag32 (x : BitVec 32) (h : ¬ x.toInt < 0) : x.toNat = x.toInt.natAbs := by
  have hx := x.isLt
  rw [BitVec.toInt_eq_toNat_cond] at h ⊢
  split at h <;> split <;> omega

theorem natAbs_lt64 (x : BitVec 64) : x.toInt.natAbs < 2 ^ 64 := by
  have h1 := @BitVec.toInt_lt 64 x
  have h2 := BitVec.le_toInt x
  simp at h1 h2; omega
theorem natAbs_lt32 (x : BitVec 32) : x.toInt.natAbs < 2 ^ 64 := by
  have h1 := @BitVec.toInt_lt 32 x
  have h2 := BitVec.le_toInt x
  simp at h1 h2; omega

theorem canonInt_length_neg (up : Bool) (b : Nat) (v : Int) (h : v < 0) :
    (canonInt up b v).length = (digits b v.natAbs).length + 1 := by
  simp [canonInt, h, canonNat]
theorem canonInt_length_nonneg (up : Bool) (b : Nat) (v : Int) (h : ¬ v < 0) :
    (canonInt up b v).length = (digits b v.natAbs).length := by
  simp [canonInt, h, canonNat]

theorem i64toa_spec (num : BitVec 64) (base : BitVec 8) (hb : 2 ≤ base.toNat) (hb36 : base.toNat ≤ 36)
    (m : List Byte) (hm : (canonInt false base.toNat num.toInt).length + 1 ≤ m.length) :
    i64toa num m base
      = some (canonInt false base.toNat num.toInt ++ 0#8 :: m.drop ((canonInt false base.toNat num.toInt).length + 1),
              (canonInt false base.toNat num.toInt).length) := by
  obtain ⟨seg, z, hsplit, hseg⟩ := split_buf m _ hm
  have hbase : ¬ (base.toNat < 2 ∨ base.toNat > 36) := by omega
  unfold i64toa
  by_cases hneg : num.toInt < 0
  · have hs : num.slt 0#64 = true := (slt_zero_iff64 num).mpr hneg
    rw [canonInt_length_neg _ _ _ hneg] at hseg
    have := toa_signed_core 97 base.toNat (0#64 - num).toNat hb (by rw [neg_mag64 num hneg]; exact natAbs_lt64 num)
      seg z (m.drop ((canonInt false base.toNat num.toInt).length + 1)) (by rw [neg_mag64 num hneg]; exact hseg)
    rw [← hsplit] at this
    simp only [neg_mag64 num hneg, map_toaChar_lower hb hb36] at this
    rw [Option.bind_eq_some_iff] at this
    obtain ⟨m1, h1, h2⟩ := this
    rw [h1]
    simp only [Option.bind_some, hbase, if_false, hs, if_true]
    rw [neg_mag64 num hneg, h2, hseg, canonInt_length_neg _ _ _ hneg]
    simp [canonInt, hneg]
  · have hs : ¬ (num.slt 0#64 = true) := fun h => hneg ((slt_zero_iff64 num).mp h)
    rw [canonInt_length_nonneg _ _ _ hneg] at hseg
    have := toa_unsigned_core 97 base.toNat num.toNat hb num.isLt
      seg z (m.drop ((canonInt false base.toNat num.toInt).length + 1)) (by rw [nonneg_mag64 num hneg]; exact hseg)
    rw [← hsplit] at this
    simp only [nonneg_mag64 num hneg, map_toaChar_lower hb hb36] at this
    rw [Option.bind_eq_some_iff] at this
    obtain ⟨m1, h1, h2⟩ := this
    rw [h1]
    simp only [Option.bind_some, hbase, if_false, hs]
    rw [nonneg_mag64 num hneg, h2, hseg, canonInt_length_nonneg _ _ _ hneg]
    simp [canonInt, hneg]

theorem u64toa_spec (num : BitVec 64) (base : BitVec 8) (hb : 2 ≤ base.toNat) (hb36 : base.toNat ≤ 36)
    (m : List Byte) (hm : (canonNat true base.toNat num.toNat).length + 1 ≤ m.length) :
    u64toa num m base
      = some (canonNat true base.toNat num.toNat ++ 0#8 :: m.drop ((canonNat true base.toNat num.toNat).length + 1),
              (canonNat true base.toNat num.toNat).length) := by
  obtain ⟨seg, z, hsplit, hseg⟩ := split_buf m _ hm
  have hbase : ¬ (base.toNat < 2 ∨ base.toNat > 36) := by omega
  unfold u64toa
  rw [canonNat_length] at hseg
  have := toa_unsigned_core 65 base.toNat num.toNat hb num.isLt seg z
    (m.drop ((canonNat true base.toNat num.toNat).length + 1)) hseg
  rw [← hsplit] at this
  simp only [map_toaChar_upper hb hb36] at this
  rw [Option.bind_eq_some_iff] at this
  obtain ⟨m1, h1, h2⟩ := this
  rw [h1]
  simp only [Option.bind_some, hbase, if_false]
  rw [h2, hseg, canonNat_length]

/-- all six functions: a base outside 2..36 leaves the empty string -/
theorem i64toa_badbase (num : BitVec 64) (base : BitVec 8) (h : base.toNat < 2 ∨ base.toNat > 36)
    (x : Byte) (rest : List Byte) : i64toa num (x :: rest) base = some (0#8 :: rest, 0) := by
  simp [i64toa, wr, h]
theorem u64toa_badbase (num : BitVec 64) (base : BitVec 8) (h : base.toNat < 2 ∨ base.toNat > 36)
    (x : Byte) (rest : List Byte) : u64toa num (x :: rest) base = some (0#8 :: rest, 0) := by
  simp [u64toa, wr, h]

theorem retBuf_some (m : List Byte) (p : Nat) : retBuf (some (m, p)) = some (m, 0) := rfl

theorem lc_signed_generic (b ud : Nat) (v : Int) (hb : 2 ≤ b) (hb36 : b ≤ 36) (hneg : v < 0)
    (hud : ud = v.natAbs) (hlt : v.natAbs < 2 ^ 64)
    (m : List Byte) (hm : (canonInt false b v).length + 1 ≤ m.length) :
    (wr m 0 0#8).bind (fun m => (wr m 0 0x2D#8).bind fun m => retBuf (toaTail 97 b ud m 1))
      = some (canonInt false b v ++ 0#8 :: m.drop ((canonInt false b v).length + 1), 0) := by
  obtain ⟨seg, z, hsplit, hseg⟩ := split_buf m _ hm
  rw [canonInt_length_neg _ _ _ hneg] at hseg
  subst hud
  have := toa_signed_core 97 b v.natAbs hb hlt seg z (m.drop ((canonInt false b v).length + 1)) hseg
  rw [← hsplit] at this
  simp only [map_toaChar_lower hb hb36] at this
  rw [Option.bind_eq_some_iff] at this
  obtain ⟨m1, h1, h2⟩ := this
  rw [Option.bind_eq_some_iff] at h2
  obtain ⟨m2, h3, h4⟩ := h2
  rw [h1]; simp only [Option.bind_some]; rw [h3]; simp only [Option.bind_some]; rw [h4, retBuf_some]
  simp [canonInt, hneg]

theorem lc_unsigned_generic (b ud : Nat) (hb : 2 ≤ b) (hb36 : b ≤ 36) (hlt : ud < 2 ^ 64)
    (m : List Byte) (hm : (canonNat false b ud).length + 1 ≤ m.length) :
    (wr m 0 0#8).bind (fun m => retBuf (toaTail 97 b ud m 0))
      = some (canonNat false b ud ++ 0#8 :: m.drop ((canonNat false b ud).length + 1), 0) := by
  obtain ⟨seg, z, hsplit, hseg⟩ := split_buf m _ hm
  rw [canonNat_length] at hseg
  have := toa_unsigned_core 97 b ud hb hlt seg z (m.drop ((canonNat false b ud).length + 1)) hseg
  rw [← hsplit] at this
  simp only [map_toaChar_lower hb hb36] at this
  rw [Option.bind_eq_some_iff] at this
  obtain ⟨m1, h1, h2⟩ := this
  rw [h1]; simp only [Option.bind_some]; rw [h2, retBuf_some]

theorem canonInt_nonneg (up : Bool) (b : Nat) (v : Int) (h : ¬ v < 0) : canonInt up b v = canonNat up b v.natAbs := by
  simp [canonInt, h]

theorem ltoa_spec (num : BitVec 64) (base : BitVec 16) (hb : 2 ≤ base.toNat) (hb36 : base.toNat ≤ 36)
    (m : List Byte) (hm : (canonInt false base.toNat num.toInt).length + 1 ≤ m.length) :
    ltoa num m base
      = some (canonInt false base.toNat num.toInt ++ 0#8 :: m.drop ((canonInt false base.toNat num.toInt).length + 1), 0) := by
  have hbase : ¬ (base.toNat < 2 ∨ base.toNat > 36) := by omega
  by_cases hneg : num.toInt < 0
  · have hs : num.slt 0#64 = true := (slt_zero_iff64 num).mpr hneg
    have := lc_signed_generic base.toNat (0#64 - num).toNat num.toInt hb hb36 hneg (neg_mag64 num hneg) (natAbs_lt64 num) m hm
    rw [Option.bind_eq_some_iff] at this
    obtain ⟨m1, h1, h2⟩ := this
    unfold ltoa
    rw [h1]; simp only [Option.bind_some, hbase, if_false, hs, if_true]; exact h2
  · have hs : ¬ (num.slt 0#64 = true) := fun h => hneg ((slt_zero_iff64 num).mp h)
    have hm' := hm
    rw [canonInt_nonneg _ _ _ hneg, ← nonneg_mag64 num hneg] at hm'
    have := lc_unsigned_generic base.toNat num.toNat hb hb36 num.isLt m hm'
    rw [Option.bind_eq_some_iff] at this
    obtain ⟨m1, h1, h2⟩ := this
    unfold ltoa
    rw [h1]; simp only [Option.bind_some, hbase, if_false, hs]
    rw [h2, canonInt_nonneg _ _ _ hneg, ← nonneg_mag64 num hneg]
    simp

theorem itoa_spec (num : BitVec 32) (base : BitVec 16) (hb : 2 ≤ base.toNat) (hb36 : base.toNat ≤ 36)
    (m : List Byte) (hm : (canonInt false base.toNat num.toInt).length + 1 ≤ m.length) :
    itoa num m base
      = some (canonInt false base.toNat num.toInt ++ 0#8 :: m.drop ((canonInt false base.toNat num.toInt).length + 1), 0) := by
  have hbase : ¬ (base.toNat < 2 ∨ base.toNat > 36) := by omega
  by_cases hneg : num.toInt < 0
  · have hs : num.slt 0#32 = true := (slt_zero_iff32 num).mpr hneg
    have := lc_signed_generic base.toNat (0#32 - num).toNat num.toInt hb hb36 hneg (neg_mag32 num hneg) (natAbs_lt32 num) m hm
    rw [Option.bind_eq_some_iff] at this
    obtain ⟨m1, h1, h2⟩ := this
    unfold itoa
    rw [h1]; simp only [Option.bind_some, hbase, if_false, hs, if_true]; exact h2
  · have hs : ¬ (num.slt 0#32 = true) := fun h => hneg ((slt_zero_iff32 num).mp h)
    have hm' := hm
    rw [canonInt_nonneg _ _ _ hneg, ← nonneg_mag32 num hneg] at hm'
    have hlt : num.toNat < 2 ^ 64 := by have := num.isLt; omega
    have := lc_unsigned_generic base.toNat num.toNat hb hb36 hlt m hm'
    rw [Option.bind_eq_some_iff] at this
    obtain ⟨m1, h1, h2⟩ := this
    unfold itoa
    rw [h1]; simp only [Option.bind_some, hbase, if_false, hs]
    rw [h2, canonInt_nonneg _ _ _ hneg, ← nonneg_mag32 num hneg]
    simp

theorem ultoa_spec (num : BitVec 64) (base : BitVec 16) (hb : 2 ≤ base.toNat) (hb36 : base.toNat ≤ 36)
    (m : List Byte) (hm : (canonNat false base.toNat num.toNat).length + 1 ≤ m.length) :
    ultoa num m base
      = some (canonNat false base.toNat num.toNat ++ 0#8 :: m.drop ((canonNat false base.toNat num.toNat).length + 1), 0) := by
  have hbase : ¬ (base.toNat < 2 ∨ base.toNat > 36) := by omega
  have := lc_unsigned_generic base.toNat num.toNat hb hb36 num.isLt m hm
  rw [Option.bind_eq_some_iff] at this
  obtain ⟨m1, h1, h2⟩ := this
  unfold ultoa
  rw [h1]; simp only [Option.bind_some, hbase, if_false]; exact h2

theorem utoa_spec (num : BitVec 32) (base : BitVec 16) (hb : 2 ≤ base.toNat) (hb36 : base.toNat ≤ 36)
    (m : List Byte) (hm : (canonNat false base.toNat num.toNat).length + 1 ≤ m.length) :
    utoa num m base
      = some (canonNat false base.toNat num.toNat ++ 0#8 :: m.drop ((canonNat false base.toNat num.toNat).length + 1), 0) := by
  have hbase : ¬ (base.toNat < 2 ∨ base.toNat > 36) := by omega
  have hlt : num.toNat < 2 ^ 64 := by have := num.isLt; omega
  have := lc_unsigned_generic base.toNat num.toNat hb hb36 hlt m hm
  rw [Option.bind_eq_some_iff] at this
  obtain ⟨m1, h1, h2⟩ := this
  unfold utoa
  rw [h1]; simp only [Option.bind_some, hbase, if_false]; exact h2

/-! ### parse side -/

/-- `digit_value` read literally, with `char` signed: range tests on the
    sign-extended value, result narrowed to `uint8_t` -/
def digitValueSigned (c : Byte) : Byte :=
  if 48 ≤ c.toInt ∧ c.toInt ≤ 57 then c - 48#8
  else if 97 ≤ c.toInt ∧ c.toInt ≤ 122 then c - 97#8 + 10#8
  else if 65 ≤ c.toInt ∧ c.toInt ≤ 90 then c - 65#8 + 10#8
  else 0xFF#8

theorem digitValue_signed : ∀ c : Byte, (digitValueSigned c).toNat = digitValue c := by decide

theorem digitValue_digitChar : ∀ d, d < 36 → ∀ up, digitValue (digitChar up d) = d := by decide

/-- a character is accepted only if it is the upper- or lower-case character of its value -/
theorem digitValue_classify : ∀ c : Byte, digitValue c = 255 ∨
    (digitValue c < 36 ∧ (c = digitChar true (digitValue c) ∨ c = digitChar false (digitValue c))) := by decide

theorem digitValue_nul : digitValue 0#8 = 255 := by decide

theorem digitChar_ne_minus : ∀ d, d < 36 → ∀ up, digitChar up d ≠ 0x2D#8 := by decide

theorem mod_step (M b r d : Nat) : ((r % M) * b + d) % M = (r * b + d) % M := by
  conv => rhs; rw [Nat.add_mod, Nat.mul_mod]
  conv => lhs; rw [Nat.add_mod, Nat.mul_mod, Nat.mod_mod]

theorem atouLoop_digits (M b : Nat) :
    ∀ (chars rest : List Byte) (r pos : Nat), (∀ c ∈ chars, digitValue c < b) →
      atouLoop M b (chars ++ rest) (r % M) pos
        = atouLoop M b rest ((chars.map digitValue).foldl (fun a d => a * b + d) r % M) (pos + chars.length) := by
  intro chars
  induction chars with
  | nil => intro rest r pos _; simp
  | cons c cs ih =>
    intro rest r pos h
    have hc : digitValue c < b := h c (by simp)
    simp only [List.cons_append, atouLoop, hc, if_true, List.map_cons, List.foldl_cons, List.length_cons]
    rw [mod_step, ih rest (r * b + digitValue c) (pos + 1) (fun c' hc' => h c' (by simp [hc']))]
    congr 1; omega

/-- parsing: a run of digits of the base, then a character that is not one -/
theorem atouLoop_parse (M b : Nat) (chars : List Byte) (t : Byte) (rest : List Byte) (pos : Nat)
    (h : ∀ c ∈ chars, digitValue c < b) (ht : ¬ digitValue t < b) :
    atouLoop M b (chars ++ t :: rest) 0 pos
      = some (ofDigits b (chars.map digitValue) % M, pos + chars.length) := by
  have := atouLoop_digits M b chars (t :: rest) 0 pos h
  rw [Nat.zero_mod] at this
  rw [this]
  simp [atouLoop, ht, ofDigits]

theorem ofDigits_digits {b : Nat} (hb : 2 ≤ b) (n : Nat) : ofDigits b (digits b n) = n := by
  rw [digits, ofDigits_reverse, ofLsd_lsd hb]

theorem canonNat_digitValue {b : Nat} (hb : 2 ≤ b) (hb36 : b ≤ 36) (up : Bool) (n : Nat) :
    (canonNat up b n).map digitValue = digits b n := by
  unfold canonNat
  rw [List.map_map]
  have : ∀ d ∈ digits b n, (digitValue ∘ digitChar up) d = id d := by
    intro d hd
    have := digits_lt hb n d hd
    simp [digitValue_digitChar d (by omega) up]
  rw [List.map_congr_left this, List.map_id]

theorem canonNat_accepted {b : Nat} (hb : 2 ≤ b) (hb36 : b ≤ 36) (up : Bool) (n : Nat) :
    ∀ c ∈ canonNat up b n, digitValue c < b := by
  intro c hc
  simp only [canonNat, List.mem_map] at hc
  obtain ⟨d, hd, rfl⟩ := hc
  have := digits_lt hb n d hd
  rw [digitValue_digitChar d (by omega) up]; exact this

/-- the canonical text of `n`, followed by a NUL, parses back to `n mod M`, ending at the NUL -/
theorem atouLoop_canon (M : Nat) (base : BitVec 8) (hb : 2 ≤ base.toNat) (hb36 : base.toNat ≤ 36)
    (up : Bool) (n : Nat) (tail : List Byte) (pos : Nat) :
    atouLoop M base.toNat (canonNat up base.toNat n ++ 0#8 :: tail) 0 pos
      = some (n % M, pos + (canonNat up base.toNat n).length) := by
  rw [atouLoop_parse M base.toNat _ 0#8 tail pos (canonNat_accepted hb hb36 up n)
        (by rw [digitValue_nul]; omega),
      canonNat_digitValue hb hb36, ofDigits_digits hb]

theorem ofNat_natAbs_neg (w : Nat) (z : Int) (h : z < 0) : -(BitVec.ofNat w z.natAbs) = BitVec.ofInt w z := by
  rw [← BitVec.ofInt_natCast, ← BitVec.ofInt_neg, Int.ofNat_natAbs_of_nonpos (by omega)]; simp
theorem ofNat_natAbs_nonneg (w : Nat) (z : Int) (h : ¬ z < 0) : BitVec.ofNat w z.natAbs = BitVec.ofInt w z := by
  rw [← BitVec.ofInt_natCast, Int.natAbs_of_nonneg (by omega)]

theorem ofNat_mod (w n : Nat) : BitVec.ofNat w (n % 2 ^ w) = BitVec.ofNat w n := by
  apply BitVec.eq_of_toNat_eq; simp

theorem canonNat_head (up : Bool) {b : Nat} (hb : 2 ≤ b) (hb36 : b ≤ 36) (n : Nat) :
    ∃ d tl, d < 36 ∧ canonNat up b n = digitChar up d :: tl := by
  cases h : digits b n with
  | nil => simp [digits] at h; exact absurd h (lsd_ne_nil b n)
  | cons d tl =>
    refine ⟨d, tl.map (digitChar up), ?_, by simp [canonNat, h]⟩
    have := digits_lt hb n d (by simp [h]); omega

theorem atou64_canon (base : BitVec 8) (hb : 2 ≤ base.toNat) (hb36 : base.toNat ≤ 36) (up : Bool) (n : Nat)
    (tail : List Byte) :
    atou64 (canonNat up base.toNat n ++ 0#8 :: tail) 0 base
      = some (BitVec.ofNat 64 n, (canonNat up base.toNat n).length) := by
  simp [atou64, atouLoop_canon _ base hb hb36, ofNat_mod 64 n]

theorem atou32_canon (base : BitVec 8) (hb : 2 ≤ base.toNat) (hb36 : base.toNat ≤ 36) (up : Bool) (n : Nat)
    (tail : List Byte) :
    atou32 (canonNat up base.toNat n ++ 0#8 :: tail) 0 base
      = some (BitVec.ofNat 32 n, (canonNat up base.toNat n).length) := by
  simp [atou32, atouLoop_canon _ base hb hb36, ofNat_mod 32 n]

theorem atoi64_canon (base : BitVec 8) (hb : 2 ≤ base.toNat) (hb36 : base.toNat ≤ 36) (up : Bool) (z : Int)
    (tail : List Byte) :
    atoi64 (canonInt up base.toNat z ++ 0#8 :: tail) base
      = some (BitVec.ofInt 64 z, (canonInt up base.toNat z).length) := by
  by_cases hneg : z < 0
  · simp only [canonInt, hneg, if_true, List.cons_append, List.nil_append, atoi64, List.getElem?_cons_zero,
      List.length_cons]
    have : (0x2D#8 == 0x2D#8) = true := by decide
    simp only [this, if_true, atou64, List.drop_succ_cons, List.drop_zero]
    rw [atouLoop_canon _ base hb hb36]
    simp [ofNat_mod 64, ofNat_natAbs_neg 64 z hneg, Nat.add_comm]
  · obtain ⟨d, tl, hd, hh⟩ := canonNat_head up hb hb36 z.natAbs
    have hm : (digitChar up d == 0x2D#8) = false := by
      simpa using digitChar_ne_minus d hd up
    have h0 : (canonInt up base.toNat z ++ 0#8 :: tail)[0]? = some (digitChar up d) := by
      simp [canonInt, hneg, hh]
    unfold atoi64
    rw [h0]
    simp only [hm]
    have := atou64_canon base hb hb36 up z.natAbs tail
    simp only [canonInt, hneg, if_false, List.nil_append, Bool.false_eq_true] at this ⊢
    rw [this]
    simp [ofNat_natAbs_nonneg 64 z hneg]

theorem atoi32_canon (base : BitVec 8) (hb : 2 ≤ base.toNat) (hb36 : base.toNat ≤ 36) (up : Bool) (z : Int)
    (tail : List Byte) :
    atoi32 (canonInt up base.toNat z ++ 0#8 :: tail) base
      = some (BitVec.ofInt 32 z, (canonInt up base.toNat z).length) := by
  by_cases hneg : z < 0
  · simp only [canonInt, hneg, if_true, List.cons_append, List.nil_append, atoi32, List.getElem?_cons_zero,
      List.length_cons]
    have : (0x2D#8 == 0x2D#8) = true := by decide
    simp only [this, if_true, atou32, List.drop_succ_cons, List.drop_zero]
    rw [atouLoop_canon _ base hb hb36]
    simp [ofNat_mod 32, ofNat_natAbs_neg 32 z hneg, Nat.add_comm]
  · obtain ⟨d, tl, hd, hh⟩ := canonNat_head up hb hb36 z.natAbs
    have hm : (digitChar up d == 0x2D#8) = false := by
      simpa using digitChar_ne_minus d hd up
    have h0 : (canonInt up base.toNat z ++ 0#8 :: tail)[0]? = some (digitChar up d) := by
      simp [canonInt, hneg, hh]
    unfold atoi32
    rw [h0]
    simp only [hm]
    have := atou32_canon base hb hb36 up z.natAbs tail
    simp only [canonInt, hneg, if_false, List.nil_append, Bool.false_eq_true] at this ⊢
    rw [this]
    simp [ofNat_natAbs_nonneg 32 z hneg]

theorem setWidth_ofInt16 (z : Int) : (BitVec.ofInt 32 z).setWidth 16 = BitVec.ofInt 16 z := by
  apply BitVec.eq_of_toNat_eq
  simp [BitVec.toNat_ofInt]
  omega
theorem setWidth_ofInt8 (z : Int) : (BitVec.ofInt 32 z).setWidth 8 = BitVec.ofInt 8 z := by
  apply BitVec.eq_of_toNat_eq
  simp [BitVec.toNat_ofInt]
  omega

/-! digits: no leading zero, length bound, uniqueness -/

theorem lsd_getLast_ne_zero {b : Nat} (hb : 2 ≤ b) (n : Nat) (hn : n ≠ 0) :
    (lsd b n).getLast (lsd_ne_nil b n) ≠ 0 := by
  induction n using Nat.strongRecOn with
  | _ n ih =>
    by_cases h : n < b
    · simp [lsd_small h, hn]
    · have hbig : b ≤ n := by omega
      have hq : n / b ≠ 0 := by have : 0 < n / b := Nat.div_pos hbig (by omega); omega
      have := ih (n / b) (Nat.div_lt_self (by omega) (by omega)) hq
      simp only [lsd_big hb hbig]
      rw [List.getLast_cons (lsd_ne_nil b (n / b))]
      exact this

theorem lsd_length_le {b : Nat} (hb : 2 ≤ b) : ∀ (k n : Nat), n < 2 ^ k → (lsd b n).length ≤ max k 1 := by
  intro k
  induction k with
  | zero => intro n hn; have : n = 0 := by simpa using hn
            subst this; rw [lsd_small (by omega)]; simp
  | succ k ih =>
    intro n hn
    by_cases h : n < b
    · rw [lsd_small h]; simp
    · rw [lsd_big hb (by omega)]
      have h1 : n / b ≤ n / 2 := Nat.div_le_div_left hb (by omega)
      have h2 : n / 2 < 2 ^ k := by rw [Nat.pow_succ] at hn; omega
      have := ih (n / b) (by omega)
      have hq : 0 < n / b := Nat.div_pos (by omega) (by omega)
      have hk : 0 < k := by
        cases k with
        | zero => simp at h2; omega
        | succ _ => omega
      simp only [List.length_cons]
      omega

theorem ofLsd_ne_zero {b : Nat} (hb : 2 ≤ b) : ∀ (ls : List Nat) (h : ls ≠ []), ls.getLast h ≠ 0 → ofLsd b ls ≠ 0 := by
  intro ls
  induction ls with
  | nil => intro h; exact absurd rfl h
  | cons d tl ih =>
    intro _ hl
    cases tl with
    | nil => simpa [ofLsd] using hl
    | cons d2 tl2 =>
      rw [List.getLast_cons (by simp)] at hl
      have := ih (by simp) hl
      simp only [ofLsd] at this ⊢
      have : 0 < b * (d2 + b * ofLsd b tl2) := Nat.mul_pos (by omega) (by omega)
      omega

/-- a least-significant-first digit list with digits below the base and a non-zero
    top digit (or the single digit 0) is the `lsd` of its value -/
theorem lsd_ofLsd {b : Nat} (hb : 2 ≤ b) : ∀ (ls : List Nat) (h : ls ≠ []), (∀ d ∈ ls, d < b) →
    (ls = [0] ∨ ls.getLast h ≠ 0) → lsd b (ofLsd b ls) = ls := by
  intro ls
  induction ls with
  | nil => intro h; exact absurd rfl h
  | cons d tl ih =>
    intro _ hlt hlast
    have hd : d < b := hlt d (by simp)
    cases tl with
    | nil => simp only [ofLsd, Nat.mul_zero, Nat.add_zero]; exact lsd_small hd
    | cons d2 tl2 =>
      have hl : (d2 :: tl2).getLast (by simp) ≠ 0 := by
        rcases hlast with h | h
        · simp at h
        · rwa [List.getLast_cons (by simp)] at h
      have hq := ofLsd_ne_zero hb (d2 :: tl2) (by simp) hl
      have hrec := ih (by simp) (fun x hx => hlt x (by simp [hx])) (Or.inr hl)
      have hval : ofLsd b (d :: d2 :: tl2) = d + b * ofLsd b (d2 :: tl2) := rfl
      rw [hval]
      have hpos : b ≤ b * ofLsd b (d2 :: tl2) := Nat.le_mul_of_pos_right b (by omega)
      rw [lsd_big hb (by omega)]
      have h1 : (d + b * ofLsd b (d2 :: tl2)) % b = d := by
        rw [Nat.add_mul_mod_self_left]; exact Nat.mod_eq_of_lt hd
      have h2 : (d + b * ofLsd b (d2 :: tl2)) / b = ofLsd b (d2 :: tl2) := by
        rw [Nat.add_mul_div_left _ _ (by omega), Nat.div_eq_of_lt hd, Nat.zero_add]
      rw [h1, h2, hrec]

/-! ### debug_printdec_uint64 -/

/-- `lsd` without the digit of zero -/
def lsdz (b n : Nat) : List Nat := if n = 0 then [] else lsd b n

theorem lsd_step {b : Nat} (hb : 2 ≤ b) (n : Nat) : lsd b n = n % b :: lsdz b (n / b) := by
  by_cases h : n < b
  · rw [lsd_small h, Nat.mod_eq_of_lt h, Nat.div_eq_of_lt h]; simp [lsdz]
  · have hq : n / b ≠ 0 := by have : 0 < n / b := Nat.div_pos (by omega) (by omega); omega
    rw [lsd_big hb (by omega)]; simp [lsdz, hq]

theorem lsd_length_le_pow {b : Nat} (hb : 2 ≤ b) : ∀ (k n : Nat), n < b ^ k → (lsd b n).length ≤ max k 1 := by
  intro k
  induction k with
  | zero => intro n hn; have : n = 0 := by simpa using hn
            subst this; rw [lsd_small (by omega)]; simp
  | succ k ih =>
    intro n hn
    by_cases h : n < b
    · rw [lsd_small h]; simp
    · rw [lsd_big hb (by omega)]
      have h2 : n / b < b ^ k := by
        apply Nat.div_lt_of_lt_mul; rw [Nat.pow_succ, Nat.mul_comm] at hn; exact hn
      have := ih (n / b) h2
      have hq : 0 < n / b := Nat.div_pos (by omega) (by omega)
      have hk : 0 < k := by
        cases k with
        | zero => simp at h2; omega
        | succ _ => omega
      simp only [List.length_cons]
      omega

def decChar (d : Nat) : Byte := byteOfNat (d + 48)

theorem decLoop_spec : ∀ (fuel x : Nat) (pre0 junk suf : List Byte),
    (lsdz 10 x).length < fuel → junk.length = (lsdz 10 x).length →
    decLoop fuel x (pre0 ++ junk ++ suf) (pre0.length + junk.length)
      = some (pre0 ++ (lsdz 10 x).reverse.map decChar ++ suf, pre0.length) := by
  intro fuel
  induction fuel with
  | zero => intro _ _ _ _ h; omega
  | succ f ih =>
    intro x pre0 junk suf hf hj
    by_cases hx : x = 0
    · subst hx
      simp only [lsdz, if_true, List.length_nil] at hj ⊢
      have : junk = [] := List.eq_nil_of_length_eq_zero hj
      subst this
      simp [decLoop]
    · have hl : lsdz 10 x = x % 10 :: lsdz 10 (x / 10) := by
        simp only [lsdz, hx, if_false]; rw [lsd_step (by omega)]; simp [lsdz]
      rw [hl] at hj hf ⊢
      rcases List.eq_nil_or_concat junk with h | ⟨junk0, j, h⟩
      · subst h; simp at hj
      · subst h
        rw [List.concat_eq_append] at hj ⊢
        have hj0 : junk0.length = (lsdz 10 (x / 10)).length := by simpa using hj
        have hp : pre0.length + (junk0 ++ [j]).length ≠ 0 := by simp
        have hp1 : pre0.length + (junk0 ++ [j]).length - 1 = (pre0 ++ junk0).length := by simp <;> omega
        rw [decLoop, if_pos hx, if_neg hp, hp1]
        have hm : pre0 ++ (junk0 ++ [j]) ++ suf = (pre0 ++ junk0) ++ j :: suf := by simp
        rw [hm, wr_mid _ _ _ _ _ rfl]
        simp only [Option.bind_some]
        have := ih (x / 10) pre0 junk0 (byteOfNat (x % 10 + 48) :: suf) (by simp at hf; omega) hj0
        rw [List.length_append, this]
        simp [decChar]

theorem takeWhile_nul (l r : List Byte) (h : ∀ x ∈ l, x ≠ 0#8) :
    (l ++ 0#8 :: r).takeWhile (· ≠ 0#8) = l := by
  induction l with
  | nil => simp
  | cons a t ih =>
    have ha : a ≠ 0#8 := h a (by simp)
    have ih' := ih (fun x hx => h x (by simp [hx]))
    simp [ha]
    simpa using ih'

theorem decChar_eq : ∀ d, d < 10 → decChar d = digitChar false d ∧ decChar d ≠ 0#8 := by decide

theorem printdecU64_spec (x : BitVec 64) : printdecU64 x = some (canonNat false 10 x.toNat) := by
  have hlen : (lsdz 10 x.toNat).length ≤ 20 := by
    unfold lsdz; split
    · simp
    · have := lsd_length_le_pow (b := 10) (by omega) 20 x.toNat (by have := x.isLt; omega)
      omega
  have hc : wr (List.replicate 24 0xA5#8) 23 0#8 = some (List.replicate 23 0xA5#8 ++ [0#8]) := by decide
  have hsplit : List.replicate 23 (0xA5#8 : Byte)
      = List.replicate (23 - (lsdz 10 x.toNat).length) 0xA5#8 ++ List.replicate (lsdz 10 x.toNat).length 0xA5#8 := by
    rw [List.replicate_append_replicate]; congr 1; omega
  unfold printdecU64
  rw [hc]
  simp only [Option.bind_some]
  have := decLoop_spec 24 x.toNat (List.replicate (23 - (lsdz 10 x.toNat).length) 0xA5#8)
    (List.replicate (lsdz 10 x.toNat).length 0xA5#8) [0#8] (by omega) (by simp)
  have e : (List.replicate (23 - (lsdz 10 x.toNat).length) (0xA5#8 : Byte)).length
      + (List.replicate (lsdz 10 x.toNat).length (0xA5#8 : Byte)).length = 23 := by simp; omega
  rw [e, ← hsplit] at this
  rw [this]
  simp only [Option.bind_some, cstrAt]
  have hdrop : ∀ (p q : List Byte), (p ++ q).drop p.length = q := by intro p q; simp
  rw [List.append_assoc, hdrop]
  have hd10 : ∀ d ∈ lsdz 10 x.toNat, d < 10 := by
    intro d hd; unfold lsdz at hd; split at hd
    · simp at hd
    · exact lsd_lt (by omega) _ d hd
  rw [takeWhile_nul _ _ (by
    intro c hc
    simp only [List.mem_map, List.mem_reverse] at hc
    obtain ⟨d, hd, rfl⟩ := hc
    exact (decChar_eq d (hd10 d hd)).2)]
  by_cases hx : x = 0#64
  · subst hx; simp [lsdz, canonNat, digits, lsd_small]; decide
  · have hxn : x.toNat ≠ 0 := fun h => hx (BitVec.eq_of_toNat_eq (by simpa using h))
    simp only [hx, if_false, List.nil_append, canonNat, digits]
    have : lsdz 10 x.toNat = lsd 10 x.toNat := by simp [lsdz, hxn]
    rw [← this]
    exact congrArg some (List.map_congr_left fun d hd => (decChar_eq d (hd10 d (by simpa using hd))).1)

theorem printdecSLL_spec (x : BitVec 64) : printdecSLL x = some (canonInt false 10 x.toInt) := by
  unfold printdecSLL
  by_cases hneg : x.toInt < 0
  · rw [if_pos ((slt_zero_iff64 x).mpr hneg), printdecU64_spec, neg_mag64 x hneg]
    simp [canonInt, hneg]
  · rw [if_neg (fun h => hneg ((slt_zero_iff64 x).mp h)), printdecU64_spec, nonneg_mag64 x hneg]
    simp [canonInt, hneg]

/-! ### fixed-width hexadecimal / binary printers -/

theorem fixedDigits_length (b : Nat) : ∀ w n, (fixedDigits b w n).length = w := by
  intro w; induction w with
  | zero => intro n; rfl
  | succ w ih => intro n; simp [fixedDigits, ih]

theorem fixedDigits_append (b : Nat) (w1 : Nat) : ∀ (w2 n : Nat),
    fixedDigits b (w1 + w2) n = fixedDigits b w1 (n / b ^ w2) ++ fixedDigits b w2 (n % b ^ w2) := by
  intro w2
  induction w2 with
  | zero => intro n; simp [fixedDigits]
  | succ w2 ih =>
    intro n
    have e1 : n / b / b ^ w2 = n / b ^ (w2 + 1) := by
      rw [Nat.div_div_eq_div_mul, Nat.pow_succ, Nat.mul_comm]
    have e2 : n % b ^ (w2 + 1) / b = n / b % b ^ w2 := by
      rw [Nat.pow_succ, Nat.mul_comm, Nat.mod_mul_right_div_self]
    have e3 : n % b ^ (w2 + 1) % b = n % b := by
      rw [Nat.pow_succ, Nat.mul_comm, Nat.mod_mul_right_mod]
    show fixedDigits b (w1 + w2 + 1) n = _
    simp only [fixedDigits]
    rw [ih (n / b), e1, e2, e3, List.append_assoc]

theorem printhexU8_spec : ∀ b : Byte, printhexU8 b = (fixedDigits 16 2 b.toNat).map (digitChar true) := by decide
theorem printbinU8_spec : ∀ b : Byte, printbinU8 b = (fixedDigits 2 8 b.toNat).map (digitChar true) := by decide
theorem printhexU4_spec : ∀ b : Byte, b.toNat < 16 → printhexU4 b = (fixedDigits 16 1 b.toNat).map (digitChar true) := by decide
theorem printbinU4_spec : ∀ b : Byte, b.toNat < 16 → printbinU4 b = (fixedDigits 2 4 b.toNat).map (digitChar true) := by decide

theorem printhexBytes_cons (x : Byte) (xs : List Byte) : printhexBytes (x :: xs) = printhexBytes xs ++ printhexU8 x := by
  simp [printhexBytes]
theorem printbinBytes_cons (x : Byte) (xs : List Byte) : printbinBytes (x :: xs) = printbinBytes xs ++ printbinU8 x := by
  simp [printbinBytes]

theorem printhexBytes_spec {w : Nat} : ∀ (k : Nat) (a : BitVec w),
    printhexBytes (bytesLE a k) = (fixedDigits 16 (2 * k) a.toNat).map (digitChar true) := by
  intro k
  induction k with
  | zero => intro a; simp [bytesLE, printhexBytes, fixedDigits]
  | succ k ih =>
    intro a
    have e : 2 * (k + 1) = 2 * k + 2 := by omega
    rw [bytesLE, printhexBytes_cons, ih, printhexU8_spec, e, fixedDigits_append 16 (2 * k) 2 a.toNat, List.map_append]
    simp [BitVec.toNat_ushiftRight, Nat.shiftRight_eq_div_pow]

theorem printbinBytes_spec {w : Nat} : ∀ (k : Nat) (a : BitVec w),
    printbinBytes (bytesLE a k) = (fixedDigits 2 (8 * k) a.toNat).map (digitChar true) := by
  intro k
  induction k with
  | zero => intro a; simp [bytesLE, printbinBytes, fixedDigits]
  | succ k ih =>
    intro a
    have e : 8 * (k + 1) = 8 * k + 8 := by omega
    rw [bytesLE, printbinBytes_cons, ih, printbinU8_spec, e, fixedDigits_append 2 (8 * k) 8 a.toNat, List.map_append]
    simp [BitVec.toNat_ushiftRight, Nat.shiftRight_eq_div_pow]

/-- fixed-width digits are the canonical digits, zero-padded on the left -/
theorem fixedDigits_zero (b : Nat) : ∀ w, fixedDigits b w 0 = List.replicate w 0 := by
  intro w; induction w with
  | zero => rfl
  | succ w ih => simp [fixedDigits, ih, List.replicate_succ']

theorem digits_big {b n : Nat} (hb : 2 ≤ b) (h : b ≤ n) : digits b n = digits b (n / b) ++ [n % b] := by
  simp [digits, lsd_big hb h]

theorem fixedDigits_eq_pad {b : Nat} (hb : 2 ≤ b) : ∀ (w n : Nat), n < b ^ (w + 1) →
    fixedDigits b (w + 1) n = List.replicate (w + 1 - (digits b n).length) 0 ++ digits b n := by
  intro w
  induction w with
  | zero =>
    intro n hn
    have hn' : n < b := by simpa using hn
    simp [fixedDigits, digits, lsd_small hn', Nat.mod_eq_of_lt hn']
  | succ w ih =>
    intro n hn
    by_cases h : n < b
    · simp [fixedDigits, digits, lsd_small h, Nat.mod_eq_of_lt h, Nat.div_eq_of_lt h, fixedDigits_zero,
        List.replicate_succ']
    · have hq : n / b < b ^ (w + 1) := by
        apply Nat.div_lt_of_lt_mul; rw [Nat.pow_succ, Nat.mul_comm] at hn; exact hn
      have e : fixedDigits b (w + 1 + 1) n = fixedDigits b (w + 1) (n / b) ++ [n % b] := rfl
      have hbn : b ≤ n := by omega
      rw [e, ih (n / b) hq, digits_big (n := n) hb hbn]
      simp only [List.length_append, List.length_cons, List.length_nil, List.append_assoc]
      congr 2; omega

theorem i32toa_spec (num : BitVec 32) (base : BitVec 8) (hb : 2 ≤ base.toNat) (hb36 : base.toNat ≤ 36)
    (m : List Byte) (hm : (canonInt false base.toNat num.toInt).length + 1 ≤ m.length) :
    i32toa num m base
      = some (canonInt false base.toNat num.toInt ++ 0#8 :: m.drop ((canonInt false base.toNat num.toInt).length + 1),
              (canonInt false base.toNat num.toInt).length) := by
  have e : (num.signExtend 64).toInt = num.toInt := BitVec.toInt_signExtend_of_le (by omega)
  have := i64toa_spec (num.signExtend 64) base hb hb36 m (by rw [e]; exact hm)
  rw [e] at this; exact this

theorem vt100Left_spec (arg : BitVec 32) (m : List Byte)
    (hm : (canonInt false 10 arg.toInt).length + 4 ≤ m.length) :
    vt100Left m arg
      = some (0x1B#8 :: 0x5B#8 :: canonInt false 10 arg.toInt ++ 0x44#8 :: 0#8
                :: m.drop ((canonInt false 10 arg.toInt).length + 4),
              (canonInt false 10 arg.toInt).length + 3) := by
  match m, hm with
  | x0 :: x1 :: rest, hm =>
    have hr : (canonInt false 10 arg.toInt).length + 2 ≤ rest.length := by simp at hm; omega
    have h10 : (10#8 : BitVec 8).toNat = 10 := rfl
    have hi := i32toa_spec arg 10#8 (by rw [h10]; omega) (by rw [h10]; omega) rest (by rw [h10]; omega)
    rw [h10] at hi
    obtain ⟨seg, y, hsplit, hseg⟩ := split_buf (rest.drop ((canonInt false 10 arg.toInt).length + 1)) 0
      (by simp; omega)
    have hseg0 : seg = [] := List.eq_nil_of_length_eq_zero hseg
    subst hseg0
    simp only [List.nil_append, List.drop_drop] at hsplit
    unfold vt100Left
    simp only [wr, Option.bind_some, Option.map_some, List.drop_succ_cons, List.drop_zero, List.take_succ_cons,
      List.take_zero]
    rw [hi]
    simp only [Option.bind_some]
    rw [hsplit]
    have a1 : ∀ (t : List Byte) (r : List Byte) (v : Byte) (z : Byte),
        wr ([0x1B#8, 0x5B#8] ++ (t ++ z :: r)) (2 + t.length) v = some ([0x1B#8, 0x5B#8] ++ (t ++ v :: r)) := by
      intro t r v z
      have := wr_mid ([0x1B#8, 0x5B#8] ++ t) z r (2 + t.length) v (by simp; omega)
      simpa using this
    rw [a1]
    simp only [Option.bind_some]
    have a2 : ∀ (t : List Byte) (r : List Byte) (v d : Byte) (z : Byte),
        wr ([0x1B#8, 0x5B#8] ++ (t ++ d :: z :: r)) (2 + t.length + 1) v = some ([0x1B#8, 0x5B#8] ++ (t ++ d :: v :: r)) := by
      intro t r v d z
      have := wr_mid ([0x1B#8, 0x5B#8] ++ t ++ [d]) z r (2 + t.length + 1) v (by simp; omega)
      simpa using this
    rw [a2]
    simp only [Option.bind_some, List.cons_append, List.nil_append, Option.some.injEq, Prod.mk.injEq]
    refine ⟨?_, by omega⟩
    congr 5
    simp

/-! ### atol on the decimal text of a long -/

theorem foldl10_ge : ∀ (ds : List Nat) (acc : Nat), acc ≤ ds.foldl (fun a d => a * 10 + d) acc := by
  intro ds; induction ds with
  | nil => intro acc; simp
  | cons d ds ih => intro acc; have := ih (acc * 10 + d); simp only [List.foldl_cons]; omega

theorem dec_char_facts : ∀ d, d < 10 →
    isdigitC (digitChar false d) = true ∧ ((digitChar false d).toNat : Int) - 48 = d
    ∧ isspaceC (digitChar false d) = false ∧ (digitChar false d == 0x2D#8) = false
    ∧ (digitChar false d == 0x2B#8) = false := by decide

theorem inLong_neg (k : Nat) (h : k ≤ 2 ^ 63) : inLong (-(k : Int)) = true := by
  simp only [inLong, Bool.and_eq_true, decide_eq_true_eq]
  have : (2 : Int) ^ 63 = ((2 ^ 63 : Nat) : Int) := by norm_cast
  omega

theorem atolDigits_spec : ∀ (ds : List Nat) (acc : Nat) (t : Byte) (rest : List Byte),
    (∀ d ∈ ds, d < 10) → isdigitC t = false → ds.foldl (fun a d => a * 10 + d) acc ≤ 2 ^ 63 →
    atolDigits (ds.map (digitChar false) ++ t :: rest) (-(acc : Int))
      = some (-((ds.foldl (fun a d => a * 10 + d) acc : Nat) : Int)) := by
  intro ds
  induction ds with
  | nil => intro acc t rest _ ht _; simp [atolDigits, ht]
  | cons d ds ih =>
    intro acc t rest hlt ht hbound
    have hd := dec_char_facts d (hlt d (by simp))
    have hge := foldl10_ge ds (acc * 10 + d)
    simp only [List.foldl_cons] at hbound
    have e : 10 * (-(acc : Int)) - (((digitChar false d).toNat : Int) - 48) = -((acc * 10 + d : Nat) : Int) := by
      rw [hd.2.1]; push_cast; omega
    have e0 : 10 * (-(acc : Int)) = -((acc * 10 : Nat) : Int) := by push_cast; omega
    simp only [List.map_cons, List.cons_append, atolDigits, hd.1, if_true, List.foldl_cons]
    rw [e, e0, inLong_neg _ (by omega), inLong_neg _ (by omega)]
    simp only [Bool.and_self, if_true]
    exact ih (acc * 10 + d) t rest (fun x hx => hlt x (by simp [hx])) ht hbound

theorem isdigitC_nul : isdigitC 0#8 = false := by decide

theorem atol_spec (z : Int) (hlo : -(2 ^ 63) ≤ z) (hhi : z < 2 ^ 63) (tail : List Byte) :
    atol (canonInt false 10 z ++ 0#8 :: tail) = some (BitVec.ofInt 64 z) := by
  have hp : (2 : Int) ^ 63 = ((2 ^ 63 : Nat) : Int) := by norm_cast
  have hd10 : ∀ d ∈ digits 10 z.natAbs, d < 10 := digits_lt (by omega) _
  have hval : (digits 10 z.natAbs).foldl (fun a d => a * 10 + d) 0 = z.natAbs := ofDigits_digits (by omega) _
  have hdig := atolDigits_spec (digits 10 z.natAbs) 0 0#8 tail hd10 isdigitC_nul (by rw [hval]; omega)
  rw [hval] at hdig
  simp only [Int.natCast_zero, Int.neg_zero] at hdig
  by_cases hneg : z < 0
  · have hsp : isspaceC 0x2D#8 = false := by decide
    have h1 : (0x2D#8 == 0x2D#8) = true := by decide
    simp only [canonInt, hneg, if_true, List.cons_append, List.nil_append, canonNat, atol, skipSpace, hsp,
      Bool.false_eq_true, if_false, h1, Bool.true_or]
    rw [hdig]
    simp only [Option.bind_some]
    have : -(z.natAbs : Int) = z := by omega
    rw [this]
  · obtain ⟨d, tl, hd, hh⟩ : ∃ d tl, d < 10 ∧ digits 10 z.natAbs = d :: tl := by
      cases h : digits 10 z.natAbs with
      | nil => simp [digits] at h; exact absurd h (lsd_ne_nil _ _)
      | cons d tl => exact ⟨d, tl, hd10 d (by simp [h]), rfl⟩
    have hf := dec_char_facts d hd
    rw [hh] at hdig
    simp only [List.map_cons, List.cons_append] at hdig
    have htxt : canonInt false 10 z ++ 0#8 :: tail
        = digitChar false d :: (List.map (digitChar false) tl ++ 0#8 :: tail) := by
      simp [canonInt, hneg, canonNat, hh]
    have hss : skipSpace (digitChar false d :: (List.map (digitChar false) tl ++ 0#8 :: tail))
        = digitChar false d :: (List.map (digitChar false) tl ++ 0#8 :: tail) := by
      rw [skipSpace, hf.2.2.1]; simp
    rw [htxt]
    unfold atol
    rw [hss]
    simp only [hf.2.2.2.1, hf.2.2.2.2, Bool.or_self, Bool.false_eq_true, if_false]
    rw [hdig]
    simp only [Option.bind_some, Int.neg_neg]
    have hin : inLong (z.natAbs : Int) = true := by
      simp only [inLong, Bool.and_eq_true, decide_eq_true_eq]; omega
    rw [hin]
    simp only [if_true]
    have : (z.natAbs : Int) = z := by omega
    rw [this]

theorem setWidth_ofInt64_32 (z : Int) : (BitVec.ofInt 64 z).setWidth 32 = BitVec.ofInt 32 z := by
  apply BitVec.eq_of_toNat_eq
  simp [BitVec.toNat_ofInt]
  omega

theorem digitChar_dec : ∀ d, d < 10 → digitChar true d = digitChar false d := by decide

/-- in base 10 (no letters) the upper- and lower-case texts coincide -/
theorem canonNat_dec (n : Nat) : canonNat true 10 n = canonNat false 10 n := by
  unfold canonNat
  exact List.map_congr_left fun d hd => digitChar_dec d (digits_lt (b := 10) (by omega) n d hd)

/-! ### historical: the routines as they were BEFORE the `fix:` commits (for the witness theorems) -/

/-- hexascii.h before `fix: hex2half accepts lower-case hex digits` -/
def hex2halfOrig (c : Byte) : Byte := if c.toInt ≤ 57 then c - 48#8 else c - 65#8 + 10#8

def isxdigitC (c : Byte) : Bool :=
  (48 ≤ c.toNat && c.toNat ≤ 57) || (97 ≤ c.toNat && c.toNat ≤ 102) || (65 ≤ c.toNat && c.toNat ≤ 70)

/-- igris_atou32 before the repairs: `for (c = *buf; (c = *buf) && igris_isxdigit(c); buf++)
    res = res * base + hex2half(c);  *end = buf - 1;` — the end offset is an `Int` because it can be -1 -/
def atou32OrigLoop (base : Nat) : List Byte → Nat → Nat → Option (Nat × Int)
  | [], _, _ => none
  | c :: cs, res, pos =>
    if c ≠ 0#8 ∧ isxdigitC c = true then
      atou32OrigLoop base cs ((res * base + (hex2halfOrig c).toNat) % 2 ^ 32) (pos + 1)
    else some (res, (pos : Int) - 1)

/-- compat libc atol before the repair of fix-C11: `total = 10 * total + (c - '0')`, then
    `sign == '-' ? -total : total`; signed overflow = `none` -/
def atolDigitsOrig : List Byte → Int → Option Int
  | [], _ => none
  | c :: cs, total =>
    if isdigitC c then
      if inLong (10 * total) && inLong (10 * total + ((c.toNat : Int) - 48)) then
        atolDigitsOrig cs (10 * total + ((c.toNat : Int) - 48))
      else none
    else some total

def atolOrig (m : List Byte) : Option (BitVec 64) :=
  match skipSpace m with
  | [] => none
  | sign :: rest =>
    let digits := if sign == 0x2D#8 || sign == 0x2B#8 then rest else sign :: rest
    (atolDigitsOrig digits 0).bind fun total =>
      if sign == 0x2D#8 then (if inLong (-total) then some (BitVec.ofInt 64 (-total)) else none)
      else some (BitVec.ofInt 64 total)

theorem inLong_pos (k : Nat) (h : k < 2 ^ 63) : inLong (k : Int) = true := by
  simp only [inLong, Bool.and_eq_true, decide_eq_true_eq]
  have : (2 : Int) ^ 63 = ((2 ^ 63 : Nat) : Int) := by norm_cast
  omega

theorem atolDigitsOrig_spec : ∀ (ds : List Nat) (acc : Nat) (t : Byte) (rest : List Byte),
    (∀ d ∈ ds, d < 10) → isdigitC t = false → ds.foldl (fun a d => a * 10 + d) acc < 2 ^ 63 →
    atolDigitsOrig (ds.map (digitChar false) ++ t :: rest) (acc : Int)
      = some ((ds.foldl (fun a d => a * 10 + d) acc : Nat) : Int) := by
  intro ds
  induction ds with
  | nil => intro acc t rest _ ht _; simp [atolDigitsOrig, ht]
  | cons d ds ih =>
    intro acc t rest hlt ht hbound
    have hd := dec_char_facts d (hlt d (by simp))
    have hge := foldl10_ge ds (acc * 10 + d)
    simp only [List.foldl_cons] at hbound
    have e : 10 * (acc : Int) + (((digitChar false d).toNat : Int) - 48) = ((acc * 10 + d : Nat) : Int) := by
      rw [hd.2.1]; push_cast; omega
    have e0 : 10 * (acc : Int) = ((acc * 10 : Nat) : Int) := by push_cast; omega
    simp only [List.map_cons, List.cons_append, atolDigitsOrig, hd.1, if_true, List.foldl_cons]
    rw [e, e0, inLong_pos _ (by omega), inLong_pos _ (by omega)]
    simp only [Bool.and_self, if_true]
    exact ih (acc * 10 + d) t rest (fun x hx => hlt x (by simp [hx])) ht hbound

theorem atolOrig_spec (z : Int) (hlo : -(2 ^ 63) < z) (hhi : z < 2 ^ 63) (tail : List Byte) :
    atolOrig (canonInt false 10 z ++ 0#8 :: tail) = some (BitVec.ofInt 64 z) := by
  have hp : (2 : Int) ^ 63 = ((2 ^ 63 : Nat) : Int) := by norm_cast
  have hd10 : ∀ d ∈ digits 10 z.natAbs, d < 10 := digits_lt (by omega) _
  have hval : (digits 10 z.natAbs).foldl (fun a d => a * 10 + d) 0 = z.natAbs := ofDigits_digits (by omega) _
  have hdig := atolDigitsOrig_spec (digits 10 z.natAbs) 0 0#8 tail hd10 isdigitC_nul (by rw [hval]; omega)
  rw [hval] at hdig
  simp only [Int.natCast_zero] at hdig
  by_cases hneg : z < 0
  · have hsp : isspaceC 0x2D#8 = false := by decide
    have h1 : (0x2D#8 == 0x2D#8) = true := by decide
    simp only [canonInt, hneg, if_true, List.cons_append, List.nil_append, canonNat, atolOrig, skipSpace, hsp,
      Bool.false_eq_true, if_false, h1, Bool.true_or]
    rw [hdig]
    simp only [Option.bind_some]
    rw [inLong_neg _ (by omega)]
    simp only [if_true]
    have : -(z.natAbs : Int) = z := by omega
    rw [this]
  · obtain ⟨d, tl, hd, hh⟩ : ∃ d tl, d < 10 ∧ digits 10 z.natAbs = d :: tl := by
      cases h : digits 10 z.natAbs with
      | nil => simp [digits] at h; exact absurd h (lsd_ne_nil _ _)
      | cons d tl => exact ⟨d, tl, hd10 d (by simp [h]), rfl⟩
    have hf := dec_char_facts d hd
    rw [hh] at hdig
    simp only [List.map_cons, List.cons_append] at hdig
    have htxt : canonInt false 10 z ++ 0#8 :: tail
        = digitChar false d :: (List.map (digitChar false) tl ++ 0#8 :: tail) := by
      simp [canonInt, hneg, canonNat, hh]
    have hss : skipSpace (digitChar false d :: (List.map (digitChar false) tl ++ 0#8 :: tail))
        = digitChar false d :: (List.map (digitChar false) tl ++ 0#8 :: tail) := by
      rw [skipSpace, hf.2.2.1]; simp
    rw [htxt]
    unfold atolOrig
    rw [hss]
    simp only [hf.2.2.2.1, hf.2.2.2.2, Bool.or_self, Bool.false_eq_true, if_false]
    rw [hdig]
    simp only [Option.bind_some]
    have : (z.natAbs : Int) = z := by omega
    rw [this]

/-! ### a buffer shorter than text + NUL makes the routine fault: all `L + 1` bytes are needed -/

theorem wr_end (a : List Byte) (i : Nat) (v : Byte) (hi : a.length ≤ i) : wr a i v = none := by
  induction a generalizing i with
  | nil => simp [wr]
  | cons h t ih =>
    cases i with
    | zero => simp at hi
    | succ i => simp [wr, ih i (by simpa using hi)]

theorem divLoop_short (letterA b : Nat) (hb : 2 ≤ b) :
    ∀ (fuel ud : Nat) (a seg : List Byte), seg.length < (lsd b ud).length →
      divLoop letterA b fuel ud (a ++ seg) a.length = none := by
  intro fuel
  induction fuel with
  | zero => intro _ _ _ _; rfl
  | succ f ih =>
    intro ud a seg hlen
    match seg with
    | [] => simp [divLoop, wr_end]
    | s :: seg' =>
      by_cases hsmall : ud < b
      · rw [lsd_small hsmall] at hlen; simp at hlen
      · have hbig : b ≤ ud := by omega
        rw [lsd_big hb hbig] at hlen
        have hd : ud / b ≠ 0 := by
          have : 0 < ud / b := Nat.div_pos hbig (by omega)
          omega
        simp only [divLoop]
        rw [wr_mid a s seg' a.length _ rfl]
        simp only [Option.bind_some, hd, ne_eq, not_false_eq_true, if_true]
        have := ih (ud / b) (a ++ [toaChar letterA (ud % b)]) seg' (by simpa using hlen)
        simpa using this

theorem toaTail_short (letterA b ud : Nat) (hb : 2 ≤ b) (hud : ud < 2 ^ 64)
    (a seg : List Byte) (hlen : seg.length ≤ (digits b ud).length) :
    toaTail letterA b ud (a ++ seg) a.length = none := by
  have hlen' : seg.length ≤ (lsd b ud).length := by simpa [digits] using hlen
  unfold toaTail
  by_cases hlt : seg.length < (lsd b ud).length
  · rw [divLoop_short letterA b hb 64 ud a seg hlt]; rfl
  · have heq : seg.length = (lsd b ud).length := by omega
    have := divLoop_spec letterA b hb 64 ud a seg [] hud (by omega) heq
    simp only [List.append_nil] at this
    rw [this]
    simp only [Option.bind_some]
    rw [wr_end _ _ _ (by simp [heq])]
    rfl

theorem i64toa_short (num : BitVec 64) (base : BitVec 8) (hb : 2 ≤ base.toNat) (hb36 : base.toNat ≤ 36)
    (m : List Byte) (hm : m.length ≤ (canonInt false base.toNat num.toInt).length) :
    i64toa num m base = none := by
  have hbase : ¬ (base.toNat < 2 ∨ base.toNat > 36) := by omega
  unfold i64toa
  match m with
  | [] => simp [wr]
  | x :: tl =>
    simp only [wr, Option.bind_some, hbase, if_false]
    by_cases hneg : num.toInt < 0
    · have hs : num.slt 0#64 = true := (slt_zero_iff64 num).mpr hneg
      rw [canonInt_length_neg _ _ _ hneg] at hm
      simp only [hs, if_true]
      have := toaTail_short 97 base.toNat (0#64 - num).toNat hb
        (by rw [neg_mag64 num hneg]; exact natAbs_lt64 num) [0x2D#8] tl
        (by rw [neg_mag64 num hneg]; simp at hm; omega)
      simpa using this
    · have hs : ¬ (num.slt 0#64 = true) := fun h => hneg ((slt_zero_iff64 num).mp h)
      rw [canonInt_length_nonneg _ _ _ hneg] at hm
      simp only [hs]
      have := toaTail_short 97 base.toNat num.toNat hb num.isLt [] (0#8 :: tl)
        (by rw [nonneg_mag64 num hneg]; simpa using hm)
      simpa using this

theorem u64toa_short (num : BitVec 64) (base : BitVec 8) (hb : 2 ≤ base.toNat) (hb36 : base.toNat ≤ 36)
    (m : List Byte) (hm : m.length ≤ (canonNat true base.toNat num.toNat).length) :
    u64toa num m base = none := by
  have hbase : ¬ (base.toNat < 2 ∨ base.toNat > 36) := by omega
  unfold u64toa
  match m with
  | [] => simp [wr]
  | x :: tl =>
    simp only [wr, Option.bind_some, hbase, if_false]
    rw [canonNat_length] at hm
    have := toaTail_short 65 base.toNat num.toNat hb num.isLt [] (0#8 :: tl) (by simpa using hm)
    simpa using this

end Igris.C07
