/-
  C07 — reference specification: positional notation.

  `digits b n` is the digit list of `n` in base `b`, most significant first;
  Props.lean proves that it is THE canonical representation (its value is `n`,
  every digit is below the base, no leading zero, and any digit list with these
  properties is equal to it).  The canonical text is an optional `'-'`
  followed by the digits written with the alphabet `0-9a-z` / `0-9A-Z`.
  Nothing here is shared with the model (Model.lean): the model divides and
  reverses inside a byte buffer, the alphabet there is character arithmetic.
-/
import IgrisModel.Common.Proto
namespace Igris.C07
open Igris.Proto

/-- value of a digit list, most significant digit first (Horner) -/
def ofDigits (b : Nat) (ds : List Nat) : Nat := ds.foldl (fun acc d => acc * b + d) 0

/-- digits of `n` in base `b`, least significant first; one digit for `n < b` -/
def lsd (b n : Nat) : List Nat :=
  if _h : b < 2 ∨ n < b then [n] else n % b :: lsd b (n / b)
termination_by n
decreasing_by
  exact Nat.div_lt_self (by omega) (by omega)

/-- digits of `n` in base `b`, most significant first (`[0]` for 0) -/
def digits (b n : Nat) : List Nat := (lsd b n).reverse

def alphabetLower : List Char :=
  ['0', '1', '2', '3', '4', '5', '6', '7', '8', '9', 'a', 'b', 'c', 'd', 'e', 'f', 'g', 'h', 'i', 'j',
   'k', 'l', 'm', 'n', 'o', 'p', 'q', 'r', 's', 't', 'u', 'v', 'w', 'x', 'y', 'z']

def alphabetUpper : List Char :=
  ['0', '1', '2', '3', '4', '5', '6', '7', '8', '9', 'A', 'B', 'C', 'D', 'E', 'F', 'G', 'H', 'I', 'J',
   'K', 'L', 'M', 'N', 'O', 'P', 'Q', 'R', 'S', 'T', 'U', 'V', 'W', 'X', 'Y', 'Z']

/-- the character of digit `d` (`d < 36`) -/
def digitChar (upper : Bool) (d : Nat) : Byte :=
  BitVec.ofNat 8 ((if upper then alphabetUpper else alphabetLower).getD d '?').toNat

/-- canonical text of a natural number: its digits, no sign -/
def canonNat (upper : Bool) (b n : Nat) : List Byte := (digits b n).map (digitChar upper)

/-- canonical text of an integer: `'-'` for negative values, then the digits of the magnitude -/
def canonInt (upper : Bool) (b : Nat) (v : Int) : List Byte :=
  (if v < 0 then [0x2D#8] else []) ++ canonNat upper b v.natAbs

/-- fixed-width digits (most significant first): position `i` holds `n / b^i % b` -/
def fixedDigits (b : Nat) : Nat → Nat → List Nat
  | 0, _ => []
  | w + 1, n => fixedDigits b w (n / b) ++ [n % b]

end Igris.C07
