/-
  C07 — reference specification: positional notation.

  `digits b n` is the digit list of `n` in base `b`, most significant first;
  Props.lean proves that it is THE canonical representation (its value is `n`,
  every digit is below the base, no leading zero, and any digit list with these
  properties is equal to it).  The canonical text is an optional `'-'`
  followed by the digits written with the alphabet `0-9a-z` / `0-9A-Z`.
  Nothing here is shared with the model (Model.lean): the model divides and
  reverses inside a byte buffer, the alphabet there is character arithmetic.
-/
import IgrisModel.Common.Proto
namespace Igris.C07
open Igris.Proto

/-- value of a digit list, most significant digit first (Horner) -/
def ofDigits (b : Nat) (ds : List Nat) : Nat := ds.foldl (fun acc d => acc * b + d) 0

/-- digits of `n` in base `b`, least significant first; one digit for `n < b` -/
def lsd (b n : Nat) : List Nat :=
  if _h : b < 2 ∨ n < b then [n] else n % b :: lsd b (n / b)
termination_by n
decreasing_by
  exact Nat.div_lt_self (by omega) (by omega)

/-- digits of `n` in base `b`, most significant first (`[0]` for 0) -/
def digits (b n : Nat) : List Nat := (lsd b n).reverse

def alphabetLower : List Char :=
  ['0', '1', '2', '3', '4', '5', '6', '7', '8', '9', 'a', 'b', 'c', 'd', 'e', 'f', 'g', 'h', 'i', 'j',
   'k', 'l', 'm', 'n', 'o', 'p', 'q', 'r', 's', 't', 'u', 'v', 'w', 'x', 'y', 'z']

def alphabetUpper : List Char :=
  ['0', '1', '2', '3', '4', '5', '6', '7', '8', '9', 'A', 'B', 'C', 'D', 'E', 'F', 'G', 'H', 'I', 'J',
   'K', 'L', 'M', 'N', 'O', 'P', 'Q', 'R', 'S', 'T', 'U', 'V', 'W', 'X', 'Y', 'Z']

/-- the character of digit `d` (`d < 36`) -/
def digitChar (upper : Bool) (d : Nat) : Byte :=
  BitVec.ofNat 8 ((if upper then alphabetUpper else alphabetLower).getD d '?').toNat

/-- canonical text of a natural number: its digits, no sign -/
def canonNat (upper : Bool) (b n : Nat) : List Byte := (digits b n).map (digitChar upper)

/-- canonical text of an integer: `'-'` for negative values, then the digits of the magnitude -/
def canonInt (upper : Bool) (b : Nat) (v : Int) : List Byte :=
  (if v < 0 then [0x2D#8] else []) ++ canonNat upper b v.natAbs

/-- fixed-width digits (most significant first): position `i` holds `n / b^i % b` -/
def fixedDigits (b : Nat) : Nat → Nat → List Nat
  | 0, _ => []
  | w + 1, n => fixedDigits b w (n / b) ++ [n % b]


/-! ### round 3: the grammar of the parsers, written with list operations only -/

/-- the digit a character denotes (either case): its index in one of the two alphabets -/
def charDigit (c : Byte) : Option Nat :=
  match alphabetLower.findIdx? (fun ch => BitVec.ofNat 8 ch.toNat == c) with
  | some d => some d
  | none => alphabetUpper.findIdx? (fun ch => BitVec.ofNat 8 ch.toNat == c)

/-- `c` is a digit of base `b` -/
def isDigitOf (b : Nat) (c : Byte) : Bool :=
  match charDigit c with
  | some d => decide (d < b)
  | none => false

/-- the longest prefix of `s` made of digits of base `b` -/
def numberPrefix (b : Nat) (s : List Byte) : List Byte := s.takeWhile (isDigitOf b)

/-- its positional value -/
def prefixValue (b : Nat) (s : List Byte) : Nat := ofDigits b ((numberPrefix b s).filterMap charDigit)

/-- C `isspace` / `isdigit` in the "C" locale, as sets -/
def spaceChars : List Byte := [0x20#8, 0x09#8, 0x0A#8, 0x0B#8, 0x0C#8, 0x0D#8]
def decimalChars : List Byte := [0x30#8, 0x31#8, 0x32#8, 0x33#8, 0x34#8, 0x35#8, 0x36#8, 0x37#8, 0x38#8, 0x39#8]


/-! ### round 3: the hex dump, position by position

  `bytes` are the `len` bytes to dump, `addr` the numeric value of the pointer.  Position `i`
  (0 ≤ i < 8·⌈len/8⌉) contributes: at the start of a row the address column `0x<16 hex digits>:`;
  the cell `HH ` (or three blanks past the data); at the end of a row the ASCII column of the
  eight positions of that row (the byte itself when it is printable, `.` otherwise, a blank
  past the data) and CR LF. -/
def dumpCellSpec (addr : Nat) (bytes : List Byte) (i : Nat) : List Byte :=
  (if i % 8 = 0 then
      [0x30#8, 0x78#8] ++ (fixedDigits 16 16 ((addr + i) % 2 ^ 64)).map (digitChar true) ++ [0x3A#8]
    else [])
  ++ (match bytes[i]? with
      | some b => (fixedDigits 16 2 b.toNat).map (digitChar true) ++ [0x20#8]
      | none => [0x20#8, 0x20#8, 0x20#8])
  ++ (if i % 8 = 7 then
        (List.range' (i - 7) 8).map (fun j =>
          match bytes[j]? with
          | some b => if 32 ≤ b.toNat ∧ b.toNat ≤ 126 then b else 0x2E#8
          | none => 0x20#8) ++ [0x0D#8, 0x0A#8]
      else [])

def dumpSpec (addr : Nat) (bytes : List Byte) : List Byte :=
  (List.range' 0 (8 * ((bytes.length + 7) / 8))).flatMap (dumpCellSpec addr bytes)

end Igris.C07
