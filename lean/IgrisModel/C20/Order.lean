/-
  C20 extension — (1) the ORDER of the wait queue as an invariant over every
  schedule (with spurious returns): priority waiters in front, newest first
  (`move_front`), ordinary waiters behind them in arrival order (`move_back`);
  (2) the semaphore of safe_queue is a binary mutex: `sem ≤ 1`, at most one
  thread between `sem.wait()` and `sem.post()`.
-/
import IgrisModel.C20.SpurLemmas
namespace Igris.C20

/-! ## frame: which steps touch the wait queue and its ghost clock -/

def SameQ (s s' : State) : Prop :=
  s'.waitq = s.waitq ∧ s'.stamp = s.stamp ∧ s'.prio = s.prio ∧ s'.clock = s.clock

theorem SameQ.rfl' {s : State} : SameQ s s := ⟨rfl, rfl, rfl, rfl⟩
theorem SameQ.trans {a b c : State} (h1 : SameQ a b) (h2 : SameQ b c) : SameQ a c := by
  obtain ⟨a1, a2, a3, a4⟩ := h1
  obtain ⟨b1, b2, b3, b4⟩ := h2
  exact ⟨b1.trans a1, b2.trans a2, b3.trans a3, b4.trans a4⟩

theorem sameQ_setPc (s : State) (t p) : SameQ s (setPc s t p) := ⟨rfl, rfl, rfl, rfl⟩
theorem sameQ_setEv (s : State) (w e) : SameQ s (setEv s w e) := ⟨rfl, rfl, rfl, rfl⟩
theorem sameQ_touch (s : State) (w) : SameQ s (touch s w) := by
  unfold touch; split
  · exact SameQ.rfl'
  · exact ⟨rfl, rfl, rfl, rfl⟩
theorem sameQ_mtxUnlock (s : State) : SameQ s (mtxUnlock s) := ⟨rfl, rfl, rfl, rfl⟩
theorem sameQ_sysUnlock (s : State) (t) : SameQ s (sysUnlock s t) := by
  unfold sysUnlock; split <;> exact ⟨rfl, rfl, rfl, rfl⟩
theorem sameQ_sysLock {s s' : State} {t} (hs : sysLock s t = some s') : SameQ s s' := by
  unfold sysLock at hs; split at hs
  · cases hs; exact ⟨rfl, rfl, rfl, rfl⟩
  · cases hs
theorem sameQ_saveLoop (t : Tid) : ∀ (n : Nat) (s : State), SameQ s (saveLoop t n s) := by
  intro n
  induction n with
  | zero => intro s; exact SameQ.rfl'
  | succ n ih =>
    intro s
    simp only [saveLoop]
    exact SameQ.trans ⟨rfl, rfl, rfl, rfl⟩ (ih _)
theorem sameQ_sysSave (s : State) (t) : SameQ s (sysSave false s t) := by
  unfold sysSave; split
  · simp only [Bool.false_eq_true, if_false]
    exact SameQ.trans ⟨rfl, rfl, rfl, rfl⟩ (sameQ_saveLoop t _ _)
  · exact ⟨rfl, rfl, rfl, rfl⟩
theorem sameQ_sysRestore {s s' : State} {t} (hs : sysRestore s t = some s') : SameQ s s' := by
  unfold sysRestore at hs; split at hs
  · split at hs <;> (cases hs; exact ⟨rfl, rfl, rfl, rfl⟩)
  · cases hs

theorem stepIdle_sameQ {s s' : State} {t : Tid} {op rest}
    (hs : stepIdle false s t op rest = some s') : SameQ s s' := by
  have h0 : SameQ s { s with prog := upd s.prog t rest } := ⟨rfl, rfl, rfl, rfl⟩
  unfold stepIdle at hs
  dsimp only at hs
  split at hs
  · exact h0.trans (sameQ_sysLock hs)
  · cases hs; exact h0.trans (sameQ_sysUnlock _ _)
  · cases hs; exact h0.trans (sameQ_sysSave _ _)
  · exact h0.trans (sameQ_sysRestore hs)
  all_goals first
    | (simp only [Option.map_eq_some_iff] at hs
       obtain ⟨s1, h1, rfl⟩ := hs
       exact (h0.trans (sameQ_sysLock h1)).trans (sameQ_setPc _ _ _))
    | (split at hs
       · first
         | (cases hs; exact ⟨rfl, rfl, rfl, rfl⟩)
         | (split at hs <;> (cases hs; exact ⟨rfl, rfl, rfl, rfl⟩))
       · cases hs)

/-- only the enqueue of wait_current_schedee and the unlink of unwait_one /
    unwait_all change the wait queue (and its ghost clock, stamps, priorities) -/
theorem step_sameQ {s s' : State} {t : Tid} (hs : step false s t = some s')
    (h1 : ∀ p, s.pc t ≠ .wEnq p) (h2 : ∀ f a, s.pc t ≠ .uUnlink f a) : SameQ s s' := by
  unfold step at hs
  split at hs
  · split at hs
    · cases hs
    · exact stepIdle_sameQ hs
  all_goals first
    | (rename_i p hpc; exact absurd hpc (h1 p))
    | (rename_i f a hpc; exact absurd hpc (h2 f a))
    | skip
  all_goals
    (try dsimp only at hs)
    (try simp only [Bool.false_eq_true, if_false] at hs)
    (repeat' split at hs)
  all_goals first
    | contradiction
    | (cases hs; done)
    | (cases hs
       repeat (first
         | exact SameQ.rfl'
         | exact sameQ_sysUnlock _ _
         | exact ⟨rfl, rfl, rfl, rfl⟩
         | (refine SameQ.trans ?_ (sameQ_setPc _ _ _))
         | (refine SameQ.trans ?_ (sameQ_setEv _ _ _))
         | (refine SameQ.trans ?_ (sameQ_touch _ _))
         | split))

/-! ## the order invariant -/

/-- `a` is served before `b`: a priority waiter before an ordinary one; among
    priority waiters the one that arrived LAST (`move_front`); among ordinary
    waiters the one that arrived FIRST (`move_back`) -/
def Before (s : State) (a b : Tid) : Prop :=
  (s.prio a = true ∧ s.prio b = false) ∨
  (s.prio a = true ∧ s.prio b = true ∧ s.stamp b < s.stamp a) ∨
  (s.prio a = false ∧ s.prio b = false ∧ s.stamp a < s.stamp b)

structure OQ (s : State) : Prop where
  sorted : s.waitq.Pairwise (Before s)
  fresh : ∀ w, w ∈ s.waitq → s.stamp w < s.clock

theorem OQ_init (prog q0) : OQ (init prog q0) := by
  constructor <;> simp [init]

theorem OQ_congr {s s' : State} (h : OQ s) (f : SameQ s s') : OQ s' := by
  obtain ⟨f1, f2, f3, f4⟩ := f
  constructor
  · rw [f1]
    refine h.sorted.imp ?_
    intro a b hab
    unfold Before at *
    rw [f2, f3]; exact hab
  · rw [f1, f2, f4]; exact h.fresh

theorem before_upd {s : State} {t : Tid} {c : Nat} {p : Bool} {a b : Tid} (ha : a ≠ t) (hb : b ≠ t)
    (h : Before s a b) :
    Before { s with clock := c + 1, stamp := upd s.stamp t c, prio := upd s.prio t p } a b := by
  unfold Before at *
  simp only [upd, ha, hb, if_false]
  exact h

theorem pairwise_before_upd {s : State} {t : Tid} {c : Nat} {p : Bool} :
    ∀ (l : List Tid), t ∉ l → l.Pairwise (Before s) →
      l.Pairwise (Before { s with clock := c + 1, stamp := upd s.stamp t c, prio := upd s.prio t p }) := by
  intro l hn hp
  induction l with
  | nil => exact List.Pairwise.nil
  | cons x xs ih =>
    rw [List.pairwise_cons] at hp ⊢
    have hx : x ≠ t := fun e => hn (by rw [e]; exact List.mem_cons_self)
    have hxs : t ∉ xs := fun e => hn (List.mem_cons_of_mem _ e)
    refine ⟨?_, ih hxs hp.2⟩
    intro b hb
    exact before_upd hx (fun e => hxs (e ▸ hb)) (hp.1 b hb)

/-- the enqueue of wait_current_schedee keeps the order: a priority waiter goes
    in front of everybody, an ordinary waiter behind everybody -/
theorem enq_OQ {s : State} {t : Tid} {p : Bool} (h : OQ s) (hn : t ∉ s.waitq) :
    OQ (setPc { s with
        ev := upd s.ev t { flag := false, holder := none, alive := true },
        waitq := if p then t :: s.waitq else s.waitq ++ [t],
        clock := s.clock + 1, stamp := upd s.stamp t s.clock, prio := upd s.prio t p,
        ulk := upd s.ulk t false } t .wUnlock) := by
  have hs := pairwise_before_upd (s := s) (t := t) (c := s.clock) (p := p) s.waitq hn h.sorted
  constructor
  · show List.Pairwise _ (if p then t :: s.waitq else s.waitq ++ [t])
    cases p with
    | true =>
      simp only [if_true]
      rw [List.pairwise_cons]
      refine ⟨?_, ?_⟩
      · intro b hb
        have hbt : b ≠ t := fun e => hn (e ▸ hb)
        have hf := h.fresh b hb
        unfold Before
        simp only [setPc, upd, hbt, if_true, if_false]
        cases hpb : s.prio b with
        | false => exact Or.inl ⟨by simp, by simp⟩
        | true => exact Or.inr (Or.inl ⟨by simp, by simp, hf⟩)
      · exact hs
    | false =>
      simp only [Bool.false_eq_true, if_false]
      rw [List.pairwise_append]
      refine ⟨hs, List.pairwise_singleton _ _, ?_⟩
      intro a ha b hb
      rw [List.mem_singleton] at hb
      subst hb
      have hat : a ≠ b := fun e => hn (e ▸ ha)
      have hf := h.fresh a ha
      unfold Before
      simp only [setPc, upd, hat, if_true, if_false]
      cases hpa : s.prio a with
      | true => exact Or.inl ⟨by simp, by simp⟩
      | false => exact Or.inr (Or.inr ⟨by simp, by simp, hf⟩)
  · intro w hw
    have hw' : w ∈ (if p then t :: s.waitq else s.waitq ++ [t]) := hw
    show upd s.stamp t s.clock w < s.clock + 1
    by_cases e : w = t
    · simp [upd, e]
    · have : w ∈ s.waitq := by
        cases p <;> simp at hw' <;> rcases hw' with hw' | hw' <;> first | exact hw' | exact absurd hw' e
      have := h.fresh w this
      simp [upd, e]; omega

theorem step_OQ {s s' : State} {t : Tid} (h : OQ s) (hc : CI s) (hs : step false s t = some s') : OQ s' := by
  by_cases h1 : ∃ p, s.pc t = .wEnq p
  · obtain ⟨p, hpc⟩ := h1
    have hn : t ∉ s.waitq := by
      intro hm
      have := (hc.inq t hm).1
      rw [hpc] at this
      simp [Waiting] at this
    simp only [step, hpc] at hs
    cases hs
    exact enq_OQ h hn
  · by_cases h2 : ∃ f a, s.pc t = .uUnlink f a
    · obtain ⟨f, a, hpc⟩ := h2
      simp only [step, hpc] at hs
      split at hs
      · cases hs; exact OQ_congr h ⟨rfl, rfl, rfl, rfl⟩
      · rename_i w r hq
        cases hs
        have hs0 := h.sorted
        have hf0 := h.fresh
        rw [hq] at hs0 hf0
        constructor
        · exact (List.pairwise_cons.mp hs0).2
        · intro x hx; exact hf0 x (List.mem_cons_of_mem _ hx)
    · exact OQ_congr h (step_sameQ hs (fun p e => h1 ⟨p, e⟩) (fun f a e => h2 ⟨f, a, e⟩))

theorem act_OQ {s s' : State} {a} (h : OQ s) (hc : CI s) (hs : act false s a = some s') : OQ s' := by
  cases a with
  | run t => exact step_OQ h hc hs
  | spur t =>
    simp only [act, spurious] at hs
    split at hs
    · cases hs; exact OQ_congr h (sameQ_setPc _ _ _)
    · cases hs

theorem reachS_OQ {prog q0 s} (h : ReachS prog q0 s) : OQ s := by
  induction h with
  | init => exact OQ_init _ _
  | act hr hs ih => exact act_OQ ih (reachS_CI hr) hs

/-! ## the semaphore of safe_queue is a binary mutex -/

/-- `sem.wait()` … `sem.post()` brackets: either the semaphore is free (1) and
    nobody is between the two, or it is taken (0) by exactly one thread -/
def SI (s : State) : Prop :=
  (s.sem = 1 ∧ ∀ t, s.pc t ≠ .qPost) ∨
  (s.sem = 0 ∧ ∃ t, s.pc t = .qPost ∧ ∀ u, s.pc u = .qPost → u = t)

def SameS (s s' : State) : Prop := s'.sem = s.sem ∧ ∀ u, s'.pc u = .qPost ↔ s.pc u = .qPost

theorem SI_congr {s s' : State} (h : SI s) (f : SameS s s') : SI s' := by
  obtain ⟨f1, f2⟩ := f
  unfold SI at *
  rcases h with ⟨a, b⟩ | ⟨a, t, b, c⟩
  · exact Or.inl ⟨f1.trans a, fun u e => b u ((f2 u).mp e)⟩
  · exact Or.inr ⟨f1.trans a, t, (f2 t).mpr b, fun u e => c u ((f2 u).mp e)⟩

theorem SameS.trans {a b c : State} (h1 : SameS a b) (h2 : SameS b c) : SameS a c :=
  ⟨h2.1.trans h1.1, fun u => (h2.2 u).trans (h1.2 u)⟩
theorem SameS.of_eq {s s' : State} (h1 : s'.sem = s.sem) (h2 : s'.pc = s.pc) : SameS s s' :=
  ⟨h1, fun u => by rw [h2]⟩

/-- a thread that is not in `qPost` moves to another counter that is not `qPost` -/
theorem sameS_setPc {s : State} {t p} (h1 : s.pc t ≠ .qPost) (h2 : p ≠ .qPost) : SameS s (setPc s t p) := by
  refine ⟨rfl, fun u => ?_⟩
  simp only [setPc, upd]
  split
  · rename_i e; subst e; exact ⟨fun e => absurd e h2, fun e => absurd e h1⟩
  · exact Iff.rfl

theorem sameS_setEv (s : State) (w e) : SameS s (setEv s w e) := SameS.of_eq rfl rfl
theorem sameS_touch (s : State) (w) : SameS s (touch s w) := by
  unfold touch; split
  · exact SameS.of_eq rfl rfl
  · exact SameS.of_eq rfl rfl
theorem sameS_sysUnlock (s : State) (t) : SameS s (sysUnlock s t) := by
  have f := sysUnlock_frame s t; exact SameS.of_eq f.2.2.2.1 f.2.2.2.2.1
theorem sameS_sysLock {s s' : State} {t} (hs : sysLock s t = some s') : SameS s s' := by
  have f := sysLock_frame hs; exact SameS.of_eq f.2.2.2.1 f.2.2.2.2.1
theorem sameS_sysRestore {s s' : State} {t} (hs : sysRestore s t = some s') : SameS s s' := by
  have f := sysRestore_frame hs; exact SameS.of_eq f.2.2.2.1 f.2.2.2.2.1
theorem sameS_sysSave {s : State} {t} (hm : MI s) : SameS s (sysSave false s t) := by
  have f := sysSave_frame s t hm; exact SameS.of_eq f.2.2.2.1 f.2.2.2.2.1

@[simp] theorem touch_sem (s : State) (w) : (touch s w).sem = s.sem := by unfold touch; split <;> rfl
@[simp] theorem touch_pc (s : State) (w) : (touch s w).pc = s.pc := by unfold touch; split <;> rfl
@[simp] theorem touch_ev (s : State) (w) : (touch s w).ev = s.ev := by unfold touch; split <;> rfl
@[simp] theorem sysUnlock_sem (s : State) (t) : (sysUnlock s t).sem = s.sem := (sysUnlock_frame s t).2.2.2.1
@[simp] theorem sysUnlock_pc (s : State) (t) : (sysUnlock s t).pc = s.pc := (sysUnlock_frame s t).2.2.2.2.1

theorem take_SI {s : State} {t} (h : SI s) (hpos : 0 < s.sem) {s1 : State}
    (h1 : s1.sem = s.sem - 1) (h2 : s1.pc = s.pc) : SI (setPc s1 t .qPost) := by
  unfold SI at *
  rcases h with ⟨a, b⟩ | ⟨a, _⟩
  · refine Or.inr ⟨by show s1.sem = 0; omega, t, by simp [setPc], ?_⟩
    intro u hu
    by_cases e : u = t
    · exact e
    · simp only [setPc, upd, e, if_false, h2] at hu
      exact absurd hu (b u)
  · omega

theorem stepIdle_SI {s s' : State} {t : Tid} {op rest} (h : SI s) (hm : MI s) (hpc : s.pc t = .idle)
    (hs : stepIdle false s t op rest = some s') : SI s' := by
  have h0 : SI { s with prog := upd s.prog t rest } := SI_congr h (SameS.of_eq rfl rfl)
  have hm0 : MI { s with prog := upd s.prog t rest } := MI_congr hm rfl rfl rfl
  have hq : s.pc t ≠ .qPost := by rw [hpc]; simp
  unfold stepIdle at hs
  dsimp only at hs
  split at hs
  · exact SI_congr h0 (sameS_sysLock hs)
  · cases hs; exact SI_congr h0 (sameS_sysUnlock _ _)
  · cases hs; exact SI_congr h0 (sameS_sysSave hm0)
  · exact SI_congr h0 (sameS_sysRestore hs)
  all_goals first
    | (simp only [Option.map_eq_some_iff] at hs
       obtain ⟨s1, h1, rfl⟩ := hs
       have f := sysLock_frame h1
       refine SI_congr (SI_congr h0 (sameS_sysLock h1)) (sameS_setPc ?_ ?_)
       · rw [f.2.2.2.2.1]; exact hq
       · (try split) <;> simp)
    | (split at hs
       · first
         | (cases hs; exact take_SI h (by assumption) rfl rfl)
         | (split at hs <;> (cases hs; exact take_SI h (by assumption) rfl rfl))
       · cases hs)

theorem step_SI {s s' : State} {t : Tid} (h : SI s) (hm : MI s) (hs : step false s t = some s') : SI s' := by
  by_cases hq : s.pc t = .qPost
  · simp only [step, hq] at hs
    cases hs
    unfold SI at *
    rcases h with ⟨_, b⟩ | ⟨a, k, b, c⟩
    · exact absurd hq (b t)
    · have hk : k = t := (c t hq).symm
      subst hk
      refine Or.inl ⟨by show s.sem + 1 = 1; omega, ?_⟩
      intro u hu
      by_cases e : u = k
      · subst e; simp [setPc] at hu
      · simp only [setPc, upd, e, if_false] at hu
        exact e (c u hu)
  · unfold step at hs
    split at hs
    · rename_i hpc
      split at hs
      · cases hs
      · exact stepIdle_SI h hm hpc hs
    all_goals
      (try dsimp only at hs)
      (try simp only [Bool.false_eq_true, if_false] at hs)
      (repeat' split at hs)
    all_goals first
      | contradiction
      | (cases hs; done)
      | (cases hs
         refine SI_congr h ⟨?_, fun u => ?_⟩ <;>
         simp only [setPc, setEv, upd, touch_sem, touch_pc, touch_ev, sysUnlock_sem, sysUnlock_pc, afterSignal] <;>
         (repeat' split) <;> simp_all)

theorem act_SI {s s' : State} {a} (h : SI s) (hm : MI s) (hs : act false s a = some s') : SI s' := by
  cases a with
  | run t => exact step_SI h hm hs
  | spur t =>
    simp only [act, spurious] at hs
    split at hs
    · rename_i hpc
      cases hs; exact SI_congr h (sameS_setPc (by rw [hpc]; simp) (by simp))
    · cases hs

theorem reachS_SI {prog q0 s} (h : ReachS prog q0 s) : SI s := by
  induction h with
  | init => exact Or.inl ⟨rfl, fun t => by simp [init]⟩
  | act hr hs ih => exact act_SI ih (reachS_MI hr) hs

end Igris.C20
