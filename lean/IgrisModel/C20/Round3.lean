/-
  C20 round 3 — helper lemmas: the enqueue of wait_current_schedee as a list
  function and its closed form; which steps touch the wait queue.
-/
import IgrisModel.C20.Order
namespace Igris.C20

/-- `head->move_front(lnk)` for a prioritised waiter, `head->move_back(lnk)` otherwise -/
def enq (q : List Tid) (a : Tid × Bool) : List Tid := if a.2 then a.1 :: q else q ++ [a.1]

theorem enq_foldl (arr : List (Tid × Bool)) : ∀ q : List Tid,
    arr.foldl enq q =
      ((arr.filter (fun a => a.2)).reverse.map (·.1)) ++ q ++ ((arr.filter (fun a => !a.2)).map (·.1)) := by
  induction arr with
  | nil => intro q; simp
  | cons a rest ih =>
    intro q
    rw [List.foldl_cons, ih]
    cases h : a.2 <;> simp [enq, h, List.filter_cons]

theorem step_changes_waitq {s s' : State} {t : Tid} (hs : step false s t = some s')
    (hq : s'.waitq ≠ s.waitq) : (∃ p, s.pc t = .wEnq p) ∨ (∃ f a, s.pc t = .uUnlink f a) := by
  by_cases h1 : ∃ p, s.pc t = .wEnq p
  · exact Or.inl h1
  by_cases h2 : ∃ f a, s.pc t = .uUnlink f a
  · exact Or.inr h2
  exact absurd (step_sameQ hs (fun p e => h1 ⟨p, e⟩) (fun f a e => h2 ⟨f, a, e⟩)).1 hq

end Igris.C20
