/-
  C20 — `unwait_all` may drain the wait queue in ANY order: the invariants
  MI / CI hold for every drain order, critical sections own the system lock,
  and the unwait_all theorem for any drain order.
-/
import IgrisModel.C20.SpurLemmas
namespace Igris.C20
set_option linter.unusedSimpArgs false

/-! ## PART 1 — generalized step -/

/-- `unwait_all` may take ANY queued waiter next: `pick q ∈ q`. `unwait_one` (all = false) still takes the head. -/
def stepP (pick : List Tid → Tid) (s : State) (t : Tid) : Option State :=
  match s.pc t with
  | .uUnlink f true =>
    if s.waitq = [] then step false s t
    else
      let w := pick s.waitq
      some (setPc { s with waitq := s.waitq.erase w, fut := upd s.fut w f, ulk := upd s.ulk w true } t (.sLock w f true))
  | _ => step false s t

def actP (pick : List Tid → Tid) (s : State) : Act → Option State
  | .run t => stepP pick s t
  | .spur t => spurious s t

def GoodPick (pick : List Tid → Tid) : Prop := ∀ q, q ≠ [] → pick q ∈ q

inductive ReachP (pick : List Tid → Tid) (prog : Tid → List Op) (q0 : List (Tid × Int)) : State → Prop
  | init : ReachP pick prog q0 (init prog q0)
  | act {s s' a} : ReachP pick prog q0 s → actP pick s a = some s' → ReachP pick prog q0 s'

/-- the two shapes of a `stepP` -/
theorem stepP_cases {pick : List Tid → Tid} {s s' : State} {t : Tid} (hs : stepP pick s t = some s') :
    step false s t = some s' ∨
    (∃ f, s.pc t = .uUnlink f true ∧ s.waitq ≠ [] ∧
      s' = setPc { s with waitq := s.waitq.erase (pick s.waitq), fut := upd s.fut (pick s.waitq) f,
                          ulk := upd s.ulk (pick s.waitq) true } t (.sLock (pick s.waitq) f true)) := by
  unfold stepP at hs
  split at hs
  · rename_i f hpc
    split at hs
    · exact Or.inl hs
    · rename_i hne
      cases hs
      exact Or.inr ⟨f, hpc, hne, rfl⟩
  · exact Or.inl hs

theorem stepP_head (s : State) (t : Tid) : stepP (fun q => q.headD 0) s t = step false s t := by
  unfold stepP
  split
  · rename_i f hpc
    split
    · rfl
    · rename_i hne
      unfold step
      rw [hpc]
      dsimp only
      cases hq : s.waitq with
      | nil => exact absurd hq hne
      | cons w r => simp [List.erase_cons_head]
  · rfl

theorem actP_head (s : State) (a : Act) : actP (fun q => q.headD 0) s a = act false s a := by
  cases a with
  | run t => exact stepP_head s t
  | spur t => rfl

theorem reachS_is_reachP {prog q0 s} (h : ReachS prog q0 s) : ReachP (fun q => q.headD 0) prog q0 s := by
  induction h with
  | init => exact .init
  | act _ hs ih => exact .act ih (by rw [actP_head]; exact hs)

theorem goodPick_head : GoodPick (fun q => q.headD 0) := by
  intro q hq
  cases q with
  | nil => exact absurd rfl hq
  | cons a r => simp

/-- drain from the tail = the benign change -/
theorem goodPick_last : GoodPick (fun q => q.getLast?.getD 0) := by
  intro q hq
  show q.getLast?.getD 0 ∈ q
  rw [List.getLast?_eq_some_getLast hq]
  simp

example : GoodPick (fun q => q.getLast?.getD 0) := goodPick_last
example : GoodPick (fun q => q.headD 0) := goodPick_head

theorem stepP_MI {pick : List Tid → Tid} {s s' : State} {t : Tid} (h : MI s) (hs : stepP pick s t = some s') : MI s' := by
  rcases stepP_cases hs with h1 | ⟨f, _, _, rfl⟩
  · exact step_MI h h1
  · exact MI_congr h rfl rfl rfl

set_option maxHeartbeats 8000000 in
theorem unlink_CI {s : State} {t w : Tid} {f : Int} (h : CI s) (hpc : s.pc t = .uUnlink f true)
    (hw : w ∈ s.waitq) :
    CI (setPc { s with waitq := s.waitq.erase w, fut := upd s.fut w f, ulk := upd s.ulk w true } t (.sLock w f true)) := by
  have e1 : (s.waitq.erase w).Nodup := h.nodup.erase w
  have e2 : ∀ x, x ∈ s.waitq.erase w ↔ x ≠ w ∧ x ∈ s.waitq := fun x => h.nodup.mem_erase_iff
  obtain ⟨h1, h2, h3, h4, h5, h6, h7, h8, h9, h10, h11, h12, h13, h14, h15⟩ := h
  generalize s.waitq.erase w = q' at *
  ci_close

theorem stepP_CI {pick : List Tid → Tid} (hp : GoodPick pick) {s s' : State} {t : Tid} (h : CI s) (hm : MI s)
    (hs : stepP pick s t = some s') : CI s' := by
  rcases stepP_cases hs with h1 | ⟨f, hpc, hne, rfl⟩
  · exact step_CI h hm h1
  · exact unlink_CI h hpc (hp _ hne)

theorem actP_MI {pick : List Tid → Tid} {s s' : State} {a} (h : MI s) (hs : actP pick s a = some s') : MI s' := by
  cases a with
  | run t => exact stepP_MI h hs
  | spur t => exact spurious_MI h hs

theorem actP_CI {pick : List Tid → Tid} (hp : GoodPick pick) {s s' : State} {a} (h : CI s) (hm : MI s)
    (hs : actP pick s a = some s') : CI s' := by
  cases a with
  | run t => exact stepP_CI hp h hm hs
  | spur t => exact spurious_CI h hs

theorem reachP_MI {pick prog q0 s} (h : ReachP pick prog q0 s) : MI s := by
  induction h with
  | init => exact MI_init _ _
  | act _ hs ih => exact actP_MI ih hs

theorem reachP_CI {pick prog q0 s} (hp : GoodPick pick) (h : ReachP pick prog q0 s) : CI s := by
  induction h with
  | init => exact CI_init _ _
  | act hr hs ih => exact actP_CI hp ih (reachP_MI hr) hs

/-! ## PART 2 — critical sections own the system lock -/

/-- inside wait_current_schedee up to its system_unlock, or inside unwait_one / unwait_all up to its system_unlock -/
def InCS : PC → Bool
  | .wEnq _ | .wUnlock | .uUnlink _ _ | .sLock _ _ _ | .sNotify _ _ _ | .sUnlock _ _ _ | .uUnlock => true
  | _ => false

def OwnI (s : State) : Prop := ∀ t, InCS (s.pc t) = true → s.owner = some t

theorem sysUnlock_owner (s : State) (t : Tid) : (sysUnlock s t).owner = s.owner ∨ s.owner = some t := by
  unfold sysUnlock; split
  · right; assumption
  · left; rfl

theorem sysSave_owner (s : State) (t : Tid) : (sysSave false s t).owner = s.owner ∨ s.owner = some t := by
  unfold sysSave; split
  · rename_i h; right; exact h.1
  · left; rfl

theorem sysRestore_owner {s s' : State} {t : Tid} (hs : sysRestore s t = some s') :
    s'.owner = s.owner ∨ s.owner = none := by
  unfold sysRestore at hs; split at hs
  · split at hs
    · rename_i h; right; exact h.2.2
    · cases hs; left; rfl
  · cases hs

theorem sysLock_owner {s s' : State} {t : Tid} (hs : sysLock s t = some s') :
    s'.owner = some t ∧ (s.owner = none ∨ s.owner = some t) := by
  unfold sysLock at hs; split at hs
  · rename_i h; cases hs; exact ⟨rfl, h⟩
  · cases hs

theorem stepIdle_OwnI {s s' : State} {t : Tid} {op rest} (h : OwnI s) (hm : MI s) (hpc : s.pc t = .idle)
    (hs : stepIdle false s t op rest = some s') : OwnI s' := by
  have hm0 : MI { s with prog := upd s.prog t rest } := MI_congr hm rfl rfl rfl
  unfold stepIdle at hs
  dsimp only at hs
  split at hs
  · have a := (sysLock_frame hs).2.2.2.2.1
    have b := sysLock_owner hs
    simp only at a b
    intro x hx; rw [a] at hx; have := h x hx; grind
  · cases hs
    have a := (sysUnlock_frame { s with prog := upd s.prog t rest } t).2.2.2.2.1
    have b := sysUnlock_owner { s with prog := upd s.prog t rest } t
    simp only at a b
    intro x hx; rw [a] at hx; have := h x hx; grind [InCS]
  · cases hs
    have a := (sysSave_frame { s with prog := upd s.prog t rest } t hm0).2.2.2.2.1
    have b := sysSave_owner { s with prog := upd s.prog t rest } t
    simp only at a b
    intro x hx; rw [a] at hx; have := h x hx; grind [InCS]
  · have a := (sysRestore_frame hs).2.2.2.2.1
    have b := sysRestore_owner hs
    simp only at a b
    intro x hx; rw [a] at hx; have := h x hx; grind
  all_goals first
    | (simp only [Option.map_eq_some_iff] at hs
       obtain ⟨s1, h1, rfl⟩ := hs
       have a := (sysLock_frame h1).2.2.2.2.1
       have b := sysLock_owner h1
       simp only at a b
       intro x hx
       simp only [setPc, upd] at hx ⊢
       by_cases hxt : x = t
       · subst hxt; exact b.1
       · simp only [hxt, if_false] at hx; rw [a] at hx; have := h x hx; grind)
    | (split at hs
       · first
         | (cases hs
            intro x hx
            simp only [setPc, upd] at hx ⊢
            by_cases hxt : x = t
            · subst hxt; simp [InCS] at hx
            · simp only [hxt, if_false] at hx; exact h x hx)
         | (split at hs <;>
             (cases hs
              intro x hx
              simp only [setPc, upd] at hx ⊢
              by_cases hxt : x = t
              · subst hxt; simp [InCS] at hx
              · simp only [hxt, if_false] at hx; exact h x hx))
       · cases hs)

theorem touch_pc_owner (s : State) (w : Tid) : (touch s w).pc = s.pc ∧ (touch s w).owner = s.owner ∧
    (touch s w).waitq = s.waitq ∧ (touch s w).ulk = s.ulk ∧ (touch s w).fut = s.fut := by
  unfold touch; split <;> simp

theorem step_OwnI {s s' : State} {t : Tid} (h : OwnI s) (hm : MI s) (hs : step false s t = some s') : OwnI s' := by
  unfold step at hs
  split at hs
  · rename_i hpc
    split at hs
    · cases hs
    · exact stepIdle_OwnI h hm hpc hs
  · -- wEnq
    rename_i p hpc
    cases hs
    intro x hx; have := h x; simp only [setPc, upd] at hx ⊢; grind [InCS]
  · -- wUnlock
    rename_i hpc
    cases hs
    have a := (sysUnlock_frame s t).2.2.2.2.1
    have b := sysUnlock_owner s t
    have ht := h t (by rw [hpc]; rfl)
    intro x hx; have := h x; simp only [setPc, upd] at hx ⊢; rw [a] at hx; grind [InCS]
  · -- wEvLock
    rename_i hpc
    split at hs
    · cases hs
      intro x hx; have := h x; simp only [setPc, setEv, upd] at hx ⊢; grind [InCS]
    · cases hs
  · -- wCv
    rename_i hpc
    split at hs <;>
    (cases hs
     intro x hx; have := h x; simp only [setPc, setEv, upd] at hx ⊢; grind [InCS])
  · cases hs
  · -- wReacq
    rename_i hpc
    split at hs
    · split at hs <;>
      (cases hs
       intro x hx; have := h x; simp only [setPc, setEv, upd] at hx ⊢; grind [InCS])
    · cases hs
  · -- wEvUnlock
    rename_i hpc
    cases hs
    intro x hx; have := h x; simp only [setPc, setEv, upd] at hx ⊢; grind [InCS]
  · -- wRet
    rename_i hpc
    cases hs
    intro x hx; have := h x; simp only [setPc, setEv, upd] at hx ⊢; grind [InCS]
  · -- uUnlink
    rename_i f a hpc
    have ht := h t (by rw [hpc]; rfl)
    split at hs <;>
    (cases hs
     intro x hx; have := h x; simp only [setPc, setEv, upd] at hx ⊢; grind [InCS])
  · -- sLock
    rename_i w f a hpc
    have ht := h t (by rw [hpc]; rfl)
    split at hs
    · cases hs
      have tp := touch_pc_owner s w
      generalize touch s w = s1 at *
      intro x hx; have := h x; simp only [setPc, setEv, upd] at hx ⊢; grind [InCS]
    · cases hs
  · -- sNotify
    rename_i w f a hpc
    have ht := h t (by rw [hpc]; rfl)
    cases hs
    have tp := touch_pc_owner s w
    generalize touch s w = s1 at *
    simp only [Bool.false_eq_true, if_false]
    intro x hx; have := h x
    split at hx <;> split <;> simp only [setPc, setEv, upd] at hx ⊢ <;> grind [InCS]
  · -- sUnlock
    rename_i w f a hpc
    have ht := h t (by rw [hpc]; rfl)
    cases hs
    have tp := touch_pc_owner s w
    generalize touch s w = s1 at *
    simp only [Bool.false_eq_true, if_false, afterSignal]
    intro x hx; have := h x
    simp only [setPc, setEv, upd] at hx ⊢; grind [InCS]
  · -- uUnlock
    rename_i hpc
    cases hs
    have a := (sysUnlock_frame s t).2.2.2.2.1
    have b := sysUnlock_owner s t
    have ht := h t (by rw [hpc]; rfl)
    intro x hx; have := h x; simp only [setPc, upd] at hx ⊢; rw [a] at hx; grind [InCS]
  · -- qPost
    rename_i hpc
    cases hs
    intro x hx; have := h x; simp only [setPc, setEv, upd] at hx ⊢; grind [InCS]

theorem stepP_OwnI {pick : List Tid → Tid} {s s' : State} {t : Tid} (h : OwnI s) (hm : MI s)
    (hs : stepP pick s t = some s') : OwnI s' := by
  rcases stepP_cases hs with h1 | ⟨f, hpc, hne, rfl⟩
  · exact step_OwnI h hm h1
  · have ht := h t (by rw [hpc]; rfl)
    intro x hx; have := h x; simp only [setPc, upd] at hx ⊢; grind [InCS]

theorem spurious_OwnI {s s' : State} {t : Tid} (h : OwnI s) (hs : spurious s t = some s') : OwnI s' := by
  unfold spurious at hs; split at hs
  · cases hs
    intro x hx; have := h x; simp only [setPc, upd] at hx ⊢; grind [InCS]
  · cases hs

theorem OwnI_init (prog q0) : OwnI (init prog q0) := by
  intro t ht; simp [init, InCS] at ht

theorem reachP_OwnI {pick prog q0 s} (h : ReachP pick prog q0 s) : OwnI s := by
  induction h with
  | init => exact OwnI_init _ _
  | @act s s' a hr hs ih =>
    cases a with
    | run t => exact stepP_OwnI ih (reachP_MI hr) hs
    | spur t => exact spurious_OwnI ih hs

/-- two threads are never both inside a critical section -/
theorem cs_exclusive {pick prog q0 s} {t u : Tid} (h : ReachP pick prog q0 s)
    (ht : InCS (s.pc t) = true) (hu : InCS (s.pc u) = true) : t = u := by
  have a := reachP_OwnI h t ht
  have b := reachP_OwnI h u hu
  rw [a] at b; exact Option.some.inj b

/-- a thread inside a critical section holds the system lock: its count is positive -/
theorem cs_count_pos {pick prog q0 s} {t : Tid} (h : ReachP pick prog q0 s)
    (ht : InCS (s.pc t) = true) : 0 < s.count t := by
  have a := reachP_OwnI h t ht
  have b := (reachP_MI h).own t a
  omega

/-! ## PART 3 — while `t` is in its critical section nobody else touches the wait queue -/

theorem sysLock_blocked {s : State} {t u : Tid} (ho : s.owner = some t) (hut : u ≠ t) : sysLock s u = none := by
  unfold sysLock; grind

theorem sysRestore_blocked {s : State} {t u : Tid} (ho : s.owner = some t) (hut : u ≠ t) : sysRestore s u = none := by
  unfold sysRestore; grind

theorem sysUnlock_nonowner {s : State} {t u : Tid} (ho : s.owner = some t) (hut : u ≠ t) :
    sysUnlock s u = { s with fault := true } := by
  unfold sysUnlock; grind

theorem sysSave_nonowner {s : State} {t u : Tid} (ho : s.owner = some t) (hut : u ≠ t) :
    sysSave false s u = { s with fault := true } := by
  unfold sysSave; grind

def Frame (t : Tid) (s s' : State) : Prop :=
  s'.waitq = s.waitq ∧ s'.ulk = s.ulk ∧ s'.fut = s.fut ∧ s'.pc t = s.pc t

theorem stepIdle_other_frame {s s' : State} {t u : Tid} {op rest} (ho : s.owner = some t) (hut : u ≠ t)
    (hs : stepIdle false s u op rest = some s') : Frame t s s' := by
  have ho0 : ({ s with prog := upd s.prog u rest } : State).owner = some t := ho
  have hb := sysLock_blocked ho0 hut
  have hr := sysRestore_blocked ho0 hut
  have hu := sysUnlock_nonowner ho0 hut
  have hv := sysSave_nonowner ho0 hut
  have htu : t ≠ u := fun e => hut e.symm
  unfold stepIdle at hs
  dsimp only at hs
  split at hs
  · rw [hb] at hs; cases hs
  · rw [hu] at hs; cases hs; exact ⟨rfl, rfl, rfl, rfl⟩
  · rw [hv] at hs; cases hs; exact ⟨rfl, rfl, rfl, rfl⟩
  · rw [hr] at hs; cases hs
  · rw [hb] at hs; cases hs
  · rw [hb] at hs; cases hs
  · rw [hb] at hs; cases hs
  · split at hs
    · cases hs; simp [Frame, setPc, upd, htu]
    · cases hs
  · split at hs
    · split at hs <;> (cases hs; simp [Frame, setPc, upd, htu])
    · cases hs
  · split at hs
    · cases hs; simp [Frame, setPc, upd, htu]
    · cases hs

theorem step_other_frame {s s' : State} {t u : Tid} (ho : s.owner = some t) (hut : u ≠ t)
    (hcs : InCS (s.pc u) = false) (hs : step false s u = some s') : Frame t s s' := by
  have htu : t ≠ u := fun e => hut e.symm
  unfold step at hs
  split at hs
  · split at hs
    · cases hs
    · exact stepIdle_other_frame ho hut hs
  all_goals (rename_i hpc; try (rw [hpc] at hcs; simp [InCS] at hcs; done))
  · split at hs
    · cases hs; simp [Frame, setPc, setEv, upd, htu]
    · cases hs
  · split at hs <;> (cases hs; simp [Frame, setPc, setEv, upd, htu])
  · cases hs
  · split at hs
    · split at hs <;> (cases hs; simp [Frame, setPc, setEv, upd, htu])
    · cases hs
  · cases hs; simp [Frame, setPc, setEv, upd, htu]
  · cases hs; simp [Frame, setPc, setEv, upd, htu]
  · cases hs; simp [Frame, setPc, setEv, upd, htu]

/-- while `t` is inside its critical section, a step of another thread leaves the wait queue,
    the unlink marks, the futures and `t`'s program counter alone -/
theorem other_step_frame {pick : List Tid → Tid} {s s' : State} {t u : Tid} (h : OwnI s)
    (ht : InCS (s.pc t) = true) (hut : u ≠ t) (hs : stepP pick s u = some s') :
    s'.waitq = s.waitq ∧ s'.ulk = s.ulk ∧ s'.fut = s.fut ∧ s'.pc t = s.pc t := by
  have ho := h t ht
  have hcs : InCS (s.pc u) = false := by
    cases hc : InCS (s.pc u) with
    | false => rfl
    | true =>
      have := h u hc
      rw [ho] at this
      exact absurd (Option.some.inj this).symm hut
  rcases stepP_cases hs with h1 | ⟨f, hpc, _, _⟩
  · exact step_other_frame ho hut hcs h1
  · rw [hpc] at hcs; simp [InCS] at hcs

/-- the same for a spurious return of any thread (also of `t`: it would be at `wSleep`, not in a critical section) -/
theorem spurious_frame {s s' : State} {t u : Tid} (ht : InCS (s.pc t) = true)
    (hs : spurious s u = some s') :
    s'.waitq = s.waitq ∧ s'.ulk = s.ulk ∧ s'.fut = s.fut ∧ s'.pc t = s.pc t := by
  unfold spurious at hs; split at hs
  · rename_i hpc
    cases hs
    have htu : t ≠ u := by
      intro e; subst e; rw [hpc] at ht; simp [InCS] at ht
    simp [setPc, upd, htu]
  · cases hs

/-! ## PART 4 — the unwait_all theorem for any drain order -/

/-- the pcs of ONE unwait_all(f) call of a thread after it took the system lock -/
def InAll (f : Int) : PC → Bool
  | .uUnlink f' true | .sLock _ f' true | .sNotify _ f' true | .sUnlock _ f' true => f' == f
  | .uUnlock => true
  | _ => false

/-- which waiter the step of thread u unlinks for an unwait_all, if any -/
def unlinksP (pick : List Tid → Tid) (s : State) (u : Tid) : List Tid :=
  match s.pc u with
  | .uUnlink _ true => if s.waitq = [] then [] else [pick s.waitq]
  | _ => []

/-- executions that start in `s1` (thread t has just taken the system lock inside unwait_all(f)) and last as
    long as t is inside that call; `ws` = the waiters t has unlinked so far, in order -/
inductive During (pick : List Tid → Tid) (t : Tid) (f : Int) (s1 : State) : State → List Tid → Prop
  | start : During pick t f s1 s1 []
  | own {s s' ws} : During pick t f s1 s ws → InAll f (s.pc t) = true → stepP pick s t = some s' →
      During pick t f s1 s' (ws ++ unlinksP pick s t)
  | other {s s' u ws} : During pick t f s1 s ws → InAll f (s.pc t) = true → u ≠ t → stepP pick s u = some s' →
      During pick t f s1 s' ws
  | spur {s s' u ws} : During pick t f s1 s ws → InAll f (s.pc t) = true → spurious s u = some s' →
      During pick t f s1 s' ws

theorem InAll_InCS {f : Int} {p : PC} (h : InAll f p = true) : InCS p = true := by
  cases p <;> simp [InAll, InCS] at h ⊢

/-- the two shapes of a `stepP`, with the information that the generic shape at `uUnlink _ true` has an empty queue -/
theorem stepP_cases' {pick : List Tid → Tid} {s s' : State} {t : Tid} (hs : stepP pick s t = some s') :
    (step false s t = some s' ∧ ∀ f, s.pc t = .uUnlink f true → s.waitq = []) ∨
    (∃ f, s.pc t = .uUnlink f true ∧ s.waitq ≠ [] ∧
      s' = setPc { s with waitq := s.waitq.erase (pick s.waitq), fut := upd s.fut (pick s.waitq) f,
                          ulk := upd s.ulk (pick s.waitq) true } t (.sLock (pick s.waitq) f true)) := by
  unfold stepP at hs
  split at hs
  · rename_i f hpc
    split at hs
    · rename_i hq; exact Or.inl ⟨hs, fun _ _ => hq⟩
    · rename_i hne
      cases hs
      exact Or.inr ⟨f, hpc, hne, rfl⟩
  · rename_i hno
    exact Or.inl ⟨hs, fun f h => absurd h (hno f)⟩

/-- what a step of `t` inside its unwait_all(f) does -/
theorem own_step_effect {pick : List Tid → Tid} {s s' : State} {t : Tid} {f : Int}
    (hin : InAll f (s.pc t) = true) (hs : stepP pick s t = some s') :
    (s.waitq ≠ [] ∧ unlinksP pick s t = [pick s.waitq] ∧ s'.waitq = s.waitq.erase (pick s.waitq) ∧
      s'.ulk = upd s.ulk (pick s.waitq) true ∧ s'.fut = upd s.fut (pick s.waitq) f ∧ s'.pc t ≠ .uUnlock) ∨
    (unlinksP pick s t = [] ∧ s'.waitq = s.waitq ∧ s'.ulk = s.ulk ∧ s'.fut = s.fut ∧
      (s'.pc t = .uUnlock → s'.waitq = [])) := by
  rcases stepP_cases' hs with ⟨h1, hq⟩ | ⟨f', hpc, hne, rfl⟩
  · right
    unfold step at h1
    split at h1
    all_goals (rename_i hpc; try (rw [hpc] at hin; simp [InAll] at hin; done))
    · -- uUnlink
      rename_i f' a
      rw [hpc] at hin
      have ha : a = true := by cases a <;> simp [InAll] at hin ⊢
      subst ha
      have hq0 := hq f' hpc
      rw [hq0] at h1
      cases h1
      simp [unlinksP, hpc, hq0, setPc, upd]
    · -- sLock
      split at h1
      · cases h1
        have tp := touch_pc_owner s ‹Tid›
        generalize touch s ‹Tid› = s1 at *
        simp [unlinksP, hpc, setPc, setEv, upd, tp]
      · cases h1
    · -- sNotify
      cases h1
      rename_i w f' a
      have tp := touch_pc_owner s w
      generalize touch s w = s1 at *
      simp only [Bool.false_eq_true, if_false]
      split <;> simp [unlinksP, hpc, setPc, setEv, upd, tp]
    · -- sUnlock
      cases h1
      rename_i w f' a
      rw [hpc] at hin
      have ha : a = true := by cases a <;> simp [InAll] at hin ⊢
      have tp := touch_pc_owner s w
      generalize touch s w = s1 at *
      simp only [Bool.false_eq_true, if_false, afterSignal]
      simp only [setPc, setEv, upd, unlinksP, hpc, tp, if_true]
      refine ⟨trivial, trivial, trivial, trivial, ?_⟩
      split
      · intro h; cases h
      · rename_i hc; intro _; grind
    · -- uUnlock
      cases h1
      have a := sysUnlock_frame s t
      have b : (sysUnlock s t).fut = s.fut := by unfold sysUnlock mtxUnlock; split <;> rfl
      simp [unlinksP, hpc, setPc, upd, a, b]
  · left
    rw [hpc] at hin
    have hf : f' = f := by simpa [InAll] using hin
    subst hf
    refine ⟨hne, ?_, rfl, rfl, rfl, ?_⟩
    · simp [unlinksP, hpc, hne]
    · simp [setPc, upd]

/-- the facts about the waiters unlinked so far by the call -/
def AllI (t : Tid) (f : Int) (s1 s : State) (ws : List Tid) : Prop :=
  (ws ++ s.waitq).Perm s1.waitq ∧
  (∀ w, w ∈ ws → s.ulk w = true ∧ s.fut w = f) ∧
  (∀ w, w ∉ ws → s.ulk w = s1.ulk w ∧ s.fut w = s1.fut w) ∧
  (s.pc t = .uUnlock → s.waitq = [])

theorem AllI_frame {t f s1 s s' ws} (h : AllI t f s1 s ws)
    (hf : s'.waitq = s.waitq ∧ s'.ulk = s.ulk ∧ s'.fut = s.fut ∧ s'.pc t = s.pc t) : AllI t f s1 s' ws := by
  obtain ⟨a, b, c, d⟩ := hf
  unfold AllI; rw [a, b, c, d]; exact h

theorem during_main {pick prog q0} {t : Tid} {f : Int} {s1 s : State} {ws : List Tid}
    (hp : GoodPick pick)
    (hr : ReachP pick prog q0 s1) (h1 : s1.pc t = .uUnlink f true) (hd : During pick t f s1 s ws) :
    ReachP pick prog q0 s ∧ (InAll f (s.pc t) = true → AllI t f s1 s ws) := by
  induction hd with
  | start =>
    refine ⟨hr, fun _ => ⟨by simp, by simp, fun _ _ => ⟨rfl, rfl⟩, ?_⟩⟩
    rw [h1]; intro h; cases h
  | @own s s' ws hd hin hs ih =>
    obtain ⟨ihr, iha⟩ := ih
    obtain ⟨A1, A2, A3, A4⟩ := iha hin
    refine ⟨.act (a := .run t) ihr hs, fun _ => ?_⟩
    rcases own_step_effect hin hs with ⟨hne, hu, e1, e2, e3, e4⟩ | ⟨hu, e1, e2, e3, e4⟩
    · rw [hu]
      refine ⟨?_, ?_, ?_, fun h => absurd h e4⟩
      · rw [e1]
        have hw : pick s.waitq ∈ s.waitq := hp _ hne
        refine List.Perm.trans ?_ A1
        rw [List.append_assoc]
        exact List.Perm.append_left ws (List.perm_cons_erase hw).symm
      · intro x hx; rw [e2, e3]; simp only [upd]; have := A2 x; grind
      · intro x hx; rw [e2, e3]; simp only [upd]; have := A3 x; grind
    · rw [hu, List.append_nil]
      exact ⟨by rw [e1]; exact A1, by rw [e2, e3]; exact A2, by rw [e2, e3]; exact A3, e4⟩
  | @other s s' u ws hd hin hut hs ih =>
    obtain ⟨ihr, iha⟩ := ih
    refine ⟨.act (a := .run u) ihr hs, fun _ => ?_⟩
    exact AllI_frame (iha hin) (other_step_frame (reachP_OwnI ihr) (InAll_InCS hin) hut hs)
  | @spur s s' u ws hd hin hs ih =>
    obtain ⟨ihr, iha⟩ := ih
    refine ⟨.act (a := .spur u) ihr hs, fun _ => ?_⟩
    exact AllI_frame (iha hin) (spurious_frame (InAll_InCS hin) hs)

/-- (a)+(b): during an `unwait_all(f)` of `t` that found the queue `s1.waitq`, for ANY drain order: the state is
    reachable; everyone queued at the call is either already unlinked by this call (`ws`, no duplicates) or still
    queued, nobody else; every unlinked waiter is marked woken with future `f`; nobody outside `ws` is marked by
    this call; and when the call stands at its system_unlock the queue is empty (so `ws` is a permutation of
    the queue found). -/
theorem unwait_all_during {pick prog q0} {t : Tid} {f : Int} {s1 s : State} {ws : List Tid}
    (hp : GoodPick pick)
    (hr : ReachP pick prog q0 s1) (h1 : s1.pc t = .uUnlink f true) (hd : During pick t f s1 s ws) :
    ReachP pick prog q0 s ∧
    (InAll f (s.pc t) = true →
      (ws ++ s.waitq).Perm s1.waitq ∧ ws.Nodup ∧
      (∀ w, w ∈ ws → s.ulk w = true ∧ s.fut w = f) ∧
      (∀ w, w ∉ ws → s.ulk w = s1.ulk w ∧ s.fut w = s1.fut w) ∧
      (s.pc t = .uUnlock → s.waitq = [] ∧ ws.Perm s1.waitq)) := by
  obtain ⟨a, b⟩ := during_main hp hr h1 hd
  refine ⟨a, fun hin => ?_⟩
  obtain ⟨b1, b2, b3, b4⟩ := b hin
  have hnd : (ws ++ s.waitq).Nodup := b1.nodup_iff.mpr (reachP_CI hp hr).nodup
  refine ⟨b1, (List.nodup_append.mp hnd).1, b2, b3, fun hu => ?_⟩
  have hq := b4 hu
  refine ⟨hq, ?_⟩
  rw [hq, List.append_nil] at b1
  exact b1

/-- (c) the return of `unwait_all` for ANY drain order: after its system_unlock the queue is empty, the waiters it
    unlinked + signalled (each exactly once) are a permutation of the queue it found, and the call is over. -/
theorem unwait_all_returns_any_order {pick prog q0} {t : Tid} {f : Int} {s1 s s' : State} {ws : List Tid}
    (hp : GoodPick pick)
    (hr : ReachP pick prog q0 s1) (h1 : s1.pc t = .uUnlink f true) (hd : During pick t f s1 s ws)
    (hu : s.pc t = .uUnlock) (hs : stepP pick s t = some s') :
    s'.waitq = [] ∧ ws.Perm s1.waitq ∧ s'.pc t = .idle := by
  obtain ⟨_, b⟩ := unwait_all_during hp hr h1 hd
  obtain ⟨_, _, _, _, b5⟩ := b (by rw [hu]; rfl)
  obtain ⟨hq, hperm⟩ := b5 hu
  rcases stepP_cases hs with hst | ⟨f', hpc, _, _⟩
  · unfold step at hst
    rw [hu] at hst
    dsimp only at hst
    cases hst
    have fr := sysUnlock_frame s t
    refine ⟨?_, hperm, ?_⟩
    · show (sysUnlock s t).waitq = []
      rw [fr.2.2.2.2.2.1]; exact hq
    · simp [setPc, upd]
  · rw [hu] at hpc; cases hpc

/-- the marks of the waiters unlinked by the call, at the return point -/
theorem unwait_all_marks_at_return {pick prog q0} {t : Tid} {f : Int} {s1 s : State} {ws : List Tid}
    (hp : GoodPick pick)
    (hr : ReachP pick prog q0 s1) (h1 : s1.pc t = .uUnlink f true) (hd : During pick t f s1 s ws)
    (hu : s.pc t = .uUnlock) :
    (∀ w, w ∈ s1.waitq → s.ulk w = true ∧ s.fut w = f) ∧
    (∀ w, w ∉ s1.waitq → s.ulk w = s1.ulk w ∧ s.fut w = s1.fut w) := by
  obtain ⟨_, b⟩ := unwait_all_during hp hr h1 hd
  obtain ⟨_, _, b3, b4, b5⟩ := b (by rw [hu]; rfl)
  obtain ⟨_, hperm⟩ := b5 hu
  exact ⟨fun w hw => b3 w (hperm.mem_iff.mpr hw), fun w hw => b4 w (fun h => hw (hperm.mem_iff.mp h))⟩

/-- non-vacuity of the pick hypothesis: draining from the tail (the benign change) and from the head -/
example : GoodPick (fun q => q.getLast?.getD 0) := goodPick_last
example : GoodPick (fun q => q.headD 0) := goodPick_head

/-- non-vacuity of the hypotheses of the main theorem, for every pick: thread 0 waits, thread 1 calls
    unwait_all(7) and stands at `uUnlink 7 true` with the queue `[0]` -/
def demoProg : Tid → List Op := fun t => if t = 0 then [.wait false] else if t = 1 then [.unwaitAll 7] else []

theorem hypotheses_non_vacuous (pick : List Tid → Tid) :
    ∃ s1, ReachP pick demoProg [] s1 ∧ s1.pc 1 = .uUnlink 7 true ∧ s1.waitq = [0] ∧
      During pick 1 7 s1 s1 [] :=
  ⟨_, ReachP.act (a := .run 1) (ReachP.act (a := .run 0) (ReachP.act (a := .run 0)
        (ReachP.act (a := .run 0) ReachP.init rfl) rfl) rfl) rfl, rfl, rfl, During.start⟩


end Igris.C20
