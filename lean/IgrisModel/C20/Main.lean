/-
  Driver for C20: replays the controlled scheduler of harness/C20.cpp on the model.
  op line:  c <prog0>/<prog1>/... <init|-> <schedule digits|->
  Output = the scheduler's token trace + per-thread observations (see harness).
-/
import IgrisModel.Common.Proto
import IgrisModel.C20.Model
import IgrisModel.C20.Spur
import IgrisModel.C20.MainEv
open Igris.Proto
namespace Igris.C20.Drv

def parseOp (tok : String) : Option Op :=
  match tok.toList with
  | ['L'] => some .lock | ['U'] => some .unlock | ['S'] => some .save | ['R'] => some .restore
  | ['G'] => some .pop | ['Z'] => some .size
  | 'W' :: r => some (.wait (String.mk r != "0"))
  | 'O' :: r => (String.mk r).toInt?.map .unwaitOne
  | 'A' :: r => (String.mk r).toInt?.map .unwaitAll
  | 'P' :: r => (String.mk r).toInt?.map .push
  | _ => none

def parseProg (s : String) : List Op :=
  (s.splitOn ",").filterMap parseOp

/-- the point a parked thread stands at -/
def hookChar (s : State) (t : Tid) : Char :=
  match s.pc t with
  | .idle =>
    match s.prog t with
    | [] => '?'
    | .unlock :: _ => 'U' | .save :: _ => 'S' | .restore :: _ => 'R'
    | .push _ :: _ => 'a' | .pop :: _ => 'a' | .size :: _ => 'a'
    | _ => 'L'
  | .wEnq _ => 'q' | .wUnlock => 'U' | .wEvLock => 'w' | .wCv => 'c' | .wSleep => 'c' | .wReacq => 'c'
  | .wEvUnlock => 'u' | .wRet => 'r'
  | .uUnlink _ _ => 'k' | .sLock _ _ _ => 's' | .sNotify _ _ _ => 'n' | .sUnlock _ _ _ => 't'
  | .uUnlock => 'U'
  | .qPost => '?'

/-- the primitive a blocked thread sleeps on: 0 = system mutex, 1 = semaphore, 2+w = event of w -/
def primOf (s : State) (t : Tid) : Nat :=
  match s.pc t with
  | .idle =>
    match s.prog t with
    | .push _ :: _ => 1 | .pop :: _ => 1 | .size :: _ => 1
    | _ => 0
  | .sLock w _ _ => 2 + w
  | _ => 2 + t

structure D where
  s : State
  n : Nat
  pend : List Tid := []
  post : Tid → Char := fun _ => '?'   -- which post point a thread in qPost stands at
  trace : String := ""
  multi : Bool := false
  -- round 3: the property does not fix the order in which ONE unwait_all call
  -- signals the waiters it found queued.  While such a call with >= 2 queued
  -- waiters is between its first unlink and its system_unlock (a "window"),
  -- schedule tokens naming one of those waiters are not executed (`t=`), and the
  -- hand-offs of those waiters (`+t`) are printed as a sorted SET when the
  -- window closes.  `lit` (cases `u`): tokens are taken literally, no window.
  win : Option Tid := none
  mem : List Tid := []
  dfr : List Tid := []
  lit : Bool := false

def hookOf (d : D) (t : Tid) : Char :=
  if d.s.pc t = .qPost then d.post t else hookChar d.s t

def isDone (s : State) (t : Tid) : Bool := s.pc t = .idle && (s.prog t).isEmpty

def postChar (s : State) (t : Tid) : Char :=
  match s.pc t, s.prog t with
  | .idle, .push _ :: _ => 'p' | .idle, .pop :: _ => 'g' | .idle, .size :: _ => 'z'
  | _, _ => '?'

/-- pending threads that can move now get through (lowest id first) -/
def closure : Nat → D → D
  | 0, d => d
  | fuel + 1, d =>
    let rec find : List Tid → Option (Tid × State)
      | [] => none
      | p :: ps => match step false d.s p with
        | some s' => some (p, s')
        | none => find ps
    match find (d.pend.mergeSort (· ≤ ·)) with
    | none => d
    | some (p, s') =>
      if s'.pc p = .wSleep then closure fuel { d with s := s' }
      else if d.win.isSome && d.mem.contains p then
        closure fuel { d with s := s', pend := d.pend.filter (· != p),
                              post := upd d.post p (postChar d.s p), dfr := p :: d.dfr }
      else closure fuel { d with s := s', pend := d.pend.filter (· != p),
                                  post := upd d.post p (postChar d.s p),
                                  trace := d.trace ++ s!"+{p} " }

def checkMulti (d : D) : D :=
  let ps := d.pend.map (primOf d.s)
  let rec dup : List Nat → Bool
    | [] => false
    | x :: xs => xs.contains x || dup xs
  { d with multi := d.multi || dup ps }

def grantCore (d : D) (t : Tid) : D :=
  let h := hookOf d t
  let d1 :=
    match step false d.s t with
    | none => { d with pend := t :: d.pend, trace := d.trace ++ s!"{t}{h}! " }
    | some s' =>
      if s'.pc t = .wSleep then { d with s := s', pend := t :: d.pend, trace := d.trace ++ s!"{t}{h}! " }
      else { d with s := s', post := upd d.post t (postChar d.s t), trace := d.trace ++ s!"{t}{h} " }
  checkMulti (closure (2 * d.n + 2) d1)

def atAllUnlink (s : State) (t : Tid) : Bool :=
  match s.pc t with
  | .uUnlink _ true => true
  | _ => false

/-- thread `t` is about to do the first unlink of an unwait_all that found >= 2
    waiters: the window opens.  Before it does, every member that stands at its
    flag test holding its own event mutex is run (it goes to sleep, flag clear),
    so that the waker never blocks on a member inside the window. -/
def openWin (d : D) (t : Tid) : D :=
  if d.lit || d.win.isSome || !atAllUnlink d.s t || d.s.waitq.length < 2 then d
  else
    let ms := d.s.waitq
    let pre := (ms.mergeSort (· ≤ ·)).filter fun m => d.s.pc m == .wCv && !d.pend.contains m
    let d0 := pre.foldl (fun d m => if d.multi then d else grantCore d m) d
    { d0 with win := some t, mem := ms }

/-- the waker reached its system_unlock: the window closes, the members' hand-offs are printed as a set -/
def closeWin (d : D) : D :=
  match d.win with
  | none => d
  | some w =>
    if d.s.pc w == .uUnlock then
      { d with win := none, mem := [], dfr := [],
               trace := d.trace ++ String.join ((d.dfr.mergeSort (· ≤ ·)).map fun m => s!"+{m} ") }
    else d

def inWin (d : D) (t : Tid) : Bool := d.win.isSome && d.mem.contains t

def grant (d : D) (t : Tid) : D :=
  if inWin d t then { d with trace := d.trace ++ s!"{t}= " }
  else if t ≥ d.n || isDone d.s t || d.pend.contains t then { d with trace := d.trace ++ s!"{t}- " }
  else
    let d := openWin d t
    if d.multi then d else closeWin (grantCore d t)

/-- schedule letter: the condition-variable wait of thread `t` returns spuriously
    (only a thread asleep in the condition variable can be affected) -/
def spurGrant (d : D) (t : Tid) : D :=
  if inWin d t then { d with trace := d.trace ++ s!"{t}~= " } else
  match spurious d.s t with
  | none => { d with trace := d.trace ++ s!"{t}~- " }
  | some s' => checkMulti (closure (2 * d.n + 2) { d with s := s', trace := d.trace ++ s!"{t}~ " })

/-- schedule token: digit = run thread, letter a.. = spurious return for thread 0.. -/
def token (d : D) (c : Nat) : D :=
  if c ≥ 97 then spurGrant d (c - 97) else grant d (c - 48)

def finish : Nat → D → D × String
  | 0, d => (d, "hang")
  | fuel + 1, d =>
    if d.multi then (d, "multipend") else
    let ts := List.range d.n
    if ts.all (isDone d.s) then (d, "done") else
    match ts.find? (fun t => !isDone d.s t && !d.pend.contains t && !inWin d t) with
    | none => (d, "deadlock")
    | some t => finish fuel (grant d t)

def obsStr (o : Obs) : String :=
  match o with
  | .woke f => s!"w{f}," | .popped x => s!"g{x}," | .size n => s!"z{n}," | .saved c => s!"s{c},"

def runCase (progs : List (List Op)) (q0 : List Int) (sched : List Nat) (lit : Bool := false) : String :=
  let n := progs.length
  let s0 := init (fun t => progs.getD t []) (q0.map fun x => (99, x))
  let d0 : D := { s := s0, n := n, lit := lit }
  let d1 := sched.foldl (fun d c => if d.multi then d else token d c) d0
  let d1 := { d1 with trace := d1.trace ++ "| " }
  let (d2, status) := finish 4000 d1
  let obs :=
    if status == "multipend" then "" else
    let per := (List.range n).map fun t =>
      s!"{t}:" ++ String.join ((d2.s.obs t).map obsStr) ++
        (if isDone d2.s t then s!"c{d2.s.count t}" else "") ++ ";"
    let tail :=
      if status == "done" then
        s!"wq{d2.s.waitq.length};q" ++ String.join (d2.s.queue.map fun (_, x) => s!"{x},")
      else ""
    String.join per ++ tail
  let flt := if d2.s.fault then " FAULT" else ""
  let uaf := if d2.s.uaf then " UAF" else ""
  (if lit then "u " else d2.trace) ++ "| " ++ status ++ " | " ++ obs ++ flt ++ uaf

def stepLine (_ : Unit) (line : String) : Unit × String :=
  match words line with
  | ["c", progs, ini, sched] =>
    let ps := (progs.splitOn "/").map parseProg
    let q0 := if ini == "-" then [] else (ini.splitOn ",").filterMap String.toInt?
    let sc := if sched == "-" then [] else sched.toList.map fun c => c.toNat
    ((), runCase ps q0 sc)
  | ["u", progs, ini, sched] =>
    -- unordered: the schedule is taken literally (also inside unwait_all); only what
    -- does not depend on the signalling order of unwait_all is printed
    let ps := (progs.splitOn "/").map parseProg
    let q0 := if ini == "-" then [] else (ini.splitOn ",").filterMap String.toInt?
    let sc := if sched == "-" then [] else sched.toList.map fun c => c.toNat
    ((), runCase ps q0 sc true)
  | ["e", progs, _, sched] =>
    let ps := (progs.splitOn "/").map fun p => (p.splitOn ",").filterMap Igris.C20.Ev.Drv.parseOp
    let sc := if sched == "-" then [] else sched.toList.map fun c => c.toNat
    ((), Igris.C20.Ev.Drv.runCase ps sc)
  | ["p", "premain"] =>
    -- the library used before main() (harness object with init_priority(101)): what the
    -- sequential specification says about that fixed program
    ((), "premain lock=2,1,0,1,0 save=1 fut=77 wq=0 q=7,1 ev=1,1,1,0 sem=0,1")
  | ["k", "consts"] =>
    -- what the property fixes of the constants the model embeds: a fresh safe_queue's semaphore is free
    -- (`init.sem` ≥ 1: the first operation goes through).  Round 3b: the widths of the private counters and the
    -- exact initial value read through a layout mirror are internals of the library: tags of the harness line,
    -- not compared (before: `counter=4 savecount=4 future=8 signed=1`)
    ((), s!"consts sem0={if 0 < (init (fun _ => []) []).sem then 1 else 0}")
  | "x" :: _ =>
    -- round 3b: a case whose programs need a hook point the compiled library does not have (renamed / removed):
    -- the harness runs it oracle-only (tag `point-absent`), nothing is compared
    ((), "oracle-only")
  | _ => ((), "bad-op")

end Igris.C20.Drv

def main : IO Unit := Igris.Proto.run () Igris.C20.Drv.stepLine
