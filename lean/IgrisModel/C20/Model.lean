/-
  C20 — system lock, wait queues, safe_queue: an interleaving transition system.

  One model step = what a thread does between two IGRIS_VERIF_POINTs of the
  library (igris/sync/syslock_mutex.cpp, igris/osinter/wait-linux.cpp,
  igris/osinter/wait.cpp, igris/syncxx/event.h, igris/event/safe_queue.h).
  The C++ primitives are modelled by their specification: std::recursive_mutex
  = owner + depth, std::mutex of an event = holder, condition variable = the
  waiter's program counter (`wSleep`), POSIX semaphore = counter.

  `step old s t` : thread `t` performs its next step, `none` = it cannot
  (blocked or finished).  `old = true` is the code before the two repairs
  (signal: unlock, THEN notify; system_lock_save: count ends at -1); every
  theorem about the shipped code uses `old = false`.
-/
namespace Igris.C20

abbrev Tid := Nat

inductive Op
  | lock | unlock | save | restore
  | wait (prio : Bool)
  | unwaitOne (f : Int) | unwaitAll (f : Int)
  | push (x : Int) | pop | size
  deriving DecidableEq, Repr

/-- where a thread stands inside a library call (`idle` = between calls) -/
inductive PC
  | idle
  -- wait_current_schedee
  | wEnq (prio : Bool)      -- holds the system lock, about to link its waiter
  | wUnlock                 -- about to system_unlock
  | wEvLock                 -- event.wait: about to lock the event mutex
  | wCv                     -- holds the event mutex, about to test the flag / sleep
  | wSleep                  -- asleep in the condition variable (mutex released)
  | wReacq                  -- notified: re-acquiring the event mutex
  | wEvUnlock               -- flag seen, about to unlock the event mutex
  | wRet                    -- about to read `future` and destroy the waiter
  -- unwait_one / unwait_all
  | uUnlink (f : Int) (all : Bool)          -- about to unlink the first waiter
  | sLock (w : Tid) (f : Int) (all : Bool)  -- event.signal of waiter w: lock mutex, set flag
  | sNotify (w : Tid) (f : Int) (all : Bool)
  | sUnlock (w : Tid) (f : Int) (all : Bool)
  | uUnlock                                 -- about to system_unlock
  -- safe_queue: semaphore taken and queue operation done, about to post
  | qPost
  deriving DecidableEq, Repr

structure Ev where
  flag : Bool := false
  holder : Option Tid := none
  alive : Bool := false
  deriving DecidableEq, Repr

inductive Obs
  | woke (f : Int) | popped (x : Int) | size (n : Nat) | saved (c : Int)
  deriving DecidableEq, Repr

structure State where
  -- system lock: std::recursive_mutex mtx + thread_local count
  owner : Option Tid
  depth : Nat
  count : Tid → Int
  saved : Tid → Int
  -- wait queue (dlist of waiters, identified by the waiting thread) and the waiters
  waitq : List Tid
  ev : Tid → Ev
  fut : Tid → Int
  -- safe_queue: items tagged with their producer (ghost), semaphore
  sem : Nat
  queue : List (Tid × Int)
  -- threads
  pc : Tid → PC
  prog : Tid → List Op
  obs : Tid → List Obs
  -- ghost history
  clock : Nat
  stamp : Tid → Nat          -- enqueue time of the current wait
  prio : Tid → Bool
  ulk : Tid → Bool           -- unlinked by an unwait since its last enqueue
  pushed : List (Tid × Int)  -- every push, in order
  popped : List (Tid × Int)  -- every pop, in order
  fault : Bool               -- a precondition of the library was violated (UB / assert)
  uaf : Bool                 -- an event was touched after its waiter destroyed it

def upd {α : Type} (f : Tid → α) (t : Tid) (v : α) : Tid → α :=
  fun x => if x = t then v else f x

@[simp] theorem upd_same {α} (f : Tid → α) (t : Tid) (v : α) : upd f t v t = v := by simp [upd]
@[simp] theorem upd_other {α} (f : Tid → α) (t u : Tid) (v : α) (h : u ≠ t) : upd f t v u = f u := by
  simp [upd, h]

def init (prog : Tid → List Op) (q0 : List (Tid × Int)) : State :=
  { owner := none, depth := 0, count := fun _ => 0, saved := fun _ => 0,
    waitq := [], ev := fun _ => {}, fut := fun _ => 0,
    sem := 1, queue := q0,
    pc := fun _ => .idle, prog := prog, obs := fun _ => [],
    clock := 0, stamp := fun _ => 0, prio := fun _ => false, ulk := fun _ => false,
    pushed := q0, popped := [], fault := false, uaf := false }

/-! ### system lock (syslock_mutex.cpp) -/

/-- `mtx.lock(); ++count;` — blocks while another thread owns the mutex -/
def sysLock (s : State) (t : Tid) : Option State :=
  if s.owner = none ∨ s.owner = some t then
    some { s with owner := some t, depth := s.depth + 1, count := upd s.count t (s.count t + 1) }
  else none

/-- one `mtx.unlock()` of the recursive mutex by its owner -/
def mtxUnlock (s : State) : State :=
  { s with depth := s.depth - 1, owner := if s.depth - 1 = 0 then none else s.owner }

/-- `--count; mtx.unlock();` (unlock by a non-owner is undefined behaviour: `fault`) -/
def sysUnlock (s : State) (t : Tid) : State :=
  if s.owner = some t then
    mtxUnlock { s with count := upd s.count t (s.count t - 1) }
  else { s with fault := true }

/-- the loop of system_lock_save, `n` iterations: `--count; mtx.unlock();` -/
def saveLoop (t : Tid) : Nat → State → State
  | 0, s => s
  | n + 1, s => saveLoop t n (mtxUnlock { s with count := upd s.count t (s.count t - 1) })

/-- `ret = {count}; assert(count != 0); while (count) { --count; mtx.unlock(); }`
    (before the repair: `while (count--)`, which leaves count at -1) -/
def sysSave (old : Bool) (s : State) (t : Tid) : State :=
  if s.owner = some t ∧ 0 < s.count t then
    let c := s.count t
    let s1 := saveLoop t c.toNat { s with saved := upd s.saved t c, obs := upd s.obs t (s.obs t ++ [.saved c]) }
    if old then { s1 with count := upd s1.count t (-1) } else s1
  else { s with fault := true }

/-- `mtx.lock(); count = save.count; curcount = 1; while (curcount != count) { curcount++; mtx.lock(); }`
    precondition: the thread holds nothing and `save` came from system_lock_save -/
def sysRestore (s : State) (t : Tid) : Option State :=
  if s.owner = none ∨ s.owner = some t then
    if s.count t = 0 ∧ 0 < s.saved t ∧ s.owner = none then
      some { s with owner := some t, depth := (s.saved t).toNat, count := upd s.count t (s.saved t) }
    else some { s with fault := true }
  else none

def setPc (s : State) (t : Tid) (p : PC) : State := { s with pc := upd s.pc t p }
def setEv (s : State) (w : Tid) (e : Ev) : State := { s with ev := upd s.ev w e }
/-- a waker touches the event of waiter `w` -/
def touch (s : State) (w : Tid) : State :=
  if (s.ev w).alive then s else { s with uaf := true }

/-! ### first step of a library call -/
def stepIdle (old : Bool) (s : State) (t : Tid) (op : Op) (rest : List Op) : Option State :=
  let s0 : State := { s with prog := upd s.prog t rest }
  match op with
  | .lock => sysLock s0 t
  | .unlock => some (sysUnlock s0 t)
  | .save => some (sysSave old s0 t)
  | .restore => sysRestore s0 t
  | .wait p => (sysLock s0 t).map fun s1 => setPc s1 t (.wEnq p)
  | .unwaitOne f => (sysLock s0 t).map fun s1 =>
      setPc s1 t (if s1.waitq = [] then .uUnlock else .uUnlink f false)
  | .unwaitAll f => (sysLock s0 t).map fun s1 =>
      setPc s1 t (if s1.waitq = [] then .uUnlock else .uUnlink f true)
  | .push x =>
      if 0 < s0.sem then
        some (setPc { s0 with sem := s0.sem - 1, queue := s0.queue ++ [(t, x)],
                              pushed := s0.pushed ++ [(t, x)] } t .qPost)
      else none
  | .pop =>
      if 0 < s0.sem then
        match s0.queue with
        | [] => some (setPc { s0 with sem := s0.sem - 1, fault := true } t .qPost)
        | (p, x) :: r =>
          some (setPc { s0 with sem := s0.sem - 1, queue := r, popped := s0.popped ++ [(p, x)],
                                obs := upd s0.obs t (s0.obs t ++ [.popped x]) } t .qPost)
      else none
  | .size =>
      if 0 < s0.sem then
        some (setPc { s0 with sem := s0.sem - 1,
                              obs := upd s0.obs t (s0.obs t ++ [.size s0.queue.length]) } t .qPost)
      else none

/-- after `event::signal` returned inside unwait_one / unwait_all -/
def afterSignal (s : State) (f : Int) (all : Bool) : PC :=
  if all ∧ s.waitq ≠ [] then .uUnlink f true else .uUnlock

def step (old : Bool) (s : State) (t : Tid) : Option State :=
  match s.pc t with
  | .idle =>
    match s.prog t with
    | [] => none
    | op :: rest => stepIdle old s t op rest
  | .wEnq p =>
    some (setPc { s with
        ev := upd s.ev t { flag := false, holder := none, alive := true },
        waitq := if p then t :: s.waitq else s.waitq ++ [t],
        clock := s.clock + 1, stamp := upd s.stamp t s.clock, prio := upd s.prio t p,
        ulk := upd s.ulk t false } t .wUnlock)
  | .wUnlock => some (setPc (sysUnlock s t) t .wEvLock)
  | .wEvLock =>
    if (s.ev t).holder = none then
      some (setPc (setEv s t { s.ev t with holder := some t }) t .wCv)
    else none
  | .wCv =>
    if (s.ev t).flag then some (setPc s t .wEvUnlock)
    else some (setPc (setEv s t { s.ev t with holder := none }) t .wSleep)
  | .wSleep => none
  | .wReacq =>
    if (s.ev t).holder = none then
      if (s.ev t).flag then some (setPc (setEv s t { s.ev t with holder := some t }) t .wEvUnlock)
      else some (setPc s t .wSleep)
    else none
  | .wEvUnlock => some (setPc (setEv s t { s.ev t with holder := none }) t .wRet)
  | .wRet =>
    some (setPc { s with obs := upd s.obs t (s.obs t ++ [.woke (s.fut t)]),
                         ev := upd s.ev t { s.ev t with alive := false } } t .idle)
  | .uUnlink f all =>
    match s.waitq with
    | [] => some (setPc { s with fault := true } t .uUnlock)
    | w :: r =>
      some (setPc { s with waitq := r, fut := upd s.fut w f, ulk := upd s.ulk w true } t (.sLock w f all))
  | .sLock w f all =>
    if (s.ev w).holder = none then
      let s1 := touch s w
      some (setPc (setEv s1 w { s1.ev w with holder := some t, flag := true }) t
        (if old then .sUnlock w f all else .sNotify w f all))
    else none
  | .sNotify w f all =>
    let s1 := touch s w
    let s2 := if s1.pc w = .wSleep then setPc s1 w .wReacq else s1
    some (setPc s2 t (if old then afterSignal s2 f all else .sUnlock w f all))
  | .sUnlock w f all =>
    let s1 := touch s w
    let s2 := setEv s1 w { s1.ev w with holder := none }
    some (setPc s2 t (if old then .sNotify w f all else afterSignal s2 f all))
  | .uUnlock => some (setPc (sysUnlock s t) t .idle)
  | .qPost => some (setPc { s with sem := s.sem + 1 } t .idle)

/-- a schedule is a list of thread ids; a named thread that cannot move is skipped -/
def runSched (old : Bool) : State → List Tid → State
  | s, [] => s
  | s, t :: ts => runSched old (match step old s t with | some s' => s' | none => s) ts

/-- states reachable by the shipped code from an initial state -/
inductive Reach (prog : Tid → List Op) (q0 : List (Tid × Int)) : State → Prop
  | init : Reach prog q0 (init prog q0)
  | step {s s' t} : Reach prog q0 s → step false s t = some s' → Reach prog q0 s'

def done (s : State) (t : Tid) : Bool := s.pc t = .idle ∧ s.prog t = []

end Igris.C20
