/-
  C20 — property theorems.  `Reach prog q0 s`: `s` is reachable by the shipped
  code (`step false`) from the initial state, for ANY thread programs `prog :
  Tid → List Op` (any number of threads) and ANY schedule.
-/
import IgrisModel.C20.Order
import IgrisModel.C20.EventLemmas
import IgrisModel.C20.SafeQLemmas
import IgrisModel.C20.Round3
import IgrisModel.C20.AnyOrder
namespace Igris.C20

/-! ### system lock -/

/-- the thread-local counts mirror the recursive mutex: the owner's count is the
    mutex depth (≥ 1), everybody else's count is 0, a free mutex has depth 0 -/
theorem mutex_inv {prog q0 s} (h : Reach prog q0 s) :
    (s.owner = none → s.depth = 0) ∧
    (∀ t, s.owner = some t → s.count t = (s.depth : Int) ∧ 0 < s.depth) ∧
    (∀ t, s.owner ≠ some t → s.count t = 0) :=
  ⟨(reach_MI h).free, (reach_MI h).own, (reach_MI h).other⟩

/-- mutual exclusion: two threads never both hold the system lock -/
theorem mutual_exclusion {prog q0 s} (h : Reach prog q0 s) (t u : Tid)
    (ht : 0 < s.count t) (hu : 0 < s.count u) : t = u := by
  have hm := reach_MI h
  have h1 : s.owner = some t := by
    by_cases e : s.owner = some t
    · exact e
    · have := hm.other t e; omega
  have h2 : s.owner = some u := by
    by_cases e : s.owner = some u
    · exact e
    · have := hm.other u e; omega
  rw [h1] at h2; exact Option.some.inj h2
example : ∃ s, Reach (fun t => if t = 0 then [.lock] else []) [] s ∧ 0 < s.count 0 :=
  ⟨_, Reach.step Reach.init (t := 0) rfl, by decide⟩

/-- re-entrancy: the owner's system_lock never blocks; anybody else's does -/
theorem reentrant {prog q0 s} (_h : Reach prog q0 s) (t : Tid) (ho : s.owner = some t) :
    (sysLock s t).isSome ∧ ∀ u, u ≠ t → sysLock s u = none := by
  constructor
  · simp [sysLock, ho]
  · intro u hu
    simp [sysLock, ho]
    exact fun e => hu e.symm

/-- released exactly when every nested acquisition has been undone -/
theorem release_at_depth_zero {prog q0 s} (h : Reach prog q0 s) (t : Tid) (ho : s.owner = some t) :
    ((sysUnlock s t).owner = none ↔ s.count t = 1) ∧
    ((sysUnlock s t).owner = some t ↔ 1 < s.count t) := by
  have hm := (reach_MI h).own t ho
  simp only [sysUnlock, ho, if_true, mtxUnlock]
  by_cases h1 : s.depth - 1 = 0
  · simp [h1]; omega
  · simp [h1, ho]; omega

/-- system_lock_save releases every level and leaves the count at 0 (repaired) -/
theorem save_releases_all {prog q0 s} (h : Reach prog q0 s) (t : Tid) (ho : s.owner = some t) :
    (sysSave false s t).owner = none ∧ (sysSave false s t).depth = 0 ∧
    (sysSave false s t).count t = 0 ∧ (sysSave false s t).saved t = s.count t := by
  have hm := (reach_MI h).own t ho
  have hpos : 0 < s.count t := by omega
  have hn : (s.count t).toNat = s.depth := by omega
  simp only [sysSave, ho, hpos, and_self, if_true, Bool.false_eq_true, if_false]
  rw [saveLoop_eq _ _ _ (by simp [hn])]
  simp [hn, hm.2]; omega

/-- the code before the repair left count = -1 (kernel-checked run) -/
theorem save_old_witness :
    (runSched true (init (fun t => if t = 0 then [.lock, .save] else []) []) [0, 0]).count 0 = -1 := by
  decide

/-- the library's critical sections: the wait queue is only modified by the lock owner;
    here: a state-changing step of the queue happens at pcs `wEnq` / `uUnlink`,
    and restore after save gives back exactly the saved depth -/
theorem restore_gives_back {prog q0 s s'} (_h : Reach prog q0 s) (t : Tid)
    (hfree : s.owner = none) (hc : s.count t = 0) (hs : 0 < s.saved t)
    (hr : sysRestore s t = some s') :
    s'.owner = some t ∧ s'.count t = s.saved t ∧ (s'.depth : Int) = s.saved t := by
  simp [sysRestore, hfree, hc, hs] at hr
  subst hr
  simp; omega

/-! ### wait queue and events -/

/-- the waker never touches a waiter's event after the waiter destroyed it —
    for every program, every number of threads, every schedule -/
theorem no_touch_after_destroy {prog q0 s} (h : Reach prog q0 s) : s.uaf = false :=
  (reach_CI h).noUaf

/-- while some thread is anywhere inside event::signal of waiter `w`, `w` is still
    inside wait_current_schedee before having seen its flag: the event is alive -/
theorem signal_target_alive {prog q0 s} (h : Reach prog q0 s) (k w : Tid)
    (hk : Sig w (s.pc k) = true) :
    (s.ev w).alive = true ∧ Waiting (s.pc w) = true ∧ k ≠ w :=
  ⟨sig_alive (reach_CI h) hk, ((reach_CI h).sig k w hk).2.1, ((reach_CI h).sig k w hk).1⟩

/-- the code before the repair: unlock, then notify — the waiter can leave and
    destroy the event in between (kernel-checked 12-step schedule) -/
theorem no_touch_after_destroy_old_witness :
    (runSched true (init (fun t => if t = 0 then [.wait false] else if t = 1 then [.unwaitOne 5] else []) [])
      [0, 0, 0, 1, 1, 1, 1, 0, 0, 0, 0, 1]).uaf = true := by
  decide
/-- the same schedule on the shipped code -/
example :
    (runSched false (init (fun t => if t = 0 then [.wait false] else if t = 1 then [.unwaitOne 5] else []) [])
      [0, 0, 0, 1, 1, 1, 1, 0, 0, 0, 0, 1]).uaf = false := by
  decide

/-- no spurious wake-up: a thread that has seen its flag (is leaving event.wait /
    wait_current_schedee) was unlinked by an unwait since it enqueued itself -/
theorem no_spurious_wakeup {prog q0 s} (h : Reach prog q0 s) (w : Tid)
    (hw : Seen (s.pc w) = true) : (s.ev w).flag = true ∧ s.ulk w = true := by
  have hc := reach_CI h
  have hf := hc.seen w hw
  exact ⟨hf, (hc.flagged w (seen_inwait _ hw) hf).1⟩

/-- no lost wake-up (safety form): a waiter that an unwait has unlinked either has
    its flag set, or the waker is still on its way to set it; a thread in the queue
    has not been flagged; a flagged sleeper always has its notify still to come -/
theorem no_lost_wakeup {prog q0 s} (h : Reach prog q0 s) (w : Tid) (hw : InWait (s.pc w) = true) :
    (w ∈ s.waitq ∨ s.ulk w = true →
      (w ∈ s.waitq ∧ s.ulk w = false) ∨ (s.ev w).flag = true ∨ ∃ k, IsSLock w (s.pc k) = true) ∧
    (s.pc w = .wSleep → (s.ev w).flag = true → ∃ k, IsSNotify w (s.pc k) = true) := by
  have hc := reach_CI h
  refine ⟨?_, hc.sleepnotify w⟩
  intro hq
  rcases hq with hq | hq
  · exact Or.inl ⟨hq, (hc.inq w hq).2.2⟩
  · exact Or.inr (hc.lostwake w hw hq)

/-- once the flag is set the waiter's flag test does not block -/
theorem flag_set_wait_passes (s : State) (t : Tid) (hpc : s.pc t = .wCv) (hf : (s.ev t).flag = true) :
    ∃ s', step false s t = some s' ∧ s'.pc t = .wEvUnlock := by
  simp [step, hpc, hf, setPc]

/-- the wait queue never holds a thread twice; its members are waiting, unflagged
    and not yet unlinked -/
theorem waitq_wellformed {prog q0 s} (h : Reach prog q0 s) :
    s.waitq.Nodup ∧ ∀ w, w ∈ s.waitq → Waiting (s.pc w) = true ∧ (s.ev w).flag = false ∧ s.ulk w = false :=
  ⟨(reach_CI h).nodup, (reach_CI h).inq⟩

/-- exactly one waker per unlinked waiter -/
theorem one_waker_per_waiter {prog q0 s} (h : Reach prog q0 s) (k1 k2 w : Tid)
    (h1 : Sig w (s.pc k1) = true) (h2 : Sig w (s.pc k2) = true) : k1 = k2 :=
  (reach_CI h).sigUniq k1 k2 w h1 h2

/-- unwait_one unlinks exactly the head of the queue and nobody else -/
theorem unwait_unlinks_head (s : State) (t : Tid) (f : Int) (a : Bool) (w : Tid) (r : List Tid)
    (hpc : s.pc t = .uUnlink f a) (hq : s.waitq = w :: r) :
    ∃ s', step false s t = some s' ∧ s'.waitq = r ∧ s'.ulk w = true ∧ s'.fut w = f ∧
      ∀ u, u ≠ w → s'.ulk u = s.ulk u := by
  refine ⟨_, by simp [step, hpc, hq]; rfl, ?_⟩
  simp [setPc]
  intro u hu; simp [upd, hu]

/-- the event mutex: whoever holds it is the waiter itself (testing its flag) or
    the one waker inside signal -/
theorem event_mutex_holder {prog q0 s} (h : Reach prog q0 s) (w hd : Tid)
    (hw : InWait (s.pc w) = true) (hh : (s.ev w).holder = some hd) :
    (hd = w ∧ HoldsOwn (s.pc w) = true) ∨ SigHold w (s.pc hd) = true :=
  (reach_CI h).holder w hd hw hh

/-! ### safe_queue -/

/-- FIFO linearisation: everything ever pushed = everything popped so far, in
    the same order, followed by the present content: nothing lost, duplicated
    or reordered -/
theorem queue_fifo {prog q0 s} (h : Reach prog q0 s) : s.pushed = s.popped ++ s.queue :=
  reach_QI h

/-- the popped sequence is a prefix of the pushed sequence -/
theorem popped_prefix {prog q0 s} (h : Reach prog q0 s) : s.popped <+: s.pushed := by
  rw [queue_fifo h]; exact List.prefix_append _ _

/-- per-producer order: the items of one producer come out in the order pushed -/
theorem per_producer_order {prog q0 s} (h : Reach prog q0 s) (p : Tid) :
    (s.popped.filter (·.1 = p)) <+: (s.pushed.filter (·.1 = p)) := by
  rw [queue_fifo h, List.filter_append]; exact List.prefix_append _ _

/-! ## every schedule INCLUDING spurious returns of the condition-variable wait

`ReachS`: besides "thread t runs to its next synchronisation point" the
scheduler may at any moment let the `pthread_cond_wait` of a sleeping waiter
return although nobody notified (`Act.spur`, POSIX permits it).  Everything
above holds on this larger set of schedules. -/

/-- the schedules without spurious returns are among them -/
theorem reach_is_reachS {prog q0 s} (h : Reach prog q0 s) : ReachS prog q0 s := reach_reachS h

/-- non-vacuity: a state that only a spurious return reaches (the waiter stands
    at the re-acquisition of its mutex although no unwait ran) -/
example : ∃ s, ReachS (fun t => if t = 0 then [.wait false] else []) [] s ∧ s.pc 0 = .wReacq ∧ s.ulk 0 = false :=
  ⟨runActs false (init (fun t => if t = 0 then [.wait false] else []) [])
      [.run 0, .run 0, .run 0, .run 0, .run 0, .spur 0],
   .act (a := .spur 0) (.act (a := .run 0) (.act (a := .run 0) (.act (a := .run 0) (.act (a := .run 0)
     (.act (a := .run 0) .init rfl) rfl) rfl) rfl) rfl) rfl, by decide, by decide⟩

theorem mutex_inv_spur {prog q0 s} (h : ReachS prog q0 s) :
    (s.owner = none → s.depth = 0) ∧
    (∀ t, s.owner = some t → s.count t = (s.depth : Int) ∧ 0 < s.depth) ∧
    (∀ t, s.owner ≠ some t → s.count t = 0) :=
  ⟨(reachS_MI h).free, (reachS_MI h).own, (reachS_MI h).other⟩

theorem mutual_exclusion_spur {prog q0 s} (h : ReachS prog q0 s) (t u : Tid)
    (ht : 0 < s.count t) (hu : 0 < s.count u) : t = u := by
  have hm := reachS_MI h
  have h1 : s.owner = some t := by
    by_cases e : s.owner = some t
    · exact e
    · have := hm.other t e; omega
  have h2 : s.owner = some u := by
    by_cases e : s.owner = some u
    · exact e
    · have := hm.other u e; omega
  rw [h1] at h2; exact Option.some.inj h2

/-- the waker never touches a destroyed event — also when waiters wake spuriously -/
theorem no_touch_after_destroy_spur {prog q0 s} (h : ReachS prog q0 s) : s.uaf = false :=
  (reachS_CI h).noUaf

theorem signal_target_alive_spur {prog q0 s} (h : ReachS prog q0 s) (k w : Tid)
    (hk : Sig w (s.pc k) = true) :
    (s.ev w).alive = true ∧ Waiting (s.pc w) = true ∧ k ≠ w :=
  ⟨sig_alive (reachS_CI h) hk, ((reachS_CI h).sig k w hk).2.1, ((reachS_CI h).sig k w hk).1⟩

/-- THE clause "nobody is woken spuriously" against an adversarial condition
    variable: a parked thread leaves event.wait / wait_current_schedee only after
    its own unwait — whatever spurious returns the scheduler injects -/
theorem leaves_only_after_own_unwait {prog q0 s} (h : ReachS prog q0 s) (w : Tid)
    (hw : Seen (s.pc w) = true) : (s.ev w).flag = true ∧ s.ulk w = true := by
  have hc := reachS_CI h
  have hf := hc.seen w hw
  exact ⟨hf, (hc.flagged w (seen_inwait _ hw) hf).1⟩

/-- the predicate loop: a waiter that woke (spuriously or not) while no unwait has
    unlinked it finds its flag clear and goes back to sleep -/
theorem spurious_return_sleeps_again {prog q0 s} (h : ReachS prog q0 s) (w : Tid)
    (hpc : s.pc w = .wReacq) (hu : s.ulk w = false) (hfree : (s.ev w).holder = none) :
    ∃ s', step false s w = some s' ∧ s'.pc w = .wSleep ∧ s'.obs w = s.obs w := by
  have hc := reachS_CI h
  have hf : (s.ev w).flag = false := by
    cases hfl : (s.ev w).flag with
    | false => rfl
    | true =>
      have := (hc.flagged w (by rw [hpc]; rfl) hfl).1
      rw [hu] at this; cases this
  exact ⟨setPc s w .wSleep, by simp [step, hpc, hfree, hf], by simp [setPc], rfl⟩

/-- the hand-made break `if (!m_bFlag) m_condition.wait(_lock);` (no re-test after
    the condition variable returned): one spurious return lets a waiter leave
    although nobody unlinked it (kernel-checked 7-action schedule) -/
theorem if_variant_witness :
    let s := runActsIf (init (fun t => if t = 0 then [.wait false] else []) [])
      [.run 0, .run 0, .run 0, .run 0, .run 0, .spur 0, .run 0]
    Seen (s.pc 0) = true ∧ (s.ev 0).flag = false ∧ s.ulk 0 = false ∧ 0 ∈ s.waitq := by
  decide
/-- the same schedule on the shipped code: the waiter sleeps again -/
example :
    (runActs false (init (fun t => if t = 0 then [.wait false] else []) [])
      [.run 0, .run 0, .run 0, .run 0, .run 0, .spur 0, .run 0]).pc 0 = .wSleep := by
  decide

theorem no_lost_wakeup_spur {prog q0 s} (h : ReachS prog q0 s) (w : Tid) (hw : InWait (s.pc w) = true) :
    (w ∈ s.waitq ∨ s.ulk w = true →
      (w ∈ s.waitq ∧ s.ulk w = false) ∨ (s.ev w).flag = true ∨ ∃ k, IsSLock w (s.pc k) = true) ∧
    (s.pc w = .wSleep → (s.ev w).flag = true → ∃ k, IsSNotify w (s.pc k) = true) := by
  have hc := reachS_CI h
  refine ⟨?_, hc.sleepnotify w⟩
  intro hq
  rcases hq with hq | hq
  · exact Or.inl ⟨hq, (hc.inq w hq).2.2⟩
  · exact Or.inr (hc.lostwake w hw hq)

theorem waitq_wellformed_spur {prog q0 s} (h : ReachS prog q0 s) :
    s.waitq.Nodup ∧ ∀ w, w ∈ s.waitq → Waiting (s.pc w) = true ∧ (s.ev w).flag = false ∧ s.ulk w = false :=
  ⟨(reachS_CI h).nodup, (reachS_CI h).inq⟩

theorem one_waker_per_waiter_spur {prog q0 s} (h : ReachS prog q0 s) (k1 k2 w : Tid)
    (h1 : Sig w (s.pc k1) = true) (h2 : Sig w (s.pc k2) = true) : k1 = k2 :=
  (reachS_CI h).sigUniq k1 k2 w h1 h2

theorem event_mutex_holder_spur {prog q0 s} (h : ReachS prog q0 s) (w hd : Tid)
    (hw : InWait (s.pc w) = true) (hh : (s.ev w).holder = some hd) :
    (hd = w ∧ HoldsOwn (s.pc w) = true) ∨ SigHold w (s.pc hd) = true :=
  (reachS_CI h).holder w hd hw hh

theorem queue_fifo_spur {prog q0 s} (h : ReachS prog q0 s) : s.pushed = s.popped ++ s.queue :=
  reachS_QI h

/-! ### the ORDER of the wait queue (every schedule, with spurious returns) -/

/-- the wait queue is always sorted in service order: priority waiters first,
    newest first (`move_front`); then the ordinary waiters, oldest first (`move_back`) -/
theorem waitq_order {prog q0 s} (h : ReachS prog q0 s) : s.waitq.Pairwise (Before s) :=
  (reachS_OQ h).sorted

/-- whom `unwait_one` wakes (the head, `unwait_unlinks_head`): when no prioritised
    waiter is queued it is the LONGEST WAITING thread (strictly smallest enqueue
    stamp) and nobody else in the queue is prioritised; otherwise it is a
    prioritised one, the one that enqueued last among the prioritised -/
theorem unwait_one_wakes_longest_waiting_or_prioritised {prog q0 s} (h : ReachS prog q0 s)
    (w : Tid) (r : List Tid) (hq : s.waitq = w :: r) :
    (s.prio w = false → ∀ u, u ∈ r → s.prio u = false ∧ s.stamp w < s.stamp u) ∧
    (∀ u, u ∈ r → s.prio u = true → s.prio w = true ∧ s.stamp u < s.stamp w) := by
  have hs := waitq_order h
  rw [hq, List.pairwise_cons] at hs
  constructor
  · intro hp u hu
    rcases hs.1 u hu with ⟨a, _⟩ | ⟨a, _, _⟩ | ⟨_, b, c⟩
    · rw [hp] at a; cases a
    · rw [hp] at a; cases a
    · exact ⟨b, c⟩
  · intro u hu hp
    rcases hs.1 u hu with ⟨_, b⟩ | ⟨a, _, c⟩ | ⟨_, b, _⟩
    · rw [hp] at b; cases b
    · exact ⟨a, c⟩
    · rw [hp] at b; cases b
example : ∃ s, ReachS (fun t => if t = 0 then [.wait false] else []) [] s ∧ s.waitq = [0] :=
  ⟨_, .act (a := .run 0) (.act (a := .run 0) .init rfl) rfl, by decide⟩

/-- FIFO among ordinary (priority 0) waiters: of two queued ordinary waiters the
    one in front enqueued earlier; and every queued prioritised waiter stands in
    front of every ordinary one -/
theorem fifo_among_equal_priority_partial {prog q0 s} (h : ReachS prog q0 s)
    (l1 l2 : List Tid) (a b : Tid) (hq : s.waitq = l1 ++ a :: l2) (hb : b ∈ l2) :
    (s.prio a = false → s.prio b = false ∧ s.stamp a < s.stamp b) ∧
    (s.prio b = true → s.prio a = true) := by
  have hs := waitq_order h
  rw [hq, List.pairwise_append, List.pairwise_cons] at hs
  have hab := hs.2.1.1 b hb
  constructor
  · intro hp
    rcases hab with ⟨x, _⟩ | ⟨x, _, _⟩ | ⟨_, y, z⟩
    · rw [hp] at x; cases x
    · rw [hp] at x; cases x
    · exact ⟨y, z⟩
  · intro hp
    rcases hab with ⟨x, _⟩ | ⟨x, _, _⟩ | ⟨_, y, _⟩
    · exact x
    · exact x
    · rw [hp] at y; cases y

/-- full FIFO among EQUAL priority does not hold for priority 1 (as built:
    `move_front`): of two prioritised waiters the LATER one is served first -/
theorem fifo_among_prioritised_witness :
    let s := runSched false (init (fun t => if t = 0 then [.wait true] else if t = 1 then [.wait true] else []) [])
      [0, 0, 0, 1, 1]
    s.waitq = [1, 0] ∧ s.stamp 0 < s.stamp 1 := by
  decide

/-- stamps are a faithful clock: every queued waiter enqueued before now -/
theorem waitq_stamps_fresh {prog q0 s} (h : ReachS prog q0 s) (w : Tid) (hw : w ∈ s.waitq) :
    s.stamp w < s.clock :=
  (reachS_OQ h).fresh w hw

/-! ### the semaphore of safe_queue used as a mutex -/

/-- binary semaphore as a mutex: the counter never exceeds 1, at most one thread
    is between `sem.wait()` and `sem.post()`, and the counter is 1 exactly when
    nobody is -/
theorem queue_semaphore_is_mutex {prog q0 s} (h : ReachS prog q0 s) :
    s.sem ≤ 1 ∧ (∀ t u, s.pc t = .qPost → s.pc u = .qPost → t = u) ∧
    (s.sem = 1 ↔ ∀ t, s.pc t ≠ .qPost) := by
  rcases reachS_SI h with ⟨a, b⟩ | ⟨a, k, b, c⟩
  · exact ⟨by omega, fun t _ ht _ => absurd ht (b t), fun _ => b, fun _ => a⟩
  · refine ⟨by omega, fun t u ht hu => (c t ht).trans (c u hu).symm, fun e => by omega, fun e => absurd b (e k)⟩

/-- every pushed item is popped exactly once: the i-th pop returns the i-th push
    (with its producer), for every i — so no item is popped twice or skipped —
    and when the queue is empty everything pushed has been popped -/
theorem pop_is_ith_push {prog q0 s} (h : ReachS prog q0 s) :
    (∀ i, i < s.popped.length → s.popped[i]? = s.pushed[i]?) ∧
    (s.queue = [] → s.popped = s.pushed) ∧
    s.pushed.length = s.popped.length + s.queue.length := by
  have hq := queue_fifo_spur h
  refine ⟨fun i hi => ?_, fun e => ?_, ?_⟩
  · rw [hq, List.getElem?_append_left hi]
  · rw [hq, e, List.append_nil]
  · rw [hq, List.length_append]

theorem per_producer_order_spur {prog q0 s} (h : ReachS prog q0 s) (p : Tid) :
    (s.popped.filter (·.1 = p)) <+: (s.pushed.filter (·.1 = p)) := by
  rw [queue_fifo_spur h, List.filter_append]; exact List.prefix_append _ _

/-! ## the shared event (wait / wait(timeout) / signal / reset / isset) and the semaphore

`Ev.Reach prog s`: ONE `igris::event` and ONE `igris::semaphore(1)` shared by any
number of threads running any programs, under every schedule of thread steps,
spurious condition-variable returns and time-outs of timed waits. -/

/-- the event's mutex: held exactly by the thread inside a critical section of
    wait / signal / reset, hence by at most one -/
theorem event_mutex_exclusive {prog s} (h : Ev.Reach prog s) (t u : Ev.Tid)
    (ht : Ev.Holds (s.pc t) = true) (hu : Ev.Holds (s.pc u) = true) :
    t = u ∧ s.holder = some t := by
  have hi := Ev.reach_EI h
  have a := (hi.hold t).mp ht
  have b := (hi.hold u).mp hu
  rw [a] at b
  exact ⟨Option.some.inj b, a⟩

/-- what a wait is about to return is the flag at that moment (it holds the
    mutex): `wait()` — without time-out — only ever returns with the event SET,
    whatever spurious returns happen; `wait(timeout)` returns false only while
    the event is clear -/
theorem event_wait_result_is_flag {prog s} (h : Ev.Reach prog s) (t : Ev.Tid) (timed r : Bool)
    (hpc : s.pc t = .unlock timed r) :
    s.flag = r ∧ (timed = false → r = true) ∧ s.holder = some t := by
  have hi := Ev.reach_EI h
  refine ⟨hi.ret t timed r hpc, ?_, (hi.hold t).mp (by rw [hpc]; rfl)⟩
  intro e; subst e; exact hi.plain t r hpc
example : ∃ s, Ev.Reach (fun t => if t = 0 then [.wait] else if t = 1 then [.signal] else []) s ∧
    s.pc 0 = .unlock false true :=
  ⟨_, Ev.reach_runActs .init [.run 0, .run 0, .spur 0, .run 1, .run 1, .run 1, .run 0], by decide⟩
example : ∃ s, Ev.Reach (fun t => if t = 0 then [.waitFor false] else []) s ∧ s.pc 0 = .unlock true false :=
  ⟨_, Ev.reach_runActs .init [.run 0, .run 0, .timeout 0, .run 0], by decide⟩

/-- no lost wake-up on the shared event: while the flag is set, every thread
    asleep in the condition variable has its notify_all still to come (and the
    thread about to notify has the flag set) -/
theorem event_no_lost_wakeup {prog s} (h : Ev.Reach prog s) (t : Ev.Tid)
    (hs : Ev.IsSleep (s.pc t) = true) (hf : s.flag = true) :
    ∃ k, Ev.IsNotify (s.pc k) = true ∧ s.holder = some k := by
  have hi := Ev.reach_EI h
  obtain ⟨k, hk⟩ := hi.sleepnotify t hs hf
  exact ⟨k, hk, (hi.hold k).mp (Ev.notify_holds _ hk)⟩

/-- notify_all leaves nobody asleep -/
theorem event_notify_wakes_all (s : Ev.EState) (t : Ev.Tid) (r : Bool) (hpc : s.pc t = .gNotify r) :
    ∃ s', Ev.step s t = some s' ∧ ∀ u, Ev.IsSleep (s'.pc u) = false := by
  refine ⟨_, by simp [Ev.step, hpc]; rfl, ?_⟩
  intro u
  simp only [Ev.upd]
  split
  · rfl
  · exact Ev.sleep_wake _

/-- signal() sets the flag and reports whether it was clear; reset() clears it
    and reports whether it was set (both under the mutex) -/
theorem event_signal_reset_results (s : Ev.EState) (t : Ev.Tid) (rest : List Ev.EOp)
    (hpc : s.pc t = .idle) (hfree : s.holder = none) :
    (s.prog t = .signal :: rest → ∃ s', Ev.step s t = some s' ∧ s'.flag = true ∧ s'.pc t = .gNotify (!s.flag)) ∧
    (s.prog t = .reset :: rest → ∃ s', Ev.step s t = some s' ∧ s'.flag = false ∧ s'.pc t = .rUnlock s.flag) := by
  constructor <;> intro hp <;> simp [Ev.step, hpc, hp, Ev.stepIdle, hfree, Ev.upd]

/-- semaphore accounting: value + successful waits = initial value + posts;
    `wait` blocks exactly at 0, `trywait` never blocks -/
theorem semaphore_accounting {prog s} (h : Ev.Reach prog s) (t : Ev.Tid) (rest : List Ev.EOp) :
    s.sv + s.takes = 1 + s.posts ∧
    ((Ev.stepIdle s t .sWait rest).isNone ↔ s.sv = 0) ∧ (Ev.stepIdle s t .sTry rest).isSome := by
  refine ⟨(Ev.reach_EI h).acct, ?_, ?_⟩
  · simp only [Ev.stepIdle]; split <;> simp <;> omega
  · simp only [Ev.stepIdle]; split <;> simp

/-! ## safe_queue at the grain of its real steps: FIFO FROM the semaphore's exclusion

`SQ.Reach`: sem.wait / start of the container operation (snapshot) / end of the
operation (write-back) / sem.post are separate steps; a container operation is
NOT atomic (two overlapping operations lose an update).  Any number of
producers / consumers, any programs, every schedule. -/

/-- the semaphore is a binary mutex: `sem ≤ 1`, at most one thread between
    `sem.wait()` and `sem.post()`, `sem = 1` exactly when nobody is -/
theorem safe_queue_critical_sections_exclusive {prog q0 s} (h : SQ.Reach prog q0 s) :
    s.sem ≤ 1 ∧ (∀ t u, SQ.InCS (s.pc t) = true → SQ.InCS (s.pc u) = true → t = u) ∧
    (s.sem = 1 ↔ ∀ t, SQ.InCS (s.pc t) = false) := by
  rcases (SQ.reach_QI h).excl with ⟨a, b⟩ | ⟨a, k, b, c⟩
  · refine ⟨by omega, fun t _ ht _ => ?_, fun _ => b, fun _ => a⟩
    rw [b t] at ht; cases ht
  · refine ⟨by omega, fun t u ht hu => (c t ht).trans (c u hu).symm, fun e => by omega, fun e => ?_⟩
    rw [e k] at b; cases b

/-- … therefore a running container operation always works on the CURRENT
    content, and the content is the FIFO of the history: everything pushed =
    everything popped, in order, followed by the content (nothing lost,
    duplicated or reordered); per-producer order -/
theorem safe_queue_fifo_from_exclusion {prog q0 s} (h : SQ.Reach prog q0 s) :
    (∀ t op sn, s.pc t = .mid op sn → sn = s.queue) ∧
    s.pushed = s.popped ++ s.queue ∧
    (∀ p, (s.popped.filter (·.1 = p)) <+: (s.pushed.filter (·.1 = p))) := by
  have hq := SQ.reach_QI h
  refine ⟨hq.snap, hq.fifo, fun p => ?_⟩
  rw [hq.fifo, List.filter_append]; exact List.prefix_append _ _
example : ∃ s, SQ.Reach (fun t => if t = 0 then [.push 1] else []) [] s ∧ s.pc 0 = .mid (.push 1) [] :=
  ⟨_, .step (t := 0) (.step (t := 0) .init rfl) rfl, by decide⟩

/-- WITHOUT the semaphore the same code loses an item: two pushes overlap (both
    inside the container operation at once), the second write-back overwrites
    the first (kernel-checked 6-step schedule); with the semaphore the same
    schedule keeps both -/
theorem safe_queue_without_semaphore_witness :
    let prog : SQ.Tid → List SQ.QOp := fun t => if t = 0 then [.push 1] else if t = 1 then [.push 2] else []
    let mid := SQ.runSched false (SQ.init prog []) [0, 1, 0, 1]
    let s := SQ.runSched false (SQ.init prog []) [0, 1, 0, 1, 0, 1]
    (SQ.InCS (mid.pc 0) = true ∧ SQ.InCS (mid.pc 1) = true) ∧
    s.pushed = [(0, 1), (1, 2)] ∧ s.queue = [(1, 2)] ∧ s.pushed ≠ s.popped ++ s.queue := by
  decide
example :
    let prog : SQ.Tid → List SQ.QOp := fun t => if t = 0 then [.push 1] else if t = 1 then [.push 2] else []
    (SQ.runSched true (SQ.init prog []) [0, 1, 0, 1, 0, 1, 0, 1, 1, 1, 1]).queue = [(0, 1), (1, 2)] := by
  decide

/-! ## system lock: statements over histories -/

/-- `k` consecutive system_unlock calls of thread `t` -/
def unlockN (t : Tid) : Nat → State → State
  | 0, s => s
  | k + 1, s => unlockN t k (sysUnlock s t)

theorem unlockN_spec (t : Tid) : ∀ (k : Nat) (s : State), MI s → s.owner = some t → k ≤ s.depth →
    MI (unlockN t k s) ∧ (unlockN t k s).depth = s.depth - k ∧
    (unlockN t k s).owner = (if k = s.depth then none else some t) := by
  intro k
  induction k with
  | zero =>
    intro s hm ho _
    have := (hm.own t ho).2
    refine ⟨hm, rfl, ?_⟩
    have : ¬ (0 = s.depth) := by omega
    simp [unlockN, this, ho]
  | succ k ih =>
    intro s hm ho hk
    have hd := (hm.own t ho).2
    have hm1 : MI (sysUnlock s t) := sysUnlock_MI hm
    have hdep : (sysUnlock s t).depth = s.depth - 1 := by simp [sysUnlock, ho, mtxUnlock]
    by_cases h1 : s.depth = 1
    · have hk0 : k = 0 := by omega
      subst hk0
      have ho1 : (sysUnlock s t).owner = none := by simp [sysUnlock, ho, mtxUnlock, h1]
      refine ⟨hm1, by simp [unlockN, hdep], ?_⟩
      simp [unlockN, ho1, h1]
    · have ho1 : (sysUnlock s t).owner = some t := by
        have : s.depth - 1 ≠ 0 := by omega
        simp [sysUnlock, ho, mtxUnlock, this]
      obtain ⟨a, b, c⟩ := ih (sysUnlock s t) hm1 ho1 (by rw [hdep]; omega)
      refine ⟨a, by simp only [unlockN]; rw [b, hdep]; omega, ?_⟩
      simp only [unlockN]; rw [c, hdep]
      by_cases e : k = s.depth - 1
      · have h2 : k + 1 = s.depth := by omega
        rw [if_pos e, if_pos h2]
      · have h2 : ¬ (k + 1 = s.depth) := by omega
        rw [if_neg e, if_neg h2]

/-- released only when EVERY nested acquisition has been undone, as a statement
    about histories: in any reachable state (any schedule prefix, with spurious
    returns) in which thread `t` holds the system lock at depth `d`, after any
    `k < d` of its unlocks the lock is still its own and every other thread's
    `system_lock` blocks, and after exactly `d` unlocks the lock is free and any
    thread can take it -/
theorem needs_exactly_depth_unlocks {prog q0 s} (h : ReachS prog q0 s) (t : Tid)
    (ho : s.owner = some t) (k : Nat) (hk : k ≤ s.depth) :
    (k < s.depth → (unlockN t k s).owner = some t ∧ ∀ u, u ≠ t → sysLock (unlockN t k s) u = none) ∧
    (k = s.depth → (unlockN t k s).owner = none ∧ ∀ u, (sysLock (unlockN t k s) u).isSome) := by
  obtain ⟨_, _, c⟩ := unlockN_spec t k s (reachS_MI h) ho hk
  constructor
  · intro hlt
    have : ¬ (k = s.depth) := by omega
    simp only [this, if_false] at c
    refine ⟨c, fun u hu => ?_⟩
    simp [sysLock, c]; exact fun e => hu e.symm
  · intro he
    rw [if_pos he] at c
    refine ⟨c, fun u => ?_⟩
    simp [sysLock, c]
example : ∃ s, ReachS (fun t => if t = 0 then [.lock, .lock, .lock] else []) [] s ∧ s.owner = some 0 ∧ s.depth = 3 :=
  ⟨_, .act (a := .run 0) (.act (a := .run 0) (.act (a := .run 0) .init rfl) rfl) rfl, by decide, by decide⟩

/-- after system_lock_save the preconditions of system_lock_restore hold, and the
    restore gives back exactly the depth and count the thread had: save ; restore
    is the identity on (owner, depth, count t) from every reachable state in which
    `t` owns the lock -/
theorem save_then_restore {prog q0 s} (h : ReachS prog q0 s) (t : Tid) (ho : s.owner = some t) :
    ∃ s', sysRestore (sysSave false s t) t = some s' ∧
      s'.owner = some t ∧ s'.depth = s.depth ∧ s'.count t = s.count t ∧ s'.fault = s.fault := by
  have hm := reachS_MI h
  have hown := hm.own t ho
  have hpos : 0 < s.count t := by omega
  have hn : (s.count t).toNat = s.depth := by omega
  have hd : 0 < s.depth := hown.2
  simp only [sysSave, ho, hpos, and_self, if_true, Bool.false_eq_true, if_false]
  rw [saveLoop_eq _ _ _ (by simp [hn])]
  have hz : s.count t - (s.depth : Int) = 0 := by omega
  simp [sysRestore, hn, hd, hpos, hz]


/-! ## round 3 -/

/-- the enqueue step of wait_current_schedee IS the list function `enq`
    (`move_front` for a prioritised waiter, `move_back` otherwise) -/
theorem enqueue_step_is_enq {s s' : State} {t : Tid} {p : Bool} (hpc : s.pc t = .wEnq p)
    (hs : step false s t = some s') : s'.waitq = enq s.waitq (t, p) := by
  simp only [step, hpc] at hs
  cases hs
  simp [enq, setPc]

/-- "the longest waiting, or the prioritised one", closed form for EVERY arrival
    sequence (any number of waiters, any combination of priorities): after the
    waiters `arr` (thread, prioritised?) have enqueued in this order the queue is
    the prioritised ones, newest first, followed by the ordinary ones in arrival
    order -/
theorem wait_queue_is_priority_then_fifo (arr : List (Tid × Bool)) :
    arr.foldl enq [] =
      ((arr.filter (fun a => a.2)).reverse.map (·.1)) ++ ((arr.filter (fun a => !a.2)).map (·.1)) := by
  simpa using enq_foldl arr []

/-- whom the next unwait_one wakes (the head): the LAST prioritised arrival if
    there is one, otherwise the FIRST arrival -/
theorem unwait_one_choice (arr : List (Tid × Bool)) :
    (arr.foldl enq []).head? =
      match (arr.filter (fun a => a.2)).getLast? with
      | some a => some a.1
      | none => (arr.head?).map (·.1) := by
  rw [wait_queue_is_priority_then_fifo]
  cases h : (arr.filter (fun a => a.2)).getLast? with
  | none =>
    have hn : arr.filter (fun a => a.2) = [] := List.getLast?_eq_none_iff.mp h
    have hall : arr.filter (fun a => !a.2) = arr := by
      rw [List.filter_eq_self]
      intro a ha
      have : a ∉ arr.filter (fun a => a.2) := by rw [hn]; simp
      simpa [List.mem_filter, ha] using this
    simp [hn, hall]
  | some a =>
    have hne : arr.filter (fun a => a.2) ≠ [] := by
      intro e; rw [e] at h; cases h
    obtain ⟨l, b, hb⟩ : ∃ l b, arr.filter (fun a => a.2) = l ++ [b] :=
      ⟨_, _, (List.dropLast_concat_getLast hne).symm⟩
    rw [hb] at h
    simp at h
    simp [hb, h]
example : [(0, false), (1, true), (2, false), (3, true)].foldl enq [] = [3, 1, 0, 2] := by decide

/-- the wait queue is modified by exactly two steps of the library: the enqueue
    of wait_current_schedee and the unlink of unwait_one / unwait_all (every other
    step of every thread, and every spurious return, leaves it as it is) -/
theorem waitq_modified_only_by_enqueue_and_unlink {s s' : State} {a : Act}
    (hs : act false s a = some s') (hq : s'.waitq ≠ s.waitq) :
    ∃ t, a = .run t ∧ ((∃ p, s.pc t = .wEnq p) ∨ (∃ f al, s.pc t = .uUnlink f al)) := by
  cases a with
  | run t => exact ⟨t, rfl, step_changes_waitq hs hq⟩
  | spur t =>
    simp only [act, spurious] at hs
    split at hs
    · cases hs; exact absurd rfl hq
    · cases hs

/-- safe_queue with the semaphore posted BEFORE the container operation (the
    hand-made break `sem.wait(); sem.post(); queue.push(val);`): two pushes
    overlap and an item is lost (kernel-checked 6-step schedule) -/
theorem safe_queue_post_before_operation_witness :
    let prog : SQ.Tid → List SQ.QOp := fun t => if t = 0 then [.push 1] else if t = 1 then [.push 2] else []
    let mid := SQ.runSchedPF (SQ.init prog []) [0, 0, 1, 1]
    let s := SQ.runSchedPF (SQ.init prog []) [0, 0, 1, 1, 0, 1]
    (SQ.InCS (mid.pc 0) = true ∧ SQ.InCS (mid.pc 1) = true) ∧
    s.pushed = [(0, 1), (1, 2)] ∧ s.queue = [(1, 2)] ∧ s.pushed ≠ s.popped ++ s.queue := by
  decide

/-! ### round 3b: `unwait_all` in ANY drain order; critical sections own the system lock

`stepP pick` is `step false` except that the unlink step of `unwait_all` takes `pick waitq` (any queued waiter,
`GoodPick pick : ∀ q ≠ [], pick q ∈ q`) instead of the head; `ReachP pick` = reachable under every schedule of
runs and spurious returns with that drain order.  `pick = head` is the shipped code, `pick = last` the
property-preserving change `benign/C20-b12-2`. -/

/-- the shipped first-to-last order is the instance `pick = head`: every state reachable by the shipped code
    (with spurious returns) is reachable in the generalised system -/
theorem shipped_order_is_a_drain_order {prog q0 s} (h : ReachS prog q0 s) :
    ReachP (fun q => q.headD 0) prog q0 s ∧ GoodPick (fun q => q.headD 0) ∧ GoodPick (fun q => q.getLast?.getD 0) :=
  ⟨reachS_is_reachP h, goodPick_head, goodPick_last⟩

/-- whatever order `unwait_all` drains the queue in: the counts mirror the mutex and two threads never hold the
    system lock together; no event is touched after its waiter destroyed it; the wait queue has no duplicates and
    everyone in it is parked, unflagged, not yet unlinked; a waiter that has seen its flag was unlinked by an
    unwait (no spurious wake-up); an unlinked waiter has its flag set or its waker still before setting it (no
    lost wake-up); a signal in progress has exactly one waker, its target alive and still waiting -/
theorem any_drain_order_keeps_invariants {pick prog q0 s} (hp : GoodPick pick) (h : ReachP pick prog q0 s) :
    (∀ t u, 0 < s.count t → 0 < s.count u → t = u) ∧
    s.uaf = false ∧ s.waitq.Nodup ∧
    (∀ w, w ∈ s.waitq → Waiting (s.pc w) = true ∧ (s.ev w).flag = false ∧ s.ulk w = false) ∧
    (∀ w, Seen (s.pc w) = true → (s.ev w).flag = true ∧ s.ulk w = true) ∧
    (∀ w, InWait (s.pc w) = true → s.ulk w = true → (s.ev w).flag = true ∨ ∃ k, IsSLock w (s.pc k) = true) ∧
    (∀ k w, Sig w (s.pc k) = true → k ≠ w ∧ (s.ev w).alive = true ∧ Waiting (s.pc w) = true ∧
        ∀ k', Sig w (s.pc k') = true → k' = k) := by
  have hm := reachP_MI h
  have hc := reachP_CI hp h
  refine ⟨?_, hc.noUaf, hc.nodup, hc.inq, ?_, hc.lostwake, ?_⟩
  · intro t u ht hu
    have h1 : s.owner = some t := by
      by_cases e : s.owner = some t
      · exact e
      · have := hm.other t e; omega
    have h2 : s.owner = some u := by
      by_cases e : s.owner = some u
      · exact e
      · have := hm.other u e; omega
    rw [h1] at h2; exact Option.some.inj h2
  · intro w hw
    have hf := hc.seen w hw
    exact ⟨hf, (hc.flagged w (seen_inwait _ hw) hf).1⟩
  · intro k w hk
    have a := hc.sig k w hk
    exact ⟨a.1, hc.alive w (waiting_inwait _ a.2.1), a.2.1, fun k' hk' => hc.sigUniq k' k w hk' hk⟩

/-- "critical sections own the system lock": a thread between the lock and the unlock of wait_current_schedee
    (`wEnq`, `wUnlock`) or of unwait_one / unwait_all (`uUnlink`, the three signal steps, `uUnlock`) IS the owner of
    the recursive mutex, its count is positive, and no other thread is inside such a section — every schedule,
    spurious returns, any drain order -/
theorem critical_section_owns_system_lock {pick prog q0 s} {t : Tid} (h : ReachP pick prog q0 s)
    (ht : InCS (s.pc t) = true) :
    s.owner = some t ∧ 0 < s.count t ∧ 0 < s.depth ∧ (∀ u, InCS (s.pc u) = true → u = t) ∧
    (∀ u, u ≠ t → s.count u = 0) := by
  have ho := reachP_OwnI h t ht
  have hm := reachP_MI h
  refine ⟨ho, cs_count_pos h ht, (hm.own t ho).2, fun u hu => cs_exclusive h hu ht, fun u hut => ?_⟩
  apply hm.other u
  rw [ho]; intro e; exact hut (Option.some.inj e).symm

/-- the same for the shipped code (`ReachS`) -/
theorem critical_section_owns_system_lock_shipped {prog q0 s} {t : Tid} (h : ReachS prog q0 s)
    (ht : InCS (s.pc t) = true) :
    s.owner = some t ∧ 0 < s.count t ∧ (∀ u, InCS (s.pc u) = true → u = t) := by
  have a := critical_section_owns_system_lock (reachS_is_reachP h) ht
  exact ⟨a.1, a.2.1, a.2.2.2.1⟩

example : InCS (.uUnlink 7 true) = true ∧ InCS .wUnlock = true ∧ InCS .wSleep = false ∧ InCS .idle = false := by decide

/-- while a thread is inside such a critical section, no step of another thread and no spurious return changes
    the wait queue, the woken-marks or the futures (the enqueue and the unlink need the lock) -/
theorem others_leave_wait_queue_alone {pick prog q0 s s'} {t : Tid} {a : Act} (h : ReachP pick prog q0 s)
    (ht : InCS (s.pc t) = true) (ha : a ≠ .run t) (hs : actP pick s a = some s') :
    s'.waitq = s.waitq ∧ s'.ulk = s.ulk ∧ s'.fut = s.fut ∧ s'.pc t = s.pc t := by
  cases a with
  | run u =>
    have hut : u ≠ t := fun e => ha (by rw [e])
    exact other_step_frame (reachP_OwnI h) ht hut hs
  | spur u => exact spurious_frame ht hs

/-- `unwait_all(f)` of thread `t` that found the queue `s1.waitq`, ANY drain order, every interleaving with the other
    threads and spurious returns (`During`; `ws` = the waiters the call has unlinked so far, in its order): at every
    moment of the call `ws ++ waitq` is a permutation of the queue found (nobody lost, nobody added, nobody twice),
    exactly the members of `ws` are marked woken with future `f`, nobody else's mark or future changed (no spurious
    wake), and at its system_unlock the queue is empty and `ws` is a permutation of the queue found -/
theorem unwait_all_any_order {pick prog q0} {t : Tid} {f : Int} {s1 s : State} {ws : List Tid}
    (hp : GoodPick pick)
    (hr : ReachP pick prog q0 s1) (h1 : s1.pc t = .uUnlink f true) (hd : During pick t f s1 s ws)
    (hin : InAll f (s.pc t) = true) :
    (ws ++ s.waitq).Perm s1.waitq ∧ ws.Nodup ∧
    (∀ w, w ∈ ws → s.ulk w = true ∧ s.fut w = f) ∧
    (∀ w, w ∉ ws → s.ulk w = s1.ulk w ∧ s.fut w = s1.fut w) ∧
    (s.pc t = .uUnlock → s.waitq = [] ∧ ws.Perm s1.waitq) :=
  (unwait_all_during hp hr h1 hd).2 hin

/-- the return of `unwait_all`, ANY drain order: after its system_unlock the wait queue is empty, the waiters it
    unlinked (each exactly once) are a permutation of the queue it found, every one of them is marked woken with the
    future of the call and nobody else was touched -/
theorem unwait_all_any_order_return {pick prog q0} {t : Tid} {f : Int} {s1 s s' : State} {ws : List Tid}
    (hp : GoodPick pick)
    (hr : ReachP pick prog q0 s1) (h1 : s1.pc t = .uUnlink f true) (hd : During pick t f s1 s ws)
    (hu : s.pc t = .uUnlock) (hs : stepP pick s t = some s') :
    s'.waitq = [] ∧ ws.Perm s1.waitq ∧ s'.pc t = .idle ∧
    (∀ w, w ∈ s1.waitq → s.ulk w = true ∧ s.fut w = f) ∧
    (∀ w, w ∉ s1.waitq → s.ulk w = s1.ulk w ∧ s.fut w = s1.fut w) := by
  have a := unwait_all_returns_any_order hp hr h1 hd hu hs
  have b := unwait_all_marks_at_return hp hr h1 hd hu
  exact ⟨a.1, a.2.1, a.2.2, b.1, b.2⟩

/-- the hypotheses of the two theorems above are satisfiable for EVERY pick function -/
theorem unwait_all_any_order_nonvacuous (pick : List Tid → Tid) :
    ∃ s1, ReachP pick demoProg [] s1 ∧ s1.pc 1 = .uUnlink 7 true ∧ s1.waitq = [0] ∧ During pick 1 7 s1 s1 [] :=
  hypotheses_non_vacuous pick


end Igris.C20
