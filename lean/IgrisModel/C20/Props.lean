/-
  C20 — property theorems.  `Reach prog q0 s`: `s` is reachable by the shipped
  code (`step false`) from the initial state, for ANY thread programs `prog :
  Tid → List Op` (any number of threads) and ANY schedule.
-/
import IgrisModel.C20.WaitStep
namespace Igris.C20

/-! ### system lock -/

/-- the thread-local counts mirror the recursive mutex: the owner's count is the
    mutex depth (≥ 1), everybody else's count is 0, a free mutex has depth 0 -/
theorem mutex_inv {prog q0 s} (h : Reach prog q0 s) :
    (s.owner = none → s.depth = 0) ∧
    (∀ t, s.owner = some t → s.count t = (s.depth : Int) ∧ 0 < s.depth) ∧
    (∀ t, s.owner ≠ some t → s.count t = 0) :=
  ⟨(reach_MI h).free, (reach_MI h).own, (reach_MI h).other⟩

/-- mutual exclusion: two threads never both hold the system lock -/
theorem mutual_exclusion {prog q0 s} (h : Reach prog q0 s) (t u : Tid)
    (ht : 0 < s.count t) (hu : 0 < s.count u) : t = u := by
  have hm := reach_MI h
  have h1 : s.owner = some t := by
    by_cases e : s.owner = some t
    · exact e
    · have := hm.other t e; omega
  have h2 : s.owner = some u := by
    by_cases e : s.owner = some u
    · exact e
    · have := hm.other u e; omega
  rw [h1] at h2; exact Option.some.inj h2
example : ∃ s, Reach (fun t => if t = 0 then [.lock] else []) [] s ∧ 0 < s.count 0 :=
  ⟨_, Reach.step Reach.init (t := 0) rfl, by decide⟩

/-- re-entrancy: the owner's system_lock never blocks; anybody else's does -/
theorem reentrant {prog q0 s} (_h : Reach prog q0 s) (t : Tid) (ho : s.owner = some t) :
    (sysLock s t).isSome ∧ ∀ u, u ≠ t → sysLock s u = none := by
  constructor
  · simp [sysLock, ho]
  · intro u hu
    simp [sysLock, ho]
    exact fun e => hu e.symm

/-- released exactly when every nested acquisition has been undone -/
theorem release_at_depth_zero {prog q0 s} (h : Reach prog q0 s) (t : Tid) (ho : s.owner = some t) :
    ((sysUnlock s t).owner = none ↔ s.count t = 1) ∧
    ((sysUnlock s t).owner = some t ↔ 1 < s.count t) := by
  have hm := (reach_MI h).own t ho
  simp only [sysUnlock, ho, if_true, mtxUnlock]
  by_cases h1 : s.depth - 1 = 0
  · simp [h1]; omega
  · simp [h1, ho]; omega

/-- system_lock_save releases every level and leaves the count at 0 (repaired) -/
theorem save_releases_all {prog q0 s} (h : Reach prog q0 s) (t : Tid) (ho : s.owner = some t) :
    (sysSave false s t).owner = none ∧ (sysSave false s t).depth = 0 ∧
    (sysSave false s t).count t = 0 ∧ (sysSave false s t).saved t = s.count t := by
  have hm := (reach_MI h).own t ho
  have hpos : 0 < s.count t := by omega
  have hn : (s.count t).toNat = s.depth := by omega
  simp only [sysSave, ho, hpos, and_self, if_true, Bool.false_eq_true, if_false]
  rw [saveLoop_eq _ _ _ (by simp [hn])]
  simp [hn, hm.2]; omega

/-- the code before the repair left count = -1 (kernel-checked run) -/
theorem save_old_witness :
    (runSched true (init (fun t => if t = 0 then [.lock, .save] else []) []) [0, 0]).count 0 = -1 := by
  decide

/-- the library's critical sections: the wait queue is only modified by the lock owner;
    here: a state-changing step of the queue happens at pcs `wEnq` / `uUnlink`,
    and restore after save gives back exactly the saved depth -/
theorem restore_gives_back {prog q0 s s'} (_h : Reach prog q0 s) (t : Tid)
    (hfree : s.owner = none) (hc : s.count t = 0) (hs : 0 < s.saved t)
    (hr : sysRestore s t = some s') :
    s'.owner = some t ∧ s'.count t = s.saved t ∧ (s'.depth : Int) = s.saved t := by
  simp [sysRestore, hfree, hc, hs] at hr
  subst hr
  simp; omega

/-! ### wait queue and events -/

/-- the waker never touches a waiter's event after the waiter destroyed it —
    for every program, every number of threads, every schedule -/
theorem no_touch_after_destroy {prog q0 s} (h : Reach prog q0 s) : s.uaf = false :=
  (reach_CI h).noUaf

/-- while some thread is anywhere inside event::signal of waiter `w`, `w` is still
    inside wait_current_schedee before having seen its flag: the event is alive -/
theorem signal_target_alive {prog q0 s} (h : Reach prog q0 s) (k w : Tid)
    (hk : Sig w (s.pc k) = true) :
    (s.ev w).alive = true ∧ Waiting (s.pc w) = true ∧ k ≠ w :=
  ⟨sig_alive (reach_CI h) hk, ((reach_CI h).sig k w hk).2.1, ((reach_CI h).sig k w hk).1⟩

/-- the code before the repair: unlock, then notify — the waiter can leave and
    destroy the event in between (kernel-checked 12-step schedule) -/
theorem no_touch_after_destroy_old_witness :
    (runSched true (init (fun t => if t = 0 then [.wait false] else if t = 1 then [.unwaitOne 5] else []) [])
      [0, 0, 0, 1, 1, 1, 1, 0, 0, 0, 0, 1]).uaf = true := by
  decide
/-- the same schedule on the shipped code -/
example :
    (runSched false (init (fun t => if t = 0 then [.wait false] else if t = 1 then [.unwaitOne 5] else []) [])
      [0, 0, 0, 1, 1, 1, 1, 0, 0, 0, 0, 1]).uaf = false := by
  decide

/-- no spurious wake-up: a thread that has seen its flag (is leaving event.wait /
    wait_current_schedee) was unlinked by an unwait since it enqueued itself -/
theorem no_spurious_wakeup {prog q0 s} (h : Reach prog q0 s) (w : Tid)
    (hw : Seen (s.pc w) = true) : (s.ev w).flag = true ∧ s.ulk w = true := by
  have hc := reach_CI h
  have hf := hc.seen w hw
  exact ⟨hf, (hc.flagged w (seen_inwait _ hw) hf).1⟩

/-- no lost wake-up (safety form): a waiter that an unwait has unlinked either has
    its flag set, or the waker is still on its way to set it; a thread in the queue
    has not been flagged; a flagged sleeper always has its notify still to come -/
theorem no_lost_wakeup {prog q0 s} (h : Reach prog q0 s) (w : Tid) (hw : InWait (s.pc w) = true) :
    (w ∈ s.waitq ∨ s.ulk w = true →
      (w ∈ s.waitq ∧ s.ulk w = false) ∨ (s.ev w).flag = true ∨ ∃ k, IsSLock w (s.pc k) = true) ∧
    (s.pc w = .wSleep → (s.ev w).flag = true → ∃ k, IsSNotify w (s.pc k) = true) := by
  have hc := reach_CI h
  refine ⟨?_, hc.sleepnotify w⟩
  intro hq
  rcases hq with hq | hq
  · exact Or.inl ⟨hq, (hc.inq w hq).2.2⟩
  · exact Or.inr (hc.lostwake w hw hq)

/-- once the flag is set the waiter's flag test does not block -/
theorem flag_set_wait_passes (s : State) (t : Tid) (hpc : s.pc t = .wCv) (hf : (s.ev t).flag = true) :
    ∃ s', step false s t = some s' ∧ s'.pc t = .wEvUnlock := by
  simp [step, hpc, hf, setPc]

/-- the wait queue never holds a thread twice; its members are waiting, unflagged
    and not yet unlinked -/
theorem waitq_wellformed {prog q0 s} (h : Reach prog q0 s) :
    s.waitq.Nodup ∧ ∀ w, w ∈ s.waitq → Waiting (s.pc w) = true ∧ (s.ev w).flag = false ∧ s.ulk w = false :=
  ⟨(reach_CI h).nodup, (reach_CI h).inq⟩

/-- exactly one waker per unlinked waiter -/
theorem one_waker_per_waiter {prog q0 s} (h : Reach prog q0 s) (k1 k2 w : Tid)
    (h1 : Sig w (s.pc k1) = true) (h2 : Sig w (s.pc k2) = true) : k1 = k2 :=
  (reach_CI h).sigUniq k1 k2 w h1 h2

/-- unwait_one unlinks exactly the head of the queue and nobody else -/
theorem unwait_unlinks_head (s : State) (t : Tid) (f : Int) (a : Bool) (w : Tid) (r : List Tid)
    (hpc : s.pc t = .uUnlink f a) (hq : s.waitq = w :: r) :
    ∃ s', step false s t = some s' ∧ s'.waitq = r ∧ s'.ulk w = true ∧ s'.fut w = f ∧
      ∀ u, u ≠ w → s'.ulk u = s.ulk u := by
  refine ⟨_, by simp [step, hpc, hq]; rfl, ?_⟩
  simp [setPc]
  intro u hu; simp [upd, hu]

/-- the event mutex: whoever holds it is the waiter itself (testing its flag) or
    the one waker inside signal -/
theorem event_mutex_holder {prog q0 s} (h : Reach prog q0 s) (w hd : Tid)
    (hw : InWait (s.pc w) = true) (hh : (s.ev w).holder = some hd) :
    (hd = w ∧ HoldsOwn (s.pc w) = true) ∨ SigHold w (s.pc hd) = true :=
  (reach_CI h).holder w hd hw hh

/-! ### safe_queue -/

/-- FIFO linearisation: everything ever pushed = everything popped so far, in
    the same order, followed by the present content: nothing lost, duplicated
    or reordered -/
theorem queue_fifo {prog q0 s} (h : Reach prog q0 s) : s.pushed = s.popped ++ s.queue :=
  reach_QI h

/-- the popped sequence is a prefix of the pushed sequence -/
theorem popped_prefix {prog q0 s} (h : Reach prog q0 s) : s.popped <+: s.pushed := by
  rw [queue_fifo h]; exact List.prefix_append _ _

/-- per-producer order: the items of one producer come out in the order pushed -/
theorem per_producer_order {prog q0 s} (h : Reach prog q0 s) (p : Tid) :
    (s.popped.filter (·.1 = p)) <+: (s.pushed.filter (·.1 = p)) := by
  rw [queue_fifo h, List.filter_append]; exact List.prefix_append _ _

end Igris.C20
