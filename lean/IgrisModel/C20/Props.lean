import IgrisModel.C20.Model
namespace Igris.C20
theorem placeholder : True := trivial
end Igris.C20
