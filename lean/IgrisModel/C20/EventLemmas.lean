/-
  C20 extension — invariant of the shared event / semaphore model (Event.lean)
  and its preservation by every step, spurious return and time-out.
-/
import IgrisModel.C20.Event
namespace Igris.C20.Ev

def Holds : EPC → Bool
  | .cv _ _ | .unlock _ _ | .gNotify _ | .gUnlock _ | .rUnlock _ => true
  | _ => false
def IsSleep : EPC → Bool
  | .sleep _ => true
  | _ => false
def IsNotify : EPC → Bool
  | .gNotify _ => true
  | _ => false

structure EI (s : EState) : Prop where
  /-- the event mutex is held exactly by the thread inside a critical section -/
  hold : ∀ t, Holds (s.pc t) = true ↔ s.holder = some t
  /-- the value a wait is about to return is the flag (it holds the mutex) -/
  ret : ∀ t timed r, s.pc t = .unlock timed r → s.flag = r
  /-- only a timed wait can time out -/
  untimed : ∀ t o, s.pc t = .reacq false o → o = false
  /-- wait() without time-out only ever returns with the flag set -/
  plain : ∀ t r, s.pc t = .unlock false r → r = true
  /-- no lost wake-up: while the flag is set every sleeper has its notify still to come -/
  sleepnotify : ∀ t, IsSleep (s.pc t) = true → s.flag = true → ∃ k, IsNotify (s.pc k) = true
  /-- whoever is about to notify has set the flag and nobody cleared it since -/
  notifyflag : ∀ k, IsNotify (s.pc k) = true → s.flag = true
  /-- semaphore accounting -/
  acct : s.sv + s.takes = 1 + s.posts

theorem EI_init (prog) : EI (init prog) := by
  constructor <;> simp [init, Holds, IsSleep, IsNotify]

@[grind =] theorem holds_wake (p : EPC) : Holds (wake p) = Holds p := by cases p <;> rfl
@[grind =] theorem sleep_wake (p : EPC) : IsSleep (wake p) = false := by cases p <;> rfl
@[grind =] theorem notify_wake (p : EPC) : IsNotify (wake p) = IsNotify p := by cases p <;> rfl
@[grind →] theorem wake_unlock (p : EPC) (a b) : wake p = .unlock a b → p = .unlock a b := by
  cases p <;> simp [wake]
@[grind →] theorem wake_reacq (p : EPC) (o) : wake p = .reacq false o → o = false ∨ p = .reacq false o := by
  cases p <;> simp [wake] <;> grind

@[grind →] theorem notify_holds (p : EPC) : IsNotify p = true → Holds p = true := by cases p <;> simp [IsNotify, Holds]
@[grind →] theorem sleep_notholds (p : EPC) : IsSleep p = true → Holds p = false := by cases p <;> simp [IsSleep, Holds]

syntax "ei_close" : tactic
macro_rules
  | `(tactic| ei_close) => `(tactic|
    (constructor <;> simp only [upd, addObs] <;> grind [Holds, IsSleep, IsNotify]))

theorem stepIdle_EI {s s' : EState} {t op rest} (h : EI s) (hpc : s.pc t = .idle)
    (hs : stepIdle s t op rest = some s') : EI s' := by
  obtain ⟨h1, h2, h3, h4, h5, h6, h7⟩ := h
  unfold stepIdle at hs
  dsimp only at hs
  split at hs
  all_goals (try (split at hs)) <;> first | (cases hs; done) | (cases hs; ei_close)

theorem step_EI {s s' : EState} {t} (h : EI s) (hs : step s t = some s') : EI s' := by
  unfold step at hs
  split at hs
  · rename_i hpc
    split at hs
    · cases hs
    · exact stepIdle_EI h hpc hs
  all_goals
    rename_i hpc
    obtain ⟨h1, h2, h3, h4, h5, h6, h7⟩ := h
    (repeat' split at hs) <;> first | (cases hs; done) | (cases hs; ei_close)

theorem spurious_EI {s s' : EState} {t} (h : EI s) (hs : spurious s t = some s') : EI s' := by
  unfold spurious at hs
  split at hs
  · rename_i hpc
    obtain ⟨h1, h2, h3, h4, h5, h6, h7⟩ := h
    cases hs; ei_close
  · cases hs

theorem timeout_EI {s s' : EState} {t} (h : EI s) (hs : timeout s t = some s') : EI s' := by
  unfold timeout at hs
  split at hs
  · rename_i hpc
    obtain ⟨h1, h2, h3, h4, h5, h6, h7⟩ := h
    cases hs; ei_close
  · cases hs

theorem reach_EI {prog s} (h : Reach prog s) : EI s := by
  induction h with
  | init => exact EI_init _
  | act _ hs ih =>
    rename_i a _
    cases a with
    | run t => exact step_EI ih hs
    | spur t => exact spurious_EI ih hs
    | timeout t => exact timeout_EI ih hs

theorem reach_runActs {prog s} (h : Reach prog s) (as : List Act) : Reach prog (runActs s as) := by
  induction as generalizing s with
  | nil => exact h
  | cons a as ih =>
    simp only [runActs]
    cases ha : act s a with
    | none => exact ih h
    | some s' => exact ih (.act h ha)

end Igris.C20.Ev
