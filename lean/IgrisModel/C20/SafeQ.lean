/-
  C20 extension — safe_queue at the grain of its REAL steps, with a queue
  operation that is NOT atomic:

      sem.wait();                       idle -> cs        (blocks at 0)
      queue.push(val) / front()+pop()   cs -> mid         the operation reads the container …
                                        mid -> post       … and later writes it back
      sem.post();                       post -> idle

  `std::queue` gives no guarantee when two operations overlap.  The model makes
  that concrete: an operation first takes a snapshot of the container and later
  writes back the result computed from the snapshot — two overlapping operations
  lose an update.  `useSem = false` is safe_queue WITHOUT its semaphore (used
  only by the witness).  FIFO is derived from the mutual exclusion the semaphore
  provides, not assumed.  Core Lean only.
-/
namespace Igris.C20.SQ

abbrev Tid := Nat

inductive QOp
  | push (x : Int) | pop | size
  deriving DecidableEq, Repr

inductive QPC
  | idle
  | cs (op : QOp)                              -- semaphore taken, operation not started
  | mid (op : QOp) (snap : List (Tid × Int))   -- operation in progress on a snapshot
  | post                                       -- operation finished, about to sem.post()
  deriving DecidableEq, Repr

inductive QObs
  | popped (x : Int) | size (n : Nat)
  deriving DecidableEq, Repr

structure QState where
  sem : Nat
  queue : List (Tid × Int)
  pc : Tid → QPC
  prog : Tid → List QOp
  obs : Tid → List QObs
  pushed : List (Tid × Int)   -- ghost: every completed push, in completion order
  popped : List (Tid × Int)   -- ghost: every completed pop
  fault : Bool                -- pop on an empty container (precondition of std::queue::front)

def upd {α : Type} (f : Tid → α) (t : Tid) (v : α) : Tid → α :=
  fun x => if x = t then v else f x

def init (prog : Tid → List QOp) (q0 : List (Tid × Int)) : QState :=
  { sem := 1, queue := q0, pc := fun _ => .idle, prog := prog, obs := fun _ => [],
    pushed := q0, popped := [], fault := false }

def step (useSem : Bool) (s : QState) (t : Tid) : Option QState :=
  match s.pc t with
  | .idle =>
    match s.prog t with
    | [] => none
    | op :: rest =>
      if useSem then
        if 0 < s.sem then some { s with sem := s.sem - 1, prog := upd s.prog t rest, pc := upd s.pc t (.cs op) }
        else none
      else some { s with prog := upd s.prog t rest, pc := upd s.pc t (.cs op) }
  | .cs op => some { s with pc := upd s.pc t (.mid op s.queue) }
  | .mid (.push x) snap =>
    some { s with queue := snap ++ [(t, x)], pushed := s.pushed ++ [(t, x)], pc := upd s.pc t .post }
  | .mid .pop snap =>
    match snap with
    | [] => some { s with fault := true, pc := upd s.pc t .post }
    | (p, x) :: r =>
      some { s with queue := r, popped := s.popped ++ [(p, x)],
                    obs := upd s.obs t (s.obs t ++ [.popped x]), pc := upd s.pc t .post }
  | .mid .size snap =>
    some { s with obs := upd s.obs t (s.obs t ++ [.size snap.length]), pc := upd s.pc t .post }
  | .post => some { s with sem := if useSem then s.sem + 1 else s.sem, pc := upd s.pc t .idle }

def runSched (useSem : Bool) : QState → List Tid → QState
  | s, [] => s
  | s, t :: ts => runSched useSem (match step useSem s t with | some s' => s' | none => s) ts

/-- the hand-made break `sem.wait(); sem.post(); queue.push(val);` — the semaphore
    is posted BEFORE the container operation instead of after it (used only by a
    witness theorem; round 3) -/
def stepPF (s : QState) (t : Tid) : Option QState :=
  match s.pc t with
  | .cs op => some { s with sem := s.sem + 1, pc := upd s.pc t (.mid op s.queue) }
  | .post => some { s with pc := upd s.pc t .idle }
  | _ => step true s t

def runSchedPF : QState → List Tid → QState
  | s, [] => s
  | s, t :: ts => runSchedPF (match stepPF s t with | some s' => s' | none => s) ts

/-- reachable by safe_queue as shipped (with its semaphore) -/
inductive Reach (prog : Tid → List QOp) (q0 : List (Tid × Int)) : QState → Prop
  | init : Reach prog q0 (init prog q0)
  | step {s s' t} : Reach prog q0 s → step true s t = some s' → Reach prog q0 s'

end Igris.C20.SQ
