/-
  C20 extension — safe_queue at fine grain: the semaphore gives mutual exclusion
  of the critical sections, the exclusion makes every snapshot current, and THAT
  gives FIFO.
-/
import IgrisModel.C20.SafeQ
namespace Igris.C20.SQ

/-- between sem.wait() and sem.post() -/
def InCS : QPC → Bool
  | .idle => false
  | _ => true

structure QI (s : QState) : Prop where
  /-- binary semaphore: free and nobody inside, or taken by exactly one thread inside -/
  excl : (s.sem = 1 ∧ ∀ t, InCS (s.pc t) = false) ∨
         (s.sem = 0 ∧ ∃ t, InCS (s.pc t) = true ∧ ∀ u, InCS (s.pc u) = true → u = t)
  /-- hence nobody changed the container since a running operation took its snapshot -/
  snap : ∀ t op sn, s.pc t = .mid op sn → sn = s.queue
  /-- hence the container is the FIFO of the history -/
  fifo : s.pushed = s.popped ++ s.queue

theorem QI_init (prog q0) : QI (init prog q0) := by
  constructor <;> simp [init, InCS]

theorem step_QI {s s' : QState} {t} (h : QI s) (hs : step true s t = some s') : QI s' := by
  obtain ⟨h1, h2, h3⟩ := h
  unfold step at hs
  split at hs
  · -- idle: sem.wait()
    rename_i hpc
    split at hs
    · cases hs
    · rename_i op rest hp
      simp only [if_true] at hs
      split at hs
      · rename_i hpos
        cases hs
        rcases h1 with ⟨a, b⟩ | ⟨a, _⟩
        · refine ⟨Or.inr ⟨by simp; omega, t, by simp [upd, InCS], ?_⟩, ?_, h3⟩
          · intro u hu
            by_cases e : u = t
            · exact e
            · simp [upd, e, b u] at hu
          · intro u op sn hu
            by_cases e : u = t
            · subst e; simp [upd] at hu
            · simp only [upd, e, if_false] at hu
              exact h2 u op sn hu
        · omega
      · cases hs
  · -- cs: the operation starts and takes its snapshot
    rename_i op hpc
    cases hs
    refine ⟨?_, ?_, h3⟩
    · rcases h1 with ⟨_, b⟩ | ⟨a, k, b, c⟩
      · have := b t; rw [hpc] at this; simp [InCS] at this
      · have hk : t = k := c t (by rw [hpc]; rfl)
        subst hk
        refine Or.inr ⟨a, t, by simp [upd, InCS], ?_⟩
        intro u hu
        by_cases e : u = t
        · exact e
        · simp only [upd, e, if_false] at hu; exact c u hu
    · intro u op' sn hu
      by_cases e : u = t
      · subst e; simp [upd] at hu; exact hu.2.symm
      · simp only [upd, e, if_false] at hu
        exact h2 u op' sn hu
  all_goals
    rename_i hpc
    -- t is THE thread inside: every other thread is idle
    have huniq : ∀ u, u ≠ t → InCS (s.pc u) = false := by
      intro u hu
      rcases h1 with ⟨_, b⟩ | ⟨_, k, _, c⟩
      · exact b u
      · have hk : t = k := c t (by rw [hpc]; rfl)
        cases hc : InCS (s.pc u) with
        | false => rfl
        | true => exact absurd ((c u hc).trans hk.symm) hu
    have hsem : s.sem = 0 := by
      rcases h1 with ⟨_, b⟩ | ⟨a, _⟩
      · have := b t; rw [hpc] at this; simp [InCS] at this
      · exact a
    have hothers : ∀ u op sn, u ≠ t → s.pc u ≠ .mid op sn := by
      intro u op sn hu e
      have := huniq u hu; rw [e] at this; simp [InCS] at this
  · -- push completes
    rename_i x snap
    cases hs
    have hsn := h2 t _ _ hpc
    refine ⟨Or.inr ⟨hsem, t, by simp [upd, InCS], ?_⟩, ?_, ?_⟩
    · intro u hu
      by_cases e : u = t
      · exact e
      · simp [upd, e, huniq u e] at hu
    · intro u op sn hu
      by_cases e : u = t
      · subst e; simp [upd] at hu
      · simp only [upd, e, if_false] at hu; exact absurd hu (hothers u op sn e)
    · show s.pushed ++ [(t, x)] = s.popped ++ (snap ++ [(t, x)])
      rw [h3, hsn, List.append_assoc]
  · -- pop
    rename_i snap
    have hsn := h2 t _ _ hpc
    split at hs
    · cases hs
      refine ⟨Or.inr ⟨hsem, t, by simp [upd, InCS], ?_⟩, ?_, h3⟩
      · intro u hu
        by_cases e : u = t
        · exact e
        · simp [upd, e, huniq u e] at hu
      · intro u op sn hu
        by_cases e : u = t
        · subst e; simp [upd] at hu
        · simp only [upd, e, if_false] at hu; exact absurd hu (hothers u op sn e)
    · rename_i p x r
      cases hs
      refine ⟨Or.inr ⟨hsem, t, by simp [upd, InCS], ?_⟩, ?_, ?_⟩
      · intro u hu
        by_cases e : u = t
        · exact e
        · simp [upd, e, huniq u e] at hu
      · intro u op sn hu
        by_cases e : u = t
        · subst e; simp [upd] at hu
        · simp only [upd, e, if_false] at hu; exact absurd hu (hothers u op sn e)
      · show s.pushed = (s.popped ++ [(p, x)]) ++ r
        rw [h3, ← hsn]; simp
  · -- size
    rename_i snap
    cases hs
    refine ⟨Or.inr ⟨hsem, t, by simp [upd, InCS], ?_⟩, ?_, h3⟩
    · intro u hu
      by_cases e : u = t
      · exact e
      · simp [upd, e, huniq u e] at hu
    · intro u op sn hu
      by_cases e : u = t
      · subst e; simp [upd] at hu
      · simp only [upd, e, if_false] at hu; exact absurd hu (hothers u op sn e)
  · -- sem.post()
    cases hs
    refine ⟨Or.inl ⟨by simp [hsem], ?_⟩, ?_, h3⟩
    · intro u
      by_cases e : u = t
      · subst e; simp [upd, InCS]
      · simp [upd, e, huniq u e]
    · intro u op sn hu
      by_cases e : u = t
      · subst e; simp [upd] at hu
      · simp only [upd, e, if_false] at hu; exact absurd hu (hothers u op sn e)

theorem reach_QI {prog q0 s} (h : Reach prog q0 s) : QI s := by
  induction h with
  | init => exact QI_init _ _
  | step _ hs ih => exact step_QI ih hs

end Igris.C20.SQ
