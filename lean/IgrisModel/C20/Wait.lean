import IgrisModel.C20.Lemmas
namespace Igris.C20

/-! ## wait queue / event invariant (shipped code) -/

/-- enqueued, has not yet seen its flag -/
def Waiting : PC → Bool
  | .wUnlock | .wEvLock | .wCv | .wSleep | .wReacq => true
  | _ => false
/-- between the enqueue and the destruction of the waiter: the event exists -/
def InWait : PC → Bool
  | .wUnlock | .wEvLock | .wCv | .wSleep | .wReacq | .wEvUnlock | .wRet => true
  | _ => false
/-- inside event::signal of waiter `w` -/
def Sig (w : Tid) : PC → Bool
  | .sLock w' _ _ | .sNotify w' _ _ | .sUnlock w' _ _ => w' == w
  | _ => false
/-- inside event::signal of waiter `w`, holding its mutex -/
def SigHold (w : Tid) : PC → Bool
  | .sNotify w' _ _ | .sUnlock w' _ _ => w' == w
  | _ => false
def IsSLock (w : Tid) : PC → Bool
  | .sLock w' _ _ => w' == w
  | _ => false
def IsSNotify (w : Tid) : PC → Bool
  | .sNotify w' _ _ => w' == w
  | _ => false
def IsSUnlock (w : Tid) : PC → Bool
  | .sUnlock w' _ _ => w' == w
  | _ => false
def HoldsOwn : PC → Bool
  | .wCv | .wEvUnlock => true
  | _ => false
def Seen : PC → Bool
  | .wEvUnlock | .wRet => true
  | _ => false

structure CI (s : State) : Prop where
  nodup : s.waitq.Nodup
  inq : ∀ w, w ∈ s.waitq → Waiting (s.pc w) = true ∧ (s.ev w).flag = false ∧ s.ulk w = false
  alive : ∀ w, InWait (s.pc w) = true → (s.ev w).alive = true
  sig : ∀ k w, Sig w (s.pc k) = true → k ≠ w ∧ Waiting (s.pc w) = true ∧ s.ulk w = true
  sigLock : ∀ k w, IsSLock w (s.pc k) = true → (s.ev w).flag = false
  sigHold : ∀ k w, SigHold w (s.pc k) = true → (s.ev w).holder = some k ∧ (s.ev w).flag = true
  sigUniq : ∀ k1 k2 w, Sig w (s.pc k1) = true → Sig w (s.pc k2) = true → k1 = k2
  holder : ∀ w h, InWait (s.pc w) = true → (s.ev w).holder = some h →
    (h = w ∧ HoldsOwn (s.pc w) = true) ∨ SigHold w (s.pc h) = true
  own : ∀ w, HoldsOwn (s.pc w) = true → (s.ev w).holder = some w
  seen : ∀ w, Seen (s.pc w) = true → (s.ev w).flag = true
  flagged : ∀ w, InWait (s.pc w) = true → (s.ev w).flag = true →
    s.ulk w = true ∧ ∀ k, IsSLock w (s.pc k) = false
  lostwake : ∀ w, InWait (s.pc w) = true → s.ulk w = true →
    (s.ev w).flag = true ∨ ∃ k, IsSLock w (s.pc k) = true
  sleepnotify : ∀ w, s.pc w = .wSleep → (s.ev w).flag = true → ∃ k, IsSNotify w (s.pc k) = true
  unl : ∀ k w, IsSUnlock w (s.pc k) = true → s.pc w ≠ .wSleep
  noUaf : s.uaf = false

theorem CI_init (prog q0) : CI (init prog q0) := by
  constructor <;> simp [init, Waiting, InWait, Sig, SigHold, IsSLock, IsSNotify, IsSUnlock, HoldsOwn, Seen]

theorem CI_congr {s s' : State} (h : CI s) (h1 : s'.pc = s.pc) (h2 : s'.waitq = s.waitq) (h3 : s'.ev = s.ev)
    (h4 : s'.ulk = s.ulk) (h5 : s'.uaf = s.uaf) : CI s' := by
  constructor
  · rw [h2]; exact h.nodup
  · rw [h1, h2, h3, h4]; exact h.inq
  · rw [h1, h3]; exact h.alive
  · rw [h1, h4]; exact h.sig
  · rw [h1, h3]; exact h.sigLock
  · rw [h1, h3]; exact h.sigHold
  · rw [h1]; exact h.sigUniq
  · rw [h1, h3]; exact h.holder
  · rw [h1, h3]; exact h.own
  · rw [h1, h3]; exact h.seen
  · rw [h1, h3, h4]; exact h.flagged
  · rw [h1, h3, h4]; exact h.lostwake
  · rw [h1, h3]; exact h.sleepnotify
  · rw [h1]; exact h.unl
  · rw [h5]; exact h.noUaf

@[grind →] theorem waiting_inwait (p : PC) : Waiting p = true → InWait p = true := by cases p <;> simp [Waiting, InWait]
@[grind →] theorem holdsown_inwait (p : PC) : HoldsOwn p = true → InWait p = true := by cases p <;> simp [HoldsOwn, InWait]
@[grind →] theorem holdsown_notsleep (p : PC) : HoldsOwn p = true → p ≠ .wSleep := by cases p <;> simp [HoldsOwn]
@[grind →] theorem seen_inwait (p : PC) : Seen p = true → InWait p = true := by cases p <;> simp [Seen, InWait]
@[grind →] theorem seen_notwaiting (p : PC) : Seen p = true → Waiting p = false := by cases p <;> simp [Seen, Waiting]
@[grind →] theorem sighold_sig (w) (p : PC) : SigHold w p = true → Sig w p = true := by cases p <;> simp [SigHold, Sig]
@[grind →] theorem sighold_cases (w) (p : PC) : SigHold w p = true → IsSNotify w p = true ∨ IsSUnlock w p = true := by
  cases p <;> simp [SigHold, IsSNotify, IsSUnlock]
@[grind →] theorem sig_cases (w) (p : PC) : Sig w p = true → IsSLock w p = true ∨ SigHold w p = true := by
  cases p <;> simp [SigHold, IsSLock, Sig]
@[grind →] theorem slock_sig (w) (p : PC) : IsSLock w p = true → Sig w p = true := by cases p <;> simp [IsSLock, Sig]
theorem slock_nothold (w w') (p : PC) : IsSLock w p = true → SigHold w' p = true → False := by cases p <;> simp [IsSLock, SigHold]
grind_pattern slock_nothold => IsSLock w p, SigHold w' p
@[grind →] theorem snotify_hold (w) (p : PC) : IsSNotify w p = true → SigHold w p = true := by cases p <;> simp [IsSNotify, SigHold]
@[grind →] theorem sunlock_hold (w) (p : PC) : IsSUnlock w p = true → SigHold w p = true := by cases p <;> simp [IsSUnlock, SigHold]
theorem snotify_notunlock (w w') (p : PC) : IsSNotify w p = true → IsSUnlock w' p = true → False := by cases p <;> simp [IsSNotify, IsSUnlock]
grind_pattern snotify_notunlock => IsSNotify w p, IsSUnlock w' p
@[grind →] theorem sig_notinwait (w) (p : PC) : Sig w p = true → InWait p = false := by cases p <;> simp [Sig, InWait]
@[grind →] theorem sig_fun (w w') (p : PC) : Sig w p = true → Sig w' p = true → w = w' := by
  cases p <;> simp [Sig] <;> intro h1 h2 <;> rw [← h1, ← h2]
@[grind →] theorem snotify_sig (w) (p : PC) : IsSNotify w p = true → Sig w p = true := by cases p <;> simp [IsSNotify, Sig]
@[grind →] theorem sunlock_sig (w) (p : PC) : IsSUnlock w p = true → Sig w p = true := by cases p <;> simp [IsSUnlock, Sig]
@[grind =] theorem sleep_waiting : Waiting .wSleep = true := rfl
@[grind =] theorem sleep_inwait : InWait .wSleep = true := rfl
@[grind =] theorem sleep_sig (w) : Sig w .wSleep = false := rfl

end Igris.C20
