import IgrisModel.C20.Model
namespace Igris.C20

/-! ## the mutex / count invariant -/

structure MI (s : State) : Prop where
  free : s.owner = none → s.depth = 0
  own : ∀ t, s.owner = some t → s.count t = (s.depth : Int) ∧ 0 < s.depth
  other : ∀ t, s.owner ≠ some t → s.count t = 0

theorem MI_init (prog q0) : MI (init prog q0) := by
  constructor <;> simp [init]

theorem sysLock_MI {s s' : State} {t : Tid} (h : MI s) (hs : sysLock s t = some s') : MI s' := by
  unfold sysLock at hs
  split at hs
  · rename_i ho
    cases hs
    constructor
    · simp
    · intro u hu
      simp at hu; subst hu
      simp
      rcases ho with ho | ho
      · have := h.free ho; have := h.other t (by simp [ho]); omega
      · have := (h.own t ho).1; omega
    · intro u hu
      simp at hu
      have hne : u ≠ t := fun e => hu (by rw [e])
      simp [upd, hne]
      rcases ho with ho | ho
      · exact h.other u (by simp [ho])
      · exact h.other u (by rw [ho]; simpa using fun e => hne e.symm)
  · cases hs

theorem mtxUnlock_owner_count {s : State} {t : Tid} (hown : s.owner = some t)
    (hc : s.count t + 1 = (s.depth : Int)) (hd : 0 < s.depth)
    (hoth : ∀ u, u ≠ t → s.count u = 0) : MI (mtxUnlock s) := by
  constructor
  · intro ho
    simp [mtxUnlock] at ho ⊢
    by_cases h0 : s.depth - 1 = 0
    · exact h0
    · simp [h0, hown] at ho
  · intro u hu
    simp [mtxUnlock] at hu ⊢
    by_cases h0 : s.depth - 1 = 0
    · simp [h0] at hu
    · simp [h0, hown] at hu; subst hu
      constructor <;> omega
  · intro u hu
    simp [mtxUnlock] at hu ⊢
    by_cases h0 : s.depth - 1 = 0
    · by_cases hut : u = t
      · subst hut; omega
      · exact hoth u hut
    · simp [h0, hown] at hu
      exact hoth u (fun e => hu e.symm)

theorem sysUnlock_MI {s : State} {t : Tid} (h : MI s) : MI (sysUnlock s t) := by
  unfold sysUnlock
  split
  · rename_i ho
    apply mtxUnlock_owner_count (t := t)
    · exact ho
    · have := (h.own t ho).1; simp; omega
    · exact (h.own t ho).2
    · intro u hu
      simp [upd, hu]
      exact h.other u (by rw [ho]; simpa using fun e => hu e.symm)
  · exact ⟨h.free, h.own, h.other⟩

theorem upd_upd {α} (f : Tid → α) (t : Tid) (a b : α) : upd (upd f t a) t b = upd f t b := by
  funext x; simp [upd]; split <;> rfl

theorem upd_self {α} (f : Tid → α) (t : Tid) : upd f t (f t) = f := by
  funext x; simp [upd]; intro h; rw [h]

/-- the loop of system_lock_save in closed form -/
theorem saveLoop_eq (t : Tid) : ∀ (n : Nat) (s : State), n ≤ s.depth →
    saveLoop t n s = { s with depth := s.depth - n, count := upd s.count t (s.count t - n),
                              owner := if 0 < n ∧ s.depth - n = 0 then none else s.owner } := by
  intro n
  induction n with
  | zero => intro s _; simp [saveLoop, upd_self]
  | succ n ih =>
    intro s hn
    simp only [saveLoop]
    rw [ih _ (by simp [mtxUnlock]; omega)]
    simp only [mtxUnlock, upd_upd, upd_same]
    congr 1
    · by_cases h1 : s.depth - 1 = 0
      · have : n = 0 := by omega
        subst this; simp [h1]
      · simp only [h1, if_false]
        by_cases hn0 : n = 0
        · subst hn0; simp; intro h; omega
        · have e : s.depth - 1 - n = s.depth - (n + 1) := by omega
          have : 0 < n := by omega
          simp [e, this]
    · omega
    · funext x; simp only [upd]; split
      · omega
      · rfl

theorem sysSave_MI {s : State} {t : Tid} (h : MI s) : MI (sysSave false s t) := by
  unfold sysSave
  split
  · rename_i hc
    obtain ⟨ho, hpos⟩ := hc
    have hcd := (h.own t ho).1
    have hn : (s.count t).toNat = s.depth := by omega
    simp only [Bool.false_eq_true, if_false]
    rw [saveLoop_eq _ _ _ (by simp [hn])]
    have hd : 0 < s.depth := (h.own t ho).2
    constructor
    · intro _; simp [hn]
    · intro u hu; simp [hn, hd] at hu
    · intro u _
      simp only [upd]
      split
      · simp [hn, hcd]
      · rename_i hne
        exact h.other u (by rw [ho]; simpa using fun e => hne e.symm)
  · exact ⟨h.free, h.own, h.other⟩

theorem sysRestore_MI {s s' : State} {t : Tid} (h : MI s) (hs : sysRestore s t = some s') : MI s' := by
  unfold sysRestore at hs
  split at hs
  · split at hs
    · rename_i hc
      obtain ⟨h0, hsv, hfree⟩ := hc
      cases hs
      constructor
      · simp
      · intro u hu
        simp at hu; subst hu
        simp; omega
      · intro u hu
        simp at hu
        have hne : u ≠ t := fun e => hu (by rw [e])
        simp [upd, hne]
        exact h.other u (by simp [hfree])
    · cases hs; exact ⟨h.free, h.own, h.other⟩
  · cases hs

theorem MI_congr {s s' : State} (h : MI s) (ho : s'.owner = s.owner) (hd : s'.depth = s.depth)
    (hc : s'.count = s.count) : MI s' := by
  constructor
  · rw [ho, hd]; exact h.free
  · intro t; rw [ho, hd, hc]; exact h.own t
  · intro t; rw [ho, hc]; exact h.other t

theorem stepIdle_MI {s s' : State} {t : Tid} {op rest} (h : MI s)
    (hs : stepIdle false s t op rest = some s') : MI s' := by
  have h0 : MI { s with prog := upd s.prog t rest } := MI_congr h rfl rfl rfl
  unfold stepIdle at hs
  dsimp only at hs
  split at hs
  · exact sysLock_MI h0 hs
  · cases hs; exact sysUnlock_MI h0
  · cases hs; exact sysSave_MI h0
  · exact sysRestore_MI h0 hs
  all_goals first
    | (simp only [Option.map_eq_some_iff] at hs
       obtain ⟨s1, h1, rfl⟩ := hs
       exact MI_congr (sysLock_MI h0 h1) rfl rfl rfl)
    | (split at hs
       · first
         | (cases hs; exact MI_congr h rfl rfl rfl)
         | (split at hs <;> (cases hs; exact MI_congr h rfl rfl rfl))
       · cases hs)

theorem setPc_MI {s : State} {t p} (h : MI s) : MI (setPc s t p) := MI_congr h rfl rfl rfl
theorem setEv_MI {s : State} {w e} (h : MI s) : MI (setEv s w e) := MI_congr h rfl rfl rfl
theorem touch_MI {s : State} {w} (h : MI s) : MI (touch s w) := by
  unfold touch; split
  · exact h
  · exact MI_congr h rfl rfl rfl

theorem step_MI {s s' : State} {t : Tid} (h : MI s) (hs : step false s t = some s') : MI s' := by
  unfold step at hs
  split at hs
  · split at hs
    · cases hs
    · exact stepIdle_MI h hs
  all_goals
    (try dsimp only at hs)
    (repeat' split at hs)
  all_goals first
    | (cases hs; done)
    | (cases hs
       repeat (first
         | exact h
         | exact sysUnlock_MI h
         | apply setPc_MI
         | apply setEv_MI
         | apply touch_MI
         | exact MI_congr h rfl rfl rfl
         | split))

theorem reach_MI {prog q0 s} (h : Reach prog q0 s) : MI s := by
  induction h with
  | init => exact MI_init _ _
  | step _ hs ih => exact step_MI ih hs

/-! ## safe_queue: pushed = popped ++ queue -/

def QI (s : State) : Prop := s.pushed = s.popped ++ s.queue

theorem QI_congr {s s' : State} (h : QI s) (h1 : s'.pushed = s.pushed) (h2 : s'.popped = s.popped)
    (h3 : s'.queue = s.queue) : QI s' := by
  unfold QI at *; rw [h1, h2, h3]; exact h

theorem saveLoop_frame (t : Tid) (n : Nat) (s : State) (hn : n ≤ s.depth) :
    (saveLoop t n s).pushed = s.pushed ∧ (saveLoop t n s).popped = s.popped ∧
    (saveLoop t n s).queue = s.queue ∧ (saveLoop t n s).sem = s.sem ∧ (saveLoop t n s).pc = s.pc ∧
    (saveLoop t n s).waitq = s.waitq ∧ (saveLoop t n s).ev = s.ev ∧ (saveLoop t n s).ulk = s.ulk ∧
    (saveLoop t n s).uaf = s.uaf ∧ (saveLoop t n s).prio = s.prio ∧ (saveLoop t n s).stamp = s.stamp := by
  rw [saveLoop_eq t n s hn]; simp

theorem sysLock_frame {s s' : State} {t} (hs : sysLock s t = some s') :
    s'.pushed = s.pushed ∧ s'.popped = s.popped ∧ s'.queue = s.queue ∧ s'.sem = s.sem ∧ s'.pc = s.pc ∧
    s'.waitq = s.waitq ∧ s'.ev = s.ev ∧ s'.ulk = s.ulk ∧ s'.uaf = s.uaf ∧ s'.prio = s.prio ∧
    s'.stamp = s.stamp ∧ s'.prog = s.prog := by
  unfold sysLock at hs; split at hs
  · cases hs; simp
  · cases hs

theorem sysUnlock_frame (s : State) (t) :
    (sysUnlock s t).pushed = s.pushed ∧ (sysUnlock s t).popped = s.popped ∧ (sysUnlock s t).queue = s.queue ∧
    (sysUnlock s t).sem = s.sem ∧ (sysUnlock s t).pc = s.pc ∧ (sysUnlock s t).waitq = s.waitq ∧
    (sysUnlock s t).ev = s.ev ∧ (sysUnlock s t).ulk = s.ulk ∧ (sysUnlock s t).uaf = s.uaf ∧
    (sysUnlock s t).prio = s.prio ∧ (sysUnlock s t).stamp = s.stamp ∧ (sysUnlock s t).prog = s.prog := by
  unfold sysUnlock mtxUnlock; split <;> simp

theorem sysRestore_frame {s s' : State} {t} (hs : sysRestore s t = some s') :
    s'.pushed = s.pushed ∧ s'.popped = s.popped ∧ s'.queue = s.queue ∧ s'.sem = s.sem ∧ s'.pc = s.pc ∧
    s'.waitq = s.waitq ∧ s'.ev = s.ev ∧ s'.ulk = s.ulk ∧ s'.uaf = s.uaf ∧ s'.prio = s.prio ∧
    s'.stamp = s.stamp ∧ s'.prog = s.prog := by
  unfold sysRestore at hs; split at hs
  · split at hs <;> (cases hs; simp)
  · cases hs

theorem sysSave_frame (s : State) (t) (h : MI s) :
    (sysSave false s t).pushed = s.pushed ∧ (sysSave false s t).popped = s.popped ∧
    (sysSave false s t).queue = s.queue ∧ (sysSave false s t).sem = s.sem ∧ (sysSave false s t).pc = s.pc ∧
    (sysSave false s t).waitq = s.waitq ∧ (sysSave false s t).ev = s.ev ∧ (sysSave false s t).ulk = s.ulk ∧
    (sysSave false s t).uaf = s.uaf ∧ (sysSave false s t).prio = s.prio ∧
    (sysSave false s t).stamp = s.stamp ∧ (sysSave false s t).prog = s.prog := by
  unfold sysSave; split
  · rename_i hc
    have hcd := (h.own t hc.1).1
    simp only [Bool.false_eq_true, if_false]
    rw [saveLoop_eq _ _ _ (by simp; omega)]; simp
  · simp

theorem setPc_QI {s : State} {t p} (h : QI s) : QI (setPc s t p) := QI_congr h rfl rfl rfl
theorem setEv_QI {s : State} {w e} (h : QI s) : QI (setEv s w e) := QI_congr h rfl rfl rfl
theorem touch_QI {s : State} {w} (h : QI s) : QI (touch s w) := by
  unfold touch; split
  · exact h
  · exact QI_congr h rfl rfl rfl
theorem sysUnlock_QI {s : State} {t} (h : QI s) : QI (sysUnlock s t) := by
  have f := sysUnlock_frame s t; exact QI_congr h f.1 f.2.1 f.2.2.1
theorem sysLock_QI {s s' : State} {t} (h : QI s) (hs : sysLock s t = some s') : QI s' := by
  have f := sysLock_frame hs; exact QI_congr h f.1 f.2.1 f.2.2.1
theorem sysRestore_QI {s s' : State} {t} (h : QI s) (hs : sysRestore s t = some s') : QI s' := by
  have f := sysRestore_frame hs; exact QI_congr h f.1 f.2.1 f.2.2.1
theorem sysSave_QI {s : State} {t} (h : QI s) (hm : MI s) : QI (sysSave false s t) := by
  have f := sysSave_frame s t hm; exact QI_congr h f.1 f.2.1 f.2.2.1

theorem stepIdle_QI {s s' : State} {t : Tid} {op rest} (h : QI s) (hm : MI s)
    (hs : stepIdle false s t op rest = some s') : QI s' := by
  have h0 : QI { s with prog := upd s.prog t rest } := QI_congr h rfl rfl rfl
  have hm0 : MI { s with prog := upd s.prog t rest } := MI_congr hm rfl rfl rfl
  unfold stepIdle at hs
  dsimp only at hs
  split at hs
  · exact sysLock_QI h0 hs
  · cases hs; exact sysUnlock_QI h0
  · cases hs; exact sysSave_QI h0 hm0
  · exact sysRestore_QI h0 hs
  · simp only [Option.map_eq_some_iff] at hs
    obtain ⟨s1, h1, rfl⟩ := hs
    exact setPc_QI (sysLock_QI h0 h1)
  · simp only [Option.map_eq_some_iff] at hs
    obtain ⟨s1, h1, rfl⟩ := hs
    exact setPc_QI (sysLock_QI h0 h1)
  · simp only [Option.map_eq_some_iff] at hs
    obtain ⟨s1, h1, rfl⟩ := hs
    exact setPc_QI (sysLock_QI h0 h1)
  · -- push
    split at hs
    · cases hs
      apply setPc_QI
      unfold QI at *; simp only; rw [h, List.append_assoc]
    · cases hs
  · -- pop
    split at hs
    · split at hs
      · cases hs; exact setPc_QI (QI_congr h rfl rfl rfl)
      · rename_i p x r hq
        cases hs
        apply setPc_QI
        unfold QI at *; simp only at hq ⊢; rw [h, hq]; simp
    · cases hs
  · -- size
    split at hs
    · cases hs; exact setPc_QI (QI_congr h rfl rfl rfl)
    · cases hs

theorem step_QI {s s' : State} {t : Tid} (h : QI s) (hm : MI s) (hs : step false s t = some s') : QI s' := by
  unfold step at hs
  split at hs
  · split at hs
    · cases hs
    · exact stepIdle_QI h hm hs
  all_goals
    (try dsimp only at hs)
    (try simp only [Bool.false_eq_true, if_false] at hs)
    (repeat' split at hs)
  all_goals first
    | contradiction
    | (cases hs; done)
    | (cases hs
       repeat (first
         | exact h
         | exact sysUnlock_QI h
         | with_reducible apply setPc_QI
         | with_reducible apply setEv_QI
         | with_reducible apply touch_QI
         | exact QI_congr h rfl rfl rfl
         | split))

theorem reach_QI {prog q0 s} (h : Reach prog q0 s) : QI s := by
  induction h with
  | init => simp [QI, init]
  | step hr hs ih => exact step_QI ih (reach_MI hr) hs

end Igris.C20
