import IgrisModel.C20.Wait
namespace Igris.C20

/-- a thread whose program counter is irrelevant to the invariant moves to another such counter -/
theorem CI_setPc_neutral {s : State} {t : Tid} {p : PC} (h : CI s)
    (hold : InWait (s.pc t) = false ∧ ∀ w, Sig w (s.pc t) = false)
    (hnew : InWait p = false ∧ ∀ w, Sig w p = false) : CI (setPc s t p) := by
  obtain ⟨h1, h2, h3, h4, h5, h6, h7, h8, h9, h10, h11, h12, h13, h14, h15⟩ := h
  constructor <;> simp only [setPc, upd] <;> grind

theorem CI_sysUnlock {s : State} {t} (h : CI s) : CI (sysUnlock s t) := by
  have f := sysUnlock_frame s t
  exact CI_congr h f.2.2.2.2.1 f.2.2.2.2.2.1 f.2.2.2.2.2.2.1 f.2.2.2.2.2.2.2.1 f.2.2.2.2.2.2.2.2.1

theorem CI_sysLock {s s' : State} {t} (h : CI s) (hs : sysLock s t = some s') : CI s' := by
  have f := sysLock_frame hs
  exact CI_congr h f.2.2.2.2.1 f.2.2.2.2.2.1 f.2.2.2.2.2.2.1 f.2.2.2.2.2.2.2.1 f.2.2.2.2.2.2.2.2.1

theorem CI_sysRestore {s s' : State} {t} (h : CI s) (hs : sysRestore s t = some s') : CI s' := by
  have f := sysRestore_frame hs
  exact CI_congr h f.2.2.2.2.1 f.2.2.2.2.2.1 f.2.2.2.2.2.2.1 f.2.2.2.2.2.2.2.1 f.2.2.2.2.2.2.2.2.1

theorem CI_sysSave {s : State} {t} (h : CI s) (hm : MI s) : CI (sysSave false s t) := by
  have f := sysSave_frame s t hm
  exact CI_congr h f.2.2.2.2.1 f.2.2.2.2.2.1 f.2.2.2.2.2.2.1 f.2.2.2.2.2.2.2.1 f.2.2.2.2.2.2.2.2.1

theorem idle_neutral : InWait PC.idle = false ∧ ∀ w, Sig w PC.idle = false := by simp [InWait, Sig]

theorem stepIdle_CI {s s' : State} {t : Tid} {op rest} (h : CI s) (hm : MI s) (hpc : s.pc t = .idle)
    (hs : stepIdle false s t op rest = some s') : CI s' := by
  have h0 : CI { s with prog := upd s.prog t rest } := CI_congr h rfl rfl rfl rfl rfl
  have hm0 : MI { s with prog := upd s.prog t rest } := MI_congr hm rfl rfl rfl
  unfold stepIdle at hs
  dsimp only at hs
  split at hs
  · exact CI_sysLock h0 hs
  · cases hs; exact CI_sysUnlock h0
  · cases hs; exact CI_sysSave h0 hm0
  · exact CI_sysRestore h0 hs
  all_goals first
    | (simp only [Option.map_eq_some_iff] at hs
       obtain ⟨s1, h1, rfl⟩ := hs
       have f := sysLock_frame h1
       have hpc1 : s1.pc t = .idle := by rw [f.2.2.2.2.1]; exact hpc
       apply CI_setPc_neutral (CI_sysLock h0 h1)
       · rw [hpc1]; exact idle_neutral
       · (try split) <;> simp [InWait, Sig])
    | (split at hs
       · first
         | (cases hs
            apply CI_setPc_neutral
            · exact CI_congr h rfl rfl rfl rfl rfl
            · show InWait (s.pc t) = false ∧ _; rw [hpc]; exact idle_neutral
            · simp [InWait, Sig])
         | (split at hs <;>
             (cases hs
              apply CI_setPc_neutral
              · exact CI_congr h rfl rfl rfl rfl rfl
              · show InWait (s.pc t) = false ∧ _; rw [hpc]; exact idle_neutral
              · simp [InWait, Sig]))
       · cases hs)

theorem touch_eq {s : State} {w} (h : (s.ev w).alive = true) : touch s w = s := by
  simp [touch, h]

syntax "ci_close" : tactic
macro_rules
  | `(tactic| ci_close) => `(tactic|
    (constructor <;> simp only [setPc, setEv, upd] <;>
      grind [Waiting, InWait, Sig, SigHold, IsSLock, IsSNotify, IsSUnlock, HoldsOwn, Seen,
             List.nodup_cons, List.nodup_append, List.mem_append, List.mem_cons]))

theorem sig_alive {s : State} (h : CI s) {k w} (hk : Sig w (s.pc k) = true) : (s.ev w).alive = true :=
  h.alive w (waiting_inwait _ (h.sig k w hk).2.1)

set_option maxHeartbeats 8000000 in
theorem step_CI {s s' : State} {t : Tid} (h : CI s) (hm : MI s) (hs : step false s t = some s') : CI s' := by
  unfold step at hs
  split at hs
  · rename_i hpc
    split at hs
    · cases hs
    · exact stepIdle_CI h hm hpc hs
  · -- wEnq
    rename_i p hpc
    cases hs
    obtain ⟨h1, h2, h3, h4, h5, h6, h7, h8, h9, h10, h11, h12, h13, h14, h15⟩ := h
    ci_close
  · -- wUnlock
    rename_i hpc
    cases hs
    have f := sysUnlock_frame s t
    have h' := CI_sysUnlock (t := t) h
    generalize sysUnlock s t = s1 at *
    have hpc1 : s1.pc t = .wUnlock := by rw [f.2.2.2.2.1]; exact hpc
    obtain ⟨h1, h2, h3, h4, h5, h6, h7, h8, h9, h10, h11, h12, h13, h14, h15⟩ := h'
    ci_close
  · -- wEvLock
    rename_i hpc
    split at hs
    · rename_i hh
      cases hs
      obtain ⟨h1, h2, h3, h4, h5, h6, h7, h8, h9, h10, h11, h12, h13, h14, h15⟩ := h
      ci_close
    · cases hs
  · -- wCv
    rename_i hpc
    split at hs
    · rename_i hf
      cases hs
      obtain ⟨h1, h2, h3, h4, h5, h6, h7, h8, h9, h10, h11, h12, h13, h14, h15⟩ := h
      ci_close
    · rename_i hf
      cases hs
      obtain ⟨h1, h2, h3, h4, h5, h6, h7, h8, h9, h10, h11, h12, h13, h14, h15⟩ := h
      ci_close
  · cases hs
  · -- wReacq
    rename_i hpc
    split at hs
    · rename_i hh
      split at hs
      · rename_i hf
        cases hs
        obtain ⟨h1, h2, h3, h4, h5, h6, h7, h8, h9, h10, h11, h12, h13, h14, h15⟩ := h
        ci_close
      · rename_i hf
        cases hs
        obtain ⟨h1, h2, h3, h4, h5, h6, h7, h8, h9, h10, h11, h12, h13, h14, h15⟩ := h
        ci_close
    · cases hs
  · -- wEvUnlock
    rename_i hpc
    cases hs
    obtain ⟨h1, h2, h3, h4, h5, h6, h7, h8, h9, h10, h11, h12, h13, h14, h15⟩ := h
    ci_close
  · -- wRet
    rename_i hpc
    cases hs
    obtain ⟨h1, h2, h3, h4, h5, h6, h7, h8, h9, h10, h11, h12, h13, h14, h15⟩ := h
    ci_close
  · -- uUnlink
    rename_i f a hpc
    split at hs
    · cases hs
      apply CI_setPc_neutral
      · exact CI_congr h rfl rfl rfl rfl rfl
      · show InWait (s.pc t) = false ∧ _; rw [hpc]; simp [InWait, Sig]
      · simp [InWait, Sig]
    · rename_i w r hq
      cases hs
      obtain ⟨h1, h2, h3, h4, h5, h6, h7, h8, h9, h10, h11, h12, h13, h14, h15⟩ := h
      rw [hq] at h1 h2
      ci_close
  · -- sLock
    rename_i w f a hpc
    split at hs
    · rename_i hh
      cases hs
      have ha := sig_alive h (k := t) (w := w) (by rw [hpc]; simp [Sig])
      rw [touch_eq ha]
      obtain ⟨h1, h2, h3, h4, h5, h6, h7, h8, h9, h10, h11, h12, h13, h14, h15⟩ := h
      simp only [Bool.false_eq_true, if_false]
      ci_close
    · cases hs
  · -- sNotify
    rename_i w f a hpc
    cases hs
    have ha := sig_alive h (k := t) (w := w) (by rw [hpc]; simp [Sig])
    try dsimp only
    rw [touch_eq ha]
    obtain ⟨h1, h2, h3, h4, h5, h6, h7, h8, h9, h10, h11, h12, h13, h14, h15⟩ := h
    simp only [Bool.false_eq_true, if_false]
    split <;> ci_close
  · -- sUnlock
    rename_i w f a hpc
    cases hs
    have ha := sig_alive h (k := t) (w := w) (by rw [hpc]; simp [Sig])
    try dsimp only
    rw [touch_eq ha]
    obtain ⟨h1, h2, h3, h4, h5, h6, h7, h8, h9, h10, h11, h12, h13, h14, h15⟩ := h
    simp only [Bool.false_eq_true, if_false, afterSignal]
    split <;> ci_close
  · -- uUnlock
    rename_i hpc
    cases hs
    have f := sysUnlock_frame s t
    apply CI_setPc_neutral (CI_sysUnlock h)
    · rw [f.2.2.2.2.1, hpc]; simp [InWait, Sig]
    · simp [InWait, Sig]
  · -- qPost
    rename_i hpc
    cases hs
    apply CI_setPc_neutral
    · exact CI_congr h rfl rfl rfl rfl rfl
    · show InWait (s.pc t) = false ∧ _; rw [hpc]; simp [InWait, Sig]
    · simp [InWait, Sig]

theorem reach_CI {prog q0 s} (h : Reach prog q0 s) : CI s := by
  induction h with
  | init => exact CI_init _ _
  | step hr hs ih => exact step_CI ih (reach_MI hr) hs

end Igris.C20
