/-
  Driver part for the shared event / semaphore cases of harness/C20.cpp:
  op line:  e <prog0>/<prog1>/... - <schedule>
  prog tokens: E wait()  T0 wait(0)  T1 wait(never)  N signal()  C reset()  I isset()
               w S.wait()  p S.post()  y S.trywait()  v S.getvalue()
  schedule: digit = run thread, letter a.. = spurious return for thread 0..
-/
import IgrisModel.C20.Event
namespace Igris.C20.Ev.Drv
open Igris.C20.Ev

def parseOp (tok : String) : Option EOp :=
  match tok.toList with
  | ['E'] => some .wait | ['T', '0'] => some (.waitFor true) | ['T', '1'] => some (.waitFor false)
  | ['N'] => some .signal | ['C'] => some .reset | ['I'] => some .isset
  | ['w'] => some .sWait | ['p'] => some .sPost | ['y'] => some .sTry | ['v'] => some .sGet
  | _ => none

def hookChar (s : EState) (t : Tid) : Char :=
  match s.pc t with
  | .idle =>
    match s.prog t with
    | [] => '?'
    | .wait :: _ => 'w' | .waitFor _ :: _ => 'd' | .signal :: _ => 's' | .reset :: _ => 'x'
    | .isset :: _ => 'i' | .sWait :: _ => 'a' | _ => 'b'
  | .cv false _ => 'c' | .cv true _ => 'e' | .sleep false => 'c' | .sleep true => 'e'
  | .reacq false _ => 'c' | .reacq true _ => 'e'
  | .unlock false _ => 'u' | .unlock true _ => 'f'
  | .gNotify _ => 'n' | .gUnlock _ => 't' | .rUnlock _ => 'y'

/-- what a blocked thread sleeps on: 0 = the semaphore, 1 = the event's mutex, 2 = its condition variable -/
def primOf (s : EState) (t : Tid) : Nat :=
  match s.pc t with
  | .idle => match s.prog t with
    | .sWait :: _ => 0
    | _ => 1
  | .sleep _ => 2
  | _ => 1

structure D where
  s : EState
  n : Nat
  pend : List Tid := []
  trace : String := ""
  multi : Bool := false

def isDone (s : EState) (t : Tid) : Bool := s.pc t = .idle && (s.prog t).isEmpty
def isSleep (p : EPC) : Bool := match p with | .sleep _ => true | _ => false

def closure : Nat → D → D
  | 0, d => d
  | fuel + 1, d =>
    let rec find : List Tid → Option (Tid × EState)
      | [] => none
      | p :: ps => match step d.s p with
        | some s' => some (p, s')
        | none => find ps
    match find (d.pend.mergeSort (· ≤ ·)) with
    | none => d
    | some (p, s') =>
      if isSleep (s'.pc p) then closure fuel { d with s := s' }
      else closure fuel { d with s := s', pend := d.pend.filter (· != p), trace := d.trace ++ s!"+{p} " }

def checkMulti (d : D) : D :=
  let ps := (d.pend.map (primOf d.s)).filter (· != 2)
  let rec dup : List Nat → Bool
    | [] => false
    | x :: xs => xs.contains x || dup xs
  { d with multi := d.multi || dup ps }

def grant (d : D) (t : Tid) : D :=
  if t ≥ d.n || isDone d.s t || d.pend.contains t then { d with trace := d.trace ++ s!"{t}- " }
  else
    let h := hookChar d.s t
    -- a zero time-out releases the mutex and takes it again: with another thread
    -- asleep on that mutex the kernel decides who gets it -> the case is cut
    let hazard := (match d.s.pc t with | .cv true true => !d.s.flag | _ => false) &&
      d.pend.any (fun u => primOf d.s u == 1)
    if hazard then { d with multi := true } else
    let d1 :=
      match step d.s t with
      | none => { d with pend := t :: d.pend, trace := d.trace ++ s!"{t}{h}! " }
      | some s' =>
        match s'.pc t with
        | .sleep _ => { d with s := s', pend := t :: d.pend, trace := d.trace ++ s!"{t}{h}! " }
        | .reacq true true =>
          -- the expired wait goes straight on to re-acquire the mutex (free: no hazard)
          match step s' t with
          | some s'' => { d with s := s'', trace := d.trace ++ s!"{t}{h} " }
          | none => { d with s := s', pend := t :: d.pend, trace := d.trace ++ s!"{t}{h}! " }
        | _ => { d with s := s', trace := d.trace ++ s!"{t}{h} " }
    checkMulti (closure (2 * d.n + 2) d1)

/-- the harness produces a spurious return by a broadcast without setting the
    flag: on the SHARED condition variable this reaches every sleeper, i.e. it is
    the schedule `spur u` for every sleeping `u` (named by one of them) -/
def spurGrant (d : D) (t : Tid) : D :=
  match spurious d.s t with
  | none => { d with trace := d.trace ++ s!"{t}~- " }
  | some _ =>
    let s' := (List.range d.n).foldl (fun s u => match spurious s u with | some s1 => s1 | none => s) d.s
    checkMulti (closure (4 * d.n + 4) { d with s := s', trace := d.trace ++ s!"{t}~ " })

def token (d : D) (c : Nat) : D :=
  if c ≥ 97 then spurGrant d (c - 97) else grant d (c - 48)

def finish : Nat → D → D × String
  | 0, d => (d, "hang")
  | fuel + 1, d =>
    if d.multi then (d, "multipend") else
    let ts := List.range d.n
    if ts.all (isDone d.s) then (d, "done") else
    match ts.find? (fun t => !isDone d.s t && !d.pend.contains t) with
    | none => (d, "deadlock")
    | some t => finish fuel (grant d t)

def b01 (b : Bool) : String := if b then "1" else "0"
def obsStr (o : EObs) : String :=
  match o with
  | .waited r => s!"e{b01 r}," | .signalled r => s!"n{b01 r}," | .wasset r => s!"r{b01 r},"
  | .isset r => s!"i{b01 r}," | .value n => s!"v{n},"

def runCase (progs : List (List EOp)) (sched : List Nat) : String :=
  let n := progs.length
  let d0 : D := { s := init (fun t => progs.getD t []), n := n }
  let d1 := sched.foldl (fun d c => if d.multi then d else token d c) d0
  let d1 := { d1 with trace := d1.trace ++ "| " }
  let (d2, status) := finish 4000 d1
  let obs :=
    if status == "multipend" then "" else
    String.join ((List.range n).map fun t => s!"{t}:" ++ String.join ((d2.s.obs t).map obsStr) ++ ";") ++
      (if status == "done" then s!"E{b01 d2.s.flag};S{d2.s.sv}" else "")
  d2.trace ++ "| " ++ status ++ " | " ++ obs

end Igris.C20.Ev.Drv
