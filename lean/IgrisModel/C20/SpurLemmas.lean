/-
  C20 extension — the invariants MI / CI / QI survive spurious returns of the
  condition-variable wait; hence they hold on `ReachS`.
-/
import IgrisModel.C20.WaitStep
import IgrisModel.C20.Spur
namespace Igris.C20

theorem spurious_MI {s s' : State} {t} (h : MI s) (hs : spurious s t = some s') : MI s' := by
  unfold spurious at hs; split at hs
  · cases hs; exact setPc_MI h
  · cases hs

theorem spurious_QI {s s' : State} {t} (h : QI s) (hs : spurious s t = some s') : QI s' := by
  unfold spurious at hs; split at hs
  · cases hs; exact setPc_QI h
  · cases hs

/-- a sleeper that is resumed without a notify: every clause of the wait-queue /
    event invariant survives (the two clauses that speak about `wSleep` become
    vacuous for it, every other clause sees `wReacq` like `wSleep`) -/
theorem spurious_CI {s s' : State} {t} (h : CI s) (hs : spurious s t = some s') : CI s' := by
  unfold spurious at hs; split at hs
  · rename_i hpc
    cases hs
    obtain ⟨h1, h2, h3, h4, h5, h6, h7, h8, h9, h10, h11, h12, h13, h14, h15⟩ := h
    ci_close
  · cases hs

theorem act_MI {s s' : State} {a} (h : MI s) (hs : act false s a = some s') : MI s' := by
  cases a with
  | run t => exact step_MI h hs
  | spur t => exact spurious_MI h hs

theorem act_QI {s s' : State} {a} (h : QI s) (hm : MI s) (hs : act false s a = some s') : QI s' := by
  cases a with
  | run t => exact step_QI h hm hs
  | spur t => exact spurious_QI h hs

theorem act_CI {s s' : State} {a} (h : CI s) (hm : MI s) (hs : act false s a = some s') : CI s' := by
  cases a with
  | run t => exact step_CI h hm hs
  | spur t => exact spurious_CI h hs

theorem reachS_MI {prog q0 s} (h : ReachS prog q0 s) : MI s := by
  induction h with
  | init => exact MI_init _ _
  | act _ hs ih => exact act_MI ih hs

theorem reachS_CI {prog q0 s} (h : ReachS prog q0 s) : CI s := by
  induction h with
  | init => exact CI_init _ _
  | act hr hs ih => exact act_CI ih (reachS_MI hr) hs

theorem reachS_QI {prog q0 s} (h : ReachS prog q0 s) : QI s := by
  induction h with
  | init => simp [QI, init]
  | act hr hs ih => exact act_QI ih (reachS_MI hr) hs

/-- every state reachable without spurious returns is reachable with them -/
theorem reach_reachS {prog q0 s} (h : Reach prog q0 s) : ReachS prog q0 s := by
  induction h with
  | init => exact .init
  | step _ hs ih => exact .act (a := .run _) ih hs

end Igris.C20
