/-
  C20 extension — spurious returns of the condition-variable wait.

  POSIX allows pthread_cond_wait to return although nobody notified.  The
  scheduler therefore has a second kind of choice besides "thread t runs to its
  next synchronisation point": "the condition-variable wait of thread t
  returns" (`Act.spur`).  The woken thread stands at `wReacq` exactly as after a
  notify: it re-acquires the event mutex and — this is the predicate loop of
  `m_condition.wait(_lock, pred)` in event.h — tests its flag again
  (`step … .wReacq`: flag clear -> back to `wSleep`).

  `ReachS` = states reachable by the shipped code under every schedule of runs
  AND spurious returns.  Core Lean only (the driver imports this file).
-/
import IgrisModel.C20.Model
namespace Igris.C20

inductive Act
  | run (t : Tid)    -- thread t runs to its next synchronisation point
  | spur (t : Tid)   -- the condition-variable wait of t returns without a notify
  deriving DecidableEq, Repr

/-- a spurious return of `pthread_cond_wait`: only a thread asleep in the
    condition variable can be affected; it goes on to re-acquire the mutex -/
def spurious (s : State) (t : Tid) : Option State :=
  if s.pc t = .wSleep then some (setPc s t .wReacq) else none

def act (old : Bool) (s : State) : Act → Option State
  | .run t => step old s t
  | .spur t => spurious s t

/-- a schedule with spurious returns; an action that is not enabled is skipped -/
def runActs (old : Bool) : State → List Act → State
  | s, [] => s
  | s, a :: as => runActs old (match act old s a with | some s' => s' | none => s) as

/-- reachable by the shipped code under every schedule INCLUDING spurious
    condition-variable returns -/
inductive ReachS (prog : Tid → List Op) (q0 : List (Tid × Int)) : State → Prop
  | init : ReachS prog q0 (init prog q0)
  | act {s s' a} : ReachS prog q0 s → act false s a = some s' → ReachS prog q0 s'

/-- the hand-made break `if (!m_bFlag) m_condition.wait(_lock);` instead of the
    predicate loop: after the condition variable returned the flag is NOT tested
    again (used only by the witness theorem) -/
def stepIf (s : State) (t : Tid) : Option State :=
  match s.pc t with
  | .wReacq =>
    if (s.ev t).holder = none then
      some (setPc (setEv s t { s.ev t with holder := some t }) t .wEvUnlock)
    else none
  | _ => step false s t

def actIf (s : State) : Act → Option State
  | .run t => stepIf s t
  | .spur t => spurious s t

def runActsIf : State → List Act → State
  | s, [] => s
  | s, a :: as => runActsIf (match actIf s a with | some s' => s' | none => s) as

end Igris.C20
