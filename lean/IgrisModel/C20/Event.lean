/-
  C20 extension — the rest of igris/syncxx/event.h and igris/sync/semaphore.h
  as an interleaving model of ONE shared `igris::event` E and ONE shared
  `igris::semaphore` S(1) used by any number of threads:

    event::wait()            lock, predicate loop around the condition variable, unlock
    event::wait(timeout)     the same with wait_for: a time-out is a scheduler choice
    event::signal()          lock, remember flag, set it, notify_all, unlock; returns "was clear"
    event::reset()           lock, remember flag, clear it, unlock; returns "was set"
    event::isset()           (after the repair) lock, read the flag, unlock
    semaphore::wait/post/trywait/getvalue   POSIX counter semantics as igris uses them

  One step = the code between two IGRIS_VERIF_POINTs.  Scheduler choices:
  run a thread, let a condition-variable wait return spuriously, let a timed
  wait time out.  Core Lean only.
-/
namespace Igris.C20.Ev

abbrev Tid := Nat

inductive EOp
  | wait | waitFor (zero : Bool) | signal | reset | isset
  | sWait | sPost | sTry | sGet
  deriving DecidableEq, Repr

inductive EPC
  | idle
  | cv (timed zero : Bool)      -- holds the mutex, about to test the flag / sleep
  | sleep (timed : Bool)        -- asleep in the condition variable (mutex released)
  | reacq (timed to : Bool)     -- woken (`to` = by the time-out): re-acquiring the mutex
  | unlock (timed r : Bool)     -- leaving wait with result r, about to unlock
  | gNotify (r : Bool)          -- signal: flag set, about to notify_all
  | gUnlock (r : Bool)          -- signal: about to unlock
  | rUnlock (r : Bool)          -- reset: flag cleared, about to unlock
  deriving DecidableEq, Repr

inductive EObs
  | waited (r : Bool) | signalled (r : Bool) | wasset (r : Bool) | isset (r : Bool) | value (n : Nat)
  deriving DecidableEq, Repr

structure EState where
  flag : Bool
  holder : Option Tid
  sv : Nat                      -- the semaphore counter
  pc : Tid → EPC
  prog : Tid → List EOp
  obs : Tid → List EObs
  takes : Nat                   -- ghost: successful sem_wait / sem_trywait
  posts : Nat                   -- ghost: sem_post

def upd {α : Type} (f : Tid → α) (t : Tid) (v : α) : Tid → α :=
  fun x => if x = t then v else f x

def init (prog : Tid → List EOp) : EState :=
  { flag := false, holder := none, sv := 1, pc := fun _ => .idle, prog := prog, obs := fun _ => [],
    takes := 0, posts := 0 }

def addObs (s : EState) (t : Tid) (o : EObs) : EState := { s with obs := upd s.obs t (s.obs t ++ [o]) }

/-- first step of a call -/
def stepIdle (s : EState) (t : Tid) (op : EOp) (rest : List EOp) : Option EState :=
  let s0 : EState := { s with prog := upd s.prog t rest }
  match op with
  | .wait =>
    if s0.holder = none then some { s0 with holder := some t, pc := upd s0.pc t (.cv false false) } else none
  | .waitFor z =>
    if s0.holder = none then some { s0 with holder := some t, pc := upd s0.pc t (.cv true z) } else none
  | .signal =>
    -- m_mutex.lock(); bWasSignalled = m_bFlag; m_bFlag = true;
    if s0.holder = none then
      some { s0 with holder := some t, flag := true, pc := upd s0.pc t (.gNotify (!s0.flag)) }
    else none
  | .reset =>
    -- m_mutex.lock(); bWasSignalled = m_bFlag; m_bFlag = false;
    if s0.holder = none then
      some { s0 with holder := some t, flag := false, pc := upd s0.pc t (.rUnlock s0.flag) }
    else none
  | .isset =>
    -- lock_guard; return m_bFlag;   (never blocks once it has the mutex)
    if s0.holder = none then some (addObs s0 t (.isset s0.flag)) else none
  | .sWait =>
    if 0 < s0.sv then some { s0 with sv := s0.sv - 1, takes := s0.takes + 1 } else none
  | .sPost => some { s0 with sv := s0.sv + 1, posts := s0.posts + 1 }
  | .sTry =>
    if 0 < s0.sv then some { s0 with sv := s0.sv - 1, takes := s0.takes + 1 } else some s0
  | .sGet => some (addObs s0 t (.value s0.sv))

/-- notify_all seen by one thread: a sleeper goes on to re-acquire the mutex -/
def wake : EPC → EPC
  | .sleep timed => .reacq timed false
  | p => p

def step (s : EState) (t : Tid) : Option EState :=
  match s.pc t with
  | .idle =>
    match s.prog t with
    | [] => none
    | op :: rest => stepIdle s t op rest
  | .cv timed zero =>
    -- while (!pred()) wait…: flag set -> leave; else release the mutex and sleep
    -- (a zero time-out expires at once: the wait returns after releasing the mutex)
    if s.flag then some { s with pc := upd s.pc t (.unlock timed true) }
    else some { s with holder := none,
                       pc := upd s.pc t (if timed ∧ zero then .reacq true true else .sleep timed) }
  | .sleep _ => none
  | .reacq timed to =>
    if s.holder = none then
      if to then
        -- wait_until returned timeout: `return pred();`
        some { s with holder := some t, pc := upd s.pc t (.unlock timed s.flag) }
      else if s.flag then some { s with holder := some t, pc := upd s.pc t (.unlock timed true) }
      else some { s with pc := upd s.pc t (.sleep timed) }
    else none
  | .unlock _ r =>
    some (addObs { s with holder := none, pc := upd s.pc t .idle } t (.waited r))
  | .gNotify r =>
    -- notify_all: every sleeper goes on to re-acquire the mutex
    some { s with pc := upd (fun u => wake (s.pc u)) t (.gUnlock r) }
  | .gUnlock r =>
    some (addObs { s with holder := none, pc := upd s.pc t .idle } t (.signalled r))
  | .rUnlock r =>
    some (addObs { s with holder := none, pc := upd s.pc t .idle } t (.wasset r))

inductive Act
  | run (t : Tid) | spur (t : Tid) | timeout (t : Tid)
  deriving DecidableEq, Repr

/-- the condition-variable wait of t returns without a notify -/
def spurious (s : EState) (t : Tid) : Option EState :=
  match s.pc t with
  | .sleep timed => some { s with pc := upd s.pc t (.reacq timed false) }
  | _ => none

/-- the time-out of a timed wait expires -/
def timeout (s : EState) (t : Tid) : Option EState :=
  match s.pc t with
  | .sleep true => some { s with pc := upd s.pc t (.reacq true true) }
  | _ => none

def act (s : EState) : Act → Option EState
  | .run t => step s t
  | .spur t => spurious s t
  | .timeout t => timeout s t

def runActs : EState → List Act → EState
  | s, [] => s
  | s, a :: as => runActs (match act s a with | some s' => s' | none => s) as

/-- reachable under every schedule of runs, spurious returns and time-outs -/
inductive Reach (prog : Tid → List EOp) : EState → Prop
  | init : Reach prog (init prog)
  | act {s s' a} : Reach prog s → act s a = some s' → Reach prog s'

end Igris.C20.Ev
