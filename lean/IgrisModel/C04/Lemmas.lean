import IgrisModel.C04.Model
import IgrisModel.C17.Lemmas
namespace Igris.Gstuff
open Igris.Proto Igris.C17

/-- Well-formedness of a marker alphabet: what the round trip needs.
`start = stop` is allowed (v0); then `stubStop` is never emitted. -/
structure Ctx.WF (c : Ctx) : Prop where
  stub_ne_start : c.stub ≠ c.start
  stub_ne_stop : c.stub ≠ c.stop
  sstart_ne_start : c.stubStart ≠ c.start
  sstart_ne_stop : c.stubStart ≠ c.stop
  sstop_ne_start : c.stubStop ≠ c.start
  sstop_ne_stop : c.stubStop ≠ c.stop
  sstub_ne_start : c.stubStub ≠ c.start
  sstub_ne_stop : c.stubStub ≠ c.stop
  sstub_ne_sstart : c.stubStub ≠ c.stubStart
  sstub_ne_sstop : c.stubStub ≠ c.stubStop
  sstop_ne_sstart : c.start ≠ c.stop → c.stubStop ≠ c.stubStart

instance (c : Ctx) : Decidable c.WF :=
  if h : c.stub ≠ c.start ∧ c.stub ≠ c.stop ∧ c.stubStart ≠ c.start ∧ c.stubStart ≠ c.stop ∧
      c.stubStop ≠ c.start ∧ c.stubStop ≠ c.stop ∧ c.stubStub ≠ c.start ∧ c.stubStub ≠ c.stop ∧
      c.stubStub ≠ c.stubStart ∧ c.stubStub ≠ c.stubStop ∧ (c.start ≠ c.stop → c.stubStop ≠ c.stubStart)
  then isTrue ⟨h.1, h.2.1, h.2.2.1, h.2.2.2.1, h.2.2.2.2.1, h.2.2.2.2.2.1, h.2.2.2.2.2.2.1,
      h.2.2.2.2.2.2.2.1, h.2.2.2.2.2.2.2.2.1, h.2.2.2.2.2.2.2.2.2.1, h.2.2.2.2.2.2.2.2.2.2⟩
  else isFalse fun w => h ⟨w.1, w.2, w.3, w.4, w.5, w.6, w.7, w.8, w.9, w.10, w.11⟩

/-- reference encoder on the whole payload -/
def encode (ctx : Ctx) (p : List Byte) : List Byte :=
  ctx.start :: (p.flatMap (stuffByte ctx) ++ stuffByte ctx (strmcrc8 0xFF#8 p) ++ [ctx.stop])

/-! ### encoder -/

theorem stuffPiece_eq (ctx : Ctx) (crc : BitVec 8) (acc : List Byte) (piece : List Byte) :
    stuffPiece ctx (crc, acc) piece = (piece.foldl strmStep crc, acc ++ piece.flatMap (stuffByte ctx)) := by
  induction piece generalizing crc acc with
  | nil => simp [stuffPiece]
  | cons c cs ih =>
    simp only [stuffPiece, List.foldl_cons] at ih ⊢
    rw [ih]; simp

theorem stuffPieces_eq (ctx : Ctx) (crc : BitVec 8) (acc : List Byte) (pieces : List (List Byte)) :
    pieces.foldl (stuffPiece ctx) (crc, acc) =
      (pieces.flatten.foldl strmStep crc, acc ++ pieces.flatten.flatMap (stuffByte ctx)) := by
  induction pieces generalizing crc acc with
  | nil => simp
  | cons p ps ih =>
    simp only [List.foldl_cons, stuffPiece_eq, ih, List.flatten_cons, List.foldl_append,
      List.flatMap_append, List.append_assoc]

theorem stuffByte_length_le (ctx : Ctx) (c : Byte) : (stuffByte ctx c).length ≤ 2 := by
  unfold stuffByte; split <;> (try split) <;> (try split) <;> simp

theorem flatMap_stuff_length_le (ctx : Ctx) (p : List Byte) :
    (p.flatMap (stuffByte ctx)).length ≤ 2 * p.length := by
  induction p with
  | nil => simp
  | cons c cs ih =>
    have := stuffByte_length_le ctx c
    simp only [List.flatMap_cons, List.length_append, List.length_cons]; omega

theorem stuffByte_no_marker (ctx : Ctx) (h : ctx.WF) (c : Byte) :
    ∀ b ∈ stuffByte ctx c, b ≠ ctx.start ∧ b ≠ ctx.stop := by
  intro b hb
  unfold stuffByte at hb
  split at hb
  · simp at hb; rcases hb with rfl | rfl
    · exact ⟨h.stub_ne_start, h.stub_ne_stop⟩
    · exact ⟨h.sstart_ne_start, h.sstart_ne_stop⟩
  · split at hb
    · simp at hb; rcases hb with rfl | rfl
      · exact ⟨h.stub_ne_start, h.stub_ne_stop⟩
      · exact ⟨h.sstub_ne_start, h.sstub_ne_stop⟩
    · split at hb
      · simp at hb; rcases hb with rfl | rfl
        · exact ⟨h.stub_ne_start, h.stub_ne_stop⟩
        · exact ⟨h.sstop_ne_start, h.sstop_ne_stop⟩
      · simp at hb; subst hb; constructor <;> assumption

/-! ### receiver: feeding -/

theorem feed_append (ctx : Ctx) (r : Recv) (a b : List Byte) :
    feed ctx r (a ++ b) =
      ((feed ctx (feed ctx r a).1 b).1, (feed ctx r a).2 ++ (feed ctx (feed ctx r a).1 b).2) := by
  induction a generalizing r with
  | nil => simp [feed]
  | cons c cs ih => simp [feed, ih]

theorem feed_length (ctx : Ctx) (r : Recv) (s : List Byte) : (feed ctx r s).2.length = s.length := by
  induction s generalizing r with
  | nil => simp [feed]
  | cons c cs ih => simp [feed, ih]

/-- all statuses are CONTINUE -/
def AllCont (ss : List Int) : Prop := ∀ s ∈ ss, s = CONTINUE

theorem AllCont.append {a b : List Int} (ha : AllCont a) (hb : AllCont b) : AllCont (a ++ b) := by
  intro s hs; rcases List.mem_append.mp hs with h | h
  · exact ha s h
  · exact hb s h

/-- in-frame state with room for one more byte -/
def InFrame (r : Recv) (l : List Byte) (k : BitVec 8) : Prop :=
  r.state = .s1 ∧ r.line = l ∧ r.crc = k

theorem putcharL_ok (r : Recv) (c : Byte) (h : r.line.length + 1 < r.cap) :
    putcharL r c = ({ r with line := r.line ++ [c], crc := strmStep r.crc c, state := .s1 }, CONTINUE) := by
  have : r.putOk = true := by simp [Recv.putOk]; omega
  simp [putcharL, this]

/-- the stuffed form of one byte appends that byte and advances the CRC -/
theorem feed_stuffByte (ctx : Ctx) (h : ctx.WF) (r : Recv) (c : Byte)
    (hs : r.state = .s1) (hroom : r.line.length + 1 < r.cap) :
    (feed ctx r (stuffByte ctx c)).1 = { r with line := r.line ++ [c], crc := strmStep r.crc c, state := .s1 } ∧
    AllCont (feed ctx r (stuffByte ctx c)).2 := by
  have h1 := h.stub_ne_start; have h2 := h.stub_ne_stop
  have h3 := h.sstub_ne_sstart; have h4 := h.sstub_ne_sstop
  obtain ⟨st, crc, line, cap⟩ := r
  simp only at hs hroom; subst hs
  unfold stuffByte
  by_cases hc1 : c = ctx.start
  · subst hc1
    simp [feed, newchar, h1, h2, putcharL_ok, hroom, AllCont, CONTINUE]
  · by_cases hc2 : c = ctx.stub
    · subst hc2
      simp [feed, newchar, h1, h2, h3, h4, putcharL_ok, hroom, AllCont, CONTINUE]
    · by_cases hc3 : c = ctx.stop
      · subst hc3
        have h5 := h.sstop_ne_sstart (fun e => hc1 e.symm)
        simp [feed, newchar, h1, h2, hc1, hc2, h5, putcharL_ok, hroom, AllCont, CONTINUE]
      · simp [feed, newchar, hc1, hc2, hc3, putcharL_ok, hroom, AllCont, CONTINUE]

theorem feed_stuffed (ctx : Ctx) (h : ctx.WF) (p : List Byte) (r : Recv)
    (hs : r.state = .s1) (hroom : r.line.length + p.length < r.cap) :
    (feed ctx r (p.flatMap (stuffByte ctx))).1 =
        { r with line := r.line ++ p, crc := p.foldl strmStep r.crc, state := .s1 } ∧
    AllCont (feed ctx r (p.flatMap (stuffByte ctx))).2 := by
  induction p generalizing r with
  | nil =>
    obtain ⟨st, crc, line, cap⟩ := r
    simp only at hs; subst hs
    simp [feed, AllCont]
  | cons c cs ih =>
    simp only [List.length_cons] at hroom
    obtain ⟨e1, a1⟩ := feed_stuffByte ctx h r c hs (by omega)
    simp only [List.flatMap_cons, feed_append]
    have ih' := ih (feed ctx r (stuffByte ctx c)).1 (by rw [e1]) (by rw [e1]; simp; omega)
    rw [e1] at ih' ⊢
    refine ⟨?_, a1.append ih'.2⟩
    rw [ih'.1]; simp

/-- a receiver that is between frames: freshly initialised / after a completed
packet or an error (state 0), or hunting for a start marker (state 4) -/
def Idle (r : Recv) : Prop := r.state = .s0 ∨ r.state = .s4

theorem newchar_start_idle (ctx : Ctx) (r : Recv) (h : Idle r) :
    newchar ctx r ctx.start = ({ r with state := .s1, crc := 0xFF#8, line := [] }, CONTINUE) := by
  obtain ⟨st, crc, line, cap⟩ := r
  rcases h with h | h <;> simp only at h <;> subst h <;> simp [newchar, Recv.reset]

theorem newchar_stop_inframe (ctx : Ctx) (r : Recv) (hs : r.state = .s1) (hne : r.line ≠ [])
    (hcrc : r.crc = 0#8) :
    newchar ctx r ctx.stop = ({ r with state := .s0, line := r.line.dropLast }, NEWPACKAGE) := by
  obtain ⟨st, crc, line, cap⟩ := r
  simp only at hs hne hcrc; subst hs; subst hcrc
  by_cases he : ctx.stop = ctx.start
  · simp [newchar, he, stopL, hne]
  · simp [newchar, he, stopL]

theorem strmStep_self (c : BitVec 8) : strmStep c c = 0#8 := by
  simp only [strmStep, BitVec.xor_self]; decide

/-! ### legacy codec -/

def encodeLeg (p : List Byte) : List Byte :=
  legStart :: (p.flatMap legStuffByte ++ legStuffByte (strmcrc8 0xFF#8 p) ++ [legStart])

theorem gstuffingLeg_eq (p : List Byte) : gstuffingLeg p = encodeLeg p := by
  have : ∀ (crc : BitVec 8) (acc : List Byte) (q : List Byte),
      q.foldl (fun (st : BitVec 8 × List Byte) c => (strmStep st.1 c, st.2 ++ legStuffByte c)) (crc, acc) =
        (q.foldl strmStep crc, acc ++ q.flatMap legStuffByte) := by
    intro crc acc q
    induction q generalizing crc acc with
    | nil => simp
    | cons c cs ih => simp only [List.foldl_cons, ih]; simp
  simp [gstuffingLeg, this, encodeLeg, strmcrc8]

theorem legStuffByte_length_le (c : Byte) : (legStuffByte c).length ≤ 2 := by
  unfold legStuffByte; split <;> (try split) <;> simp

theorem legStuffByte_no_marker (c : Byte) : ∀ b ∈ legStuffByte c, b ≠ legStart := by
  intro b hb
  unfold legStuffByte at hb
  split at hb
  · simp at hb; rcases hb with rfl | rfl <;> decide
  · split at hb
    · simp at hb; rcases hb with rfl | rfl <;> decide
    · simp at hb; subst hb; assumption

theorem lfeed_append (r : LRecv) (a b : List Byte) :
    lfeed r (a ++ b) = ((lfeed (lfeed r a).1 b).1, (lfeed r a).2 ++ (lfeed (lfeed r a).1 b).2) := by
  induction a generalizing r with
  | nil => simp [lfeed]
  | cons c cs ih => simp [lfeed, ih]

theorem lputchar_ok (r : LRecv) (c : Byte) (h : r.line.length + 1 < r.cap) :
    lputchar r c = ({ r with line := r.line ++ [c], crc := strmStep r.crc c, state := .l1 }, CONTINUE) := by
  have : ¬ (r.cap - 1 ≤ r.line.length) := by omega
  simp [lputchar, this]

theorem lfeed_stuffByte (r : LRecv) (c : Byte) (hs : r.state = .l1) (hroom : r.line.length + 1 < r.cap) :
    (lfeed r (legStuffByte c)).1 = { r with line := r.line ++ [c], crc := strmStep r.crc c, state := .l1 } ∧
    AllCont (lfeed r (legStuffByte c)).2 := by
  obtain ⟨st, crc, line, cap⟩ := r
  simp only at hs hroom; subst hs
  have e1 : legStub ≠ legStart := by decide
  have e2 : legStubStub ≠ legStubStart := by decide
  unfold legStuffByte
  by_cases hc1 : c = legStart
  · subst hc1
    simp [lfeed, lnewchar, e1, lputchar_ok, hroom, AllCont, CONTINUE]
  · by_cases hc2 : c = legStub
    · subst hc2
      simp [lfeed, lnewchar, e1, e2, lputchar_ok, hroom, AllCont, CONTINUE]
    · simp [lfeed, lnewchar, hc1, hc2, lputchar_ok, hroom, AllCont, CONTINUE]

theorem lfeed_stuffed (p : List Byte) (r : LRecv) (hs : r.state = .l1)
    (hroom : r.line.length + p.length < r.cap) :
    (lfeed r (p.flatMap legStuffByte)).1 =
        { r with line := r.line ++ p, crc := p.foldl strmStep r.crc, state := .l1 } ∧
    AllCont (lfeed r (p.flatMap legStuffByte)).2 := by
  induction p generalizing r with
  | nil =>
    obtain ⟨st, crc, line, cap⟩ := r
    simp only at hs; subst hs
    simp [lfeed, AllCont]
  | cons c cs ih =>
    simp only [List.length_cons] at hroom
    obtain ⟨e1, a1⟩ := lfeed_stuffByte r c hs (by omega)
    simp only [List.flatMap_cons, lfeed_append]
    have ih' := ih (lfeed r (legStuffByte c)).1 (by rw [e1]) (by rw [e1]; simp; omega)
    rw [e1] at ih' ⊢
    refine ⟨?_, a1.append ih'.2⟩
    rw [ih'.1]; simp

end Igris.Gstuff
