/-
  C04 / C05 — model of the gstuff framing codec:
    igris/protocols/gstuff.{h,cpp}            (configurable codec, both alphabets)
    igris/protocols/gstuff_v1/{gstuff,autorecv}.c   (legacy C codec)
    igris/datastruct/sline.h                  (the receive line, as used by the receivers:
                                               cursor = len at all times)
  The streaming CRC-8 is C17's `strmStep`.
-/
import IgrisModel.C17.Model
namespace Igris.Gstuff
open Igris.Proto Igris.C17

/-- `struct gstuff_context` -/
structure Ctx where
  start : Byte
  stop : Byte
  stub : Byte
  stubStart : Byte
  stubStop : Byte
  stubStub : Byte
deriving DecidableEq, Repr

/-- default member initialisers of `gstuff_context` (the "V1" alphabet of gstuff.h) -/
def Ctx.v1 : Ctx := ⟨0xA8, 0xB2, 0xC5, 0x8A, 0x2B, 0x5C⟩
/-- `gstuff_context_v0()` : start = stop -/
def Ctx.v0 : Ctx := ⟨0xAC, 0xAC, 0xAD, 0xAE, 0xAE, 0xAF⟩

/-! ### encoder: gstuff_byte / gstuffing_v -/

/-- `gstuff_byte` -/
def stuffByte (ctx : Ctx) (c : Byte) : List Byte :=
  if c = ctx.start then [ctx.stub, ctx.stubStart]
  else if c = ctx.stub then [ctx.stub, ctx.stubStub]
  else if c = ctx.stop then [ctx.stub, ctx.stubStop]
  else [c]

/-- inner `while (size--)` loop of `gstuffing_v` over one iovec piece:
    state = (crc, bytes written so far) -/
def stuffPiece (ctx : Ctx) (st : BitVec 8 × List Byte) (piece : List Byte) : BitVec 8 × List Byte :=
  piece.foldl (fun st c => (strmStep st.1 c, st.2 ++ stuffByte ctx c)) st

/-- `gstuffing_v(vec, n, outdata, ctx)`: the bytes written to `outdata` in order -/
def gstuffingV (ctx : Ctx) (pieces : List (List Byte)) : List Byte :=
  let st := pieces.foldl (stuffPiece ctx) (0xFF#8, [ctx.start])
  st.2 ++ stuffByte ctx st.1 ++ [ctx.stop]

/-- `gstuffing(data, size, outdata, ctx)` -/
def gstuffing (ctx : Ctx) (p : List Byte) : List Byte := gstuffingV ctx [p]

/-- The self-sizing overloads `std::vector<uint8_t> gstuffing_v(vec, n, ctx)` and
`gstuffing(igris::buffer, ctx)`: `ret.resize(bufSize n)`, encode into it,
`ret.resize(sz2)`.  `none` = a write at an index ≥ the buffer size. -/
def vecBufSize (n : Nat) : Nat := n * 2 + 4

def gstuffingVec (ctx : Ctx) (pieces : List (List Byte)) : Option (List Byte) :=
  let out := gstuffingV ctx pieces
  if out.length ≤ vecBufSize (pieces.map List.length).sum then some out else none

/-! ### the same encoder at the level of its buffer writes

`*outdata++ = b` is a store at an explicit index of an explicit buffer; a store at
an index ≥ the buffer size is a fault (`none`).  This is what "never write outside
the buffer" is stated about (`encoder_buffer_writes` in Props). -/

/-- `*outdata++ = b` : state = (buffer, index of `outdata` in it) -/
def emit (st : Option (List Byte × Nat)) (b : Byte) : Option (List Byte × Nat) :=
  match st with
  | none => none
  | some (out, pos) => if pos < out.length then some (out.set pos b, pos + 1) else none

/-- `gstuff_byte(c, outdata, ctx)` through the pointer -/
def stuffByteW (ctx : Ctx) (st : Option (List Byte × Nat)) (c : Byte) : Option (List Byte × Nat) :=
  if c = ctx.start then emit (emit st ctx.stub) ctx.stubStart
  else if c = ctx.stub then emit (emit st ctx.stub) ctx.stubStub
  else if c = ctx.stop then emit (emit st ctx.stub) ctx.stubStop
  else emit st c

/-- `gstuffing_v(vec, n, outdata, ctx)` writing into the buffer `out`: (buffer, return value) -/
def gstuffingVW (ctx : Ctx) (pieces : List (List Byte)) (out : List Byte) : Option (List Byte × Nat) :=
  let st := pieces.foldl
    (fun st piece => piece.foldl
      (fun (st : BitVec 8 × Option (List Byte × Nat)) c => (strmStep st.1 c, stuffByteW ctx st.2 c)) st)
    (0xFF#8, emit (some (out, 0)) ctx.start)
  emit (stuffByteW ctx st.2 st.1) ctx.stop

/-- the self-sizing overloads: `ret.resize(sz * 2 + 4); sz2 = gstuffing_v(vec, n, &ret[0], ctx);
ret.resize(sz2); return ret;` -/
def gstuffingVecW (ctx : Ctx) (pieces : List (List Byte)) : Option (List Byte) :=
  let sz := (pieces.map List.length).sum
  match gstuffingVW ctx pieces (List.replicate (vecBufSize sz) 0) with
  | none => none
  | some (out, sz2) => some (out.take sz2)

/-! ### legacy encoder gstuffing_v1 (fixed alphabet AC/AD/AE/AF, start = stop) -/

def legStart : Byte := 0xAC
def legStub : Byte := 0xAD
def legStubStart : Byte := 0xAE
def legStubStub : Byte := 0xAF

/-- the `switch (c)` of `gstuffing_v1` -/
def legStuffByte (c : Byte) : List Byte :=
  if c = legStart then [legStub, legStubStart]
  else if c = legStub then [legStub, legStubStub]
  else [c]

/-- `gstuffing_v1` after `fix: gstuffing_v1 escapes the CRC byte` -/
def gstuffingLeg (p : List Byte) : List Byte :=
  let st := p.foldl (fun (st : BitVec 8 × List Byte) c => (strmStep st.1 c, st.2 ++ legStuffByte c)) (0xFF#8, [legStart])
  st.2 ++ legStuffByte st.1 ++ [legStart]

/-! ### receive line (sline as used by the receivers) -/

inductive St | s0 | s4 | s1 | s2
deriving DecidableEq, Repr

/-- receiver object: `line` is `sline.buf[0 .. len)`, `cap` is `sline.cap` -/
structure Recv where
  state : St
  crc : BitVec 8
  line : List Byte
  cap : Nat
deriving DecidableEq, Repr

/-- status codes of gstuff.h -/
def CONTINUE : Int := 0
def NEWPACKAGE : Int := 1
def FORCE_RESTART : Int := 2
def GARBAGE : Int := 3
def CRC_ERROR : Int := -1
def OVERFLOW : Int := -2
def STUFFING_ERROR : Int := -3

/-- `gstuff_autorecv::init(buf, len)` -/
def Recv.init (cap : Nat) : Recv := ⟨.s0, 0xFF, [], cap⟩

/-- `reset()` : crc = 0xff; sline_reset -/
def Recv.reset (r : Recv) : Recv := { r with crc := 0xFF, line := [] }

/-- `sline_putchar` with cursor = len: refuses when `len >= cap - 1`
(unsigned; the model assumes `cap ≥ 1`), otherwise writes `buf[len]`. -/
def Recv.putOk (r : Recv) : Bool := ¬ (r.cap - 1 ≤ r.line.length)

/-- label `__putchar__` -/
def putcharL (r : Recv) (c : Byte) : Recv × Int :=
  if r.putOk then
    ({ r with line := r.line ++ [c], crc := strmStep r.crc c, state := .s1 }, CONTINUE)
  else
    ({ r with state := .s0 }, OVERFLOW)

/-- label `__stop_handler__` -/
def stopL (r : Recv) : Recv × Int :=
  if r.crc ≠ 0 then ({ r with state := .s0 }, CRC_ERROR)
  else ({ r with line := r.line.dropLast, state := .s0 }, NEWPACKAGE)  -- sline_backspace(&line, 1)

/-- `gstuff_autorecv::newchar` (after the repairs of the invalid-escape branch
and of the repeated start marker when start = stop) -/
def newchar (ctx : Ctx) (r0 : Recv) (c : Byte) : Recv × Int :=
  -- case 0: reset(); state = 4; goto __start__;
  let r := if r0.state = .s0 then { r0.reset with state := .s4 } else r0
  match r.state with
  | .s0 => (r, -4)  -- unreachable
  | .s4 =>
    if c = ctx.start then ({ r.reset with state := .s1 }, CONTINUE)
    else (r, GARBAGE)
  | .s1 =>
    if c = ctx.start ∧ ctx.start ≠ ctx.stop then
      ({ r.reset with state := .s1 }, FORCE_RESTART)
    else if c = ctx.start ∧ r.line.isEmpty then
      (r, CONTINUE)                       -- repeated start marker (start = stop)
    else if c = ctx.stop then stopL r
    else if c = ctx.stub then ({ r with state := .s2 }, CONTINUE)
    else putcharL r c
  | .s2 =>
    if c = ctx.stubStart then putcharL r ctx.start
    else if c = ctx.stubStop then putcharL r ctx.stop
    else if c = ctx.stubStub then putcharL r ctx.stub
    else if c = ctx.start then ({ r.reset with state := .s1 }, FORCE_RESTART)
    else ({ r with state := .s0 }, STUFFING_ERROR)

/-- feed a byte string, collecting the status of every byte -/
def feed (ctx : Ctx) : Recv → List Byte → Recv × List Int
  | r, [] => (r, [])
  | r, c :: cs =>
    let (r1, s) := newchar ctx r c
    let (r2, ss) := feed ctx r1 cs
    (r2, s :: ss)

/-! ### legacy receiver gstuff_autorecv_newchar_v1 -/

/-- `autom->state`: 0 = a marker was the last event (reset, then as 1), 1 = in frame,
2 = after the escape byte, 3 = hunt for the marker (after `setbuf`, DATA_ERROR, OVERFLOW;
added by `fix: legacy receiver hunts for the start marker`) -/
inductive LSt | l0 | l1 | l2 | l3
deriving DecidableEq, Repr

structure LRecv where
  state : LSt
  crc : BitVec 8
  line : List Byte
  cap : Nat
deriving DecidableEq, Repr

/-- `gstuff_autorecv_setbuf_v1`: sline_init, reset, `state = 3` -/
def LRecv.init (cap : Nat) : LRecv := ⟨.l3, 0xFF, [], cap⟩
def LDATA_ERROR : Int := -3

/-- label `__putchar__` of the legacy receiver: a refused byte ends the frame, `goto __hunt__` -/
def lputchar (r : LRecv) (c : Byte) : LRecv × Int :=
  if ¬ (r.cap - 1 ≤ r.line.length) then
    ({ r with line := r.line ++ [c], crc := strmStep r.crc c, state := .l1 }, CONTINUE)
  else ({ r with state := .l3 }, OVERFLOW)

def lnewchar (r0 : LRecv) (c : Byte) : LRecv × Int :=
  -- case 3: everything in front of the next marker is skipped; the marker falls through to case 0
  if r0.state = .l3 ∧ c ≠ legStart then (r0, CONTINUE) else
  -- case 0: reset, state = 1, fall through to case 1
  let r := if r0.state = .l0 ∨ r0.state = .l3 then { r0 with crc := 0xFF, line := [], state := .l1 } else r0
  match r.state with
  | .l0 => (r, -4)
  | .l3 => (r, -4)
  | .l1 =>
    if c = legStart then
      if r.line.isEmpty then (r, CONTINUE)
      else if r.crc ≠ 0 then ({ r with state := .l0 }, CRC_ERROR)
      else ({ r with state := .l0 }, NEWPACKAGE)      -- NB: the CRC byte stays in the line
    else if c = legStub then ({ r with state := .l2 }, CONTINUE)
    else lputchar r c
  | .l2 =>
    if c = legStubStart then lputchar r legStart
    else if c = legStubStub then lputchar r legStub
    else if c = legStart then ({ r with state := .l0 }, LDATA_ERROR)  -- the marker itself opens the next frame
    else ({ r with state := .l3 }, LDATA_ERROR)                        -- goto __hunt__

/-- how the user of the legacy receiver reads a packet at NEWPACKAGE — there is no
accessor, the struct is read directly: `sline_getline(&autom->line)` gives the bytes,
`sline_size(&autom->line)` their number.  The legacy receiver does NOT strip the CRC-8
(the configurable one does `sline_backspace(&line, 1)`), so what the API hands over is
payload ++ [crc], `size = n + 1`. -/
def LRecv.getline (r : LRecv) : List Byte := r.line
def LRecv.size (r : LRecv) : Nat := r.line.length
/-- the packet under the convention every user of the legacy receiver has to follow:
the first `size - 1` bytes -/
def LRecv.packet (r : LRecv) : List Byte := r.getline.take (r.size - 1)

def lfeed : LRecv → List Byte → LRecv × List Int
  | r, [] => (r, [])
  | r, c :: cs =>
    let (r1, s) := lnewchar r c
    let (r2, ss) := lfeed r1 cs
    (r2, s :: ss)

end Igris.Gstuff
