/-
  C04 — lemmas of the extension round: the encoder at the level of its buffer
  writes (`emit`, `gstuffingVW`) equals the list-level encoder and never stores
  outside a buffer of 2n+4 bytes.
-/
import IgrisModel.C04.Lemmas
import IgrisModel.C04.Drv
namespace Igris.Gstuff
open Igris.Proto Igris.C17

theorem take_set_succ {α : Type} (l : List α) (i : Nat) (a : α) (h : i < l.length) :
    (l.set i a).take (i + 1) = l.take i ++ [a] := by
  induction l generalizing i with
  | nil => simp at h
  | cons x xs ih =>
    cases i with
    | zero => simp
    | succ j =>
      simp only [List.length_cons] at h
      simp only [List.set_cons_succ, List.take_succ_cons, List.cons_append, List.cons.injEq, true_and]
      exact ih j (by omega)

/-- a run of `*outdata++ = b` -/
def emitAll (st : Option (List Byte × Nat)) (bs : List Byte) : Option (List Byte × Nat) := bs.foldl emit st

theorem emitAll_append (st : Option (List Byte × Nat)) (a b : List Byte) :
    emitAll st (a ++ b) = emitAll (emitAll st a) b := by simp [emitAll, List.foldl_append]

/-- a run that fits: every store is inside the buffer, the pointer advances by the
number of bytes, the bytes land in order, the buffer keeps its size -/
theorem emitAll_some (out : List Byte) (pos : Nat) (bs : List Byte) (h : pos + bs.length ≤ out.length) :
    ∃ out', emitAll (some (out, pos)) bs = some (out', pos + bs.length) ∧ out'.length = out.length ∧
      out'.take (pos + bs.length) = out.take pos ++ bs := by
  induction bs generalizing out pos with
  | nil => exact ⟨out, rfl, rfl, by simp⟩
  | cons b bs ih =>
    simp only [List.length_cons] at h
    have hp : pos < out.length := by omega
    obtain ⟨out', e1, e2, e3⟩ := ih (out.set pos b) (pos + 1) (by simp only [List.length_set]; omega)
    refine ⟨out', ?_, by rw [e2, List.length_set], ?_⟩
    · simp only [emitAll, List.foldl_cons, emit, hp, if_true] at e1 ⊢
      rw [e1]; simp only [List.length_cons]; congr 2; omega
    · have : pos + (b :: bs).length = pos + 1 + bs.length := by simp only [List.length_cons]; omega
      rw [this, e3, take_set_succ out pos b hp]; simp

/-- a run that does not fit faults -/
theorem emitAll_fault (out : List Byte) (pos : Nat) (bs : List Byte) (hp : pos ≤ out.length)
    (h : out.length < pos + bs.length) : emitAll (some (out, pos)) bs = none := by
  induction bs generalizing out pos with
  | nil => simp at h; omega
  | cons b bs ih =>
    simp only [List.length_cons] at h
    by_cases hlt : pos < out.length
    · simp only [emitAll, List.foldl_cons, emit, hlt, if_true]
      exact ih (out.set pos b) (pos + 1) (by simp only [List.length_set]; omega)
        (by simp only [List.length_set]; omega)
    · have : ∀ l : List Byte, l.foldl emit none = none := by
        intro l; induction l with
        | nil => rfl
        | cons x xs ihx => simpa [emit] using ihx
      simp only [emitAll, List.foldl_cons, emit, hlt, if_false, this]

theorem stuffByteW_eq (ctx : Ctx) (st : Option (List Byte × Nat)) (c : Byte) :
    stuffByteW ctx st c = emitAll st (stuffByte ctx c) := by
  unfold stuffByteW stuffByte
  split
  · rfl
  · split
    · rfl
    · split <;> rfl

theorem stuffPieceW_eq (ctx : Ctx) (crc : BitVec 8) (w : Option (List Byte × Nat)) (piece : List Byte) :
    piece.foldl (fun (st : BitVec 8 × Option (List Byte × Nat)) c => (strmStep st.1 c, stuffByteW ctx st.2 c)) (crc, w) =
      (piece.foldl strmStep crc, emitAll w (piece.flatMap (stuffByte ctx))) := by
  induction piece generalizing crc w with
  | nil => simp [emitAll]
  | cons c cs ih =>
    rw [List.foldl_cons, ih]
    simp only [List.flatMap_cons, emitAll_append, stuffByteW_eq, List.foldl_cons]

theorem stuffPiecesW_eq (ctx : Ctx) (crc : BitVec 8) (w : Option (List Byte × Nat)) (pieces : List (List Byte)) :
    pieces.foldl (fun st piece => piece.foldl
      (fun (st : BitVec 8 × Option (List Byte × Nat)) c => (strmStep st.1 c, stuffByteW ctx st.2 c)) st) (crc, w) =
      (pieces.flatten.foldl strmStep crc, emitAll w (pieces.flatten.flatMap (stuffByte ctx))) := by
  induction pieces generalizing crc w with
  | nil => simp [emitAll]
  | cons p ps ih =>
    rw [List.foldl_cons, stuffPieceW_eq, ih]
    simp only [List.flatten_cons, List.foldl_append, List.flatMap_append, emitAll_append]

/-- the write-level encoder performs exactly the stores of the list-level frame, in order -/
theorem gstuffingVW_eq (ctx : Ctx) (pieces : List (List Byte)) (out : List Byte) :
    gstuffingVW ctx pieces out = emitAll (some (out, 0)) (gstuffingV ctx pieces) := by
  unfold gstuffingVW
  rw [stuffPiecesW_eq]
  simp only [stuffByteW_eq, gstuffingV, stuffPieces_eq]
  simp only [emitAll, List.foldl_append, List.foldl_cons, List.foldl_nil]

/-! ### the traces the driver prints -/

/-- the receiver as a decoder: the packets handed to the user (`cstr()`/`size()` at every
NEWPACKAGE) while the stream is fed byte by byte to a freshly initialised receiver with a
`cap`-byte buffer — the second component of what the driver prints -/
def decode (ctx : Ctx) (cap : Nat) (stream : List Byte) : List (List Byte) :=
  (feedTrace ctx (Recv.init cap) stream).2


theorem stsChar_continue : stsChar CONTINUE = 'C' := by decide
theorem stsChar_newpackage : stsChar NEWPACKAGE = 'N' := by decide

/-- a feed that answers CONTINUE … CONTINUE NEWPACKAGE prints `C…CN` and hands over exactly
one packet: the line of the final receiver -/
theorem feedTrace_of_feed (ctx : Ctx) (s : List Byte) (r r' : Recv) (ss : List Int)
    (hf : feed ctx r s = (r', ss ++ [NEWPACKAGE])) (hc : AllCont ss) :
    feedTrace ctx r s = (List.replicate ss.length 'C' ++ ['N'], [r'.line]) := by
  induction s generalizing r ss with
  | nil => simp [feed] at hf
  | cons c cs ih =>
    simp only [feed] at hf
    cases ss with
    | nil =>
      simp only [List.nil_append, Prod.mk.injEq, List.cons.injEq] at hf
      obtain ⟨h1, h2, h3⟩ := hf
      have hcs : cs = [] := by
        have := feed_length ctx (newchar ctx r c).1 cs
        rw [h3] at this
        exact List.eq_nil_of_length_eq_zero this.symm
      subst hcs
      simp only [feed] at h1
      simp [feedTrace, h2, stsChar_newpackage, h1]
    | cons t ts =>
      simp only [List.cons_append, Prod.mk.injEq, List.cons.injEq] at hf
      obtain ⟨h1, h2, h3⟩ := hf
      have ht : t = CONTINUE := hc t (by simp)
      have := ih (newchar ctx r c).1 ts (by rw [← h1, ← h3]) (fun x hx => hc x (by simp [hx]))
      simp only [feedTrace, this, h2, ht, stsChar_continue]
      simp [CONTINUE, NEWPACKAGE, List.replicate_succ]

theorem lfeed_length (r : LRecv) (s : List Byte) : (lfeed r s).2.length = s.length := by
  induction s generalizing r with
  | nil => simp [lfeed]
  | cons c cs ih => simp [lfeed, ih]

theorem lfeedTrace_of_lfeed (s : List Byte) (r r' : LRecv) (ss : List Int)
    (hf : lfeed r s = (r', ss ++ [NEWPACKAGE])) (hc : AllCont ss) :
    lfeedTrace r s = (List.replicate ss.length 'C' ++ ['N'], [r'.line.dropLast]) := by
  induction s generalizing r ss with
  | nil => simp [lfeed] at hf
  | cons c cs ih =>
    simp only [lfeed] at hf
    cases ss with
    | nil =>
      simp only [List.nil_append, Prod.mk.injEq, List.cons.injEq] at hf
      obtain ⟨h1, h2, h3⟩ := hf
      have hcs : cs = [] := by
        have := lfeed_length (lnewchar r c).1 cs
        rw [h3] at this
        exact List.eq_nil_of_length_eq_zero this.symm
      subst hcs
      simp only [lfeed] at h1
      simp [lfeedTrace, h2, stsChar_newpackage, h1]
    | cons t ts =>
      simp only [List.cons_append, Prod.mk.injEq, List.cons.injEq] at hf
      obtain ⟨h1, h2, h3⟩ := hf
      have ht : t = CONTINUE := hc t (by simp)
      have := ih (lnewchar r c).1 ts (by rw [← h1, ← h3]) (fun x hx => hc x (by simp [hx]))
      simp only [lfeedTrace, this, h2, ht, stsChar_continue]
      simp [CONTINUE, NEWPACKAGE, List.replicate_succ]

/-- legacy round trip from a receiver in state 0 (a marker was the last event) or 3
(hunting: freshly set up, after DATA_ERROR / OVERFLOW) -/
theorem roundtrip_leg_idle (p : List Byte) (r : LRecv) (hs : r.state = .l0 ∨ r.state = .l3)
    (hcap : p.length + 2 ≤ r.cap) :
    ∃ ss, lfeed r (gstuffingLeg p) =
        ({ r with state := .l0, crc := 0#8, line := p ++ [strmcrc8 0xFF#8 p] }, ss ++ [NEWPACKAGE]) ∧
      AllCont ss := by
  rw [gstuffingLeg_eq]
  have hbody : p.flatMap legStuffByte ++ legStuffByte (strmcrc8 0xFF#8 p) =
      (p ++ [strmcrc8 0xFF#8 p]).flatMap legStuffByte := by simp
  unfold encodeLeg
  rw [hbody]
  obtain ⟨st, crc, line, cap⟩ := r
  simp only at hs hcap
  have hfirst : lnewchar ⟨st, crc, line, cap⟩ legStart = (⟨.l1, 0xFF#8, [], cap⟩, CONTINUE) := by
    rcases hs with hs | hs <;> subst hs <;> simp [lnewchar]
  simp only [lfeed, hfirst, lfeed_append]
  obtain ⟨e1, a1⟩ := lfeed_stuffed (p ++ [strmcrc8 0xFF#8 p]) ⟨.l1, 0xFF#8, [], cap⟩ rfl (by simp; omega)
  rw [e1]
  have hcrc : (p ++ [strmcrc8 0xFF#8 p]).foldl strmStep 0xFF#8 = 0#8 := by
    rw [List.foldl_append]; simp only [List.foldl_cons, List.foldl_nil]
    exact strmStep_self _
  simp only [List.nil_append, hcrc]
  have hlast : lnewchar ⟨.l1, 0#8, p ++ [strmcrc8 0xFF#8 p], cap⟩ legStart =
      (⟨.l0, 0#8, p ++ [strmcrc8 0xFF#8 p], cap⟩, NEWPACKAGE) := by
    simp [lnewchar]
  rw [hlast]
  refine ⟨CONTINUE :: (lfeed ⟨.l1, 0xFF#8, [], cap⟩ ((p ++ [strmcrc8 0xFF#8 p]).flatMap legStuffByte)).2, ?_, ?_⟩
  · simp
  · intro s hs
    rcases List.mem_cons.mp hs with rfl | hs
    · rfl
    · exact a1 s hs

end Igris.Gstuff
