import IgrisModel.C04.Drv
def main : IO Unit := Igris.Proto.run () Igris.Gstuff.stepLine
