/-
  C04 / C05 — BUFFER-LEVEL model of the receive line and of the two receivers.

  `Model.lean` keeps the line as a `List Byte` (the bytes `buf[0 .. len)`), in
  which a write outside the buffer cannot even be expressed.  Here the line is
  the C object `struct sline { char *buf; unsigned cap, len, cursor; }` of
  igris/datastruct/sline.h: `buf` is the memory block the caller handed over
  (its `length` is the real size of that block, `cap` is what the caller SAID it
  is), the three counters are 32-bit unsigned, and every access `buf[i]` /
  `memmove` with an index outside the block is an explicit fault (`none`).
  `sline_putchar`, `sline_backspace`, `sline_reset`, `sline_init`,
  `sline_getline`, `sline_size`, `sline_empty` are transcribed statement by
  statement, including the `memmove` branches taken when `cursor != len`.

  The receivers `bnewchar` / `blnewchar` are `gstuff_autorecv::newchar` and
  `gstuff_autorecv_newchar_v1` over that object.  C05/LemmasBuf.lean proves
  that they never fault and refine `newchar` / `lnewchar` of Model.lean.
-/
import IgrisModel.C04.Model
namespace Igris.Gstuff
open Igris.Proto Igris.C17

/-- `struct sline` -/
structure Sline where
  buf : List Byte
  cap : BitVec 32
  len : BitVec 32
  cursor : BitVec 32
deriving DecidableEq, Repr

/-- `memmove(buf + dst, buf + src, n)` inside the block; `none` = a byte outside it is touched -/
def memmoveIn (buf : List Byte) (dst src n : Nat) : Option (List Byte) :=
  if src + n ≤ buf.length ∧ dst + n ≤ buf.length then
    some (buf.take dst ++ (buf.drop src).take n ++ buf.drop (dst + n))
  else none

/-- `buf[i] = c`; `none` = index outside the block -/
def storeAt (buf : List Byte) (i : Nat) (c : Byte) : Option (List Byte) :=
  if i < buf.length then some (buf.set i c) else none

/-- `sline_init(sl, buffer, bufcap)` = `sline_setbuf` + `sline_reset` -/
def Sline.init (buf : List Byte) (cap : BitVec 32) : Sline := ⟨buf, cap, 0, 0⟩

/-- `sline_reset` -/
def Sline.reset (sl : Sline) : Sline := { sl with len := 0, cursor := 0 }

/-- `sline_empty` -/
def Sline.empty (sl : Sline) : Bool := sl.len = 0

/-- `sline_size` -/
def Sline.size (sl : Sline) : Nat := sl.len.toNat

/-- the tail of `sline_putchar`: the `memmove` of the right part when the cursor
is not at the end, then `buf[cursor++] = c; len++; return 1;` -/
def Sline.store (sl : Sline) (c : Byte) : Option (Sline × Bool) :=
  let moved :=
    if sl.cursor ≠ sl.len then
      memmoveIn sl.buf (sl.cursor.toNat + 1) sl.cursor.toNat (sl.len - sl.cursor).toNat
    else some sl.buf
  match moved with
  | none => none
  | some b1 =>
    match storeAt b1 sl.cursor.toNat c with
    | none => none
    | some b2 => some ({ sl with buf := b2, cursor := sl.cursor + 1, len := sl.len + 1 }, true)

/-- `sline_putchar` (after `fix: sline_putchar refuses when the line has no
buffer`): `if (len + 1 >= cap) return 0;` in 32-bit unsigned arithmetic -/
def Sline.putchar (sl : Sline) (c : Byte) : Option (Sline × Bool) :=
  if sl.len + 1 ≥ sl.cap then some (sl, false) else sl.store c

/-- `sline_putchar` BEFORE the repair: `if (len >= cap - 1) return 0;` where
`cap - 1` wraps to `UINT_MAX` for `cap = 0` (kept for the witness theorem) -/
def Sline.putcharOld (sl : Sline) (c : Byte) : Option (Sline × Bool) :=
  if sl.len ≥ sl.cap - 1 then some (sl, false) else sl.store c

/-- `sline_backspace(sl, count)` -/
def Sline.backspace (sl : Sline) (count : BitVec 32) : Option Sline :=
  let count := if count > sl.cursor then sl.cursor else count
  let len := sl.len - count
  let cursor := sl.cursor - count
  if cursor ≠ len then
    match memmoveIn sl.buf cursor.toNat (cursor.toNat + count.toNat) (len - cursor).toNat with
    | none => none
    | some b => some { sl with buf := b, len := len, cursor := cursor }
  else some { sl with len := len, cursor := cursor }

/-- `sline_getline`: `if (sl->cap) buf[len] = 0; return buf;` — the caller reads `sline_size` bytes of it.
(Round 3b: the guard `if (sl->cap)` of `fix: sline_getline writes no terminator into a line without a buffer`
(609dfa2, C15) is now in the model: a line without a buffer stores nothing.) -/
def Sline.getline (sl : Sline) : Option (Sline × List Byte) :=
  if sl.cap = 0 then some (sl, sl.buf.take sl.len.toNat) else
  match storeAt sl.buf sl.len.toNat 0 with
  | none => none
  | some b => some ({ sl with buf := b }, b.take sl.len.toNat)

/-! ### configurable receiver over the C line object -/

structure BRecv where
  state : St
  crc : BitVec 8
  line : Sline
deriving DecidableEq, Repr

/-- `gstuff_autorecv::init(buf, len)`: `state = 0; sline_init(&line, buf, len); reset();`
(`len` is an `int` converted to `unsigned`: the 32-bit pattern) -/
def BRecv.init (buf : List Byte) (len : BitVec 32) : BRecv := ⟨.s0, 0xFF, Sline.init buf len⟩

/-- `gstuff_autorecv(ctx)` without `setbuf`: `line = {}` (buf NULL, cap 0), `crc = 0`, `state = 0` -/
def BRecv.noBuf : BRecv := ⟨.s0, 0, ⟨[], 0, 0, 0⟩⟩

def BRecv.reset (r : BRecv) : BRecv := { r with crc := 0xFF, line := r.line.reset }

/-- label `__putchar__` -/
def bputcharL (r : BRecv) (c : Byte) : Option (BRecv × Int) :=
  match r.line.putchar c with
  | none => none
  | some (sl, true) => some ({ r with line := sl, crc := strmStep r.crc c, state := .s1 }, CONTINUE)
  | some (_, false) => some ({ r with state := .s0 }, OVERFLOW)

/-- label `__stop_handler__` -/
def bstopL (r : BRecv) : Option (BRecv × Int) :=
  if r.crc ≠ 0 then some ({ r with state := .s0 }, CRC_ERROR)
  else
    match r.line.backspace 1 with
    | none => none
    | some sl => some ({ r with line := sl, state := .s0 }, NEWPACKAGE)

/-- `gstuff_autorecv::newchar` over the C line object -/
def bnewchar (ctx : Ctx) (r0 : BRecv) (c : Byte) : Option (BRecv × Int) :=
  let r := if r0.state = .s0 then { r0.reset with state := .s4 } else r0
  match r.state with
  | .s0 => some (r, -4)
  | .s4 =>
    if c = ctx.start then some ({ r.reset with state := .s1 }, CONTINUE)
    else some (r, GARBAGE)
  | .s1 =>
    if c = ctx.start ∧ ctx.start ≠ ctx.stop then
      some ({ r.reset with state := .s1 }, FORCE_RESTART)
    else if c = ctx.start ∧ r.line.empty then
      some (r, CONTINUE)
    else if c = ctx.stop then bstopL r
    else if c = ctx.stub then some ({ r with state := .s2 }, CONTINUE)
    else bputcharL r c
  | .s2 =>
    if c = ctx.stubStart then bputcharL r ctx.start
    else if c = ctx.stubStop then bputcharL r ctx.stop
    else if c = ctx.stubStub then bputcharL r ctx.stub
    else if c = ctx.start then some ({ r.reset with state := .s1 }, FORCE_RESTART)
    else some ({ r with state := .s0 }, STUFFING_ERROR)

def bfeed (ctx : Ctx) : BRecv → List Byte → Option (BRecv × List Int)
  | r, [] => some (r, [])
  | r, c :: cs =>
    match bnewchar ctx r c with
    | none => none
    | some (r1, s) =>
      match bfeed ctx r1 cs with
      | none => none
      | some (r2, ss) => some (r2, s :: ss)

/-- `cstr()` + `size()`: what the user reads after NEWPACKAGE -/
def BRecv.cstr (r : BRecv) : Option (BRecv × List Byte) :=
  match r.line.getline with
  | none => none
  | some (sl, s) => some ({ r with line := sl }, s)

/-! ### legacy receiver over the C line object -/

structure BLRecv where
  state : LSt
  crc : BitVec 8
  line : Sline
deriving DecidableEq, Repr

/-- `gstuff_autorecv_setbuf_v1(autom, buf, len)` -/
def BLRecv.init (buf : List Byte) (len : BitVec 32) : BLRecv := ⟨.l3, 0xFF, Sline.init buf len⟩

def blputchar (r : BLRecv) (c : Byte) : Option (BLRecv × Int) :=
  match r.line.putchar c with
  | none => none
  | some (sl, true) => some ({ r with line := sl, crc := strmStep r.crc c, state := .l1 }, CONTINUE)
  | some (_, false) => some ({ r with state := .l3 }, OVERFLOW)

def blnewchar (r0 : BLRecv) (c : Byte) : Option (BLRecv × Int) :=
  if r0.state = .l3 ∧ c ≠ legStart then some (r0, CONTINUE) else
  let r := if r0.state = .l0 ∨ r0.state = .l3 then { r0 with crc := 0xFF, line := r0.line.reset, state := .l1 } else r0
  match r.state with
  | .l0 => some (r, -4)
  | .l3 => some (r, -4)
  | .l1 =>
    if c = legStart then
      if r.line.empty then some (r, CONTINUE)
      else if r.crc ≠ 0 then some ({ r with state := .l0 }, CRC_ERROR)
      else some ({ r with state := .l0 }, NEWPACKAGE)
    else if c = legStub then some ({ r with state := .l2 }, CONTINUE)
    else blputchar r c
  | .l2 =>
    if c = legStubStart then blputchar r legStart
    else if c = legStubStub then blputchar r legStub
    else if c = legStart then some ({ r with state := .l0 }, LDATA_ERROR)
    else some ({ r with state := .l3 }, LDATA_ERROR)

def blfeed : BLRecv → List Byte → Option (BLRecv × List Int)
  | r, [] => some (r, [])
  | r, c :: cs =>
    match blnewchar r c with
    | none => none
    | some (r1, s) =>
      match blfeed r1 cs with
      | none => none
      | some (r2, ss) => some (r2, s :: ss)

/-- how a packet is read through the legacy API: `sline_getline(&autom->line)`,
`sline_size(&autom->line)`.  The legacy receiver leaves the CRC byte in the line. -/
def BLRecv.getline (r : BLRecv) : Option (BLRecv × List Byte) :=
  match r.line.getline with
  | none => none
  | some (sl, s) => some ({ r with line := sl }, s)

end Igris.Gstuff
