/-
  C04 / C05 — lemmas of round 3: C integer widths of the encoders, the encoder into a
  re-used buffer, sessions on long-lived objects, the linear-time forms the driver uses
  for long inputs.
-/
import IgrisModel.C05.LemmasBuf
import IgrisModel.C04.Drv2
namespace Igris.Gstuff
open Igris.Proto Igris.C17

/-! ### widths -/

theorem retInt_of_lt (n : Nat) (h : n < 2 ^ 31) : retInt n = n := by
  unfold retInt
  rw [BitVec.toInt_eq_toNat_cond]
  simp only [BitVec.toNat_ofNat]
  have : n % 2 ^ 32 = n := Nat.mod_eq_of_lt (by omega)
  rw [this]
  split <;> omega

theorem retInt_neg (n : Nat) (h1 : 2 ^ 31 ≤ n) (h2 : n < 2 ^ 32) : retInt n < 0 := by
  unfold retInt
  rw [BitVec.toInt_eq_toNat_cond]
  simp only [BitVec.toNat_ofNat]
  have : n % 2 ^ 32 = n := Nat.mod_eq_of_lt h2
  rw [this]
  split <;> omega

theorem intToSize_of_lt (n : Nat) (h : n < 2 ^ 31) : intToSize n = n := by
  unfold intToSize
  have hm : (BitVec.ofNat 32 n).msb = false := by
    rw [BitVec.msb_eq_decide]
    simp only [BitVec.toNat_ofNat, decide_eq_false_iff_not, Nat.not_le]
    have : n % 2 ^ 32 = n := Nat.mod_eq_of_lt (by omega)
    omega
  rw [BitVec.signExtend_eq_setWidth_of_msb_false hm]
  simp only [BitVec.toNat_setWidth, BitVec.toNat_ofNat]
  omega

theorem iovSum_aux (pieces : List (List Byte)) (acc : BitVec 64) :
    (pieces.foldl (fun s p => s + BitVec.ofNat 64 p.length) acc).toNat =
      (acc.toNat + (pieces.map List.length).sum) % 2 ^ 64 := by
  induction pieces generalizing acc with
  | nil => simp [Nat.mod_eq_of_lt acc.isLt]
  | cons p ps ih =>
    simp only [List.foldl_cons, List.map_cons, List.sum_cons]
    rw [ih]
    simp only [BitVec.toNat_add, BitVec.toNat_ofNat]
    omega

theorem iovSum_toNat (pieces : List (List Byte)) :
    (iovSum pieces).toNat = (pieces.map List.length).sum % 2 ^ 64 := by
  unfold iovSum; rw [iovSum_aux]; simp

/-! ### encoder: linear form, re-used buffer, widths -/

theorem gstuffingV_eq_encode (ctx : Ctx) (pieces : List (List Byte)) :
    gstuffingV ctx pieces = encode ctx pieces.flatten := by
  simp [gstuffingV, stuffPieces_eq, encode, strmcrc8]

theorem encodeLin_eq (ctx : Ctx) (p : List Byte) : encodeLin ctx p = gstuffingV ctx [p] := by
  rw [gstuffingV_eq_encode]; simp [encodeLin, encode]

theorem encodeLegLin_eq (p : List Byte) : encodeLegLin p = gstuffingLeg p := by
  rw [gstuffingLeg_eq]; simp [encodeLegLin, encodeLeg]

/-- the bytes behind a run of stores are not touched -/
theorem emitAll_drop (out : List Byte) (pos : Nat) (bs : List Byte) (h : pos + bs.length ≤ out.length) :
    ∃ out', emitAll (some (out, pos)) bs = some (out', pos + bs.length) ∧
      out'.drop (pos + bs.length) = out.drop (pos + bs.length) := by
  induction bs generalizing out pos with
  | nil => exact ⟨out, rfl, rfl⟩
  | cons b bs ih =>
    simp only [List.length_cons] at h
    have hp : pos < out.length := by omega
    obtain ⟨out', e1, e2⟩ := ih (out.set pos b) (pos + 1) (by simp only [List.length_set]; omega)
    refine ⟨out', ?_, ?_⟩
    · simp only [emitAll, List.foldl_cons, emit, hp, if_true] at e1 ⊢
      rw [e1]; simp only [List.length_cons]; congr 2; omega
    · have : pos + (b :: bs).length = pos + 1 + bs.length := by simp only [List.length_cons]; omega
      rw [this, e2, List.drop_set]
      have : ¬ pos + 1 + bs.length ≤ pos := by omega
      simp [this]

/-- THE ENCODER INTO A RE-USED BUFFER: whatever the buffer holds (e.g. the previous frame),
if the frame fits, no store faults, the first `L` bytes are the frame, the return value is
`L`, the buffer keeps its size and every byte behind the frame keeps its value -/
theorem gstuffingVW_reused (ctx : Ctx) (pieces : List (List Byte)) (out : List Byte)
    (h : (gstuffingV ctx pieces).length ≤ out.length) :
    ∃ out', gstuffingVW ctx pieces out = some (out', (gstuffingV ctx pieces).length) ∧
      out'.take (gstuffingV ctx pieces).length = gstuffingV ctx pieces ∧ out'.length = out.length ∧
      out'.drop (gstuffingV ctx pieces).length = out.drop (gstuffingV ctx pieces).length := by
  obtain ⟨o1, e1, e2, e3⟩ := emitAll_some out 0 (gstuffingV ctx pieces) (by simpa using h)
  obtain ⟨o2, f1, f2⟩ := emitAll_drop out 0 (gstuffingV ctx pieces) (by simpa using h)
  rw [e1] at f1
  simp only [Option.some.injEq, Prod.mk.injEq] at f1
  obtain ⟨rfl, _⟩ := f1
  refine ⟨o1, ?_, ?_, e2, ?_⟩
  · rw [gstuffingVW_eq, e1]; simp
  · simpa using e3
  · simpa using f2

theorem gstuffingV_length_le (ctx : Ctx) (pieces : List (List Byte)) :
    (gstuffingV ctx pieces).length ≤ 2 * (pieces.map List.length).sum + 4 := by
  have h1 := flatMap_stuff_length_le ctx pieces.flatten
  have h2 := stuffByte_length_le ctx (strmcrc8 0xFF#8 pieces.flatten)
  have hl : pieces.flatten.length = (pieces.map List.length).sum := by simp [List.length_flatten]
  rw [gstuffingV_eq_encode, ← hl]
  simp only [encode, List.length_cons, List.length_append, List.length_nil]; omega

/-- below the bound the self-sizing overload with the C widths is the list-level encoder -/
theorem gstuffingVecC_eq (ctx : Ctx) (pieces : List (List Byte))
    (h : 2 * (pieces.map List.length).sum + 4 < 2 ^ 31) :
    gstuffingVecC ctx pieces = some (gstuffingV ctx pieces) := by
  have hlen := gstuffingV_length_le ctx pieces
  have hsz : (vecBufSizeC (iovSum pieces)).toNat = 2 * (pieces.map List.length).sum + 4 := by
    simp only [vecBufSizeC, BitVec.toNat_add, BitVec.toNat_mul, iovSum_toNat]
    have h2 : BitVec.toNat (2 : BitVec 64) = 2 := rfl
    have h4 : BitVec.toNat (4 : BitVec 64) = 4 := rfl
    rw [h2, h4]
    omega
  obtain ⟨out', e1, e2, e3, _⟩ := gstuffingVW_reused ctx pieces
    (List.replicate (2 * (pieces.map List.length).sum + 4) 0) (by simpa using hlen)
  simp only [gstuffingVecC, hsz, e1]
  rw [intToSize_of_lt _ (by omega)]
  simp [hlen, e2]
/-! ### sessions -/

/-- `bfeedS` (what a session's feed step runs) never faults on a well-formed line object with
capacity ≥ 1 and yields the list-level statuses and packets -/
theorem bfeedS_eq (ctx : Ctx) (r : BRecv) (h : SlineOK r.line) (hcap : 1 ≤ r.line.cap.toNat) (bs : List Byte) :
    ∃ r', bfeedS ctx r bs = some (r', (feed ctx r.abs bs).2, (feedTrace ctx r.abs bs).2) ∧
      r'.abs = (feed ctx r.abs bs).1 ∧ SlineOK r'.line ∧ r'.line.cap = r.line.cap := by
  induction bs generalizing r with
  | nil => exact ⟨r, rfl, rfl, h, rfl⟩
  | cons c cs ih =>
    obtain ⟨r1, e1, e2, e3, _, _⟩ := bnewchar_refines ctx r h c
    have ecap := refines_cap ctx r c r1 e2
    by_cases hs : (newchar ctx r.abs c).2 = NEWPACKAGE
    · obtain ⟨r2, g1, g2, g3⟩ := cstr_ok r1 e3 (by rw [ecap]; exact hcap)
      have hc2 : r2.line.cap = r1.line.cap := by
        have := congrArg Recv.cap g2
        exact BitVec.eq_of_toNat_eq this
      obtain ⟨r3, f1, f2, f3, f4⟩ := ih r2 g3 (by rw [hc2, ecap]; exact hcap)
      refine ⟨r3, ?_, ?_, f3, by rw [f4, hc2, ecap]⟩
      · simp only [bfeedS, e1, hs, if_true, g1, Option.map_some, f1, g2, e2, feedTrace, feed]
        simp
      · simp only [feed]; rw [f2, g2, e2]
    · obtain ⟨r3, f1, f2, f3, f4⟩ := ih r1 e3 (by rw [ecap]; exact hcap)
      refine ⟨r3, ?_, ?_, f3, by rw [f4, ecap]⟩
      · simp only [bfeedS, e1, hs, if_false, f1, e2, feedTrace, feed]
        simp
      · simp only [feed]; rw [f2, e2]

/-- the same for the legacy receiver of a session -/
theorem blfeedS_eq (r : BLRecv) (h : SlineOK r.line) (hcap : 1 ≤ r.line.cap.toNat) (bs : List Byte) :
    ∃ r', blfeedS r bs = some (r', (lfeed r.abs bs).2, (lfeedTrace r.abs bs).2) ∧
      r'.abs = (lfeed r.abs bs).1 ∧ SlineOK r'.line ∧ r'.line.cap = r.line.cap := by
  induction bs generalizing r with
  | nil => exact ⟨r, rfl, rfl, h, rfl⟩
  | cons c cs ih =>
    obtain ⟨r1, e1, e2, e3, _, _⟩ := blnewchar_refines r h c
    have ecap : r1.line.cap = r.line.cap := by
      have := congrArg LRecv.cap e2
      rw [lnewchar_cap] at this
      exact BitVec.eq_of_toNat_eq this
    by_cases hs : (lnewchar r.abs c).2 = NEWPACKAGE
    · obtain ⟨r2, g1, g2, g3⟩ := lgetline_ok r1 e3 (by rw [ecap]; exact hcap)
      have hc2 : r2.line.cap = r1.line.cap := by
        have := congrArg LRecv.cap g2
        exact BitVec.eq_of_toNat_eq this
      obtain ⟨r3, f1, f2, f3, f4⟩ := ih r2 g3 (by rw [hc2, ecap]; exact hcap)
      refine ⟨r3, ?_, ?_, f3, by rw [f4, hc2, ecap]⟩
      · simp only [blfeedS, e1, hs, if_true, g1, Option.map_some, f1, g2, e2, lfeedTrace, lfeed]
        simp
      · simp only [lfeed]; rw [f2, g2, e2]
    · obtain ⟨r3, f1, f2, f3, f4⟩ := ih r1 e3 (by rw [ecap]; exact hcap)
      refine ⟨r3, ?_, ?_, f3, by rw [f4, ecap]⟩
      · simp only [blfeedS, e1, hs, if_false, f1, e2, lfeedTrace, lfeed]
        simp
      · simp only [lfeed]; rw [f2, e2]

/-- one encoder step of a session -/
theorem sess_enc (s : Sess) (pieces : List (List Byte))
    (hfit : (gstuffingV s.ctx pieces).length ≤ s.out.length) :
    ∃ out', s.step (.enc pieces) = ({ s with out := out', frame := gstuffingV s.ctx pieces },
        .frame (retInt (gstuffingV s.ctx pieces).length) (gstuffingV s.ctx pieces)) ∧
      out'.length = s.out.length ∧
      out'.drop (gstuffingV s.ctx pieces).length = s.out.drop (gstuffingV s.ctx pieces).length := by
  obtain ⟨out', e1, e2, e3, e4⟩ := gstuffingVW_reused s.ctx pieces s.out hfit
  exact ⟨out', by simp only [Sess.step, e1, e2], e3, e4⟩

theorem allCont_eq_replicate {ss : List Int} (h : AllCont ss) : ss = List.replicate ss.length CONTINUE :=
  List.eq_replicate_iff.mpr ⟨rfl, h⟩

/-! ### the linear-time receivers of the driver (reversed line, cached length) simulate the model -/

def RecvR.abs (r : RecvR) : Recv := ⟨r.state, r.crc, r.rline.reverse, r.cap⟩
def RecvR.OK (r : RecvR) : Prop := r.len = r.rline.length

theorem putcharR_sim (r : RecvR) (h : r.OK) (c : Byte) :
    (putcharR r c).1.abs = (putcharL r.abs c).1 ∧ (putcharR r c).2 = (putcharL r.abs c).2 ∧ (putcharR r c).1.OK := by
  obtain ⟨st, crc, rl, len, cap⟩ := r
  simp only [RecvR.OK] at h; subst h
  simp only [putcharR, putcharL, Recv.putOk, RecvR.abs, List.length_reverse, decide_not, Bool.not_eq_eq_eq_not, Bool.not_true,
    decide_eq_false_iff_not]
  split <;> simp [RecvR.OK, RecvR.abs]

theorem stopR_sim (r : RecvR) (h : r.OK) :
    (stopR r).1.abs = (stopL r.abs).1 ∧ (stopR r).2 = (stopL r.abs).2 ∧ (stopR r).1.OK := by
  obtain ⟨st, crc, rl, len, cap⟩ := r
  simp only [RecvR.OK] at h; subst h
  by_cases hc : crc = 0#8
  · subst hc
    cases rl <;> simp [stopR, stopL, RecvR.OK, RecvR.abs]
  · simp [stopR, stopL, RecvR.OK, RecvR.abs, hc]

theorem newcharR_sim (ctx : Ctx) (r : RecvR) (h : r.OK) (c : Byte) :
    (newcharR ctx r c).1.abs = (newchar ctx r.abs c).1 ∧ (newcharR ctx r c).2 = (newchar ctx r.abs c).2 ∧
      (newcharR ctx r c).1.OK := by
  obtain ⟨st, crc, rl, len, cap⟩ := r
  have hp := fun (r : RecvR) (h : r.OK) x => putcharR_sim r h x
  have hs := fun (r : RecvR) (h : r.OK) => stopR_sim r h
  cases st
  · -- s0
    simp only [newcharR, newchar, RecvR.abs, RecvR.reset, Recv.reset, if_true]
    split <;> simp [RecvR.OK, RecvR.abs]
  · -- s4
    simp only [newcharR, newchar, RecvR.abs, RecvR.reset, Recv.reset]
    simp only [show (St.s4 = St.s0) = False by simp, if_false]
    split <;> simp [RecvR.OK, RecvR.abs] <;> exact h
  · -- s1
    simp only [newcharR, newchar, RecvR.abs, RecvR.reset, Recv.reset]
    simp only [show (St.s1 = St.s0) = False by simp, if_false, List.isEmpty_reverse]
    split
    · simp [RecvR.OK, RecvR.abs]
    · split
      · exact ⟨rfl, rfl, h⟩
      · split
        · exact hs ⟨.s1, crc, rl, len, cap⟩ h
        · split
          · exact ⟨rfl, rfl, h⟩
          · exact hp ⟨.s1, crc, rl, len, cap⟩ h c
  · -- s2
    simp only [newcharR, newchar, RecvR.abs, RecvR.reset, Recv.reset]
    simp only [show (St.s2 = St.s0) = False by simp, if_false]
    split
    · exact hp ⟨.s2, crc, rl, len, cap⟩ h _
    · split
      · exact hp ⟨.s2, crc, rl, len, cap⟩ h _
      · split
        · exact hp ⟨.s2, crc, rl, len, cap⟩ h _
        · split
          · simp [RecvR.OK, RecvR.abs]
          · exact ⟨rfl, rfl, h⟩

/-- the linear-time receiver of the driver computes the statuses (number of CONTINUE answers, the
other answers in order) and the packets of the list-level model -/
theorem feedR_eq (ctx : Ctx) (rr : RecvR) (h : rr.OK) (s : List Byte) (nc : Nat) (os : List Int)
    (ps : List (List Byte)) :
    (feedR ctx rr s nc os ps).1.abs = (feed ctx rr.abs s).1 ∧
    (feedR ctx rr s nc os ps).2.1 = nc + ((feed ctx rr.abs s).2.filter (· = CONTINUE)).length ∧
    (feedR ctx rr s nc os ps).2.2.1 = os.reverse ++ (feed ctx rr.abs s).2.filter (· ≠ CONTINUE) ∧
    (feedR ctx rr s nc os ps).2.2.2 = (feedTrace ctx rr.abs s).2.reverse ++ ps := by
  induction s generalizing rr nc os ps with
  | nil => simp [feedR, feed, feedTrace]
  | cons c cs ih =>
    obtain ⟨e1, e2, e3⟩ := newcharR_sim ctx rr h c
    have := ih (newcharR ctx rr c).1 e3
      (if (newcharR ctx rr c).2 = CONTINUE then nc + 1 else nc)
      (if (newcharR ctx rr c).2 = CONTINUE then os else (newcharR ctx rr c).2 :: os)
      (if (newcharR ctx rr c).2 = NEWPACKAGE then (newcharR ctx rr c).1.rline.reverse :: ps else ps)
    simp only [feedR, feed, feedTrace]
    rw [e1, e2] at this
    obtain ⟨t1, t2, t3, t4⟩ := this
    have hl : (newcharR ctx rr c).1.rline.reverse = (newchar ctx rr.abs c).1.line := by
      rw [← e1]; rfl
    rw [e2]
    refine ⟨t1, ?_, ?_, ?_⟩
    · rw [t2]; by_cases hc : (newchar ctx rr.abs c).2 = CONTINUE <;> simp [hc] <;> omega
    · rw [t3]; by_cases hc : (newchar ctx rr.abs c).2 = CONTINUE <;> simp [hc]
    · rw [t4, hl]; by_cases hc : (newchar ctx rr.abs c).2 = NEWPACKAGE <;> simp [hc]


def LRecvR.abs (r : LRecvR) : LRecv := ⟨r.state, r.crc, r.rline.reverse, r.cap⟩
def LRecvR.OK (r : LRecvR) : Prop := r.len = r.rline.length

theorem lputcharR_sim (r : LRecvR) (h : r.OK) (c : Byte) :
    (lputcharR r c).1.abs = (lputchar r.abs c).1 ∧ (lputcharR r c).2 = (lputchar r.abs c).2 ∧ (lputcharR r c).1.OK := by
  obtain ⟨st, crc, rl, len, cap⟩ := r
  simp only [LRecvR.OK] at h; subst h
  simp only [lputcharR, lputchar, LRecvR.abs, List.length_reverse]
  split <;> simp [LRecvR.OK]

theorem lnewcharR_sim (r : LRecvR) (h : r.OK) (c : Byte) :
    (lnewcharR r c).1.abs = (lnewchar r.abs c).1 ∧ (lnewcharR r c).2 = (lnewchar r.abs c).2 ∧
      (lnewcharR r c).1.OK := by
  obtain ⟨st, crc, rl, len, cap⟩ := r
  have hp := fun (r : LRecvR) (h : r.OK) x => lputcharR_sim r h x
  have hsl : legStub ≠ legStart := by decide
  have k1 : legStubStub ≠ legStubStart := by decide
  have k2 : legStart ≠ legStubStart := by decide
  have k3 : legStart ≠ legStubStub := by decide
  -- the in-frame dispatch (state 1), shared by the states 0 / 3 (after the reset) and 1
  have h1 : ∀ (crc : BitVec 8) (rl : List Byte) (len : Nat), (⟨.l1, crc, rl, len, cap⟩ : LRecvR).OK →
      (lnewcharR ⟨.l1, crc, rl, len, cap⟩ c).1.abs = (lnewchar ⟨.l1, crc, rl.reverse, cap⟩ c).1 ∧
      (lnewcharR ⟨.l1, crc, rl, len, cap⟩ c).2 = (lnewchar ⟨.l1, crc, rl.reverse, cap⟩ c).2 ∧
      (lnewcharR ⟨.l1, crc, rl, len, cap⟩ c).1.OK := by
    intro crc rl len h
    by_cases hc : c = legStart
    · subst hc
      by_cases he : rl = []
      · subst he; simp [lnewcharR, lnewchar, LRecvR.abs]; exact h
      · by_cases hz : crc = 0#8
        · simp [lnewcharR, lnewchar, LRecvR.abs, he, hz]; exact h
        · simp [lnewcharR, lnewchar, LRecvR.abs, he, hz]; exact h
    · by_cases hb : c = legStub
      · subst hb; simp [lnewcharR, lnewchar, LRecvR.abs, hsl]; exact h
      · have := hp ⟨.l1, crc, rl, len, cap⟩ h c
        simpa [lnewcharR, lnewchar, LRecvR.abs, hc, hb] using this
  cases st
  · -- l0: reset, then as state 1
    have := h1 0xFF [] 0 rfl
    simpa [lnewcharR, lnewchar, LRecvR.abs] using this
  · exact h1 crc rl len h
  · -- l2
    by_cases c1 : c = legStubStart
    · have := hp ⟨.l2, crc, rl, len, cap⟩ h legStart
      simpa [lnewcharR, lnewchar, LRecvR.abs, c1] using this
    · by_cases c2 : c = legStubStub
      · have := hp ⟨.l2, crc, rl, len, cap⟩ h legStub
        simpa [lnewcharR, lnewchar, LRecvR.abs, c1, c2, k1] using this
      · by_cases c3 : c = legStart
        · simp [lnewcharR, lnewchar, LRecvR.abs, c3, k2, k3]; exact h
        · simp [lnewcharR, lnewchar, LRecvR.abs, c1, c2, c3]; exact h
  · -- l3
    by_cases hc : c = legStart
    · have := h1 0xFF [] 0 rfl
      subst hc
      simpa [lnewcharR, lnewchar, LRecvR.abs] using this
    · simp [lnewcharR, lnewchar, LRecvR.abs, hc]; exact h

theorem lfeedR_eq (rr : LRecvR) (h : rr.OK) (s : List Byte) (nc : Nat) (os : List Int)
    (ps : List (List Byte)) :
    (lfeedR rr s nc os ps).1.abs = (lfeed rr.abs s).1 ∧
    (lfeedR rr s nc os ps).2.1 = nc + ((lfeed rr.abs s).2.filter (· = CONTINUE)).length ∧
    (lfeedR rr s nc os ps).2.2.1 = os.reverse ++ (lfeed rr.abs s).2.filter (· ≠ CONTINUE) ∧
    (lfeedR rr s nc os ps).2.2.2 = (lfeedTrace rr.abs s).2.reverse ++ ps := by
  induction s generalizing rr nc os ps with
  | nil => simp [lfeedR, lfeed, lfeedTrace]
  | cons c cs ih =>
    obtain ⟨e1, e2, e3⟩ := lnewcharR_sim rr h c
    have := ih (lnewcharR rr c).1 e3
      (if (lnewcharR rr c).2 = CONTINUE then nc + 1 else nc)
      (if (lnewcharR rr c).2 = CONTINUE then os else (lnewcharR rr c).2 :: os)
      (if (lnewcharR rr c).2 = NEWPACKAGE then (lnewcharR rr c).1.rline.tail.reverse :: ps else ps)
    simp only [lfeedR, lfeed, lfeedTrace]
    rw [e1, e2] at this
    obtain ⟨t1, t2, t3, t4⟩ := this
    have hl : (lnewcharR rr c).1.rline.tail.reverse = (lnewchar rr.abs c).1.line.dropLast := by
      rw [← e1]; simp [LRecvR.abs]
    rw [e2]
    refine ⟨t1, ?_, ?_, ?_⟩
    · rw [t2]; by_cases hc : (lnewchar rr.abs c).2 = CONTINUE <;> simp [hc] <;> omega
    · rw [t3]; by_cases hc : (lnewchar rr.abs c).2 = CONTINUE <;> simp [hc]
    · rw [t4, hl]; by_cases hc : (lnewchar rr.abs c).2 = NEWPACKAGE <;> simp [hc]

/-! ### legacy encoder at the level of its stores -/

theorem legStuffByteW_eq (st : Option (List Byte × Nat)) (c : Byte) :
    legStuffByteW st c = emitAll st (legStuffByte c) := by
  unfold legStuffByteW legStuffByte
  split
  · rfl
  · split <;> rfl

theorem legPieceW_eq (crc : BitVec 8) (w : Option (List Byte × Nat)) (p : List Byte) :
    p.foldl (fun (st : BitVec 8 × Option (List Byte × Nat)) c => (strmStep st.1 c, legStuffByteW st.2 c)) (crc, w) =
      (p.foldl strmStep crc, emitAll w (p.flatMap legStuffByte)) := by
  induction p generalizing crc w with
  | nil => simp [emitAll]
  | cons c cs ih =>
    rw [List.foldl_cons, ih]
    simp only [List.flatMap_cons, emitAll_append, legStuffByteW_eq, List.foldl_cons]

/-- the legacy encoder at the level of its stores performs exactly the stores of the list-level frame -/
theorem gstuffingLegW_eq (p : List Byte) (out : List Byte) :
    gstuffingLegW p out = emitAll (some (out, 0)) (gstuffingLeg p) := by
  unfold gstuffingLegW
  rw [legPieceW_eq, gstuffingLeg_eq]
  simp only [legStuffByteW_eq, encodeLeg, strmcrc8]
  simp only [emitAll, List.foldl_append, List.foldl_cons, List.foldl_nil]

theorem gstuffingLegW_reused (p : List Byte) (out : List Byte)
    (h : (gstuffingLeg p).length ≤ out.length) :
    ∃ out', gstuffingLegW p out = some (out', (gstuffingLeg p).length) ∧
      out'.take (gstuffingLeg p).length = gstuffingLeg p ∧ out'.length = out.length ∧
      out'.drop (gstuffingLeg p).length = out.drop (gstuffingLeg p).length := by
  obtain ⟨o1, e1, e2, e3⟩ := emitAll_some out 0 (gstuffingLeg p) (by simpa using h)
  obtain ⟨o2, f1, f2⟩ := emitAll_drop out 0 (gstuffingLeg p) (by simpa using h)
  rw [e1] at f1
  simp only [Option.some.injEq, Prod.mk.injEq] at f1
  obtain ⟨rfl, _⟩ := f1
  refine ⟨o1, ?_, ?_, e2, ?_⟩
  · rw [gstuffingLegW_eq, e1]; simp
  · simpa using e3
  · simpa using f2

/-! ### the `int` return value beyond INT_MAX -/

theorem flatMap_replicate_length {α β : Type} (n : Nat) (c : α) (f : α → List β) :
    ((List.replicate n c).flatMap f).length = n * (f c).length := by
  induction n with
  | zero => simp
  | succ k ih => simp only [List.replicate_succ, List.flatMap_cons, List.length_append, ih]; rw [Nat.succ_mul]; omega

theorem stuffByte_length_pos (ctx : Ctx) (c : Byte) : 1 ≤ (stuffByte ctx c).length := by
  unfold stuffByte; repeat' split
  all_goals simp

theorem allStart_frame_length (ctx : Ctx) (n : Nat) :
    2 * n + 3 ≤ (gstuffingV ctx [List.replicate n ctx.start]).length := by
  rw [gstuffingV_eq_encode]
  simp only [List.flatten_cons, List.flatten_nil, List.append_nil, encode, List.length_cons, List.length_append,
    List.length_nil, flatMap_replicate_length]
  have := stuffByte_length_pos ctx (strmcrc8 0xFF#8 (List.replicate n ctx.start))
  have h2 : (stuffByte ctx ctx.start).length = 2 := by simp [stuffByte]
  rw [h2]; omega

theorem intToSize_big (n : Nat) (h1 : 2 ^ 31 ≤ n) (h2 : n < 2 ^ 32) : 2 ^ 63 ≤ intToSize n := by
  unfold intToSize
  have hm : (BitVec.ofNat 32 n).msb = true := by
    rw [BitVec.msb_eq_decide]
    simp only [BitVec.toNat_ofNat, decide_eq_true_eq]
    have : n % 2 ^ 32 = n := Nat.mod_eq_of_lt h2
    omega
  rw [BitVec.toNat_signExtend]
  simp only [hm, if_true]
  omega

theorem gstuffingVecC_overflow (ctx : Ctx) (n : Nat) (h1 : 2 ^ 31 ≤ 2 * n + 3) (h2 : 2 * n + 4 < 2 ^ 32) :
    gstuffingVecC ctx [List.replicate n ctx.start] = none := by
  have hlen := gstuffingV_length_le ctx [List.replicate n ctx.start]
  have hlo := allStart_frame_length ctx n
  simp only [List.map_cons, List.map_nil, List.length_replicate, List.sum_cons, List.sum_nil, Nat.add_zero] at hlen
  have hsz : (vecBufSizeC (iovSum [List.replicate n ctx.start])).toNat = 2 * n + 4 := by
    simp only [vecBufSizeC, BitVec.toNat_add, BitVec.toNat_mul, iovSum_toNat]
    have h2' : BitVec.toNat (2 : BitVec 64) = 2 := rfl
    have h4 : BitVec.toNat (4 : BitVec 64) = 4 := rfl
    rw [h2', h4]
    simp only [List.map_cons, List.map_nil, List.length_replicate, List.sum_cons, List.sum_nil, Nat.add_zero]
    omega
  obtain ⟨out', e1, _, _, _⟩ := gstuffingVW_reused ctx [List.replicate n ctx.start]
    (List.replicate (2 * n + 4) 0) (by rw [List.length_replicate]; exact hlen)
  have hbig := intToSize_big (gstuffingV ctx [List.replicate n ctx.start]).length (by omega) (by omega)
  simp only [gstuffingVecC, hsz, e1]
  rw [if_neg (by omega), if_neg (by omega)]
end Igris.Gstuff
