/-
  C04 / C05 — round 3 of the extension:

  (a) the C INTEGER WIDTHS of the encoders: the `int` return value
      `(int)(outdata - outstrt)`, the `size_t` sum of the iovec lengths, `sz * 2 + 4`
      in `size_t`, the conversion `size_t sz2 = <int>` of the self-sizing overloads,
      the `int size` parameter of the legacy encoder;
  (b) a SESSION: one long-lived `gstuff_context` object whose CONTENTS are changed in
      place between calls, one re-used output buffer (stale bytes of the previous frame
      stay in it), one long-lived receiver object (`gstuff_autorecv`) that is
      re-constructed from the current context / `init` / `setbuf` / `reset` in the middle
      of a stream, one long-lived legacy receiver, one receive block whose contents
      persist.  The encoders and receivers are functions of the context CONTENTS at the
      time of the call — `Sess.step` below passes exactly that, nothing else survives
      between two encoder calls except the bytes of the output buffer;
  (c) linear-time forms of encoder and receivers for the ≥ 300 KiB inputs of the
      driver (`encodeLin`, `feedR`, `lfeedR`), proved equal to the model in C04/Lemmas3.

  Core Lean only.
-/
import IgrisModel.C04.Buf
namespace Igris.Gstuff
open Igris.Proto Igris.C17

/-! ### (a) integer widths -/

/-- widths (bytes) the model embeds; compared on every run with `sizeof` in the compiled code (op `sizes`):
return type of `gstuffing_v` / `gstuffing` (`int`), `size_t`, `iovec::iov_len`, `sline::cap/len/cursor`,
`sizeof(gstuff_context)`, return type and `size` parameter of `gstuffing_v1`, legacy `crc` / `state` fields -/
def widths : List Nat := [4, 8, 8, 4, 4, 4, 6, 4, 4, 1, 1]

/-- `return (int)(outdata - outstrt)`: the 64-bit pointer difference converted to 32-bit `int` -/
def retInt (n : Nat) : Int := (BitVec.ofNat 32 n).toInt

/-- `size_t sz = 0; for (i < n) sz += vec[i].iov_len;` (64-bit unsigned) -/
def iovSum (pieces : List (List Byte)) : BitVec 64 :=
  pieces.foldl (fun s p => s + BitVec.ofNat 64 p.length) 0

/-- `sz * 2 + 4` in `size_t` -/
def vecBufSizeC (sz : BitVec 64) : BitVec 64 := sz * 2 + 4

/-- `size_t sz2 = gstuffing_v(...)`: `int` converted to `size_t` (sign extension) -/
def intToSize (n : Nat) : Nat := ((BitVec.ofNat 32 n).signExtend 64).toNat

/-- the self-sizing overloads WITH THE C WIDTHS:
`ret.resize(sz * 2 + 4); size_t sz2 = gstuffing_v(vec, n, &ret[0], ctx); ret.resize(sz2);`
`none` = a store outside the buffer, or `resize` beyond `max_size()` (`std::length_error`). -/
def gstuffingVecC (ctx : Ctx) (pieces : List (List Byte)) : Option (List Byte) :=
  let bufsz := (vecBufSizeC (iovSum pieces)).toNat
  match gstuffingVW ctx pieces (List.replicate bufsz 0) with
  | none => none
  | some (out, n) =>
    let sz2 := intToSize n
    if sz2 ≤ bufsz then some (out.take sz2)
    else if sz2 < 2 ^ 63 then some (out ++ List.replicate (sz2 - bufsz) 0)
    else none

/-- `gstuffing_v1(data, size, outdata)` with its `int size` parameter and `int` return value:
`while (size--)` with a negative `size` does not stop at the end of the data (`none`) -/
def gstuffingLegC (data : List Byte) (size : Int) : Option (List Byte × Int) :=
  if size < 0 ∨ data.length < size.toNat then none
  else
    let f := gstuffingLeg (data.take size.toNat)
    some (f, retInt f.length)

/-- the `switch (c)` of `gstuffing_v1` through the pointer -/
def legStuffByteW (st : Option (List Byte × Nat)) (c : Byte) : Option (List Byte × Nat) :=
  if c = legStart then emit (emit st legStub) legStubStart
  else if c = legStub then emit (emit st legStub) legStubStub
  else emit st c

/-- `gstuffing_v1(data, size, outdata)` writing into the buffer `out`: (buffer, bytes written) -/
def gstuffingLegW (p : List Byte) (out : List Byte) : Option (List Byte × Nat) :=
  let st := p.foldl (fun (st : BitVec 8 × Option (List Byte × Nat)) c => (strmStep st.1 c, legStuffByteW st.2 c))
    (0xFF#8, emit (some (out, 0)) legStart)
  emit (legStuffByteW st.2 st.1) legStart

/-! ### (c) linear-time forms used by the driver for long inputs -/

/-- the frame of a whole payload without the quadratic `acc ++ …` of the fold
(`encodeLin_eq` in Lemmas3: `= gstuffingV ctx [p]`) -/
def encodeLin (ctx : Ctx) (p : List Byte) : List Byte :=
  ctx.start :: (p.flatMap (stuffByte ctx) ++ (stuffByte ctx (strmcrc8 0xFF#8 p) ++ [ctx.stop]))

def encodeLegLin (p : List Byte) : List Byte :=
  legStart :: (p.flatMap legStuffByte ++ (legStuffByte (strmcrc8 0xFF#8 p) ++ [legStart]))

/-- receiver with the line kept REVERSED and its length cached (`line ++ [c]` and
`line.length` of the list-level model are linear in the line) -/
structure RecvR where
  state : St
  crc : BitVec 8
  rline : List Byte
  len : Nat
  cap : Nat
deriving DecidableEq, Repr

def RecvR.init (cap : Nat) : RecvR := ⟨.s0, 0xFF, [], 0, cap⟩
def RecvR.reset (r : RecvR) : RecvR := { r with crc := 0xFF, rline := [], len := 0 }

def putcharR (r : RecvR) (c : Byte) : RecvR × Int :=
  if ¬ (r.cap - 1 ≤ r.len) then
    ({ r with rline := c :: r.rline, len := r.len + 1, crc := strmStep r.crc c, state := .s1 }, CONTINUE)
  else
    ({ r with state := .s0 }, OVERFLOW)

def stopR (r : RecvR) : RecvR × Int :=
  if r.crc ≠ 0 then ({ r with state := .s0 }, CRC_ERROR)
  else ({ r with rline := r.rline.tail, len := r.len - 1, state := .s0 }, NEWPACKAGE)

def newcharR (ctx : Ctx) (r0 : RecvR) (c : Byte) : RecvR × Int :=
  let r := if r0.state = .s0 then { r0.reset with state := .s4 } else r0
  match r.state with
  | .s0 => (r, -4)
  | .s4 =>
    if c = ctx.start then ({ r.reset with state := .s1 }, CONTINUE)
    else (r, GARBAGE)
  | .s1 =>
    if c = ctx.start ∧ ctx.start ≠ ctx.stop then
      ({ r.reset with state := .s1 }, FORCE_RESTART)
    else if c = ctx.start ∧ r.rline.isEmpty then
      (r, CONTINUE)
    else if c = ctx.stop then stopR r
    else if c = ctx.stub then ({ r with state := .s2 }, CONTINUE)
    else putcharR r c
  | .s2 =>
    if c = ctx.stubStart then putcharR r ctx.start
    else if c = ctx.stubStop then putcharR r ctx.stop
    else if c = ctx.stubStub then putcharR r ctx.stub
    else if c = ctx.start then ({ r.reset with state := .s1 }, FORCE_RESTART)
    else ({ r with state := .s0 }, STUFFING_ERROR)

/-- summary of a long feed: (receiver, number of CONTINUE answers, other answers in order,
packets delivered, newest first) — tail recursive -/
def feedR (ctx : Ctx) : RecvR → List Byte → Nat → List Int → List (List Byte) → RecvR × Nat × List Int × List (List Byte)
  | r, [], nc, os, ps => (r, nc, os.reverse, ps)
  | r, c :: cs, nc, os, ps =>
    let x := newcharR ctx r c
    feedR ctx x.1 cs (if x.2 = CONTINUE then nc + 1 else nc) (if x.2 = CONTINUE then os else x.2 :: os)
      (if x.2 = NEWPACKAGE then x.1.rline.reverse :: ps else ps)

/-- legacy receiver, reversed line -/
structure LRecvR where
  state : LSt
  crc : BitVec 8
  rline : List Byte
  len : Nat
  cap : Nat
deriving DecidableEq, Repr

def LRecvR.init (cap : Nat) : LRecvR := ⟨.l3, 0xFF, [], 0, cap⟩

def lputcharR (r : LRecvR) (c : Byte) : LRecvR × Int :=
  if ¬ (r.cap - 1 ≤ r.len) then
    ({ r with rline := c :: r.rline, len := r.len + 1, crc := strmStep r.crc c, state := .l1 }, CONTINUE)
  else ({ r with state := .l3 }, OVERFLOW)

def lnewcharR (r0 : LRecvR) (c : Byte) : LRecvR × Int :=
  if r0.state = .l3 ∧ c ≠ legStart then (r0, CONTINUE) else
  let r := if r0.state = .l0 ∨ r0.state = .l3 then { r0 with crc := 0xFF, rline := [], len := 0, state := .l1 } else r0
  match r.state with
  | .l0 => (r, -4)
  | .l3 => (r, -4)
  | .l1 =>
    if c = legStart then
      if r.rline.isEmpty then (r, CONTINUE)
      else if r.crc ≠ 0 then ({ r with state := .l0 }, CRC_ERROR)
      else ({ r with state := .l0 }, NEWPACKAGE)
    else if c = legStub then ({ r with state := .l2 }, CONTINUE)
    else lputcharR r c
  | .l2 =>
    if c = legStubStart then lputcharR r legStart
    else if c = legStubStub then lputcharR r legStub
    else if c = legStart then ({ r with state := .l0 }, LDATA_ERROR)
    else ({ r with state := .l3 }, LDATA_ERROR)

/-- as `feedR`; the packet is the line without its last byte (the CRC), as in `lfeedTrace` -/
def lfeedR : LRecvR → List Byte → Nat → List Int → List (List Byte) → LRecvR × Nat × List Int × List (List Byte)
  | r, [], nc, os, ps => (r, nc, os.reverse, ps)
  | r, c :: cs, nc, os, ps =>
    let x := lnewcharR r c
    lfeedR x.1 cs (if x.2 = CONTINUE then nc + 1 else nc) (if x.2 = CONTINUE then os else x.2 :: os)
      (if x.2 = NEWPACKAGE then x.1.rline.tail.reverse :: ps else ps)

/-! ### (b) sessions -/

/-- feed a stream to the buffer-level receiver; at every NEWPACKAGE the user reads the packet
through `cstr()` / `size()`; returns the receiver afterwards, the statuses, the packets -/
def bfeedS (ctx : Ctx) : BRecv → List Byte → Option (BRecv × List Int × List (List Byte))
  | r, [] => some (r, [], [])
  | r, c :: cs =>
    match bnewchar ctx r c with
    | none => none
    | some (r1, s) =>
      match (if s = NEWPACKAGE then r1.cstr.map (fun x => (x.1, [x.2])) else some (r1, [])) with
      | none => none
      | some (r2, pk) =>
        match bfeedS ctx r2 cs with
        | none => none
        | some (r3, ss, ps) => some (r3, s :: ss, pk ++ ps)

/-- legacy: `sline_getline` / `sline_size`; the packet is the line without its last byte -/
def blfeedS : BLRecv → List Byte → Option (BLRecv × List Int × List (List Byte))
  | r, [] => some (r, [], [])
  | r, c :: cs =>
    match blnewchar r c with
    | none => none
    | some (r1, s) =>
      match (if s = NEWPACKAGE then r1.getline.map (fun x => (x.1, [x.2.dropLast])) else some (r1, [])) with
      | none => none
      | some (r2, pk) =>
        match blfeedS r2 cs with
        | none => none
        | some (r3, ss, ps) => some (r3, s :: ss, pk ++ ps)

/-- the objects that live as long as the session -/
structure Sess where
  /-- CONTENTS of the one `gstuff_context` object every encoder call is given by reference -/
  ctx : Ctx
  /-- the caller-supplied output buffer, re-used by every `E` / `L` step -/
  out : List Byte
  /-- the last frame produced -/
  frame : List Byte
  /-- the receiver's private copy of the context (taken when it is constructed) -/
  rctx : Ctx
  recv : BRecv
  /-- the receive block; `att`: the configurable receiver currently points into it -/
  blk : List Byte
  att : Bool
  lrecv : BLRecv
  lblk : List Byte
  latt : Bool
deriving Repr

/-- start of a session: default-constructed context, `gstuff_autorecv r(ctx)` without buffer,
zero-initialised legacy struct (state 0, no buffer) -/
def Sess.start (outcap blkcap : Nat) : Sess :=
  { ctx := Ctx.v1, out := List.replicate outcap 0xA5, frame := [], rctx := Ctx.v1, recv := BRecv.noBuf,
    blk := List.replicate blkcap 0xA5, att := false,
    lrecv := ⟨.l0, 0, ⟨[], 0, 0, 0⟩⟩, lblk := List.replicate blkcap 0xA5, latt := false }

inductive SOp
  /-- the context object is overwritten in place -/
  | setCtx (c : Ctx)
  /-- `gstuffing_v(vec, n, out, ctx)` into the re-used buffer -/
  | enc (pieces : List (List Byte))
  /-- `gstuffing_v(vec, n, ctx)` (self-sizing) -/
  | encVec (pieces : List (List Byte))
  /-- `gstuffing_v1(data, size, out)` into the re-used buffer -/
  | encLeg (p : List Byte)
  /-- `recv = gstuff_autorecv(ctx)`: the SAME receiver object re-constructed from the current contents -/
  | rnew
  /-- `recv.init(blk, cap)` / `recv.setbuf(blk, cap)` -/
  | rinit (cap : Nat)
  /-- `recv.reset()` -/
  | rreset
  /-- feed bytes (`none`: the last frame) to the configurable receiver -/
  | feed (bs : Option (List Byte))
  /-- `gstuff_autorecv_setbuf_v1(&lrecv, lblk, cap)` -/
  | lsetbuf (cap : Nat)
  /-- `gstuff_autorecv_reset_v1(&lrecv)` -/
  | lreset
  | lfeed (bs : Option (List Byte))

/-- what one step shows to the caller -/
inductive SOut
  | unit
  | frame (ret : Int) (f : List Byte)
  | vec (f : List Byte)
  | trace (ss : List Int) (ps : List (List Byte))
  | fault
deriving DecidableEq, Repr

def Sess.step (s : Sess) : SOp → Sess × SOut
  | .setCtx c => ({ s with ctx := c }, .unit)
  | .enc pieces =>
    match gstuffingVW s.ctx pieces s.out with
    | none => (s, .fault)
    | some (out, n) => ({ s with out := out, frame := out.take n }, .frame (retInt n) (out.take n))
  | .encVec pieces =>
    match gstuffingVecC s.ctx pieces with
    | none => (s, .fault)
    | some f => ({ s with frame := f }, .vec f)
  | .encLeg p =>
    match gstuffingLegW p s.out with
    | none => (s, .fault)
    | some (out, n) => ({ s with out := out, frame := out.take n }, .frame (retInt n) (out.take n))
  | .rnew =>
    -- the block keeps what the receiver wrote into it
    ({ s with rctx := s.ctx, recv := BRecv.noBuf, att := false,
              blk := if s.att then s.recv.line.buf else s.blk }, .unit)
  | .rinit cap =>
    let blk := if s.att then s.recv.line.buf else s.blk
    ({ s with recv := BRecv.init blk (BitVec.ofNat 32 cap), att := true, blk := blk }, .unit)
  | .rreset => ({ s with recv := s.recv.reset }, .unit)
  | .feed bs =>
    match bfeedS s.rctx s.recv (bs.getD s.frame) with
    | none => (s, .fault)
    | some (r, ss, ps) => ({ s with recv := r }, .trace ss ps)
  | .lsetbuf cap =>
    let blk := if s.latt then s.lrecv.line.buf else s.lblk
    ({ s with lrecv := BLRecv.init blk (BitVec.ofNat 32 cap), latt := true, lblk := blk }, .unit)
  | .lreset => ({ s with lrecv := { s.lrecv with crc := 0xFF, line := s.lrecv.line.reset } }, .unit)
  | .lfeed bs =>
    match blfeedS s.lrecv (bs.getD s.frame) with
    | none => (s, .fault)
    | some (r, ss, ps) => ({ s with lrecv := r }, .trace ss ps)

def Sess.run (s : Sess) : List SOp → Sess × List SOut
  | [] => (s, [])
  | o :: os =>
    let x := s.step o
    let y := Sess.run x.1 os
    (y.1, x.2 :: y.2)

end Igris.Gstuff
