import IgrisModel.C04.Model
namespace Igris.Gstuff
theorem placeholder_c04 : True := trivial
end Igris.Gstuff
