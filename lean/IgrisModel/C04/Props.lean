/-
  C04 — PROPERTY THEOREMS: gstuff framing is lossless.

  "For every payload (any bytes, any length, any split into scatter-gather
  pieces) and every framing variant the library ships, feeding the encoder's
  output byte by byte to a receiver with a large enough buffer reports exactly
  one completed packet, on the last byte, whose content equals the payload.
  The frame starts with the start marker, ends with the stop marker, contains
  no unescaped marker in between and is at most 2n+4 bytes long.  The encoders
  that size their own output buffer never write outside it."
-/
import IgrisModel.C04.Lemmas
namespace Igris.Gstuff
open Igris.Proto Igris.C17

/-- both shipped alphabets are well-formed (non-vacuity of every `ctx.WF` hypothesis) -/
theorem shipped_alphabets_wf : Ctx.v1.WF ∧ Ctx.v0.WF := by decide

/-- the scatter-gather encoder depends only on the concatenation of the pieces -/
theorem encode_pieces (ctx : Ctx) (pieces : List (List Byte)) :
    gstuffingV ctx pieces = encode ctx pieces.flatten := by
  simp [gstuffingV, stuffPieces_eq, encode, strmcrc8]

theorem gstuffing_eq_encode (ctx : Ctx) (p : List Byte) : gstuffing ctx p = encode ctx p := by
  simp [gstuffing, encode_pieces]

/-- frame shape: START :: body ++ [STOP], no marker inside, at most 2n+4 bytes -/
theorem frame_shape (ctx : Ctx) (h : ctx.WF) (p : List Byte) :
    ∃ body, encode ctx p = ctx.start :: (body ++ [ctx.stop]) ∧
      (∀ b ∈ body, b ≠ ctx.start ∧ b ≠ ctx.stop) ∧
      (encode ctx p).length ≤ 2 * p.length + 4 := by
  refine ⟨p.flatMap (stuffByte ctx) ++ stuffByte ctx (strmcrc8 0xFF#8 p), rfl, ?_, ?_⟩
  · intro b hb
    rcases List.mem_append.mp hb with hb | hb
    · obtain ⟨c, _, hc⟩ := List.mem_flatMap.mp hb
      exact stuffByte_no_marker ctx h c b hc
    · exact stuffByte_no_marker ctx h _ b hb
  · have h1 := flatMap_stuff_length_le ctx p
    have h2 := stuffByte_length_le ctx (strmcrc8 0xFF#8 p)
    simp only [encode, List.length_cons, List.length_append, List.length_nil]; omega

/-- ROUND TRIP.  For every well-formed alphabet, payload, receiver that is
between frames (fresh, after a packet, after an error, or hunting) and capacity
`≥ |p| + 2`: every byte of the frame but the last answers CONTINUE, the last
answers NEWPACKAGE, and the delivered line is exactly the payload. -/
theorem roundtrip (ctx : Ctx) (h : ctx.WF) (p : List Byte) (r : Recv) (hidle : Idle r)
    (hcap : p.length + 2 ≤ r.cap) :
    ∃ ss, feed ctx r (encode ctx p) =
        ({ r with state := .s0, crc := 0#8, line := p }, ss ++ [NEWPACKAGE]) ∧ AllCont ss := by
  have hbody : p.flatMap (stuffByte ctx) ++ stuffByte ctx (strmcrc8 0xFF#8 p) =
      (p ++ [strmcrc8 0xFF#8 p]).flatMap (stuffByte ctx) := by simp
  unfold encode
  rw [hbody]
  simp only [feed, newchar_start_idle ctx r hidle, feed_append]
  obtain ⟨e1, a1⟩ := feed_stuffed ctx h (p ++ [strmcrc8 0xFF#8 p])
    { r with state := .s1, crc := 0xFF#8, line := [] } rfl (by simp; omega)
  rw [e1]
  have hcrc : (p ++ [strmcrc8 0xFF#8 p]).foldl strmStep 0xFF#8 = 0#8 := by
    rw [List.foldl_append]; simp only [List.foldl_cons, List.foldl_nil]
    exact strmStep_self _
  simp only [List.nil_append, hcrc]
  rw [newchar_stop_inframe ctx _ rfl (by simp) rfl]
  refine ⟨CONTINUE :: (feed ctx { r with state := .s1, crc := 0xFF#8, line := [] }
      ((p ++ [strmcrc8 0xFF#8 p]).flatMap (stuffByte ctx))).2, ?_, ?_⟩
  · simp
  · intro s hs
    rcases List.mem_cons.mp hs with rfl | hs
    · rfl
    · exact a1 s hs

/-- both shipped alphabets round-trip every payload from a freshly initialised receiver -/
theorem roundtrip_shipped (p : List Byte) (cap : Nat) (hcap : p.length + 2 ≤ cap) :
    (∃ ss, feed Ctx.v1 (Recv.init cap) (gstuffing Ctx.v1 p) =
        (⟨.s0, 0#8, p, cap⟩, ss ++ [NEWPACKAGE]) ∧ AllCont ss) ∧
    (∃ ss, feed Ctx.v0 (Recv.init cap) (gstuffing Ctx.v0 p) =
        (⟨.s0, 0#8, p, cap⟩, ss ++ [NEWPACKAGE]) ∧ AllCont ss) := by
  constructor
  · rw [gstuffing_eq_encode]
    exact roundtrip Ctx.v1 shipped_alphabets_wf.1 p (Recv.init cap) (Or.inl rfl) hcap
  · rw [gstuffing_eq_encode]
    exact roundtrip Ctx.v0 shipped_alphabets_wf.2 p (Recv.init cap) (Or.inl rfl) hcap

/-- the self-sizing encoders (buffer `2n+4` after `fix: … reserve the worst-case
frame length`) never write outside their buffer, for every alphabet -/
theorem encoder_buffer (ctx : Ctx) (pieces : List (List Byte)) :
    gstuffingVec ctx pieces = some (gstuffingV ctx pieces) := by
  unfold gstuffingVec
  have h1 := flatMap_stuff_length_le ctx pieces.flatten
  have h2 := stuffByte_length_le ctx (strmcrc8 0xFF#8 pieces.flatten)
  have hl : pieces.flatten.length = (pieces.map List.length).sum := by
    simp [List.length_flatten]
  have : (gstuffingV ctx pieces).length ≤ vecBufSize (pieces.map List.length).sum := by
    rw [encode_pieces, ← hl]
    simp only [encode, vecBufSize, List.length_cons, List.length_append, List.length_nil]; omega
  simp [this]

/-- the bound 2n+4 is attained (every byte and the CRC need escaping), so no
smaller buffer would do: payload B2 A8 B2 C5 A8 has CRC B2 in the V1 alphabet -/
theorem encoder_buffer_tight :
    (gstuffingV Ctx.v1 [[0xB2#8, 0xA8#8, 0xB2#8, 0xC5#8, 0xA8#8]]).length = 2 * 5 + 4 := by decide +kernel

/-- historical: with the buffer size `2n+2` used before the repair the empty
payload already needs more room than the buffer has -/
theorem encoder_buffer_old_witness : ¬ ((gstuffingV Ctx.v1 [[]]).length ≤ 0 * 2 + 2) := by decide

/-! ### legacy C codec (gstuffing_v1 / gstuff_autorecv_newchar_v1) -/

/-- legacy frame shape: AC :: body ++ [AC], no AC inside, at most 2n+4 bytes -/
theorem frame_shape_leg (p : List Byte) :
    ∃ body, gstuffingLeg p = legStart :: (body ++ [legStart]) ∧
      (∀ b ∈ body, b ≠ legStart) ∧ (gstuffingLeg p).length ≤ 2 * p.length + 4 := by
  rw [gstuffingLeg_eq]
  refine ⟨p.flatMap legStuffByte ++ legStuffByte (strmcrc8 0xFF#8 p), rfl, ?_, ?_⟩
  · intro b hb
    rcases List.mem_append.mp hb with hb | hb
    · obtain ⟨c, _, hc⟩ := List.mem_flatMap.mp hb
      exact legStuffByte_no_marker c b hc
    · exact legStuffByte_no_marker _ b hb
  · have h1 : (p.flatMap legStuffByte).length ≤ 2 * p.length := by
      induction p with
      | nil => simp
      | cons c cs ih =>
        have := legStuffByte_length_le c
        simp only [List.flatMap_cons, List.length_append, List.length_cons]; omega
    have h2 := legStuffByte_length_le (strmcrc8 0xFF#8 p)
    simp only [encodeLeg, List.length_cons, List.length_append, List.length_nil]; omega

/-- LEGACY ROUND TRIP (after `fix: gstuffing_v1 escapes the CRC byte`): from a
receiver in state 0, capacity `≥ |p|+2`, every byte but the last answers
CONTINUE, the last NEWPACKAGE; the line holds payload ++ [crc] (legacy
convention: the CRC byte is left in the line), i.e. the packet = line without
its last byte = the payload. -/
theorem roundtrip_leg (p : List Byte) (r : LRecv) (hs : r.state = .l0) (hcap : p.length + 2 ≤ r.cap) :
    ∃ ss, lfeed r (gstuffingLeg p) =
        ({ r with state := .l0, crc := 0#8, line := p ++ [strmcrc8 0xFF#8 p] }, ss ++ [NEWPACKAGE]) ∧
      AllCont ss ∧ (p ++ [strmcrc8 0xFF#8 p]).dropLast = p := by
  rw [gstuffingLeg_eq]
  have hbody : p.flatMap legStuffByte ++ legStuffByte (strmcrc8 0xFF#8 p) =
      (p ++ [strmcrc8 0xFF#8 p]).flatMap legStuffByte := by simp
  unfold encodeLeg
  rw [hbody]
  obtain ⟨st, crc, line, cap⟩ := r
  simp only at hs hcap; subst hs
  have hfirst : lnewchar ⟨.l0, crc, line, cap⟩ legStart = (⟨.l1, 0xFF#8, [], cap⟩, CONTINUE) := by
    simp [lnewchar]
  simp only [lfeed, hfirst, lfeed_append]
  obtain ⟨e1, a1⟩ := lfeed_stuffed (p ++ [strmcrc8 0xFF#8 p]) ⟨.l1, 0xFF#8, [], cap⟩ rfl (by simp; omega)
  rw [e1]
  have hcrc : (p ++ [strmcrc8 0xFF#8 p]).foldl strmStep 0xFF#8 = 0#8 := by
    rw [List.foldl_append]; simp only [List.foldl_cons, List.foldl_nil]
    exact strmStep_self _
  simp only [List.nil_append, hcrc]
  have hlast : lnewchar ⟨.l1, 0#8, p ++ [strmcrc8 0xFF#8 p], cap⟩ legStart =
      (⟨.l0, 0#8, p ++ [strmcrc8 0xFF#8 p], cap⟩, NEWPACKAGE) := by
    simp [lnewchar]
  rw [hlast]
  refine ⟨CONTINUE :: (lfeed ⟨.l1, 0xFF#8, [], cap⟩ ((p ++ [strmcrc8 0xFF#8 p]).flatMap legStuffByte)).2, ?_, ?_, ?_⟩
  · simp
  · intro s hs
    rcases List.mem_cons.mp hs with rfl | hs
    · rfl
    · exact a1 s hs
  · simp

/-- historical: before the repair the legacy encoder wrote the CRC unescaped;
for the payload [00] the CRC is the start marker itself -/
theorem legacy_crc_is_marker_witness : strmcrc8 0xFF#8 [0x00#8] = legStart := by decide

end Igris.Gstuff
