/-
  C04 — PROPERTY THEOREMS: gstuff framing is lossless.

  "For every payload (any bytes, any length, any split into scatter-gather
  pieces) and every framing variant the library ships, feeding the encoder's
  output byte by byte to a receiver with a large enough buffer reports exactly
  one completed packet, on the last byte, whose content equals the payload.
  The frame starts with the start marker, ends with the stop marker, contains
  no unescaped marker in between and is at most 2n+4 bytes long.  The encoders
  that size their own output buffer never write outside it."
-/
import IgrisModel.C04.More
namespace Igris.Gstuff
open Igris.Proto Igris.C17

/-- both shipped alphabets are well-formed (non-vacuity of every `ctx.WF` hypothesis) -/
theorem shipped_alphabets_wf : Ctx.v1.WF ∧ Ctx.v0.WF := by decide

/-- the scatter-gather encoder depends only on the concatenation of the pieces -/
theorem encode_pieces (ctx : Ctx) (pieces : List (List Byte)) :
    gstuffingV ctx pieces = encode ctx pieces.flatten := by
  simp [gstuffingV, stuffPieces_eq, encode, strmcrc8]

theorem gstuffing_eq_encode (ctx : Ctx) (p : List Byte) : gstuffing ctx p = encode ctx p := by
  simp [gstuffing, encode_pieces]

/-- frame shape: START :: body ++ [STOP], no marker inside, at most 2n+4 bytes -/
theorem frame_shape (ctx : Ctx) (h : ctx.WF) (p : List Byte) :
    ∃ body, encode ctx p = ctx.start :: (body ++ [ctx.stop]) ∧
      (∀ b ∈ body, b ≠ ctx.start ∧ b ≠ ctx.stop) ∧
      (encode ctx p).length ≤ 2 * p.length + 4 := by
  refine ⟨p.flatMap (stuffByte ctx) ++ stuffByte ctx (strmcrc8 0xFF#8 p), rfl, ?_, ?_⟩
  · intro b hb
    rcases List.mem_append.mp hb with hb | hb
    · obtain ⟨c, _, hc⟩ := List.mem_flatMap.mp hb
      exact stuffByte_no_marker ctx h c b hc
    · exact stuffByte_no_marker ctx h _ b hb
  · have h1 := flatMap_stuff_length_le ctx p
    have h2 := stuffByte_length_le ctx (strmcrc8 0xFF#8 p)
    simp only [encode, List.length_cons, List.length_append, List.length_nil]; omega

/-- ROUND TRIP.  For every well-formed alphabet, payload, receiver that is
between frames (fresh, after a packet, after an error, or hunting) and capacity
`≥ |p| + 2`: every byte of the frame but the last answers CONTINUE, the last
answers NEWPACKAGE, and the delivered line is exactly the payload. -/
theorem roundtrip (ctx : Ctx) (h : ctx.WF) (p : List Byte) (r : Recv) (hidle : Idle r)
    (hcap : p.length + 2 ≤ r.cap) :
    ∃ ss, feed ctx r (encode ctx p) =
        ({ r with state := .s0, crc := 0#8, line := p }, ss ++ [NEWPACKAGE]) ∧ AllCont ss := by
  have hbody : p.flatMap (stuffByte ctx) ++ stuffByte ctx (strmcrc8 0xFF#8 p) =
      (p ++ [strmcrc8 0xFF#8 p]).flatMap (stuffByte ctx) := by simp
  unfold encode
  rw [hbody]
  simp only [feed, newchar_start_idle ctx r hidle, feed_append]
  obtain ⟨e1, a1⟩ := feed_stuffed ctx h (p ++ [strmcrc8 0xFF#8 p])
    { r with state := .s1, crc := 0xFF#8, line := [] } rfl (by simp; omega)
  rw [e1]
  have hcrc : (p ++ [strmcrc8 0xFF#8 p]).foldl strmStep 0xFF#8 = 0#8 := by
    rw [List.foldl_append]; simp only [List.foldl_cons, List.foldl_nil]
    exact strmStep_self _
  simp only [List.nil_append, hcrc]
  rw [newchar_stop_inframe ctx _ rfl (by simp) rfl]
  refine ⟨CONTINUE :: (feed ctx { r with state := .s1, crc := 0xFF#8, line := [] }
      ((p ++ [strmcrc8 0xFF#8 p]).flatMap (stuffByte ctx))).2, ?_, ?_⟩
  · simp
  · intro s hs
    rcases List.mem_cons.mp hs with rfl | hs
    · rfl
    · exact a1 s hs

/-- both shipped alphabets round-trip every payload from a freshly initialised receiver -/
theorem roundtrip_shipped (p : List Byte) (cap : Nat) (hcap : p.length + 2 ≤ cap) :
    (∃ ss, feed Ctx.v1 (Recv.init cap) (gstuffing Ctx.v1 p) =
        (⟨.s0, 0#8, p, cap⟩, ss ++ [NEWPACKAGE]) ∧ AllCont ss) ∧
    (∃ ss, feed Ctx.v0 (Recv.init cap) (gstuffing Ctx.v0 p) =
        (⟨.s0, 0#8, p, cap⟩, ss ++ [NEWPACKAGE]) ∧ AllCont ss) := by
  constructor
  · rw [gstuffing_eq_encode]
    exact roundtrip Ctx.v1 shipped_alphabets_wf.1 p (Recv.init cap) (Or.inl rfl) hcap
  · rw [gstuffing_eq_encode]
    exact roundtrip Ctx.v0 shipped_alphabets_wf.2 p (Recv.init cap) (Or.inl rfl) hcap

/-- ROUND TRIP, literally about the scatter-gather encoder `gstuffing_v(vec, n, out, ctx)`:
for every well-formed alphabet, every list of iovec pieces (any bytes, any lengths, empty
pieces included), every receiver that is between frames and every capacity ≥ n + 2 (n =
total payload length): every byte of the encoder's output but the last is answered
CONTINUE, the last NEWPACKAGE, and the delivered line is the concatenation of the pieces. -/
theorem roundtrip_iovec (ctx : Ctx) (h : ctx.WF) (pieces : List (List Byte)) (r : Recv) (hidle : Idle r)
    (hcap : pieces.flatten.length + 2 ≤ r.cap) :
    ∃ ss, feed ctx r (gstuffingV ctx pieces) =
        ({ r with state := .s0, crc := 0#8, line := pieces.flatten }, ss ++ [NEWPACKAGE]) ∧ AllCont ss := by
  rw [encode_pieces]
  exact roundtrip ctx h pieces.flatten r hidle hcap

/-- HEADLINE: `decode (gstuffing_v iov) = [concat iov]` — exactly one packet, equal to the
payload, and the status string the driver prints is `C…CN` (one status per frame byte) -/
theorem decode_gstuffing_v (ctx : Ctx) (h : ctx.WF) (pieces : List (List Byte)) (cap : Nat)
    (hcap : pieces.flatten.length + 2 ≤ cap) :
    decode ctx cap (gstuffingV ctx pieces) = [pieces.flatten] ∧
    (feedTrace ctx (Recv.init cap) (gstuffingV ctx pieces)).1 =
      List.replicate ((gstuffingV ctx pieces).length - 1) 'C' ++ ['N'] := by
  obtain ⟨ss, e, a⟩ := roundtrip_iovec ctx h pieces (Recv.init cap) (Or.inl rfl) hcap
  have ht := feedTrace_of_feed ctx _ _ _ ss e a
  have hl : ss.length = (gstuffingV ctx pieces).length - 1 := by
    have := feed_length ctx (Recv.init cap) (gstuffingV ctx pieces)
    rw [e] at this
    simp only [List.length_append, List.length_cons, List.length_nil] at this
    omega
  simp only [decode, ht, hl, and_self]

/-- frame shape, literally about `gstuffing_v`: START body STOP, no marker in the body,
at most 2n+4 bytes (n = total length of the pieces) -/
theorem frame_shape_iovec (ctx : Ctx) (h : ctx.WF) (pieces : List (List Byte)) :
    ∃ body, gstuffingV ctx pieces = ctx.start :: (body ++ [ctx.stop]) ∧
      (∀ b ∈ body, b ≠ ctx.start ∧ b ≠ ctx.stop) ∧
      (gstuffingV ctx pieces).length ≤ 2 * (pieces.map List.length).sum + 4 := by
  rw [encode_pieces]
  have hl : pieces.flatten.length = (pieces.map List.length).sum := by simp [List.length_flatten]
  rw [← hl]
  exact frame_shape ctx h pieces.flatten

-- non-vacuity of the three theorems above: v1, two pieces, a fresh receiver with 8 bytes
example : Ctx.v1.WF ∧ Idle (Recv.init 8) ∧ ([[0x41#8], [0xA8#8, 0x42#8]] : List (List Byte)).flatten.length + 2 ≤ (Recv.init 8).cap :=
  ⟨by decide, Or.inl rfl, by decide⟩

/-- the self-sizing encoders (buffer `2n+4` after `fix: … reserve the worst-case
frame length`) never write outside their buffer, for every alphabet -/
theorem encoder_buffer (ctx : Ctx) (pieces : List (List Byte)) :
    gstuffingVec ctx pieces = some (gstuffingV ctx pieces) := by
  unfold gstuffingVec
  have h1 := flatMap_stuff_length_le ctx pieces.flatten
  have h2 := stuffByte_length_le ctx (strmcrc8 0xFF#8 pieces.flatten)
  have hl : pieces.flatten.length = (pieces.map List.length).sum := by
    simp [List.length_flatten]
  have : (gstuffingV ctx pieces).length ≤ vecBufSize (pieces.map List.length).sum := by
    rw [encode_pieces, ← hl]
    simp only [encode, vecBufSize, List.length_cons, List.length_append, List.length_nil]; omega
  simp [this]

/-- the bound 2n+4 is attained (every byte and the CRC need escaping), so no
smaller buffer would do: payload B2 A8 B2 C5 A8 has CRC B2 in the V1 alphabet -/
theorem encoder_buffer_tight :
    (gstuffingV Ctx.v1 [[0xB2#8, 0xA8#8, 0xB2#8, 0xC5#8, 0xA8#8]]).length = 2 * 5 + 4 := by decide +kernel

/-- historical: with the buffer size `2n+2` used before the repair the empty
payload already needs more room than the buffer has -/
theorem encoder_buffer_old_witness : ¬ ((gstuffingV Ctx.v1 [[]]).length ≤ 0 * 2 + 2) := by decide

/-- "THE ENCODERS THAT SIZE THEIR OWN OUTPUT BUFFER NEVER WRITE OUTSIDE IT", about the buffer
writes themselves: the model `gstuffingVecW` allocates `ret.resize(sz*2+4)` and performs every
`*outdata++ = b` of `gstuffing_v` / `gstuff_byte` as a store at an explicit index, a store at
an index ≥ the buffer size being a fault.  For every alphabet (well-formed or not) and every
list of pieces no store faults, and after `ret.resize(sz2)` the vector is the frame. -/
theorem encoder_buffer_writes (ctx : Ctx) (pieces : List (List Byte)) :
    gstuffingVecW ctx pieces = some (gstuffingV ctx pieces) := by
  have hlen : (gstuffingV ctx pieces).length ≤ vecBufSize (pieces.map List.length).sum := by
    have := encoder_buffer ctx pieces
    unfold gstuffingVec at this
    by_cases hle : (gstuffingV ctx pieces).length ≤ vecBufSize (pieces.map List.length).sum
    · exact hle
    · simp [hle] at this
  obtain ⟨out', e1, _, e3⟩ := emitAll_some (List.replicate (vecBufSize (pieces.map List.length).sum) 0) 0
    (gstuffingV ctx pieces) (by simpa using hlen)
  simp only [gstuffingVecW, gstuffingVW_eq, e1]
  simpa using e3

/-- … and a buffer one byte smaller would not do: with `2n+3` bytes the worst-case payload
of `encoder_buffer_tight` makes the encoder's last store (the stop marker) fault -/
theorem encoder_buffer_small_witness :
    gstuffingVW Ctx.v1 [[0xB2#8, 0xA8#8, 0xB2#8, 0xC5#8, 0xA8#8]] (List.replicate (2 * 5 + 3) 0) = none := by
  decide +kernel

/-! ### legacy C codec (gstuffing_v1 / gstuff_autorecv_newchar_v1) -/

/-- legacy frame shape: AC :: body ++ [AC], no AC inside, at most 2n+4 bytes -/
theorem frame_shape_leg (p : List Byte) :
    ∃ body, gstuffingLeg p = legStart :: (body ++ [legStart]) ∧
      (∀ b ∈ body, b ≠ legStart) ∧ (gstuffingLeg p).length ≤ 2 * p.length + 4 := by
  rw [gstuffingLeg_eq]
  refine ⟨p.flatMap legStuffByte ++ legStuffByte (strmcrc8 0xFF#8 p), rfl, ?_, ?_⟩
  · intro b hb
    rcases List.mem_append.mp hb with hb | hb
    · obtain ⟨c, _, hc⟩ := List.mem_flatMap.mp hb
      exact legStuffByte_no_marker c b hc
    · exact legStuffByte_no_marker _ b hb
  · have h1 : (p.flatMap legStuffByte).length ≤ 2 * p.length := by
      induction p with
      | nil => simp
      | cons c cs ih =>
        have := legStuffByte_length_le c
        simp only [List.flatMap_cons, List.length_append, List.length_cons]; omega
    have h2 := legStuffByte_length_le (strmcrc8 0xFF#8 p)
    simp only [encodeLeg, List.length_cons, List.length_append, List.length_nil]; omega

/-- legacy receiver STATE after a frame (after `fix: gstuffing_v1 escapes the CRC byte`):
from a receiver in state 0, capacity `≥ |p|+2`, every byte but the last answers CONTINUE,
the last NEWPACKAGE, and the LINE holds payload ++ [crc] — NOT the payload: the legacy
receiver leaves the CRC byte in the line.  (The third conjunct is a list identity, kept
from the first round; the clause of the property is treated by `roundtrip_leg_partial` /
`roundtrip_leg_witness` below.) -/
theorem roundtrip_leg (p : List Byte) (r : LRecv) (hs : r.state = .l0) (hcap : p.length + 2 ≤ r.cap) :
    ∃ ss, lfeed r (gstuffingLeg p) =
        ({ r with state := .l0, crc := 0#8, line := p ++ [strmcrc8 0xFF#8 p] }, ss ++ [NEWPACKAGE]) ∧
      AllCont ss ∧ (p ++ [strmcrc8 0xFF#8 p]).dropLast = p := by
  rw [gstuffingLeg_eq]
  have hbody : p.flatMap legStuffByte ++ legStuffByte (strmcrc8 0xFF#8 p) =
      (p ++ [strmcrc8 0xFF#8 p]).flatMap legStuffByte := by simp
  unfold encodeLeg
  rw [hbody]
  obtain ⟨st, crc, line, cap⟩ := r
  simp only at hs hcap; subst hs
  have hfirst : lnewchar ⟨.l0, crc, line, cap⟩ legStart = (⟨.l1, 0xFF#8, [], cap⟩, CONTINUE) := by
    simp [lnewchar]
  simp only [lfeed, hfirst, lfeed_append]
  obtain ⟨e1, a1⟩ := lfeed_stuffed (p ++ [strmcrc8 0xFF#8 p]) ⟨.l1, 0xFF#8, [], cap⟩ rfl (by simp; omega)
  rw [e1]
  have hcrc : (p ++ [strmcrc8 0xFF#8 p]).foldl strmStep 0xFF#8 = 0#8 := by
    rw [List.foldl_append]; simp only [List.foldl_cons, List.foldl_nil]
    exact strmStep_self _
  simp only [List.nil_append, hcrc]
  have hlast : lnewchar ⟨.l1, 0#8, p ++ [strmcrc8 0xFF#8 p], cap⟩ legStart =
      (⟨.l0, 0#8, p ++ [strmcrc8 0xFF#8 p], cap⟩, NEWPACKAGE) := by
    simp [lnewchar]
  rw [hlast]
  refine ⟨CONTINUE :: (lfeed ⟨.l1, 0xFF#8, [], cap⟩ ((p ++ [strmcrc8 0xFF#8 p]).flatMap legStuffByte)).2, ?_, ?_, ?_⟩
  · simp
  · intro s hs
    rcases List.mem_cons.mp hs with rfl | hs
    · rfl
    · exact a1 s hs
  · simp

/-
  LEGACY ROUND TRIP, the property's clause "one completed packet … whose content equals the
  payload".  Read literally — the content the legacy API hands over equals the payload — it is
  FALSE for the legacy receiver: there is no accessor, the user reads `autom->line` through
  `sline_getline` / `sline_size` (`LRecv.getline`, `LRecv.size`), and the legacy receiver does
  not strip the CRC-8 (the configurable one does), so the API hands over payload ++ [crc],
  size n + 1 (`roundtrip_leg_witness`).  What holds (`roundtrip_leg_partial`): under the
  convention every caller has to follow — the packet is the first `size - 1` bytes
  (`LRecv.packet`) — the packet equals the payload.  `roundtrip_leg` above is the underlying
  statement about the receiver state (line = payload ++ [crc]); its third conjunct is a plain
  list identity and carries no information about the code.
-/
/-- from a freshly set-up legacy receiver (`gstuff_autorecv_setbuf_v1`, capacity ≥ n + 2):
every byte of `gstuffing_v1(p)` but the last is answered CONTINUE, the last NEWPACKAGE; the
API then hands over `size = n + 1` bytes `payload ++ [crc8 payload]`, whose first `size - 1`
bytes are the payload; the driver prints `C…CN` and the packet `p` -/
theorem roundtrip_leg_partial (p : List Byte) (cap : Nat) (hcap : p.length + 2 ≤ cap) :
    ∃ ss r', lfeed (LRecv.init cap) (gstuffingLeg p) = (r', ss ++ [NEWPACKAGE]) ∧ AllCont ss ∧
      r'.getline = p ++ [strmcrc8 0xFF#8 p] ∧ r'.size = p.length + 1 ∧ r'.packet = p ∧
      lfeedTrace (LRecv.init cap) (gstuffingLeg p) =
        (List.replicate ((gstuffingLeg p).length - 1) 'C' ++ ['N'], [p]) := by
  obtain ⟨ss, e, a⟩ := roundtrip_leg_idle p (LRecv.init cap) (Or.inr rfl) hcap
  have ht := lfeedTrace_of_lfeed _ _ _ ss e a
  have hl : ss.length = (gstuffingLeg p).length - 1 := by
    have := lfeed_length (LRecv.init cap) (gstuffingLeg p)
    rw [e] at this
    simp only [List.length_append, List.length_cons, List.length_nil] at this
    omega
  refine ⟨ss, _, e, a, rfl, by simp [LRecv.size], by simp [LRecv.packet, LRecv.getline, LRecv.size], ?_⟩
  rw [ht, hl]; simp

/-- witness: payload [00] — the legacy API hands over the two bytes 00 AC (the CRC-8 of [00]
is AC), `sline_size` = 2: as handed over, the content is not the payload -/
theorem roundtrip_leg_witness :
    (lfeed (LRecv.init 3) (gstuffingLeg [0x00#8])).1.getline = [0x00#8, 0xAC#8] ∧
    (lfeed (LRecv.init 3) (gstuffingLeg [0x00#8])).1.size = 2 ∧
    (lfeed (LRecv.init 3) (gstuffingLeg [0x00#8])).1.getline ≠ [0x00#8] := by decide +kernel

/-- historical: before the repair the legacy encoder wrote the CRC unescaped;
for the payload [00] the CRC is the start marker itself -/
theorem legacy_crc_is_marker_witness : strmcrc8 0xFF#8 [0x00#8] = legStart := by decide

end Igris.Gstuff
