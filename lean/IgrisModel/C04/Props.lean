/-
  C04 — PROPERTY THEOREMS: gstuff framing is lossless.

  "For every payload (any bytes, any length, any split into scatter-gather
  pieces) and every framing variant the library ships, feeding the encoder's
  output byte by byte to a receiver with a large enough buffer reports exactly
  one completed packet, on the last byte, whose content equals the payload.
  The frame starts with the start marker, ends with the stop marker, contains
  no unescaped marker in between and is at most 2n+4 bytes long.  The encoders
  that size their own output buffer never write outside it."
-/
import IgrisModel.C04.More
import IgrisModel.C04.Lemmas3
namespace Igris.Gstuff
open Igris.Proto Igris.C17

/-- both shipped alphabets are well-formed (non-vacuity of every `ctx.WF` hypothesis) -/
theorem shipped_alphabets_wf : Ctx.v1.WF ∧ Ctx.v0.WF := by decide

/-- the scatter-gather encoder depends only on the concatenation of the pieces -/
theorem encode_pieces (ctx : Ctx) (pieces : List (List Byte)) :
    gstuffingV ctx pieces = encode ctx pieces.flatten := by
  simp [gstuffingV, stuffPieces_eq, encode, strmcrc8]

theorem gstuffing_eq_encode (ctx : Ctx) (p : List Byte) : gstuffing ctx p = encode ctx p := by
  simp [gstuffing, encode_pieces]

/-- frame shape: START :: body ++ [STOP], no marker inside, at most 2n+4 bytes -/
theorem frame_shape (ctx : Ctx) (h : ctx.WF) (p : List Byte) :
    ∃ body, encode ctx p = ctx.start :: (body ++ [ctx.stop]) ∧
      (∀ b ∈ body, b ≠ ctx.start ∧ b ≠ ctx.stop) ∧
      (encode ctx p).length ≤ 2 * p.length + 4 := by
  refine ⟨p.flatMap (stuffByte ctx) ++ stuffByte ctx (strmcrc8 0xFF#8 p), rfl, ?_, ?_⟩
  · intro b hb
    rcases List.mem_append.mp hb with hb | hb
    · obtain ⟨c, _, hc⟩ := List.mem_flatMap.mp hb
      exact stuffByte_no_marker ctx h c b hc
    · exact stuffByte_no_marker ctx h _ b hb
  · have h1 := flatMap_stuff_length_le ctx p
    have h2 := stuffByte_length_le ctx (strmcrc8 0xFF#8 p)
    simp only [encode, List.length_cons, List.length_append, List.length_nil]; omega

/-- ROUND TRIP.  For every well-formed alphabet, payload, receiver that is
between frames (fresh, after a packet, after an error, or hunting) and capacity
`≥ |p| + 2`: every byte of the frame but the last answers CONTINUE, the last
answers NEWPACKAGE, and the delivered line is exactly the payload. -/
theorem roundtrip (ctx : Ctx) (h : ctx.WF) (p : List Byte) (r : Recv) (hidle : Idle r)
    (hcap : p.length + 2 ≤ r.cap) :
    ∃ ss, feed ctx r (encode ctx p) =
        ({ r with state := .s0, crc := 0#8, line := p }, ss ++ [NEWPACKAGE]) ∧ AllCont ss := by
  have hbody : p.flatMap (stuffByte ctx) ++ stuffByte ctx (strmcrc8 0xFF#8 p) =
      (p ++ [strmcrc8 0xFF#8 p]).flatMap (stuffByte ctx) := by simp
  unfold encode
  rw [hbody]
  simp only [feed, newchar_start_idle ctx r hidle, feed_append]
  obtain ⟨e1, a1⟩ := feed_stuffed ctx h (p ++ [strmcrc8 0xFF#8 p])
    { r with state := .s1, crc := 0xFF#8, line := [] } rfl (by simp; omega)
  rw [e1]
  have hcrc : (p ++ [strmcrc8 0xFF#8 p]).foldl strmStep 0xFF#8 = 0#8 := by
    rw [List.foldl_append]; simp only [List.foldl_cons, List.foldl_nil]
    exact strmStep_self _
  simp only [List.nil_append, hcrc]
  rw [newchar_stop_inframe ctx _ rfl (by simp) rfl]
  refine ⟨CONTINUE :: (feed ctx { r with state := .s1, crc := 0xFF#8, line := [] }
      ((p ++ [strmcrc8 0xFF#8 p]).flatMap (stuffByte ctx))).2, ?_, ?_⟩
  · simp
  · intro s hs
    rcases List.mem_cons.mp hs with rfl | hs
    · rfl
    · exact a1 s hs

/-- both shipped alphabets round-trip every payload from a freshly initialised receiver -/
theorem roundtrip_shipped (p : List Byte) (cap : Nat) (hcap : p.length + 2 ≤ cap) :
    (∃ ss, feed Ctx.v1 (Recv.init cap) (gstuffing Ctx.v1 p) =
        (⟨.s0, 0#8, p, cap⟩, ss ++ [NEWPACKAGE]) ∧ AllCont ss) ∧
    (∃ ss, feed Ctx.v0 (Recv.init cap) (gstuffing Ctx.v0 p) =
        (⟨.s0, 0#8, p, cap⟩, ss ++ [NEWPACKAGE]) ∧ AllCont ss) := by
  constructor
  · rw [gstuffing_eq_encode]
    exact roundtrip Ctx.v1 shipped_alphabets_wf.1 p (Recv.init cap) (Or.inl rfl) hcap
  · rw [gstuffing_eq_encode]
    exact roundtrip Ctx.v0 shipped_alphabets_wf.2 p (Recv.init cap) (Or.inl rfl) hcap

/-- ROUND TRIP, literally about the scatter-gather encoder `gstuffing_v(vec, n, out, ctx)`:
for every well-formed alphabet, every list of iovec pieces (any bytes, any lengths, empty
pieces included), every receiver that is between frames and every capacity ≥ n + 2 (n =
total payload length): every byte of the encoder's output but the last is answered
CONTINUE, the last NEWPACKAGE, and the delivered line is the concatenation of the pieces. -/
theorem roundtrip_iovec (ctx : Ctx) (h : ctx.WF) (pieces : List (List Byte)) (r : Recv) (hidle : Idle r)
    (hcap : pieces.flatten.length + 2 ≤ r.cap) :
    ∃ ss, feed ctx r (gstuffingV ctx pieces) =
        ({ r with state := .s0, crc := 0#8, line := pieces.flatten }, ss ++ [NEWPACKAGE]) ∧ AllCont ss := by
  rw [encode_pieces]
  exact roundtrip ctx h pieces.flatten r hidle hcap

/-- HEADLINE: `decode (gstuffing_v iov) = [concat iov]` — exactly one packet, equal to the
payload, and the status string the driver prints is `C…CN` (one status per frame byte) -/
theorem decode_gstuffing_v (ctx : Ctx) (h : ctx.WF) (pieces : List (List Byte)) (cap : Nat)
    (hcap : pieces.flatten.length + 2 ≤ cap) :
    decode ctx cap (gstuffingV ctx pieces) = [pieces.flatten] ∧
    (feedTrace ctx (Recv.init cap) (gstuffingV ctx pieces)).1 =
      List.replicate ((gstuffingV ctx pieces).length - 1) 'C' ++ ['N'] := by
  obtain ⟨ss, e, a⟩ := roundtrip_iovec ctx h pieces (Recv.init cap) (Or.inl rfl) hcap
  have ht := feedTrace_of_feed ctx _ _ _ ss e a
  have hl : ss.length = (gstuffingV ctx pieces).length - 1 := by
    have := feed_length ctx (Recv.init cap) (gstuffingV ctx pieces)
    rw [e] at this
    simp only [List.length_append, List.length_cons, List.length_nil] at this
    omega
  simp only [decode, ht, hl, and_self]

/-- frame shape, literally about `gstuffing_v`: START body STOP, no marker in the body,
at most 2n+4 bytes (n = total length of the pieces) -/
theorem frame_shape_iovec (ctx : Ctx) (h : ctx.WF) (pieces : List (List Byte)) :
    ∃ body, gstuffingV ctx pieces = ctx.start :: (body ++ [ctx.stop]) ∧
      (∀ b ∈ body, b ≠ ctx.start ∧ b ≠ ctx.stop) ∧
      (gstuffingV ctx pieces).length ≤ 2 * (pieces.map List.length).sum + 4 := by
  rw [encode_pieces]
  have hl : pieces.flatten.length = (pieces.map List.length).sum := by simp [List.length_flatten]
  rw [← hl]
  exact frame_shape ctx h pieces.flatten

-- non-vacuity of the three theorems above: v1, two pieces, a fresh receiver with 8 bytes
example : Ctx.v1.WF ∧ Idle (Recv.init 8) ∧ ([[0x41#8], [0xA8#8, 0x42#8]] : List (List Byte)).flatten.length + 2 ≤ (Recv.init 8).cap :=
  ⟨by decide, Or.inl rfl, by decide⟩

/-- the self-sizing encoders (buffer `2n+4` after `fix: … reserve the worst-case
frame length`) never write outside their buffer, for every alphabet -/
theorem encoder_buffer (ctx : Ctx) (pieces : List (List Byte)) :
    gstuffingVec ctx pieces = some (gstuffingV ctx pieces) := by
  unfold gstuffingVec
  have h1 := flatMap_stuff_length_le ctx pieces.flatten
  have h2 := stuffByte_length_le ctx (strmcrc8 0xFF#8 pieces.flatten)
  have hl : pieces.flatten.length = (pieces.map List.length).sum := by
    simp [List.length_flatten]
  have : (gstuffingV ctx pieces).length ≤ vecBufSize (pieces.map List.length).sum := by
    rw [encode_pieces, ← hl]
    simp only [encode, vecBufSize, List.length_cons, List.length_append, List.length_nil]; omega
  simp [this]

/-- the bound 2n+4 is attained (every byte and the CRC need escaping), so no
smaller buffer would do: payload B2 A8 B2 C5 A8 has CRC B2 in the V1 alphabet -/
theorem encoder_buffer_tight :
    (gstuffingV Ctx.v1 [[0xB2#8, 0xA8#8, 0xB2#8, 0xC5#8, 0xA8#8]]).length = 2 * 5 + 4 := by decide +kernel

/-- historical: with the buffer size `2n+2` used before the repair the empty
payload already needs more room than the buffer has -/
theorem encoder_buffer_old_witness : ¬ ((gstuffingV Ctx.v1 [[]]).length ≤ 0 * 2 + 2) := by decide

/-- "THE ENCODERS THAT SIZE THEIR OWN OUTPUT BUFFER NEVER WRITE OUTSIDE IT", about the buffer
writes themselves: the model `gstuffingVecW` allocates `ret.resize(sz*2+4)` and performs every
`*outdata++ = b` of `gstuffing_v` / `gstuff_byte` as a store at an explicit index, a store at
an index ≥ the buffer size being a fault.  For every alphabet (well-formed or not) and every
list of pieces no store faults, and after `ret.resize(sz2)` the vector is the frame. -/
theorem encoder_buffer_writes (ctx : Ctx) (pieces : List (List Byte)) :
    gstuffingVecW ctx pieces = some (gstuffingV ctx pieces) := by
  have hlen : (gstuffingV ctx pieces).length ≤ vecBufSize (pieces.map List.length).sum := by
    have := encoder_buffer ctx pieces
    unfold gstuffingVec at this
    by_cases hle : (gstuffingV ctx pieces).length ≤ vecBufSize (pieces.map List.length).sum
    · exact hle
    · simp [hle] at this
  obtain ⟨out', e1, _, e3⟩ := emitAll_some (List.replicate (vecBufSize (pieces.map List.length).sum) 0) 0
    (gstuffingV ctx pieces) (by simpa using hlen)
  simp only [gstuffingVecW, gstuffingVW_eq, e1]
  simpa using e3

/-- … and a buffer one byte smaller would not do: with `2n+3` bytes the worst-case payload
of `encoder_buffer_tight` makes the encoder's last store (the stop marker) fault -/
theorem encoder_buffer_small_witness :
    gstuffingVW Ctx.v1 [[0xB2#8, 0xA8#8, 0xB2#8, 0xC5#8, 0xA8#8]] (List.replicate (2 * 5 + 3) 0) = none := by
  decide +kernel

/-! ### legacy C codec (gstuffing_v1 / gstuff_autorecv_newchar_v1) -/

/-- legacy frame shape: AC :: body ++ [AC], no AC inside, at most 2n+4 bytes -/
theorem frame_shape_leg (p : List Byte) :
    ∃ body, gstuffingLeg p = legStart :: (body ++ [legStart]) ∧
      (∀ b ∈ body, b ≠ legStart) ∧ (gstuffingLeg p).length ≤ 2 * p.length + 4 := by
  rw [gstuffingLeg_eq]
  refine ⟨p.flatMap legStuffByte ++ legStuffByte (strmcrc8 0xFF#8 p), rfl, ?_, ?_⟩
  · intro b hb
    rcases List.mem_append.mp hb with hb | hb
    · obtain ⟨c, _, hc⟩ := List.mem_flatMap.mp hb
      exact legStuffByte_no_marker c b hc
    · exact legStuffByte_no_marker _ b hb
  · have h1 : (p.flatMap legStuffByte).length ≤ 2 * p.length := by
      induction p with
      | nil => simp
      | cons c cs ih =>
        have := legStuffByte_length_le c
        simp only [List.flatMap_cons, List.length_append, List.length_cons]; omega
    have h2 := legStuffByte_length_le (strmcrc8 0xFF#8 p)
    simp only [encodeLeg, List.length_cons, List.length_append, List.length_nil]; omega

/-- legacy receiver STATE after a frame (after `fix: gstuffing_v1 escapes the CRC byte`):
from a receiver in state 0, capacity `≥ |p|+2`, every byte but the last answers CONTINUE,
the last NEWPACKAGE, and the LINE holds payload ++ [crc] — NOT the payload: the legacy
receiver leaves the CRC byte in the line.  (The third conjunct is a list identity, kept
from the first round; the clause of the property is treated by `roundtrip_leg_partial` /
`roundtrip_leg_witness` below.) -/
theorem roundtrip_leg (p : List Byte) (r : LRecv) (hs : r.state = .l0) (hcap : p.length + 2 ≤ r.cap) :
    ∃ ss, lfeed r (gstuffingLeg p) =
        ({ r with state := .l0, crc := 0#8, line := p ++ [strmcrc8 0xFF#8 p] }, ss ++ [NEWPACKAGE]) ∧
      AllCont ss ∧ (p ++ [strmcrc8 0xFF#8 p]).dropLast = p := by
  rw [gstuffingLeg_eq]
  have hbody : p.flatMap legStuffByte ++ legStuffByte (strmcrc8 0xFF#8 p) =
      (p ++ [strmcrc8 0xFF#8 p]).flatMap legStuffByte := by simp
  unfold encodeLeg
  rw [hbody]
  obtain ⟨st, crc, line, cap⟩ := r
  simp only at hs hcap; subst hs
  have hfirst : lnewchar ⟨.l0, crc, line, cap⟩ legStart = (⟨.l1, 0xFF#8, [], cap⟩, CONTINUE) := by
    simp [lnewchar]
  simp only [lfeed, hfirst, lfeed_append]
  obtain ⟨e1, a1⟩ := lfeed_stuffed (p ++ [strmcrc8 0xFF#8 p]) ⟨.l1, 0xFF#8, [], cap⟩ rfl (by simp; omega)
  rw [e1]
  have hcrc : (p ++ [strmcrc8 0xFF#8 p]).foldl strmStep 0xFF#8 = 0#8 := by
    rw [List.foldl_append]; simp only [List.foldl_cons, List.foldl_nil]
    exact strmStep_self _
  simp only [List.nil_append, hcrc]
  have hlast : lnewchar ⟨.l1, 0#8, p ++ [strmcrc8 0xFF#8 p], cap⟩ legStart =
      (⟨.l0, 0#8, p ++ [strmcrc8 0xFF#8 p], cap⟩, NEWPACKAGE) := by
    simp [lnewchar]
  rw [hlast]
  refine ⟨CONTINUE :: (lfeed ⟨.l1, 0xFF#8, [], cap⟩ ((p ++ [strmcrc8 0xFF#8 p]).flatMap legStuffByte)).2, ?_, ?_, ?_⟩
  · simp
  · intro s hs
    rcases List.mem_cons.mp hs with rfl | hs
    · rfl
    · exact a1 s hs
  · simp

/-
  LEGACY ROUND TRIP, the property's clause "one completed packet … whose content equals the
  payload".  Read literally — the content the legacy API hands over equals the payload — it is
  FALSE for the legacy receiver: there is no accessor, the user reads `autom->line` through
  `sline_getline` / `sline_size` (`LRecv.getline`, `LRecv.size`), and the legacy receiver does
  not strip the CRC-8 (the configurable one does), so the API hands over payload ++ [crc],
  size n + 1 (`roundtrip_leg_witness`).  What holds (`roundtrip_leg_partial`): under the
  convention every caller has to follow — the packet is the first `size - 1` bytes
  (`LRecv.packet`) — the packet equals the payload.  `roundtrip_leg` above is the underlying
  statement about the receiver state (line = payload ++ [crc]); its third conjunct is a plain
  list identity and carries no information about the code.
-/
/-- from a freshly set-up legacy receiver (`gstuff_autorecv_setbuf_v1`, capacity ≥ n + 2):
every byte of `gstuffing_v1(p)` but the last is answered CONTINUE, the last NEWPACKAGE; the
API then hands over `size = n + 1` bytes `payload ++ [crc8 payload]`, whose first `size - 1`
bytes are the payload; the driver prints `C…CN` and the packet `p` -/
theorem roundtrip_leg_partial (p : List Byte) (cap : Nat) (hcap : p.length + 2 ≤ cap) :
    ∃ ss r', lfeed (LRecv.init cap) (gstuffingLeg p) = (r', ss ++ [NEWPACKAGE]) ∧ AllCont ss ∧
      r'.getline = p ++ [strmcrc8 0xFF#8 p] ∧ r'.size = p.length + 1 ∧ r'.packet = p ∧
      lfeedTrace (LRecv.init cap) (gstuffingLeg p) =
        (List.replicate ((gstuffingLeg p).length - 1) 'C' ++ ['N'], [p]) := by
  obtain ⟨ss, e, a⟩ := roundtrip_leg_idle p (LRecv.init cap) (Or.inr rfl) hcap
  have ht := lfeedTrace_of_lfeed _ _ _ ss e a
  have hl : ss.length = (gstuffingLeg p).length - 1 := by
    have := lfeed_length (LRecv.init cap) (gstuffingLeg p)
    rw [e] at this
    simp only [List.length_append, List.length_cons, List.length_nil] at this
    omega
  refine ⟨ss, _, e, a, rfl, by simp [LRecv.size], by simp [LRecv.packet, LRecv.getline, LRecv.size], ?_⟩
  rw [ht, hl]; simp

/-- witness: payload [00] — the legacy API hands over the two bytes 00 AC (the CRC-8 of [00]
is AC), `sline_size` = 2: as handed over, the content is not the payload -/
theorem roundtrip_leg_witness :
    (lfeed (LRecv.init 3) (gstuffingLeg [0x00#8])).1.getline = [0x00#8, 0xAC#8] ∧
    (lfeed (LRecv.init 3) (gstuffingLeg [0x00#8])).1.size = 2 ∧
    (lfeed (LRecv.init 3) (gstuffingLeg [0x00#8])).1.getline ≠ [0x00#8] := by decide +kernel

/-- the excluded region of `roundtrip_leg_partial`, exactly: read literally ("the content handed over
equals the payload") the clause fails for EVERY payload, not only for the witness — what `sline_getline`
/ `sline_size` hand over after the frame of `p` is never `p` (it is one byte longer) -/
theorem roundtrip_leg_never_payload (p : List Byte) (cap : Nat) (hcap : p.length + 2 ≤ cap) :
    (lfeed (LRecv.init cap) (gstuffingLeg p)).1.getline ≠ p ∧
    (lfeed (LRecv.init cap) (gstuffingLeg p)).1.size ≠ p.length := by
  obtain ⟨ss, r', e, _, g1, g2, _, _⟩ := roundtrip_leg_partial p cap hcap
  rw [e]
  refine ⟨?_, by simp only [g2]; omega⟩
  intro h
  have := congrArg List.length h
  rw [g1] at this
  simp at this

/-- historical: before the repair the legacy encoder wrote the CRC unescaped;
for the payload [00] the CRC is the start marker itself -/
theorem legacy_crc_is_marker_witness : strmcrc8 0xFF#8 [0x00#8] = legStart := by decide

/-! ### round 3: C integer widths, re-used buffers, sessions on long-lived objects -/

/-- the encoder INTO A RE-USED CALLER BUFFER (`gstuffing_v(vec, n, out, ctx)`, `out` holding anything —
e.g. the previous, longer frame): for every alphabet and every buffer of at least 2n+4 bytes no store
faults, the first L bytes are the frame, L is the value the pointer difference has, the buffer keeps
its size and EVERY BYTE BEHIND THE FRAME KEEPS ITS VALUE -/
theorem encoder_reused_buffer (ctx : Ctx) (pieces : List (List Byte)) (out : List Byte)
    (h : 2 * (pieces.map List.length).sum + 4 ≤ out.length) :
    ∃ out', gstuffingVW ctx pieces out = some (out', (gstuffingV ctx pieces).length) ∧
      out'.take (gstuffingV ctx pieces).length = gstuffingV ctx pieces ∧ out'.length = out.length ∧
      out'.drop (gstuffingV ctx pieces).length = out.drop (gstuffingV ctx pieces).length := by
  have := gstuffingV_length_le ctx pieces
  exact gstuffingVW_reused ctx pieces out (by omega)

/-- the same for the legacy encoder `gstuffing_v1(data, size, out)` modelled at the level of its stores -/
theorem encoder_reused_buffer_leg (p : List Byte) (out : List Byte) (h : 2 * p.length + 4 ≤ out.length) :
    ∃ out', gstuffingLegW p out = some (out', (gstuffingLeg p).length) ∧
      out'.take (gstuffingLeg p).length = gstuffingLeg p ∧ out'.length = out.length ∧
      out'.drop (gstuffingLeg p).length = out.drop (gstuffingLeg p).length := by
  obtain ⟨_, _, _, hl⟩ := frame_shape_leg p
  exact gstuffingLegW_reused p out (by omega)

/-- THE `int` RETURN VALUE `(int)(outdata - outstrt)`: exactly when the frame is at most INT_MAX bytes
long the returned `int` is the frame length (L < 2^32, which 2n+4 < 2^32 guarantees) … -/
theorem int_return_exact (L : Nat) (h : L < 2 ^ 32) : retInt L = L ↔ L < 2 ^ 31 := by
  constructor
  · intro e
    by_cases hl : L < 2 ^ 31
    · exact hl
    · have := retInt_neg L (by omega) h
      omega
  · exact retInt_of_lt L

/-- … which every payload of at most 2^30 - 3 bytes guarantees (2n+4 ≤ INT_MAX): below this DECIDABLE
BOUND the return value of `gstuffing_v` / `gstuffing` is the length of the list-level frame -/
theorem int_return_is_length (ctx : Ctx) (pieces : List (List Byte))
    (h : 2 * (pieces.map List.length).sum + 4 < 2 ^ 31) :
    retInt (gstuffingV ctx pieces).length = (gstuffingV ctx pieces).length := by
  have := gstuffingV_length_le ctx pieces
  exact retInt_of_lt _ (by omega)

/-- THE SELF-SIZING OVERLOADS WITH THE C WIDTHS (`size_t` sum of the iovec lengths, `sz * 2 + 4` in
`size_t`, the `int` result converted to `size_t sz2`, `ret.resize(sz2)`): below the same bound they
return exactly the list-level frame, no store outside the buffer -/
theorem encoder_buffer_writes_widths (ctx : Ctx) (pieces : List (List Byte))
    (h : 2 * (pieces.map List.length).sum + 4 < 2 ^ 31) :
    gstuffingVecC ctx pieces = some (gstuffingV ctx pieces) := gstuffingVecC_eq ctx pieces h

-- non-vacuity of the bound: a 1 MiB payload in two pieces is below it
example : 2 * (([List.replicate 1048000 (0#8), List.replicate 576 (0#8)] : List (List Byte)).map List.length).sum + 4
    < 2 ^ 31 := by
  simp only [List.map_cons, List.map_nil, List.length_replicate, List.sum_cons, List.sum_nil]; decide

/-- … AND BEYOND IT NOT: for a payload of n start markers with 2^31 ≤ 2n+3 (n ≥ 2^30 - 1; the frame is
then longer than INT_MAX whatever its CRC) the `int` return value is NEGATIVE, and the self-sizing
overload, which converts it to `size_t` (≥ 2^63) and calls `resize`, ends in `std::length_error`
(`none`) — all its stores were inside the buffer.  (For n = 2^30 - 2 it depends on whether the CRC needs
escaping.)  Payloads of a gibibyte are outside what the framing is used for; recorded as an assumption
of the check, not as a finding. -/
theorem encoder_int_overflow_witness (ctx : Ctx) (n : Nat) (h1 : 2 ^ 31 ≤ 2 * n + 3) (h2 : 2 * n + 4 < 2 ^ 32) :
    retInt (gstuffingV ctx [List.replicate n ctx.start]).length < 0 ∧
    gstuffingVecC ctx [List.replicate n ctx.start] = none := by
  have hlen := gstuffingV_length_le ctx [List.replicate n ctx.start]
  simp only [List.map_cons, List.map_nil, List.length_replicate, List.sum_cons, List.sum_nil, Nat.add_zero] at hlen
  have hlo := allStart_frame_length ctx n
  exact ⟨retInt_neg _ (by omega) (by omega), gstuffingVecC_overflow ctx n h1 h2⟩

-- the first n the witness applies to
example : 2 ^ 31 ≤ 2 * (2 ^ 30 - 1) + 3 ∧ 2 * (2 ^ 30 - 1) + 4 < 2 ^ 32 := by decide

/-- ENCODER CALLS ON ONE LONG-LIVED CONTEXT OBJECT ARE INDEPENDENT CALLS.  In a session (`Sess`: one
`gstuff_context` object mutated in place, one re-used output buffer, long-lived receivers — whatever
happened before) the result of an encoder step is a function of the CONTENTS of the context at the time
of the call and of the payload, nothing else: two sessions in arbitrary states that agree on the context
contents produce the same `int` and the same frame, namely those of the list-level `gstuffingV`.  This
is what justifies modelling a sequence of calls as independent calls (and what the seeded change
`C04-escape-table-cached-by-ctx-address` — a table cached by the ADDRESS of the context — violates). -/
theorem encode_depends_only_on_contents (s1 s2 : Sess) (pieces : List (List Byte)) (hc : s1.ctx = s2.ctx)
    (h1 : 2 * (pieces.map List.length).sum + 4 ≤ s1.out.length)
    (h2 : 2 * (pieces.map List.length).sum + 4 ≤ s2.out.length) :
    (s1.step (.enc pieces)).2 = (s2.step (.enc pieces)).2 ∧
    (s1.step (.enc pieces)).2 =
      .frame (retInt (gstuffingV s1.ctx pieces).length) (gstuffingV s1.ctx pieces) ∧
    (s1.step (.enc pieces)).1.frame = gstuffingV s1.ctx pieces := by
  have l1 := gstuffingV_length_le s1.ctx pieces
  have l2 := gstuffingV_length_le s2.ctx pieces
  obtain ⟨o1, e1, _, _⟩ := sess_enc s1 pieces (by omega)
  obtain ⟨o2, e2, _, _⟩ := sess_enc s2 pieces (by omega)
  rw [e1, e2, hc]; exact ⟨rfl, rfl, rfl⟩

/-- ROUND TRIP IN A SESSION, with the alphabet current at the call: from ANY session state (any
history of encoder calls, context mutations, receiver calls, stale buffer contents), overwriting the
context object with any well-formed alphabet `A`, encoding any pieces into the re-used buffer,
re-constructing the receiver object from the context, `init(blk, cap)` with n + 2 ≤ cap ≤ |blk| and
feeding the frame answers CONTINUE … CONTINUE NEWPACKAGE and hands over exactly the payload -/
theorem session_roundtrip (s : Sess) (A : Ctx) (hA : A.WF) (pieces : List (List Byte)) (cap : Nat)
    (hfit : 2 * (pieces.map List.length).sum + 4 ≤ s.out.length)
    (hcap : pieces.flatten.length + 2 ≤ cap) (hcap32 : cap < 2 ^ 32)
    (hblk : cap ≤ (if s.att then s.recv.line.buf else s.blk).length) :
    (Sess.run s [.setCtx A, .enc pieces, .rnew, .rinit cap, .feed none]).2 =
      [.unit, .frame (retInt (gstuffingV A pieces).length) (gstuffingV A pieces), .unit, .unit,
       .trace (List.replicate ((gstuffingV A pieces).length - 1) CONTINUE ++ [NEWPACKAGE]) [pieces.flatten]] := by
  have l1 := gstuffingV_length_le A pieces
  obtain ⟨o1, e1, _, _⟩ := sess_enc { s with ctx := A } pieces (by simp only; omega)
  -- the receiver after `recv = gstuff_autorecv(ctx); recv.init(blk, cap)`
  generalize hb : (if s.att then s.recv.line.buf else s.blk) = blk0 at hblk
  have hcapN : (BitVec.ofNat 32 cap).toNat = cap := by
    simp only [BitVec.toNat_ofNat]; exact Nat.mod_eq_of_lt hcap32
  have hok : SlineOK (BRecv.init blk0 (BitVec.ofNat 32 cap)).line :=
    ⟨rfl, by simp only [BRecv.init, Sline.init, hcapN]; exact hblk, by simp [BRecv.init, Sline.init]⟩
  have habs : (BRecv.init blk0 (BitVec.ofNat 32 cap)).abs = Recv.init cap := by
    simp [BRecv.abs, BRecv.init, Sline.init, Sline.bytes, Recv.init, hcapN]
  obtain ⟨r', f1, _, _, _⟩ := bfeedS_eq A (BRecv.init blk0 (BitVec.ofNat 32 cap)) hok
    (by simp only [BRecv.init, Sline.init, hcapN]; omega) (gstuffingV A pieces)
  rw [habs] at f1
  -- what the list-level receiver answers
  obtain ⟨ss, g1, g2⟩ := roundtrip_iovec A hA pieces (Recv.init cap) (Or.inl rfl) hcap
  have hd := (decode_gstuffing_v A hA pieces cap hcap).1
  have hl : ss.length = (gstuffingV A pieces).length - 1 := by
    have := feed_length A (Recv.init cap) (gstuffingV A pieces)
    rw [g1] at this
    simp only [List.length_append, List.length_cons, List.length_nil] at this
    omega
  have hss : (feed A (Recv.init cap) (gstuffingV A pieces)).2 =
      List.replicate ((gstuffingV A pieces).length - 1) CONTINUE ++ [NEWPACKAGE] := by
    rw [g1, ← hl, ← allCont_eq_replicate g2]
  simp only [decode] at hd
  rw [hss, hd] at f1
  simp only [Sess.step] at e1
  obtain ⟨x, hx⟩ : ∃ x, gstuffingVW A pieces s.out = some x := by
    cases hg : gstuffingVW A pieces s.out with
    | none => rw [hg] at e1; simp at e1
    | some x => exact ⟨x, rfl⟩
  rw [hx] at e1
  simp only [Prod.mk.injEq, SOut.frame.injEq] at e1
  simp only [Sess.run, Sess.step, hx, hb, Option.getD_none, if_false, Bool.false_eq_true, e1.2.2, f1]
  rw [e1.2.1]

-- non-vacuity: the session right after its start, the v0 alphabet, 2 pieces, capacity 5
example : Ctx.v0.WF ∧ 2 * (([[0xAC#8], [0x41#8]] : List (List Byte)).map List.length).sum + 4 ≤ (Sess.start 16 8).out.length ∧
    ([[0xAC#8], [0x41#8]] : List (List Byte)).flatten.length + 2 ≤ 5 ∧
    5 ≤ (if (Sess.start 16 8).att then (Sess.start 16 8).recv.line.buf else (Sess.start 16 8).blk).length := by decide

/-- RECEIVER CALLS ON ONE LONG-LIVED RECEIVER OBJECT: whatever the session did before (frames, garbage,
half a frame, `reset()`, another alphabet, stale bytes in the receive block), after the receiver object is
re-constructed from the context and given a buffer (`init(blk, cap)`, 1 ≤ cap ≤ |blk|), what it answers to a
byte string and what it hands over depends only on (context CONTENTS at the re-construction, cap, the bytes):
it is the list-level receiver started from `Recv.init cap`, to which every theorem of C05 applies -/
theorem receiver_depends_only_on_contents (s1 s2 : Sess) (bs : List Byte) (cap : Nat) (hc : s1.ctx = s2.ctx)
    (hcap : 1 ≤ cap) (hcap32 : cap < 2 ^ 32)
    (hb1 : cap ≤ (if s1.att then s1.recv.line.buf else s1.blk).length)
    (hb2 : cap ≤ (if s2.att then s2.recv.line.buf else s2.blk).length) :
    (Sess.run s1 [.rnew, .rinit cap, .feed (some bs)]).2 = (Sess.run s2 [.rnew, .rinit cap, .feed (some bs)]).2 ∧
    (Sess.run s1 [.rnew, .rinit cap, .feed (some bs)]).2 =
      [.unit, .unit, .trace (feed s1.ctx (Recv.init cap) bs).2 (feedTrace s1.ctx (Recv.init cap) bs).2] := by
  have hcapN : (BitVec.ofNat 32 cap).toNat = cap := by
    simp only [BitVec.toNat_ofNat]; exact Nat.mod_eq_of_lt hcap32
  have key : ∀ s : Sess, cap ≤ (if s.att then s.recv.line.buf else s.blk).length →
      (Sess.run s [.rnew, .rinit cap, .feed (some bs)]).2 =
        [.unit, .unit, .trace (feed s.ctx (Recv.init cap) bs).2 (feedTrace s.ctx (Recv.init cap) bs).2] := by
    intro s hblk
    generalize hb : (if s.att then s.recv.line.buf else s.blk) = blk0 at hblk
    have hok : SlineOK (BRecv.init blk0 (BitVec.ofNat 32 cap)).line :=
      ⟨rfl, by simp only [BRecv.init, Sline.init, hcapN]; exact hblk, by simp [BRecv.init, Sline.init]⟩
    have habs : (BRecv.init blk0 (BitVec.ofNat 32 cap)).abs = Recv.init cap := by
      simp [BRecv.abs, BRecv.init, Sline.init, Sline.bytes, Recv.init, hcapN]
    obtain ⟨r', f1, _, _, _⟩ := bfeedS_eq s.ctx (BRecv.init blk0 (BitVec.ofNat 32 cap)) hok
      (by simp only [BRecv.init, Sline.init, hcapN]; omega) bs
    rw [habs] at f1
    simp only [Sess.run, Sess.step, hb, Option.getD_some, if_false, Bool.false_eq_true, f1]
  rw [key s1 hb1, key s2 hb2, hc]
  exact ⟨rfl, rfl⟩

-- non-vacuity: two different session states with the same context contents
example : (Sess.start 16 8).ctx = ((Sess.start 32 8).step (.enc [[0x41#8]])).1.ctx ∧ (1 : Nat) ≤ 4 ∧
    4 ≤ (if (Sess.start 16 8).att then (Sess.start 16 8).recv.line.buf else (Sess.start 16 8).blk).length := by decide

/-- LEGACY ROUND TRIP IN A SESSION: from any session state, `gstuffing_v1` into the re-used buffer,
`setbuf_v1(lblk, cap)` on the long-lived legacy struct (n + 2 ≤ cap ≤ |lblk|), feed: the `int` returned is the
frame length, the answers are `C…CN`, the packet (line minus its CRC byte) is the payload -/
theorem session_roundtrip_leg (s : Sess) (p : List Byte) (cap : Nat)
    (hfit : 2 * p.length + 4 ≤ s.out.length)
    (hcap : p.length + 2 ≤ cap) (hcap32 : cap < 2 ^ 32)
    (hblk : cap ≤ (if s.latt then s.lrecv.line.buf else s.lblk).length) :
    (Sess.run s [.encLeg p, .lsetbuf cap, .lfeed none]).2 =
      [.frame (retInt (gstuffingLeg p).length) (gstuffingLeg p), .unit,
       .trace (List.replicate ((gstuffingLeg p).length - 1) CONTINUE ++ [NEWPACKAGE]) [p]] := by
  obtain ⟨o1, e1, e2, _, _⟩ := encoder_reused_buffer_leg p s.out hfit
  generalize hb : (if s.latt then s.lrecv.line.buf else s.lblk) = blk0 at hblk
  have hcapN : (BitVec.ofNat 32 cap).toNat = cap := by
    simp only [BitVec.toNat_ofNat]; exact Nat.mod_eq_of_lt hcap32
  have hok : SlineOK (BLRecv.init blk0 (BitVec.ofNat 32 cap)).line :=
    ⟨rfl, by simp only [BLRecv.init, Sline.init, hcapN]; exact hblk, by simp [BLRecv.init, Sline.init]⟩
  have habs : (BLRecv.init blk0 (BitVec.ofNat 32 cap)).abs = LRecv.init cap := by
    simp [BLRecv.abs, BLRecv.init, Sline.init, Sline.bytes, LRecv.init, hcapN]
  obtain ⟨r', f1, _, _, _⟩ := blfeedS_eq (BLRecv.init blk0 (BitVec.ofNat 32 cap)) hok
    (by simp only [BLRecv.init, Sline.init, hcapN]; omega) (gstuffingLeg p)
  rw [habs] at f1
  obtain ⟨ss, r1, g1, g2, _, _, _, g6⟩ := roundtrip_leg_partial p cap hcap
  have hl : ss.length = (gstuffingLeg p).length - 1 := by
    have := lfeed_length (LRecv.init cap) (gstuffingLeg p)
    rw [g1] at this
    simp only [List.length_append, List.length_cons, List.length_nil] at this
    omega
  have hss : (lfeed (LRecv.init cap) (gstuffingLeg p)).2 =
      List.replicate ((gstuffingLeg p).length - 1) CONTINUE ++ [NEWPACKAGE] := by
    rw [g1, ← hl, ← allCont_eq_replicate g2]
  rw [hss, g6] at f1
  simp only [Sess.run, Sess.step, e1, e2, hb, Option.getD_none, f1]

-- non-vacuity
example : 2 * ([0xAC#8, 0x41#8] : List Byte).length + 4 ≤ (Sess.start 16 8).out.length ∧ ([0xAC#8, 0x41#8] : List Byte).length + 2 ≤ 5 ∧
    5 ≤ (if (Sess.start 16 8).latt then (Sess.start 16 8).lrecv.line.buf else (Sess.start 16 8).lblk).length := by decide

/-- THE LINEAR-TIME FORMS THE DRIVER RUNS ON THE ≥ 300 KiB INPUTS ARE THE MODEL: `encodeLin` is
`gstuffingV` on one piece, `encodeLegLin` is `gstuffingLeg`; the receivers with the line kept reversed
and its length cached (`feedR`, `lfeedR`) compute, from any state, the number of CONTINUE answers, the
other answers in order and the packets (newest first) of `feed` / `feedTrace`, `lfeed` / `lfeedTrace` -/
theorem driver_linear_forms (ctx : Ctx) (p s : List Byte) (cap : Nat) :
    encodeLin ctx p = gstuffingV ctx [p] ∧ encodeLegLin p = gstuffingLeg p ∧
    (feedR ctx (RecvR.init cap) s 0 [] []).2.1 = ((feed ctx (Recv.init cap) s).2.filter (· = CONTINUE)).length ∧
    (feedR ctx (RecvR.init cap) s 0 [] []).2.2.1 = (feed ctx (Recv.init cap) s).2.filter (· ≠ CONTINUE) ∧
    (feedR ctx (RecvR.init cap) s 0 [] []).2.2.2 = (feedTrace ctx (Recv.init cap) s).2.reverse ∧
    (lfeedR (LRecvR.init cap) s 0 [] []).2.1 = ((lfeed (LRecv.init cap) s).2.filter (· = CONTINUE)).length ∧
    (lfeedR (LRecvR.init cap) s 0 [] []).2.2.1 = (lfeed (LRecv.init cap) s).2.filter (· ≠ CONTINUE) ∧
    (lfeedR (LRecvR.init cap) s 0 [] []).2.2.2 = (lfeedTrace (LRecv.init cap) s).2.reverse := by
  obtain ⟨_, a2, a3, a4⟩ := feedR_eq ctx (RecvR.init cap) rfl s 0 [] []
  obtain ⟨_, b2, b3, b4⟩ := lfeedR_eq (LRecvR.init cap) rfl s 0 [] []
  have ha : (RecvR.init cap).abs = Recv.init cap := rfl
  have hb : (LRecvR.init cap).abs = LRecv.init cap := rfl
  rw [ha] at a2 a3 a4
  rw [hb] at b2 b3 b4
  exact ⟨encodeLin_eq ctx p, encodeLegLin_eq p, by simpa using a2, by simpa using a3, by simpa using a4,
    by simpa using b2, by simpa using b3, by simpa using b4⟩

/-! ### round 3b: exactly which output buffers are large enough -/

/-- THE BUFFER CLAUSE, EXACTLY.  The store-level encoder `gstuffing_v(vec, n, out, ctx)` faults (a store outside
`out`) IF AND ONLY IF `out` is shorter than the frame; otherwise the first L bytes are the frame, the return
value is L and everything behind the frame keeps its value.  So what a self-sizing overload has to allocate is
"at least the frame length" - 2n+4 (`encoder_buffer_writes`) is one sufficient choice, the exact frame length
(benign change C04-b13-1: measure first, allocate exactly) another; one byte less than the frame is never
enough.  This is why the check does not compare the capacity of the returned vector. -/
theorem encoder_buffer_exact (ctx : Ctx) (pieces : List (List Byte)) (out : List Byte) :
    (gstuffingVW ctx pieces out = none ↔ out.length < (gstuffingV ctx pieces).length) ∧
    ((gstuffingV ctx pieces).length ≤ out.length →
      ∃ out', gstuffingVW ctx pieces out = some (out', (gstuffingV ctx pieces).length) ∧
        out'.take (gstuffingV ctx pieces).length = gstuffingV ctx pieces ∧ out'.length = out.length ∧
        out'.drop (gstuffingV ctx pieces).length = out.drop (gstuffingV ctx pieces).length) := by
  refine ⟨⟨fun hn => ?_, fun hlt => ?_⟩, gstuffingVW_reused ctx pieces out⟩
  · refine Nat.lt_of_not_le (fun hge => ?_)
    obtain ⟨o, e, _⟩ := gstuffingVW_reused ctx pieces out hge
    rw [e] at hn; exact absurd hn (by simp)
  · rw [gstuffingVW_eq]
    exact emitAll_fault out 0 _ (Nat.zero_le _) (by simpa using hlt)

/-- an overload that allocates EXACTLY the frame length (zero-filled, as `std::vector(n)` does) and lets the
pointer encoder write into it: no store outside, the vector is the frame -/
theorem encoder_exact_allocation (ctx : Ctx) (pieces : List (List Byte)) :
    gstuffingVW ctx pieces (List.replicate (gstuffingV ctx pieces).length 0) =
      some (gstuffingV ctx pieces, (gstuffingV ctx pieces).length) := by
  obtain ⟨o, e, e2, e3, _⟩ := gstuffingVW_reused ctx pieces (List.replicate (gstuffingV ctx pieces).length 0) (by simp)
  rw [e]
  have : o = gstuffingV ctx pieces := by
    rw [← e2, List.take_of_length_le (by rw [e3]; simp)]
  rw [this]

/-- the legacy encoder `gstuffing_v1` alike: faults iff the caller's buffer is shorter than the frame -/
theorem encoder_buffer_exact_leg (p : List Byte) (out : List Byte) :
    (gstuffingLegW p out = none ↔ out.length < (gstuffingLeg p).length) := by
  refine ⟨fun hn => ?_, fun hlt => ?_⟩
  · refine Nat.lt_of_not_le (fun hge => ?_)
    obtain ⟨o, e, _⟩ := gstuffingLegW_reused p out hge
    rw [e] at hn; exact absurd hn (by simp)
  · rw [gstuffingLegW_eq]
    exact emitAll_fault out 0 _ (Nat.zero_le _) (by simpa using hlt)

-- non-vacuity: the 3-byte frame of the empty payload in a 2-byte and in a 3-byte buffer
example : gstuffingVW Ctx.v1 [[]] [0, 0] = none ∧ gstuffingVW Ctx.v1 [[]] [0, 0, 0] ≠ none := by decide

end Igris.Gstuff
