import IgrisModel.C04.Buf
namespace Igris.Gstuff
open Igris.Proto

def stsChar (s : Int) : Char :=
  if s = CONTINUE then 'C' else if s = NEWPACKAGE then 'N' else if s = FORCE_RESTART then 'R'
  else if s = GARBAGE then 'G' else if s = CRC_ERROR then 'c' else if s = OVERFLOW then 'O'
  else if s = STUFFING_ERROR then 'S' else '?'

/-- feed a stream, returning the status string and the line delivered at every NEWPACKAGE -/
def feedTrace (ctx : Ctx) : Recv → List Byte → List Char × List (List Byte)
  | _, [] => ([], [])
  | r, c :: cs =>
    let (r1, s) := newchar ctx r c
    let (ss, ps) := feedTrace ctx r1 cs
    (stsChar s :: ss, if s = NEWPACKAGE then r1.line :: ps else ps)

def lfeedTrace : LRecv → List Byte → List Char × List (List Byte)
  | _, [] => ([], [])
  | r, c :: cs =>
    let (r1, s) := lnewchar r c
    let (ss, ps) := lfeedTrace r1 cs
    -- legacy convention: the line still holds the CRC byte; the packet is the line without it
    (stsChar s :: ss, if s = NEWPACKAGE then r1.line.dropLast :: ps else ps)

/-- the same traces computed on the BUFFER-LEVEL model (C04/Buf.lean): this is what the
driver runs; `none` = the model touched memory outside the receive buffer.  At every
NEWPACKAGE the user reads the packet through `cstr()` / `size()` (which writes the
terminator `buf[len] = 0`). -/
def bfeedTrace (ctx : Ctx) : BRecv → List Byte → Option (List Char × List (List Byte))
  | _, [] => some ([], [])
  | r, c :: cs =>
    match bnewchar ctx r c with
    | none => none
    | some (r1, s) =>
      match (if s = NEWPACKAGE then r1.cstr.map (fun x => (x.1, [x.2])) else some (r1, [])) with
      | none => none
      | some (r2, pk) =>
        match bfeedTrace ctx r2 cs with
        | none => none
        | some (ss, ps) => some (stsChar s :: ss, pk ++ ps)

/-- legacy: `sline_getline` / `sline_size`; the packet is the line without its last byte (the CRC) -/
def blfeedTrace : BLRecv → List Byte → Option (List Char × List (List Byte))
  | _, [] => some ([], [])
  | r, c :: cs =>
    match blnewchar r c with
    | none => none
    | some (r1, s) =>
      match (if s = NEWPACKAGE then r1.getline.map (fun x => (x.1, [x.2.dropLast])) else some (r1, [])) with
      | none => none
      | some (r2, pk) =>
        match blfeedTrace r2 cs with
        | none => none
        | some (ss, ps) => some (stsChar s :: ss, pk ++ ps)

/-- legacy trace with the lines exactly as the API hands them over (CRC byte included) -/
def lfeedTraceRaw : LRecv → List Byte → List Char × List (List Byte)
  | _, [] => ([], [])
  | r, c :: cs =>
    let (r1, s) := lnewchar r c
    let (ss, ps) := lfeedTraceRaw r1 cs
    (stsChar s :: ss, if s = NEWPACKAGE then r1.getline :: ps else ps)

def showTrace (t : List Char × List (List Byte)) : String :=
  (if t.1.isEmpty then "-" else String.ofList t.1) ++ " " ++
  (if t.2.isEmpty then "none" else ",".intercalate (t.2.map bytesHex))

def ctxOf? : String → Option Ctx
  | "v1" => some Ctx.v1
  | "v0" => some Ctx.v0
  | _ => none

def encodeBy (codec : String) (pieces : List (List Byte)) : Option (List Byte) :=
  match codec with
  | "leg" => some (gstuffingLeg pieces.flatten)
  | c => (ctxOf? c).map fun ctx => gstuffingV ctx pieces

def showTrace? : Option (List Char × List (List Byte)) → String
  | some t => showTrace t
  | none => "fault"

/-- receive buffer of exactly `cap` bytes, `init(buf, cap)` / `setbuf_v1(buf, cap)` -/
def feedBy (codec : String) (cap : Nat) (stream : List Byte) : Option String :=
  let buf : List Byte := List.replicate cap 0xA5
  match codec with
  | "leg" => some (showTrace? (blfeedTrace (BLRecv.init buf (BitVec.ofNat 32 cap)) stream))
  | c => (ctxOf? c).map fun ctx => showTrace? (bfeedTrace ctx (BRecv.init buf (BitVec.ofNat 32 cap)) stream)

def ctxHex (c : Ctx) : String := bytesHex [c.start, c.stop, c.stub, c.stubStart, c.stubStop, c.stubStub]

def stepLine (_ : Unit) (line : String) : Unit × String :=
  let r : Option String :=
    match words line with
    | ["reset"] => some "ok"
    | ["ctx"] => some (ctxHex Ctx.v1 ++ " " ++ ctxHex Ctx.v0 ++ " " ++ bytesHex [legStart, legStub, legStubStart, legStubStub])
    | "enc" :: codec :: pieces => do
        let ps ← pieces.mapM parseBytes?
        let out ← encodeBy codec ps
        pure (bytesHex out)
    | "encvec" :: codec :: pieces => do
        let ps ← pieces.mapM parseBytes?
        let ctx ← ctxOf? codec
        match gstuffingVecW ctx ps with
        | some out => pure (bytesHex out)
        | none => pure "fault"
    | "vecbuf" :: codec :: pieces => do
        -- Round 3b (correction): the property does not fix the SIZE of the buffer the self-sizing overload
        -- allocates (`ret.resize(sz * 2 + 4)` today; an exact-length allocation is just as good), only that
        -- no store leaves it and that the frame has at most 2n+4 bytes.  The compared observable is the length
        -- of the frame the write-level model produces in its `vecBufSize n` buffer (`fault` = a store outside);
        -- the capacity of the real vector is judged by the harness oracle and reported as a tag.
        let ps ← pieces.mapM parseBytes?
        let ctx ← ctxOf? codec
        match gstuffingVecW ctx ps with
        | some out => pure (toString out.length)
        | none => pure "fault"
    | ["rtraw", "leg", cap, p] => do
        let p ← parseBytes? p
        let cap ← cap.toNat?
        pure (showTrace (lfeedTraceRaw (LRecv.init cap) (gstuffingLeg p)))
    | ["rt", codec, cap, p] => do
        let p ← parseBytes? p
        let cap ← cap.toNat?
        let out ← encodeBy codec [p]
        feedBy codec cap out
    | ["feednb", codec, s] => do
        -- `gstuff_autorecv(ctx)` without `setbuf`: sline {buf = NULL, cap = 0}
        let s ← parseBytes? s
        let ctx ← ctxOf? codec
        pure (showTrace? (bfeedTrace ctx BRecv.noBuf s))
    | [op, codec, cap, s] => do
        if op ≠ "feed" ∧ op ≠ "feedstrict" then none else
        let s ← parseBytes? s
        let cap ← cap.toNat?
        feedBy codec cap s
    | "resync" :: codec :: cap :: g :: ps => do
        let g ← parseBytes? g
        let cap ← cap.toNat?
        let ps ← ps.mapM parseBytes?
        let frames ← ps.mapM fun p => encodeBy codec [p]
        feedBy codec cap (g ++ frames.flatten)
    | _ => none
  ((), r.getD "bad-op")

end Igris.Gstuff
