/-
  C04 / C05 driver, round 3: the ops `seq` (a session on long-lived objects), `sizes`
  (type widths embedded in the model) and `long` (≥ 300 KiB payloads through the
  linear-time forms); every other line goes to `stepLine` of Drv.lean unchanged.
-/
import IgrisModel.C04.Drv
import IgrisModel.C04.Sess
namespace Igris.Gstuff
open Igris.Proto Igris.C17

def parseCtx? (s : String) : Option Ctx := do
  let b ← parseBytes? s
  match b with
  | [a, b, c, d, e, f] => some ⟨a, b, c, d, e, f⟩
  | _ => none

def parsePieces? (s : String) : Option (List (List Byte)) :=
  (s.splitOn "/").mapM parseBytes?

def parseOptBytes? (s : String) : Option (Option (List Byte)) :=
  if s.isEmpty then some none else (parseBytes? s).map some

def parseSOp? (t : String) : Option SOp :=
  if t = "N" then some .rnew
  else if t = "R" then some .rreset
  else if t = "lr" then some .lreset
  else if t.startsWith "ls" then (t.drop 2).toString.toNat?.map .lsetbuf
  else if t.startsWith "lf" then (parseOptBytes? (t.drop 2).toString).map .lfeed
  else if t.startsWith "A" then (parseCtx? (t.drop 1).toString).map .setCtx
  else if t.startsWith "E" then (parsePieces? (t.drop 1).toString).map .enc
  else if t.startsWith "V" then (parsePieces? (t.drop 1).toString).map .encVec
  else if t.startsWith "G" then (parseBytes? (t.drop 1).toString).map .encLeg
  else if t.startsWith "I" ∨ t.startsWith "S" then (t.drop 1).toString.toNat?.map .rinit
  else if t.startsWith "F" then (parseOptBytes? (t.drop 1).toString).map .feed
  else none

def showSOut : SOut → String
  | .unit => "."
  | .frame ret f => "e" ++ toString ret ++ ":" ++ bytesHex f
  | .vec f => "v" ++ bytesHex f
  | .trace ss ps => "t" ++ showTrace (ss.map stsChar, ps)
  | .fault => "fault"

/-- deterministic payloads of the `long` op (the harness generates the same bytes) -/
def lcgBytes : Nat → Nat → List Byte → List Byte
  | 0, _, acc => acc.reverse
  | n + 1, x, acc =>
    let x' := (x * 1103515245 + 12345) % 2147483648
    lcgBytes n x' (BitVec.ofNat 8 (x' / 65536 % 256) :: acc)

def longPayload (kind : String) (start stop stub : Byte) (n seed : Nat) : Option (List Byte) :=
  match kind with
  | "mark" => some ((List.range n).map fun i => if i % 3 = 0 then start else if i % 3 = 1 then stop else stub)
  | "esc" => some (List.replicate n stub)
  | "mix" => some (lcgBytes n seed [])
  | _ => none

def fnv (bs : List Byte) : Nat :=
  bs.foldl (fun h b => ((h ^^^ b.toNat) * 16777619) % 4294967296) 2166136261

def showLong (f : List Byte) (nc : Nat) (os : List Int) (ps : List (List Byte)) : String :=
  toString f.length ++ " " ++ toString (retInt f.length) ++ " " ++ toString (fnv f) ++ " C" ++ toString nc ++ " " ++
  (if os.isEmpty then "-" else String.ofList (os.map stsChar)) ++ " " ++ toString ps.length ++ " " ++
  " ".intercalate (ps.reverse.map fun p => toString p.length ++ ":" ++ toString (fnv p))

def noiseBytes (tab : List Byte) : Nat → Nat → List Byte → List Byte
  | 0, _, acc => acc.reverse
  | n + 1, x, acc =>
    let x' := (x * 1103515245 + 12345) % 2147483648
    let v := x' / 65536
    noiseBytes tab n x' ((if v % 4 < 3 then tab.getD (v / 4 % 8) 0 else BitVec.ofNat 8 (v / 4 % 256)) :: acc)

def showNoise (nc : Nat) (os : List Int) (ps : List (List Byte)) : String :=
  "C" ++ toString nc ++ " " ++ toString (fnv ((os.map stsChar).map fun c => BitVec.ofNat 8 c.toNat)) ++ " " ++
  toString ps.length ++ " " ++ toString (fnv (ps.reverse.flatMap fun p => BitVec.ofNat 8 p.length :: p))

/-- the session the harness runs from a static constructor BEFORE `main()` (op `premain`) -/
def premainLine : String :=
  "seq 40 16 Ea8b2c541acad/00 N I9 F Aacacadaeaeaf Eacadaea8b2c5 N S9 F V41ac A10207f7f3040 E107f20/41 N I8 F G00acad41 ls7 lf"

def runSeq (outcap blkcap : String) (toks : List String) : String :=
  let r : Option String := do
    let oc ← outcap.toNat?
    let bc ← blkcap.toNat?
    let ops ← toks.mapM parseSOp?
    let x := Sess.run (Sess.start oc bc) ops
    pure (";".intercalate (x.2.map showSOut))
  r.getD "bad-op"

def stepLine2 (u : Unit) (line : String) : Unit × String :=
  match words line with
  | ["premain"] =>
    match words premainLine with
    | _ :: outcap :: blkcap :: toks => ((), runSeq outcap blkcap toks)
    | _ => ((), "bad-op")
  | ["sizes"] =>
    -- round 3b: compared are the widths that the public signatures fix (return type of `gstuffing_v`, `size_t`,
    -- `iov_len`, return type and `size` parameter of `gstuffing_v1` = entries 0, 1, 2, 7, 8 of `widths`); the
    -- widths of the sline counters, `sizeof(gstuff_context)` and the legacy crc/state members are not fixed by
    -- the property (the harness reports them as a tag)
    ((), " ".intercalate (([0, 1, 2, 7, 8].map fun i => widths.getD i 0).map toString))
  | "seq" :: outcap :: blkcap :: toks => ((), runSeq outcap blkcap toks)
  | ["long", codec, kind, n, seed] =>
    let r : Option String := do
      let n ← n.toNat?
      let seed ← seed.toNat?
      if codec = "leg" then
        let p ← longPayload kind legStart legStart legStub n seed
        let f := encodeLegLin p
        let x := lfeedR (LRecvR.init (n + 2)) f 0 [] []
        pure (showLong f x.2.1 x.2.2.1 x.2.2.2)
      else
        let ctx ← ctxOf? codec
        let p ← longPayload kind ctx.start ctx.stop ctx.stub n seed
        let f := encodeLin ctx p
        let x := feedR ctx (RecvR.init (n + 2)) f 0 [] []
        pure (showLong f x.2.1 x.2.2.1 x.2.2.2)
    ((), r.getD "bad-op")
  | ["longnoise", codec, cap, n, seed] =>
    let r : Option String := do
      let cap ← cap.toNat?
      let n ← n.toNat?
      let seed ← seed.toNat?
      if codec = "leg" then
        let s := noiseBytes [legStart, legStart, legStub, legStubStart, legStubStart, legStubStub, 0x00, 0x41] n seed []
        let x := lfeedR (LRecvR.init cap) s 0 [] []
        pure (showNoise x.2.1 x.2.2.1 x.2.2.2)
      else
        let ctx ← ctxOf? codec
        let s := noiseBytes [ctx.start, ctx.stop, ctx.stub, ctx.stubStart, ctx.stubStop, ctx.stubStub, 0x00, 0x41] n seed []
        let x := feedR ctx (RecvR.init cap) s 0 [] []
        pure (showNoise x.2.1 x.2.2.1 x.2.2.2)
    ((), r.getD "bad-op")
  | _ => stepLine u line

end Igris.Gstuff
