/-
  C17 extension round 3 — lemmas for the index-level models with C-width
  counters and an access log (`whileDecG`, `forUpG`, `memcpyG`, `crc32G`).
-/
import IgrisModel.C17.Lemmas
import IgrisModel.C17.LenLemmas
namespace Igris.C17
open Igris.Proto

/-- the log after reads of the offsets `a, a+1, …, a+n-1` in this order -/
def logRange {τ : Type} (emit : Nat → τ → τ) (a n : Nat) (t : τ) : τ :=
  (List.range' a n).foldl (fun t i => emit i t) t

theorem logRange_zero {τ : Type} (emit : Nat → τ → τ) (a : Nat) (t : τ) : logRange emit a 0 t = t := rfl

theorem logRange_succ {τ : Type} (emit : Nat → τ → τ) (a n : Nat) (t : τ) :
    logRange emit a (n + 1) t = logRange emit (a + 1) n (emit a t) := by
  simp [logRange, List.range'_succ]

theorem logRange_add {τ : Type} (emit : Nat → τ → τ) (a n m : Nat) (t : τ) :
    logRange emit a (n + m) t = logRange emit (a + n) m (logRange emit a n t) := by
  induction n generalizing a t with
  | zero => simp [logRange_zero]
  | succ n ih =>
    have : n + 1 + m = (n + m) + 1 := by omega
    rw [this, logRange_succ, logRange_succ, ih]
    congr 1; omega

/-- with the event log: the events are exactly `rd a, …, rd (a+n-1)`, appended in order -/
theorem logRange_logEv (a n : Nat) (t : List Ev) :
    logRange logEv a n t = t ++ (List.range' a n).map Ev.rd := by
  induction n generalizing a t with
  | zero => simp [logRange_zero]
  | succ n ih => rw [logRange_succ, ih, List.range'_succ]; simp [logEv]

theorem listRd_lt (mem : List Byte) (i : Nat) (h : i < mem.length) : listRd mem i = some mem[i] := by
  simp [listRd, h]
theorem listRd_ge (mem : List Byte) (i : Nat) (h : mem.length ≤ i) : listRd mem i = none := by
  simp [listRd, h]

theorem arrRd_eq (a : Array Byte) : arrRd a = listRd a.toList := by
  funext i; simp [arrRd, listRd]

theorem whileDecG_spec {w : Nat} {α τ : Type} (step : α → Byte → α) (emit : Nat → τ → τ) (mem : List Byte)
    (hsub : ∀ l : BitVec w, l ≠ 0 → (l - 1).toNat = l.toNat - 1) :
    ∀ (fuel : Nat) (len : BitVec w) (addr : Nat) (crc : α) (t : τ), len.toNat < fuel → addr ≤ mem.length →
      whileDecG step (listRd mem) emit fuel len addr crc t =
        if addr + len.toNat ≤ mem.length then
          some (((mem.drop addr).take len.toNat).foldl step crc, logRange emit addr len.toNat t)
        else none
  | 0, _, _, _, _, h, _ => by omega
  | f + 1, len, addr, crc, t, h, hle => by
    by_cases h0 : len = 0
    · subst h0; simp [whileDecG, logRange_zero, hle]
    · simp only [whileDecG, if_neg h0]
      have hpos : len.toNat ≠ 0 := fun hz => h0 (BitVec.eq_of_toNat_eq (by simpa using hz))
      have hs := hsub len h0
      by_cases ha : addr < mem.length
      · rw [listRd_lt mem addr ha]
        simp only
        rw [whileDecG_spec step emit mem hsub f (len - 1) (addr + 1) (step crc mem[addr]) (emit addr t) (by omega) (by omega), hs]
        obtain ⟨k, hk⟩ : ∃ k, len.toNat = k + 1 := ⟨len.toNat - 1, by omega⟩
        rw [hk, logRange_succ, List.drop_eq_getElem_cons ha]
        simp only [Nat.add_sub_cancel, List.take_succ_cons, List.foldl_cons]
        have : (addr + 1 + k ≤ mem.length) = (addr + (k + 1) ≤ mem.length) := by
          apply propext; omega
        simp only [this]
      · rw [listRd_ge mem addr (by omega)]
        simp only
        rw [if_neg (by omega)]

theorem forUpG_spec {α τ : Type} (step : α → Byte → α) (emit : Nat → τ → τ) (mem : List Byte) (length : BitVec 8) :
    ∀ (fuel : Nat) (i : BitVec 32) (crc : α) (t : τ), i.toNat ≤ length.toNat → length.toNat - i.toNat < fuel →
      i.toNat ≤ mem.length →
      forUpG step (listRd mem) emit length fuel i crc t =
        if length.toNat ≤ mem.length then
          some (((mem.drop i.toNat).take (length.toNat - i.toNat)).foldl step crc,
                logRange emit i.toNat (length.toNat - i.toNat) t)
        else none
  | 0, _, _, _, _, h, _ => by omega
  | f + 1, i, crc, t, hi, h, him => by
    have hl : length.toNat < 256 := length.isLt
    have hz : (length.zeroExtend 32).toNat = length.toNat := by
      simp [BitVec.toNat_setWidth]; omega
    by_cases hlt : i.toNat < length.toNat
    · have hc : i < length.zeroExtend 32 := by rw [BitVec.lt_def, hz]; exact hlt
      simp only [forUpG, if_pos hc]
      have hi1 : (i + 1).toNat = i.toNat + 1 := by rw [BitVec.toNat_add]; simp; omega
      by_cases ha : i.toNat < mem.length
      · rw [listRd_lt mem _ ha]
        simp only
        rw [forUpG_spec step emit mem length f (i + 1) _ _ (by omega) (by omega) (by omega), hi1]
        obtain ⟨k, hk⟩ : ∃ k, length.toNat - i.toNat = k + 1 := ⟨length.toNat - i.toNat - 1, by omega⟩
        have hk' : length.toNat - (i.toNat + 1) = k := by omega
        rw [hk, hk', logRange_succ, List.drop_eq_getElem_cons ha]
        simp only [List.take_succ_cons, List.foldl_cons]
      · rw [listRd_ge mem _ (by omega)]
        simp only
        rw [if_neg (by omega)]
    · have hc : ¬ i < length.zeroExtend 32 := by rw [BitVec.lt_def, hz]; exact hlt
      have he : length.toNat - i.toNat = 0 := by omega
      simp only [forUpG, if_neg hc, he, List.take_zero, List.foldl_nil, logRange_zero]
      -- the loop has ended: every byte below `length` has been read, so they were mapped
      rw [if_pos (by omega)]


theorem memcpyG_spec {τ : Type} (emit : Nat → τ → τ) (mem : List Byte) :
    ∀ (n off : Nat) (t : τ), off ≤ mem.length →
      memcpyG (listRd mem) emit off n t =
        if off + n ≤ mem.length then some ((mem.drop off).take n, logRange emit off n t) else none
  | 0, off, t, h => by simp [memcpyG, logRange_zero, h]
  | n + 1, off, t, h => by
    by_cases ha : off < mem.length
    · simp only [memcpyG, listRd_lt mem off ha]
      rw [memcpyG_spec emit mem n (off + 1) (emit off t) (by omega)]
      by_cases hb : off + 1 + n ≤ mem.length
      · rw [if_pos hb, if_pos (by omega), logRange_succ, List.drop_eq_getElem_cons ha]
        simp only [List.take_succ_cons]
      · rw [if_neg hb, if_neg (by omega)]
    · simp only [memcpyG, listRd_ge mem off (by omega)]
      rw [if_neg (by omega)]

theorem crc32Words_word (l rest : List Byte) (crc : BitVec 32) (h : l.length = 4) :
    crc32Words (l ++ rest) crc = crc32Words rest (wordStep crc (padWord l)) := by
  match l, h with
  | [b0, b1, b2, b3], _ => simp [crc32Words_four]

/-- chaining at a split point that is a multiple of four (the lemma behind `crc32_chain_partial`) -/
theorem crc32Words_append_aligned (seed : BitVec 32) (a b : List Byte) (h : a.length % 4 = 0) :
    crc32Words (a ++ b) seed = crc32Words b (crc32Words a seed) := by
  induction hn : a.length using Nat.strongRecOn generalizing a seed with
  | _ n ih =>
    match a, h with
    | [], _ => simp [crc32Words]
    | [_], h => simp at h
    | [_, _], h => simp at h
    | [_, _, _], h => simp at h
    | b0 :: b1 :: b2 :: b3 :: rest, h =>
      simp only [List.cons_append, crc32Words_four]
      subst hn
      exact ih rest.length (by simp only [List.length_cons]; omega) _ rest (by simp at h; omega) rfl

theorem mul4_toNat (i : BitVec 32) (h : i.toNat < 2 ^ 30) : (4#32 * i).toNat = 4 * i.toNat := by
  rw [BitVec.toNat_mul]; simp; omega

theorem crc32LoopG_spec {τ : Type} (emit : Nat → τ → τ) (mem : List Byte) (body : BitVec 32)
    (hb : body.toNat < 2 ^ 30) :
    ∀ (fuel : Nat) (i : BitVec 32) (crc : BitVec 32) (t : τ), i.toNat ≤ body.toNat →
      body.toNat - i.toNat < fuel → 4 * i.toNat ≤ mem.length →
      crc32LoopG (listRd mem) emit body fuel i crc t =
        if 4 * body.toNat ≤ mem.length then
          some (crc32Words ((mem.drop (4 * i.toNat)).take (4 * (body.toNat - i.toNat))) crc,
                logRange emit (4 * i.toNat) (4 * (body.toNat - i.toNat)) t)
        else none
  | 0, _, _, _, _, h, _ => by omega
  | f + 1, i, crc, t, hi, h, him => by
    by_cases hlt : i.toNat < body.toNat
    · have hc : i < body := by rw [BitVec.lt_def]; exact hlt
      have hi1 : (i + 1).toNat = i.toNat + 1 := by rw [BitVec.toNat_add]; simp; omega
      simp only [crc32LoopG, if_pos hc, mul4_toNat i (by omega)]
      rw [memcpyG_spec emit mem 4 (4 * i.toNat) t him]
      by_cases hw : 4 * i.toNat + 4 ≤ mem.length
      · rw [if_pos hw]
        simp only
        rw [crc32LoopG_spec emit mem body hb f (i + 1) _ _ (by omega) (by omega) (by omega), hi1]
        by_cases hall : 4 * body.toNat ≤ mem.length
        · rw [if_pos hall, if_pos hall]
          obtain ⟨k, hk⟩ : ∃ k, body.toNat - i.toNat = k + 1 := ⟨body.toNat - i.toNat - 1, by omega⟩
          have hk' : body.toNat - (i.toNat + 1) = k := by omega
          have e1 : 4 * (k + 1) = 4 + 4 * k := by omega
          have e2 : 4 * (i.toNat + 1) = 4 * i.toNat + 4 := by omega
          rw [hk, hk', e1, logRange_add, List.take_add, List.drop_drop, e2,
            crc32Words_word _ _ _ (by simp; omega)]
        · rw [if_neg hall, if_neg hall]
      · rw [if_neg hw]
        simp only
        rw [if_neg (by omega)]
    · have hc : ¬ i < body := by rw [BitVec.lt_def]; exact hlt
      have he : body.toNat - i.toNat = 0 := by omega
      have hib : i.toNat = body.toNat := by omega
      simp only [crc32LoopG, if_neg hc, he, Nat.mul_zero, List.take_zero, logRange_zero, crc32Words]
      rw [if_pos (by omega)]

theorem crc32G_spec {τ : Type} (emit : Nat → τ → τ) (mem : List Byte) (length seed : BitVec 32) (t : τ) :
    crc32G (listRd mem) emit length seed t =
      if length.toNat ≤ mem.length then
        some (crc32Words (mem.take length.toNat) seed, logRange emit 0 length.toNat t)
      else none := by
  have hl : length.toNat < 2 ^ 32 := length.isLt
  have hbody : (length / 4).toNat = length.toNat / 4 := by rw [BitVec.toNat_udiv]; rfl
  have htail : (length % 4).toNat = length.toNat % 4 := by rw [BitVec.toNat_umod]; rfl
  have hb30 : (length / 4).toNat < 2 ^ 30 := by rw [hbody]; omega
  have ht0 : (length % 4 ≠ 0) ↔ length.toNat % 4 ≠ 0 := by
    rw [← htail]
    constructor
    · intro h hz; exact h (BitVec.eq_of_toNat_eq (by simpa using hz))
    · intro h hz; rw [hz] at h; simp at h
  unfold crc32G
  simp only
  rw [crc32LoopG_spec emit mem (length / 4) hb30 (2 ^ 30) 0 seed t (by simp) (by simp; omega) (by simp)]
  have z : BitVec.toNat (0 : BitVec 32) = 0 := rfl
  simp only [z, Nat.mul_zero, Nat.sub_zero, List.drop_zero, hbody]
  by_cases hw : 4 * (length.toNat / 4) ≤ mem.length
  · rw [if_pos hw]
    simp only
    by_cases htz : length.toNat % 4 = 0
    · have : ¬ (length % 4 ≠ 0) := by rw [ht0]; simpa using htz
      rw [if_neg this]
      have e : 4 * (length.toNat / 4) = length.toNat := by omega
      rw [e, if_pos (by omega)]
    · have : length % 4 ≠ 0 := ht0.mpr htz
      rw [if_pos this, mul4_toNat _ hb30, hbody, htail, memcpyG_spec emit mem _ _ _ hw]
      have e : 4 * (length.toNat / 4) + length.toNat % 4 = length.toNat := by omega
      rw [e]
      by_cases hle : length.toNat ≤ mem.length
      · rw [if_pos hle, if_pos hle]
        simp only
        have hsplit : mem.take length.toNat =
            mem.take (4 * (length.toNat / 4)) ++ (mem.drop (4 * (length.toNat / 4))).take (length.toNat % 4) := by
          conv => lhs; rw [← e]
          rw [List.take_add]
        have hlog : logRange emit 0 length.toNat t =
            logRange emit (4 * (length.toNat / 4)) (length.toNat % 4) (logRange emit 0 (4 * (length.toNat / 4)) t) := by
          conv => lhs; rw [← e]
          rw [logRange_add]; simp
        rw [hsplit, hlog, crc32Words_append_aligned _ _ _ (by rw [List.length_take]; omega),
          crc32Words_tail ((mem.drop (4 * (length.toNat / 4))).take (length.toNat % 4)) _
            (by rw [List.length_take, List.length_drop]; omega)
            (by rw [List.length_take, List.length_drop]; omega)]
      · rw [if_neg hle, if_neg hle]
  · rw [if_neg hw, if_neg (by omega)]


/-! ## the driver's byte tables = the model's byte steps -/

theorem mkTab8_get (f : BitVec 8 → BitVec 8) (x : BitVec 8) : (mkTab8 f).getD x.toNat 0 = f x := by
  have h : x.toNat < 256 := x.isLt
  simp [mkTab8, Array.getD, h]

theorem strmTab_step : tabStep8 strmTab = strmStep := by
  funext crc b; rw [tabStep8, strmTab, mkTab8_get]; simp [strmStep]

theorem mmcTab_step : tabStep8 mmcTab = mmcStep := by
  funext crc b; rw [tabStep8, mmcTab, mkTab8_get]; simp [mmcStep]

theorem dowTab_step : tabStep8 dowTab = dowStep := by
  funext crc b
  rw [tabStep8, dowTab, mkTab8_get, dowStep_xor 0, dowStep_xor crc b]; simp

theorem tblTab_step : tabStep8 tblTab = tblStep := by
  funext crc b
  rw [tabStep8, tblTab, mkTab8_get, tblStep_xor 0, tblStep_xor crc b]; simp

theorem c16Tab_get (x : BitVec 8) : c16Tab.getD x.toNat 0 = crc16Step 0 x := by
  have h : x.toNat < 256 := x.isLt
  simp [c16Tab, Array.getD, h]

theorem c16Tab_step : tabStep16 = crc16Step := by
  funext crc b
  rw [tabStep16, c16Tab_get]
  simp [crc16Step, BitVec.xor_assoc]


/-! ## zero messages (for the exact set of split points) -/

theorem zeros_words (m : Nat) : crc32Words (List.replicate (4 * m) 0#8) 0#32 = 0#32 := by
  induction m with
  | zero => rfl
  | succ m ih =>
    have : 4 * (m + 1) = 4 * m + 4 := by omega
    rw [this, ← List.replicate_append_replicate, crc32Words_append_aligned _ _ _ (by simp), ih]
    decide +kernel

theorem zeros_append (n : Nat) (b : List Byte) :
    crc32Words (List.replicate n 0#8 ++ b) 0#32 = crc32Words (List.replicate (n % 4) 0#8 ++ b) 0#32 := by
  have : n = 4 * (n / 4) + n % 4 := by omega
  conv => lhs; rw [this, ← List.replicate_append_replicate, List.append_assoc]
  rw [crc32Words_append_aligned _ _ _ (by simp), zeros_words]

theorem zeros_crc (n : Nat) :
    crc32Words (List.replicate n 0#8) 0#32 = crc32Words (List.replicate (n % 4) 0#8) 0#32 := by
  have := zeros_append n []
  simpa using this


/-! ## the `Nat`-length model `crc32` faults when a byte of `[0, length)` is missing -/

theorem loadBytes_short (mem : List Byte) : ∀ (n off : Nat), 0 < n → mem.length < off + n → loadBytes mem off n = none
  | 0, _, h, _ => by omega
  | n + 1, off, _, h => by
    by_cases ha : off < mem.length
    · have hn : 0 < n := by omega
      simp only [loadBytes, List.getElem?_eq_getElem ha, loadBytes_short mem n (off + 1) hn (by omega)]
      rfl
    · simp [loadBytes, List.getElem?_eq_none (Nat.le_of_not_lt ha)]

theorem crc32BodyF_short (mem : List Byte) : ∀ (cnt i : Nat) (crc : BitVec 32), 4 * i ≤ mem.length →
    mem.length < 4 * (i + cnt) → crc32BodyF mem cnt i crc = none
  | 0, i, _, h1, h2 => by omega
  | cnt + 1, i, crc, h1, h2 => by
    by_cases hw : 4 * i + 4 ≤ mem.length
    · simp only [crc32BodyF, loadBytes_ok mem (4 * i) 4 hw, Option.bind_eq_bind, Option.bind_some]
      exact crc32BodyF_short mem cnt (i + 1) _ (by omega) (by omega)
    · simp only [crc32BodyF, loadBytes_short mem 4 (4 * i) (by omega) (by omega)]
      rfl

theorem crc32_short (mem : List Byte) (length : Nat) (seed : BitVec 32) (h : mem.length < length) :
    crc32 mem length seed = none := by
  unfold crc32
  by_cases hb : 4 * (length / 4) ≤ mem.length
  · obtain ⟨c, hc, _⟩ := crc32BodyF_ok mem (length / 4) 0 seed (by omega)
    have ht : length % 4 ≠ 0 := by omega
    simp only [hc, Option.bind_eq_bind, Option.bind_some, ht, if_false,
      loadBytes_short mem (length % 4) (4 * (length / 4)) (by omega) (by omega)]
    rfl
  · simp only [crc32BodyF_short mem (length / 4) 0 seed (by omega) (by omega)]
    rfl

end Igris.C17
