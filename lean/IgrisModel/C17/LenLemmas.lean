/-
  C17 extension — the byte-loop routines on a buffer with an explicit length
  of the C width; the byte-swap relation between igris_crc32 and CRC-32/MPEG-2.
-/
import IgrisModel.C17.Lemmas
import IgrisModel.C17.RefLemmas
namespace Igris.C17
open Igris.Proto

theorem sub1_8 (l : BitVec 8) (h : l ≠ 0) : (l - 1).toNat = l.toNat - 1 := by
  have : l.toNat ≠ 0 := fun h0 => h (BitVec.eq_of_toNat_eq (by simpa using h0))
  rw [BitVec.toNat_sub]; simp; omega

theorem sub1_16 (l : BitVec 16) (h : l ≠ 0) : (l - 1).toNat = l.toNat - 1 := by
  have : l.toNat ≠ 0 := fun h0 => h (BitVec.eq_of_toNat_eq (by simpa using h0))
  rw [BitVec.toNat_sub]; simp; omega

/-- `while (len--)` over a buffer: completes iff `len` bytes are mapped, and
then it is the fold over exactly the first `len` bytes -/
theorem whileDec_spec {w : Nat} {α : Type} (step : α → Byte → α)
    (hsub : ∀ l : BitVec w, l ≠ 0 → (l - 1).toNat = l.toNat - 1) :
    ∀ (fuel : Nat) (len : BitVec w) (rest : List Byte) (crc : α), len.toNat < fuel →
      whileDec step fuel len rest crc =
        if len.toNat ≤ rest.length then some ((rest.take len.toNat).foldl step crc) else none
  | 0, _, _, _, h => by omega
  | f + 1, len, rest, crc, h => by
    by_cases h0 : len = 0
    · subst h0; simp [whileDec]
    · simp only [whileDec, if_neg h0]
      have hpos : len.toNat ≠ 0 := fun hz => h0 (BitVec.eq_of_toNat_eq (by simpa using hz))
      have hs := hsub len h0
      cases rest with
      | nil => simp; omega
      | cons b r =>
        simp only
        rw [whileDec_spec step hsub f (len - 1) r (step crc b) (by omega), hs]
        obtain ⟨k, hk⟩ : ∃ k, len.toNat = k + 1 := ⟨len.toNat - 1, by omega⟩
        rw [hk]
        simp only [Nat.add_sub_cancel, List.length_cons, Nat.add_le_add_iff_right, List.take_succ_cons,
          List.foldl_cons]

theorem forUp_spec {α : Type} (step : α → Byte → α) :
    ∀ (n : Nat) (rest : List Byte) (crc : α),
      forUp step n rest crc = if n ≤ rest.length then some ((rest.take n).foldl step crc) else none
  | 0, rest, crc => by simp [forUp]
  | n + 1, [], crc => by simp [forUp]
  | n + 1, b :: r, crc => by
    rw [forUp, forUp_spec step n r (step crc b)]
    simp only [List.length_cons, Nat.add_le_add_iff_right, List.take_succ_cons, List.foldl_cons]

/-- the seeded variant `do { … } while (--len);` of the same loop (not the
code: used for a witness only) -/
def doWhileDec {w : Nat} {α : Type} (step : α → Byte → α) :
    (fuel : Nat) → (len : BitVec w) → (rest : List Byte) → α → Option α
  | 0, _, _, _ => none
  | _ + 1, _, [], _ => none
  | f + 1, len, b :: rest, crc =>
    if len - 1 = 0 then some (step crc b) else doWhileDec step f (len - 1) rest (step crc b)

/-! ## byte-swapped words -/

/-- `bswap32` of every complete 4-byte group (an incomplete last group is left alone) -/
def wordSwap : List Byte → List Byte
  | b0 :: b1 :: b2 :: b3 :: rest => b3 :: b2 :: b1 :: b0 :: wordSwap rest
  | tl => tl

theorem wordSwap_length : ∀ data : List Byte, (wordSwap data).length = data.length
  | b0 :: b1 :: b2 :: b3 :: rest => by simp [wordSwap, wordSwap_length rest]
  | [] => rfl
  | [_] => rfl
  | [_, _] => rfl
  | [_, _, _] => rfl

theorem bitOrder_aligned : ∀ data : List Byte, data.length % 4 = 0 → crc32BitOrder data = wordSwap data
  | b0 :: b1 :: b2 :: b3 :: rest, h => by
    have hr : rest.length % 4 = 0 := by simp only [List.length_cons] at h; omega
    simp only [crc32BitOrder, wordSwap, bitOrder_aligned rest hr]
  | [], _ => rfl
  | [_], h => by simp at h
  | [_, _], h => by simp at h
  | [_, _, _], h => by simp at h

theorem wordSwap_wordSwap : ∀ data : List Byte, wordSwap (wordSwap data) = data
  | b0 :: b1 :: b2 :: b3 :: rest => by simp only [wordSwap, wordSwap_wordSwap rest]
  | [] => rfl
  | [_] => rfl
  | [_, _] => rfl
  | [_, _, _] => rfl

end Igris.C17
