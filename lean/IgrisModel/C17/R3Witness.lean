/-
  C17 round 3 — the seeded change `C17-crc32-bodysize-uint16` as a model
  variant (NOT the code; used for a witness only): `uint16_t bodySize =
  length >> 2; uint8_t tailSize = length & 3; for (uint16_t i = 0; …)`.
-/
import IgrisModel.C17.R3Lemmas
namespace Igris.C17
open Igris.Proto

def crc32LoopN {τ : Type} (rd : Rd) (emit : Nat → τ → τ) (bodySize : BitVec 16) :
    (fuel : Nat) → (i : BitVec 16) → BitVec 32 → τ → Option (BitVec 32 × τ)
  | 0, _, _, _ => none
  | f + 1, i, crc, t =>
    if i < bodySize then
      match memcpyG rd emit (4 * i.toNat) 4 t with
      | none => none
      | some (bs, t) => crc32LoopN rd emit bodySize f (i + 1) (wordStep crc (padWord bs)) t
    else some (crc, t)

def crc32GNarrow {τ : Type} (rd : Rd) (emit : Nat → τ → τ) (length seed : BitVec 32) (t : τ) : Option (BitVec 32 × τ) :=
  let bodySize : BitVec 16 := (length >>> 2).truncate 16
  let tailSize : BitVec 8 := (length &&& 3).truncate 8
  match crc32LoopN rd emit bodySize (2 ^ 16 + 1) 0 seed t with
  | none => none
  | some (crc, t) =>
    if tailSize ≠ 0 then
      match memcpyG rd emit (4 * bodySize.toNat) tailSize.toNat t with
      | none => none
      | some (bs, t) => some (wordStep crc (padWord bs), t)
    else some (crc, t)

end Igris.C17
