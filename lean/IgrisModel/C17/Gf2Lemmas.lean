/-
  C17 — the shift-register references of Ref.lean compute the polynomial
  remainder of Gf2.lean.
-/
import IgrisModel.C17.Gf2
namespace Igris.C17
open Igris.Proto

/-! ## lists -/

theorem xorFront_length : ∀ (a g : List Bool), (xorFront a g).length = a.length
  | [], _ => by simp [xorFront]
  | _ :: _, [] => by simp [xorFront]
  | _ :: as, _ :: gs => by simp [xorFront, xorFront_length as gs]

theorem xorFront_nil (a : List Bool) : xorFront a [] = a := by cases a <;> rfl

theorem xorFront_zeros : ∀ (n : Nat) (r : List Bool), r.length = n → xorFront (List.replicate n false) r = r
  | 0, r, h => by
    have : r = [] := List.length_eq_zero_iff.mp h
    subst this; rfl
  | n + 1, [], h => by simp at h
  | n + 1, b :: r, h => by
    rw [List.replicate_succ, xorFront, xorFront_zeros n r (by simpa using h)]
    simp

/-- a trailing zero coefficient of the subtrahend changes nothing -/
theorem xorFront_snoc_false : ∀ (x u : List Bool), xorFront x (u ++ [false]) = xorFront x u
  | [], u => by simp [xorFront]
  | a :: as, [] => by simp [xorFront, xorFront_nil]
  | a :: as, b :: u => by simp [xorFront, xorFront_snoc_false as u]

/-- subtracting `u` and then `v` = subtracting `u + v` (`u` padded to the length of `v`) -/
theorem xorFront_xorFront : ∀ (x u v : List Bool), u.length + 1 = v.length →
    xorFront (xorFront x u) v = xorFront x (xorFront (u ++ [false]) v)
  | [], _, _, _ => by simp [xorFront]
  | a :: as, [], [c], _ => by simp [xorFront, xorFront_nil]
  | a :: as, [], [], h => by simp at h
  | a :: as, [], _ :: _ :: _, h => by simp at h
  | a :: as, b :: u, [], h => by simp at h
  | a :: as, b :: u, c :: v, h => by
    simp only [xorFront, List.cons_append]
    rw [xorFront_xorFront as u v (by simpa using h)]
    simp

/-- one step of the MSB-first register on coefficient lists -/
def regStep (p reg : List Bool) (bit : Bool) : List Bool :=
  match reg with
  | [] => []
  | r0 :: rs => if (r0 != bit) then xorFront (rs ++ [false]) p else rs ++ [false]

theorem regStep_length (p reg : List Bool) (bit : Bool) : (regStep p reg bit).length = reg.length := by
  cases reg with
  | nil => rfl
  | cons r0 rs => simp only [regStep]; split <;> simp [xorFront_length]

/-- the register fed with the message = remainder of `message·X^w + reg·X^|message|` -/
theorem regFold_eq_polyMod (p : List Bool) :
    ∀ (msg reg : List Bool), reg.length = p.length → 0 < p.length →
      msg.foldl (regStep p) reg = crcPoly (true :: p) reg msg := by
  intro msg
  induction msg with
  | nil =>
    intro reg h hp
    simp only [List.foldl_nil, crcPoly, List.length_cons, Nat.add_sub_cancel, List.nil_append]
    rw [xorFront_zeros _ _ h, polyMod]
    cases reg with
    | nil => rfl
    | cons r0 rs =>
      simp only [List.length_cons, polyModF]
      rw [if_pos (by simp only [List.length_cons] at h; omega)]
  | cons b m ih =>
    intro reg h hp
    cases reg with
    | nil => simp at h; omega
    | cons r0 rs =>
      have hrs : rs.length + 1 = p.length := by simpa using h
      simp only [List.foldl_cons]
      rw [ih _ (by rw [regStep_length]; exact h) hp]
      simp only [crcPoly, List.length_cons, Nat.add_sub_cancel, List.cons_append, xorFront, polyMod,
        xorFront_length, List.length_append, List.length_replicate, polyModF, List.tail_cons]
      rw [if_neg (by omega)]
      simp only [regStep]
      have hc : (b != r0) = (r0 != b) := by cases b <;> cases r0 <;> rfl
      rw [hc]
      cases hfb : (r0 != b)
      · simp only [Bool.false_eq_true, if_false, xorFront_snoc_false]
      · simp only [if_true]
        rw [xorFront_xorFront _ _ _ hrs]

/-! ## registers as coefficient lists -/

theorem toBits_length {w : Nat} (x : BitVec w) : (toBits x).length = w := by simp [toBits]
theorem toBitsRev_length {w : Nat} (x : BitVec w) : (toBitsRev x).length = w := by simp [toBitsRev]

theorem xorFront_zipWith : ∀ (a b : List Bool), a.length = b.length → xorFront a b = List.zipWith bne a b
  | [], [], _ => rfl
  | [], _ :: _, h => by simp at h
  | _ :: _, [], h => by simp at h
  | a :: as, b :: bs, h => by simp [xorFront, xorFront_zipWith as bs (by simpa using h)]

theorem toBits_xor {w : Nat} (a b : BitVec w) : toBits (a ^^^ b) = xorFront (toBits a) (toBits b) := by
  rw [xorFront_zipWith _ _ (by simp [toBits_length])]
  apply List.ext_getElem
  · simp [toBits]
  · intro i h1 h2
    simp [toBits, BitVec.getMsbD_xor]

theorem toBitsRev_xor {w : Nat} (a b : BitVec w) : toBitsRev (a ^^^ b) = xorFront (toBitsRev a) (toBitsRev b) := by
  rw [xorFront_zipWith _ _ (by simp [toBitsRev_length])]
  apply List.ext_getElem
  · simp [toBitsRev]
  · intro i h1 h2
    simp [toBitsRev]

theorem toBits_cons {n : Nat} (x : BitVec (n + 1)) :
    toBits x = x.msb :: (List.range n).map fun i => x.getMsbD (i + 1) := by
  simp [toBits, List.range_succ_eq_map, BitVec.msb, Function.comp_def]

theorem toBitsRev_cons {n : Nat} (x : BitVec (n + 1)) :
    toBitsRev x = x.getLsbD 0 :: (List.range n).map fun i => x.getLsbD (i + 1) := by
  simp [toBitsRev, List.range_succ_eq_map, Function.comp_def]

theorem toBits_shl1 {n : Nat} (x : BitVec (n + 1)) :
    toBits (x <<< 1) = ((List.range n).map fun i => x.getMsbD (i + 1)) ++ [false] := by
  apply List.ext_getElem
  · simp [toBits]
  · intro i h1 h2
    have hi : i < n + 1 := by simpa [toBits] using h1
    simp only [toBits, List.getElem_map, List.getElem_range, BitVec.getMsbD_shiftLeft]
    by_cases hl : i < n
    · rw [List.getElem_append_left (by simpa using hl)]
      simp
    · have : i = n := by omega
      subst this
      rw [List.getElem_append_right (by simp)]
      simp [BitVec.getMsbD]

theorem toBitsRev_shr1 {n : Nat} (x : BitVec (n + 1)) :
    toBitsRev (x >>> 1) = ((List.range n).map fun i => x.getLsbD (i + 1)) ++ [false] := by
  apply List.ext_getElem
  · simp [toBitsRev]
  · intro i h1 h2
    have hi : i < n + 1 := by simpa [toBitsRev] using h1
    simp only [toBitsRev, List.getElem_map, List.getElem_range, BitVec.getLsbD_ushiftRight]
    by_cases hl : i < n
    · rw [List.getElem_append_left (by simpa using hl)]
      simp [Nat.add_comm]
    · have : i = n := by omega
      subst this
      rw [List.getElem_append_right (by simp)]
      simp [Nat.add_comm]

theorem refBitMsb_bits {n : Nat} (poly reg : BitVec (n + 1)) (bit : Bool) :
    toBits (refBitMsb poly reg bit) = regStep (toBits poly) (toBits reg) bit := by
  rw [toBits_cons reg]
  simp only [refBitMsb, regStep]
  cases h : (reg.msb != bit)
  · simp [toBits_shl1]
  · simp [toBits_xor, toBits_shl1]

theorem refBitLsb_bits {n : Nat} (poly reg : BitVec (n + 1)) (bit : Bool) :
    toBitsRev (refBitLsb poly reg bit) = regStep (toBitsRev poly) (toBitsRev reg) bit := by
  rw [toBitsRev_cons reg]
  simp only [refBitLsb, regStep]
  cases h : (reg.getLsbD 0 != bit)
  · simp [toBitsRev_shr1]
  · simp [toBitsRev_xor, toBitsRev_shr1]

theorem foldl_bits_msb {n : Nat} (poly : BitVec (n + 1)) (bits : List Bool) (reg : BitVec (n + 1)) :
    toBits (bits.foldl (refBitMsb poly) reg) = bits.foldl (regStep (toBits poly)) (toBits reg) := by
  induction bits generalizing reg with
  | nil => rfl
  | cons b bs ih => simp only [List.foldl_cons, ih, refBitMsb_bits]

theorem foldl_bits_lsb {n : Nat} (poly : BitVec (n + 1)) (bits : List Bool) (reg : BitVec (n + 1)) :
    toBitsRev (bits.foldl (refBitLsb poly) reg) = bits.foldl (regStep (toBitsRev poly)) (toBitsRev reg) := by
  induction bits generalizing reg with
  | nil => rfl
  | cons b bs ih => simp only [List.foldl_cons, ih, refBitLsb_bits]

/-- the MSB-first shift register = polynomial remainder -/
theorem refMsb_eq_crcPoly {n : Nat} (poly seed : BitVec (n + 1)) (data : List Byte) :
    toBits (refMsb (n + 1) poly seed data) =
      crcPoly (true :: toBits poly) (toBits seed) (data.flatMap bitsMsbFirst) := by
  rw [refMsb, foldl_bits_msb, regFold_eq_polyMod _ _ _ (by simp [toBits_length]) (by simp [toBits_length])]

/-- the reflected (LSB-first) shift register = polynomial remainder, the
register read from bit 0 upwards and each byte sent least significant bit first -/
theorem refLsb_eq_crcPoly {n : Nat} (polyrev seed : BitVec (n + 1)) (data : List Byte) :
    toBitsRev (refLsb polyrev seed data) =
      crcPoly (true :: toBitsRev polyrev) (toBitsRev seed) (data.flatMap bitsLsbFirst) := by
  rw [refLsb, foldl_bits_lsb, regFold_eq_polyMod _ _ _ (by simp [toBitsRev_length]) (by simp [toBitsRev_length])]

end Igris.C17
