/-
  C17 — model of igris/util/crc.{h,c}.

  Every routine is transcribed statement by statement.  Buffers are
  `List Byte`; a routine that receives `(data, length)` is modelled on a memory
  `mem` that may be *longer* than `length`, so that reads past `length` are
  expressible (`Crc32.run` reports the offsets it reads).
-/
import IgrisModel.Common.Proto
namespace Igris.C17
open Igris.Proto

/-! ### igris_strmcrc8 (crc.h): `*crc ^= c; 8×: crc = crc&0x80 ? (crc<<1)^0x31 : crc<<1` -/

def strmShift (c : BitVec 8) : BitVec 8 :=
  if c &&& 0x80#8 ≠ 0#8 then (c <<< 1) ^^^ 0x31#8 else c <<< 1

def iter {α : Type} (f : α → α) : Nat → α → α
  | 0, x => x
  | n + 1, x => iter f n (f x)

def strmStep (crc c : BitVec 8) : BitVec 8 := iter strmShift 8 (crc ^^^ c)

/-- `uint8_t crc = seed; for (c : data) igris_strmcrc8(&crc, c);` -/
def strmcrc8 (seed : BitVec 8) (data : List Byte) : BitVec 8 := data.foldl strmStep seed

/-! ### igris_crc8 (Dallas, bit-serial) -/

/-- one iteration of the inner `for (i = 8; i; i--)` loop on `(crc, inbyte)` -/
def dowBit (s : BitVec 8 × BitVec 8) : BitVec 8 × BitVec 8 :=
  let crc := s.1; let inb := s.2
  let mix := (crc ^^^ inb) &&& 0x01#8
  let crc := crc >>> 1
  let crc := if mix ≠ 0#8 then crc ^^^ 0x8C#8 else crc
  (crc, inb >>> 1)

def dowStep (crc inb : BitVec 8) : BitVec 8 := (iter dowBit 8 (crc, inb)).1

def crc8 (data : List Byte) (seed : BitVec 8) : BitVec 8 := data.foldl dowStep seed

/-! ### igris_crc8_table (2×16 table) -/

def dscrcTable : List (BitVec 8) :=
  [0x00, 0x5E, 0xBC, 0xE2, 0x61, 0x3F, 0xDD, 0x83, 0xC2, 0x9C, 0x7E,
   0x20, 0xA3, 0xFD, 0x1F, 0x41, 0x00, 0x9D, 0x23, 0xBE, 0x46, 0xDB,
   0x65, 0xF8, 0x8C, 0x11, 0xAF, 0x32, 0xCA, 0x57, 0xE9, 0x74]

def tblStepWith (tbl : List (BitVec 8)) (crc b : BitVec 8) : BitVec 8 :=
  let x := b ^^^ crc
  tbl.getD (x &&& 0x0f#8).toNat 0 ^^^ tbl.getD (16 + ((x >>> 4) &&& 0x0f#8).toNat) 0

def tblStep : BitVec 8 → BitVec 8 → BitVec 8 := tblStepWith dscrcTable

def crc8Table (data : List Byte) (seed : BitVec 8) : BitVec 8 := data.foldl tblStep seed

/-! ### igris_crc16 -/

def crc16Step (crc : BitVec 16) (b : Byte) : BitVec 16 :=
  -- x = crc >> 8 ^ *data_p++;   (uint8_t)
  let x : BitVec 8 := (crc >>> 8).truncate 8 ^^^ b
  -- x ^= x >> 4;
  let x := x ^^^ (x >>> 4)
  let x16 : BitVec 16 := x.zeroExtend 16
  -- crc = (crc << 8) ^ (uint16_t)(x << 12) ^ (uint16_t)(x << 5) ^ (uint16_t)x;
  (crc <<< 8) ^^^ (x16 <<< 12) ^^^ (x16 <<< 5) ^^^ x16

def crc16 (data : List Byte) (seed : BitVec 16) : BitVec 16 := data.foldl crc16Step seed

/-! ### igris_mmc_crc7 -/

/-- `crc = (crc & 0x80u) ? ((crc << 1) ^ (poly << 1)) : (crc << 1)` stored back
into a `uint8_t` (`poly << 1 = 0x112`, truncated to `0x12`). -/
def mmcShift (c : BitVec 8) : BitVec 8 :=
  if c &&& 0x80#8 ≠ 0#8 then (c <<< 1) ^^^ 0x12#8 else c <<< 1

def mmcStep (crc b : BitVec 8) : BitVec 8 := iter mmcShift 8 (crc ^^^ b)

def mmcCrc7 (data : List Byte) : BitVec 8 := (data.foldl mmcStep 0#8) >>> 1

/-! ### igris_crc32 (word loop + tail word) -/

def crc32Table : List (BitVec 32) :=
  [0x00000000, 0x04C11DB7, 0x09823B6E, 0x0D4326D9, 0x130476DC, 0x17C56B6B,
   0x1A864DB2, 0x1E475005, 0x2608EDB8, 0x22C9F00F, 0x2F8AD6D6, 0x2B4BCB61,
   0x350C9B64, 0x31CD86D3, 0x3C8EA00A, 0x384FBDBD]

def nibStepWith (tbl : List (BitVec 32)) (crc : BitVec 32) : BitVec 32 :=
  (crc <<< 4) ^^^ tbl.getD (crc >>> 28).toNat 0

def nibStep : BitVec 32 → BitVec 32 := nibStepWith crc32Table

def wordStep (crc w : BitVec 32) : BitVec 32 := iter nibStep 8 (crc ^^^ w)

/-- little-endian 32-bit load at byte offset `off`; `none` if any of the four
bytes is outside `mem` (what ASan reports on an exactly sized buffer). -/
def loadLE (mem : List Byte) (off : Nat) : Option (BitVec 32) := do
  let b0 ← mem[off]?
  let b1 ← mem[off+1]?
  let b2 ← mem[off+2]?
  let b3 ← mem[off+3]?
  pure (b0.zeroExtend 32 ||| (b1.zeroExtend 32 <<< 8) ||| (b2.zeroExtend 32 <<< 16)
        ||| (b3.zeroExtend 32 <<< 24))

def crc32Body (mem : List Byte) : Nat → Nat → BitVec 32 → Option (BitVec 32)
  | 0, _, crc => some crc
  | n + 1, i, crc => do
      let w ← loadLE mem (4 * i)
      crc32Body mem n (i + 1) (wordStep crc w)

/-- The routine as written on the *unchanged* tree: the tail is read with a
whole-word load `pData[bodySize]`, i.e. bytes `4*body .. 4*body+3`. Returns
`none` when a load leaves `mem`. -/
def crc32Orig (mem : List Byte) (length : Nat) (seed : BitVec 32) : Option (BitVec 32) := do
  let body := length / 4
  let tail := length % 4
  let crc ← crc32Body mem body 0 seed
  if tail = 0 then pure crc else
    let w ← loadLE mem (4 * body)
    let mask : BitVec 32 := (1#32 <<< (tail * 8)) - 1#32
    pure (wordStep crc (w &&& mask))

/-- value-level definition (reads only `data`): words little-endian, the tail
zero-padded to a word.  This is what the routine computes whenever its loads
succeed, and what the repaired routine computes always. -/
def padWord (bs : List Byte) : BitVec 32 :=
  let g (i : Nat) : BitVec 32 := (bs.getD i 0#8).zeroExtend 32 <<< (8 * i)
  g 0 ||| g 1 ||| g 2 ||| g 3

def crc32Words : List Byte → BitVec 32 → BitVec 32
  | b0 :: b1 :: b2 :: b3 :: rest, crc => crc32Words rest (wordStep crc (padWord [b0, b1, b2, b3]))
  | [], crc => crc
  | tl, crc => wordStep crc (padWord tl)

/-! ### igris_crc32 after the repair (`fix: crc32 reads the tail byte-wise`) :
`memcpy(&word, pData + 4*i, 4)` in the body, `word = 0; memcpy(&word, pData +
4*bodySize, tailSize)` for the tail. -/

/-- `memcpy` of `n` bytes starting at `off`: faults if any byte is outside `mem` -/
def loadBytes (mem : List Byte) (off : Nat) : Nat → Option (List Byte)
  | 0 => some []
  | n + 1 => do
      let b ← mem[off]?
      let tl ← loadBytes mem (off + 1) n
      pure (b :: tl)

def crc32BodyF (mem : List Byte) : Nat → Nat → BitVec 32 → Option (BitVec 32)
  | 0, _, crc => some crc
  | n + 1, i, crc => do
      let bs ← loadBytes mem (4 * i) 4
      crc32BodyF mem n (i + 1) (wordStep crc (padWord bs))

def crc32 (mem : List Byte) (length : Nat) (seed : BitVec 32) : Option (BitVec 32) := do
  let crc ← crc32BodyF mem (length / 4) 0 seed
  if length % 4 = 0 then pure crc else
    let bs ← loadBytes mem (4 * (length / 4)) (length % 4)
    pure (wordStep crc (padWord bs))

/-! ### buffer + explicit length forms of the byte-loop routines

`mem` = the bytes mapped at the pointer argument (it may be longer or shorter
than the length argument), `len` = the C length parameter **with its C width**
(`uint8_t` for `igris_crc8`, `igris_crc8_table`, `igris_mmc_crc7`; `uint16_t`
for `igris_crc16`).  A read at an offset outside `mem` is `none`.  The driver
runs these forms. -/

/-- `while (len--) { crc = step(crc, *addr++); }` with a `w`-bit unsigned
`len`: test, decrement (mod `2^w`), read `*addr`, advance.  `rest` = the bytes
mapped from `addr` on (`[]` = `addr` is outside: the read faults).  `fuel`
only bounds the recursion (`2^w` iterations at most; `none` when it runs out
is never reached with `fuel > len`). -/
def whileDec {w : Nat} {α : Type} (step : α → Byte → α) :
    (fuel : Nat) → (len : BitVec w) → (rest : List Byte) → α → Option α
  | 0, _, _, _ => none
  | f + 1, len, rest, crc =>
    if len = 0 then some crc else
    match rest with
    | [] => none
    | b :: rest => whileDec step f (len - 1) rest (step crc b)

/-- `igris_crc8_table(addr, uint8_t len, crc_init)` -/
def crc8TableM (mem : List Byte) (len : BitVec 8) (seed : BitVec 8) : Option (BitVec 8) :=
  whileDec tblStep 256 len mem seed

/-- `igris_crc8(data, uint8_t len, crc_init)` -/
def crc8M (mem : List Byte) (len : BitVec 8) (seed : BitVec 8) : Option (BitVec 8) :=
  whileDec dowStep 256 len mem seed

/-- `igris_crc16(data, uint16_t length, crc_init)` -/
def crc16M (mem : List Byte) (len : BitVec 16) (seed : BitVec 16) : Option (BitVec 16) :=
  whileDec crc16Step 65536 len mem seed

/-- `for (unsigned i = 0; i < length; i++) { crc ^= message[i]; … }`:
`n` = iterations left, `rest` = the bytes mapped from `message + i` on -/
def forUp {α : Type} (step : α → Byte → α) : (n : Nat) → (rest : List Byte) → α → Option α
  | 0, _, crc => some crc
  | _ + 1, [], _ => none
  | n + 1, b :: rest, crc => forUp step n rest (step crc b)

/-- `igris_mmc_crc7(message, const uint8_t length)` -/
def mmcCrc7M (mem : List Byte) (len : BitVec 8) : Option (BitVec 8) :=
  (forUp mmcStep len.toNat mem (0#8 : BitVec 8)).map fun (c : BitVec 8) => c >>> 1

/-! # Extension round 3: index-level models with C-width counters and an access log

The routines once more, this time with the pointer as an explicit byte offset
into a memory that is seen only through a read function `rd : Nat → Option
Byte` (`none` = the offset is outside the mapped extent: what ASan / a guard
page reports), with **every counter at its C width** and with every access
reported to a log (`emit off log`).  The log type is a parameter: `List Ev`
for the theorems about the order of the reads, `Unit` for the driver's long
(1 MiB) messages.  The same definitions run over a `List Byte` (`listRd`, for
the theorems) and over an `Array Byte` (`arrRd`, O(1) indexing: the driver). -/

abbrev Rd := Nat → Option Byte
def listRd (mem : List Byte) : Rd := fun i => mem[i]?
def arrRd (mem : Array Byte) : Rd := fun i => mem[i]?

/-- a memory access event: the routines of crc.c only ever read their buffer,
but a store must be expressible for "never writes" to say something -/
inductive Ev
  | rd (off : Nat)
  | wr (off : Nat)
deriving DecidableEq, Repr

/-- the log used by the theorems: events in program order (newest last) -/
def logEv (off : Nat) (t : List Ev) : List Ev := t ++ [Ev.rd off]
/-- the log that records nothing (long messages in the driver) -/
def logNone (_ : Nat) (t : Unit) : Unit := t

/-- `while (len--) { crc = step(crc, *addr++); }` — `len` a `w`-bit unsigned
(test, decrement mod `2^w`), `addr` the offset of the pointer, the read
`*addr` is logged and faults outside the mapped extent. -/
def whileDecG {w : Nat} {α τ : Type} (step : α → Byte → α) (rd : Rd) (emit : Nat → τ → τ) :
    (fuel : Nat) → (len : BitVec w) → (addr : Nat) → α → τ → Option (α × τ)
  | 0, _, _, _, _ => none
  | f + 1, len, addr, crc, t =>
    if len = 0 then some (crc, t) else
    match rd addr with
    | none => none
    | some b => whileDecG step rd emit f (len - 1) (addr + 1) (step crc b) (emit addr t)

/-- `igris_crc8_table(addr, uint8_t len, crc_init)` -/
def crc8TableG {τ : Type} (rd : Rd) (emit : Nat → τ → τ) (len seed : BitVec 8) (t : τ) : Option (BitVec 8 × τ) :=
  whileDecG tblStep rd emit 256 len 0 seed t
/-- `igris_crc8(data, uint8_t len, crc_init)` -/
def crc8G {τ : Type} (rd : Rd) (emit : Nat → τ → τ) (len seed : BitVec 8) (t : τ) : Option (BitVec 8 × τ) :=
  whileDecG dowStep rd emit 256 len 0 seed t
/-- `igris_crc16(data, uint16_t length, crc_init)` -/
def crc16G {τ : Type} (rd : Rd) (emit : Nat → τ → τ) (len seed : BitVec 16) (t : τ) : Option (BitVec 16 × τ) :=
  whileDecG crc16Step rd emit 65536 len 0 seed t

/-- `for (unsigned i = 0; i < length; i++) { crc ^= message[i]; … }` —
`i` is `unsigned` (32 bits), `length` a `uint8_t` promoted for the comparison -/
def forUpG {α τ : Type} (step : α → Byte → α) (rd : Rd) (emit : Nat → τ → τ) (length : BitVec 8) :
    (fuel : Nat) → (i : BitVec 32) → α → τ → Option (α × τ)
  | 0, _, _, _ => none
  | f + 1, i, crc, t =>
    if i < length.zeroExtend 32 then
      match rd i.toNat with
      | none => none
      | some b => forUpG step rd emit length f (i + 1) (step crc b) (emit i.toNat t)
    else some (crc, t)

/-- `igris_mmc_crc7(message, const uint8_t length)` -/
def mmcCrc7G {τ : Type} (rd : Rd) (emit : Nat → τ → τ) (len : BitVec 8) (t : τ) : Option (BitVec 8 × τ) :=
  (forUpG mmcStep rd emit len 257 0 (0#8 : BitVec 8) t).map fun (c, t) => (c >>> 1, t)

/-- `memcpy(&word, pData + off, n)`: the `n` source bytes, each read logged -/
def memcpyG {τ : Type} (rd : Rd) (emit : Nat → τ → τ) : (off n : Nat) → τ → Option (List Byte × τ)
  | _, 0, t => some ([], t)
  | off, n + 1, t =>
    match rd off with
    | none => none
    | some b =>
      match memcpyG rd emit (off + 1) n (emit off t) with
      | none => none
      | some (bs, t) => some (b :: bs, t)

/-- `for (uint32_t i = 0; i < bodySize; i++) { memcpy(&word, pData + 4 * i, 4); … }`:
`i`, `bodySize` and the product `4 * i` are 32-bit unsigned -/
def crc32LoopG {τ : Type} (rd : Rd) (emit : Nat → τ → τ) (bodySize : BitVec 32) :
    (fuel : Nat) → (i : BitVec 32) → BitVec 32 → τ → Option (BitVec 32 × τ)
  | 0, _, _, _ => none
  | f + 1, i, crc, t =>
    if i < bodySize then
      match memcpyG rd emit (4#32 * i).toNat 4 t with
      | none => none
      | some (bs, t) => crc32LoopG rd emit bodySize f (i + 1) (wordStep crc (padWord bs)) t
    else some (crc, t)

/-- `igris_crc32(data, uint32_t length, crc_init)`:
`uint32_t bodySize = length / 4, tailSize = length % 4;` word loop; `if (tailSize)
{ word = 0; memcpy(&word, pData + 4 * bodySize, tailSize); … }` -/
def crc32G {τ : Type} (rd : Rd) (emit : Nat → τ → τ) (length seed : BitVec 32) (t : τ) : Option (BitVec 32 × τ) :=
  let bodySize : BitVec 32 := length / 4
  let tailSize : BitVec 32 := length % 4
  match crc32LoopG rd emit bodySize (2 ^ 30) 0 seed t with
  | none => none
  | some (crc, t) =>
    if tailSize ≠ 0 then
      match memcpyG rd emit (4#32 * bodySize).toNat tailSize.toNat t with
      | none => none
      | some (bs, t) => some (wordStep crc (padWord bs), t)
    else some (crc, t)

/-! ### the streaming CRC-8 as an object that is re-used

`uint8_t crc;` lives in the caller (gstuff keeps it in its context).  An
operation either (re-)initialises it or feeds one `char`. -/
inductive StrmOp
  | init (v : BitVec 8)
  | feed (c : Byte)
deriving DecidableEq, Repr

def strmRun (crc : BitVec 8) : List StrmOp → BitVec 8
  | [] => crc
  | .init v :: rest => strmRun v rest
  | .feed c :: rest => strmRun (strmStep crc c) rest

/-! ### byte tables for the driver (long messages): the byte step of each
8-bit routine depends on `crc ^ byte` only, the 16-bit one on `(crc >> 8) ^
byte`; the tables are computed from the step functions of the model when the
driver starts (`R3Lemmas`: the table step = the model's step). -/
def mkTab8 (f : BitVec 8 → BitVec 8) : Array (BitVec 8) := Array.ofFn (n := 256) fun i => f (BitVec.ofNat 8 i.val)
def strmTab : Array (BitVec 8) := mkTab8 (strmStep 0)
def dowTab : Array (BitVec 8) := mkTab8 (dowStep 0)
def tblTab : Array (BitVec 8) := mkTab8 (tblStep 0)
def mmcTab : Array (BitVec 8) := mkTab8 (mmcStep 0)
def c16Tab : Array (BitVec 16) := Array.ofFn (n := 256) fun i => crc16Step 0 (BitVec.ofNat 8 i.val)
def tabStep8 (tab : Array (BitVec 8)) (crc b : BitVec 8) : BitVec 8 := tab.getD (crc ^^^ b).toNat 0
def tabStep16 (crc : BitVec 16) (b : Byte) : BitVec 16 :=
  (crc <<< 8) ^^^ c16Tab.getD ((crc >>> 8).truncate 8 ^^^ b).toNat 0

end Igris.C17
