/-
  C17 — PROPERTY THEOREMS (statements only use definitions from Model.lean;
  helper lemmas live in Lemmas.lean).

  Property: "For every byte string and seed, the table-driven and bit-serial
  CRC-8 return identical values, and each CRC routine equals an independent
  reference of the same polynomial, bit order and seed.  Feeding data in pieces
  with the running value as seed gives the one-shot result, and the streaming
  CRC-8 of a message followed by its own CRC is 0.  No routine reads a byte
  outside [data, data+length) or needs an aligned buffer."
-/
import IgrisModel.C17.Lemmas
import IgrisModel.C17.RefLemmas
import IgrisModel.C17.LenLemmas
import IgrisModel.C17.R3Lemmas
import IgrisModel.C17.R3Witness
import IgrisModel.C17.Gf2Lemmas
import IgrisModel.C17.PolyAlg
namespace Igris.C17
open Igris.Proto

/-- table-driven Dallas CRC-8 = bit-serial Dallas CRC-8, all seeds, all messages -/
theorem crc8_table_eq_serial (data : List Byte) (seed : BitVec 8) :
    crc8Table data seed = crc8 data seed := by
  unfold crc8Table crc8
  induction data generalizing seed with
  | nil => rfl
  | cons b bs ih => simp only [List.foldl_cons, tblStep_eq_dowStep, ih]

/-! chaining: feeding data in pieces with the running value as seed -/

theorem strmcrc8_chain (seed : BitVec 8) (a b : List Byte) :
    strmcrc8 seed (a ++ b) = strmcrc8 (strmcrc8 seed a) b := by
  simp [strmcrc8, List.foldl_append]

theorem crc8_chain (seed : BitVec 8) (a b : List Byte) :
    crc8 (a ++ b) seed = crc8 b (crc8 a seed) := by
  simp [crc8, List.foldl_append]

theorem crc8Table_chain (seed : BitVec 8) (a b : List Byte) :
    crc8Table (a ++ b) seed = crc8Table b (crc8Table a seed) := by
  simp [crc8Table, List.foldl_append]

theorem crc16_chain (seed : BitVec 16) (a b : List Byte) :
    crc16 (a ++ b) seed = crc16 b (crc16 a seed) := by
  simp [crc16, List.foldl_append]

/-- the streaming CRC-8 of a message followed by its own CRC is 0 -/
theorem strmcrc8_residue (seed : BitVec 8) (m : List Byte) :
    strmcrc8 seed (m ++ [strmcrc8 seed m]) = 0#8 := by
  rw [strmcrc8_chain]
  simp only [strmcrc8, List.foldl_cons, List.foldl_nil, strmStep, BitVec.xor_self]
  decide

/-- The (repaired) CRC-32 never faults when exactly `[0, length)` is mapped,
and its value is a function of those bytes only: the word-wise definition
`crc32Words`. -/
theorem crc32_reads_in_range (mem : List Byte) (length : Nat) (seed : BitVec 32)
    (h : length ≤ mem.length) :
    crc32 mem length seed = some (crc32Words (mem.take length) seed) :=
  crc32_in_bounds' mem length seed h

/-- in particular on an exactly sized buffer -/
theorem crc32_exact_buffer (data : List Byte) (seed : BitVec 32) :
    crc32 data data.length seed = some (crc32Words data seed) := by
  have := crc32_reads_in_range data data.length seed (Nat.le_refl _)
  simpa using this

/-
  FULL STATEMENT (false on the tree, see `crc32_chain_witness`):
     ∀ a b seed, crc32Words (a ++ b) seed = crc32Words b (crc32Words a seed)
  Proved part: split points that are a multiple of four.
  Recorded finding: C17-crc32-split.
-/
theorem crc32_chain_partial (seed : BitVec 32) (a b : List Byte) (h : a.length % 4 = 0) :
    crc32Words (a ++ b) seed = crc32Words b (crc32Words a seed) := by
  induction hn : a.length using Nat.strongRecOn generalizing a seed with
  | _ n ih =>
    match a, h with
    | [], _ => simp [crc32Words]
    | [_], h => simp at h
    | [_, _], h => simp at h
    | [_, _, _], h => simp at h
    | b0 :: b1 :: b2 :: b3 :: rest, h =>
      simp only [List.cons_append, crc32Words_four]
      subst hn
      exact ih rest.length (by simp only [List.length_cons]; omega) _ rest (by simp at h; omega) rfl

/-- the model violates chaining at a split point that is not a multiple of 4 -/
theorem crc32_chain_witness :
    crc32Words ([1#8] ++ [2#8]) 0#32 ≠ crc32Words [2#8] (crc32Words [1#8] 0#32) := by
  decide +kernel

/-- historical: the routine as it was before `fix: igris_crc32 reads the tail
byte-wise` faults on a 1-byte buffer (whole-word tail load) -/
theorem crc32Orig_overread_witness : crc32Orig [0#8] 1 0#32 = none := by decide

/-! ## each routine equals an independent bit-at-a-time reference
(`Ref.lean`: a `w`-bit shift register fed one message bit at a time; all seeds,
all byte strings) -/

/-- `igris_strmcrc8` = CRC-8 poly 0x31 (x^8+x^5+x^4+1), MSB first, no reflection -/
theorem strmcrc8_eq_ref (seed : BitVec 8) (data : List Byte) :
    strmcrc8 seed data = refMsb 8 0x31#8 seed data := by
  rw [refMsb_eq_foldl, strmcrc8]
  induction data generalizing seed with
  | nil => rfl
  | cons b bs ih => simp only [List.foldl_cons, strmStep_eq_ref, ih]

/-- `igris_crc8` = Dallas/Maxim CRC-8, reflected poly 0x8C, LSB first -/
theorem crc8_eq_ref (data : List Byte) (seed : BitVec 8) :
    crc8 data seed = refLsb 0x8C#8 seed data := by
  rw [refLsb_eq_foldl, crc8]
  induction data generalizing seed with
  | nil => rfl
  | cons b bs ih => simp only [List.foldl_cons, dowStep_eq_ref, ih]

/-- hence also the table-driven routine -/
theorem crc8Table_eq_ref (data : List Byte) (seed : BitVec 8) :
    crc8Table data seed = refLsb 0x8C#8 seed data := by
  rw [crc8_table_eq_serial, crc8_eq_ref]

/-- `igris_crc16` = CRC-16/CCITT poly 0x1021, MSB first (XMODEM for seed 0) -/
theorem crc16_eq_ref (data : List Byte) (seed : BitVec 16) :
    crc16 data seed = refMsb 16 0x1021#16 seed data := by
  rw [refMsb_eq_foldl, crc16]
  induction data generalizing seed with
  | nil => rfl
  | cons b bs ih => simp only [List.foldl_cons, crc16Step_eq_ref, ih]

/-- `igris_mmc_crc7` as written: an 8-bit register with poly `0x89 << 1`
(truncated: 0x12), result shifted right by one -/
theorem mmcCrc7_eq_ref8 (data : List Byte) :
    mmcCrc7 data = refMsb 8 0x12#8 0#8 data >>> 1 := by
  rw [refMsb_eq_foldl, mmcCrc7]
  congr 1
  generalize (0#8 : BitVec 8) = seed
  induction data generalizing seed with
  | nil => rfl
  | cons b bs ih => simp only [List.foldl_cons, mmcStep_eq_ref, ih]

/-- … which is the genuine 7-bit CRC-7/MMC (poly x^7+x^3+1 = 0x09, seed 0,
MSB first) of the message, zero-extended to the returned `uint8_t` -/
theorem mmcCrc7_eq_crc7 (data : List Byte) :
    mmcCrc7 data = (refMsb 7 0x09#7 0#7 data).zeroExtend 8 := by
  rw [mmcCrc7_eq_ref8]
  have h := crc7_fold (data.flatMap bitsMsbFirst) 0#7
  have z : (0#7 : BitVec 7).zeroExtend 8 <<< 1 = 0#8 := by decide
  rw [z] at h
  rw [refMsb, h, crc7_unshift]; rfl

/-- `igris_crc32` (value-level `crc32Words`, see `crc32_reads_in_range`) =
CRC-32 poly 0x04C11DB7, MSB first, no reflection, no final xor, over the bytes
in STM32 word order (`crc32BitOrder`: each little-endian word most significant
byte first, the tail zero-padded to a word) -/
theorem crc32Words_eq_ref (data : List Byte) (seed : BitVec 32) :
    crc32Words data seed = refMsb 32 0x04C11DB7#32 seed (crc32BitOrder data) := by
  induction hn : data.length using Nat.strongRecOn generalizing data seed with
  | _ n ih =>
    match data with
    | [] => simp [crc32Words, crc32BitOrder, refMsb]
    | [a] =>
      simp only [crc32Words, crc32BitOrder]
      rw [refMsb_word, ← wordStep_eq_ref]; rfl
    | [a, b] =>
      simp only [crc32Words, crc32BitOrder]
      rw [refMsb_word, ← wordStep_eq_ref]; rfl
    | [a, b, c] =>
      simp only [crc32Words, crc32BitOrder]
      rw [refMsb_word, ← wordStep_eq_ref]; rfl
    | b0 :: b1 :: b2 :: b3 :: rest =>
      simp only [crc32Words_four, crc32BitOrder]
      rw [refMsb_word, ← wordStep_eq_ref]
      subst hn
      exact ih rest.length (by simp only [List.length_cons]; omega) rest _ rfl

/-- the routine itself on an exactly sized buffer -/
theorem crc32_eq_ref (data : List Byte) (seed : BitVec 32) :
    crc32 data data.length seed = some (refMsb 32 0x04C11DB7#32 seed (crc32BitOrder data)) := by
  rw [crc32_exact_buffer, crc32Words_eq_ref]

/-- sanity anchors for the references themselves (catalogue check values of
"123456789"): CRC-8/MAXIM-DOW = 0xA1, CRC-16/XMODEM = 0x31C3, CRC-7/MMC = 0x75 -/
theorem ref_check_values :
    refLsb 0x8C#8 0#8 [0x31, 0x32, 0x33, 0x34, 0x35, 0x36, 0x37, 0x38, 0x39] = 0xA1#8 ∧
    refMsb 16 0x1021#16 0#16 [0x31, 0x32, 0x33, 0x34, 0x35, 0x36, 0x37, 0x38, 0x39] = 0x31C3#16 ∧
    refMsb 7 0x09#7 0#7 [0x31, 0x32, 0x33, 0x34, 0x35, 0x36, 0x37, 0x38, 0x39] = 0x75#7 := by
  decide +kernel

/-! # Extension: "reads only the given bytes" for every routine

`mem` = the bytes mapped at the pointer argument (any number of them), `len` =
the C length argument with its C width.  Each theorem says three things at
once: the routine completes **iff** the `len` bytes `[0, len)` are mapped (it
reads every one of them and nothing behind them — in particular it completes
when *exactly* `len` bytes are mapped); its value is a function of those `len`
bytes only (the list-level routine of the theorems above on `mem.take len`);
this holds for every `len` of the type, `0` and the maximum included.
`igris_strmcrc8(uint8_t *crc, char c)` takes no buffer (it reads `*crc` and
`c`), `igris_crc32` is `crc32_reads_in_range` above. -/

theorem crc8Table_reads_len (mem : List Byte) (len seed : BitVec 8) :
    crc8TableM mem len seed =
      if len.toNat ≤ mem.length then some (crc8Table (mem.take len.toNat) seed) else none :=
  whileDec_spec tblStep sub1_8 256 len mem seed len.isLt

theorem crc8_reads_len (mem : List Byte) (len seed : BitVec 8) :
    crc8M mem len seed =
      if len.toNat ≤ mem.length then some (crc8 (mem.take len.toNat) seed) else none :=
  whileDec_spec dowStep sub1_8 256 len mem seed len.isLt

theorem crc16_reads_len (mem : List Byte) (len seed : BitVec 16) :
    crc16M mem len seed =
      if len.toNat ≤ mem.length then some (crc16 (mem.take len.toNat) seed) else none :=
  whileDec_spec crc16Step sub1_16 65536 len mem seed len.isLt

theorem mmcCrc7_reads_len (mem : List Byte) (len : BitVec 8) :
    mmcCrc7M mem len =
      if len.toNat ≤ mem.length then some (mmcCrc7 (mem.take len.toNat)) else none := by
  rw [mmcCrc7M, forUp_spec]
  split <;> rfl

/-- on an exactly sized buffer (every length the type can express) each
routine returns the list-level value: all theorems above (`*_eq_ref`,
`*_chain`, `crc8_table_eq_serial`) apply to the C calls -/
theorem exact_buffers (data : List Byte) (s8 : BitVec 8) (s16 : BitVec 16) :
    (data.length < 256 →
      crc8TableM data (BitVec.ofNat 8 data.length) s8 = some (crc8Table data s8) ∧
      crc8M data (BitVec.ofNat 8 data.length) s8 = some (crc8 data s8) ∧
      mmcCrc7M data (BitVec.ofNat 8 data.length) = some (mmcCrc7 data)) ∧
    (data.length < 65536 →
      crc16M data (BitVec.ofNat 16 data.length) s16 = some (crc16 data s16)) := by
  constructor
  · intro h
    have e : (BitVec.ofNat 8 data.length).toNat = data.length := by simp; omega
    rw [crc8Table_reads_len, crc8_reads_len, mmcCrc7_reads_len, e]
    simp
  · intro h
    have e : (BitVec.ofNat 16 data.length).toNat = data.length := by simp; omega
    rw [crc16_reads_len, e]
    simp

example : ([1#8, 2#8] : List Byte).length < 256 ∧ ([1#8, 2#8] : List Byte).length < 65536 := by decide

/-- `len = 0`: nothing is read, whatever is (not) mapped; the seed is returned -/
theorem len0_reads_nothing (mem : List Byte) (s8 : BitVec 8) (s16 : BitVec 16) :
    crc8TableM mem 0 s8 = some s8 ∧ crc8M mem 0 s8 = some s8 ∧ crc16M mem 0 s16 = some s16 ∧
    mmcCrc7M mem 0 = some 0 := by
  rw [crc8Table_reads_len, crc8_reads_len, crc16_reads_len, mmcCrc7_reads_len]
  simp [crc8Table, crc8, crc16, mmcCrc7]

/-- the maximum of the type: 255 (65535) bytes are read, the 256th (65536th) is not -/
theorem lenmax_reads_exactly (mem : List Byte) (s8 : BitVec 8) (s16 : BitVec 16) :
    (mem.length = 255 → crc8TableM mem 255 s8 = some (crc8Table mem s8) ∧ crc8M mem 255 s8 = some (crc8 mem s8) ∧
      mmcCrc7M mem 255 = some (mmcCrc7 mem)) ∧
    (mem.length = 65535 → crc16M mem 65535 s16 = some (crc16 mem s16)) := by
  constructor
  · intro h
    have e : (255 : BitVec 8).toNat = mem.length := by rw [h]; rfl
    rw [crc8Table_reads_len, crc8_reads_len, mmcCrc7_reads_len, e]
    simp only [Nat.le_refl, if_true, List.take_length, and_self]
  · intro h
    have e : (65535 : BitVec 16).toNat = mem.length := by rw [h]; rfl
    rw [crc16_reads_len, e, if_pos (Nat.le_refl _), List.take_length]

example : (List.replicate 255 (0#8 : Byte)).length = 255 := List.length_replicate

/-- one unmapped byte inside `[0, len)` and the routine faults (it reads all of them) -/
theorem short_buffer_faults (mem : List Byte) (len seed : BitVec 8) (h : mem.length < len.toNat) :
    crc8TableM mem len seed = none ∧ crc8M mem len seed = none ∧ mmcCrc7M mem len = none := by
  rw [crc8Table_reads_len, crc8_reads_len, mmcCrc7_reads_len]
  simp [Nat.not_le.mpr h]

example : ([] : List Byte).length < (1#8 : BitVec 8).toNat := by decide

/-- the seeded change `do { … } while (--len);` in `igris_crc8_table` reads a
byte when `len = 0` (and 255 more): it faults on the empty buffer, where the
routine must return the seed (`len0_reads_nothing`) -/
theorem crc8Table_doWhile_len0_witness (seed : BitVec 8) :
    doWhileDec tblStep 257 (0#8 : BitVec 8) [] seed = none ∧ crc8TableM [] 0 seed = some seed :=
  ⟨rfl, (len0_reads_nothing [] seed 0).1⟩

/-! ## catalogue check values, evaluated by the kernel on the routines themselves
(message "123456789"; names of the reveng CRC catalogue) -/

/-- CRC-8/MAXIM-DOW = 0xA1 (both Dallas routines), CRC-7/MMC = 0x75,
CRC-8/NRSC-5 (poly 0x31, init 0xFF: the streaming CRC-8 as gstuff seeds it) = 0xF7,
CRC-16/XMODEM (init 0) = 0x31C3, CRC-16/IBM-3740 "CCITT-FALSE" (init 0xFFFF) = 0x29B1,
CRC-16/SPI-FUJITSU "AUG-CCITT" (init 0x1D0F) = 0xE5CC -/
theorem routine_check_values :
    let m9 : List Byte := [0x31, 0x32, 0x33, 0x34, 0x35, 0x36, 0x37, 0x38, 0x39]
    crc8M m9 9 0 = some 0xA1#8 ∧ crc8TableM m9 9 0 = some 0xA1#8 ∧ mmcCrc7M m9 9 = some 0x75#8 ∧
    strmcrc8 0xFF m9 = 0xF7#8 ∧
    crc16M m9 9 0 = some 0x31C3#16 ∧ crc16M m9 9 0xFFFF = some 0x29B1#16 ∧ crc16M m9 9 0x1D0F = some 0xE5CC#16 := by
  decide +kernel

/-- CRC-32: the reference with init 0xFFFFFFFF is CRC-32/MPEG-2 (check value
0x0376E6E7); the routine on one zero word after reset gives the STM32 CRC
unit's well-known 0xC704DD7B; "HelloWorld" is the value pinned by tests/crc.cpp -/
theorem crc32_check_values :
    refMsb 32 0x04C11DB7#32 0xFFFFFFFF#32 [0x31, 0x32, 0x33, 0x34, 0x35, 0x36, 0x37, 0x38, 0x39] = 0x0376E6E7#32 ∧
    crc32 [0, 0, 0, 0] 4 0xFFFFFFFF#32 = some 0xC704DD7B#32 ∧
    crc32 [0x48, 0x65, 0x6C, 0x6C, 0x6F, 0x57, 0x6F, 0x72, 0x6C, 0x64] 10 0#32 = some (BitVec.ofNat 32 1114288986) := by
  decide +kernel

/-- `igris_crc32` on word-aligned input is the bit-serial CRC-32/MPEG-2
register (poly 0x04C11DB7, MSB first, no reflection, no final xor; init =
`seed`) over the message with every 32-bit word byte-swapped … -/
theorem crc32_aligned_eq_mpeg2_of_swapped (data : List Byte) (seed : BitVec 32) (h : data.length % 4 = 0) :
    crc32 data data.length seed = some (refMsb 32 0x04C11DB7#32 seed (wordSwap data)) := by
  rw [crc32_eq_ref, bitOrder_aligned data h]

/-- … equivalently: CRC-32/MPEG-2 of a word-aligned message is `igris_crc32`
of its byte-swapped words (STM32 CRC unit fed with big-endian words).  For a
length that is not a multiple of four the true relation is `crc32_eq_ref`:
the 1–3 tail bytes are zero-padded to a word *in front* (`00 … b2 b1 b0`),
which no standard CRC does (finding C17-crc32-split). -/
theorem mpeg2_eq_crc32_of_swapped (data : List Byte) (seed : BitVec 32) (h : data.length % 4 = 0) :
    crc32 (wordSwap data) (wordSwap data).length seed = some (refMsb 32 0x04C11DB7#32 seed data) := by
  rw [crc32_aligned_eq_mpeg2_of_swapped _ _ (by rw [wordSwap_length]; exact h), wordSwap_wordSwap]

/-- the unaligned tail is not MPEG-2 of anything simple: one byte `b` gives the
register of the word `00 00 00 b` -/
theorem crc32_tail_witness :
    crc32 [0x31] 1 0xFFFFFFFF#32 = some (refMsb 32 0x04C11DB7#32 0xFFFFFFFF#32 [0, 0, 0, 0x31]) ∧
    crc32 [0x31] 1 0xFFFFFFFF#32 ≠ some (refMsb 32 0x04C11DB7#32 0xFFFFFFFF#32 [0x31]) := by
  decide +kernel

-- non-vacuity of `crc32_chain_partial`'s hypothesis
example : ([1#8, 2#8, 3#8, 4#8] : List Byte).length % 4 = 0 := by decide


/-! # Extension round 3

## index-level models, counters at their C width, every access logged

`mem` = EXACTLY the bytes mapped at the pointer (a read at an offset `≥
mem.length` faults), the length argument with its C type, the log starts
empty.  Each theorem: the routine completes iff `[0, len)` is mapped, returns
the list-level value of those bytes, and its accesses are exactly the reads
`rd 0, rd 1, …, rd (len-1)` — every byte of `[0, len)` once, in ascending
order, nothing else, no store. -/

theorem crc8Table_access (mem : List Byte) (len seed : BitVec 8) :
    crc8TableG (listRd mem) logEv len seed [] =
      if len.toNat ≤ mem.length then
        some (crc8Table (mem.take len.toNat) seed, (List.range len.toNat).map Ev.rd) else none := by
  rw [crc8TableG, whileDecG_spec tblStep logEv mem sub1_8 256 len 0 seed [] len.isLt (Nat.zero_le _)]
  simp [logRange_logEv, List.range_eq_range', crc8Table]

theorem crc8_access (mem : List Byte) (len seed : BitVec 8) :
    crc8G (listRd mem) logEv len seed [] =
      if len.toNat ≤ mem.length then
        some (crc8 (mem.take len.toNat) seed, (List.range len.toNat).map Ev.rd) else none := by
  rw [crc8G, whileDecG_spec dowStep logEv mem sub1_8 256 len 0 seed [] len.isLt (Nat.zero_le _)]
  simp [logRange_logEv, List.range_eq_range', crc8]

theorem crc16_access (mem : List Byte) (len seed : BitVec 16) :
    crc16G (listRd mem) logEv len seed [] =
      if len.toNat ≤ mem.length then
        some (crc16 (mem.take len.toNat) seed, (List.range len.toNat).map Ev.rd) else none := by
  rw [crc16G, whileDecG_spec crc16Step logEv mem sub1_16 65536 len 0 seed [] len.isLt (Nat.zero_le _)]
  simp [logRange_logEv, List.range_eq_range', crc16]

theorem mmcCrc7_access (mem : List Byte) (len : BitVec 8) :
    mmcCrc7G (listRd mem) logEv len [] =
      if len.toNat ≤ mem.length then
        some (mmcCrc7 (mem.take len.toNat), (List.range len.toNat).map Ev.rd) else none := by
  have hl : len.toNat < 256 := len.isLt
  rw [mmcCrc7G, forUpG_spec mmcStep logEv mem len 257 0 0#8 [] (by simp) (by simp; omega) (by simp)]
  by_cases h : len.toNat ≤ mem.length <;>
    simp [h, logRange_logEv, List.range_eq_range', mmcCrc7]

/-- `igris_crc32` with `uint32_t length`, `uint32_t bodySize/tailSize/i` and the
32-bit product `4 * i`: for EVERY `length` of the parameter's type (all
`length < 2^32`) the counter loop is the list-level word fold of the first
`length` bytes — no counter wraps, no word is skipped or read twice.  (With a
16-bit `bodySize`/`i`, seeded change `C17-crc32-bodysize-uint16`, this is false
from `length = 2^18` on: the theorem documents the width the proof needs.) -/
theorem crc32_access (mem : List Byte) (length seed : BitVec 32) :
    crc32G (listRd mem) logEv length seed [] =
      if length.toNat ≤ mem.length then
        some (crc32Words (mem.take length.toNat) seed, (List.range length.toNat).map Ev.rd) else none := by
  rw [crc32G_spec]
  simp [logRange_logEv, List.range_eq_range']

/-- the same for any log (in particular the driver's `logNone` on long
messages) and tied to the `Nat`-length model of the earlier rounds -/
theorem crc32_counter_width {τ : Type} (emit : Nat → τ → τ) (mem : List Byte) (n : Nat) (seed : BitVec 32) (t : τ)
    (hn : n < 2 ^ 32) (hm : n ≤ mem.length) :
    (crc32G (listRd mem) emit (BitVec.ofNat 32 n) seed t).map Prod.fst = crc32 mem n seed := by
  have e : (BitVec.ofNat 32 n).toNat = n := by simp; omega
  rw [crc32G_spec, e, if_pos hm, crc32_reads_in_range mem n seed hm]; rfl

example : (5 : Nat) < 2 ^ 32 ∧ 5 ≤ ([1, 2, 3, 4, 5, 6] : List Byte).length := by decide

/-- totality of the `Nat`-length model of the earlier rounds (next to
`crc32_reads_in_range`, which assumes `length ≤ mem.length`): it completes
iff `[0, length)` is mapped -/
theorem crc32_total (mem : List Byte) (length : Nat) (seed : BitVec 32) :
    crc32 mem length seed =
      if length ≤ mem.length then some (crc32Words (mem.take length) seed) else none := by
  by_cases h : length ≤ mem.length
  · rw [if_pos h, crc32_reads_in_range mem length seed h]
  · rw [if_neg h, crc32_short mem length seed (by omega)]

/-- the C-width index model and the `Nat`-length model agree on every memory
and every length of the parameter's type, faults included -/
theorem crc32_models_agree {τ : Type} (emit : Nat → τ → τ) (mem : List Byte) (n : Nat) (seed : BitVec 32) (t : τ)
    (hn : n < 2 ^ 32) :
    (crc32G (listRd mem) emit (BitVec.ofNat 32 n) seed t).map Prod.fst = crc32 mem n seed := by
  have e : (BitVec.ofNat 32 n).toNat = n := by simp; omega
  rw [crc32G_spec, e, crc32_total]
  split <;> rfl

example : (7 : Nat) < 2 ^ 32 := by decide

/-- why the widths matter: with 16-bit `bodySize`/`i` (seeded change
`C17-crc32-bodysize-uint16`) a call with `length = 2^18` processes no word at
all — it returns the seed without a single read even when nothing is mapped,
where the routine reads all 262144 bytes (`crc32_access`: it faults) -/
theorem crc32_uint16_counter_witness (seed : BitVec 32) :
    crc32GNarrow (listRd []) logEv 262144#32 seed [] = some (seed, []) ∧
    crc32G (listRd []) logEv 262144#32 seed [] = none := by
  constructor
  · rfl
  · rw [crc32_access]; rfl

/-- no routine ever stores into its buffer, and no access is outside `[0, len)`:
said about the logs the five index-level models return -/
theorem accesses_are_reads_below_len (mem : List Byte) (l8 s8 : BitVec 8) (l16 s16 : BitVec 16) (l32 s32 : BitVec 32) :
    (∀ v t, crc8TableG (listRd mem) logEv l8 s8 [] = some (v, t) → ∀ e ∈ t, ∃ off, e = Ev.rd off ∧ off < l8.toNat) ∧
    (∀ v t, crc8G (listRd mem) logEv l8 s8 [] = some (v, t) → ∀ e ∈ t, ∃ off, e = Ev.rd off ∧ off < l8.toNat) ∧
    (∀ v t, crc16G (listRd mem) logEv l16 s16 [] = some (v, t) → ∀ e ∈ t, ∃ off, e = Ev.rd off ∧ off < l16.toNat) ∧
    (∀ v t, mmcCrc7G (listRd mem) logEv l8 [] = some (v, t) → ∀ e ∈ t, ∃ off, e = Ev.rd off ∧ off < l8.toNat) ∧
    (∀ v t, crc32G (listRd mem) logEv l32 s32 [] = some (v, t) → ∀ e ∈ t, ∃ off, e = Ev.rd off ∧ off < l32.toNat) := by
  have key : ∀ (n : Nat) (t : List Ev), t = (List.range n).map Ev.rd → ∀ e ∈ t, ∃ off, e = Ev.rd off ∧ off < n := by
    intro n t ht e he
    subst ht
    obtain ⟨off, ho, rfl⟩ := List.mem_map.mp he
    exact ⟨off, rfl, List.mem_range.mp ho⟩
  refine ⟨?_, ?_, ?_, ?_, ?_⟩ <;> intro v t h
  · rw [crc8Table_access] at h; split at h <;> simp at h; exact key _ _ h.2.symm
  · rw [crc8_access] at h; split at h <;> simp at h; exact key _ _ h.2.symm
  · rw [crc16_access] at h; split at h <;> simp at h; exact key _ _ h.2.symm
  · rw [mmcCrc7_access] at h; split at h <;> simp at h; exact key _ _ h.2.symm
  · rw [crc32_access] at h; split at h <;> simp at h; exact key _ _ h.2.symm

/-- the `Array`-backed read function of the driver is the list one -/
theorem driver_memory (a : Array Byte) : arrRd a = listRd a.toList := arrRd_eq a

/-- the byte tables the driver uses for long messages are the model's byte
steps, so its folds are the routines -/
theorem driver_tables (data : List Byte) (s8 : BitVec 8) (s16 : BitVec 16) :
    data.foldl (tabStep8 strmTab) s8 = strmcrc8 s8 data ∧
    data.foldl (tabStep8 dowTab) s8 = crc8 data s8 ∧
    data.foldl (tabStep8 tblTab) s8 = crc8Table data s8 ∧
    data.foldl (tabStep8 mmcTab) 0#8 >>> 1 = mmcCrc7 data ∧
    data.foldl tabStep16 s16 = crc16 data s16 := by
  rw [strmTab_step, dowTab_step, tblTab_step, mmcTab_step, c16Tab_step]
  exact ⟨rfl, rfl, rfl, rfl, rfl⟩

/-! ## the streaming CRC-8 object: byte at a time, split anywhere, re-used -/

theorem strmRun_feed (crc : BitVec 8) (data : List Byte) :
    strmRun crc (data.map StrmOp.feed) = strmcrc8 crc data := by
  induction data generalizing crc with
  | nil => rfl
  | cons b bs ih => simp only [List.map_cons, strmRun, ih, strmcrc8, List.foldl_cons]

theorem strmRun_append (crc : BitVec 8) (p q : List StrmOp) :
    strmRun crc (p ++ q) = strmRun (strmRun crc p) q := by
  induction p generalizing crc with
  | nil => rfl
  | cons o os ih => cases o <;> simp only [List.cons_append, strmRun, ih]

/-- byte-at-a-time = one-shot for every split of every input: however the
message is cut into pieces fed one after the other into the same object -/
theorem strm_pieces (seed : BitVec 8) (pieces : List (List Byte)) :
    strmRun seed (pieces.flatMap fun p => p.map StrmOp.feed) = strmcrc8 seed pieces.flatten := by
  induction pieces generalizing seed with
  | nil => rfl
  | cons p ps ih =>
    simp only [List.flatMap_cons, List.flatten_cons, strmRun_append, strmRun_feed, ih, strmcrc8_chain]

/-- re-initialised between messages: the history of the object is forgotten -/
theorem strm_reinit (crc v : BitVec 8) (before : List StrmOp) (m : List Byte) :
    strmRun crc (before ++ StrmOp.init v :: m.map StrmOp.feed) = strmcrc8 v m := by
  rw [strmRun_append]; simp only [strmRun, strmRun_feed]

/-- NOT re-initialised: the second message is checksummed as the continuation
of the first (the CRC of the concatenation) … -/
theorem strm_no_reinit (seed : BitVec 8) (m1 m2 : List Byte) :
    strmRun seed (m1.map StrmOp.feed ++ m2.map StrmOp.feed) = strmcrc8 seed (m1 ++ m2) := by
  rw [strmRun_append, strmRun_feed, strmRun_feed, strmcrc8_chain]

/-- … in particular after a complete frame (message + its CRC, residue 0) the
next message is computed with seed 0 instead of the protocol's seed -/
theorem strm_no_reinit_after_frame (seed : BitVec 8) (m m2 : List Byte) :
    strmRun seed ((m ++ [strmcrc8 seed m]).map StrmOp.feed ++ m2.map StrmOp.feed) = strmcrc8 0#8 m2 := by
  rw [strmRun_append, strmRun_feed, strmRun_feed, strmcrc8_residue]

/-- and that is a different value in general (gstuff seeds with 0xFF) -/
theorem strm_no_reinit_witness : strmcrc8 0#8 [0x31] ≠ strmcrc8 0xFF#8 [0x31] := by decide

/-! ## finding C17-crc32-split, stated exactly

`crc32_chain_partial`: chaining holds at every split point that is a multiple
of four.  Conversely for every other split length there is a message for which
it fails, so the set of split points at which `igris_crc32` may be chained is
exactly the multiples of four; and the law that does hold for every split is
`crc32_chain_general`: the 1–3 bytes behind the last word boundary must be
fed again together with the next piece. -/

theorem crc32_chain_general (seed : BitVec 32) (a b : List Byte) :
    crc32Words (a ++ b) seed =
      crc32Words (a.drop (4 * (a.length / 4)) ++ b) (crc32Words (a.take (4 * (a.length / 4))) seed) := by
  have h : a ++ b = a.take (4 * (a.length / 4)) ++ (a.drop (4 * (a.length / 4)) ++ b) := by
    rw [← List.append_assoc, List.take_append_drop]
  conv => lhs; rw [h]
  exact crc32Words_append_aligned _ _ _ (by rw [List.length_take]; omega)

theorem crc32_chain_iff_split_mod4 (n : Nat) :
    (∀ (a b : List Byte) (seed : BitVec 32), a.length = n →
        crc32Words (a ++ b) seed = crc32Words b (crc32Words a seed)) ↔ n % 4 = 0 := by
  constructor
  · intro h
    have hz := h (List.replicate n 0#8) [1#8] 0#32 List.length_replicate
    rw [zeros_append, zeros_crc] at hz
    have hr : n % 4 < 4 := Nat.mod_lt _ (by decide)
    match hm : n % 4, hr with
    | 0, _ => rfl
    | 1, _ => rw [hm] at hz; revert hz; decide +kernel
    | 2, _ => rw [hm] at hz; revert hz; decide +kernel
    | 3, _ => rw [hm] at hz; revert hz; decide +kernel
  · intro h a b seed ha
    exact crc32_chain_partial seed a b (by rw [ha]; exact h)

/-! ## the tables of crc.c are generated by the polynomials -/

/-- `dscrc2x16_table`: entry `i` of the first half is the Dallas CRC register
(reflected polynomial 0x8C, bit-serial reference) after one zero byte from the
register `i`, entry `16+i` from the register `i << 4` -/
theorem dscrcTable_generated :
    dscrcTable = (List.range 16).map (fun i => refLsb 0x8C#8 (BitVec.ofNat 8 i) [0#8]) ++
                 (List.range 16).map (fun i => refLsb 0x8C#8 (BitVec.ofNat 8 (16 * i)) [0#8]) := by
  decide +kernel

/-- the 256-entry byte table the two halves stand for (all 256 entries):
`tbl[x & 15] ^ tbl[16 + (x >> 4)]` = the bit-serial register after one zero
byte from register `x` = remainder of `x·X^8` -/
theorem dscrcTable_all256 :
    ∀ x : BitVec 8, dscrcTable.getD (x &&& 0x0f#8).toNat 0 ^^^ dscrcTable.getD (16 + ((x >>> 4) &&& 0x0f#8).toNat) 0
      = refLsb 0x8C#8 x [0#8] := by
  decide +kernel

/-- `crcTable` of `igris_crc32`: entry `k` = four bit-serial steps (polynomial
0x04C11DB7, MSB first) from the register `k << 28` -/
theorem crc32Table_generated :
    crc32Table = (List.range 16).map (fun k =>
      [false, false, false, false].foldl (refBitMsb 0x04C11DB7#32) (BitVec.ofNat 32 k <<< 28)) := by
  decide +kernel

/-- the op `tbl32` reads `crcTable` out of the compiled routine (the table is a
function-local static): `igris_crc32` of the word `k` from seed 0 is entry `k` -/
theorem crc32Table_readout :
    (List.range 16).map (fun k => crc32 [BitVec.ofNat 8 k, 0, 0, 0] 4 0#32) = crc32Table.map some := by
  decide +kernel


/-! ## every routine against the mathematical definition: the remainder of
`M(X)·X^w + init(X)·X^|M|` modulo the generator polynomial over GF(2)
(`Gf2.lean`: schoolbook long division on coefficient lists, no shift register,
no table).  `toBits` = the register as coefficients, most significant bit
first; `toBitsRev` = bit 0 first (reflected CRC). -/

/-- `igris_strmcrc8`: generator X^8+X^5+X^4+1, bytes most significant bit first -/
theorem strmcrc8_eq_gf2 (seed : BitVec 8) (data : List Byte) :
    toBits (strmcrc8 seed data) = crcPoly g8_31 (toBits seed) (data.flatMap bitsMsbFirst) := by
  rw [strmcrc8_eq_ref]; exact refMsb_eq_crcPoly (n := 7) 0x31#8 seed data

/-- `igris_crc8` (Dallas/Maxim): the same generator X^8+X^5+X^4+1, reflected:
bytes least significant bit first, the register read from bit 0 -/
theorem crc8_eq_gf2 (data : List Byte) (seed : BitVec 8) :
    toBitsRev (crc8 data seed) = crcPoly g8_31 (toBitsRev seed) (data.flatMap bitsLsbFirst) := by
  rw [crc8_eq_ref]; exact refLsb_eq_crcPoly (n := 7) 0x8C#8 seed data

theorem crc8Table_eq_gf2 (data : List Byte) (seed : BitVec 8) :
    toBitsRev (crc8Table data seed) = crcPoly g8_31 (toBitsRev seed) (data.flatMap bitsLsbFirst) := by
  rw [crc8_table_eq_serial, crc8_eq_gf2]

/-- `igris_crc16`: generator X^16+X^12+X^5+1 (CCITT), bytes most significant bit first -/
theorem crc16_eq_gf2 (data : List Byte) (seed : BitVec 16) :
    toBits (crc16 data seed) = crcPoly g16_1021 (toBits seed) (data.flatMap bitsMsbFirst) := by
  rw [crc16_eq_ref]; exact refMsb_eq_crcPoly (n := 15) 0x1021#16 seed data

/-- `igris_mmc_crc7`: the returned byte is a 7-bit value whose bits are the
remainder modulo X^7+X^3+1 (initial register 0) -/
theorem mmcCrc7_eq_gf2 (data : List Byte) :
    ∃ r : BitVec 7, mmcCrc7 data = r.zeroExtend 8 ∧
      toBits r = crcPoly g7_09 (List.replicate 7 false) (data.flatMap bitsMsbFirst) :=
  ⟨refMsb 7 0x09#7 0#7 data, mmcCrc7_eq_crc7 data, refMsb_eq_crcPoly (n := 6) 0x09#7 0#7 data⟩

/-- `igris_crc32` on an exactly sized buffer: generator X^32+X^26+…+1
(0x04C11DB7), the message taken in the routine's word order (`crc32BitOrder`) -/
theorem crc32_eq_gf2 (data : List Byte) (seed : BitVec 32) :
    (crc32 data data.length seed).map toBits =
      some (crcPoly g32_04C11DB7 (toBits seed) ((crc32BitOrder data).flatMap bitsMsbFirst)) := by
  rw [crc32_eq_ref, Option.map_some]
  exact congrArg some (refMsb_eq_crcPoly (n := 31) 0x04C11DB7#32 seed (crc32BitOrder data))

/-- anchors for the polynomial definition itself (no register, no routine
involved): catalogue check values of "123456789" by long division —
CRC-16/XMODEM 0x31C3, CRC-8/MAXIM-DOW 0xA1 (reflected), CRC-7/MMC 0x75,
CRC-8/NRSC-5 0xF7 (init 0xFF), CRC-32/MPEG-2 0x0376E6E7 (init 0xFFFFFFFF) -/
theorem gf2_check_values :
    let m9 : List Byte := [0x31, 0x32, 0x33, 0x34, 0x35, 0x36, 0x37, 0x38, 0x39]
    crcPoly g16_1021 (List.replicate 16 false) (m9.flatMap bitsMsbFirst) = toBits 0x31C3#16 ∧
    crcPoly g8_31 (List.replicate 8 false) (m9.flatMap bitsLsbFirst) = toBitsRev 0xA1#8 ∧
    crcPoly g7_09 (List.replicate 7 false) (m9.flatMap bitsMsbFirst) = toBits 0x75#7 ∧
    crcPoly g8_31 (List.replicate 8 true) (m9.flatMap bitsMsbFirst) = toBits 0xF7#8 ∧
    crcPoly g32_04C11DB7 (List.replicate 32 true) (m9.flatMap bitsMsbFirst) = toBits 0x0376E6E7#32 := by
  decide +kernel

/-! ## Extension round 3b

The GF(2) definition no longer rests on the long-division ALGORITHM `polyMod`: `PolyAlg.lean` defines addition and
multiplication of coefficient lists from scratch and `IsCrcRemainder p init msg r` :=  `r` has `w` coefficients and
`∃ q, M·X^w + init·X^|M| = q·(X^w + p) + r` coefficient by coefficient.  Existence (the long division returns such an
`r`), uniqueness (Euclid: a non-zero multiple of a monic polynomial of degree `w` has degree ≥ `w`) and hence
"the routine's value is THE remainder" are theorems. -/

/-- the multiplication the specification uses IS the product of polynomials: coefficient `i` of `p·q` is the
convolution `Σ_{j ≤ i} p_j·q_{i-j}` over GF(2) (`xorSum f n = f 0 + … + f (n-1)`), and the addition is coefficient-wise -/
theorem gf2_mul_is_convolution (p q : List Bool) (i : Nat) :
    coeff (pmul p q) i = xorSum (fun j => coeff p j && coeff q (i - j)) (i + 1) ∧
      coeff (padd p q) i = (coeff p i != coeff q i) :=
  ⟨coeff_pmul_conv p q i, coeff_padd p q i⟩

/-- (1 + X)·(1 + X) = 1 + X² over GF(2) -/
example : pmul [true, true] [true, true] = [true, false, true] := by decide

/-- existence: `polyMod G a` is a remainder in the algebraic sense (`a = q·G + r`) with `min |a| w` coefficients -/
theorem polyMod_is_remainder (p a : List Bool) :
    (∃ q, ∀ i, hcoeff a i = (coeff (pmul q (true :: p).reverse) i != hcoeff (polyMod (true :: p) a) i)) ∧
      (polyMod (true :: p) a).length = min a.length p.length :=
  ⟨polyMod_spec p a, polyMod_length p a⟩

/-- uniqueness of the remainder of a division by a monic polynomial of degree `w`, for arbitrary quotients -/
theorem gf2_remainder_unique (g : List Bool) (w : Nat) (hg : Monic g w) (q q' r r' : List Bool)
    (hr : DegLt r w) (hr' : DegLt r' w)
    (h : ∀ i, coeff (padd (pmul q g) r) i = coeff (padd (pmul q' g) r') i) : ∀ i, coeff r i = coeff r' i :=
  rem_unique g w hg q q' r r' hr hr' h

example : Monic (true :: [false, false, true]).reverse 3 := monic_gen _

/-- characterisation of the algorithm by the algebra: exactly the lists of the right length that are a remainder -/
theorem polyMod_iff_remainder (p a r : List Bool) :
    r = polyMod (true :: p) a ↔
      (r.length = min a.length p.length ∧
        ∃ q, ∀ i, hcoeff a i = (coeff (pmul q (true :: p).reverse) i != hcoeff r i)) :=
  ⟨fun h => h ▸ ⟨polyMod_length p a, polyMod_spec p a⟩, fun ⟨hl, h⟩ => polyMod_unique p a r hl h⟩

/-- `crcPoly` (used by every `*_eq_gf2` theorem) is THE `r` with `M·X^w + init·X^|M| = q·G + r`, `deg r < w` -/
theorem crcPoly_is_the_remainder (p init msg r : List Bool) (hi : init.length = p.length) :
    IsCrcRemainder p init msg r ↔ r = crcPoly (true :: p) init msg :=
  (crcPoly_iff_algebraic p init msg r hi).symm

theorem crcRemainder_unique (p init msg r r' : List Bool) (hi : init.length = p.length)
    (h : IsCrcRemainder p init msg r) (h' : IsCrcRemainder p init msg r') : r = r' := by
  rw [(crcPoly_iff_algebraic p init msg r hi).mpr h, (crcPoly_iff_algebraic p init msg r' hi).mpr h']

/-- every routine against the algebraic definition (no algorithm on the right-hand side) -/
theorem strmcrc8_algebraic (seed : BitVec 8) (data : List Byte) (r : List Bool) :
    IsCrcRemainder g8_31.tail (toBits seed) (data.flatMap bitsMsbFirst) r ↔ r = toBits (strmcrc8 seed data) := by
  rw [strmcrc8_eq_gf2]
  exact (crcPoly_iff_algebraic g8_31.tail _ _ r (by simp [toBits_length, g8_31])).symm

theorem crc8_algebraic (data : List Byte) (seed : BitVec 8) (r : List Bool) :
    IsCrcRemainder g8_31.tail (toBitsRev seed) (data.flatMap bitsLsbFirst) r ↔
      (r = toBitsRev (crc8 data seed) ∧ r = toBitsRev (crc8Table data seed)) := by
  rw [crc8Table_eq_gf2, crc8_eq_gf2, and_self]
  exact (crcPoly_iff_algebraic g8_31.tail _ _ r (by simp [toBitsRev_length, g8_31])).symm

theorem crc16_algebraic (data : List Byte) (seed : BitVec 16) (r : List Bool) :
    IsCrcRemainder g16_1021.tail (toBits seed) (data.flatMap bitsMsbFirst) r ↔ r = toBits (crc16 data seed) := by
  rw [crc16_eq_gf2]
  exact (crcPoly_iff_algebraic g16_1021.tail _ _ r (by simp [toBits_length, g16_1021])).symm

theorem mmcCrc7_algebraic (data : List Byte) :
    ∃ v : BitVec 7, mmcCrc7 data = v.zeroExtend 8 ∧
      ∀ r, IsCrcRemainder g7_09.tail (List.replicate 7 false) (data.flatMap bitsMsbFirst) r ↔ r = toBits v := by
  obtain ⟨v, hv, hg⟩ := mmcCrc7_eq_gf2 data
  refine ⟨v, hv, fun r => ?_⟩
  rw [hg]
  exact (crcPoly_iff_algebraic g7_09.tail _ _ r (by simp [g7_09])).symm

theorem crc32_algebraic (data : List Byte) (seed : BitVec 32) (r : List Bool) :
    IsCrcRemainder g32_04C11DB7.tail (toBits seed) ((crc32BitOrder data).flatMap bitsMsbFirst) r ↔
      (crc32 data data.length seed).map toBits = some r := by
  rw [crc32_eq_gf2, Option.some.injEq, eq_comm]
  exact (crcPoly_iff_algebraic g32_04C11DB7.tail _ _ r (by simp [toBits_length, g32_04C11DB7])).symm

/-- how a register is read as a polynomial in `IsCrcRemainder … (toBits v)`: the coefficient of `X^i` is bit `i` of `v`
(MSB-first CRCs), -/
theorem hcoeff_toBits {w : Nat} (x : BitVec w) (i : Nat) : hcoeff (toBits x) i = x.getLsbD i := by
  unfold hcoeff coeff toBits
  by_cases h : i < w
  · rw [List.getD_eq_getElem?_getD, List.getElem?_reverse (by simpa using h)]
    have h2 : w - 1 - i < w := by omega
    have : w - 1 - (w - 1 - i) = i := by omega
    simp [BitVec.getMsbD, h2, this]
  · rw [List.getD_eq_getElem?_getD, List.getElem?_eq_none (by simp; omega)]
    simp
    exact BitVec.getLsbD_of_ge x i (by omega)

/-- … and for the reflected Dallas CRC-8 (`toBitsRev`) the coefficient of `X^i` is bit `w-1-i` (bit 0 holds `X^(w-1)`) -/
theorem hcoeff_toBitsRev {w : Nat} (x : BitVec w) (i : Nat) : hcoeff (toBitsRev x) i = x.getMsbD i := by
  unfold hcoeff coeff toBitsRev
  by_cases h : i < w
  · rw [List.getD_eq_getElem?_getD, List.getElem?_reverse (by simpa using h)]
    have h2 : w - 1 - i < w := by omega
    simp [BitVec.getMsbD, h, h2]
  · rw [List.getD_eq_getElem?_getD, List.getElem?_eq_none (by simp; omega)]
    simp [BitVec.getMsbD]
    omega

/-- the residue clause in algebraic form: a frame (message followed by its own streaming CRC-8) is a MULTIPLE of the
generator - `F(X)·X^8 + init(X)·X^|F| = q(X)·(X^8+X^5+X^4+1)`, remainder zero -/
theorem strm_frame_is_multiple (seed : BitVec 8) (m : List Byte) :
    IsCrcRemainder g8_31.tail (toBits seed) ((m ++ [strmcrc8 seed m]).flatMap bitsMsbFirst) (List.replicate 8 false) := by
  rw [strmcrc8_algebraic, strmcrc8_residue]
  decide

/-- non-vacuity: the catalogue value 0x75 of CRC-7/MMC is a remainder in the algebraic sense -/
example : IsCrcRemainder g7_09.tail (List.replicate 7 false)
    (([0x31, 0x32, 0x33, 0x34, 0x35, 0x36, 0x37, 0x38, 0x39] : List Byte).flatMap bitsMsbFirst) (toBits 0x75#7) :=
  (crcPoly_iff_algebraic g7_09.tail _ _ _ (by simp [g7_09])).mp gf2_check_values.2.2.1.symm

/-- the op `tbl8` reads the 2x16 table out of the compiled routine behaviourally: row `i` of the low half is
`igris_crc8_table` of the one-byte message `i` from seed 0, row `i` of the high half of the byte `16·i` -/
theorem tbl8_readout :
    (List.range 16).map (fun i => crc8Table [BitVec.ofNat 8 i] 0) ++
      (List.range 16).map (fun i => crc8Table [BitVec.ofNat 8 (16 * i)] 0) = dscrcTable := by
  decide +kernel

end Igris.C17
