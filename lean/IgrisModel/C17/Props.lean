import IgrisModel.C17.Model
namespace Igris.C17
open Igris.Proto

/-- Feeding data in pieces with the running value as seed gives the one-shot result. -/
theorem strmcrc8_chain (seed : BitVec 8) (a b : List Byte) :
    strmcrc8 seed (a ++ b) = strmcrc8 (strmcrc8 seed a) b := by
  simp [strmcrc8, List.foldl_append]

end Igris.C17
