/-
  C17 — PROPERTY THEOREMS (statements only use definitions from Model.lean;
  helper lemmas live in Lemmas.lean).

  Property: "For every byte string and seed, the table-driven and bit-serial
  CRC-8 return identical values, and each CRC routine equals an independent
  reference of the same polynomial, bit order and seed.  Feeding data in pieces
  with the running value as seed gives the one-shot result, and the streaming
  CRC-8 of a message followed by its own CRC is 0.  No routine reads a byte
  outside [data, data+length) or needs an aligned buffer."
-/
import IgrisModel.C17.Lemmas
import IgrisModel.C17.RefLemmas
namespace Igris.C17
open Igris.Proto

/-- table-driven Dallas CRC-8 = bit-serial Dallas CRC-8, all seeds, all messages -/
theorem crc8_table_eq_serial (data : List Byte) (seed : BitVec 8) :
    crc8Table data seed = crc8 data seed := by
  unfold crc8Table crc8
  induction data generalizing seed with
  | nil => rfl
  | cons b bs ih => simp only [List.foldl_cons, tblStep_eq_dowStep, ih]

/-! chaining: feeding data in pieces with the running value as seed -/

theorem strmcrc8_chain (seed : BitVec 8) (a b : List Byte) :
    strmcrc8 seed (a ++ b) = strmcrc8 (strmcrc8 seed a) b := by
  simp [strmcrc8, List.foldl_append]

theorem crc8_chain (seed : BitVec 8) (a b : List Byte) :
    crc8 (a ++ b) seed = crc8 b (crc8 a seed) := by
  simp [crc8, List.foldl_append]

theorem crc8Table_chain (seed : BitVec 8) (a b : List Byte) :
    crc8Table (a ++ b) seed = crc8Table b (crc8Table a seed) := by
  simp [crc8Table, List.foldl_append]

theorem crc16_chain (seed : BitVec 16) (a b : List Byte) :
    crc16 (a ++ b) seed = crc16 b (crc16 a seed) := by
  simp [crc16, List.foldl_append]

/-- the streaming CRC-8 of a message followed by its own CRC is 0 -/
theorem strmcrc8_residue (seed : BitVec 8) (m : List Byte) :
    strmcrc8 seed (m ++ [strmcrc8 seed m]) = 0#8 := by
  rw [strmcrc8_chain]
  simp only [strmcrc8, List.foldl_cons, List.foldl_nil, strmStep, BitVec.xor_self]
  decide

/-- The (repaired) CRC-32 never faults when exactly `[0, length)` is mapped,
and its value is a function of those bytes only: the word-wise definition
`crc32Words`. -/
theorem crc32_reads_in_range (mem : List Byte) (length : Nat) (seed : BitVec 32)
    (h : length ≤ mem.length) :
    crc32 mem length seed = some (crc32Words (mem.take length) seed) :=
  crc32_in_bounds' mem length seed h

/-- in particular on an exactly sized buffer -/
theorem crc32_exact_buffer (data : List Byte) (seed : BitVec 32) :
    crc32 data data.length seed = some (crc32Words data seed) := by
  have := crc32_reads_in_range data data.length seed (Nat.le_refl _)
  simpa using this

/-
  FULL STATEMENT (false on the tree, see `crc32_chain_witness`):
     ∀ a b seed, crc32Words (a ++ b) seed = crc32Words b (crc32Words a seed)
  Proved part: split points that are a multiple of four.
  Recorded finding: C17-crc32-split.
-/
theorem crc32_chain_partial (seed : BitVec 32) (a b : List Byte) (h : a.length % 4 = 0) :
    crc32Words (a ++ b) seed = crc32Words b (crc32Words a seed) := by
  induction hn : a.length using Nat.strongRecOn generalizing a seed with
  | _ n ih =>
    match a, h with
    | [], _ => simp [crc32Words]
    | [_], h => simp at h
    | [_, _], h => simp at h
    | [_, _, _], h => simp at h
    | b0 :: b1 :: b2 :: b3 :: rest, h =>
      simp only [List.cons_append, crc32Words_four]
      subst hn
      exact ih rest.length (by simp only [List.length_cons]; omega) _ rest (by simp at h; omega) rfl

/-- the model violates chaining at a split point that is not a multiple of 4 -/
theorem crc32_chain_witness :
    crc32Words ([1#8] ++ [2#8]) 0#32 ≠ crc32Words [2#8] (crc32Words [1#8] 0#32) := by
  decide +kernel

/-- historical: the routine as it was before `fix: igris_crc32 reads the tail
byte-wise` faults on a 1-byte buffer (whole-word tail load) -/
theorem crc32Orig_overread_witness : crc32Orig [0#8] 1 0#32 = none := by decide

/-! ## each routine equals an independent bit-at-a-time reference
(`Ref.lean`: a `w`-bit shift register fed one message bit at a time; all seeds,
all byte strings) -/

/-- `igris_strmcrc8` = CRC-8 poly 0x31 (x^8+x^5+x^4+1), MSB first, no reflection -/
theorem strmcrc8_eq_ref (seed : BitVec 8) (data : List Byte) :
    strmcrc8 seed data = refMsb 8 0x31#8 seed data := by
  rw [refMsb_eq_foldl, strmcrc8]
  induction data generalizing seed with
  | nil => rfl
  | cons b bs ih => simp only [List.foldl_cons, strmStep_eq_ref, ih]

/-- `igris_crc8` = Dallas/Maxim CRC-8, reflected poly 0x8C, LSB first -/
theorem crc8_eq_ref (data : List Byte) (seed : BitVec 8) :
    crc8 data seed = refLsb 0x8C#8 seed data := by
  rw [refLsb_eq_foldl, crc8]
  induction data generalizing seed with
  | nil => rfl
  | cons b bs ih => simp only [List.foldl_cons, dowStep_eq_ref, ih]

/-- hence also the table-driven routine -/
theorem crc8Table_eq_ref (data : List Byte) (seed : BitVec 8) :
    crc8Table data seed = refLsb 0x8C#8 seed data := by
  rw [crc8_table_eq_serial, crc8_eq_ref]

/-- `igris_crc16` = CRC-16/CCITT poly 0x1021, MSB first (XMODEM for seed 0) -/
theorem crc16_eq_ref (data : List Byte) (seed : BitVec 16) :
    crc16 data seed = refMsb 16 0x1021#16 seed data := by
  rw [refMsb_eq_foldl, crc16]
  induction data generalizing seed with
  | nil => rfl
  | cons b bs ih => simp only [List.foldl_cons, crc16Step_eq_ref, ih]

/-- `igris_mmc_crc7` as written: an 8-bit register with poly `0x89 << 1`
(truncated: 0x12), result shifted right by one -/
theorem mmcCrc7_eq_ref8 (data : List Byte) :
    mmcCrc7 data = refMsb 8 0x12#8 0#8 data >>> 1 := by
  rw [refMsb_eq_foldl, mmcCrc7]
  congr 1
  generalize (0#8 : BitVec 8) = seed
  induction data generalizing seed with
  | nil => rfl
  | cons b bs ih => simp only [List.foldl_cons, mmcStep_eq_ref, ih]

/-- … which is the genuine 7-bit CRC-7/MMC (poly x^7+x^3+1 = 0x09, seed 0,
MSB first) of the message, zero-extended to the returned `uint8_t` -/
theorem mmcCrc7_eq_crc7 (data : List Byte) :
    mmcCrc7 data = (refMsb 7 0x09#7 0#7 data).zeroExtend 8 := by
  rw [mmcCrc7_eq_ref8]
  have h := crc7_fold (data.flatMap bitsMsbFirst) 0#7
  have z : (0#7 : BitVec 7).zeroExtend 8 <<< 1 = 0#8 := by decide
  rw [z] at h
  rw [refMsb, h, crc7_unshift]; rfl

/-- `igris_crc32` (value-level `crc32Words`, see `crc32_reads_in_range`) =
CRC-32 poly 0x04C11DB7, MSB first, no reflection, no final xor, over the bytes
in STM32 word order (`crc32BitOrder`: each little-endian word most significant
byte first, the tail zero-padded to a word) -/
theorem crc32Words_eq_ref (data : List Byte) (seed : BitVec 32) :
    crc32Words data seed = refMsb 32 0x04C11DB7#32 seed (crc32BitOrder data) := by
  induction hn : data.length using Nat.strongRecOn generalizing data seed with
  | _ n ih =>
    match data with
    | [] => simp [crc32Words, crc32BitOrder, refMsb]
    | [a] =>
      simp only [crc32Words, crc32BitOrder]
      rw [refMsb_word, ← wordStep_eq_ref]; rfl
    | [a, b] =>
      simp only [crc32Words, crc32BitOrder]
      rw [refMsb_word, ← wordStep_eq_ref]; rfl
    | [a, b, c] =>
      simp only [crc32Words, crc32BitOrder]
      rw [refMsb_word, ← wordStep_eq_ref]; rfl
    | b0 :: b1 :: b2 :: b3 :: rest =>
      simp only [crc32Words_four, crc32BitOrder]
      rw [refMsb_word, ← wordStep_eq_ref]
      subst hn
      exact ih rest.length (by simp only [List.length_cons]; omega) rest _ rfl

/-- the routine itself on an exactly sized buffer -/
theorem crc32_eq_ref (data : List Byte) (seed : BitVec 32) :
    crc32 data data.length seed = some (refMsb 32 0x04C11DB7#32 seed (crc32BitOrder data)) := by
  rw [crc32_exact_buffer, crc32Words_eq_ref]

/-- sanity anchors for the references themselves (catalogue check values of
"123456789"): CRC-8/MAXIM-DOW = 0xA1, CRC-16/XMODEM = 0x31C3, CRC-7/MMC = 0x75 -/
theorem ref_check_values :
    refLsb 0x8C#8 0#8 [0x31, 0x32, 0x33, 0x34, 0x35, 0x36, 0x37, 0x38, 0x39] = 0xA1#8 ∧
    refMsb 16 0x1021#16 0#16 [0x31, 0x32, 0x33, 0x34, 0x35, 0x36, 0x37, 0x38, 0x39] = 0x31C3#16 ∧
    refMsb 7 0x09#7 0#7 [0x31, 0x32, 0x33, 0x34, 0x35, 0x36, 0x37, 0x38, 0x39] = 0x75#7 := by
  decide +kernel

-- non-vacuity of `crc32_chain_partial`'s hypothesis
example : ([1#8, 2#8, 3#8, 4#8] : List Byte).length % 4 = 0 := by decide

end Igris.C17
