/-
  C17 — PROPERTY THEOREMS (statements only use definitions from Model.lean;
  helper lemmas live in Lemmas.lean).

  Property: "For every byte string and seed, the table-driven and bit-serial
  CRC-8 return identical values, and each CRC routine equals an independent
  reference of the same polynomial, bit order and seed.  Feeding data in pieces
  with the running value as seed gives the one-shot result, and the streaming
  CRC-8 of a message followed by its own CRC is 0.  No routine reads a byte
  outside [data, data+length) or needs an aligned buffer."
-/
import IgrisModel.C17.Lemmas
namespace Igris.C17
open Igris.Proto

/-- table-driven Dallas CRC-8 = bit-serial Dallas CRC-8, all seeds, all messages -/
theorem crc8_table_eq_serial (data : List Byte) (seed : BitVec 8) :
    crc8Table data seed = crc8 data seed := by
  unfold crc8Table crc8
  induction data generalizing seed with
  | nil => rfl
  | cons b bs ih => simp only [List.foldl_cons, tblStep_eq_dowStep, ih]

/-! chaining: feeding data in pieces with the running value as seed -/

theorem strmcrc8_chain (seed : BitVec 8) (a b : List Byte) :
    strmcrc8 seed (a ++ b) = strmcrc8 (strmcrc8 seed a) b := by
  simp [strmcrc8, List.foldl_append]

theorem crc8_chain (seed : BitVec 8) (a b : List Byte) :
    crc8 (a ++ b) seed = crc8 b (crc8 a seed) := by
  simp [crc8, List.foldl_append]

theorem crc8Table_chain (seed : BitVec 8) (a b : List Byte) :
    crc8Table (a ++ b) seed = crc8Table b (crc8Table a seed) := by
  simp [crc8Table, List.foldl_append]

theorem crc16_chain (seed : BitVec 16) (a b : List Byte) :
    crc16 (a ++ b) seed = crc16 b (crc16 a seed) := by
  simp [crc16, List.foldl_append]

/-- the streaming CRC-8 of a message followed by its own CRC is 0 -/
theorem strmcrc8_residue (seed : BitVec 8) (m : List Byte) :
    strmcrc8 seed (m ++ [strmcrc8 seed m]) = 0#8 := by
  rw [strmcrc8_chain]
  simp only [strmcrc8, List.foldl_cons, List.foldl_nil, strmStep, BitVec.xor_self]
  decide

/-- The (repaired) CRC-32 never faults when exactly `[0, length)` is mapped,
and its value is a function of those bytes only: the word-wise definition
`crc32Words`. -/
theorem crc32_reads_in_range (mem : List Byte) (length : Nat) (seed : BitVec 32)
    (h : length ≤ mem.length) :
    crc32 mem length seed = some (crc32Words (mem.take length) seed) :=
  crc32_in_bounds' mem length seed h

/-- in particular on an exactly sized buffer -/
theorem crc32_exact_buffer (data : List Byte) (seed : BitVec 32) :
    crc32 data data.length seed = some (crc32Words data seed) := by
  have := crc32_reads_in_range data data.length seed (Nat.le_refl _)
  simpa using this

/-
  FULL STATEMENT (false on the tree, see `crc32_chain_witness`):
     ∀ a b seed, crc32Words (a ++ b) seed = crc32Words b (crc32Words a seed)
  Proved part: split points that are a multiple of four.
  Recorded finding: C17-crc32-split.
-/
theorem crc32_chain_partial (seed : BitVec 32) (a b : List Byte) (h : a.length % 4 = 0) :
    crc32Words (a ++ b) seed = crc32Words b (crc32Words a seed) := by
  induction hn : a.length using Nat.strongRecOn generalizing a seed with
  | _ n ih =>
    match a, h with
    | [], _ => simp [crc32Words]
    | [_], h => simp at h
    | [_, _], h => simp at h
    | [_, _, _], h => simp at h
    | b0 :: b1 :: b2 :: b3 :: rest, h =>
      simp only [List.cons_append, crc32Words_four]
      subst hn
      exact ih rest.length (by simp only [List.length_cons]; omega) _ rest (by simp at h; omega) rfl

/-- the model violates chaining at a split point that is not a multiple of 4 -/
theorem crc32_chain_witness :
    crc32Words ([1#8] ++ [2#8]) 0#32 ≠ crc32Words [2#8] (crc32Words [1#8] 0#32) := by
  decide +kernel

/-- historical: the routine as it was before `fix: igris_crc32 reads the tail
byte-wise` faults on a 1-byte buffer (whole-word tail load) -/
theorem crc32Orig_overread_witness : crc32Orig [0#8] 1 0#32 = none := by decide

-- non-vacuity of `crc32_chain_partial`'s hypothesis
example : ([1#8, 2#8, 3#8, 4#8] : List Byte).length % 4 = 0 := by decide

end Igris.C17
