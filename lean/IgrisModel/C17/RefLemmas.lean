import IgrisModel.C17.Ref
import IgrisModel.C17.Lemmas
namespace Igris.C17
open Igris.Proto

/-! ## GF(2)-linearity of the reference bit steps -/

theorem xor_cancel_left' {w : Nat} (p x : BitVec w) : p ^^^ (p ^^^ x) = x := by
  rw [← BitVec.xor_assoc, BitVec.xor_self, BitVec.zero_xor]

theorem xor_xor_cancel' {w : Nat} (a b p : BitVec w) : a ^^^ p ^^^ (b ^^^ p) = a ^^^ b := by
  have : a ^^^ p ^^^ (b ^^^ p) = p ^^^ (p ^^^ (a ^^^ b)) := by ac_rfl
  rw [this, xor_cancel_left']

theorem refBitMsb_lin {w : Nat} (poly r1 r2 : BitVec w) (b1 b2 : Bool) :
    refBitMsb poly (r1 ^^^ r2) (b1 ^^ b2) = refBitMsb poly r1 b1 ^^^ refBitMsb poly r2 b2 := by
  simp only [refBitMsb, BitVec.msb_xor, BitVec.shiftLeft_xor_distrib]
  cases r1.msb <;> cases r2.msb <;> cases b1 <;> cases b2 <;> simp [xor_xor_cancel'] <;> ac_rfl

theorem refBitLsb_lin {w : Nat} (poly r1 r2 : BitVec w) (b1 b2 : Bool) :
    refBitLsb poly (r1 ^^^ r2) (b1 ^^ b2) = refBitLsb poly r1 b1 ^^^ refBitLsb poly r2 b2 := by
  simp only [refBitLsb, BitVec.getLsbD_xor, BitVec.ushiftRight_xor_distrib]
  cases r1.getLsbD 0 <;> cases r2.getLsbD 0 <;> cases b1 <;> cases b2 <;> simp [xor_xor_cancel'] <;> ac_rfl

/-- one message byte into the MSB-first register -/
def refByteMsb {w : Nat} (poly reg : BitVec w) (b : Byte) : BitVec w :=
  (bitsMsbFirst b).foldl (refBitMsb poly) reg

def refByteLsb {w : Nat} (poly reg : BitVec w) (b : Byte) : BitVec w :=
  (bitsLsbFirst b).foldl (refBitLsb poly) reg

theorem refMsb_eq_foldl (w : Nat) (poly seed : BitVec w) (data : List Byte) :
    refMsb w poly seed data = data.foldl (refByteMsb poly) seed := by
  unfold refMsb
  induction data generalizing seed with
  | nil => rfl
  | cons b bs ih => simp only [List.flatMap_cons, List.foldl_append, List.foldl_cons, ih]; rfl

theorem refLsb_eq_foldl {w : Nat} (poly seed : BitVec w) (data : List Byte) :
    refLsb poly seed data = data.foldl (refByteLsb poly) seed := by
  unfold refLsb
  induction data generalizing seed with
  | nil => rfl
  | cons b bs ih => simp only [List.flatMap_cons, List.foldl_append, List.foldl_cons, ih]; rfl

theorem refByteMsb_lin {w : Nat} (poly r1 r2 : BitVec w) (c1 c2 : Byte) :
    refByteMsb poly (r1 ^^^ r2) (c1 ^^^ c2) = refByteMsb poly r1 c1 ^^^ refByteMsb poly r2 c2 := by
  simp only [refByteMsb, bitsMsbFirst, List.foldl_cons, List.foldl_nil, BitVec.getLsbD_xor, refBitMsb_lin]

theorem refByteLsb_lin {w : Nat} (poly r1 r2 : BitVec w) (c1 c2 : Byte) :
    refByteLsb poly (r1 ^^^ r2) (c1 ^^^ c2) = refByteLsb poly r1 c1 ^^^ refByteLsb poly r2 c2 := by
  simp only [refByteLsb, bitsLsbFirst, List.foldl_cons, List.foldl_nil, BitVec.getLsbD_xor, refBitLsb_lin]

/-- split a reference byte step into "register only" and "message only" -/
theorem refByteMsb_split {w : Nat} (poly r : BitVec w) (c : Byte) :
    refByteMsb poly r c = refByteMsb poly r 0#8 ^^^ refByteMsb poly 0#w c := by
  have := refByteMsb_lin poly r 0#w 0#8 c
  simpa using this

theorem refByteLsb_split {w : Nat} (poly r : BitVec w) (c : Byte) :
    refByteLsb poly r c = refByteLsb poly r 0#8 ^^^ refByteLsb poly 0#w c := by
  have := refByteLsb_lin poly r 0#w 0#8 c
  simpa using this

/-! ## 8-bit registers: feeding byte `c` = xoring `c` into the register first -/

theorem refByteMsb8_msg (poly : BitVec 8) :
    (∀ c : Byte, refByteMsb poly 0#8 c = refByteMsb poly c 0#8) →
    ∀ r c : Byte, refByteMsb poly r c = refByteMsb poly (r ^^^ c) 0#8 := by
  intro h r c
  rw [refByteMsb_split, h]
  have := refByteMsb_lin poly r c 0#8 0#8
  simpa using this.symm

theorem ref31_msg : ∀ c : Byte, refByteMsb 0x31#8 0#8 c = refByteMsb 0x31#8 c 0#8 := by decide +kernel
theorem ref31_strm : ∀ x : Byte, iter strmShift 8 x = refByteMsb 0x31#8 x 0#8 := by decide +kernel

theorem strmStep_eq_ref (crc c : Byte) : strmStep crc c = refByteMsb 0x31#8 crc c := by
  rw [refByteMsb8_msg _ ref31_msg, strmStep, ref31_strm]

theorem ref12_msg : ∀ c : Byte, refByteMsb 0x12#8 0#8 c = refByteMsb 0x12#8 c 0#8 := by decide +kernel
theorem ref12_mmc : ∀ x : Byte, iter mmcShift 8 x = refByteMsb 0x12#8 x 0#8 := by decide +kernel

theorem mmcStep_eq_ref (crc c : Byte) : mmcStep crc c = refByteMsb 0x12#8 crc c := by
  rw [refByteMsb8_msg _ ref12_msg, mmcStep, ref12_mmc]

theorem ref8C_msg : ∀ c : Byte, refByteLsb 0x8C#8 0#8 c = refByteLsb 0x8C#8 c 0#8 := by decide +kernel
theorem ref8C_dow : ∀ x : Byte, dowStep x 0#8 = refByteLsb 0x8C#8 x 0#8 := by decide +kernel

theorem dowStep_eq_ref (crc c : Byte) : dowStep crc c = refByteLsb 0x8C#8 crc c := by
  rw [dowStep_xor, ref8C_dow, refByteLsb_split 0x8C#8 crc c, ref8C_msg]
  have := refByteLsb_lin 0x8C#8 crc c 0#8 0#8
  simpa using this


/-! ## CRC-7/MMC: the 8-bit register of `igris_mmc_crc7` is the genuine 7-bit
CRC-7 register (poly x^7+x^3+1 = 0x09) kept shifted left by one -/

theorem crc7_bit : ∀ (x : BitVec 7) (b : Bool),
    refBitMsb 0x12#8 (x.zeroExtend 8 <<< 1) b = (refBitMsb 0x09#7 x b).zeroExtend 8 <<< 1 := by
  decide +kernel

theorem crc7_fold (bits : List Bool) (x : BitVec 7) :
    bits.foldl (refBitMsb 0x12#8) (x.zeroExtend 8 <<< 1)
      = (bits.foldl (refBitMsb 0x09#7) x).zeroExtend 8 <<< 1 := by
  induction bits generalizing x with
  | nil => rfl
  | cons b bs ih => simp only [List.foldl_cons, crc7_bit, ih]

theorem crc7_unshift : ∀ x : BitVec 7, (x.zeroExtend 8 <<< 1) >>> 1 = x.zeroExtend 8 := by
  decide +kernel

/-! ## CRC-16: split the register into its two bytes -/

def hi16 (h : Byte) : BitVec 16 := h.zeroExtend 16 <<< 8
def lo16 (l : Byte) : BitVec 16 := l.zeroExtend 16

theorem split16 (c : BitVec 16) : c = hi16 ((c >>> 8).truncate 8) ^^^ lo16 (c.truncate 8) := by
  ext i hi
  simp [hi16, lo16]
  by_cases h : i < 8 <;> simp [h]
  · simp [BitVec.getLsbD_eq_getElem hi]
  · have h1 : 8 + (i - 8) = i := by omega
    have h2 : i - 8 < 8 := by omega
    simp [h1, h2, BitVec.getLsbD_eq_getElem hi]

def c16X (c : BitVec 16) (b : Byte) : Byte := (c >>> 8).truncate 8 ^^^ b
def c16Y (x : Byte) : Byte := x ^^^ (x >>> 4)
def c16Z (c : BitVec 16) (x : Byte) : BitVec 16 :=
  (c <<< 8) ^^^ (x.zeroExtend 16 <<< 12) ^^^ (x.zeroExtend 16 <<< 5) ^^^ x.zeroExtend 16
theorem crc16Step_eq (c : BitVec 16) (b : Byte) : crc16Step c b = c16Z c (c16Y (c16X c b)) := rfl
theorem c16X_lin (c1 c2 : BitVec 16) (b1 b2 : Byte) :
    c16X (c1 ^^^ c2) (b1 ^^^ b2) = c16X c1 b1 ^^^ c16X c2 b2 := by
  simp only [c16X, BitVec.truncate, BitVec.ushiftRight_xor_distrib, BitVec.setWidth_xor]; ac_rfl
theorem c16Y_lin (x y : Byte) : c16Y (x ^^^ y) = c16Y x ^^^ c16Y y := by
  simp only [c16Y, BitVec.ushiftRight_xor_distrib]; ac_rfl
theorem c16Z_lin (c1 c2 : BitVec 16) (b1 b2 : Byte) :
    c16Z (c1 ^^^ c2) (b1 ^^^ b2) = c16Z c1 b1 ^^^ c16Z c2 b2 := by
  simp only [c16Z, BitVec.zeroExtend, BitVec.shiftLeft_xor_distrib, BitVec.setWidth_xor]; ac_rfl
theorem crc16Step_lin (c1 c2 : BitVec 16) (b1 b2 : Byte) :
    crc16Step (c1 ^^^ c2) (b1 ^^^ b2) = crc16Step c1 b1 ^^^ crc16Step c2 b2 := by
  simp only [crc16Step_eq, c16X_lin, c16Y_lin, c16Z_lin]

theorem c16_hi : ∀ h : Byte, crc16Step (hi16 h) 0#8 = refByteMsb 0x1021#16 (hi16 h) 0#8 := by decide +kernel
theorem c16_lo : ∀ l : Byte, crc16Step (lo16 l) 0#8 = refByteMsb 0x1021#16 (lo16 l) 0#8 := by decide +kernel
theorem c16_msg : ∀ b : Byte, crc16Step 0#16 b = refByteMsb 0x1021#16 0#16 b := by decide +kernel

theorem crc16Step_eq_ref (crc : BitVec 16) (b : Byte) : crc16Step crc b = refByteMsb 0x1021#16 crc b := by
  have e1 : crc16Step crc b = crc16Step crc 0#8 ^^^ crc16Step 0#16 b := by
    have := crc16Step_lin crc 0#16 0#8 b; simpa using this
  have e2 : ∀ c : BitVec 16, crc16Step c 0#8 = refByteMsb 0x1021#16 c 0#8 := by
    intro c
    have l1 := crc16Step_lin (hi16 ((c >>> 8).truncate 8)) (lo16 (c.truncate 8)) 0#8 0#8
    have l2 := refByteMsb_lin 0x1021#16 (hi16 ((c >>> 8).truncate 8)) (lo16 (c.truncate 8)) 0#8 0#8
    rw [BitVec.xor_zero, ← split16 c] at l1 l2
    rw [l1, l2, c16_hi, c16_lo]
  rw [e1, e2, c16_msg, ← refByteMsb_split]

/-! ## CRC-32: split register and message word into four bytes each -/

def byteAt (k : Nat) (b : Byte) : BitVec 32 := b.zeroExtend 32 <<< (8 * k)

theorem range4 (i : Nat) (hi : i < 32) :
    (i < 8) ∨ (8 ≤ i ∧ i < 16) ∨ (16 ≤ i ∧ i < 24) ∨ (24 ≤ i ∧ i < 32) := by omega

theorem padWord_xor (b0 b1 b2 b3 : Byte) :
    padWord [b0, b1, b2, b3] = byteAt 0 b0 ^^^ byteAt 1 b1 ^^^ byteAt 2 b2 ^^^ byteAt 3 b3 := by
  ext i hi
  simp [padWord, byteAt]
  rcases range4 i hi with h | ⟨h, h'⟩ | ⟨h, h'⟩ | ⟨h, h'⟩
  · have a1 : i < 16 := by omega
    have a2 : i < 24 := by omega
    simp [h, a1, a2]
  · have a0 : ¬ i < 8 := by omega
    have a2 : i < 24 := by omega
    have a3 : b0.getLsbD i = false := by apply BitVec.getLsbD_of_ge; omega
    simp [a0, h', a2, a3]
  · have a0 : ¬ i < 8 := by omega
    have a1 : ¬ i < 16 := by omega
    have a3 : b0.getLsbD i = false := by apply BitVec.getLsbD_of_ge; omega
    have a4 : b1.getLsbD (i - 8) = false := by apply BitVec.getLsbD_of_ge; omega
    simp [a0, a1, h', a3, a4]
  · have a0 : ¬ i < 8 := by omega
    have a1 : ¬ i < 16 := by omega
    have a2 : ¬ i < 24 := by omega
    have a3 : b0.getLsbD i = false := by apply BitVec.getLsbD_of_ge; omega
    have a4 : b1.getLsbD (i - 8) = false := by apply BitVec.getLsbD_of_ge; omega
    have a5 : b2.getLsbD (i - 16) = false := by apply BitVec.getLsbD_of_ge; omega
    simp [a0, a1, a2, a3, a4, a5]

theorem split32 (c : BitVec 32) :
    c = byteAt 0 (c.truncate 8) ^^^ byteAt 1 ((c >>> 8).truncate 8) ^^^ byteAt 2 ((c >>> 16).truncate 8)
        ^^^ byteAt 3 ((c >>> 24).truncate 8) := by
  ext i hi
  simp [byteAt]
  rcases range4 i hi with h | ⟨h, h'⟩ | ⟨h, h'⟩ | ⟨h, h'⟩
  · have a1 : i < 16 := by omega
    have a2 : i < 24 := by omega
    simp [h, a1, a2, BitVec.getLsbD_eq_getElem hi]
  · have a0 : ¬ i < 8 := by omega
    have a2 : i < 24 := by omega
    have e : 8 + (i - 8) = i := by omega
    have f : i - 8 < 8 := by omega
    simp [a0, h', a2, e, f, BitVec.getLsbD_eq_getElem hi]
  · have a0 : ¬ i < 8 := by omega
    have a1 : ¬ i < 16 := by omega
    have e : 16 + (i - 16) = i := by omega
    have f : i - 16 < 8 := by omega
    have g : ¬ i - 8 < 8 := by omega
    simp [a0, a1, h', e, f, g, BitVec.getLsbD_eq_getElem hi]
  · have a0 : ¬ i < 8 := by omega
    have a1 : ¬ i < 16 := by omega
    have a2 : ¬ i < 24 := by omega
    have e : 24 + (i - 24) = i := by omega
    have f : i - 24 < 8 := by omega
    have g : ¬ i - 8 < 8 := by omega
    have g' : ¬ i - 16 < 8 := by omega
    simp [a0, a1, a2, e, f, g, g', BitVec.getLsbD_eq_getElem hi]

theorem tbl32_lin : ∀ i j : BitVec 4,
    crc32Table.getD (i ^^^ j).toNat 0 = crc32Table.getD i.toNat 0 ^^^ crc32Table.getD j.toNat 0 := by decide

theorem top4 (x : BitVec 32) : (x >>> 28).toNat = (BitVec.extractLsb' 28 4 x).toNat := by
  have := x.isLt
  simp only [BitVec.toNat_ushiftRight, BitVec.extractLsb'_toNat, Nat.shiftRight_eq_div_pow]
  omega

theorem nibStep_lin (a b : BitVec 32) : nibStep (a ^^^ b) = nibStep a ^^^ nibStep b := by
  simp only [nibStep, nibStepWith, top4, BitVec.extractLsb'_xor, tbl32_lin, BitVec.shiftLeft_xor_distrib]
  ac_rfl

theorem iter_lin {α : Type} [XorOp α] (f : α → α) (h : ∀ a b, f (a ^^^ b) = f a ^^^ f b) (n : Nat) (a b : α) :
    iter f n (a ^^^ b) = iter f n a ^^^ iter f n b := by
  induction n generalizing a b with
  | zero => rfl
  | succ n ih => simp only [iter, h, ih]

/-- four message bytes into the reference register, in the order given -/
def refWord {w : Nat} (poly reg : BitVec w) (a b c d : Byte) : BitVec w :=
  refByteMsb poly (refByteMsb poly (refByteMsb poly (refByteMsb poly reg a) b) c) d

theorem refWord_lin {w : Nat} (poly r1 r2 : BitVec w) (a1 a2 b1 b2 c1 c2 d1 d2 : Byte) :
    refWord poly (r1 ^^^ r2) (a1 ^^^ a2) (b1 ^^^ b2) (c1 ^^^ c2) (d1 ^^^ d2)
      = refWord poly r1 a1 b1 c1 d1 ^^^ refWord poly r2 a2 b2 c2 d2 := by
  simp only [refWord, refByteMsb_lin]

abbrev P32 : BitVec 32 := 0x04C11DB7#32

theorem w32_r0 : ∀ x : Byte, iter nibStep 8 (byteAt 0 x) = refWord P32 (byteAt 0 x) 0 0 0 0 := by decide +kernel
theorem w32_r1 : ∀ x : Byte, iter nibStep 8 (byteAt 1 x) = refWord P32 (byteAt 1 x) 0 0 0 0 := by decide +kernel
theorem w32_r2 : ∀ x : Byte, iter nibStep 8 (byteAt 2 x) = refWord P32 (byteAt 2 x) 0 0 0 0 := by decide +kernel
theorem w32_r3 : ∀ x : Byte, iter nibStep 8 (byteAt 3 x) = refWord P32 (byteAt 3 x) 0 0 0 0 := by decide +kernel
theorem w32_m3 : ∀ x : Byte, iter nibStep 8 (byteAt 3 x) = refWord P32 0 x 0 0 0 := by decide +kernel
theorem w32_m2 : ∀ x : Byte, iter nibStep 8 (byteAt 2 x) = refWord P32 0 0 x 0 0 := by decide +kernel
theorem w32_m1 : ∀ x : Byte, iter nibStep 8 (byteAt 1 x) = refWord P32 0 0 0 x 0 := by decide +kernel
theorem w32_m0 : ∀ x : Byte, iter nibStep 8 (byteAt 0 x) = refWord P32 0 0 0 0 x := by decide +kernel

theorem nib8_lin (a b : BitVec 32) : iter nibStep 8 (a ^^^ b) = iter nibStep 8 a ^^^ iter nibStep 8 b :=
  iter_lin nibStep nibStep_lin 8 a b

theorem w32_reg (c : BitVec 32) : iter nibStep 8 c = refWord P32 c 0 0 0 0 := by
  have hR : ∀ a b : BitVec 32, refWord P32 (a ^^^ b) 0 0 0 0 = refWord P32 a 0 0 0 0 ^^^ refWord P32 b 0 0 0 0 := by
    intro a b
    have := refWord_lin P32 a b 0 0 0 0 0 0 0 0; simpa using this
  rw [split32 c]
  simp only [nib8_lin, hR, w32_r0, w32_r1, w32_r2, w32_r3]

theorem w32_msg (b0 b1 b2 b3 : Byte) :
    iter nibStep 8 (padWord [b0, b1, b2, b3]) = refWord P32 0 b3 b2 b1 b0 := by
  have s2 : refWord P32 0 b3 b2 b1 b0 = refWord P32 0 b3 0 0 0 ^^^ refWord P32 0 0 b2 b1 b0 := by
    have := refWord_lin P32 0 0 b3 0 0 b2 0 b1 0 b0; simpa using this
  have s3 : refWord P32 0 0 b2 b1 b0 = refWord P32 0 0 b2 0 0 ^^^ refWord P32 0 0 0 b1 b0 := by
    have := refWord_lin P32 0 0 0 0 b2 0 0 b1 0 b0; simpa using this
  have s4 : refWord P32 0 0 0 b1 b0 = refWord P32 0 0 0 b1 0 ^^^ refWord P32 0 0 0 0 b0 := by
    have := refWord_lin P32 0 0 0 0 0 0 b1 0 0 b0; simpa using this
  rw [padWord_xor, s2, s3, s4]
  simp only [nib8_lin, w32_m0, w32_m1, w32_m2, w32_m3]
  ac_rfl

theorem wordStep_eq_ref (crc : BitVec 32) (b0 b1 b2 b3 : Byte) :
    wordStep crc (padWord [b0, b1, b2, b3]) = refWord P32 crc b3 b2 b1 b0 := by
  have s1 : refWord P32 crc b3 b2 b1 b0 = refWord P32 crc 0 0 0 0 ^^^ refWord P32 0 b3 b2 b1 b0 := by
    have := refWord_lin P32 crc 0 0 b3 0 b2 0 b1 0 b0; simpa using this
  rw [wordStep, nib8_lin, w32_reg, w32_msg, s1]

theorem refMsb_word {w : Nat} (poly reg : BitVec w) (a b c d : Byte) (rest : List Byte) :
    refMsb w poly reg (a :: b :: c :: d :: rest) = refMsb w poly (refWord poly reg a b c d) rest := by
  simp only [refMsb_eq_foldl, List.foldl_cons, refWord]

end Igris.C17
