import IgrisModel.C17.Model
namespace Igris.C17
open Igris.Proto

/-! ## generic -/

theorem iter_succ' {α : Type} (f : α → α) (n : Nat) (x : α) : iter f (n + 1) x = f (iter f n x) := by
  induction n generalizing x with
  | zero => rfl
  | succ n ih => simp only [iter] at *; rw [ih]

/-! ## Dallas CRC-8: the bit-serial step depends only on `crc ^^^ inbyte` -/

theorem dowBit_fst (c i : BitVec 8) :
    (dowBit (c, i)).1 ^^^ (dowBit (c, i)).2 = (dowBit (c ^^^ i, 0#8)).1 := by
  simp only [dowBit, BitVec.xor_zero, BitVec.ushiftRight_xor_distrib]
  split <;> ac_rfl

theorem dowBit_snd_zero (x : BitVec 8) : (dowBit (x, 0#8)).2 = 0#8 := by
  simp [dowBit]

theorem iter_dowBit_zero (n : Nat) (x : BitVec 8) : (iter dowBit n (x, 0#8)).2 = 0#8 := by
  induction n generalizing x with
  | zero => rfl
  | succ n ih =>
    have : dowBit (x, 0#8) = ((dowBit (x, 0#8)).1, 0#8) := Prod.ext rfl (dowBit_snd_zero x)
    simp only [iter]; rw [this]; exact ih _

theorem iter_dowBit_rel (n : Nat) (c i : BitVec 8) :
    (iter dowBit n (c, i)).1 ^^^ (iter dowBit n (c, i)).2 = (iter dowBit n (c ^^^ i, 0#8)).1 := by
  induction n generalizing c i with
  | zero => simp [iter]
  | succ n ih =>
    simp only [iter]
    have h0 : dowBit (c ^^^ i, 0#8) = ((dowBit (c ^^^ i, 0#8)).1, 0#8) :=
      Prod.ext rfl (dowBit_snd_zero (c ^^^ i))
    rw [h0, ← dowBit_fst c i]
    have := ih (dowBit (c, i)).1 (dowBit (c, i)).2
    simpa using this

theorem iter_dowBit_snd (n : Nat) (c i : BitVec 8) : (iter dowBit n (c, i)).2 = i >>> n := by
  induction n generalizing c i with
  | zero => simp [iter]
  | succ n ih =>
    simp only [iter]
    have : dowBit (c, i) = ((dowBit (c, i)).1, i >>> 1) := by simp [dowBit]
    rw [this, ih, ← BitVec.shiftRight_add, Nat.add_comm]

theorem dowStep_xor (c i : BitVec 8) : dowStep c i = dowStep (c ^^^ i) 0#8 := by
  have h := iter_dowBit_rel 8 c i
  have h2 : (iter dowBit 8 (c, i)).2 = 0#8 := by
    rw [iter_dowBit_snd]; exact BitVec.ushiftRight_eq_zero (by simp)
  rw [h2, BitVec.xor_zero] at h
  exact h

theorem tblStep_xor (c b : BitVec 8) : tblStep c b = tblStep (c ^^^ b) 0#8 := by
  simp [tblStep, tblStepWith, BitVec.xor_comm]

theorem tbl_eq_dow_zero : ∀ x : BitVec 8, tblStep x 0#8 = dowStep x 0#8 := by decide +kernel

theorem tblStep_eq_dowStep (c b : BitVec 8) : tblStep c b = dowStep c b := by
  rw [tblStep_xor, dowStep_xor, tbl_eq_dow_zero]

end Igris.C17

namespace Igris.C17
open Igris.Proto

/-! ## crc32: the repaired routine reads only `[0, length)` -/

theorem loadBytes_ok (mem : List Byte) (off n : Nat) (h : off + n ≤ mem.length) :
    loadBytes mem off n = some ((mem.drop off).take n) := by
  induction n generalizing off with
  | zero => simp [loadBytes]
  | succ n ih =>
    have h1 : off < mem.length := by omega
    simp only [loadBytes, List.getElem?_eq_getElem h1, ih (off + 1) (by omega)]
    simp only [Option.bind_eq_bind, Option.bind_some, Option.pure_def, Option.some.injEq]
    rw [List.drop_eq_getElem_cons h1, List.take_succ_cons]

theorem crc32Words_four (b0 b1 b2 b3 : Byte) (rest : List Byte) (crc : BitVec 32) :
    crc32Words (b0 :: b1 :: b2 :: b3 :: rest) crc = crc32Words rest (wordStep crc (padWord [b0, b1, b2, b3])) := by
  simp [crc32Words]

theorem take4_of_length {l : List Byte} (h : 4 ≤ l.length) :
    ∃ b0 b1 b2 b3 rest, l = b0 :: b1 :: b2 :: b3 :: rest := by
  match l, h with
  | b0 :: b1 :: b2 :: b3 :: rest, _ => exact ⟨b0, b1, b2, b3, rest, rfl⟩

/-- body loop = `crc32Words` over the first `4*n` bytes from word index `i` -/
theorem crc32BodyF_ok (mem : List Byte) (n i : Nat) (crc : BitVec 32) (h : 4 * (i + n) ≤ mem.length) :
    ∃ c, crc32BodyF mem n i crc = some c ∧
      ∀ tl : List Byte, crc32Words ((mem.drop (4 * i)).take (4 * n) ++ tl) crc = crc32Words tl c := by
  induction n generalizing i crc with
  | zero => exact ⟨crc, rfl, by simp⟩
  | succ n ih =>
    have hl := loadBytes_ok mem (4 * i) 4 (by omega)
    obtain ⟨c, hc, hw⟩ := ih (i + 1) (wordStep crc (padWord ((mem.drop (4 * i)).take 4))) (by omega)
    refine ⟨c, ?_, ?_⟩
    · simp only [crc32BodyF, hl, Option.bind_eq_bind, Option.bind_some]; exact hc
    · intro tl
      have hlen : 4 ≤ (mem.drop (4 * i)).length := by simp; omega
      obtain ⟨b0, b1, b2, b3, rest, hr⟩ := take4_of_length hlen
      have hd : mem.drop (4 * (i + 1)) = rest := by
        have : mem.drop (4 * (i + 1)) = (mem.drop (4 * i)).drop 4 := by
          rw [List.drop_drop]; congr 1
        rw [this, hr]; rfl
      have h4 : (mem.drop (4 * i)).take 4 = [b0, b1, b2, b3] := by rw [hr]; rfl
      rw [hd, h4] at hw
      rw [hr]
      have : 4 * (n + 1) = (4 * n) + 4 := by omega
      rw [this]
      simp only [List.take_succ_cons, List.cons_append, crc32Words_four]
      simpa using hw tl

end Igris.C17

namespace Igris.C17
open Igris.Proto

theorem crc32Words_tail (tl : List Byte) (c : BitVec 32) (h0 : 0 < tl.length) (h4 : tl.length < 4) :
    crc32Words tl c = wordStep c (padWord tl) := by
  match tl, h0, h4 with
  | [a], _, _ => simp [crc32Words]
  | [a, b], _, _ => simp [crc32Words]
  | [a, b, d], _, _ => simp [crc32Words]

theorem crc32_in_bounds' (mem : List Byte) (length : Nat) (seed : BitVec 32) (h : length ≤ mem.length) :
    crc32 mem length seed = some (crc32Words (mem.take length) seed) := by
  obtain ⟨c, hc, hw⟩ := crc32BodyF_ok mem (length / 4) 0 seed (by omega)
  have hsplit : mem.take length = (mem.drop (4 * 0)).take (4 * (length / 4)) ++ (mem.drop (4 * (length / 4))).take (length % 4) := by
    have : length = 4 * (length / 4) + length % 4 := by omega
    conv => lhs; rw [this]
    rw [List.take_add]; simp
  rw [hsplit, hw]
  unfold crc32
  simp only [hc, Option.bind_eq_bind, Option.bind_some]
  by_cases ht : length % 4 = 0
  · simp [ht, crc32Words]
  · have hl := loadBytes_ok mem (4 * (length / 4)) (length % 4) (by omega)
    simp only [ht, if_false, hl, Option.bind_some, Option.pure_def]
    rw [crc32Words_tail]
    · simp; omega
    · simp; omega

end Igris.C17
