/-
  C17 — independent bit-at-a-time CRC references ("Rocksoft" shift register),
  written without looking at crc.c: a `w`-bit register, the message consumed
  one bit at a time.

  * MSB-first (non-reflected):  fb := msb(reg) ≠ bit; reg := reg << 1;
                                 if fb then reg := reg ^ poly
    message bits of each byte taken most significant bit first;
  * LSB-first (reflected):      fb := lsb(reg) ≠ bit; reg := reg >> 1;
                                 if fb then reg := reg ^ polyrev
    message bits of each byte taken least significant bit first.
-/
import IgrisModel.C17.Model
namespace Igris.C17
open Igris.Proto

/-- one message bit into an MSB-first CRC register -/
def refBitMsb {w : Nat} (poly reg : BitVec w) (bit : Bool) : BitVec w :=
  let fb := reg.msb != bit
  let r := reg <<< 1
  if fb then r ^^^ poly else r

/-- one message bit into an LSB-first (reflected) CRC register -/
def refBitLsb {w : Nat} (polyrev reg : BitVec w) (bit : Bool) : BitVec w :=
  let fb := reg.getLsbD 0 != bit
  let r := reg >>> 1
  if fb then r ^^^ polyrev else r

/-- the bits of a byte, most significant first -/
def bitsMsbFirst (b : Byte) : List Bool :=
  [b.getLsbD 7, b.getLsbD 6, b.getLsbD 5, b.getLsbD 4, b.getLsbD 3, b.getLsbD 2, b.getLsbD 1, b.getLsbD 0]

/-- the bits of a byte, least significant first -/
def bitsLsbFirst (b : Byte) : List Bool :=
  [b.getLsbD 0, b.getLsbD 1, b.getLsbD 2, b.getLsbD 3, b.getLsbD 4, b.getLsbD 5, b.getLsbD 6, b.getLsbD 7]

/-- MSB-first CRC of width `w`, polynomial `poly` (without the top term),
initial register `seed`, no reflection, no final xor: the message is the bit
string `data.flatMap bitsMsbFirst`. -/
def refMsb (w : Nat) (poly seed : BitVec w) (data : List Byte) : BitVec w :=
  (data.flatMap bitsMsbFirst).foldl (refBitMsb poly) seed

/-- reflected CRC (8-bit register is all crc.c needs): the message is the bit
string `data.flatMap bitsLsbFirst`. -/
def refLsb {w : Nat} (polyrev seed : BitVec w) (data : List Byte) : BitVec w :=
  (data.flatMap bitsLsbFirst).foldl (refBitLsb polyrev) seed

/-- The order in which `igris_crc32` consumes message bytes: every 4-byte
group reversed (little-endian word, most significant byte first), a final
group of 1–3 bytes zero-padded to 4 bytes first. -/
def crc32BitOrder : List Byte → List Byte
  | b0 :: b1 :: b2 :: b3 :: rest => b3 :: b2 :: b1 :: b0 :: crc32BitOrder rest
  | [] => []
  | tl => [tl.getD 3 0#8, tl.getD 2 0#8, tl.getD 1 0#8, tl.getD 0 0#8]

end Igris.C17
