import IgrisModel.C17.Gf2Lemmas
namespace Igris.C17

/-! GF(2)[X] as coefficient lists, LOWEST degree first; trailing `false`s are insignificant,
    so polynomials are compared coefficient-wise (`coeff`). -/
def coeff (p : List Bool) (i : Nat) : Bool := p.getD i false
def padd : List Bool → List Bool → List Bool
  | [], q => q
  | p, [] => p
  | a :: p, b :: q => (a != b) :: padd p q
def pmul : List Bool → List Bool → List Bool
  | [], _ => []
  | a :: p, q => padd (if a then q else []) (false :: pmul p q)
/-- coefficient of X^i of a HIGHEST-first list (the convention of Gf2.lean) -/
def hcoeff (l : List Bool) (i : Nat) : Bool := coeff l.reverse i
/-- `g` has degree exactly `w` (leading coefficient 1) -/
def Monic (g : List Bool) (w : Nat) : Prop := coeff g w = true ∧ ∀ i, w < i → coeff g i = false
/-- degree of `r` is below `w` -/
def DegLt (r : List Bool) (w : Nat) : Prop := ∀ i, w ≤ i → coeff r i = false

/-! ## coefficients -/

@[simp] theorem coeff_nil (i : Nat) : coeff [] i = false := by simp [coeff]
@[simp] theorem coeff_cons_zero (a : Bool) (p : List Bool) : coeff (a :: p) 0 = a := by simp [coeff]
@[simp] theorem coeff_cons_succ (a : Bool) (p : List Bool) (i : Nat) :
    coeff (a :: p) (i + 1) = coeff p i := by simp [coeff]

theorem padd_nil_right (p : List Bool) : padd p [] = p := by cases p <;> rfl

theorem coeff_padd (p q : List Bool) (i : Nat) : coeff (padd p q) i = (coeff p i != coeff q i) := by
  induction p generalizing q i with
  | nil => simp [padd]
  | cons a p ih =>
    cases q with
    | nil => simp [padd]
    | cons b q =>
      cases i with
      | zero => simp [padd]
      | succ i => simp [padd, ih]

@[simp] theorem pmul_nil (g : List Bool) : pmul [] g = [] := rfl

theorem coeff_pmul_cons_zero (a : Bool) (p g : List Bool) :
    coeff (pmul (a :: p) g) 0 = (a && coeff g 0) := by
  simp only [pmul, coeff_padd, coeff_cons_zero]
  cases a <;> simp

theorem coeff_pmul_cons_succ (a : Bool) (p g : List Bool) (i : Nat) :
    coeff (pmul (a :: p) g) (i + 1) = ((a && coeff g (i + 1)) != coeff (pmul p g) i) := by
  simp only [pmul, coeff_padd, coeff_cons_succ]
  cases a <;> simp

/-- multiplication distributes over addition (coefficient-wise) -/
theorem coeff_pmul_padd (q q' g : List Bool) (i : Nat) :
    coeff (pmul (padd q q') g) i = (coeff (pmul q g) i != coeff (pmul q' g) i) := by
  induction q generalizing q' i with
  | nil => simp [padd]
  | cons a p ih =>
    cases q' with
    | nil => simp [padd]
    | cons b p' =>
      cases i with
      | zero =>
        simp only [padd, coeff_pmul_cons_zero]
        cases a <;> cases b <;> simp
      | succ i =>
        simp only [padd, coeff_pmul_cons_succ, ih]
        cases a <;> cases b <;> cases coeff g (i + 1) <;> cases coeff (pmul p g) i <;>
          cases coeff (pmul p' g) i <;> rfl

theorem pmul_zero (q g : List Bool) (hq : ∀ i, coeff q i = false) : ∀ j, coeff (pmul q g) j = false := by
  induction q with
  | nil => intro j; simp
  | cons a p ih =>
    have ha : a = false := by simpa using hq 0
    have hp : ∀ i, coeff p i = false := fun i => by simpa using hq (i + 1)
    intro j
    cases j with
    | zero => simp [coeff_pmul_cons_zero, ha]
    | succ j => simp [coeff_pmul_cons_succ, ha, ih hp j]

/-- a non-zero multiple of a polynomial of degree w has a non-zero coefficient at some index ≥ w -/
theorem pmul_monic_high (g : List Bool) (w : Nat) (hg : Monic g w) (q : List Bool)
    (hq : ∃ i, coeff q i = true) : ∃ j, w ≤ j ∧ coeff (pmul q g) j = true := by
  induction q with
  | nil => obtain ⟨i, hi⟩ := hq; simp at hi
  | cons a p ih =>
    by_cases hp : ∃ i, coeff p i = true
    · obtain ⟨j, hj, hc⟩ := ih hp
      refine ⟨j + 1, by omega, ?_⟩
      rw [coeff_pmul_cons_succ, hg.2 (j + 1) (by omega), hc]
      simp
    · have hp0 : ∀ i, coeff p i = false := by
        intro i
        cases h : coeff p i with
        | false => rfl
        | true => exact absurd ⟨i, h⟩ hp
      have ha : a = true := by
        obtain ⟨i, hi⟩ := hq
        cases i with
        | zero => simpa using hi
        | succ i => rw [coeff_cons_succ, hp0 i] at hi; cases hi
      refine ⟨w, Nat.le_refl _, ?_⟩
      cases w with
      | zero => rw [coeff_pmul_cons_zero, ha, hg.1]; rfl
      | succ w => rw [coeff_pmul_cons_succ, ha, hg.1, pmul_zero p g hp0 w]; rfl

/-- UNIQUENESS of quotient-remainder decomposition by a monic g: the remainder is unique -/
theorem rem_unique (g : List Bool) (w : Nat) (hg : Monic g w) (q q' r r' : List Bool)
    (hr : DegLt r w) (hr' : DegLt r' w)
    (h : ∀ i, coeff (padd (pmul q g) r) i = coeff (padd (pmul q' g) r') i) :
    ∀ i, coeff r i = coeff r' i := by
  have key : ∀ i, coeff (pmul (padd q q') g) i = (coeff r i != coeff r' i) := by
    intro i
    have hi := h i
    rw [coeff_padd, coeff_padd] at hi
    rw [coeff_pmul_padd]
    revert hi
    cases coeff (pmul q g) i <;> cases coeff (pmul q' g) i <;> cases coeff r i <;>
      cases coeff r' i <;> simp
  have hz : ∀ i, coeff (pmul (padd q q') g) i = false := by
    by_cases hd : ∃ i, coeff (padd q q') i = true
    · obtain ⟨j, hj, hc⟩ := pmul_monic_high g w hg _ hd
      rw [key j, hr j hj, hr' j hj] at hc
      cases hc
    · apply pmul_zero
      intro i
      cases h : coeff (padd q q') i with
      | false => rfl
      | true => exact absurd ⟨i, h⟩ hd
  intro i
  have h1 := key i
  rw [hz i] at h1
  revert h1
  cases coeff r i <;> cases coeff r' i <;> simp

/-! ## highest-first lists -/

theorem hcoeff_nil (i : Nat) : hcoeff [] i = false := by simp [hcoeff]

theorem hcoeff_cons (a : Bool) (as : List Bool) (i : Nat) :
    hcoeff (a :: as) i = if i = as.length then a else hcoeff as i := by
  simp only [hcoeff, coeff, List.reverse_cons, List.getD_eq_getElem?_getD, List.getElem?_append]
  by_cases h1 : i < as.length
  · simp [h1]; omega
  · by_cases h2 : i = as.length
    · simp [h2]
    · simp [h1, h2]
      obtain ⟨k, hk⟩ : ∃ k, i - as.length = k + 1 := ⟨i - as.length - 1, by omega⟩
      rw [hk]
      simp

theorem hcoeff_ge (l : List Bool) (i : Nat) (h : l.length ≤ i) : hcoeff l i = false := by
  simp [hcoeff, coeff, List.getD_eq_getElem?_getD, h]

theorem hcoeff_xorFront (as p : List Bool) (i : Nat) (h : p.length ≤ as.length) :
    hcoeff (xorFront as p) i =
      (hcoeff as i != (decide (as.length - p.length ≤ i) && hcoeff p (i - (as.length - p.length)))) := by
  induction as generalizing p with
  | nil =>
    simp [xorFront, hcoeff_nil]
    have : p = [] := by cases p with
      | nil => rfl
      | cons _ _ => simp at h
    simp [this, hcoeff_nil]
  | cons a as ih =>
    cases p with
    | nil => simp [xorFront, hcoeff_nil]
    | cons b p =>
      have hl : p.length ≤ as.length := by simpa using h
      simp only [xorFront, hcoeff_cons, xorFront_length, List.length_cons, Nat.add_sub_add_right]
      by_cases hi : i = as.length
      · subst hi
        have h1 : as.length - p.length ≤ as.length := by omega
        have h2 : as.length - (as.length - p.length) = p.length := by omega
        simp [h1, h2]
      · rw [if_neg hi, if_neg hi, ih p hl]
        by_cases hd : as.length - p.length ≤ i
        · have h2 : i - (as.length - p.length) ≠ p.length := by omega
          simp [hd, h2]
        · simp [hd]

theorem coeff_pmul_mono (k : Nat) (g : List Bool) (i : Nat) :
    coeff (pmul (List.replicate k false ++ [true]) g) i = (decide (k ≤ i) && coeff g (i - k)) := by
  induction k generalizing i with
  | zero =>
    cases i with
    | zero => simp [coeff_pmul_cons_zero]
    | succ i => simp [coeff_pmul_cons_succ]
  | succ k ih =>
    rw [List.replicate_succ, List.cons_append]
    cases i with
    | zero => simp [coeff_pmul_cons_zero]
    | succ i => simp [coeff_pmul_cons_succ, ih]

/-! ## the long division -/

theorem polyModF_spec (p : List Bool) : ∀ (fuel : Nat) (a : List Bool), a.length ≤ fuel →
    ∃ q, ∀ i, hcoeff a i =
      (coeff (pmul q (true :: p).reverse) i != hcoeff (polyModF (true :: p) fuel a) i) := by
  intro fuel
  induction fuel with
  | zero =>
    intro a h
    exact ⟨[], fun i => by simp [polyModF]⟩
  | succ f ih =>
    intro a h
    cases a with
    | nil => exact ⟨[], fun i => by simp [polyModF]⟩
    | cons a0 as =>
      have hf : as.length ≤ f := by simpa using h
      simp only [polyModF, List.length_cons, List.tail_cons]
      by_cases hlt : as.length + 1 < p.length + 1
      · rw [if_pos hlt]
        exact ⟨[], fun i => by simp⟩
      · rw [if_neg hlt]
        have hpl : p.length ≤ as.length := by omega
        cases a0 with
        | false =>
          obtain ⟨q', hq'⟩ := ih as hf
          refine ⟨q', fun i => ?_⟩
          simp only [Bool.false_eq_true, if_false] at hq' ⊢
          rw [hcoeff_cons, ← hq' i]
          split
          · rename_i hi; rw [hcoeff_ge as i (by omega)]
          · rfl
        | true =>
          simp only [if_true]
          obtain ⟨q', hq'⟩ := ih (xorFront as p) (by rw [xorFront_length]; exact hf)
          refine ⟨padd (List.replicate (as.length - p.length) false ++ [true]) q', fun i => ?_⟩
          have hx := hq' i
          rw [hcoeff_xorFront as p i hpl] at hx
          rw [coeff_pmul_padd, coeff_pmul_mono]
          have hG : coeff (true :: p).reverse (i - (as.length - p.length))
              = hcoeff (true :: p) (i - (as.length - p.length)) := rfl
          rw [hG, hcoeff_cons, hcoeff_cons]
          by_cases hi : i = as.length
          · subst hi
            have h1 : as.length - p.length ≤ as.length := by omega
            have h2 : as.length - (as.length - p.length) = p.length := by omega
            rw [hcoeff_ge as _ (Nat.le_refl _), h2, hcoeff_ge p _ (Nat.le_refl _)] at hx
            simp only [h1, h2, if_true, decide_true, Bool.true_and]
            revert hx
            generalize coeff (pmul q' (true :: p).reverse) as.length = X
            generalize hcoeff (polyModF (true :: p) f (xorFront as p)) as.length = R
            cases X <;> cases R <;> simp
          · rw [if_neg hi]
            by_cases hd : as.length - p.length ≤ i
            · have h2 : i - (as.length - p.length) ≠ p.length := by omega
              rw [if_neg h2]
              revert hx
              generalize coeff (pmul q' (true :: p).reverse) i = X
              generalize hcoeff (polyModF (true :: p) f (xorFront as p)) i = R
              generalize hcoeff as i = A
              generalize hcoeff p (i - (as.length - p.length)) = M
              simp only [hd, decide_true, Bool.true_and]
              cases X <;> cases R <;> cases A <;> cases M <;> simp
            · revert hx
              simp only [hd, decide_false, Bool.false_and]
              simp

/-- EXISTENCE: the long division returns a remainder in the algebraic sense: a = q·G + (polyMod G a), G = X^w + p -/
theorem polyMod_spec (p a : List Bool) :
    ∃ q, ∀ i, hcoeff a i = (coeff (pmul q (true :: p).reverse) i != hcoeff (polyMod (true :: p) a) i) :=
  polyModF_spec p a.length a (Nat.le_refl _)

theorem polyModF_length (p : List Bool) : ∀ (fuel : Nat) (a : List Bool), a.length ≤ fuel →
    (polyModF (true :: p) fuel a).length = min a.length p.length := by
  intro fuel
  induction fuel with
  | zero =>
    intro a h
    have : a = [] := List.length_eq_zero_iff.mp (by omega)
    subst this
    simp [polyModF]
  | succ f ih =>
    intro a h
    cases a with
    | nil => simp [polyModF]
    | cons a0 as =>
      have hf : as.length ≤ f := by simpa using h
      simp only [polyModF, List.length_cons, List.tail_cons]
      by_cases hlt : as.length + 1 < p.length + 1
      · rw [if_pos hlt]
        simp only [List.length_cons]
        omega
      · rw [if_neg hlt]
        cases a0 with
        | false =>
          simp only [Bool.false_eq_true, if_false]
          rw [ih as hf]; omega
        | true =>
          simp only [if_true]
          rw [ih _ (by rw [xorFront_length]; exact hf), xorFront_length]; omega

theorem polyMod_length (p a : List Bool) : (polyMod (true :: p) a).length = min a.length p.length :=
  polyModF_length p a.length a (Nat.le_refl _)

/-- the generator `true :: p` read lowest-first is monic of degree p.length -/
theorem monic_gen (p : List Bool) : Monic (true :: p).reverse p.length := by
  constructor
  · show hcoeff (true :: p) p.length = true
    rw [hcoeff_cons]; simp
  · intro i hi
    show hcoeff (true :: p) i = false
    rw [hcoeff_cons, if_neg (by omega), hcoeff_ge p i (by omega)]

theorem degLt_reverse (l : List Bool) (w : Nat) (h : l.length ≤ w) : DegLt l.reverse w := by
  intro i hi
  exact hcoeff_ge l i (by omega)

theorem eq_of_hcoeff (r r' : List Bool) (hl : r.length = r'.length)
    (h : ∀ i, hcoeff r i = hcoeff r' i) : r = r' := by
  apply List.reverse_inj.mp
  apply List.ext_getElem
  · simpa using hl
  · intro i h1 h2
    have hi := h i
    simp only [hcoeff, coeff, List.getD_eq_getElem?_getD] at hi
    rw [List.getElem?_eq_getElem h1, List.getElem?_eq_getElem h2] at hi
    simpa using hi

/-- CHARACTERISATION: any list of the same length that is a remainder in the algebraic sense IS the result of the long division -/
theorem polyMod_unique (p a r : List Bool) (hl : r.length = min a.length p.length)
    (h : ∃ q, ∀ i, hcoeff a i = (coeff (pmul q (true :: p).reverse) i != hcoeff r i)) :
    r = polyMod (true :: p) a := by
  obtain ⟨q, hq⟩ := h
  obtain ⟨q', hq'⟩ := polyMod_spec p a
  have hlen := polyMod_length p a
  apply eq_of_hcoeff _ _ (by rw [hl, hlen])
  apply rem_unique (true :: p).reverse p.length (monic_gen p) q q' r.reverse
    (polyMod (true :: p) a).reverse
    (degLt_reverse _ _ (by omega)) (degLt_reverse _ _ (by omega))
  intro i
  rw [coeff_padd, coeff_padd]
  exact (hq i).symm.trans (hq' i)

/-! ## round 3b: the CRC dividend `M·X^w + init·X^|M|` coefficient-wise, and the CRC as THE remainder -/

theorem getD_replicate_append (w : Nat) (m : List Bool) (i : Nat) :
    (List.replicate w false ++ m).getD i false = (decide (w ≤ i) && m.getD (i - w) false) := by
  induction w generalizing i with
  | zero => simp
  | succ w ih =>
    cases i with
    | zero => simp [List.replicate_succ]
    | succ i =>
      simp only [List.replicate_succ, List.cons_append, List.getD_cons_succ, ih, Nat.succ_sub_succ,
        Nat.succ_le_succ_iff]

/-- `M·X^w`: the message followed by `w` zero coefficients -/
theorem hcoeff_append_zeros (msg : List Bool) (w i : Nat) :
    hcoeff (msg ++ List.replicate w false) i = (decide (w ≤ i) && hcoeff msg (i - w)) := by
  simp only [hcoeff, coeff, List.reverse_append, List.reverse_replicate, getD_replicate_append]

/-- SPECIFICATION (no division algorithm, no register, no table): `r` is a list of `w = |p|` coefficients and there
is a quotient `q` with  `M(X)·X^w + init(X)·X^|M| = q(X)·(X^w + p(X)) + r(X)`  coefficient by coefficient over
GF(2) (`!=` is the addition; `msg`, `init`, `p`, `r` highest coefficient first, `q` lowest first). -/
def IsCrcRemainder (p init msg r : List Bool) : Prop :=
  r.length = p.length ∧ ∃ q, ∀ i,
    ((decide (p.length ≤ i) && hcoeff msg (i - p.length)) != (decide (msg.length ≤ i) && hcoeff init (i - msg.length)))
      = (coeff (pmul q (true :: p).reverse) i != hcoeff r i)

theorem crcPoly_iff_algebraic (p init msg r : List Bool) (hi : init.length = p.length) :
    r = crcPoly (true :: p) init msg ↔ IsCrcRemainder p init msg r := by
  have hc : crcPoly (true :: p) init msg =
      polyMod (true :: p) (xorFront (msg ++ List.replicate p.length false) init) := by
    simp [crcPoly]
  have hD : ∀ i, hcoeff (xorFront (msg ++ List.replicate p.length false) init) i =
      ((decide (p.length ≤ i) && hcoeff msg (i - p.length)) != (decide (msg.length ≤ i) && hcoeff init (i - msg.length))) := by
    intro i
    rw [hcoeff_xorFront _ _ _ (by simp [hi]), hcoeff_append_zeros]
    simp [hi]
  have hlen : (xorFront (msg ++ List.replicate p.length false) init).length = msg.length + p.length := by
    simp [xorFront_length]
  rw [hc]
  constructor
  · intro h
    subst h
    refine ⟨by rw [polyMod_length, hlen]; omega, ?_⟩
    obtain ⟨q, hq⟩ := polyMod_spec p (xorFront (msg ++ List.replicate p.length false) init)
    exact ⟨q, fun i => by rw [← hD, hq]⟩
  · rintro ⟨hl, q, hq⟩
    exact polyMod_unique p _ r (by rw [hlen]; omega) ⟨q, fun i => by rw [hD, hq]⟩

/-! ## `pmul` is the product of polynomials (convolution of the coefficients) -/

/-- `f 0 + f 1 + … + f (n-1)` over GF(2) -/
def xorSum (f : Nat → Bool) : Nat → Bool
  | 0 => false
  | n + 1 => (xorSum f n != f n)

theorem xorSum_false (n : Nat) : xorSum (fun _ => false) n = false := by
  induction n with
  | zero => rfl
  | succ n ih => simp [xorSum, ih]

theorem xorSum_peel (f : Nat → Bool) (n : Nat) :
    xorSum f (n + 1) = (f 0 != xorSum (fun j => f (j + 1)) n) := by
  induction n with
  | zero => simp [xorSum]
  | succ n ih =>
    rw [xorSum, ih, xorSum]
    cases f 0 <;> cases xorSum (fun j => f (j + 1)) n <;> cases f (n + 1) <;> rfl

theorem coeff_pmul_conv (p q : List Bool) (i : Nat) :
    coeff (pmul p q) i = xorSum (fun j => coeff p j && coeff q (i - j)) (i + 1) := by
  induction p generalizing i with
  | nil => simp [xorSum_false]
  | cons a p ih =>
    cases i with
    | zero => simp [coeff_pmul_cons_zero, xorSum]
    | succ i =>
      rw [coeff_pmul_cons_succ, ih, xorSum_peel (fun j => coeff (a :: p) j && coeff q (i + 1 - j))]
      simp [Nat.add_sub_add_right]

end Igris.C17
