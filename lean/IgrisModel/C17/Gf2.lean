/-
  C17 — the CRC as a remainder of polynomial division over GF(2) (the
  mathematical definition), written without any shift register.

  A polynomial is its coefficient list, HIGHEST degree first.  `polyMod g a` is
  schoolbook long division of `a` by the monic `g` (`g` given with its leading
  1): while the dividend has at least `g.length` coefficients, drop its leading
  coefficient, after subtracting (= xor-ing) `g` aligned at the front when that
  coefficient is 1.  What is left (fewer than `g.length` coefficients) is the
  remainder.

  The CRC of a message `M` (a bit string, first transmitted bit = highest
  coefficient) with a `w`-bit generator `G = X^w + poly` and initial register
  `init` is, in the usual (Rocksoft / Williams) formulation,

      ( M(X)·X^w  +  init(X)·X^|M| )  mod  G(X)

  i.e. the message followed by `w` zero bits, the first `w` bits complemented
  by `init`: `crcPoly g init bits`.
-/
import IgrisModel.C17.Ref
namespace Igris.C17
open Igris.Proto

/-- xor the shorter list into the front of the first one (result as long as the first) -/
def xorFront : List Bool → List Bool → List Bool
  | a :: as, g :: gs => (a != g) :: xorFront as gs
  | [], _ => []
  | as, [] => as

/-- long division, `fuel` ≥ the number of coefficients of the dividend -/
def polyModF (g : List Bool) : Nat → List Bool → List Bool
  | 0, a => a
  | _ + 1, [] => []
  | f + 1, a :: as =>
    if as.length + 1 < g.length then a :: as
    else polyModF g f (if a then xorFront as g.tail else as)

/-- remainder of `a` modulo the monic `g` -/
def polyMod (g a : List Bool) : List Bool := polyModF g a.length a

/-- `(M·X^w + init·X^|M|) mod G`, `w = g.length - 1` -/
def crcPoly (g init msg : List Bool) : List Bool :=
  polyMod g (xorFront (msg ++ List.replicate (g.length - 1) false) init)

/-- coefficients of a register, most significant bit first -/
def toBits {w : Nat} (x : BitVec w) : List Bool := (List.range w).map fun i => x.getMsbD i
/-- … least significant bit first (reflected CRCs keep the highest coefficient in bit 0) -/
def toBitsRev {w : Nat} (x : BitVec w) : List Bool := (List.range w).map fun i => x.getLsbD i

/-- the generators of crc.h / crc.c -/
def g8_31 : List Bool := [true, false, false, true, true, false, false, false, true]            -- X^8+X^5+X^4+1
def g16_1021 : List Bool :=                                                                      -- X^16+X^12+X^5+1
  [true, false, false, false, true, false, false, false, false, false, false, true, false, false, false, false, true]
def g7_09 : List Bool := [true, false, false, false, true, false, false, true]                   -- X^7+X^3+1
def g32_04C11DB7 : List Bool := true :: toBits 0x04C11DB7#32

end Igris.C17
