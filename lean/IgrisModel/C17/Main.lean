import IgrisModel.C17.Model
open Igris.Proto Igris.C17

def bv (w : Nat) (s : String) : Option (BitVec w) := (parseHexNat? s).map (BitVec.ofNat w)

def stepLine (_ : Unit) (line : String) : Unit × String :=
  let r : Option String :=
    match words line with
    | ["reset"] => some "ok"
    | ["tbl8"] => some (bytesHex dscrcTable)
    | ["mmc7", m] => do
        let m ← parseBytes? m
        pure (hexOfNat 2 (mmcCrc7 m).toNat)
    | op :: seed :: m :: rest => do
        let m ← parseBytes? m
        match op with
        | "strm" => do let s ← bv 8 seed; pure (hexOfNat 2 (strmcrc8 s m).toNat)
        | "crc8" => do let s ← bv 8 seed; pure (hexOfNat 2 (crc8 m s).toNat)
        | "crc8t" => do let s ← bv 8 seed; pure (hexOfNat 2 (crc8Table m s).toNat)
        | "crc16" => do let s ← bv 16 seed; pure (hexOfNat 4 (crc16 m s).toNat)
        | "crc32" => do
            let s ← bv 32 seed
            -- the model is given exactly the caller's bytes: a read outside them is a fault
            match crc32 m m.length s with
            | some v => pure (hexOfNat 8 v.toNat)
            | none => pure "fault"
        | "crc32chain" => do
            let s ← bv 32 seed
            let k ← (rest.getD 1 "").toNat?
            let whole ← crc32 m m.length s
            let a ← crc32 (m.take k) k s
            let b ← crc32 (m.drop k) (m.length - k) a
            pure (hexOfNat 8 whole.toNat ++ " " ++ hexOfNat 8 b.toNat)
        | _ => none
    | _ => none
  ((), r.getD "bad-op")

def main : IO Unit := run () stepLine
