import IgrisModel.C17.Model
open Igris.Proto Igris.C17

def bv (w : Nat) (s : String) : Option (BitVec w) := (parseHexNat? s).map (BitVec.ofNat w)

def optHex (digits : Nat) {w : Nat} : Option (BitVec w) → String
  | some v => hexOfNat digits v.toNat
  | none => "fault"

/-! ## round 3: generated long messages, chunked calls, access logs, the streaming object -/

/-- the message generator shared with the harness (`big`/`trunc` ops): a 32-bit LCG, top byte -/
def genGo : Nat → UInt32 → Array Byte → Array Byte
  | 0, _, a => a
  | k + 1, x, a =>
    let x' := x * 1664525 + 1013904223
    genGo k x' (a.push (BitVec.ofNat 8 (x' >>> 24).toNat))

def genData (n : Nat) (gseed : Nat) (mode : Nat) : Array Byte :=
  if mode = 1 then Array.replicate n (BitVec.ofNat 8 gseed)
  else genGo n (UInt32.ofNat gseed) (Array.emptyWithCapacity n)

/-- the `len` bytes at `base`: what a call `routine(p + base, len, …)` is entitled to read -/
def subRd (a : Array Byte) (base len : Nat) : Rd := fun i => if i < len then a[base + i]? else none

/-- `for (off = 0; off < n; off += chunk) seed = routine(p + off, min(chunk, n - off), seed);` (one call with
length 0 for the empty message) -/
def runChunks {σ : Type} (a : Array Byte) (chunk : Nat) (call : Rd → Nat → σ → Option σ) :
    (fuel : Nat) → (off : Nat) → σ → Option σ
  | 0, _, s => some s
  | f + 1, off, s =>
    if off ≥ a.size then some s else
    let l := min chunk (a.size - off)
    match call (subRd a off l) l s with
    | none => none
    | some s' => runChunks a chunk call f (off + l) s'

def chunked {σ : Type} (a : Array Byte) (chunk : Nat) (call : Rd → Nat → σ → Option σ) (s : σ) : Option σ :=
  if a.size = 0 then call (subRd a 0 0) 0 s else runChunks a (if chunk = 0 then a.size else chunk) call (a.size + 1) 0 s

def fst? {α β : Type} : Option (α × β) → Option α := Option.map Prod.fst

def call8 (which : String) : Rd → Nat → BitVec 8 → Option (BitVec 8) := fun rd l s =>
  if which = "crc8" then fst? (crc8G rd logNone (BitVec.ofNat 8 l) s ())
  else fst? (crc8TableG rd logNone (BitVec.ofNat 8 l) s ())
def call16 : Rd → Nat → BitVec 16 → Option (BitVec 16) := fun rd l s => fst? (crc16G rd logNone (BitVec.ofNat 16 l) s ())
def call32 : Rd → Nat → BitVec 32 → Option (BitVec 32) := fun rd l s => fst? (crc32G rd logNone (BitVec.ofNat 32 l) s ())

/-- above this size the 8/16-bit routines are folded with the byte tables (`driver_tables`) -/
def bigLimit : Nat := 70000

def logText (len : Nat) (t : List Ev) : String :=
  if t = (List.range len).map Ev.rd then s!"r[0,{len}) w-" else "unexpected-access-log"

def accOut (digits : Nat) {w : Nat} (len : Nat) : Option (BitVec w × List Ev) → String
  | some (v, t) => hexOfNat digits v.toNat ++ " " ++ logText len t
  | none => "fault"

def parseStrmTok (tok : String) : Option (List StrmOp) :=
  match tok.splitOn ":" with
  | ["i", v] => (bv 8 v).map fun v => [StrmOp.init v]
  | ["f", m] => (parseBytes? m).map fun m => m.map StrmOp.feed
  | _ => none

def strmObj : BitVec 8 → List String → Option (List String)
  | _, [] => some []
  | crc, tok :: rest => do
    let ops ← parseStrmTok tok
    let crc' := strmRun crc ops
    let tl ← strmObj crc' rest
    pure (hexOfNat 2 crc'.toNat :: tl)

def m9 : List Byte := [0x31, 0x32, 0x33, 0x34, 0x35, 0x36, 0x37, 0x38, 0x39]

def round3 (ws : List String) : Option String :=
  match ws with
  | ["tbl32"] => some (" ".intercalate (crc32Table.map fun v => hexOfNat 8 v.toNat))
  -- widths of the length / seed / result types the model embeds (`BitVec 8/16/32` above)
  -- round 3b: compared as "not narrower than" (a widened C type is harmless); the actual sizeof is a tag of the harness
  | ["sizes"] => some "crc8 >=1 >=1 >=1|crc8t >=1 >=1 >=1|crc16 >=2 >=2 >=2|mmc7 >=1 >=1|crc32 >=4 >=4 >=4|strm >=1 >=1"
  | ["premain"] => some (optHex 2 (crc8TableM m9 9 0) ++ " " ++ optHex 2 (crc8M m9 9 0) ++ " " ++ optHex 4 (crc16M m9 9 0) ++ " "
        ++ optHex 2 (mmcCrc7M m9 9) ++ " " ++ optHex 8 (crc32 [0, 0, 0, 0] 4 0xffffffff) ++ " " ++ hexOfNat 2 (strmcrc8 0xff m9).toNat)
  | "strmobj" :: toks => (strmObj 0 toks).map fun vs => " ".intercalate vs
  | ["acc", op, len, seed, m, _] => do
      let m ← parseBytes? m
      let n ← len.toNat?
      match op with
      | "crc8" => do let s ← bv 8 seed; if n < 256 then pure (accOut 2 n (crc8G (listRd m) logEv (BitVec.ofNat 8 n) s [])) else none
      | "crc8t" => do let s ← bv 8 seed; if n < 256 then pure (accOut 2 n (crc8TableG (listRd m) logEv (BitVec.ofNat 8 n) s [])) else none
      | "crc16" => do let s ← bv 16 seed; if n < 65536 then pure (accOut 4 n (crc16G (listRd m) logEv (BitVec.ofNat 16 n) s [])) else none
      | "mmc7" => if n < 256 then pure (accOut 2 n (mmcCrc7G (listRd m) logEv (BitVec.ofNat 8 n) [])) else none
      | "crc32" => do let s ← bv 32 seed; if n < 2 ^ 32 then pure (accOut 8 n (crc32G (listRd m) logEv (BitVec.ofNat 32 n) s [])) else none
      | _ => none
  -- the length argument `n` converted to the parameter's type by the call; the buffer has exactly that many bytes
  | ["trunc", op, n, seed, gseed] => do
      let n ← n.toNat?
      let g ← gseed.toNat?
      match op with
      | "crc8" => do let s ← bv 8 seed; let a := genData (n % 256) g 0; pure (optHex 2 (call8 "crc8" (arrRd a) (n % 256) s))
      | "crc8t" => do let s ← bv 8 seed; let a := genData (n % 256) g 0; pure (optHex 2 (call8 "crc8t" (arrRd a) (n % 256) s))
      | "crc16" => do let s ← bv 16 seed; let a := genData (n % 65536) g 0; pure (optHex 4 (call16 (arrRd a) (n % 65536) s))
      | "mmc7" => let a := genData (n % 256) g 0; pure (optHex 2 (fst? (mmcCrc7G (arrRd a) logNone (BitVec.ofNat 8 n) ())))
      | "crc32" => do let s ← bv 32 seed; let a := genData (n % 2 ^ 32) g 0; pure (optHex 8 (call32 (arrRd a) (n % 2 ^ 32) s))
      | _ => none
  -- big <routine> <n> <seed> <gseed> <mode> <align> <chunk>: generated message, fed in chunks (0 = one call)
  | ["big", op, n, seed, gseed, mode, _, chunk] => do
      let n ← n.toNat?
      let g ← gseed.toNat?
      let mode ← mode.toNat?
      let chunk ← chunk.toNat?
      let a := genData n g mode
      match op with
      | "strm" => do
          let s ← bv 8 seed
          pure (hexOfNat 2 (if n ≤ bigLimit then strmRun s (a.toList.map StrmOp.feed) else a.foldl (tabStep8 strmTab) s).toNat)
      | "crc8" => do
          let s ← bv 8 seed
          if n ≤ bigLimit then pure (optHex 2 (chunked a chunk (call8 "crc8") s))
          else pure (hexOfNat 2 (a.foldl (tabStep8 dowTab) s).toNat)
      | "crc8t" => do
          let s ← bv 8 seed
          if n ≤ bigLimit then pure (optHex 2 (chunked a chunk (call8 "crc8t") s))
          else pure (hexOfNat 2 (a.foldl (tabStep8 tblTab) s).toNat)
      | "crc16" => do
          let s ← bv 16 seed
          if n ≤ bigLimit then pure (optHex 4 (chunked a chunk call16 s))
          else pure (hexOfNat 4 (a.foldl tabStep16 s).toNat)
      | "mmc7" => if n < 256 then pure (optHex 2 (fst? (mmcCrc7G (arrRd a) logNone (BitVec.ofNat 8 n) ()))) else none
      | "crc32" => do
          let s ← bv 32 seed
          pure (optHex 8 (chunked a chunk call32 s))
      | _ => none
  | _ => none

def stepLine (_ : Unit) (line : String) : Unit × String :=
  let r : Option String :=
    match words line with
    | ["reset"] => some "ok"
    | ["tbl8"] => some (bytesHex dscrcTable)
    | ["check"] =>
        let m9 : List Byte := [0x31, 0x32, 0x33, 0x34, 0x35, 0x36, 0x37, 0x38, 0x39]
        some (optHex 2 (crc8M m9 9 0) ++ " " ++ optHex 2 (crc8TableM m9 9 0) ++ " " ++ optHex 2 (mmcCrc7M m9 9) ++ " "
          ++ hexOfNat 2 (strmcrc8 0xff m9).toNat ++ " " ++ optHex 4 (crc16M m9 9 0) ++ " " ++ optHex 4 (crc16M m9 9 0xffff) ++ " "
          ++ optHex 4 (crc16M m9 9 0x1d0f) ++ " " ++ optHex 8 (crc32 [0, 0, 0, 0] 4 0xffffffff) ++ " "
          ++ optHex 8 (crc32 [0x34, 0x33, 0x32, 0x31, 0x38, 0x37, 0x36, 0x35] 8 0xffffffff))
    | "tbl32" :: _ | "sizes" :: _ | "premain" :: _ | "strmobj" :: _ | "acc" :: _ | "trunc" :: _ | "big" :: _ =>
        round3 (words line)
    | ["mmc7", m] => do
        let m ← parseBytes? m
        if m.length < 256 then pure (optHex 2 (mmcCrc7M m (BitVec.ofNat 8 m.length))) else none
    -- explicit length: `<op> <len> <seed> <mapped bytes>` (len may differ from the number of mapped bytes)
    | ["len", op, len, seed, m] => do
        let m ← parseBytes? m
        let n ← len.toNat?
        match op with
        | "crc8" => do let s ← bv 8 seed; if n < 256 then pure (optHex 2 (crc8M m (BitVec.ofNat 8 n) s)) else none
        | "crc8t" => do let s ← bv 8 seed; if n < 256 then pure (optHex 2 (crc8TableM m (BitVec.ofNat 8 n) s)) else none
        | "crc16" => do let s ← bv 16 seed; if n < 65536 then pure (optHex 4 (crc16M m (BitVec.ofNat 16 n) s)) else none
        | "mmc7" => if n < 256 then pure (optHex 2 (mmcCrc7M m (BitVec.ofNat 8 n))) else none
        | "crc32" => do let s ← bv 32 seed; if n < 2 ^ 32 then pure (optHex 8 (crc32 m n s)) else none
        | _ => none
    | op :: seed :: m :: rest => do
        let m ← parseBytes? m
        match op with
        | "strm" => do let s ← bv 8 seed; pure (hexOfNat 2 (strmcrc8 s m).toNat)
        -- the model is given exactly the caller's bytes and the length with its C width
        | "crc8" => do let s ← bv 8 seed; if m.length < 256 then pure (optHex 2 (crc8M m (BitVec.ofNat 8 m.length) s)) else none
        | "crc8t" => do let s ← bv 8 seed; if m.length < 256 then pure (optHex 2 (crc8TableM m (BitVec.ofNat 8 m.length) s)) else none
        | "crc16" => do let s ← bv 16 seed; if m.length < 65536 then pure (optHex 4 (crc16M m (BitVec.ofNat 16 m.length) s)) else none
        | "crc32" => do
            let s ← bv 32 seed
            -- the model is given exactly the caller's bytes: a read outside them is a fault
            -- long messages: the index-level model over an `Array` (`crc32_counter_width`: the same value;
            -- the `List` model pays O(offset) for every load)
            if m.length > 4096 then pure (optHex 8 (call32 (arrRd m.toArray) m.length s)) else
            match crc32 m m.length s with
            | some v => pure (hexOfNat 8 v.toNat)
            | none => pure "fault"
        | "crc32chain" => do
            let s ← bv 32 seed
            let k ← (rest.getD 1 "").toNat?
            let whole ← crc32 m m.length s
            let a ← crc32 (m.take k) k s
            let b ← crc32 (m.drop k) (m.length - k) a
            pure (hexOfNat 8 whole.toNat ++ " " ++ hexOfNat 8 b.toNat)
        | _ => none
    | _ => none
  ((), r.getD "bad-op")

def main : IO Unit := run () stepLine
