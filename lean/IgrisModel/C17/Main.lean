import IgrisModel.C17.Model
open Igris.Proto Igris.C17

def bv (w : Nat) (s : String) : Option (BitVec w) := (parseHexNat? s).map (BitVec.ofNat w)

def optHex (digits : Nat) {w : Nat} : Option (BitVec w) → String
  | some v => hexOfNat digits v.toNat
  | none => "fault"

def stepLine (_ : Unit) (line : String) : Unit × String :=
  let r : Option String :=
    match words line with
    | ["reset"] => some "ok"
    | ["tbl8"] => some (bytesHex dscrcTable)
    | ["check"] =>
        let m9 : List Byte := [0x31, 0x32, 0x33, 0x34, 0x35, 0x36, 0x37, 0x38, 0x39]
        some (optHex 2 (crc8M m9 9 0) ++ " " ++ optHex 2 (crc8TableM m9 9 0) ++ " " ++ optHex 2 (mmcCrc7M m9 9) ++ " "
          ++ hexOfNat 2 (strmcrc8 0xff m9).toNat ++ " " ++ optHex 4 (crc16M m9 9 0) ++ " " ++ optHex 4 (crc16M m9 9 0xffff) ++ " "
          ++ optHex 4 (crc16M m9 9 0x1d0f) ++ " " ++ optHex 8 (crc32 [0, 0, 0, 0] 4 0xffffffff) ++ " "
          ++ optHex 8 (crc32 [0x34, 0x33, 0x32, 0x31, 0x38, 0x37, 0x36, 0x35] 8 0xffffffff))
    | ["mmc7", m] => do
        let m ← parseBytes? m
        if m.length < 256 then pure (optHex 2 (mmcCrc7M m (BitVec.ofNat 8 m.length))) else none
    -- explicit length: `<op> <len> <seed> <mapped bytes>` (len may differ from the number of mapped bytes)
    | ["len", op, len, seed, m] => do
        let m ← parseBytes? m
        let n ← len.toNat?
        match op with
        | "crc8" => do let s ← bv 8 seed; if n < 256 then pure (optHex 2 (crc8M m (BitVec.ofNat 8 n) s)) else none
        | "crc8t" => do let s ← bv 8 seed; if n < 256 then pure (optHex 2 (crc8TableM m (BitVec.ofNat 8 n) s)) else none
        | "crc16" => do let s ← bv 16 seed; if n < 65536 then pure (optHex 4 (crc16M m (BitVec.ofNat 16 n) s)) else none
        | "mmc7" => if n < 256 then pure (optHex 2 (mmcCrc7M m (BitVec.ofNat 8 n))) else none
        | "crc32" => do let s ← bv 32 seed; if n < 2 ^ 32 then pure (optHex 8 (crc32 m n s)) else none
        | _ => none
    | op :: seed :: m :: rest => do
        let m ← parseBytes? m
        match op with
        | "strm" => do let s ← bv 8 seed; pure (hexOfNat 2 (strmcrc8 s m).toNat)
        -- the model is given exactly the caller's bytes and the length with its C width
        | "crc8" => do let s ← bv 8 seed; if m.length < 256 then pure (optHex 2 (crc8M m (BitVec.ofNat 8 m.length) s)) else none
        | "crc8t" => do let s ← bv 8 seed; if m.length < 256 then pure (optHex 2 (crc8TableM m (BitVec.ofNat 8 m.length) s)) else none
        | "crc16" => do let s ← bv 16 seed; if m.length < 65536 then pure (optHex 4 (crc16M m (BitVec.ofNat 16 m.length) s)) else none
        | "crc32" => do
            let s ← bv 32 seed
            -- the model is given exactly the caller's bytes: a read outside them is a fault
            match crc32 m m.length s with
            | some v => pure (hexOfNat 8 v.toNat)
            | none => pure "fault"
        | "crc32chain" => do
            let s ← bv 32 seed
            let k ← (rest.getD 1 "").toNat?
            let whole ← crc32 m m.length s
            let a ← crc32 (m.take k) k s
            let b ← crc32 (m.drop k) (m.length - k) a
            pure (hexOfNat 8 whole.toNat ++ " " ++ hexOfNat 8 b.toNat)
        | _ => none
    | _ => none
  ((), r.getD "bad-op")

def main : IO Unit := run () stepLine
